(* C13: properties of dissemination for ARBITRARY shred sequences (no honesty assumption):
   the blockstore model never panics, InvalidBlock is announced at most once and nothing is announced
   afterwards, and two shreds of one slice with different commitments (root or last flag) always get the
   leader flagged, whatever the order and whatever else is delivered.
   Tag guard (current tree): a shred whose data / coding tag contradicts its index is refused up front and
   leaves no trace, so "delivered" means "delivered with a consistent tag" in the flagging theorems, and a run
   over l has the state and the events of the run over [filter shred_tag_ok l] (run_filter_tag). *)
From Coq Require Import List NArith Bool Arith Lia ZifyBool ZifyNat ZifyN.
From AG Require Import Gen.Params Model.Pool Model.Blockstore Model.BlockstoreSpec Proofs.SlotStateProofs
  Proofs.BlockstoreProofs Proofs.BlockstoreOrderProofs.
Import ListNotations.
Open Scope N_scope.

(* ---------- filters on association lists ---------- *)
Lemma keys_filter_in {V} (f : N * V -> bool) l k : In k (map fst (filter f l)) -> In k (map fst l).
Proof.
  intros H. apply in_map_iff in H. destruct H as [x [<- Hx]]. apply filter_In in Hx. apply in_map. apply Hx.
Qed.
Lemma keys_filter_nodup {V} (f : N * V -> bool) l : NoDup (map fst l) -> NoDup (map fst (filter f l)).
Proof.
  induction l as [|x l IH]; cbn [filter map]; [auto|]. intros H. inversion H as [|? ? Hn Hd]; subst.
  destruct (f x); [|auto]. cbn [map]. constructor; [|auto]. intros C. apply Hn. exact (keys_filter_in f l _ C).
Qed.
Lemma alookup_filter_sub {V} (f : N * V -> bool) l k v : NoDup (map fst l) ->
  alookup k (filter f l) = Some v -> alookup k l = Some v.
Proof.
  intros Hnd H. apply alookup_In in H. apply filter_In in H. apply In_alookup_nodup; [exact Hnd | apply H].
Qed.

(* ---------- well-formedness of the slice table, for arbitrary inputs ---------- *)
Definition WF (d : bdata) : Prop :=
  NoDup (map fst (bd_slices d)) /\
  (forall last k, bd_last d = Some last -> In k (map fst (bd_slices d)) -> k <= last) /\
  (forall r, alookup 0 (bd_slices d) = Some r -> rs_parent r <> None).
Lemma wf_empty : WF bd_empty.
Proof. split; [constructor|]. split; [intros last k _ []|]. intros r H. discriminate. Qed.
Lemma wf_ext d d' : bd_slices d' = bd_slices d -> bd_last d' = bd_last d -> WF d -> WF d'.
Proof. intros E1 E2 H. unfold WF. rewrite E1, E2. exact H. Qed.

Lemma cache_step_frame d s d1 : cache_step d s = Some d1 ->
  bd_slices d1 = bd_slices d /\ bd_last d1 = bd_last d /\ bd_shreds d1 = bd_shreds d /\ bd_completed d1 = bd_completed d.
Proof.
  unfold cache_step. destruct (alookup (b_slice s) (bd_cache d)) as [c|].
  - destruct (commit_eqb c (commitment_of s)); [|discriminate]. intros H. injection H as <-. auto.
  - intros H. injection H as <-. auto.
Qed.

Lemma last_step_wf d1 s d2 : WF d1 -> last_step d1 s = Some d2 ->
  WF d2 /\ (forall last, bd_last d2 = Some last -> b_slice s <= last) /\ bd_cache d2 = bd_cache d1.
Proof.
  intros W. pose proof W as [W1 [W2 W3]]. unfold last_step. destruct (bd_last d1) as [l|] eqn:El.
  - destruct ((b_slice s <? l) && negb (b_last s) || (b_slice s =? l) && b_last s) eqn:C; [|discriminate].
    intros H. injection H as <-. split; [exact W|]. split; [|reflexivity].
    intros last Hl. rewrite El in Hl. injection Hl as <-. lia.
  - destruct (b_last s).
    + destruct (existsb _ (bd_shreds d1)); [discriminate|]. intros H. injection H as <-.
      unfold mark_last_slice. split; [|split; [|reflexivity]].
      * split; [|split]; cbn [bd_slices bd_last].
        -- apply keys_filter_nodup. exact W1.
        -- intros last k Hl Hk. injection Hl as <-. apply in_map_iff in Hk. destruct Hk as [x [<- Hx]].
           apply filter_In in Hx. lia.
        -- intros r Hr. apply W3. exact (alookup_filter_sub _ _ _ _ W1 Hr).
      * cbn [bd_last]. intros last Hl. injection Hl as <-. lia.
    + intros H. injection H as <-. split; [exact W|]. split; [|reflexivity].
      intros last Hl. rewrite El in Hl. discriminate.
Qed.

Lemma rec_slice_wf c d idx d4 rs : WF d -> (forall last, bd_last d = Some last -> idx <= last) ->
  try_reconstruct_slice c d idx = (d4, rs) ->
  WF d4 /\ bd_cache d4 = bd_cache d.
Proof.
  intros W Hidx. pose proof W as [W1 [W2 W3]]. unfold try_reconstruct_slice.
  destruct (bd_completed d); [intros H; injection H as <- <-; split; [exact W | reflexivity]|].
  destruct (alookup idx (bd_slices d)) eqn:Ea; [intros H; injection H as <- <-; split; [exact W | reflexivity]|].
  destruct (deshred c (aget [] idx (bd_shreds d))) as [| | |r];
    try (intros H; injection H as <- <-; split; [exact W | reflexivity]).
  assert (Hins : (rs_parent r <> None \/ idx <> 0) ->
     WF (mkBD (bd_completed (bd_set_shreds d (ainsert idx (fill_missing (aget [] idx (bd_shreds d))) (bd_shreds d))))
              (bd_shreds (bd_set_shreds d (ainsert idx (fill_missing (aget [] idx (bd_shreds d))) (bd_shreds d))))
              (ainsert idx r (bd_slices (bd_set_shreds d (ainsert idx (fill_missing (aget [] idx (bd_shreds d))) (bd_shreds d)))))
              (bd_last (bd_set_shreds d (ainsert idx (fill_missing (aget [] idx (bd_shreds d))) (bd_shreds d))))
              (bd_cache (bd_set_shreds d (ainsert idx (fill_missing (aget [] idx (bd_shreds d))) (bd_shreds d)))))).
  { intros Hp. cbn [bd_set_shreds bd_completed bd_shreds bd_slices bd_last bd_cache]. split; [|split]; cbn [bd_slices bd_last].
    - rewrite ainsert_keys_new by exact Ea. apply NoDup_snoc; [exact W1 | apply alookup_none_keys; exact Ea].
    - intros last k Hl Hk. apply ainsert_keys_incl in Hk. destruct Hk as [->|Hk]; [apply Hidx; exact Hl | exact (W2 _ _ Hl Hk)].
    - intros r0. destruct (N.eq_dec 0 idx) as [<-|Hne].
      + rewrite alookup_ainsert_same. intros H. injection H as <-. destruct Hp as [Hp|Hp]; [exact Hp | congruence].
      + rewrite alookup_ainsert_other by exact Hne. apply W3. }
  destruct (rs_parent r) eqn:Ep.
  - intros H. injection H as <- <-. split; [apply Hins; left; congruence | reflexivity].
  - destruct (idx =? 0) eqn:E0.
    + intros H. injection H as <- <-. split; [|reflexivity]. exact W.
    + intros H. injection H as <- <-. split; [apply Hins; right; lia | reflexivity].
Qed.

Lemma rec_block_wf chk slot d d5 rb : WF d -> try_reconstruct_block chk slot d = (d5, rb) ->
  WF d5 /\ rb <> RBPanic /\ bd_cache d5 = bd_cache d.
Proof.
  intros W. pose proof W as [W1 [W2 W3]]. unfold try_reconstruct_block.
  assert (Hsame : WF d /\ RBNoAction <> RBPanic /\ bd_cache d = bd_cache d)
    by (split; [exact W | split; [discriminate | reflexivity]]).
  destruct (bd_completed d); [intros H; injection H as <- <-; exact Hsame|].
  destruct (bd_last d) as [last|] eqn:El; [|intros H; injection H as <- <-; exact Hsame].
  pose proof W as [_ [W2' W3']].
  destruct (N.of_nat (length (bd_slices d)) =? last + 1) eqn:En; cbn [negb]; [|intros H; injection H as <- <-; exact Hsame].
  assert (H0 : In 0 (map fst (bd_slices d))).
  { assert (Hincl : incl (map fst (bd_slices d)) (seqN 0 (N.to_nat (last + 1)))).
    { intros k Hk. apply seqN_in. pose proof (W2' _ _ El Hk). lia. }
    assert (Hincl' : incl (seqN 0 (N.to_nat (last + 1))) (map fst (bd_slices d))).
    { apply NoDup_length_incl; [exact W1 | | exact Hincl]. rewrite map_length, seqN_len. lia. }
    apply Hincl', seqN_in. lia. }
  apply alookup_in_keys in H0. destruct (alookup 0 (bd_slices d)) as [first|] eqn:Ef; [|congruence].
  pose proof (W3 first eq_refl) as Hp. destruct (rs_parent first) as [p0|]; [|congruence].
  destruct (walk_slices (slices_sorted (bd_slices d)) p0 false) as [parent|].
  - destruct (chk && negb (fst parent <? slot)).
    + intros H. injection H as <- <-. split; [exact W | split; [discriminate | reflexivity]].
    + intros H. injection H as <- <-. split; [|split; [discriminate | reflexivity]].
      split; [|split]; cbn [bd_slices bd_last].
      * apply keys_filter_nodup. exact W1.
      * intros l k Hl Hk. apply (W2' l k); [rewrite El; exact Hl | exact (keys_filter_in _ _ _ Hk)].
      * intros r Hr. apply W3'. rewrite <- Ef. exact (alookup_filter_sub _ _ _ _ W1 Hr).
  - intros H. injection H as <- <-. split; [exact W | split; [discriminate | reflexivity]].
Qed.

Lemma store_step_wf chk c slot d2 s d' r : WF d2 -> (forall last, bd_last d2 = Some last -> b_slice s <= last) ->
  store_step chk c slot d2 s = (d', r) ->
  WF d' /\ r <> APanic /\ bd_cache d' = bd_cache d2 /\
  (forall e, r = AOk (Some e) -> e = BFirstShred \/ exists h p, e = BBlock h p).
Proof.
  intros W Hidx. unfold store_step.
  destruct (alookup (b_index s) (aget [] (b_slice s) (bd_shreds d2))).
  - intros H. injection H as <- <-. split; [|split; [discriminate | split; [|intros e He; discriminate]]].
    + destruct (alookup (b_slice s) (bd_shreds d2)); [exact W | exact (wf_ext d2 _ eq_refl eq_refl W)].
    + destruct (alookup (b_slice s) (bd_shreds d2)); reflexivity.
  - set (d3 := bd_set_shreds d2 _).
    assert (W3 : WF d3) by exact (wf_ext d2 d3 eq_refl eq_refl W).
    destruct (match bd_shreds d2 with [] => true | _ :: _ => false end).
    + intros H. injection H as <- <-. split; [exact W3|]. split; [discriminate|]. split; [reflexivity|].
      intros e He. injection He as <-. left. reflexivity.
    + unfold slice_step. destruct (try_reconstruct_slice c d3 (b_slice s)) as [d4 rs] eqn:Es.
      destruct (rec_slice_wf c d3 (b_slice s) d4 rs W3 Hidx Es) as [W4 Hc4].
      destruct rs.
      * intros H. injection H as <- <-. split; [exact W4|]. split; [discriminate|]. split; [exact Hc4 | intros e He; discriminate].
      * intros H. injection H as <- <-. split; [exact W4|]. split; [discriminate|]. split; [exact Hc4 | intros e He; discriminate].
      * unfold block_step. destruct (try_reconstruct_block chk slot d4) as [d5 rb] eqn:Eb.
        destruct (rec_block_wf chk slot d4 d5 rb W4 Eb) as [W5 [Hnp Hc5]].
        destruct rb; intros H; injection H as <- <-;
          (split; [exact W5|]; split; [try discriminate; congruence|]; split; [rewrite Hc5; exact Hc4|]);
          intros e He; try discriminate. injection He as <-. right. eauto.
Qed.

Lemma commit_eqb_eq a b : commit_eqb a b = true -> a = b.
Proof.
  destruct a as [a1 a2], b as [b1 b2]. unfold commit_eqb. cbn [fst snd]. rewrite andb_true_iff.
  intros [A B]. apply eqb_prop in A. apply N.eqb_eq in B. subst. reflexivity.
Qed.
Lemma commit_eqb_refl a : commit_eqb a a = true.
Proof. destruct a. unfold commit_eqb. cbn [fst snd]. rewrite eqb_reflx, N.eqb_refl. reflexivity. Qed.

(* one BlockData::add_shred on any shred from a well-formed state *)
Lemma add_any chk c slot d s d' r : WF d -> bd_add_shred chk c slot d s = (d', r) ->
  WF d' /\ r <> APanic /\
  (forall e, r = AOk (Some e) -> e = BFirstShred \/ exists h p, e = BBlock h p) /\
  ((r = AErr EEquivocation /\ bd_cache d' = bd_cache d) \/
   (alookup (b_slice s) (bd_cache d') = Some (commitment_of s) /\
    forall k x, alookup k (bd_cache d) = Some x -> alookup k (bd_cache d') = Some x)).
Proof.
  intros W. rewrite bd_add_shred_phases.
  destruct (cache_step d s) as [d1|] eqn:E1.
  2:{ intros H. injection H as <- <-. split; [exact W|]. split; [discriminate|]. split; [intros e He; discriminate|]. left. auto. }
  destruct (cache_step_frame d s d1 E1) as [F1 [F2 _]].
  assert (W1 : WF d1) by exact (wf_ext d d1 F1 F2 W).
  assert (Hc1 : alookup (b_slice s) (bd_cache d1) = Some (commitment_of s) /\
                forall k x, alookup k (bd_cache d) = Some x -> alookup k (bd_cache d1) = Some x).
  { unfold cache_step in E1. destruct (alookup (b_slice s) (bd_cache d)) as [c0|] eqn:Ec.
    - destruct (commit_eqb c0 (commitment_of s)) eqn:Eq; [|discriminate]. injection E1 as <-.
      apply commit_eqb_eq in Eq. subst. auto.
    - injection E1 as <-. cbn [bd_cache]. split; [apply alookup_ainsert_same|].
      intros k x Hk. destruct (N.eq_dec k (b_slice s)) as [->|Hne]; [congruence|].
      rewrite alookup_ainsert_other by exact Hne. exact Hk. }
  destruct (last_step d1 s) as [d2|] eqn:E2.
  2:{ intros H. injection H as <- <-. split; [exact W1|]. split; [discriminate|]. split; [intros e He; discriminate|]. right. exact Hc1. }
  destruct (last_step_wf d1 s d2 W1 E2) as [W2 [Hidx Hc2]].
  intros H. destruct (store_step_wf chk c slot d2 s d' r W2 Hidx H) as [W' [Hnp [Hc' Hev]]].
  split; [exact W'|]. split; [exact Hnp|]. split; [exact Hev|]. right. rewrite Hc', Hc2. exact Hc1.
Qed.

(* ---------- one dissemination step of the slot state, any shred ---------- *)
Definition SdOk (sd : slotdata) : Prop := sd_panicked sd = false /\ WF (sd_dissem sd).

Lemma dissem_step_any c slot sd s sd' r ev : SdOk sd ->
  bs_step true c slot sd (BDissem s) = (sd', r, ev) ->
  SdOk sd' /\ r <> BRPanic /\
  (shred_tag_ok s = false -> sd' = sd /\ ev = [] /\ r = BRErr EInvalidShred) /\
  (sd_misbehaved sd = true -> sd' = sd /\ ev = [] /\ r = BRErr EInvalidShred) /\
  (sd_misbehaved sd = false -> shred_tag_ok s = true ->
     (sd_misbehaved sd' = false /\ ~ In BInvalidBlock ev /\
      alookup (b_slice s) (bd_cache (sd_dissem sd')) = Some (commitment_of s) /\
      (forall k x, alookup k (bd_cache (sd_dissem sd)) = Some x -> alookup k (bd_cache (sd_dissem sd')) = Some x))
     \/ (sd_misbehaved sd' = true /\ ev = [BInvalidBlock])).
Proof.
  intros [Hp W]. destruct (shred_tag_ok s) eqn:T.
  2:{ rewrite (bs_step_tag_bad true c slot sd (BDissem s) Hp T). intros H. injection H as <- <- <-.
      split; [exact (conj Hp W)|]. split; [discriminate|]. split; [auto|]. split; [auto | intros _ C; discriminate]. }
  rewrite (bs_step_tag_ok true c slot sd (BDissem s) T). unfold bs_step_gen. rewrite Hp. cbn [andb].
  destruct (sd_misbehaved sd) eqn:M.
  - intros H. injection H as <- <- <-. split; [exact (conj Hp W)|]. split; [discriminate|].
    split; [discriminate|]. split; [auto | discriminate].
  - destruct (bd_add_shred true c slot (sd_dissem sd) s) as [d r0] eqn:E.
    destruct (add_any true c slot _ s d r0 W E) as [W' [Hnp [Hev Hcache]]].
    destruct r0 as [e|e|]; [| |congruence].
    + intros H. injection H as <- <- <-. split; [exact (conj eq_refl W')|]. split; [destruct e as [[]|]; discriminate|].
      split; [discriminate|]. split; [discriminate|]. intros _ _. left. cbn [sd_misbehaved sd_dissem]. split; [reflexivity|]. split.
      * destruct e as [e|]; [|intros []]. destruct (Hev e eq_refl) as [->|[h [p ->]]]; intros [C|[]]; discriminate.
      * destruct Hcache as [[C _]|C]; [discriminate | exact C].
    + destruct e.
      * intros H. injection H as <- <- <-. split; [exact (conj eq_refl W')|]. split; [discriminate|].
        split; [discriminate|]. split; [discriminate|]. intros _ _. left. cbn [sd_misbehaved sd_dissem]. split; [reflexivity|]. split; [intros []|].
        destruct Hcache as [[C _]|C]; [discriminate | exact C].
      * unfold flag_misbehaviour. cbn [sd_misbehaved sd_dissem sd_repaired sd_panicked].
        intros H. injection H as <- <- <-. split; [exact (conj eq_refl W')|]. split; [discriminate|].
        split; [discriminate|]. split; [discriminate|]. intros _ _. right. auto.
      * unfold flag_misbehaviour. cbn [sd_misbehaved sd_dissem sd_repaired sd_panicked].
        intros H. injection H as <- <- <-. split; [exact (conj eq_refl W')|]. split; [discriminate|].
        split; [discriminate|]. split; [discriminate|]. intros _ _. right. auto.
Qed.

(* ---------- runs ---------- *)
Lemma run_snoc' c slot l s : bs_dissem_run c slot (l ++ [s]) = bs_dissem_step c slot (bs_dissem_run c slot l) s.
Proof. unfold bs_dissem_run. rewrite fold_left_app. reflexivity. Qed.
Lemma filter_invalid_none ev : ~ In BInvalidBlock ev -> filter is_invalid_event ev = [].
Proof.
  intros H. apply filter_none. intros x Hx. destruct x; try reflexivity. exfalso. exact (H Hx).
Qed.

Definition RunInv (l : list bshred) (st : slotdata * list (bs_ret * list bevent)) : Prop :=
  SdOk (fst st) /\
  (forall r ev, In (r, ev) (snd st) -> r <> BRPanic) /\
  filter is_invalid_event (out_events (snd st)) = (if sd_misbehaved (fst st) then [BInvalidBlock] else []) /\
  (sd_misbehaved (fst st) = false ->
   forall s, In s l -> shred_tag_ok s = true ->
             alookup (b_slice s) (bd_cache (sd_dissem (fst st))) = Some (commitment_of s)).

Lemma run_any c slot l : RunInv l (bs_dissem_run c slot l).
Proof.
  induction l as [|s l IH] using rev_ind.
  - split; [split; [reflexivity | exact wf_empty]|]. split; [intros r ev []|]. split; [reflexivity|]. intros _ s [].
  - rewrite run_snoc'. destruct (bs_dissem_run c slot l) as [sd out]. destruct IH as [Hok [Hret [Hinv Hcache]]].
    cbn [fst snd] in *. unfold bs_dissem_step. cbn [fst snd].
    destruct (bs_step true c slot sd (BDissem s)) as [[sd' r] ev] eqn:E.
    destruct (dissem_step_any c slot sd s sd' r ev Hok E) as [Hok' [Hnp [Hbad [Hfl Hun]]]].
    split; [exact Hok'|]. cbn [fst snd]. split; [|split].
    + intros r0 ev0 Hin. apply in_app_iff in Hin. destruct Hin as [Hin|[Hin|[]]]; [exact (Hret _ _ Hin)|].
      injection Hin as <- <-. exact Hnp.
    + rewrite out_events_app, filter_app, Hinv. unfold out_events at 1. cbn [flat_map snd]. rewrite app_nil_r.
      destruct (shred_tag_ok s) eqn:T; [|destruct (Hbad eq_refl) as [-> [-> _]]; apply app_nil_r].
      destruct (sd_misbehaved sd) eqn:M.
      * destruct (Hfl eq_refl) as [-> [-> _]]. rewrite M. reflexivity.
      * destruct (Hun eq_refl eq_refl) as [[M' [Hni _]]|[M' ->]]; rewrite M'.
        -- rewrite (filter_invalid_none ev Hni). reflexivity.
        -- reflexivity.
    + intros M' s0 Hin T0. destruct (shred_tag_ok s) eqn:T.
      2:{ destruct (Hbad eq_refl) as [-> _]. apply in_app_iff in Hin. destruct Hin as [Hin|[<-|[]]]; [|congruence].
          exact (Hcache M' s0 Hin T0). }
      destruct (sd_misbehaved sd) eqn:M.
      * destruct (Hfl eq_refl) as [-> _]. congruence.
      * destruct (Hun eq_refl eq_refl) as [[_ [_ [Hnew Hold]]]|[C _]]; [|congruence].
        apply in_app_iff in Hin. destruct Hin as [Hin|[<-|[]]]; [|exact Hnew].
        apply Hold. apply Hcache; [reflexivity | exact Hin | exact T0].
Qed.

(* dissemination never panics the blockstore, whatever is delivered *)
Theorem dissem_never_panics : forall c slot l,
  sd_panicked (fst (bs_dissem_run c slot l)) = false /\
  forall r ev, In (r, ev) (snd (bs_dissem_run c slot l)) -> r <> BRPanic.
Proof. intros c slot l. destruct (run_any c slot l) as [[Hp _] [Hr _]]. auto. Qed.

(* InvalidBlock is announced at most once, and exactly when the leader is flagged *)
Theorem dissem_invalid_once : forall c slot l,
  filter is_invalid_event (out_events (snd (bs_dissem_run c slot l))) =
  if sd_misbehaved (fst (bs_dissem_run c slot l)) then [BInvalidBlock] else [].
Proof. intros c slot l. destruct (run_any c slot l) as [_ [_ [H _]]]. exact H. Qed.

(* once the leader is flagged every further dissemination shred is refused, without any event:
   in particular no Block is announced from dissemination afterwards, and InvalidBlock is not repeated *)
Theorem dissem_silent_after_flag : forall c slot l1 l2,
  sd_misbehaved (fst (bs_dissem_run c slot l1)) = true ->
  fst (bs_dissem_run c slot (l1 ++ l2)) = fst (bs_dissem_run c slot l1) /\
  exists out2, snd (bs_dissem_run c slot (l1 ++ l2)) = snd (bs_dissem_run c slot l1) ++ out2 /\
               length out2 = length l2 /\
               forall r ev, In (r, ev) out2 -> r = BRErr EInvalidShred /\ ev = [].
Proof.
  intros c slot l1 l2 M. induction l2 as [|s l2 IH] using rev_ind.
  - rewrite app_nil_r. split; [reflexivity|]. exists []. rewrite app_nil_r. split; [reflexivity|]. split; [reflexivity | intros r ev []].
  - destruct IH as [Hst [out2 [Hout [Hlen Hall]]]]. rewrite app_assoc, run_snoc'.
    destruct (run_any c slot (l1 ++ l2)) as [Hok _].
    destruct (bs_dissem_run c slot (l1 ++ l2)) as [sd out]. cbn [fst snd] in *.
    unfold bs_dissem_step. cbn [fst snd].
    destruct (bs_step true c slot sd (BDissem s)) as [[sd' r] ev] eqn:E.
    destruct (dissem_step_any c slot sd s sd' r ev Hok E) as [_ [_ [_ [Hfl _]]]].
    rewrite Hst in Hfl. destruct (Hfl M) as [-> [-> ->]]. cbn [fst snd]. split; [reflexivity|].
    exists (out2 ++ [(BRErr EInvalidShred, [])]). rewrite Hout, <- app_assoc. split; [reflexivity|]. split.
    + rewrite !app_length, Hlen. reflexivity.
    + intros r ev Hin. apply in_app_iff in Hin. destruct Hin as [Hin|[Hin|[]]]; [exact (Hall _ _ Hin)|].
      injection Hin as <- <-. auto.
Qed.

(* equivocation is always detected: two delivered shreds (each with a tag consistent with its index: others are
   refused up front and prove nothing) of one slice with different commitments (slice root or last-slice flag)
   - in any order, at any positions, among any other shreds - get the leader flagged and InvalidBlock announced
   exactly once *)
Theorem dissem_equivocation_flagged : forall c slot l s1 s2,
  In s1 l -> In s2 l -> shred_tag_ok s1 = true -> shred_tag_ok s2 = true -> b_slice s1 = b_slice s2 ->
  commit_eqb (commitment_of s1) (commitment_of s2) = false ->
  sd_misbehaved (fst (bs_dissem_run c slot l)) = true /\
  filter is_invalid_event (out_events (snd (bs_dissem_run c slot l))) = [BInvalidBlock].
Proof.
  intros c slot l s1 s2 H1 H2 T1 T2 Hs Hc. destruct (run_any c slot l) as [_ [_ [Hinv Hcache]]].
  destruct (sd_misbehaved (fst (bs_dissem_run c slot l))) eqn:M; [split; [reflexivity | exact Hinv]|].
  exfalso. pose proof (Hcache eq_refl s1 H1 T1) as A. pose proof (Hcache eq_refl s2 H2 T2) as B.
  rewrite Hs in A. assert (B' : commitment_of s1 = commitment_of s2) by congruence.
  rewrite B', commit_eqb_refl in Hc. discriminate.
Qed.

(* ---------- contradictory last-slice markers ---------- *)
(* while the leader is not flagged: every delivered last-marked shred fixes bd_last, every delivered shred's
   slice is within it, and its slice has an entry in the shred table *)
Definition LastInv (l : list bshred) (d : bdata) : Prop :=
  forall s, In s l -> shred_tag_ok s = true ->
    (b_last s = true -> bd_last d = Some (b_slice s)) /\
    (forall last, bd_last d = Some last -> b_slice s <= last) /\
    alookup (b_slice s) (bd_shreds d) <> None.
Definition Grow (d d' : bdata) : Prop :=
  bd_last d' = bd_last d /\ forall k, alookup k (bd_shreds d) <> None -> alookup k (bd_shreds d') <> None.
Lemma grow_refl d : Grow d d. Proof. split; auto. Qed.
Lemma grow_trans a b c : Grow a b -> Grow b c -> Grow a c.
Proof. intros [A1 A2] [B1 B2]. split; [congruence | auto]. Qed.
Lemma alookup_ainsert_grow {V} k k' (v : V) m : alookup k m <> None -> alookup k (ainsert k' v m) <> None.
Proof.
  intros H. destruct (N.eq_dec k k') as [->|Hne]; [rewrite alookup_ainsert_same; discriminate|].
  rewrite alookup_ainsert_other by exact Hne. exact H.
Qed.
Lemma grow_set_shreds d k v : Grow d (bd_set_shreds d (ainsert k v (bd_shreds d))).
Proof. split; [reflexivity|]. intros k0 H. cbn [bd_set_shreds bd_shreds]. apply alookup_ainsert_grow. exact H. Qed.
Lemma last_inv_grow l d d' : Grow d d' -> LastInv l d -> LastInv l d'.
Proof.
  intros [G1 G2] H s Hs Ts. destruct (H s Hs Ts) as [A [B C]]. rewrite G1. split; [exact A|]. split; [exact B | apply G2; exact C].
Qed.

Lemma rec_slice_grow c d idx : Grow d (fst (try_reconstruct_slice c d idx)).
Proof.
  unfold try_reconstruct_slice. destruct (bd_completed d); [apply grow_refl|].
  destruct (alookup idx (bd_slices d)); [apply grow_refl|].
  destruct (deshred c (aget [] idx (bd_shreds d))) as [| | |r]; try apply grow_refl.
  destruct (rs_parent r); [|destruct (idx =? 0)]; cbn [fst];
    (split; [reflexivity|]; intros k H; cbn [bd_set_shreds bd_shreds]; apply alookup_ainsert_grow; exact H).
Qed.
Lemma rec_block_grow chk slot d : Grow d (fst (try_reconstruct_block chk slot d)).
Proof.
  unfold try_reconstruct_block. destruct (bd_completed d); [apply grow_refl|].
  destruct (bd_last d) as [n|] eqn:El; [|apply grow_refl].
  destruct (negb (N.of_nat (length (bd_slices d)) =? n + 1)); [apply grow_refl|].
  destruct (alookup 0 (bd_slices d)) as [first|]; [|apply grow_refl].
  destruct (rs_parent first) as [p0|]; [|apply grow_refl].
  destruct (walk_slices (slices_sorted (bd_slices d)) p0 false) as [parent|]; [|apply grow_refl].
  destruct (chk && negb (fst parent <? slot)); [apply grow_refl|]. cbn [fst]. split; [cbn [bd_last]; symmetry; exact El | auto].
Qed.

Lemma store_step_grow chk c slot d2 s : Grow d2 (fst (store_step chk c slot d2 s)) /\
  alookup (b_slice s) (bd_shreds (fst (store_step chk c slot d2 s))) <> None.
Proof.
  unfold store_step.
  destruct (alookup (b_index s) (aget [] (b_slice s) (bd_shreds d2))) eqn:Ej.
  - cbn [fst]. destruct (alookup (b_slice s) (bd_shreds d2)) eqn:Ea.
    + split; [apply grow_refl | congruence].
    + split; [apply grow_set_shreds|]. cbn [bd_set_shreds bd_shreds]. rewrite alookup_ainsert_same. discriminate.
  - set (d3 := bd_set_shreds d2 _).
    assert (G3 : Grow d2 d3) by apply grow_set_shreds.
    assert (K3 : alookup (b_slice s) (bd_shreds d3) <> None)
      by (unfold d3; cbn [bd_set_shreds bd_shreds]; rewrite alookup_ainsert_same; discriminate).
    destruct (match bd_shreds d2 with [] => true | _ :: _ => false end); [cbn [fst]; auto|].
    unfold slice_step. pose proof (rec_slice_grow c d3 (b_slice s)) as G4.
    destruct (try_reconstruct_slice c d3 (b_slice s)) as [d4 rs]. cbn [fst] in G4.
    assert (G24 : Grow d2 d4) by exact (grow_trans _ _ _ G3 G4).
    assert (K4 : alookup (b_slice s) (bd_shreds d4) <> None) by (apply G4; exact K3).
    destruct rs; cbn [fst]; auto.
    unfold block_step. pose proof (rec_block_grow chk slot d4) as G5.
    destruct (try_reconstruct_block chk slot d4) as [d5 rb]. cbn [fst] in G5.
    assert (Grow d2 d5 /\ alookup (b_slice s) (bd_shreds d5) <> None)
      by (split; [exact (grow_trans _ _ _ G24 G5) | apply G5; exact K4]).
    destruct rb; cbn [fst]; assumption.
Qed.

Lemma existsb_false_all {A} (f : A -> bool) l : existsb f l = false -> forall x, In x l -> f x = false.
Proof.
  intros H x Hx. destruct (f x) eqn:E; [|reflexivity]. rewrite <- H. symmetry. apply existsb_exists. eauto.
Qed.

Lemma add_keeps_last_inv chk c slot l d s d' r : LastInv l d ->
  bd_add_shred chk c slot d s = (d', r) ->
  (exists e, r = AOk e) \/ r = AErr EDuplicate -> LastInv (l ++ [s]) d'.
Proof.
  intros HJ. rewrite bd_add_shred_phases.
  destruct (cache_step d s) as [d1|] eqn:E1.
  2:{ intros H [[e He]|He]; injection H as <- <-; discriminate. }
  destruct (cache_step_frame d s d1 E1) as [_ [F2 [F3 _]]].
  assert (HJ1 : LastInv l d1) by (intros s0 Hs0 T0; rewrite F2, F3; exact (HJ s0 Hs0 T0)).
  destruct (last_step d1 s) as [d2|] eqn:E2.
  2:{ intros H [[e He]|He]; injection H as <- <-; discriminate. }
  assert (HJ2 : LastInv l d2 /\ (b_last s = true -> bd_last d2 = Some (b_slice s)) /\
                (forall last, bd_last d2 = Some last -> b_slice s <= last)).
  { unfold last_step in E2. destruct (bd_last d1) as [l0|] eqn:El.
    - destruct ((b_slice s <? l0) && negb (b_last s) || (b_slice s =? l0) && b_last s) eqn:C; [|discriminate].
      injection E2 as <-. split; [exact HJ1|]. rewrite El. split.
      + intros Hl. rewrite Hl in C. f_equal. lia.
      + intros last Hl. injection Hl as <-. lia.
    - destruct (b_last s) eqn:Bl.
      + destruct (existsb (fun x => b_slice s <? fst x) (bd_shreds d1)) eqn:Ex; [discriminate|].
        injection E2 as <-. pose proof (existsb_false_all _ _ Ex) as Hall.
        assert (Hf : filter (fun x : N * list (N * bshred) => fst x <=? b_slice s) (bd_shreds d1) = bd_shreds d1).
        { apply filter_all. intros x Hx. pose proof (Hall x Hx) as Hq. cbv beta in Hq. lia. }
        unfold mark_last_slice. cbn [bd_last bd_shreds]. rewrite Hf. split; [|split; [reflexivity | intros last Hl; injection Hl as <-; lia]].
        intros s0 Hs0 T0. destruct (HJ1 s0 Hs0 T0) as [A [B C]]. cbn [bd_last bd_shreds]. split; [|split; [|exact C]].
        * intros Hl0. apply A in Hl0. rewrite El in Hl0. discriminate.
        * intros last Hl. injection Hl as <-. destruct (alookup (b_slice s0) (bd_shreds d1)) as [v|] eqn:Ea; [|congruence].
          apply alookup_In in Ea. pose proof (Hall _ Ea) as Hx. cbv beta in Hx. cbn [fst] in Hx. lia.
      + injection E2 as <-. split; [exact HJ1|]. rewrite El. split; [discriminate | intros last Hl; discriminate]. }
  destruct HJ2 as [HJ2 [Hi Hii]].
  intros H _. destruct (store_step_grow chk c slot d2 s) as [G Kk]. rewrite H in G, Kk. cbn [fst] in G, Kk.
  intros s0 Hs0 T0. apply in_app_iff in Hs0. destruct Hs0 as [Hs0|[<-|[]]].
  - exact (last_inv_grow l d2 d' G HJ2 s0 Hs0 T0).
  - destruct G as [G1 _]. rewrite G1. split; [exact Hi | split; [exact Hii | exact Kk]].
Qed.

Lemma dissem_step_last_inv c slot l sd s sd' r ev : SdOk sd ->
  bs_step true c slot sd (BDissem s) = (sd', r, ev) -> sd_misbehaved sd' = false ->
  sd_misbehaved sd = false /\ (LastInv l (sd_dissem sd) -> LastInv (l ++ [s]) (sd_dissem sd')).
Proof.
  intros [Hp W]. destruct (shred_tag_ok s) eqn:T.
  2:{ rewrite (bs_step_tag_bad true c slot sd (BDissem s) Hp T). intros H. injection H as <- <- <-. intros M.
      split; [exact M|]. intros HJ s0 Hs0 T0. apply in_app_iff in Hs0. destruct Hs0 as [Hs0|[<-|[]]]; [|congruence].
      exact (HJ s0 Hs0 T0). }
  rewrite (bs_step_tag_ok true c slot sd (BDissem s) T). unfold bs_step_gen. rewrite Hp. cbn [andb].
  destruct (sd_misbehaved sd) eqn:M.
  - intros H. injection H as <- <- <-. congruence.
  - destruct (bd_add_shred true c slot (sd_dissem sd) s) as [d r0] eqn:E.
    destruct (add_any true c slot _ s d r0 W E) as [_ [Hnp _]].
    destruct r0 as [e|e|]; [| |congruence].
    + intros H. injection H as <- <- <-. intros _. split; [reflexivity|]. intros HJ. cbn [sd_dissem].
      apply (add_keeps_last_inv true c slot l _ s d _ HJ E). left. eauto.
    + destruct e.
      * intros H. injection H as <- <- <-. intros _. split; [reflexivity|]. intros HJ. cbn [sd_dissem].
        apply (add_keeps_last_inv true c slot l _ s d _ HJ E). right. reflexivity.
      * unfold flag_misbehaviour. cbn [sd_misbehaved]. intros H. injection H as <- <- <-. cbn [sd_misbehaved]. discriminate.
      * unfold flag_misbehaviour. cbn [sd_misbehaved]. intros H. injection H as <- <- <-. cbn [sd_misbehaved]. discriminate.
Qed.

Lemma run_last_inv c slot l : sd_misbehaved (fst (bs_dissem_run c slot l)) = false ->
  LastInv l (sd_dissem (fst (bs_dissem_run c slot l))).
Proof.
  induction l as [|s l IH] using rev_ind; [intros _ s []|].
  rewrite run_snoc'. destruct (run_any c slot l) as [Hok _].
  destruct (bs_dissem_run c slot l) as [sd out]. cbn [fst snd] in *. unfold bs_dissem_step. cbn [fst snd].
  destruct (bs_step true c slot sd (BDissem s)) as [[sd' r] ev] eqn:E. cbn [fst]. intros M'.
  destruct (dissem_step_last_inv c slot l sd s sd' r ev Hok E M') as [M HJ]. apply HJ, IH, M.
Qed.

(* a last-slice marker contradicted by a shred of a later slice, or by a last-slice marker on another slice,
   gets the leader flagged and InvalidBlock announced exactly once - in any order, among any other shreds *)
Theorem dissem_last_marker_conflict_flagged : forall c slot l s1 s2,
  In s1 l -> In s2 l -> shred_tag_ok s1 = true -> shred_tag_ok s2 = true -> b_last s1 = true ->
  b_slice s1 < b_slice s2 \/ (b_last s2 = true /\ b_slice s1 <> b_slice s2) ->
  sd_misbehaved (fst (bs_dissem_run c slot l)) = true /\
  filter is_invalid_event (out_events (snd (bs_dissem_run c slot l))) = [BInvalidBlock].
Proof.
  intros c slot l s1 s2 H1 H2 T1 T2 Hl Hc. pose proof (dissem_invalid_once c slot l) as Hinv.
  destruct (sd_misbehaved (fst (bs_dissem_run c slot l))) eqn:M; [split; [reflexivity | exact Hinv]|].
  exfalso. pose proof (run_last_inv c slot l M) as HJ.
  destruct (HJ s1 H1 T1) as [A1 _]. destruct (HJ s2 H2 T2) as [A2 [B2 _]]. specialize (A1 Hl).
  destruct Hc as [Hc|[Hl2 Hne]].
  - pose proof (B2 _ A1). lia.
  - specialize (A2 Hl2). rewrite A1 in A2. injection A2 as A2. congruence.
Qed.

(* the two theorems above with a decidable hypothesis: the conflict is revealed by the shreds that pass the
   tag guard *)
Theorem dissem_revealed_equivocation_flagged : forall c slot l,
  reveals_conflict (filter shred_tag_ok l) || reveals_last_conflict (filter shred_tag_ok l) = true ->
  sd_misbehaved (fst (bs_dissem_run c slot l)) = true /\
  filter is_invalid_event (out_events (snd (bs_dissem_run c slot l))) = [BInvalidBlock].
Proof.
  intros c slot l H. apply orb_true_iff in H. destruct H as [H|H].
  - unfold reveals_conflict in H. apply existsb_exists in H. destruct H as [s1 [H1 H]].
    apply existsb_exists in H. destruct H as [s2 [H2 H]]. apply andb_true_iff in H. destruct H as [A B].
    apply filter_In in H1. apply filter_In in H2. destruct H1 as [H1 T1], H2 as [H2 T2].
    apply (dissem_equivocation_flagged c slot l s1 s2 H1 H2 T1 T2); [lia|].
    destruct (commit_eqb (commitment_of s1) (commitment_of s2)); [discriminate | reflexivity].
  - unfold reveals_last_conflict in H. apply existsb_exists in H. destruct H as [s1 [H1 H]].
    apply andb_true_iff in H. destruct H as [Hl H].
    apply existsb_exists in H. destruct H as [s2 [H2 H]].
    apply filter_In in H1. apply filter_In in H2. destruct H1 as [H1 T1], H2 as [H2 T2].
    apply (dissem_last_marker_conflict_flagged c slot l s1 s2 H1 H2 T1 T2 Hl).
    apply orb_true_iff in H. destruct H as [H|H]; [left; lia | right].
    apply andb_true_iff in H. destruct H as [A B]. split; [exact A | lia].
Qed.

(* ---------- only well-formed blocks are ever announced (arbitrary shreds) ---------- *)
Definition CInv (ct : content) (d : bdata) : Prop :=
  forall i r, In (i, r) (bd_slices d) -> content_of ct (rs_root r) = DecOk (rs_parent r) (rs_txs_ok r).
Lemma ainsert_In {V} k (v : V) m x : In x (ainsert k v m) -> x = (k, v) \/ In x m.
Proof.
  induction m as [|[k' v'] m IH]; cbn [ainsert In]; [intros [H|[]]; auto|].
  destruct (k =? k'); cbn [In]; [intros [H|H]; auto|]. intros [H|H]; [auto|]. apply IH in H. destruct H; auto.
Qed.
Lemma deshred_content ct shs r : deshred ct shs = DOk r -> content_of ct (rs_root r) = DecOk (rs_parent r) (rs_txs_ok r).
Proof.
  unfold deshred. destruct (by_index shs) as [|[j0 s0] rest]; [discriminate|].
  destruct (negb (slice_layout_ok ((j0, s0) :: rest))); [discriminate|].
  destruct (N.of_nat (length ((j0, s0) :: rest)) <? DATA_SHREDS); [discriminate|].
  destruct (content_of ct (b_root s0)) as [p ok|] eqn:E; [|discriminate].
  intros H. injection H as <-. cbn [rs_root rs_parent rs_txs_ok]. exact E.
Qed.
Lemma rec_slice_cinv ct d idx : CInv ct d -> CInv ct (fst (try_reconstruct_slice ct d idx)).
Proof.
  intros H. unfold try_reconstruct_slice. destruct (bd_completed d); [exact H|].
  destruct (alookup idx (bd_slices d)); [exact H|].
  destruct (deshred ct (aget [] idx (bd_shreds d))) as [| | |r] eqn:Ed; try exact H.
  assert (Hins : forall sh c, CInv ct (mkBD c sh (ainsert idx r (bd_slices d)) (bd_last d) (bd_cache d))).
  { intros sh c i r0 Hin. cbn [bd_slices] in Hin. apply ainsert_In in Hin. destruct Hin as [Hin|Hin]; [|exact (H _ _ Hin)].
    injection Hin as -> ->. exact (deshred_content ct _ _ Ed). }
  destruct (rs_parent r); [apply Hins|]. destruct (idx =? 0); [exact H | apply Hins].
Qed.
Lemma cinv_filter ct d c sh f l ca : CInv ct d -> CInv ct (mkBD c sh (filter f (bd_slices d)) l ca).
Proof. intros H i r Hin. cbn [bd_slices] in Hin. apply filter_In in Hin. exact (H _ _ (proj1 Hin)). Qed.
Lemma rec_block_cinv chk ct slot d : CInv ct d -> CInv ct (fst (try_reconstruct_block chk slot d)).
Proof.
  intros H. unfold try_reconstruct_block. destruct (bd_completed d); [exact H|].
  destruct (bd_last d); [|exact H].
  destruct (negb (N.of_nat (length (bd_slices d)) =? n + 1)); [exact H|].
  destruct (alookup 0 (bd_slices d)) as [first|]; [|exact H].
  destruct (rs_parent first) as [p0|]; [|exact H].
  destruct (walk_slices (slices_sorted (bd_slices d)) p0 false) as [parent|]; [|exact H].
  destruct (chk && negb (fst parent <? slot)); [exact H|]. cbn [fst]. apply cinv_filter. exact H.
Qed.

Lemma ssorted_map_seqN {V} (f : N -> V) n : forall lo, ssorted (map (fun i => (i, f i)) (seqN lo n)).
Proof.
  induction n as [|n IH]; intros lo; [exact I|].
  rewrite seqN_S. cbn [map ssorted]. split; [|apply IH].
  intros y Hy. apply in_map_iff in Hy. destruct Hy as [x [<- Hx]]. apply seqN_in in Hx. cbn [fst]. lia.
Qed.
Lemma slices_sorted_in l x : In x (slices_sorted l) -> In x l.
Proof.
  induction l as [|y l IH]; [intros []|].
  change (slices_sorted (y :: l)) with (slice_insert_sorted y (slices_sorted l)).
  intros H. apply slice_insert_in in H. destruct H as [->|H]; [left; reflexivity | right; exact (IH H)].
Qed.
Lemma walk_txs_ok l : forall p sw q, walk_slices l p sw = Some q -> forall i r, In (i, r) l -> rs_txs_ok r = true.
Proof.
  induction l as [|[i0 r0] l IH]; intros p sw q H i r Hin; [destruct Hin|].
  cbn [walk_slices] in H.
  destruct (if i0 =? 0 then Some (p, sw)
            else match rs_parent r0 with
                 | Some np => if bid_eqb np p then None else if sw then None else Some (np, true)
                 | None => Some (p, sw) end) as [[p' sw']|]; [|discriminate].
  destruct (rs_txs_ok r0) eqn:Et; [|discriminate].
  destruct Hin as [Hin|Hin]; [injection Hin as <- <-; exact Et | exact (IH _ _ _ H _ _ Hin)].
Qed.

Lemma rec_block_valid ct slot d d5 h p : WF d -> CInv ct d ->
  try_reconstruct_block true slot d = (d5, RBComplete h p) -> valid_block ct slot h p.
Proof.
  intros [W1 [W2 W3]] HC H.
  destruct (BlockstoreProofs.reconstructed_block_spec slot d d5 h p H) as [_ [last [first [p0 [El [En [Ef [Ep [Eh [Ew [Es _]]]]]]]]]]].
  set (sl := bd_slices d) in *.
  set (g := fun i => match alookup i sl with Some r => r | None => mkRS 0 None false end).
  assert (Hall : forall i, i < last + 1 -> In i (map fst sl)).
  { assert (Hincl : incl (map fst sl) (seqN 0 (N.to_nat (last + 1)))).
    { intros k Hk. apply seqN_in. pose proof (W2 _ _ El Hk). lia. }
    assert (Hincl' : incl (seqN 0 (N.to_nat (last + 1))) (map fst sl)).
    { apply NoDup_length_incl; [exact W1 | | exact Hincl]. rewrite map_length, seqN_len. lia. }
    intros i Hi. apply Hincl', seqN_in. lia. }
  destruct (slices_sorted_spec sl W1) as [S L].
  assert (Hsorted : slices_sorted sl = map (fun i => (i, g i)) (seqN 0 (N.to_nat (last + 1)))).
  { apply ssorted_ext; [exact S | apply ssorted_map_seqN|].
    intros i. rewrite L, (alookup_map_seqN g). replace (0 <=? i) with true by lia. cbn [andb].
    destruct (i <? 0 + N.of_nat (N.to_nat (last + 1))) eqn:Ei.
    - assert (Hin : In i (map fst sl)) by (apply Hall; lia). apply alookup_in_keys in Hin.
      unfold g. destruct (alookup i sl); [reflexivity | congruence].
    - apply alookup_none_keys. intros C. pose proof (W2 _ _ El C). lia. }
  exists (slices_sorted sl), first, p0. split; [exact Eh|]. split; [|split; [|split; [|split; [exact Ep | split; [exact Ew | exact Es]]]]].
  - rewrite Hsorted, map_map, map_length, seqN_len. cbn [fst]. apply map_id.
  - intros i r Hin. rewrite <- (walk_txs_ok _ _ _ _ Ew i r Hin). apply (HC i). apply slices_sorted_in. exact Hin.
  - rewrite L. exact Ef.
Qed.

Lemma add_block_valid ct slot d s d' h p : WF d -> CInv ct d ->
  bd_add_shred true ct slot d s = (d', AOk (Some (BBlock h p))) -> valid_block ct slot h p.
Proof.
  intros W HC. rewrite bd_add_shred_phases.
  destruct (cache_step d s) as [d1|] eqn:E1; [|discriminate].
  destruct (cache_step_frame d s d1 E1) as [F1 [F2 _]].
  assert (W1 : WF d1) by exact (wf_ext d d1 F1 F2 W).
  assert (HC1 : CInv ct d1) by (unfold CInv; rewrite F1; exact HC).
  destruct (last_step d1 s) as [d2|] eqn:E2; [|discriminate].
  destruct (last_step_wf d1 s d2 W1 E2) as [W2 [Hidx _]].
  assert (HC2 : CInv ct d2).
  { unfold last_step in E2. destruct (bd_last d1).
    - destruct (_ || _); [|discriminate]. injection E2 as <-. exact HC1.
    - destruct (b_last s); [|injection E2 as <-; exact HC1].
      destruct (existsb _ _); [discriminate|]. injection E2 as <-. apply cinv_filter. exact HC1. }
  unfold store_step. destruct (alookup (b_index s) (aget [] (b_slice s) (bd_shreds d2))); [discriminate|].
  set (d3 := bd_set_shreds d2 _).
  assert (W3 : WF d3) by exact (wf_ext d2 d3 eq_refl eq_refl W2).
  assert (HC3 : CInv ct d3) by exact HC2.
  destruct (match bd_shreds d2 with [] => true | _ :: _ => false end); [discriminate|].
  unfold slice_step. pose proof (rec_slice_cinv ct d3 (b_slice s) HC3) as HC4.
  destruct (try_reconstruct_slice ct d3 (b_slice s)) as [d4 rs] eqn:Es. cbn [fst] in HC4.
  destruct (rec_slice_wf ct d3 (b_slice s) d4 rs W3 Hidx Es) as [W4 _].
  destruct rs; try discriminate. unfold block_step.
  destruct (try_reconstruct_block true slot d4) as [d5 rb] eqn:Eb.
  destruct rb; try discriminate. intros H. injection H as _ <- <-.
  exact (rec_block_valid ct slot d4 d5 _ _ W4 HC4 Eb).
Qed.

Lemma add_cinv chk ct slot d s : CInv ct d -> CInv ct (fst (bd_add_shred chk ct slot d s)).
Proof.
  intros HC. rewrite bd_add_shred_phases.
  destruct (cache_step d s) as [d1|] eqn:E1; [|exact HC].
  destruct (cache_step_frame d s d1 E1) as [F1 _].
  assert (HC1 : CInv ct d1) by (unfold CInv; rewrite F1; exact HC).
  destruct (last_step d1 s) as [d2|] eqn:E2; [|exact HC1].
  assert (HC2 : CInv ct d2).
  { unfold last_step in E2. destruct (bd_last d1).
    - destruct (_ || _); [|discriminate]. injection E2 as <-. exact HC1.
    - destruct (b_last s); [|injection E2 as <-; exact HC1].
      destruct (existsb _ _); [discriminate|]. injection E2 as <-. apply cinv_filter. exact HC1. }
  unfold store_step. destruct (alookup (b_index s) (aget [] (b_slice s) (bd_shreds d2))).
  - cbn [fst]. destruct (alookup (b_slice s) (bd_shreds d2)); exact HC2.
  - set (d3 := bd_set_shreds d2 _). assert (HC3 : CInv ct d3) by exact HC2.
    destruct (match bd_shreds d2 with [] => true | _ :: _ => false end); [exact HC3|].
    unfold slice_step. pose proof (rec_slice_cinv ct d3 (b_slice s) HC3) as HC4.
    destruct (try_reconstruct_slice ct d3 (b_slice s)) as [d4 rs]. cbn [fst] in HC4.
    destruct rs; try exact HC4. unfold block_step.
    pose proof (rec_block_cinv chk ct slot d4 HC4) as HC5.
    destruct (try_reconstruct_block chk slot d4) as [d5 rb]. cbn [fst] in HC5. destruct rb; exact HC5.
Qed.

Lemma dissem_step_valid ct slot sd s sd' r ev : SdOk sd -> CInv ct (sd_dissem sd) ->
  bs_step true ct slot sd (BDissem s) = (sd', r, ev) ->
  CInv ct (sd_dissem sd') /\ forall h p, In (BBlock h p) ev -> valid_block ct slot h p.
Proof.
  intros [Hp W] HC. destruct (shred_tag_ok s) eqn:T.
  2:{ rewrite (bs_step_tag_bad true ct slot sd (BDissem s) Hp T). intros H. injection H as <- <- <-.
      split; [exact HC | intros h p []]. }
  rewrite (bs_step_tag_ok true ct slot sd (BDissem s) T). unfold bs_step_gen. rewrite Hp. cbn [andb].
  destruct (sd_misbehaved sd) eqn:M.
  - intros H. injection H as <- <- <-. split; [exact HC | intros h p []].
  - pose proof (add_cinv true ct slot (sd_dissem sd) s HC) as HC'.
    destruct (bd_add_shred true ct slot (sd_dissem sd) s) as [d r0] eqn:E. cbn [fst] in HC'.
    destruct r0 as [e|e|].
    + intros H. injection H as <- <- <-. split; [exact HC'|]. intros h p Hin.
      destruct e as [e|]; [|destruct Hin]. destruct Hin as [->|[]].
      exact (add_block_valid ct slot _ s d h p W HC E).
    + destruct e.
      * intros H. injection H as <- <- <-. split; [exact HC' | intros h p []].
      * unfold flag_misbehaviour. cbn [sd_misbehaved]. intros H. injection H as <- <- <-.
        split; [exact HC' | intros h p [C|[]]; discriminate].
      * unfold flag_misbehaviour. cbn [sd_misbehaved]. intros H. injection H as <- <- <-.
        split; [exact HC' | intros h p [C|[]]; discriminate].
    + intros H. injection H as <- <- <-. split; [exact HC' | intros h p []].
Qed.

(* whatever is delivered, a Block is only ever announced for well-formed content: malformed blocks
   (undecodable slice or transactions, first slice without parent, parent switched twice or to itself, parent
   not in an earlier slot, missing slice) are never announced *)
Theorem dissem_only_valid_blocks : forall ct slot l r ev h p,
  In (r, ev) (snd (bs_dissem_run ct slot l)) -> In (BBlock h p) ev -> valid_block ct slot h p.
Proof.
  intros ct slot l.
  assert (H : CInv ct (sd_dissem (fst (bs_dissem_run ct slot l))) /\
              forall r ev h p, In (r, ev) (snd (bs_dissem_run ct slot l)) -> In (BBlock h p) ev -> valid_block ct slot h p).
  { induction l as [|s l IH] using rev_ind.
    - split; [intros i r []|]. intros r ev h p [].
    - rewrite run_snoc'. destruct (run_any ct slot l) as [Hok _].
      destruct (bs_dissem_run ct slot l) as [sd out]. cbn [fst snd] in *. destruct IH as [HC Hv].
      unfold bs_dissem_step. cbn [fst snd].
      destruct (bs_step true ct slot sd (BDissem s)) as [[sd' r] ev] eqn:E.
      destruct (dissem_step_valid ct slot sd s sd' r ev Hok HC E) as [HC' Hv']. cbn [fst snd].
      split; [exact HC'|]. intros r0 ev0 h p Hin Hb. apply in_app_iff in Hin.
      destruct Hin as [Hin|[Hin|[]]]; [exact (Hv _ _ _ _ Hin Hb)|]. injection Hin as <- <-. exact (Hv' _ _ Hb). }
  intros r ev h p. apply H.
Qed.
