(* C07 / C08: the ghost set H (every certificate the pool has held so far, Model/PoolTrace.v) against the certificates
   the pool holds NOW: in every reachable pool state
     - every certificate stored in a slot state is in H (and stored under its own slot);
     - every certificate of H whose slot is not below the watermark is still stored;
   so H restricted to the retained slots IS the set of certificates currently held, and everything else in H belongs
   to slots that were decided and pruned. *)
From Coq Require Import List NArith Bool Lia ZifyBool ZifyNat ZifyN.
From AG Require Import Gen.Params Model.Pool Model.PoolSpec Model.TrackerSpec Model.FinalitySpec Model.PoolTrace
     Proofs.SlotStateProofs Proofs.TrackerProofs Proofs.ParentReadyProofs Proofs.PoolTrackerLink Proofs.FinalityProofs
     Proofs.PoolProgressProofs Proofs.PoolMarks.
Import ListNotations.
Open Scope N_scope.

Definition held (p : pool) (s : slot) : list cert := certs_of_slot (p_ss p s).

Lemma certs_of_slot_ext ss ss' : ss_c ss = ss_c ss' -> certs_of_slot ss = certs_of_slot ss'.
Proof. intros E. unfold certs_of_slot. rewrite E. reflexivity. Qed.
Lemma cert_duplicate_ext ss ss' c : ss_c ss = ss_c ss' -> cert_duplicate ss c = cert_duplicate ss' c.
Proof. intros E. unfold cert_duplicate, is_notar_fallback. rewrite E. reflexivity. Qed.

(* ---------- the certificate fields of every slot are kept, or the slot was pruned (and at most re-created empty) ---------- *)
Definition CFrame (p p' : pool) : Prop :=
  first_unpruned p <= first_unpruned p' /\
  forall s, ss_c (p_ss p' s) = ss_c (p_ss p s) \/ (ss_c (p_ss p' s) = ss_c ss_empty /\ s < first_unpruned p').

Lemma CFrame_refl p : CFrame p p.
Proof. split; [lia | intros s; left; reflexivity]. Qed.
Lemma CFrame_trans a b c : CFrame a b -> CFrame b c -> CFrame a c.
Proof.
  intros [M1 E1] [M2 E2]. split; [lia|]. intros s.
  destruct (E2 s) as [K2|[F2 L2]]; [|right; auto].
  destruct (E1 s) as [K1|[F1 L1]]; [left; congruence|]. right. split; [congruence | lia].
Qed.
Lemma CFrame_slots p p' : p_slots p' = p_slots p -> first_unpruned p <= first_unpruned p' -> CFrame p p'.
Proof. intros E M. split; [exact M|]. intros s. left. unfold p_ss. rewrite E. reflexivity. Qed.
Lemma CFrame_set p s ss' : ss_c ss' = ss_c (p_ss p s) -> CFrame p (p_set_ss p s ss').
Proof.
  intros K. split; [unfold first_unpruned; cbn; lia|]. intros s'. left. rewrite p_ss_set.
  destruct (s' =? s) eqn:E; [apply N.eqb_eq in E; subst; exact K | reflexivity].
Qed.
Lemma CFrame_touch p s : CFrame p (p_touch p s).
Proof.
  split; [unfold p_touch; destruct (alookup s (p_slots p)); unfold first_unpruned; cbn; lia|].
  intros s'. left. rewrite p_ss_touch. reflexivity.
Qed.
Lemma CFrame_prune p : CFrame p (pool_prune p).
Proof.
  split; [unfold first_unpruned, pool_prune; cbn; lia|]. intros s. rewrite p_ss_prune.
  destruct (first_unpruned p <=? s) eqn:E; [left; reflexivity|].
  right. split; [reflexivity|]. apply N.leb_gt in E. exact E.
Qed.
Lemma CFrame_hf p ev p' o : pool_handle_finalization p ev = Some (p', o) -> CFrame p p'.
Proof.
  unfold pool_handle_finalization. destruct (pt_handle_finalization (p_prt p) ev) as [[[t prs] wk]|]; [|discriminate].
  intros H. injection H as <- _.
  eapply CFrame_trans; [|apply CFrame_prune]. apply CFrame_slots; [reflexivity | unfold first_unpruned; cbn; lia].
Qed.

Lemma certified_certs e s ss h r : notify_parent_certified e s ss h = Some r -> ss_c (fst (fst r)) = ss_c ss.
Proof.
  unfold notify_parent_certified. destruct (alookup h (pa_status (ss_n ss))); [|discriminate].
  intros E. injection E as <-.
  match goal with |- context [s2n_try e s ?x h] => destruct (s2n_try_frame e s x h) as (_ & _ & A) end.
  cbn in *. exact A.
Qed.
Lemma known_certs ss h : ss_c (notify_parent_known ss h) = ss_c ss.
Proof. unfold notify_parent_known. destruct (alookup h (pa_status (ss_n ss))); reflexivity. Qed.

Lemma CFrame_notify_children e : forall children p acc p' o,
  notify_children e p children acc = Some (p', o) -> CFrame p p'.
Proof.
  unfold notify_children.
  induction children as [|[cs ch] l IH]; intros p acc p' o H; cbn [notify_children_gen andb] in H.
  - injection H as <- _. apply CFrame_refl.
  - destruct (cs <? first_unpruned p); [exact (IH _ _ _ _ H)|].
    destruct (notify_parent_certified e cs (p_ss (p_touch p cs) cs) ch) as [[[ss' evs] rps]|] eqn:NC; [|discriminate].
    apply IH in H. eapply CFrame_trans; [|exact H].
    eapply CFrame_trans; [apply CFrame_touch|]. apply CFrame_set.
    apply (certified_certs _ _ _ _ _ NC).
Qed.
Lemma CFrame_notify_waiting e p b p' o : notify_waiting_children e p b = Some (p', o) -> CFrame p p'.
Proof.
  unfold notify_waiting_children, notify_waiting_children_gen. intros H. apply CFrame_notify_children in H.
  eapply CFrame_trans; [|exact H]. apply CFrame_slots; [reflexivity | unfold first_unpruned; cbn; lia].
Qed.

(* add_valid_cert = store the certificate in its slot, then a certificate-frame segment *)
Lemma add_valid_cert_frame e p c p' o : add_valid_cert e p c = Some (p', o) ->
  CFrame (p_set_ss p (c_slot c) (ss_add_cert (p_ss p (c_slot c)) c)) p'.
Proof.
  unfold add_valid_cert. cbv zeta. intros H.
  set (p0 := p_set_ss p (c_slot c) (ss_add_cert (p_ss p (c_slot c)) c)) in *.
  assert (Hft : forall t, ft_first (p_ft p0) <= ft_first t -> CFrame p0 (pool_with_ft p0 t)).
  { intros t Ht. apply CFrame_slots; [reflexivity | exact Ht]. }
  assert (Hprt : forall q t, CFrame q (pool_with_prt q t)) by (intros q t; apply CFrame_slots; [reflexivity | unfold first_unpruned; cbn; lia]).
  destruct (c_kind c) as [h|h| |h|] eqn:Ek.
  - destruct (ft_mark_notarized (p_ft p0) (c_slot c, h)) as [[ft' ev]|] eqn:Eft; [|discriminate].
    destruct (pool_handle_finalization (pool_with_ft p0 ft') ev) as [[p1 o1]|] eqn:Eh; [|discriminate].
    destruct (notify_waiting_children e p1 (c_slot c, h)) as [[p2 o2]|] eqn:En; [|discriminate].
    destruct (pt_mark_notar_fallback (p_prt p2) (c_slot c, h)) as [[[t prs] wk]|] eqn:Em; [|discriminate].
    injection H as <- _. apply ft_mark_notarized_first in Eft.
    eapply CFrame_trans; [apply (Hft ft' Eft)|]. eapply CFrame_trans; [apply (CFrame_hf _ _ _ _ Eh)|].
    eapply CFrame_trans; [apply (CFrame_notify_waiting _ _ _ _ _ En) | apply Hprt].
  - destruct (notify_waiting_children e p0 (c_slot c, h)) as [[p2 o2]|] eqn:En; [|discriminate].
    destruct (pt_mark_notar_fallback (p_prt p2) (c_slot c, h)) as [[[t prs] wk]|] eqn:Em; [|discriminate].
    injection H as <- _. eapply CFrame_trans; [apply (CFrame_notify_waiting _ _ _ _ _ En) | apply Hprt].
  - destruct (pt_mark_skipped (p_prt p0) (c_slot c)) as [[[t prs] wk]|] eqn:Em; [|discriminate].
    injection H as <- _. apply Hprt.
  - destruct (ft_mark_fast_finalized (p_ft p0) (c_slot c, h)) as [[ft' ev]|] eqn:Eft; [|discriminate].
    destruct (pool_handle_finalization (pool_with_ft p0 ft') ev) as [[p1 o1]|] eqn:Eh; [|discriminate].
    destruct (notify_waiting_children e p1 (c_slot c, h)) as [[p2 o2]|] eqn:En; [|discriminate].
    injection H as <- _. apply ft_mark_fast_finalized_first in Eft.
    eapply CFrame_trans; [apply (Hft ft' Eft)|]. eapply CFrame_trans; [apply (CFrame_hf _ _ _ _ Eh)|].
    apply (CFrame_notify_waiting _ _ _ _ _ En).
  - destruct (ft_mark_finalized (p_ft p0) (c_slot c)) as [[ft' ev]|] eqn:Eft; [|discriminate].
    destruct (pool_handle_finalization (pool_with_ft p0 ft') ev) as [[p1 o1]|] eqn:Eh; [|discriminate].
    injection H as <- _. apply ft_mark_finalized_first in Eft.
    eapply CFrame_trans; [apply (Hft ft' Eft) | apply (CFrame_hf _ _ _ _ Eh)].
Qed.

(* ---------- SlotState::add_cert on the certificate fields ---------- *)
Lemma add_cert_sub ss c x : In x (certs_of_slot (ss_add_cert ss c)) -> In x (certs_of_slot ss) \/ x = c.
Proof.
  unfold ss_add_cert, certs_of_slot. destruct (c_kind c) as [h|h| |h|]; try destruct (is_notar_fallback ss h);
    cbn [ss_c with_c ce_fin ce_ff ce_notar ce_nf ce_skip]; rewrite !in_app_iff; cbn [In]; try rewrite in_app_iff; cbn [In];
    intuition (try congruence);
    repeat match goal with H : In _ (match ?o with Some _ => _ | None => _ end) |- _ => destruct o; cbn [In] in H end; intuition congruence.
Qed.
Lemma add_cert_sup ss c x : cert_duplicate ss c = false -> In x (certs_of_slot ss) -> In x (certs_of_slot (ss_add_cert ss c)).
Proof.
  unfold ss_add_cert, certs_of_slot, cert_duplicate. destruct (c_kind c) as [h|h| |h|].
  - destruct (ce_notar (ss_c ss)); [discriminate|]. intros _. cbn [ss_c with_c ce_fin ce_ff ce_notar ce_nf ce_skip]. rewrite !in_app_iff. cbn [In]. tauto.
  - intros ->. cbn [ss_c with_c ce_fin ce_ff ce_notar ce_nf ce_skip]. rewrite !in_app_iff. tauto.
  - destruct (ce_skip (ss_c ss)); [discriminate|]. intros _. cbn [ss_c with_c ce_fin ce_ff ce_notar ce_nf ce_skip]. rewrite !in_app_iff. cbn [In]. tauto.
  - destruct (ce_ff (ss_c ss)); [discriminate|]. intros _. cbn [ss_c with_c ce_fin ce_ff ce_notar ce_nf ce_skip]. rewrite !in_app_iff. cbn [In]. tauto.
  - destruct (ce_fin (ss_c ss)); [discriminate|]. intros _. cbn [ss_c with_c ce_fin ce_ff ce_notar ce_nf ce_skip]. rewrite !in_app_iff. cbn [In]. tauto.
Qed.
Lemma add_cert_in ss c : cert_duplicate ss c = false -> In c (certs_of_slot (ss_add_cert ss c)).
Proof.
  unfold ss_add_cert, certs_of_slot, cert_duplicate. destruct (c_kind c) as [h|h| |h|];
    try (intros _; cbn [ss_c with_c ce_fin ce_ff ce_notar ce_nf ce_skip]; rewrite !in_app_iff; cbn [In]; tauto).
  intros ->. cbn [ss_c with_c ce_fin ce_ff ce_notar ce_nf ce_skip]. rewrite !in_app_iff. cbn [In]. tauto.
Qed.
(* a certificate of another class is as (non-)duplicate as before *)
Lemma add_cert_dup_other ss c x : class_of (c_kind x) <> class_of (c_kind c) ->
  cert_duplicate (ss_add_cert ss c) x = cert_duplicate ss x.
Proof.
  unfold ss_add_cert, cert_duplicate. intros Hk.
  destruct (c_kind c) as [h|h| |h|] eqn:K; destruct (c_kind x) as [h'|h'| |h'|] eqn:Kx; cbn [class_of] in Hk; try congruence;
    try (destruct (is_notar_fallback ss h) eqn:E); cbn [ss_c with_c ce_fin ce_ff ce_notar ce_nf ce_skip]; try reflexivity.
  unfold is_notar_fallback. cbn [ss_c with_c ce_nf]. rewrite existsb_app. cbn [existsb]. unfold cert_hash. rewrite K.
  assert (Hne : h <> h') by congruence. apply N.eqb_neq in Hne. rewrite Hne, !orb_false_r. reflexivity.
Qed.

Lemma empty_not_dup ss x : ss_c ss = ss_c ss_empty -> cert_duplicate ss x = false.
Proof. intros E. rewrite (cert_duplicate_ext ss ss_empty x E). unfold cert_duplicate. destruct (c_kind x); reflexivity. Qed.
Lemma empty_no_certs ss : ss_c ss = ss_c ss_empty -> certs_of_slot ss = [].
Proof. intros E. rewrite (certs_of_slot_ext ss ss_empty E). reflexivity. Qed.

(* ---------- one segment of pool execution against the certificates stored ---------- *)
Record HeldStep (p p' : pool) (new : list cert) : Prop := {
  hs_first : first_unpruned p <= first_unpruned p';
  hs_le : forall s c, In c (held p' s) -> In c (held p s) \/ (In c new /\ c_slot c = s);
  hs_keep : forall s c, first_unpruned p' <= s -> In c (held p s) -> In c (held p' s);
  hs_new : forall c, In c new -> first_unpruned p' <= c_slot c -> In c (held p' (c_slot c)) }.

Lemma HeldStep_frame p p' : CFrame p p' -> HeldStep p p' [].
Proof.
  intros [M E]. split; [exact M| | |intros c []].
  - intros s c Hin. left. unfold held in *. destruct (E s) as [K|[K _]].
    + rewrite <- (certs_of_slot_ext _ _ K). exact Hin.
    + rewrite (empty_no_certs _ K) in Hin. destruct Hin.
  - intros s c Hs Hin. unfold held in *. destruct (E s) as [K|[_ K]]; [|lia].
    rewrite (certs_of_slot_ext _ _ K). exact Hin.
Qed.
Lemma HeldStep_trans a b c n1 n2 : HeldStep a b n1 -> HeldStep b c n2 -> HeldStep a c (n1 ++ n2).
Proof.
  intros [M1 L1 K1 N1] [M2 L2 K2 N2]. split; [lia| | |].
  - intros s x Hin. destruct (L2 s x Hin) as [H2|[H2 E2]]; [|right; split; [apply in_or_app; right; exact H2 | exact E2]].
    destruct (L1 s x H2) as [H1|[H1 E1]]; [left; exact H1 | right; split; [apply in_or_app; left; exact H1 | exact E1]].
  - intros s x Hs Hin. apply K2; [exact Hs|]. apply K1; [lia | exact Hin].
  - intros x Hin Hs. apply in_app_or in Hin. destruct Hin as [Hin|Hin]; [|apply N2; assumption].
    apply K2; [exact Hs|]. apply N1; [exact Hin | lia].
Qed.
Lemma HeldStep_refl p : HeldStep p p [].
Proof. apply HeldStep_frame, CFrame_refl. Qed.

Lemma add_valid_cert_held e p c p' o : add_valid_cert e p c = Some (p', o) ->
  cert_duplicate (p_ss p (c_slot c)) c = false -> HeldStep p p' [c].
Proof.
  intros H Hd. pose proof (add_valid_cert_frame _ _ _ _ _ H) as F.
  set (p0 := p_set_ss p (c_slot c) (ss_add_cert (p_ss p (c_slot c)) c)) in *.
  assert (S0 : HeldStep p p0 [c]).
  { split; [unfold first_unpruned; cbn; lia| | |].
    - intros s x Hin. unfold held, p0 in Hin. rewrite p_ss_set in Hin. destruct (s =? c_slot c) eqn:E; [|left; exact Hin].
      apply N.eqb_eq in E. subst s. apply add_cert_sub in Hin. destruct Hin as [Hin| ->]; [left; exact Hin | right; split; [left; reflexivity | reflexivity]].
    - intros s x _ Hin. unfold held, p0. rewrite p_ss_set. destruct (s =? c_slot c) eqn:E; [|exact Hin].
      apply N.eqb_eq in E. subst s. apply add_cert_sup; assumption.
    - intros x [<-|[]] _. unfold held, p0. rewrite p_ss_set, N.eqb_refl. apply add_cert_in, Hd. }
  pose proof (HeldStep_trans _ _ _ _ _ S0 (HeldStep_frame _ _ F)) as S. rewrite app_nil_r in S. exact S.
Qed.

(* certificates of another slot or another class are as (non-)duplicate after add_valid_cert as before *)
Lemma add_valid_cert_dup e p c p' o : add_valid_cert e p c = Some (p', o) -> forall s x,
  s <> c_slot c \/ class_of (c_kind x) <> class_of (c_kind c) ->
  cert_duplicate (p_ss p s) x = false -> cert_duplicate (p_ss p' s) x = false.
Proof.
  intros H s x Hne Hd. pose proof (add_valid_cert_frame _ _ _ _ _ H) as [_ F].
  set (p0 := p_set_ss p (c_slot c) (ss_add_cert (p_ss p (c_slot c)) c)) in *.
  assert (D0 : cert_duplicate (p_ss p0 s) x = false).
  { unfold p0. rewrite p_ss_set. destruct (s =? c_slot c) eqn:E; [|exact Hd].
    apply N.eqb_eq in E. subst s. destruct Hne as [Hne|Hne]; [congruence|]. rewrite add_cert_dup_other; assumption. }
  destruct (F s) as [K|[K _]]; [rewrite (cert_duplicate_ext _ _ x K); exact D0 | apply empty_not_dup, K].
Qed.

Lemma add_certs_held e : forall certs p acc p' o,
  add_certs e p (map Some certs) acc = Some (p', o) ->
  NoDup (map (fun c => (c_slot c, class_of (c_kind c))) certs) ->
  (forall c, In c certs -> cert_duplicate (p_ss p (c_slot c)) c = false) ->
  HeldStep p p' certs.
Proof.
  induction certs as [|c certs IH]; intros p acc p' o H ND Hd; cbn [map add_certs] in H.
  - injection H as <- _. apply HeldStep_refl.
  - destruct (add_valid_cert e p c) as [[p1 o1]|] eqn:E; [|discriminate].
    cbn [map] in ND. apply NoDup_cons_iff in ND. destruct ND as [Hnin ND].
    change (c :: certs) with ([c] ++ certs). eapply HeldStep_trans.
    + apply (add_valid_cert_held _ _ _ _ _ E). apply Hd. left; reflexivity.
    + apply (IH _ _ _ _ H ND). intros x Hx. apply (add_valid_cert_dup _ _ _ _ _ E).
      * destruct (N.eq_dec (c_slot x) (c_slot c)) as [Es|Es]; [|left; exact Es]. right. intros Ek. apply Hnin.
        apply in_map_iff. exists x. split; [rewrite Es, Ek; reflexivity | exact Hx].
      * apply Hd. right. exact Hx.
Qed.

Lemma add_certs_all_some e : forall ocs p acc p' o, add_certs e p ocs acc = Some (p', o) ->
  exists certs, ocs = map Some certs.
Proof.
  induction ocs as [|[c|] ocs IH]; intros p acc p' o H; cbn [add_certs] in H; [exists []; reflexivity| |discriminate].
  destruct (add_valid_cert e p c) as [[p1 o1]|]; [|discriminate]. destruct (IH _ _ _ _ H) as [certs ->]. exists (c :: certs). reflexivity.
Qed.
Lemma add_certs_events e : forall certs p acc p' o, add_certs e p (map Some certs) acc = Some (p', o) ->
  ev_certs (po_events o) = ev_certs (po_events acc) ++ certs.
Proof.
  induction certs as [|c certs IH]; intros p acc p' o H; cbn [map add_certs] in H.
  - injection H as _ <-. rewrite app_nil_r. reflexivity.
  - destruct (add_valid_cert e p c) as [[p1 o1]|] eqn:E; [|discriminate]. apply IH in H. rewrite H.
    apply add_valid_cert_local in E. destruct E as [f [oo [_ [_ A]]]]. cbn [held_certs flat_map app] in A.
    cbn [po_events po_app]. rewrite ev_certs_app, A, <- app_assoc. reflexivity.
Qed.

(* ---------- the certificates SlotState::add_vote creates are of classes the slot does not hold yet ---------- *)
Definition fresh_oc (ss : slot_state) (s : slot) (oc : option cert) (k : cclass) : Prop :=
  forall x, oc = Some x -> c_slot x = s /\ class_of (c_kind x) = k /\ cert_duplicate ss x = false.

Lemma mk_single_inv e s k vs x : mk_single e s k vs = Some x -> c_slot x = s /\ c_kind x = k.
Proof. unfold mk_single. destruct vs; [discriminate|]. intros H. injection H as <-. split; reflexivity. Qed.
Lemma mk_mixed_inv e s k v1 v2 x : mk_mixed e s k v1 v2 = Some x -> c_slot x = s /\ c_kind x = k.
Proof. unfold mk_mixed. destruct v1; destruct v2; try discriminate; intros H; injection H as <-; split; reflexivity. Qed.

Lemma piece_fresh ss s (cond : bool) oc k : (cond = true -> fresh_oc ss s oc k) ->
  Forall2 (fresh_oc ss s) (if cond then [oc] else []) (if cond then [k] else []).
Proof. destruct cond; intros H; [constructor; [apply H; reflexivity | constructor] | constructor]. Qed.

Lemma nf_due_fresh e s ss h : Forall2 (fresh_oc ss s) (nf_cert_due e s ss h)
  (if is_quorum e (aget 0 h (st_nf (ss_t ss)) + aget 0 h (st_notar (ss_t ss))) && negb (is_notar_fallback ss h) then [KlNf h] else []).
Proof.
  unfold nf_cert_due. apply piece_fresh. intros Hc x Hx. apply andb_true_iff in Hc. destruct Hc as [_ Hc].
  apply mk_mixed_inv in Hx. destruct Hx as [X1 X2]. split; [exact X1|]. unfold cert_duplicate. rewrite X2. cbn [class_of].
  split; [reflexivity|]. destruct (is_notar_fallback ss h); [discriminate | reflexivity].
Qed.

(* the classes whose add_valid_cert ends in handle_finalization, hence in a prune *)
Definition prunesC (k : cclass) : Prop := k = KlNotar \/ k = KlFF \/ k = KlFin.
Definition tail_prunes (ks : list cclass) : Prop := match ks with [] => True | _ :: tl => Forall prunesC tl end.

Lemma count_vote_fresh e ss vt :
  exists ks, Forall2 (fresh_oc (fst (ss_count_vote true e ss vt)) (v_slot vt)) (o_certs (snd (ss_count_vote true e ss vt))) ks /\
             NoDup ks /\ tail_prunes ks.
Proof.
  unfold ss_count_vote. destruct (v_kind vt) as [h|h| | |].
  - unfold count_notar_stake.
    match goal with |- context [s2n_try e ?s ?x h] => destruct (s2n_try e s x h) as [[a1 a2] a3] end.
    match goal with |- context [s2s_try e ?s a1 a2] => destruct (s2s_try e s a1 a2) as [ss3 ev2] end.
    cbn [fst snd o_certs].
    eexists. split.
    + apply Forall2_app; [apply nf_due_fresh|]. apply Forall2_app.
      * apply piece_fresh with (k := KlNotar). intros Hc x Hx. apply andb_true_iff in Hc. destruct Hc as [_ Hc].
        apply mk_single_inv in Hx. destruct Hx as [X1 X2]. split; [exact X1|]. unfold cert_duplicate. rewrite X2. cbn [class_of].
        split; [reflexivity|]. destruct (ce_notar (ss_c ss3)); [discriminate | reflexivity].
      * apply piece_fresh with (k := KlFF). intros Hc x Hx. apply andb_true_iff in Hc. destruct Hc as [_ Hc].
        apply mk_single_inv in Hx. destruct Hx as [X1 X2]. split; [exact X1|]. unfold cert_duplicate. rewrite X2. cbn [class_of].
        split; [reflexivity|]. destruct (ce_ff (ss_c ss3)); [discriminate | reflexivity].
    + repeat match goal with |- context [if ?c then _ else _] => destruct c end; cbn [app tail_prunes];
        (split; [repeat constructor; cbn [In]; intuition discriminate | repeat constructor; unfold prunesC; tauto]).
  - unfold count_nf_stake. cbn [fst snd o_certs]. eexists. split; [apply nf_due_fresh|].
    match goal with |- context [if ?c then _ else _] => destruct c end; cbn [tail_prunes]; (split; [repeat constructor; cbn [In]; tauto | repeat constructor]).
  - unfold count_skip_stake.
    match goal with |- context [recheck_pending e ?s ?x ?hs [] []] => destruct (recheck_pending e s x hs [] []) as [[ss2 ev1] rp1] end.
    pose proof (s2s_try_frame e (v_slot vt) ss2 ev1) as F. destruct (s2s_try e (v_slot vt) ss2 ev1) as [ss3 ev2]. cbn [fst] in F. destruct F as [_ [_ F]].
    cbn [fst snd o_certs]. eexists. split.
    + apply piece_fresh with (k := KlSkip). intros Hc x Hx. apply andb_true_iff in Hc. destruct Hc as [_ Hc].
      apply mk_mixed_inv in Hx. destruct Hx as [X1 X2]. split; [exact X1|]. unfold cert_duplicate. rewrite X2, F. cbn [class_of].
      split; [reflexivity|]. destruct (ce_skip (ss_c ss2)); [discriminate | reflexivity].
    + match goal with |- context [if ?c then _ else _] => destruct c end; cbn [tail_prunes]; (split; [repeat constructor; cbn [In]; tauto | repeat constructor]).
  - unfold count_skip_stake.
    match goal with |- context [recheck_pending e ?s ?x ?hs [] []] => destruct (recheck_pending e s x hs [] []) as [[ss2 ev1] rp1] end.
    pose proof (s2s_try_frame e (v_slot vt) ss2 ev1) as F. destruct (s2s_try e (v_slot vt) ss2 ev1) as [ss3 ev2]. cbn [fst] in F. destruct F as [_ [_ F]].
    cbn [fst snd o_certs]. eexists. split.
    + apply piece_fresh with (k := KlSkip). intros Hc x Hx. apply andb_true_iff in Hc. destruct Hc as [_ Hc].
      apply mk_mixed_inv in Hx. destruct Hx as [X1 X2]. split; [exact X1|]. unfold cert_duplicate. rewrite X2, F. cbn [class_of].
      split; [reflexivity|]. destruct (ce_skip (ss_c ss2)); [discriminate | reflexivity].
    + match goal with |- context [if ?c then _ else _] => destruct c end; cbn [tail_prunes]; (split; [repeat constructor; cbn [In]; tauto | repeat constructor]).
  - unfold count_fin_stake. cbn [fst snd o_certs]. eexists. split.
    + apply piece_fresh with (k := KlFin). intros Hc x Hx. apply andb_true_iff in Hc. destruct Hc as [_ Hc].
      apply mk_single_inv in Hx. destruct Hx as [X1 X2]. split; [exact X1|]. unfold cert_duplicate. rewrite X2. cbn [class_of].
      split; [reflexivity|]. cbn [ss_c with_t] in *. destruct (ce_fin (ss_c (store_vote ss (v_signer vt) KFinal))); [discriminate | reflexivity].
    + match goal with |- context [if ?c then _ else _] => destruct c end; cbn [tail_prunes]; (split; [repeat constructor; cbn [In]; tauto | repeat constructor]).
Qed.

Lemma fresh_forall2 ss s : forall certs ks, Forall2 (fresh_oc ss s) (map Some certs) ks ->
  map (fun c => class_of (c_kind c)) certs = ks /\
  forall c, In c certs -> c_slot c = s /\ cert_duplicate ss c = false.
Proof.
  induction certs as [|c certs IH]; intros ks F; inversion F as [|oc k l l' Hc Hr]; subst.
  - split; [reflexivity | intros c []].
  - destruct (IH _ Hr) as [I1 I2]. destruct (Hc c eq_refl) as [X1 [X2 X3]]. split; [cbn [map]; rewrite X2, I1; reflexivity|].
    intros x [<-|Hx]; [split; assumption | apply I2, Hx].
Qed.

Lemma add_vote_fresh e ss vt certs : o_certs (snd (ss_add_vote_gen true e ss vt)) = map Some certs ->
  (forall c, In c certs -> c_slot c = v_slot vt /\ cert_duplicate (fst (ss_add_vote_gen true e ss vt)) c = false) /\
  NoDup (map (fun c => class_of (c_kind c)) certs) /\ tail_prunes (map (fun c => class_of (c_kind c)) certs).
Proof.
  pose proof (add_vote_certs_frame true e ss vt) as Fc.
  assert (Fc1 : ss_c (fst (ss_count_vote true e ss vt)) = ss_c ss).
  { pose proof (count_vote_fresh e ss vt) as _. unfold ss_count_vote. destruct (v_kind vt) as [h|h| | |].
    - unfold count_notar_stake.
      match goal with |- context [s2n_try e ?s ?x h] => assert (F1 := s2n_try_frame e s x h); destruct (s2n_try e s x h) as [[a1 a2] a3] end.
      match goal with |- context [s2s_try e ?s a1 a2] => assert (F2 := s2s_try_frame e s a1 a2); destruct (s2s_try e s a1 a2) as [b1 b2] end.
      cbn in *. destruct F1 as (_ & _ & F1). destruct F2 as (_ & _ & F2). rewrite F2, F1. reflexivity.
    - reflexivity.
    - unfold count_skip_stake.
      match goal with |- context [recheck_pending e ?s ?x ?hs [] []] => assert (F1 := recheck_frame e s hs x [] []); destruct (recheck_pending e s x hs [] []) as [[a1 a2] a3] end.
      match goal with |- context [s2s_try e ?s a1 a2] => assert (F2 := s2s_try_frame e s a1 a2); destruct (s2s_try e s a1 a2) as [b1 b2] end.
      cbn in *. destruct F1 as (_ & _ & F1). destruct F2 as (_ & _ & F2). rewrite F2, F1. reflexivity.
    - unfold count_skip_stake.
      match goal with |- context [recheck_pending e ?s ?x ?hs [] []] => assert (F1 := recheck_frame e s hs x [] []); destruct (recheck_pending e s x hs [] []) as [[a1 a2] a3] end.
      match goal with |- context [s2s_try e ?s a1 a2] => assert (F2 := s2s_try_frame e s a1 a2); destruct (s2s_try e s a1 a2) as [b1 b2] end.
      cbn in *. destruct F1 as (_ & _ & F1). destruct F2 as (_ & _ & F2). rewrite F2, F1. reflexivity.
    - reflexivity. }
  destruct (count_vote_fresh e ss vt) as [ks [F [ND TP]]].
  assert (Ho : o_certs (snd (ss_add_vote_gen true e ss vt)) = o_certs (snd (ss_count_vote true e ss vt))).
  { unfold ss_add_vote_gen. destruct (ss_count_vote true e ss vt) as [ss1 out]. cbn [snd].
    destruct (v_signer vt =? own e); [|reflexivity].
    destruct (recheck_pending e (v_slot vt) ss1 (s2n_pending (ss_n ss1)) (o_events out) (o_repair out)) as [[a1 a2] a3]. reflexivity. }
  intros Hcs. rewrite Ho in Hcs. rewrite Hcs in F. destruct (fresh_forall2 _ _ _ _ F) as [E1 E2].
  split; [|rewrite E1; split; [exact ND | exact TP]]. intros c Hc. destruct (E2 c Hc) as [X1 X2]. split; [exact X1|].
  rewrite <- X2. apply cert_duplicate_ext. congruence.
Qed.

Lemma NoDup_pairs {A B C} (f : A -> B) (g : A -> C) l : NoDup (map g l) -> NoDup (map (fun x => (f x, g x)) l).
Proof.
  intros H. apply (NoDup_map_inv snd). rewrite map_map. cbn [snd]. exact H.
Qed.

Lemma CFrame_panicked p q : CFrame p q -> CFrame p (panicked q).
Proof. intros F. eapply CFrame_trans; [exact F|]. apply CFrame_slots; [reflexivity | unfold first_unpruned; cbn; lia]. Qed.

Theorem pool_step_held e p op :
  HeldStep p (fst (fst (pool_step e p op)))
           (held_certs (step_items op (snd (fst (pool_step e p op))) (snd (pool_step e p op)))).
Proof.
  assert (Hsame : forall p', CFrame p p' -> HeldStep p p' []) by (intros p'; apply HeldStep_frame).
  assert (Hpan : forall p', CFrame p p' -> HeldStep p (panicked p') []) by (intros p' F; apply HeldStep_frame, CFrame_panicked, F).
  unfold pool_step. destruct (p_panicked p); [apply HeldStep_refl|].
  destruct op as [v|c|b par| |s|].
  - (* vote *)
    unfold pool_add_vote, pool_add_vote_gen. cbv zeta.
    destruct (out_of_bounds p (v_slot v)); [apply HeldStep_refl|].
    destruct (check_slashable _ v); [apply Hsame, CFrame_touch|].
    destruct (should_ignore _ v); [apply Hsame, CFrame_touch|].
    pose proof (add_vote_kind safeP safeP_n safeP_s true e (p_ss (p_touch p (v_slot v)) (v_slot v)) v) as K.
    pose proof (add_vote_certs_frame true e (p_ss (p_touch p (v_slot v)) (v_slot v)) v) as Fc.
    pose proof (add_vote_fresh e (p_ss (p_touch p (v_slot v)) (v_slot v)) v) as Fr.
    destruct (ss_add_vote_gen true e _ v) as [ss' out]. cbn [fst snd] in K, Fc, Fr. apply safe_quiet in K.
    set (p1 := p_set_ss (p_touch p (v_slot v)) (v_slot v) ss').
    assert (F1 : CFrame p p1) by (eapply CFrame_trans; [apply CFrame_touch | apply CFrame_set, Fc]).
    destruct (add_certs e p1 (o_certs out) po_empty) as [[p2 o]|] eqn:E; [|apply Hpan, F1].
    cbn [fst snd step_items po_events po_app].
    destruct (add_certs_all_some _ _ _ _ _ _ E) as [certs Ec]. rewrite Ec in E. destruct (Fr certs Ec) as [Fr1 [Fr2 Fr3]].
    pose proof (add_certs_events _ _ _ _ _ _ E) as Ev. cbn [po_events po_empty app] in Ev.
    destruct K as [K1 _]. rewrite ev_certs_app, K1, app_nil_r, Ev, held_certs_map.
    change certs with ([] ++ certs). eapply HeldStep_trans; [apply Hsame, F1|].
    apply (add_certs_held _ _ _ _ _ _ E).
    + apply NoDup_pairs, Fr2.
    + intros c Hc. destruct (Fr1 c Hc) as [X1 X2]. rewrite X1. unfold p1. rewrite p_ss_set_same. exact X2.
  - (* certificate *)
    unfold pool_add_cert. cbv zeta.
    destruct (out_of_bounds p (c_slot c)); [apply HeldStep_refl|].
    destruct (cert_duplicate _ c) eqn:Ed; [apply Hsame, CFrame_touch|].
    destruct (add_valid_cert e (p_touch p (c_slot c)) c) as [[p1 o]|] eqn:E; [|apply Hpan, CFrame_touch].
    cbn [fst snd step_items].
    assert (E3 : ev_certs (po_events o) = [c]) by (destruct (add_valid_cert_local _ _ _ _ _ E) as [f [oo [_ [_ A]]]]; exact A).
    rewrite E3, held_certs_map. change [c] with ([] ++ [c]). eapply HeldStep_trans; [apply Hsame, CFrame_touch|].
    apply (add_valid_cert_held _ _ _ _ _ E Ed).
  - (* block *)
    unfold pool_add_block, pool_add_block_gen.
    destruct (negb (fst par <? fst b)); [apply Hpan, CFrame_refl|].
    destruct (fst b <? first_unpruned p); [apply HeldStep_refl|].
    destruct (ft_add_parent (p_ft p) b par) as [[ft' ev]|] eqn:Eft; [|apply Hpan, CFrame_refl].
    destruct (pool_handle_finalization (pool_with_ft p ft') ev) as [[p1 o1]|] eqn:Eh; [|apply Hpan, CFrame_refl].
    apply ft_add_parent_first in Eft.
    assert (F1 : CFrame p p1).
    { eapply CFrame_trans; [|apply (CFrame_hf _ _ _ _ Eh)]. apply CFrame_slots; [reflexivity | exact Eft]. }
    destruct (fst b <? first_unpruned p1); [apply Hsame, F1|]. cbv zeta.
    set (p2 := p_set_ss p1 (fst b) (notify_parent_known (p_ss p1 (fst b)) (snd b))).
    assert (F2 : CFrame p p2) by (eapply CFrame_trans; [exact F1 | apply CFrame_set, known_certs]).
    assert (Fw : forall q w, CFrame p q -> CFrame p (mkPool (p_slots q) (p_prt q) (p_ft q) w (p_panicked q))).
    { intros q w Fq. eapply CFrame_trans; [exact Fq|]. apply CFrame_slots; [reflexivity | unfold first_unpruned; cbn; lia]. }
    destruct (_ || match alookup (fst par) _ with Some pss => is_nf_or_stronger pss (snd par) | None => false end);
      [|apply Hsame, Fw, F2].
    destruct (notify_parent_certified e (fst b) _ (snd b)) as [[[ss' evs] rps]|] eqn:Enc; [|apply Hpan, F2].
    assert (F3 : CFrame p (p_set_ss p2 (fst b) ss')).
    { eapply CFrame_trans; [exact F2|]. apply CFrame_set. apply (certified_certs _ _ _ _ _ Enc). }
    destruct evs as [|x evs]; [destruct rps|]; cbn [fst snd step_items held_certs flat_map app];
      try (apply Hsame, Fw, F3); apply Hsame, F3.
  - (* standstill *)
    unfold pool_standstill, pool_standstill_gen. cbv zeta.
    destruct (get_final_certs p (finalized_slot p)); [destruct (true && (finalized_slot p =? 0))|];
      try apply HeldStep_refl; apply Hpan, CFrame_refl.
  - (* wait *)
    unfold pool_wait. destruct (pt_wait (p_prt p) s) as [[t r]|] eqn:E; [|apply Hpan, CFrame_refl].
    apply Hsame. apply CFrame_slots; [reflexivity | unfold first_unpruned; cbn; lia].
  - apply HeldStep_refl.
Qed.

(* ================= every reachable pool ================= *)
Definition Held (p : pool) (H : list cert) : Prop :=
  (forall s c, In c (held p s) -> In c H /\ c_slot c = s) /\
  (forall c, In c H -> first_unpruned p <= c_slot c -> In c (held p (c_slot c))).

Lemma Held_step p H p' new : Held p H -> HeldStep p p' new -> Held p' (H ++ new).
Proof.
  intros [A B] [M L K N]. split.
  - intros s c Hin. destruct (L s c Hin) as [X|[X E]].
    + destruct (A s c X) as [A1 A2]. split; [apply in_or_app; left; exact A1 | exact A2].
    + split; [apply in_or_app; right; exact X | exact E].
  - intros c Hin Hs. apply in_app_or in Hin. destruct Hin as [Hin|Hin]; [|apply N; assumption].
    apply K; [exact Hs|]. apply B; [exact Hin | lia].
Qed.

Theorem held_is_retained_ghost e ops :
  let g := ghost_run e ops in
  (forall s c, In c (certs_of_slot (p_ss (g_pool g) s)) -> In c (held_certs (g_trace g)) /\ c_slot c = s) /\
  (forall c, In c (held_certs (g_trace g)) -> first_unpruned (g_pool g) <= c_slot c ->
             In c (certs_of_slot (p_ss (g_pool g) (c_slot c)))).
Proof.
  cbv zeta. induction ops as [|op ops IH] using rev_ind.
  - split; [intros s c Hin; destruct Hin | intros c []].
  - rewrite ghost_run_snoc. destruct (ghost_step_proj e (ghost_run e ops) op) as [A [B _]]. rewrite A, B, held_certs_app.
    apply (Held_step _ _ _ _ IH). apply pool_step_held.
Qed.

(* ================= nothing below the watermark is retained, in EVERY reachable pool ================= *)
Definition NoOld (p : pool) : Prop := forall s, alookup s (p_slots p) <> None -> first_unpruned p <= s.

Lemma NoOld_set p s x : NoOld p -> first_unpruned p <= s -> NoOld (p_set_ss p s x).
Proof.
  intros R Hs s'. unfold p_set_ss. cbn [p_slots first_unpruned p_ft]. destruct (N.eq_dec s' s) as [->|Hne]; [intros _; exact Hs|].
  rewrite alookup_ainsert_other by exact Hne. apply R.
Qed.
Lemma NoOld_touch p s : NoOld p -> first_unpruned p <= s -> NoOld (p_touch p s).
Proof. intros R Hs. unfold p_touch. destruct (alookup s (p_slots p)); [exact R | apply NoOld_set; assumption]. Qed.
Lemma NoOld_prune p : NoOld (pool_prune p).
Proof.
  intros s. unfold pool_prune. cbn [p_slots first_unpruned p_ft].
  rewrite (PoolProgressProofs.alookup_filter_key (fun k => first_unpruned p <=? k)).
  unfold first_unpruned. destruct (ft_first (p_ft p) <=? s) eqn:E; [intros _; apply N.leb_le, E | intros X; congruence].
Qed.
Lemma NoOld_slots p p' : p_slots p' = p_slots p -> first_unpruned p' = first_unpruned p -> NoOld p -> NoOld p'.
Proof. intros E1 E2 R s. rewrite E1, E2. apply R. Qed.

Lemma NoOld_hf p ev p' o : pool_handle_finalization p ev = Some (p', o) -> NoOld p'.
Proof.
  unfold pool_handle_finalization. destruct (pt_handle_finalization (p_prt p) ev) as [[[t prs] wk]|]; [|discriminate].
  intros H. injection H as <- _. apply NoOld_prune.
Qed.

Lemma NoOld_notify_children e : forall children p acc p' o,
  notify_children e p children acc = Some (p', o) -> NoOld p -> NoOld p'.
Proof.
  unfold notify_children.
  induction children as [|[cs ch] l IH]; intros p acc p' o H R; cbn [notify_children_gen andb] in H.
  - injection H as <- _. exact R.
  - destruct (cs <? first_unpruned p) eqn:Ecs; [exact (IH _ _ _ _ H R)|]. apply N.ltb_ge in Ecs.
    destruct (notify_parent_certified e cs (p_ss (p_touch p cs) cs) ch) as [[[ss' evs] rps]|] eqn:NC; [|discriminate].
    apply IH in H; [exact H|]. apply NoOld_set; [apply NoOld_touch; assumption|].
    unfold p_touch. destruct (alookup cs (p_slots p)); exact Ecs.
Qed.
Lemma NoOld_notify_waiting e p b p' o : notify_waiting_children e p b = Some (p', o) -> NoOld p -> NoOld p'.
Proof.
  unfold notify_waiting_children, notify_waiting_children_gen. intros H R. apply NoOld_notify_children in H; [exact H|].
  apply (NoOld_slots p); [reflexivity | reflexivity | exact R].
Qed.

Lemma add_valid_cert_NoOld e p c p' o : add_valid_cert e p c = Some (p', o) ->
  prunesC (class_of (c_kind c)) \/ (NoOld p /\ first_unpruned p <= c_slot c) -> NoOld p'.
Proof.
  unfold add_valid_cert. cbv zeta. intros H Hp.
  set (p0 := p_set_ss p (c_slot c) (ss_add_cert (p_ss p (c_slot c)) c)) in *.
  assert (Hprt : forall q t, NoOld q -> NoOld (pool_with_prt q t)) by (intros q t; apply NoOld_slots; reflexivity).
  destruct (c_kind c) as [h|h| |h|] eqn:Ek.
  - destruct (ft_mark_notarized (p_ft p0) (c_slot c, h)) as [[ft' ev]|] eqn:Eft; [|discriminate].
    destruct (pool_handle_finalization (pool_with_ft p0 ft') ev) as [[p1 o1]|] eqn:Eh; [|discriminate].
    destruct (notify_waiting_children e p1 (c_slot c, h)) as [[p2 o2]|] eqn:En; [|discriminate].
    destruct (pt_mark_notar_fallback (p_prt p2) (c_slot c, h)) as [[[t prs] wk]|] eqn:Em; [|discriminate].
    injection H as <- _. apply Hprt. apply (NoOld_notify_waiting _ _ _ _ _ En). apply (NoOld_hf _ _ _ _ Eh).
  - destruct Hp as [[X|[X|X]]|[R Hs]]; try discriminate X.
    destruct (notify_waiting_children e p0 (c_slot c, h)) as [[p2 o2]|] eqn:En; [|discriminate].
    destruct (pt_mark_notar_fallback (p_prt p2) (c_slot c, h)) as [[[t prs] wk]|] eqn:Em; [|discriminate].
    injection H as <- _. apply Hprt. apply (NoOld_notify_waiting _ _ _ _ _ En). apply NoOld_set; assumption.
  - destruct Hp as [[X|[X|X]]|[R Hs]]; try discriminate X.
    destruct (pt_mark_skipped (p_prt p0) (c_slot c)) as [[[t prs] wk]|] eqn:Em; [|discriminate].
    injection H as <- _. apply Hprt. apply NoOld_set; assumption.
  - destruct (ft_mark_fast_finalized (p_ft p0) (c_slot c, h)) as [[ft' ev]|] eqn:Eft; [|discriminate].
    destruct (pool_handle_finalization (pool_with_ft p0 ft') ev) as [[p1 o1]|] eqn:Eh; [|discriminate].
    destruct (notify_waiting_children e p1 (c_slot c, h)) as [[p2 o2]|] eqn:En; [|discriminate].
    injection H as <- _. apply (NoOld_notify_waiting _ _ _ _ _ En). apply (NoOld_hf _ _ _ _ Eh).
  - destruct (ft_mark_finalized (p_ft p0) (c_slot c)) as [[ft' ev]|] eqn:Eft; [|discriminate].
    destruct (pool_handle_finalization (pool_with_ft p0 ft') ev) as [[p1 o1]|] eqn:Eh; [|discriminate].
    injection H as <- _. apply (NoOld_hf _ _ _ _ Eh).
Qed.

Lemma add_certs_NoOld_tail e : forall certs p acc p' o,
  add_certs e p (map Some certs) acc = Some (p', o) ->
  Forall (fun c => prunesC (class_of (c_kind c))) certs -> NoOld p -> NoOld p'.
Proof.
  induction certs as [|c certs IH]; intros p acc p' o H F R; cbn [map add_certs] in H.
  - injection H as <- _. exact R.
  - destruct (add_valid_cert e p c) as [[p1 o1]|] eqn:E; [|discriminate]. inversion F as [|x l Fc Fl]; subst.
    apply (IH _ _ _ _ H Fl). apply (add_valid_cert_NoOld _ _ _ _ _ E). left. exact Fc.
Qed.
Lemma add_certs_NoOld e certs p acc p' o :
  add_certs e p (map Some certs) acc = Some (p', o) -> NoOld p ->
  (forall c, In c certs -> first_unpruned p <= c_slot c) ->
  tail_prunes (map (fun c => class_of (c_kind c)) certs) -> NoOld p'.
Proof.
  destruct certs as [|c certs]; cbn [map add_certs tail_prunes]; intros H R Hs T.
  - injection H as <- _. exact R.
  - destruct (add_valid_cert e p c) as [[p1 o1]|] eqn:E; [|discriminate].
    apply (add_certs_NoOld_tail _ _ _ _ _ _ H).
    + exact (proj1 (Forall_map (fun c => class_of (c_kind c)) prunesC certs) T).
    + apply (add_valid_cert_NoOld _ _ _ _ _ E). right. split; [exact R | apply Hs; left; reflexivity].
Qed.

Lemma out_of_bounds_false p s : out_of_bounds p s = false -> first_unpruned p <= s.
Proof. unfold out_of_bounds. intros H. apply orb_false_iff in H. destruct H as [H _]. apply N.ltb_ge in H. exact H. Qed.

Theorem pool_step_NoOld e p op : NoOld p -> NoOld (fst (fst (pool_step e p op))).
Proof.
  intros R.
  assert (Hpan : forall q, NoOld q -> NoOld (panicked q)) by (intros q; apply NoOld_slots; reflexivity).
  unfold pool_step. destruct (p_panicked p); [exact R|].
  destruct op as [v|c|b par| |s|].
  - unfold pool_add_vote, pool_add_vote_gen. cbv zeta.
    destruct (out_of_bounds p (v_slot v)) eqn:Eb; [exact R|]. apply out_of_bounds_false in Eb.
    assert (R0 : NoOld (p_touch p (v_slot v))) by (apply NoOld_touch; assumption).
    assert (F0 : first_unpruned (p_touch p (v_slot v)) = first_unpruned p) by (unfold p_touch; destruct (alookup _ _); reflexivity).
    destruct (check_slashable _ v); [exact R0|].
    destruct (should_ignore _ v); [exact R0|].
    pose proof (add_vote_fresh e (p_ss (p_touch p (v_slot v)) (v_slot v)) v) as Fr.
    destruct (ss_add_vote_gen true e _ v) as [ss' out]. cbn [fst snd] in Fr.
    set (p1 := p_set_ss (p_touch p (v_slot v)) (v_slot v) ss').
    assert (R1 : NoOld p1) by (apply NoOld_set; [exact R0 | rewrite F0; exact Eb]).
    destruct (add_certs e p1 (o_certs out) po_empty) as [[p2 o]|] eqn:E; [|apply Hpan, R1].
    cbn [fst]. destruct (add_certs_all_some _ _ _ _ _ _ E) as [certs Ec]. rewrite Ec in E. destruct (Fr certs Ec) as [Fr1 [_ Fr3]].
    apply (add_certs_NoOld _ _ _ _ _ _ E R1); [|exact Fr3].
    intros c Hc. destruct (Fr1 c Hc) as [X _]. rewrite X. unfold p1, first_unpruned. cbn [p_set_ss p_ft]. exact (eq_ind_r (fun z => z <= v_slot v) Eb F0).
  - unfold pool_add_cert. cbv zeta.
    destruct (out_of_bounds p (c_slot c)) eqn:Eb; [exact R|]. apply out_of_bounds_false in Eb.
    assert (R0 : NoOld (p_touch p (c_slot c))) by (apply NoOld_touch; assumption).
    assert (F0 : first_unpruned (p_touch p (c_slot c)) = first_unpruned p) by (unfold p_touch; destruct (alookup _ _); reflexivity).
    destruct (cert_duplicate _ c); [exact R0|].
    destruct (add_valid_cert e (p_touch p (c_slot c)) c) as [[p1 o]|] eqn:E; [|apply Hpan, R0].
    cbn [fst]. apply (add_valid_cert_NoOld _ _ _ _ _ E). right. split; [exact R0 | rewrite F0; exact Eb].
  - unfold pool_add_block, pool_add_block_gen.
    destruct (negb (fst par <? fst b)); [apply Hpan, R|].
    destruct (fst b <? first_unpruned p); [exact R|].
    destruct (ft_add_parent (p_ft p) b par) as [[ft' ev]|] eqn:Eft; [|apply Hpan, R].
    destruct (pool_handle_finalization (pool_with_ft p ft') ev) as [[p1 o1]|] eqn:Eh; [|apply Hpan, R].
    pose proof (NoOld_hf _ _ _ _ Eh) as R1.
    destruct (fst b <? first_unpruned p1) eqn:E1; [exact R1|]. apply N.ltb_ge in E1. cbv zeta.
    set (p2 := p_set_ss p1 (fst b) (notify_parent_known (p_ss p1 (fst b)) (snd b))).
    assert (R2 : NoOld p2) by (apply NoOld_set; assumption).
    assert (Fw : forall q w, NoOld q -> NoOld (mkPool (p_slots q) (p_prt q) (p_ft q) w (p_panicked q))).
    { intros q w Rq. apply (NoOld_slots q); [reflexivity | reflexivity | exact Rq]. }
    destruct (_ || match alookup (fst par) _ with Some pss => is_nf_or_stronger pss (snd par) | None => false end);
      [|apply Fw, R2].
    destruct (notify_parent_certified e (fst b) _ (snd b)) as [[[ss' evs] rps]|] eqn:Enc; [|apply Hpan, R2].
    assert (R3 : NoOld (p_set_ss p2 (fst b) ss')) by (apply NoOld_set; [exact R2 | exact E1]).
    destruct evs as [|x evs]; [destruct rps|]; cbn [fst]; try (apply Fw, R3); exact R3.
  - unfold pool_standstill, pool_standstill_gen. cbv zeta.
    destruct (get_final_certs p (finalized_slot p)); [destruct (true && (finalized_slot p =? 0))|];
      try exact R; apply Hpan, R.
  - unfold pool_wait. destruct (pt_wait (p_prt p) s) as [[t r]|] eqn:E; [|apply Hpan, R].
    apply (NoOld_slots p); [reflexivity | reflexivity | exact R].
  - exact R.
Qed.

Lemma In_alookup {V} s (x : V) l : In (s, x) l -> alookup s l <> None.
Proof.
  induction l as [|[k v] l IH]; [intros []|]. intros [X|X]; cbn [alookup].
  - injection X as -> ->. rewrite N.eqb_refl. discriminate.
  - destruct (s =? k); [discriminate | exact (IH X)].
Qed.

(* the node never retains a slot state below its watermark *)
Theorem reachable_retains_nothing_old e ops s ss :
  In (s, ss) (p_slots (g_pool (ghost_run e ops))) -> first_unpruned (g_pool (ghost_run e ops)) <= s.
Proof.
  intros Hin. apply In_alookup in Hin. revert s ss Hin.
  assert (R : NoOld (g_pool (ghost_run e ops))).
  { induction ops as [|op ops IH] using rev_ind; [intros s X; exfalso; apply X; reflexivity|].
    rewrite ghost_run_snoc. destruct (ghost_step_proj e (ghost_run e ops) op) as [A _]. rewrite A. apply pool_step_NoOld, IH. }
  intros s _ Hin. exact (R s Hin).
Qed.
