(* C07 / C08: the certificate-to-mark link.  The pool feeds its two trackers exactly the marks its certificates and
   registered blocks justify (Model/PoolTrace.v for the vocabulary):
   in every pool state reachable by pool_step from pool_init, with the ghost trace read off the observable results,
     - the finality tracker is ft_run over fops_of trace (one mark per Notar / FastFinal / Final certificate held so
       far, one add_parent per registration),
     - the parent-ready tracker is pt_run over tops_of trace (a notar-fallback mark per Notar / NotarFallback
       certificate, a skip mark per Skip certificate, the finalization events the finality tracker returned, each
       followed by a prune at the watermark), and the ParentReady / woken-waiter events the pool has emitted are
       exactly the announcements / wake-ups of that run. *)
From Coq Require Import List NArith Bool Lia ZifyBool ZifyNat ZifyN Permutation.
From AG Require Import Gen.Params Model.Pool Model.TrackerSpec Model.FinalitySpec Model.PoolTrace
     Proofs.SlotStateProofs Proofs.TrackerProofs Proofs.ParentReadyProofs Proofs.PoolTrackerLink Proofs.FinalityProofs.
Import ListNotations.
Open Scope N_scope.

(* ================= event projections ================= *)
Lemma ev_certs_app a b : ev_certs (a ++ b) = ev_certs a ++ ev_certs b.
Proof. apply flat_map_app. Qed.
Lemma ev_prs_app a b : ev_prs (a ++ b) = ev_prs a ++ ev_prs b.
Proof. apply flat_map_app. Qed.
Lemma ev_wk_app a b : ev_wk (a ++ b) = ev_wk a ++ ev_wk b.
Proof. apply filter_app. Qed.

Definition ev_is_safe (e : pevent) : bool := match e with ESafeToNotar _ | ESafeToSkip _ => true | _ => false end.
(* an event list that contains no certificate, parent-ready or woken-waiter event *)
Definition quiet (l : list pevent) : Prop := ev_certs l = [] /\ ev_prs l = [] /\ ev_wk l = [].

Lemma quiet_nil : quiet [].
Proof. repeat split. Qed.
Lemma quiet_app a b : quiet a -> quiet b -> quiet (a ++ b).
Proof.
  intros [A1 [A2 A3]] [B1 [B2 B3]]. unfold quiet. rewrite ev_certs_app, ev_prs_app, ev_wk_app, A1, A2, A3, B1, B2, B3.
  repeat split.
Qed.
Lemma safe_quiet l : Forall (fun e => ev_is_safe e = true) l -> quiet l.
Proof.
  induction 1 as [|x l Hx _ IH]; [apply quiet_nil|].
  change (x :: l) with ([x] ++ l). apply quiet_app; [|exact IH]. destruct x; try discriminate Hx; repeat split.
Qed.
Lemma woken_proj l : Forall (fun e => ev_is_woken e = true) l -> ev_certs l = [] /\ ev_prs l = [] /\ ev_wk l = l.
Proof.
  induction 1 as [|x l Hx _ [I1 [I2 I3]]]; [repeat split|].
  destruct x; try discriminate Hx. cbn. unfold ev_certs, ev_prs, ev_wk in *. rewrite I1, I2, I3. repeat split.
Qed.
Lemma pr_events_proj prs : ev_certs (pr_events prs) = [] /\ ev_prs (pr_events prs) = prs /\ ev_wk (pr_events prs) = [].
Proof.
  induction prs as [|[s p] l [I1 [I2 I3]]]; [repeat split|].
  cbn. unfold ev_certs, ev_prs, ev_wk, pr_events in *. rewrite I1, I2, I3. repeat split.
Qed.
Lemma tracker_events_proj wk prs : Forall (fun e => ev_is_woken e = true) wk ->
  ev_certs (wk ++ pr_events prs) = [] /\ ev_prs (wk ++ pr_events prs) = prs /\ ev_wk (wk ++ pr_events prs) = wk.
Proof.
  intros H. destruct (woken_proj wk H) as [A1 [A2 A3]]. destruct (pr_events_proj prs) as [B1 [B2 B3]].
  rewrite ev_certs_app, ev_prs_app, ev_wk_app, A1, A2, A3, B1, B2, B3, !app_nil_r. repeat split.
Qed.

(* ================= what kind of events each component emits ================= *)
Definition hf_stp (r : ptres) (f : prtracker -> ptres) : ptres :=
  match r with
  | None => None
  | Some (t', acc, wk) => match f t' with None => None | Some (t'', a, w) => Some (t'', acc ++ a, wk ++ w) end
  end.
Definition hf_cor (t : prtracker) (ev : fin_event) : ptres :=
  let r0 : ptres := Some (t, [], []) in
  let r1 := match fe_final ev with Some b => hf_stp r0 (fun t' => pt_mark_notar_fallback t' b) | None => r0 end in
  let r2 := fold_left (fun r b => hf_stp r (fun t' => pt_mark_notar_fallback t' b)) (fe_impl_final ev) r1 in
  fold_left (fun r s => hf_stp r (fun t' => pt_mark_skipped t' s)) (fe_impl_skipped ev) r2.
Lemma hf_unfold' t ev : pt_handle_finalization t ev =
  match hf_cor t ev with
  | None => None
  | Some (t', acc, wk) =>
    Some (t', match fold_left (fun (b : option (slot * blockid)) x =>
                                 match b with None => Some x | Some y => if fst y <=? fst x then Some x else Some y end) acc None with
              | Some x => [x] | None => [] end, wk)
  end.
Proof. reflexivity. Qed.

Section Kinds.
Variable P : pevent -> Prop.

Section Woken.
Hypothesis Pw : forall s id, P (EWaiterWoken s id).

Lemma add_to_ready_kind t s id t' w : pr_add_to_ready t s id = Some (t', w) -> Forall P w.
Proof.
  unfold pr_add_to_ready. destruct (pr_ready (pt_get t s)).
  - destruct (existsb _ _); [discriminate|]. intros H; injection H as _ <-. constructor.
  - intros H; injection H as _ <-. destruct (pr_waiting _); repeat constructor. apply Pw.
Qed.

Lemma parents_fold_kind s : forall parents t acc wk t' acc' wk',
  fold_left (fun (r : ptres) p =>
               match r with
               | None => None
               | Some (t', acc', wk') =>
                 match pr_add_to_ready t' s p with
                 | None => None
                 | Some (t'', w) => Some (t'', acc' ++ [(s, p)], wk' ++ w)
                 end
               end) parents (Some (t, acc, wk)) = Some (t', acc', wk') ->
  Forall P wk -> Forall P wk'.
Proof.
  induction parents as [|p ps IH]; intros t acc wk t' acc' wk' H Hw; cbn [fold_left] in H.
  - injection H as _ _ <-. exact Hw.
  - destruct (pr_add_to_ready t s p) as [[t1 w]|] eqn:E.
    + eapply IH; [exact H|]. apply Forall_app. split; [exact Hw|]. eapply add_to_ready_kind, E.
    + exfalso. clear -H. induction ps as [|q qs IHq]; cbn [fold_left] in H; [discriminate|auto].
Qed.

Lemma propagate_kind : forall fuel t s parents acc wk t' acc' wk',
  pt_propagate fuel t s parents acc wk = Some (t', acc', wk') -> Forall P wk -> Forall P wk'.
Proof.
  induction fuel as [|f IH]; intros t s parents acc wk t' acc' wk' H Hw; cbn [pt_propagate] in H; [discriminate|].
  destruct (is_window_start s) eqn:Ws.
  - match type of H with context [fold_left ?fn parents ?init] =>
      destruct (fold_left fn parents init) as [[[t1 acc1] wk1]|] eqn:Ef end; [|discriminate].
    pose proof (parents_fold_kind s parents t acc wk t1 acc1 wk1 Ef Hw) as W1.
    destruct (pr_skip (pt_get t1 s)); [eapply IH; eassumption|]. injection H as _ _ <-. exact W1.
  - destruct (pr_skip (pt_get t s)); [eapply IH; eassumption|]. injection H as _ _ <-. exact Hw.
Qed.

Lemma mark_nf_kind t id t' prs wk : pt_mark_notar_fallback t id = Some (t', prs, wk) -> Forall P wk.
Proof.
  unfold pt_mark_notar_fallback. destruct id as [s h]. destruct (s <? pt_root t); [intros H; injection H as _ _ <-; constructor|].
  destruct (memN h _); [intros H; injection H as _ _ <-; constructor|].
  intros H. eapply propagate_kind; [exact H|constructor].
Qed.
Lemma mark_skipped_kind t s t' prs wk : pt_mark_skipped t s = Some (t', prs, wk) -> Forall P wk.
Proof.
  unfold pt_mark_skipped. destruct (s <? pt_root t); [intros H; injection H as _ _ <-; constructor|].
  destruct (pr_skip _); [intros H; injection H as _ _ <-; constructor|].
  intros H. eapply propagate_kind; [exact H|constructor].
Qed.

Definition ptres_kind (r : ptres) : Prop := match r with None => True | Some (_, _, wk) => Forall P wk end.
Lemma hf_step_kind (r : ptres) (f : prtracker -> ptres) : ptres_kind r -> (forall t, ptres_kind (f t)) ->
  ptres_kind (hf_stp r f).
Proof.
  intros Hr Hf. unfold hf_stp. destruct r as [[[t' acc] wk]|]; [|exact I]. specialize (Hf t'). destruct (f t') as [[[t'' a] w]|]; [|exact I].
  cbn in *. apply Forall_app; auto.
Qed.
Lemma mark_nf_res_kind t id : ptres_kind (pt_mark_notar_fallback t id).
Proof. destruct (pt_mark_notar_fallback t id) as [[[t' a] w]|] eqn:E; [eapply mark_nf_kind, E|exact I]. Qed.
Lemma mark_skipped_res_kind t s : ptres_kind (pt_mark_skipped t s).
Proof. destruct (pt_mark_skipped t s) as [[[t' a] w]|] eqn:E; [eapply mark_skipped_kind, E|exact I]. Qed.

Lemma hf_cor_kind t ev : ptres_kind (hf_cor t ev).
Proof.
  unfold hf_cor. cbv zeta.
  assert (H0 : ptres_kind (Some (t, [], []))) by (cbn; constructor).
  assert (H1 : ptres_kind (match fe_final ev with Some b => hf_stp (Some (t, [], [])) (fun t' => pt_mark_notar_fallback t' b)
                                               | None => Some (t, [], []) end)).
  { destruct (fe_final ev); [|exact H0]. apply hf_step_kind; [exact H0|intros; apply mark_nf_res_kind]. }
  assert (H2 : forall l r, ptres_kind r -> ptres_kind (fold_left (fun r b => hf_stp r (fun t' => pt_mark_notar_fallback t' b)) l r)).
  { induction l as [|b l IH]; intros r Hr; cbn [fold_left]; [exact Hr|]. apply IH. apply hf_step_kind; [exact Hr|intros; apply mark_nf_res_kind]. }
  assert (H3 : forall l r, ptres_kind r -> ptres_kind (fold_left (fun r s => hf_stp r (fun t' => pt_mark_skipped t' s)) l r)).
  { induction l as [|b l IH]; intros r Hr; cbn [fold_left]; [exact Hr|]. apply IH. apply hf_step_kind; [exact Hr|intros; apply mark_skipped_res_kind]. }
  apply H3, H2, H1.
Qed.
Lemma handle_finalization_kind t ev t' prs wk : pt_handle_finalization t ev = Some (t', prs, wk) -> Forall P wk.
Proof.
  rewrite hf_unfold'. pose proof (hf_cor_kind t ev) as H3.
  destruct (hf_cor t ev) as [[[t3 acc] wk3]|]; [|discriminate].
  intros H. injection H as _ _ <-. exact H3.
Qed.
End Woken.

Section Safe.
Hypothesis Pn : forall b, P (ESafeToNotar b).
Hypothesis Ps : forall s, P (ESafeToSkip s).

Lemma s2n_try_kind e s ss h : Forall P (snd (fst (s2n_try e s ss h))).
Proof.
  unfold s2n_try. destruct (memN h _); [constructor|]. destruct (check_safe_to_notar e ss h) as [ss' st].
  destruct st; cbn; repeat constructor. apply Pn.
Qed.
Lemma certified_kind e s ss h ss' evs rps : notify_parent_certified e s ss h = Some (ss', evs, rps) -> Forall P evs.
Proof.
  unfold notify_parent_certified. destruct (alookup h _); [|discriminate]. intros H.
  match type of H with Some ?x = _ => pose proof (s2n_try_kind e s (set_parents ss (ainsert h true (pa_status (ss_n ss)))) h) as H1 end.
  injection H as H. rewrite H in H1. exact H1.
Qed.
Lemma s2s_try_kind e s ss ev : Forall P ev -> Forall P (snd (s2s_try e s ss ev)).
Proof. intros H. unfold s2s_try. destruct (safe_to_skip_now e ss); cbn; [apply Forall_app; split; [exact H|repeat constructor; apply Ps]|exact H]. Qed.
Lemma recheck_kind e s : forall hs ss ev rp, Forall P ev -> Forall P (snd (fst (recheck_pending e s ss hs ev rp))).
Proof.
  induction hs as [|h t IH]; intros ss ev rp H; cbn [recheck_pending]; [exact H|].
  destruct (memN h _); [apply IH, H|]. destruct (check_safe_to_notar e ss h) as [ss' st].
  destruct st; apply IH; [apply Forall_app; split; [exact H|repeat constructor; apply Pn]|exact H|exact H].
Qed.
Lemma count_vote_kind b e ss vt : Forall P (o_events (snd (ss_count_vote b e ss vt))).
Proof.
  unfold ss_count_vote. destruct (v_kind vt) as [h|h| | |].
  - assert (H : forall ss0, Forall P (o_events (snd (count_notar_stake e (v_slot vt) ss0 h (stake_of e (v_signer vt)))))).
    { intros ss0. unfold count_notar_stake.
      match goal with |- context [s2n_try e ?s ?ss1 h] => pose proof (s2n_try_kind e s ss1 h) as H1; destruct (s2n_try e s ss1 h) as [[ss2 ev1] rp1] end.
      cbn [fst snd] in H1. pose proof (s2s_try_kind e (v_slot vt) ss2 ev1 H1) as H2. destruct (s2s_try e (v_slot vt) ss2 ev1) as [ss3 ev2]. exact H2. }
    destruct b; [apply H|]. specialize (H ss). destruct (count_notar_stake _ _ _ _ _) as [ss' o]. exact H.
  - destruct b; [cbn; constructor|]. unfold count_nf_stake. cbn. constructor.
  - unfold count_skip_stake.
    match goal with |- context [recheck_pending e ?s ?ss1 ?hs [] []] =>
      pose proof (recheck_kind e s hs ss1 [] [] (Forall_nil _)) as H1; destruct (recheck_pending e s ss1 hs [] []) as [[ss2 ev1] rp1] end.
    cbn [fst snd] in H1. pose proof (s2s_try_kind e (v_slot vt) ss2 ev1 H1) as H2. destruct (s2s_try e (v_slot vt) ss2 ev1) as [ss3 ev2]. exact H2.
  - unfold count_skip_stake.
    match goal with |- context [recheck_pending e ?s ?ss1 ?hs [] []] =>
      pose proof (recheck_kind e s hs ss1 [] [] (Forall_nil _)) as H1; destruct (recheck_pending e s ss1 hs [] []) as [[ss2 ev1] rp1] end.
    cbn [fst snd] in H1. pose proof (s2s_try_kind e (v_slot vt) ss2 ev1 H1) as H2. destruct (s2s_try e (v_slot vt) ss2 ev1) as [ss3 ev2]. exact H2.
  - cbn. constructor.
Qed.
Lemma add_vote_kind b e ss vt : Forall P (o_events (snd (ss_add_vote_gen b e ss vt))).
Proof.
  unfold ss_add_vote_gen. pose proof (count_vote_kind b e ss vt) as H. destruct (ss_count_vote b e ss vt) as [ss1 out]. cbn [snd] in H.
  destruct (v_signer vt =? own e); [|exact H].
  pose proof (recheck_kind e (v_slot vt) (s2n_pending (ss_n ss1)) ss1 (o_events out) (o_repair out) H) as H2.
  destruct (recheck_pending _ _ _ _ _ _) as [[ss2 ev] rp]. exact H2.
Qed.
End Safe.
End Kinds.

Definition wokenP (e : pevent) : Prop := ev_is_woken e = true.
Definition safeP (e : pevent) : Prop := ev_is_safe e = true.
Lemma wokenP_w s id : wokenP (EWaiterWoken s id). Proof. reflexivity. Qed.
Lemma safeP_n b : safeP (ESafeToNotar b). Proof. reflexivity. Qed.
Lemma safeP_s s : safeP (ESafeToSkip s). Proof. reflexivity. Qed.

(* ================= composing tracker runs ================= *)
Lemma pt_fold_none ops : fold_left pt_run_step ops None = None.
Proof. induction ops as [|op ops IH]; [reflexivity | exact IH]. Qed.

Lemma pt_fold_shift : forall ops t a0 w0,
  fold_left pt_run_step ops (Some (t, a0, w0)) =
  match fold_left pt_run_step ops (Some (t, [], [])) with
  | None => None
  | Some (t', a, w) => Some (t', a0 ++ a, w0 ++ w)
  end.
Proof.
  induction ops as [|op ops IH]; intros t a0 w0; cbn [fold_left].
  - rewrite !app_nil_r. reflexivity.
  - cbn [pt_run_step]. destruct (pt_step t op) as [[[t1 a] w]|].
    + rewrite (IH t1 (a0 ++ a) (w0 ++ w)), (IH t1 ([] ++ a) ([] ++ w)). cbn [app].
      destruct (fold_left pt_run_step ops (Some (t1, [], []))) as [[[t2 a2] w2]|]; [|reflexivity].
      rewrite !app_assoc. reflexivity.
    + rewrite pt_fold_none. reflexivity.
Qed.

Lemma pt_run_from_app t a b :
  pt_run_from t (a ++ b) =
  match pt_run_from t a with
  | None => None
  | Some (t1, a1, w1) =>
    match pt_run_from t1 b with
    | None => None
    | Some (t2, a2, w2) => Some (t2, a1 ++ a2, w1 ++ w2)
    end
  end.
Proof.
  unfold pt_run_from. rewrite fold_left_app.
  destruct (fold_left pt_run_step a (Some (t, [], []))) as [[[t1 a1] w1]|]; [apply pt_fold_shift | apply pt_fold_none].
Qed.

Lemma pt_run_from_one t op : pt_run_from t [op] =
  match pt_step t op with None => None | Some (t', a, w) => Some (t', a, w) end.
Proof. unfold pt_run_from. cbn [fold_left pt_run_step]. destruct (pt_step t op) as [[[t' a] w]|]; reflexivity. Qed.

(* a segment of pool execution seen from the parent-ready tracker: it goes from t to t' by the operations [tops],
   the events emitted meanwhile are [evs], of which the certificate events are [cs] *)
Definition Seg (t t' : prtracker) (tops : list ptop) (evs : list pevent) (cs : list cert) : Prop :=
  pt_run_from t tops = Some (t', ev_prs evs, ev_wk evs) /\ ev_certs evs = cs.

Lemma Seg_quiet t evs : quiet evs -> Seg t t [] evs [].
Proof. intros [A [B C]]. split; [|exact A]. rewrite B, C. reflexivity. Qed.
Lemma Seg_cert t c : Seg t t [] [ECertCreated c] [c].
Proof. split; reflexivity. Qed.
Lemma Seg_app t t1 t2 o1 o2 e1 e2 c1 c2 : Seg t t1 o1 e1 c1 -> Seg t1 t2 o2 e2 c2 -> Seg t t2 (o1 ++ o2) (e1 ++ e2) (c1 ++ c2).
Proof.
  intros [A1 A2] [B1 B2]. split.
  - rewrite pt_run_from_app, A1, B1, ev_prs_app, ev_wk_app. reflexivity.
  - rewrite ev_certs_app, A2, B2. reflexivity.
Qed.
Lemma Seg_op t op t' prs wk : pt_step t op = Some (t', prs, wk) -> Forall wokenP wk -> Seg t t' [op] (wk ++ pr_events prs) [].
Proof.
  intros H W. destruct (tracker_events_proj wk prs W) as [A [B C]]. split; [|exact A].
  rewrite pt_run_from_one, H, B, C. reflexivity.
Qed.

(* ================= composing trace runs ================= *)
Lemma trace_run_app : forall a b t,
  trace_run t (a ++ b) =
  match trace_run t a with
  | None => None
  | Some (t1, e1, o1) =>
    match trace_run t1 b with
    | None => None
    | Some (t2, e2, o2) => Some (t2, e1 ++ e2, o1 ++ o2)
    end
  end.
Proof.
  induction a as [|it a IH]; intros b t; cbn [app trace_run].
  - destruct (trace_run t b) as [[[t2 e2] o2]|]; reflexivity.
  - destruct (item_step t it) as [[[t1 e1] o1]|]; [|reflexivity]. rewrite IH.
    destruct (trace_run t1 a) as [[[t2 e2] o2]|]; [|reflexivity].
    destruct (trace_run t2 b) as [[[t3 e3] o3]|]; [|reflexivity]. rewrite !app_assoc. reflexivity.
Qed.
Lemma trace_run_one t it : trace_run t [it] =
  match item_step t it with None => None | Some (t1, e1, o1) => Some (t1, e1, o1) end.
Proof. cbn [trace_run]. destruct (item_step t it) as [[[t1 e1] o1]|]; [rewrite !app_nil_r|]; reflexivity. Qed.

Lemma held_certs_app a b : held_certs (a ++ b) = held_certs a ++ held_certs b.
Proof. apply flat_map_app. Qed.
Lemma reg_links_app a b : reg_links (a ++ b) = reg_links a ++ reg_links b.
Proof. apply flat_map_app. Qed.
Lemma fops_of_app a b : fops_of (a ++ b) = fops_of a ++ fops_of b.
Proof. apply flat_map_app. Qed.
Lemma held_certs_map cs : held_certs (map ICert cs) = cs.
Proof. induction cs as [|c cs IH]; [reflexivity|]. cbn. unfold held_certs in IH. rewrite IH. reflexivity. Qed.

(* a segment of pool execution: both trackers move as the items say, the events are those of the parent-ready run *)
Definition Local (p p' : pool) (its : list item) (evs : list pevent) : Prop :=
  exists fevs tops, trace_run (p_ft p) its = Some (p_ft p', fevs, tops) /\
                    Seg (p_prt p) (p_prt p') tops evs (held_certs its).

Lemma Local_quiet p p' evs : p_ft p' = p_ft p -> p_prt p' = p_prt p -> quiet evs -> Local p p' [] evs.
Proof. intros E1 E2 Q. exists [], []. rewrite E1, E2. split; [reflexivity | apply Seg_quiet, Q]. Qed.
Lemma Local_trans p p1 p2 i1 i2 e1 e2 : Local p p1 i1 e1 -> Local p1 p2 i2 e2 -> Local p p2 (i1 ++ i2) (e1 ++ e2).
Proof.
  intros [f1 [o1 [A1 A2]]] [f2 [o2 [B1 B2]]]. exists (f1 ++ f2), (o1 ++ o2). split.
  - rewrite trace_run_app, A1, B1. reflexivity.
  - rewrite held_certs_app. eapply Seg_app; eassumption.
Qed.
Lemma Local_frame_r p p1 p2 its evs : Local p p1 its evs -> p_ft p2 = p_ft p1 -> p_prt p2 = p_prt p1 -> Local p p2 its evs.
Proof. intros [f [o [A B]]] E1 E2. exists f, o. rewrite E1, E2. split; assumption. Qed.
Lemma Local_frame_l p p0 p1 its evs : Local p0 p1 its evs -> p_ft p0 = p_ft p -> p_prt p0 = p_prt p -> Local p p1 its evs.
Proof. intros [f [o [A B]]] E1 E2. exists f, o. rewrite <- E1, <- E2. split; assumption. Qed.

(* ================= the pool functions, one by one ================= *)
Lemma pool_hf_local p ev p1 o1 : pool_handle_finalization p ev = Some (p1, o1) ->
  Seg (p_prt p) (p_prt p1) (fin_tops ev (p_ft p)) (po_events o1) [] /\ p_ft p1 = p_ft p.
Proof.
  unfold pool_handle_finalization. destruct (pt_handle_finalization (p_prt p) ev) as [[[t prs] wk]|] eqn:E; [|discriminate].
  intros H. injection H as <- <-. split; [|reflexivity]. cbn [po_events p_prt pool_prune first_unpruned p_ft].
  assert (S1 : Seg (p_prt p) t [TFinalize ev] (wk ++ pr_events prs) []).
  { apply Seg_op; [exact E|]. eapply handle_finalization_kind; [exact wokenP_w | exact E]. }
  assert (S2 : Seg t (pt_prune t (ft_first (p_ft p))) [TPrune (ft_first (p_ft p))] [] []).
  { apply (Seg_op t (TPrune (ft_first (p_ft p))) _ [] []); [reflexivity | constructor]. }
  pose proof (Seg_app _ _ _ _ _ _ _ _ _ S1 S2) as S. rewrite app_nil_r in S. exact S.
Qed.

Lemma notify_children_quiet sk e : forall children p acc p' o,
  notify_children_gen sk e p children acc = Some (p', o) ->
  p_prt p' = p_prt p /\ p_ft p' = p_ft p /\ exists l, po_events o = po_events acc ++ l /\ quiet l.
Proof.
  induction children as [|[cs ch] rest IH]; intros p acc p' o H; cbn [notify_children_gen] in H.
  - injection H as <- <-. split; [reflexivity|]. split; [reflexivity|]. exists []. rewrite app_nil_r. split; [reflexivity | apply quiet_nil].
  - destruct (sk && (cs <? first_unpruned p)); [exact (IH _ _ _ _ H)|].
    destruct (notify_parent_certified e cs _ ch) as [[[ss' evs] rps]|] eqn:E; [|discriminate].
    apply IH in H. destruct H as [H1 [H2 [l [H3 H4]]]].
    assert (T : p_prt (p_set_ss (p_touch p cs) cs ss') = p_prt p /\ p_ft (p_set_ss (p_touch p cs) cs ss') = p_ft p).
    { unfold p_set_ss, p_touch. cbn [p_prt p_ft]. destruct (alookup cs (p_slots p)); split; reflexivity. }
    destruct T as [T1 T2]. split; [congruence|]. split; [congruence|].
    exists (evs ++ l). cbn [po_events po_app] in H3. rewrite H3, app_assoc. split; [reflexivity|].
    apply quiet_app; [|exact H4]. apply safe_quiet. eapply certified_kind; [exact safeP_n | exact E].
Qed.
Lemma notify_waiting_quiet e p b p' o : notify_waiting_children e p b = Some (p', o) ->
  p_prt p' = p_prt p /\ p_ft p' = p_ft p /\ quiet (po_events o).
Proof.
  unfold notify_waiting_children, notify_waiting_children_gen. intros H. apply notify_children_quiet in H.
  destruct H as [H1 [H2 [l [H3 H4]]]]. split; [exact H1|]. split; [exact H2|]. rewrite H3. exact H4.
Qed.

Lemma Seg_frame t t' tops evs cs evs' : Seg t t' tops evs cs -> evs' = evs -> Seg t t' tops evs' cs.
Proof. intros S ->. exact S. Qed.

Lemma add_valid_cert_local e p c p' o : add_valid_cert e p c = Some (p', o) -> Local p p' [ICert c] (po_events o).
Proof.
  unfold add_valid_cert. cbv zeta. intros H.
  set (p0 := p_set_ss p (c_slot c) (ss_add_cert (p_ss p (c_slot c)) c)) in *.
  unfold Local. rewrite trace_run_one. cbn [item_step held_certs flat_map app].
  change (p_ft p) with (p_ft p0). change (p_prt p) with (p_prt p0).
  destruct (c_kind c) as [h|h| |h|] eqn:Ek.
  - (* Notar *)
    destruct (ft_mark_notarized (p_ft p0) (c_slot c, h)) as [[ft' ev]|] eqn:Eft; [|discriminate].
    destruct (pool_handle_finalization (pool_with_ft p0 ft') ev) as [[p1 o1]|] eqn:Eh; [|discriminate].
    destruct (notify_waiting_children e p1 (c_slot c, h)) as [[p2 o2]|] eqn:En; [|discriminate].
    destruct (pt_mark_notar_fallback (p_prt p2) (c_slot c, h)) as [[[t prs] wk]|] eqn:Em; [|discriminate].
    injection H as <- <-. cbn [lift_ft].
    destruct (pool_hf_local _ _ _ _ Eh) as [S1 F1]. cbn [pool_with_ft p_prt p_ft] in S1, F1.
    destruct (notify_waiting_quiet _ _ _ _ _ En) as [N1 [N2 Q2]].
    exists [ev], (fin_tops ev ft' ++ [TNotarFb (c_slot c, h)]). cbn [pool_with_prt p_ft p_prt]. split; [rewrite N2, F1; reflexivity|].
    assert (S2 : Seg (p_prt p1) (p_prt p2) [] (po_events o2) []) by (rewrite N1; apply Seg_quiet, Q2).
    assert (S3 : Seg (p_prt p2) t [TNotarFb (c_slot c, h)] (wk ++ pr_events prs) []).
    { apply Seg_op; [exact Em|]. eapply mark_nf_kind; [exact wokenP_w | exact Em]. }
    pose proof (Seg_app _ _ _ _ _ _ _ _ _ (Seg_app _ _ _ _ _ _ _ _ _ (Seg_app _ _ _ _ _ _ _ _ _ S1 S2) S3) (Seg_cert t c)) as S.
    rewrite !app_nil_r in S. exact S.
  - (* NotarFallback *)
    destruct (notify_waiting_children e p0 (c_slot c, h)) as [[p2 o2]|] eqn:En; [|discriminate].
    destruct (pt_mark_notar_fallback (p_prt p2) (c_slot c, h)) as [[[t prs] wk]|] eqn:Em; [|discriminate].
    injection H as <- <-.
    destruct (notify_waiting_quiet _ _ _ _ _ En) as [N1 [N2 Q2]].
    exists [], [TNotarFb (c_slot c, h)]. cbn [pool_with_prt p_ft p_prt]. split; [rewrite N2; reflexivity|].
    assert (S2 : Seg (p_prt p0) (p_prt p2) [] (po_events o2) []) by (rewrite N1; apply Seg_quiet, Q2).
    assert (S3 : Seg (p_prt p2) t [TNotarFb (c_slot c, h)] (wk ++ pr_events prs) []).
    { apply Seg_op; [exact Em|]. eapply mark_nf_kind; [exact wokenP_w | exact Em]. }
    exact (Seg_app _ _ _ _ _ _ _ _ _ (Seg_app _ _ _ _ _ _ _ _ _ S2 S3) (Seg_cert t c)).
  - (* Skip *)
    destruct (pt_mark_skipped (p_prt p0) (c_slot c)) as [[[t prs] wk]|] eqn:Em; [|discriminate].
    injection H as <- <-.
    exists [], [TSkip (c_slot c)]. cbn [pool_with_prt p_ft p_prt]. split; [reflexivity|].
    assert (S3 : Seg (p_prt p0) t [TSkip (c_slot c)] (wk ++ pr_events prs) []).
    { apply Seg_op; [exact Em|]. eapply mark_skipped_kind; [exact wokenP_w | exact Em]. }
    exact (Seg_app _ _ _ _ _ _ _ _ _ S3 (Seg_cert t c)).
  - (* FastFinal *)
    destruct (ft_mark_fast_finalized (p_ft p0) (c_slot c, h)) as [[ft' ev]|] eqn:Eft; [|discriminate].
    destruct (pool_handle_finalization (pool_with_ft p0 ft') ev) as [[p1 o1]|] eqn:Eh; [|discriminate].
    destruct (notify_waiting_children e p1 (c_slot c, h)) as [[p2 o2]|] eqn:En; [|discriminate].
    injection H as <- <-. cbn [lift_ft].
    destruct (pool_hf_local _ _ _ _ Eh) as [S1 F1]. cbn [pool_with_ft p_prt p_ft] in S1, F1.
    destruct (notify_waiting_quiet _ _ _ _ _ En) as [N1 [N2 Q2]].
    exists [ev], (fin_tops ev ft'). split; [rewrite N2, F1; reflexivity|].
    assert (S2 : Seg (p_prt p1) (p_prt p2) [] (po_events o2) []) by (rewrite N1; apply Seg_quiet, Q2).
    pose proof (Seg_app _ _ _ _ _ _ _ _ _ (Seg_app _ _ _ _ _ _ _ _ _ S1 S2) (Seg_cert (p_prt p2) c)) as S.
    rewrite !app_nil_r in S. exact S.
  - (* Final *)
    destruct (ft_mark_finalized (p_ft p0) (c_slot c)) as [[ft' ev]|] eqn:Eft; [|discriminate].
    destruct (pool_handle_finalization (pool_with_ft p0 ft') ev) as [[p1 o1]|] eqn:Eh; [|discriminate].
    injection H as <- <-. cbn [lift_ft].
    destruct (pool_hf_local _ _ _ _ Eh) as [S1 F1]. cbn [pool_with_ft p_prt p_ft] in S1, F1.
    exists [ev], (fin_tops ev ft'). split; [rewrite F1; reflexivity|].
    pose proof (Seg_app _ _ _ _ _ _ _ _ _ S1 (Seg_cert (p_prt p1) c)) as S.
    rewrite !app_nil_r in S. exact S.
Qed.

Lemma add_certs_local e : forall cs p acc p' o,
  add_certs e p cs acc = Some (p', o) ->
  exists certs l, po_events o = po_events acc ++ l /\ Local p p' (map ICert certs) l.
Proof.
  induction cs as [|[c|] cs IH]; intros p acc p' o H; cbn [add_certs] in H; [| |discriminate].
  - injection H as <- <-. exists [], []. rewrite app_nil_r. split; [reflexivity|].
    apply Local_quiet; [reflexivity | reflexivity | apply quiet_nil].
  - destruct (add_valid_cert e p c) as [[p1 o1]|] eqn:E; [|discriminate].
    apply add_valid_cert_local in E. apply IH in H. destruct H as [certs [l [H1 H2]]].
    exists (c :: certs), (po_events o1 ++ l). cbn [po_events po_app] in H1. rewrite H1, app_assoc. split; [reflexivity|].
    change (map ICert (c :: certs)) with ([ICert c] ++ map ICert certs). eapply Local_trans; eassumption.
Qed.

Lemma Local_certs p p' certs l : Local p p' (map ICert certs) l -> ev_certs l = certs.
Proof. intros [f [o [_ [_ A]]]]. rewrite held_certs_map in A. exact A. Qed.

Lemma p_touch_trackers p s : p_ft (p_touch p s) = p_ft p /\ p_prt (p_touch p s) = p_prt p.
Proof. unfold p_touch. destruct (alookup s (p_slots p)); split; reflexivity. Qed.

Lemma ft_add_parent_ignored t (b par : blockid) : fst par < fst b -> fst b < ft_first t -> ft_add_parent t b par = Some (t, fe_empty).
Proof.
  intros H1 H2. unfold ft_add_parent.
  replace (fst par <? fst b) with true by (symmetry; apply N.ltb_lt; exact H1).
  replace (fst b <? ft_first t) with true by (symmetry; apply N.ltb_lt; exact H2). reflexivity.
Qed.

Lemma p_ss_set_same p s x : p_ss (p_set_ss p s x) s = x.
Proof. unfold p_ss, p_set_ss, aget. cbn [p_slots]. rewrite alookup_ainsert_same. reflexivity. Qed.
(* add_block's 'parent not known' expect cannot fire: the block was made known one line earlier *)
Lemma known_then_certified e s ss h : notify_parent_certified e s (notify_parent_known ss h) h <> None.
Proof.
  unfold notify_parent_certified, notify_parent_known.
  destruct (alookup h (pa_status (ss_n ss))) eqn:E; [rewrite E; discriminate|].
  unfold set_parents. cbn [ss_n with_n pa_status]. rewrite alookup_ainsert_same. discriminate.
Qed.

Theorem pool_step_local e p op :
  Local p (fst (fst (pool_step e p op)))
        (step_items op (snd (fst (pool_step e p op))) (snd (pool_step e p op)))
        (po_events (snd (pool_step e p op))).
Proof.
  assert (Hsame : forall p', p_ft p' = p_ft p -> p_prt p' = p_prt p -> Local p p' [] []).
  { intros p' E1 E2. apply Local_quiet; [exact E1 | exact E2 | apply quiet_nil]. }
  unfold pool_step. destruct (p_panicked p); [apply Hsame; reflexivity|].
  destruct op as [v|c|b par| |s|].
  - (* vote *)
    unfold pool_add_vote, pool_add_vote_gen. cbv zeta.
    destruct (out_of_bounds p (v_slot v)); [apply Hsame; reflexivity|].
    destruct (p_touch_trackers p (v_slot v)) as [T1 T2].
    destruct (check_slashable _ v); [apply Hsame; assumption|].
    destruct (should_ignore _ v); [apply Hsame; assumption|].
    pose proof (add_vote_kind safeP safeP_n safeP_s true e (p_ss (p_touch p (v_slot v)) (v_slot v)) v) as K.
    destruct (ss_add_vote_gen true e _ v) as [ss' out]. cbn [snd] in K. apply safe_quiet in K.
    destruct (add_certs e _ (o_certs out) po_empty) as [[p2 o]|] eqn:E; [|apply Hsame; assumption].
    cbn [fst snd step_items po_events po_app].
    apply add_certs_local in E. destruct E as [certs [l [E1 E2]]]. cbn [po_events po_empty app] in E1. rewrite E1.
    pose proof (Local_certs _ _ _ _ E2) as E3. destruct K as [K1 [K2 K3]].
    rewrite ev_certs_app, K1, app_nil_r, E3.
    rewrite <- (app_nil_r (map ICert certs)). eapply Local_trans.
    + eapply Local_frame_l; [exact E2 | exact T1 | exact T2].
    + apply Local_quiet; [reflexivity | reflexivity | repeat split; assumption].
  - (* certificate *)
    unfold pool_add_cert. cbv zeta.
    destruct (out_of_bounds p (c_slot c)); [apply Hsame; reflexivity|].
    destruct (p_touch_trackers p (c_slot c)) as [T1 T2].
    destruct (cert_duplicate _ c); [apply Hsame; assumption|].
    destruct (add_valid_cert e (p_touch p (c_slot c)) c) as [[p1 o]|] eqn:E; [|apply Hsame; assumption].
    cbn [fst snd step_items]. apply add_valid_cert_local in E.
    assert (E3 : ev_certs (po_events o) = [c]) by (destruct E as [f [oo [_ [_ A]]]]; exact A).
    rewrite E3. eapply Local_frame_l; [exact E | exact T1 | exact T2].
  - (* block *)
    unfold pool_add_block, pool_add_block_gen.
    destruct (negb (fst par <? fst b)) eqn:Elt; [apply Hsame; reflexivity|].
    apply negb_false_iff, N.ltb_lt in Elt.
    destruct (fst b <? first_unpruned p) eqn:Eold.
    { cbn [fst snd step_items po_events po_empty]. unfold first_unpruned in Eold. apply N.ltb_lt in Eold.
      exists [fe_empty], []. rewrite trace_run_one. cbn [item_step].
      rewrite (ft_add_parent_ignored _ _ _ Elt Eold). cbn [lift_ft].
      destruct (fst b <? ft_first (p_ft p)) eqn:E2; [|lia]. split; [reflexivity | apply Seg_quiet, quiet_nil]. }
    destruct (ft_add_parent (p_ft p) b par) as [[ft' ev]|] eqn:Eft; [|apply Hsame; reflexivity].
    destruct (pool_handle_finalization (pool_with_ft p ft') ev) as [[p1 o1]|] eqn:Eh; [|apply Hsame; reflexivity].
    destruct (pool_hf_local _ _ _ _ Eh) as [S1 F1]. cbn [pool_with_ft p_prt p_ft] in S1, F1.
    assert (L1 : Local p p1 [IBlock b par] (po_events o1)).
    { exists [ev], (fin_tops ev ft'). rewrite trace_run_one. cbn [item_step]. rewrite Eft. cbn [lift_ft].
      unfold first_unpruned in Eold. rewrite Eold, F1. split; [reflexivity | exact S1]. }
    assert (Hsame1 : forall p' l, p_ft p' = p_ft p1 -> p_prt p' = p_prt p1 -> quiet l ->
              Local p p' [IBlock b par] (po_events o1 ++ l)).
    { intros p' l E1 E2 Q. rewrite <- (app_nil_r [IBlock b par]). eapply Local_trans; [exact L1|].
      apply Local_quiet; assumption. }
    assert (Hsame0 : forall p', p_ft p' = p_ft p1 -> p_prt p' = p_prt p1 -> Local p p' [IBlock b par] (po_events o1)).
    { intros p' E1 E2. rewrite <- (app_nil_r (po_events o1)). apply Hsame1; [exact E1 | exact E2 | apply quiet_nil]. }
    destruct (fst b <? first_unpruned p1); [apply Hsame0; reflexivity|]. cbv zeta.
    destruct (_ || match alookup (fst par) _ with Some pss => is_nf_or_stronger pss (snd par) | None => false end);
      [|apply Hsame0; reflexivity].
    rewrite p_ss_set_same.
    destruct (notify_parent_certified e (fst b) _ (snd b)) as [[[ss' evs] rps]|] eqn:Enc;
      [|exfalso; exact (known_then_certified _ _ _ _ Enc)].
    pose proof (certified_kind safeP safeP_n _ _ _ _ _ _ _ Enc) as K. apply safe_quiet in K.
    destruct evs as [|x evs]; [destruct rps|]; cbn [fst snd step_items po_events po_app];
      try (apply Hsame0; reflexivity); apply Hsame1; try reflexivity; exact K.
  - (* standstill *)
    unfold pool_standstill, pool_standstill_gen. cbv zeta.
    destruct (get_final_certs p (finalized_slot p)); [destruct (true && (finalized_slot p =? 0))|];
      cbn [fst snd step_items po_events]; try (apply Hsame; reflexivity);
      (apply Local_quiet; [reflexivity | reflexivity | repeat split]).
  - (* wait *)
    unfold pool_wait. destruct (pt_wait (p_prt p) s) as [[t r]|] eqn:E; [|apply Hsame; reflexivity].
    cbn [fst snd step_items po_events po_empty]. exists [], [TWait s]. rewrite trace_run_one. cbn [item_step pool_with_prt p_ft p_prt].
    split; [reflexivity|]. split; [|reflexivity]. rewrite pt_run_from_one. cbn [pt_step]. rewrite E. reflexivity.
  - apply Hsame; reflexivity.
Qed.

(* ================= every reachable pool ================= *)
Lemma ghost_run_snoc e ops op : ghost_run e (ops ++ [op]) = ghost_step e (ghost_run e ops) op.
Proof. unfold ghost_run. rewrite fold_left_app. reflexivity. Qed.

Lemma ghost_step_proj e g op :
  g_pool (ghost_step e g op) = fst (fst (pool_step e (g_pool g) op)) /\
  g_trace (ghost_step e g op) = g_trace g ++ step_items op (snd (fst (pool_step e (g_pool g) op))) (snd (pool_step e (g_pool g) op)) /\
  g_events (ghost_step e g op) = g_events g ++ po_events (snd (pool_step e (g_pool g) op)).
Proof. unfold ghost_step. destruct (pool_step e (g_pool g) op) as [[p' res] out]. repeat split. Qed.

Lemma ghost_run_pool e ops : g_pool (ghost_run e ops) = pool_run_ops e ops.
Proof.
  induction ops as [|op ops IH] using rev_ind; [reflexivity|].
  rewrite ghost_run_snoc. destruct (ghost_step_proj e (ghost_run e ops) op) as [A _]. rewrite A, IH.
  unfold pool_run_ops. rewrite fold_left_app. reflexivity.
Qed.

Theorem ghost_run_local e ops :
  Local pool_init (g_pool (ghost_run e ops)) (g_trace (ghost_run e ops)) (g_events (ghost_run e ops)).
Proof.
  induction ops as [|op ops IH] using rev_ind.
  - apply Local_quiet; [reflexivity | reflexivity | apply quiet_nil].
  - rewrite ghost_run_snoc. destruct (ghost_step_proj e (ghost_run e ops) op) as [A [B C]]. rewrite A, B, C.
    eapply Local_trans; [exact IH | apply pool_step_local].
Qed.

(* ================= what a trace run says about the finality tracker ================= *)
Lemma item_step_ft t it t1 e1 o1 : item_step t it = Some (t1, e1, o1) -> ft_run t (item_fops it) = Some (t1, e1).
Proof.
  destruct it as [c|b par|s]; cbn [item_step item_fops]; unfold cert_fops.
  - destruct (c_kind c) as [h|h| |h|]; cbn [ft_run ft_step lift_ft];
      try (intros H; injection H as <- <- _; reflexivity).
    + destruct (ft_mark_notarized t (c_slot c, h)) as [[t' ev]|]; [|discriminate]. intros H; injection H as <- <- _. reflexivity.
    + destruct (ft_mark_fast_finalized t (c_slot c, h)) as [[t' ev]|]; [|discriminate]. intros H; injection H as <- <- _. reflexivity.
    + destruct (ft_mark_finalized t (c_slot c)) as [[t' ev]|]; [|discriminate]. intros H; injection H as <- <- _. reflexivity.
  - cbn [ft_run ft_step lift_ft]. destruct (ft_add_parent t b par) as [[t' ev]|]; [|discriminate]. intros H; injection H as <- <- _. reflexivity.
  - intros H; injection H as <- <- _. reflexivity.
Qed.

Lemma trace_run_ft : forall tr t t' fevs tops,
  trace_run t tr = Some (t', fevs, tops) -> ft_run t (fops_of tr) = Some (t', fevs).
Proof.
  induction tr as [|it tr IH]; intros t t' fevs tops H; cbn [trace_run] in H.
  - injection H as <- <- _. reflexivity.
  - destruct (item_step t it) as [[[t1 e1] o1]|] eqn:E; [|discriminate].
    destruct (trace_run t1 tr) as [[[t2 e2] o2]|] eqn:E2; [|discriminate]. injection H as <- <- _.
    change (fops_of (it :: tr)) with (item_fops it ++ fops_of tr).
    rewrite ft_run_app, (item_step_ft _ _ _ _ _ E), (IH _ _ _ _ E2). reflexivity.
Qed.

(* the watermark never decreases along a trace, every prune is at the watermark *)
Lemma item_step_first t it t1 e1 o1 : item_step t it = Some (t1, e1, o1) ->
  ft_first t <= ft_first t1 /\
  forall fl, fold_left roots_step o1 (fl, ft_first t) = (fl, ft_first t1).
Proof.
  assert (Hfin : forall ev t', ft_first t <= ft_first t' ->
            forall fl, fold_left roots_step (fin_tops ev t') (fl, ft_first t) = (fl, ft_first t')).
  { intros ev t' Hle fl. cbn [fin_tops fold_left roots_step fst snd].
    replace (ft_first t <=? ft_first t') with true by (symmetry; apply N.leb_le; exact Hle). rewrite andb_true_r. reflexivity. }
  destruct it as [c|b par|s]; cbn [item_step].
  - destruct (c_kind c) as [h|h| |h|]; cbn [lift_ft];
      try (intros H; injection H as <- _ <-; split; [lia | intros fl; reflexivity]).
    + destruct (ft_mark_notarized t (c_slot c, h)) as [[t' ev]|] eqn:E; [|discriminate]. intros H; injection H as <- _ <-.
      apply ft_mark_notarized_first in E. split; [exact E|]. intros fl.
      change [TFinalize ev; TPrune (ft_first t'); TNotarFb (c_slot c, h)] with (fin_tops ev t' ++ [TNotarFb (c_slot c, h)]).
      rewrite fold_left_app, (Hfin ev t' E). reflexivity.
    + destruct (ft_mark_fast_finalized t (c_slot c, h)) as [[t' ev]|] eqn:E; [|discriminate]. intros H; injection H as <- _ <-.
      apply ft_mark_fast_finalized_first in E. split; [exact E | apply Hfin, E].
    + destruct (ft_mark_finalized t (c_slot c)) as [[t' ev]|] eqn:E; [|discriminate]. intros H; injection H as <- _ <-.
      apply ft_mark_finalized_first in E. split; [exact E | apply Hfin, E].
  - cbn [lift_ft]. destruct (ft_add_parent t b par) as [[t' ev]|] eqn:E; [|discriminate]. intros H; injection H as <- _ <-.
    pose proof (ft_add_parent_first _ _ _ _ _ E) as Hle. split; [exact Hle|].
    destruct (fst b <? ft_first t) eqn:Eold; [|apply Hfin, Hle].
    intros fl. cbn [fold_left]. f_equal.
    unfold ft_add_parent in E. destruct (negb (fst par <? fst b)); [discriminate|]. rewrite Eold in E. injection E as <- _. reflexivity.
  - intros H; injection H as <- _ <-. split; [lia | intros fl; reflexivity].
Qed.

Lemma trace_run_first : forall tr t t' fevs tops, trace_run t tr = Some (t', fevs, tops) ->
  ft_first t <= ft_first t' /\ forall fl, fold_left roots_step tops (fl, ft_first t) = (fl, ft_first t').
Proof.
  induction tr as [|it tr IH]; intros t t' fevs tops H; cbn [trace_run] in H.
  - injection H as <- _ <-. split; [lia | intros fl; reflexivity].
  - destruct (item_step t it) as [[[t1 e1] o1]|] eqn:E; [|discriminate].
    destruct (trace_run t1 tr) as [[[t2 e2] o2]|] eqn:E2; [|discriminate]. injection H as <- _ <-.
    destruct (item_step_first _ _ _ _ _ E) as [A1 A2]. destruct (IH _ _ _ _ E2) as [B1 B2].
    split; [lia|]. intros fl. rewrite fold_left_app, A2, B2. reflexivity.
Qed.

Lemma trace_run_roots tr t fevs tops : trace_run ft_init tr = Some (t, fevs, tops) ->
  roots_mono tops = true /\ mk_root (marks_of tops) = ft_first t.
Proof.
  intros H. destruct (trace_run_first _ _ _ _ _ H) as [_ A]. specialize (A true). change (ft_first ft_init) with 0 in A.
  split; [unfold roots_mono; exact (f_equal fst A) | rewrite <- roots_fold_snd; exact (f_equal snd A)].
Qed.

(* ================= the marks the parent-ready tracker was given ================= *)
Definition item_nf (it : item) : list blockid :=
  match it with
  | ICert c => match c_kind c with CNotar h | CNotarFb h => [(c_slot c, h)] | _ => [] end
  | _ => []
  end.
Definition item_skip (it : item) : list slot :=
  match it with
  | ICert c => match c_kind c with CSkip => [c_slot c] | _ => [] end
  | _ => []
  end.

Lemma fin_tops_marks ev t' m :
  fold_left marks_step (fin_tops ev t') m = mkMarks (mk_nf m ++ ev_blocks ev) (mk_skip m ++ fe_impl_skipped ev) (ft_first t').
Proof. reflexivity. Qed.

Lemma item_step_marks t it t1 e1 o1 : item_step t it = Some (t1, e1, o1) -> forall m,
  mk_nf (fold_left marks_step o1 m) = mk_nf m ++ all_final_events e1 ++ item_nf it /\
  mk_skip (fold_left marks_step o1 m) = mk_skip m ++ all_skip_events e1 ++ item_skip it.
Proof.
  assert (Hfin : forall ev t' m,
            mk_nf (fold_left marks_step (fin_tops ev t') m) = mk_nf m ++ all_final_events [ev] ++ [] /\
            mk_skip (fold_left marks_step (fin_tops ev t') m) = mk_skip m ++ all_skip_events [ev] ++ []).
  { intros ev t' m. rewrite fin_tops_marks. cbn [mk_nf mk_skip all_final_events all_skip_events flat_map]. rewrite !app_nil_r. split; reflexivity. }
  destruct it as [c|b par|s]; cbn [item_step item_nf item_skip].
  - destruct (c_kind c) as [h|h| |h|]; cbn [lift_ft];
      try (intros H; injection H as <- <- <-; intros m; split; reflexivity).
    + destruct (ft_mark_notarized t (c_slot c, h)) as [[t' ev]|] eqn:E; [|discriminate]. intros H; injection H as <- <- <-. intros m.
      change [TFinalize ev; TPrune (ft_first t'); TNotarFb (c_slot c, h)] with (fin_tops ev t' ++ [TNotarFb (c_slot c, h)]).
      rewrite fold_left_app. cbn [fold_left marks_step mk_nf mk_skip]. destruct (Hfin ev t' m) as [A B]. rewrite A, B, !app_nil_r.
      split; [rewrite app_assoc; reflexivity | reflexivity].
    + intros H; injection H as <- <- <-. intros m. cbn [fold_left marks_step mk_nf mk_skip all_final_events all_skip_events flat_map app].
      rewrite app_nil_r. split; reflexivity.
    + intros H; injection H as <- <- <-. intros m. cbn [fold_left marks_step mk_nf mk_skip all_final_events all_skip_events flat_map app].
      rewrite app_nil_r. split; reflexivity.
    + destruct (ft_mark_fast_finalized t (c_slot c, h)) as [[t' ev]|] eqn:E; [|discriminate]. intros H; injection H as <- <- <-. apply Hfin.
    + destruct (ft_mark_finalized t (c_slot c)) as [[t' ev]|] eqn:E; [|discriminate]. intros H; injection H as <- <- <-. apply Hfin.
  - cbn [lift_ft]. destruct (ft_add_parent t b par) as [[t' ev]|] eqn:E; [|discriminate]. intros H; injection H as <- <- <-.
    destruct (fst b <? ft_first t) eqn:Eold; [|apply Hfin].
    unfold ft_add_parent in E. destruct (negb (fst par <? fst b)); [discriminate|]. rewrite Eold in E. injection E as <- <-.
    intros m. cbn [fold_left all_final_events all_skip_events flat_map ev_blocks fe_final fe_impl_final fe_impl_skipped fe_empty app].
    rewrite !app_nil_r. split; reflexivity.
  - intros H; injection H as <- <- <-. intros m. cbn [fold_left marks_step mk_nf mk_skip all_final_events all_skip_events flat_map app].
    rewrite !app_nil_r. split; reflexivity.
Qed.

Lemma all_final_events_app a b : all_final_events (a ++ b) = all_final_events a ++ all_final_events b.
Proof. apply flat_map_app. Qed.
Lemma all_skip_events_app a b : all_skip_events (a ++ b) = all_skip_events a ++ all_skip_events b.
Proof. apply flat_map_app. Qed.

Lemma trace_run_marks : forall tr t t' fevs tops, trace_run t tr = Some (t', fevs, tops) -> forall m,
  (forall b, In b (mk_nf (fold_left marks_step tops m)) <->
             In b (mk_nf m) \/ In b (flat_map item_nf tr) \/ In b (all_final_events fevs)) /\
  (forall s, In s (mk_skip (fold_left marks_step tops m)) <->
             In s (mk_skip m) \/ In s (flat_map item_skip tr) \/ In s (all_skip_events fevs)).
Proof.
  induction tr as [|it tr IH]; intros t t' fevs tops H m; cbn [trace_run] in H.
  - injection H as _ <- <-. cbn. split; intros x; tauto.
  - destruct (item_step t it) as [[[t1 e1] o1]|] eqn:E; [|discriminate].
    destruct (trace_run t1 tr) as [[[t2 e2] o2]|] eqn:E2; [|discriminate]. injection H as _ <- <-.
    destruct (item_step_marks _ _ _ _ _ E m) as [A1 A2]. destruct (IH _ _ _ _ E2 (fold_left marks_step o1 m)) as [B1 B2].
    rewrite fold_left_app. cbn [flat_map]. split.
    + intros b. rewrite B1, A1, all_final_events_app, !in_app_iff. tauto.
    + intros s. rewrite B2, A2, all_skip_events_app, !in_app_iff. tauto.
Qed.

Lemma item_nf_in tr b : In b (flat_map item_nf tr) <-> has_nf_cert (held_certs tr) b = true.
Proof.
  unfold has_nf_cert. rewrite existsb_exists. split.
  - intros H. apply in_flat_map in H. destruct H as [it [Hin Hb]]. destruct it as [c| |]; try contradiction.
    exists c. split; [apply in_flat_map; exists (ICert c); split; [exact Hin | left; reflexivity]|].
    cbn [item_nf] in Hb. destruct (c_kind c) as [h|h| |h|]; try contradiction; destruct Hb as [<-|[]]; cbn [fst snd]; rewrite !N.eqb_refl; reflexivity.
  - intros [c [Hin Hc]]. apply in_flat_map in Hin. destruct Hin as [it [Hin Hit]]. destruct it as [c'| |]; try contradiction.
    destruct Hit as [->|[]]. apply in_flat_map. exists (ICert c). split; [exact Hin|].
    apply andb_true_iff in Hc. destruct Hc as [H1 H2]. apply N.eqb_eq in H1. cbn [item_nf]. destruct b as [s h0]. cbn [fst snd] in *.
    destruct (c_kind c) as [h|h| |h|]; try discriminate; apply N.eqb_eq in H2; subst; left; reflexivity.
Qed.
Lemma item_skip_in tr s : In s (flat_map item_skip tr) <-> has_skip_cert (held_certs tr) s = true.
Proof.
  unfold has_skip_cert. rewrite existsb_exists. split.
  - intros H. apply in_flat_map in H. destruct H as [it [Hin Hb]]. destruct it as [c| |]; try contradiction.
    exists c. split; [apply in_flat_map; exists (ICert c); split; [exact Hin | left; reflexivity]|].
    cbn [item_skip] in Hb. destruct (c_kind c) as [h|h| |h|]; try contradiction; destruct Hb as [<-|[]]; rewrite N.eqb_refl; reflexivity.
  - intros [c [Hin Hc]]. apply in_flat_map in Hin. destruct Hin as [it [Hin Hit]]. destruct it as [c'| |]; try contradiction.
    destruct Hit as [->|[]]. apply in_flat_map. exists (ICert c). split; [exact Hin|].
    apply andb_true_iff in Hc. destruct Hc as [H1 H2]. apply N.eqb_eq in H1. cbn [item_skip].
    destruct (c_kind c) as [h|h| |h|]; try discriminate; subst; left; reflexivity.
Qed.

(* (2) the marks accumulated by the parent-ready tracker of the pool, as sets *)
Lemma trace_marks_nf tr t fevs tops : trace_run ft_init tr = Some (t, fevs, tops) -> forall b,
  In b (mk_nf (marks_of tops)) <-> b = (0, 0) \/ has_nf_cert (held_certs tr) b = true \/ In b (all_final_events fevs).
Proof.
  intros H b. unfold marks_of. rewrite (proj1 (trace_run_marks _ _ _ _ _ H marks_init) b), item_nf_in.
  cbn [mk_nf marks_init In]. split; [intros [[<-|[]]|X]; tauto | intros [->|X]; tauto].
Qed.
Lemma trace_marks_skip tr t fevs tops : trace_run ft_init tr = Some (t, fevs, tops) -> forall s,
  In s (mk_skip (marks_of tops)) <-> has_skip_cert (held_certs tr) s = true \/ In s (all_skip_events fevs).
Proof.
  intros H s. unfold marks_of. rewrite (proj2 (trace_run_marks _ _ _ _ _ H marks_init) s), item_skip_in.
  cbn [mk_skip marks_init In]. tauto.
Qed.

(* ================= the finality marks as a function of the SETS H and B ================= *)
Definition same_marks (H H' : hist) : Prop := forall o, In o H <-> In o H'.

Lemma in_cert_fops c o : In o (cert_fops c) <->
  match o with
  | TNotar b => c_slot c = fst b /\ c_kind c = CNotar (snd b)
  | TFast b => c_slot c = fst b /\ c_kind c = CFastFinal (snd b)
  | TFinal s => c_slot c = s /\ c_kind c = CFinal
  | TParent _ _ => False
  end.
Proof.
  unfold cert_fops. destruct (c_kind c) as [h|h| |h|]; destruct o as [b p|[s h']|[s h']|s]; cbn [In fst snd];
    split; try tauto; try (intros [X|[]]; discriminate X); try (intros [_ X]; discriminate X).
  - intros [X|[]]. injection X as <- <-. split; reflexivity.
  - intros [<- X]. injection X as <-. left; reflexivity.
  - intros [X|[]]. injection X as <- <-. split; reflexivity.
  - intros [<- X]. injection X as <-. left; reflexivity.
  - intros [X|[]]. injection X as <-. split; reflexivity.
  - intros [<- _]. left; reflexivity.
Qed.

Lemma fops_of_same tr : same_marks (fops_of tr) (cert_hist (held_certs tr) (reg_links tr)).
Proof.
  intros o. unfold cert_hist. rewrite in_app_iff. induction tr as [|it tr IH]; [cbn; tauto|].
  change (fops_of (it :: tr)) with (item_fops it ++ fops_of tr). rewrite in_app_iff, IH.
  destruct it as [c|b par|s]; cbn [item_fops held_certs reg_links flat_map app map In fst snd]; fold (held_certs tr); fold (reg_links tr).
  - rewrite in_app_iff. tauto.
  - tauto.
  - tauto.
Qed.

Lemma Ext_incl H H' : (forall o, In o H -> In o H') -> Ext H H'.
Proof.
  intros E. split; unfold Notar, Fast, Fin, Link.
  - intros b [X|X]; [left; exact X | right; apply E, X].
  - intros b X. apply E, X.
  - intros s X. apply E, X.
  - intros c p X. apply E, X.
Qed.
Lemma same_FinalStar H H' b : same_marks H H' -> (FinalStar H b <-> FinalStar H' b).
Proof. intros E. split; apply FinalStar_ext, Ext_incl; intros o; apply E. Qed.
Lemma same_SkippedStar H H' s : same_marks H H' -> (SkippedStar H s <-> SkippedStar H' s).
Proof. intros E. split; apply SkippedStar_ext, Ext_incl; intros o; apply E. Qed.
Lemma same_Decided H H' s : same_marks H H' -> (Decided H s <-> Decided H' s).
Proof. intros E. split; apply Decided_ext, Ext_incl; intros o; apply E. Qed.
Lemma same_Direct H H' b : same_marks H H' -> (Direct H b <-> Direct H' b).
Proof. intros E. split; apply Direct_ext, Ext_incl; intros o; apply E. Qed.

Lemma forallb_same {A} (f : A -> bool) l l' : (forall x, In x l <-> In x l') -> forallb f l = forallb f l'.
Proof. intros E. apply eq_true_iff_eq. rewrite !forallb_forall. split; intros H x Hx; apply H, E, Hx. Qed.
Lemma forallb_ext' {A} (f g : A -> bool) l : (forall x, f x = g x) -> forallb f l = forallb g l.
Proof. intros E. induction l as [|x l IH]; [reflexivity|]. cbn. rewrite E, IH. reflexivity. Qed.
Lemma existsb_same {A} (f : A -> bool) l l' : (forall x, In x l <-> In x l') -> existsb f l = existsb f l'.
Proof.
  intros E. apply eq_true_iff_eq. rewrite !existsb_exists.
  split; intros [x [Hx Hf]]; exists x; (split; [apply E, Hx | exact Hf]).
Qed.
(* written so that it survives changes of the clauses of op_consistent / ft_consistent: whatever they are, they look at
   the history only through forallb / existsb (finb) over it *)
Lemma op_consistent_same C H H' o : same_marks H H' -> op_consistent C H o = op_consistent C H' o.
Proof.
  intros E. destruct o; cbn [op_consistent]; unfold finb;
    rewrite ?(forallb_same _ H H' E), ?(existsb_same _ H H' E); reflexivity.
Qed.
(* the consistency premise does not depend on order or repetition *)
Lemma ft_consistent_same C H H' : same_marks H H' -> ft_consistent C H = ft_consistent C H'.
Proof.
  intros E. unfold ft_consistent, finb.
  rewrite (forallb_ext' _ _ H (fun o => op_consistent_same C H H' o E)), (forallb_same _ H H' E), ?(existsb_same _ H H' E).
  reflexivity.
Qed.

(* which marks: one per certificate kind, one link per registration *)
Lemma existsb_cert_iff (f : cert -> bool) H : existsb f H = true <-> exists c, In c H /\ f c = true.
Proof. apply existsb_exists. Qed.

Lemma cert_hist_notar H B b : In (TNotar b) (cert_hist H B) <-> has_notar_cert H b = true.
Proof.
  unfold cert_hist, has_notar_cert. rewrite in_app_iff, existsb_exists, in_flat_map. split.
  - intros [[c [Hc Ho]]|X]; [|apply in_map_iff in X; destruct X as [bp [X _]]; discriminate X].
    apply in_cert_fops in Ho. destruct Ho as [E1 E2]. exists c. split; [exact Hc|]. rewrite E1, E2, !N.eqb_refl. reflexivity.
  - intros [c [Hc Hf]]. left. exists c. split; [exact Hc|]. apply in_cert_fops.
    apply andb_true_iff in Hf. destruct Hf as [F1 F2]. apply N.eqb_eq in F1.
    destruct (c_kind c) as [h|h| |h|]; try discriminate F2. apply N.eqb_eq in F2. split; [exact F1 | rewrite F2; reflexivity].
Qed.
Lemma cert_hist_fast H B b : In (TFast b) (cert_hist H B) <-> has_ff_cert H b = true.
Proof.
  unfold cert_hist, has_ff_cert. rewrite in_app_iff, existsb_exists, in_flat_map. split.
  - intros [[c [Hc Ho]]|X]; [|apply in_map_iff in X; destruct X as [bp [X _]]; discriminate X].
    apply in_cert_fops in Ho. destruct Ho as [E1 E2]. exists c. split; [exact Hc|]. rewrite E1, E2, !N.eqb_refl. reflexivity.
  - intros [c [Hc Hf]]. left. exists c. split; [exact Hc|]. apply in_cert_fops.
    apply andb_true_iff in Hf. destruct Hf as [F1 F2]. apply N.eqb_eq in F1.
    destruct (c_kind c) as [h|h| |h|]; try discriminate F2. apply N.eqb_eq in F2. split; [exact F1 | rewrite F2; reflexivity].
Qed.
Lemma cert_hist_final H B s : In (TFinal s) (cert_hist H B) <-> has_final_cert H s = true.
Proof.
  unfold cert_hist, has_final_cert. rewrite in_app_iff, existsb_exists, in_flat_map. split.
  - intros [[c [Hc Ho]]|X]; [|apply in_map_iff in X; destruct X as [bp [X _]]; discriminate X].
    apply in_cert_fops in Ho. destruct Ho as [E1 E2]. exists c. split; [exact Hc|]. rewrite E1, E2, N.eqb_refl. reflexivity.
  - intros [c [Hc Hf]]. left. exists c. split; [exact Hc|]. apply in_cert_fops.
    apply andb_true_iff in Hf. destruct Hf as [F1 F2]. apply N.eqb_eq in F1.
    destruct (c_kind c) as [h|h| |h|]; try discriminate F2. split; [exact F1 | reflexivity].
Qed.
Lemma cert_hist_link H B b par : In (TParent b par) (cert_hist H B) <-> In (b, par) B.
Proof.
  unfold cert_hist. rewrite in_app_iff, in_flat_map, in_map_iff. split.
  - intros [[c [Hc Ho]]|[[b' p'] [X Hin]]]; [apply in_cert_fops in Ho; contradiction|].
    cbn [fst snd] in X. injection X as <- <-. exact Hin.
  - intros Hin. right. exists (b, par). split; [reflexivity | exact Hin].
Qed.

(* directly finalized, in certificates *)
Lemma Direct_certs H B b : Direct (cert_hist H B) b <->
  has_ff_cert H b = true \/ (has_final_cert H (fst b) = true /\ (b = (0, 0) \/ has_notar_cert H b = true)).
Proof.
  unfold Direct, Fast, Fin, Notar. rewrite cert_hist_fast, cert_hist_final, cert_hist_notar. tauto.
Qed.

(* which operations occur in the parent-ready run *)
Ltac inlist := cbn [In fin_tops app]; repeat split; intros; intuition congruence.

Lemma item_step_tops t it t1 e1 o1 : item_step t it = Some (t1, e1, o1) ->
  (forall b, In (TNotarFb b) o1 <-> In b (item_nf it)) /\
  (forall s, In (TSkip s) o1 <-> In s (item_skip it)) /\
  (forall s, In (TWait s) o1 <-> it = IWait s) /\
  (forall ev, In (TFinalize ev) o1 -> In ev e1) /\
  (forall ev, In ev e1 -> ev = fe_empty \/ In (TFinalize ev) o1) /\
  (forall r, In (TPrune r) o1 -> r = ft_first t1).
Proof.
  destruct it as [c|b par|s]; cbn [item_step item_nf item_skip].
  - destruct (c_kind c) as [h|h| |h|]; cbn [lift_ft].
    + destruct (ft_mark_notarized t (c_slot c, h)) as [[t' ev]|] eqn:E; [|discriminate]. intros H; injection H as <- <- <-. inlist.
    + intros H; injection H as <- <- <-. inlist.
    + intros H; injection H as <- <- <-. inlist.
    + destruct (ft_mark_fast_finalized t (c_slot c, h)) as [[t' ev]|] eqn:E; [|discriminate]. intros H; injection H as <- <- <-. inlist.
    + destruct (ft_mark_finalized t (c_slot c)) as [[t' ev]|] eqn:E; [|discriminate]. intros H; injection H as <- <- <-. inlist.
  - cbn [lift_ft]. destruct (ft_add_parent t b par) as [[t' ev]|] eqn:E; [|discriminate]. intros H; injection H as <- <- <-.
    destruct (fst b <? ft_first t) eqn:Eold; [|inlist].
    unfold ft_add_parent in E. destruct (negb (fst par <? fst b)); [discriminate|]. rewrite Eold in E. injection E as <- <-. inlist.
  - intros H; injection H as <- <- <-. inlist.
Qed.

Lemma trace_run_tops : forall tr t t' fevs tops, trace_run t tr = Some (t', fevs, tops) ->
  (forall b, In (TNotarFb b) tops <-> In b (flat_map item_nf tr)) /\
  (forall s, In (TSkip s) tops <-> In s (flat_map item_skip tr)) /\
  (forall s, In (TWait s) tops <-> In (IWait s) tr) /\
  (forall ev, In (TFinalize ev) tops -> In ev fevs) /\
  (forall ev, In ev fevs -> ev = fe_empty \/ In (TFinalize ev) tops).
Proof.
  induction tr as [|it tr IH]; intros t t' fevs tops H; cbn [trace_run] in H.
  - injection H as _ <- <-. cbn. repeat split; intros; tauto.
  - destruct (item_step t it) as [[[t1 e1] o1]|] eqn:E; [|discriminate].
    destruct (trace_run t1 tr) as [[[t2 e2] o2]|] eqn:E2; [|discriminate]. injection H as _ <- <-.
    destruct (item_step_tops _ _ _ _ _ E) as [A1 [A2 [A3 [A4 [A5 _]]]]]. destruct (IH _ _ _ _ E2) as [B1 [B2 [B3 [B4 B5]]]].
    cbn [flat_map In]. split; [|split; [|split; [|split]]]; intros x; rewrite ?in_app_iff.
    + rewrite A1, B1. tauto.
    + rewrite A2, B2. tauto.
    + rewrite A3, B3. split; (intros [X|X]; [left; congruence | right; exact X]).
    + intros [X|X]; [left; apply A4, X | right; apply B4, X].
    + intros [X|X]; [destruct (A5 _ X); tauto | destruct (B5 _ X); tauto].
Qed.

(* ================= (1) + (2): every reachable pool, no premise ================= *)
Lemma reach e ops : exists fevs tops,
  trace_run ft_init (g_trace (ghost_run e ops)) = Some (p_ft (g_pool (ghost_run e ops)), fevs, tops) /\
  pt_run tops = Some (p_prt (g_pool (ghost_run e ops)), ev_prs (g_events (ghost_run e ops)), ev_wk (g_events (ghost_run e ops))) /\
  ev_certs (g_events (ghost_run e ops)) = held_certs (g_trace (ghost_run e ops)).
Proof. destruct (ghost_run_local e ops) as [fevs [tops [A [B C]]]]. exists fevs, tops. repeat split; assumption. Qed.

(* (1) the finality tracker of the pool = ft_run over the marks of the certificates held so far and the links registered
   so far; the certificates held so far are the observable ECertCreated events *)
Theorem pool_finality_marks e ops :
  let g := ghost_run e ops in
  let H := held_certs (g_trace g) in let B := reg_links (g_trace g) in
  (exists fevs, ft_run ft_init (fops_of (g_trace g)) = Some (p_ft (g_pool g), fevs)) /\
  H = ev_certs (g_events g) /\
  (forall b, In (TNotar b) (fops_of (g_trace g)) <-> has_notar_cert H b = true) /\
  (forall b, In (TFast b) (fops_of (g_trace g)) <-> has_ff_cert H b = true) /\
  (forall s, In (TFinal s) (fops_of (g_trace g)) <-> has_final_cert H s = true) /\
  (forall b par, In (TParent b par) (fops_of (g_trace g)) <-> In (b, par) B) /\
  same_marks (fops_of (g_trace g)) (cert_hist H B).
Proof.
  intros g H B. destruct (reach e ops) as [fevs [tops [A [_ C]]]]. fold g in A, C.
  pose proof (fops_of_same (g_trace g)) as S. fold H B in S.
  split; [exists fevs; apply (trace_run_ft _ _ _ _ _ A)|]. split; [symmetry; exact C|].
  split; [intros b; rewrite (S (TNotar b)); apply cert_hist_notar|].
  split; [intros b; rewrite (S (TFast b)); apply cert_hist_fast|].
  split; [intros s; rewrite (S (TFinal s)); apply cert_hist_final|].
  split; [intros b par; rewrite (S (TParent b par)); apply cert_hist_link | exact S].
Qed.

(* (2) the parent-ready tracker of the pool = pt_run over the operations the trace justifies; its announcements and
   wake-ups are the ParentReady / woken-waiter events the pool has emitted; the marks are characterised by H and by
   the finalization events the finality tracker returned *)
Theorem pool_ready_marks e ops :
  let g := ghost_run e ops in
  let H := held_certs (g_trace g) in
  exists fevs tops,
    trace_run ft_init (g_trace g) = Some (p_ft (g_pool g), fevs, tops) /\ tops = tops_of (g_trace g) /\
    ft_run ft_init (fops_of (g_trace g)) = Some (p_ft (g_pool g), fevs) /\
    pt_run tops = Some (p_prt (g_pool g), ev_prs (g_events g), ev_wk (g_events g)) /\
    roots_mono tops = true /\ mk_root (marks_of tops) = first_unpruned (g_pool g) /\
    (forall b, In (TNotarFb b) tops <-> has_nf_cert H b = true) /\
    (forall s, In (TSkip s) tops <-> has_skip_cert H s = true) /\
    (forall s, In (TWait s) tops <-> In (IWait s) (g_trace g)) /\
    (forall ev, In (TFinalize ev) tops -> In ev fevs) /\
    (forall ev, In ev fevs -> ev = fe_empty \/ In (TFinalize ev) tops) /\
    (forall b, In b (mk_nf (marks_of tops)) <-> b = (0, 0) \/ has_nf_cert H b = true \/ In b (all_final_events fevs)) /\
    (forall s, In s (mk_skip (marks_of tops)) <-> has_skip_cert H s = true \/ In s (all_skip_events fevs)).
Proof.
  intros g H. destruct (reach e ops) as [fevs [tops [A [B _]]]]. fold g in A, B. exists fevs, tops.
  destruct (trace_run_roots _ _ _ _ A) as [R1 R2]. destruct (trace_run_tops _ _ _ _ _ A) as [T1 [T2 [T3 [T4 T5]]]].
  split; [exact A|]. split; [unfold tops_of; rewrite A; reflexivity|]. split; [apply (trace_run_ft _ _ _ _ _ A)|].
  split; [exact B|]. split; [exact R1|]. split; [exact R2|].
  split; [intros b; rewrite T1; apply item_nf_in|]. split; [intros s; rewrite T2; apply item_skip_in|].
  split; [exact T3|]. split; [exact T4|]. split; [exact T5|].
  split; [apply (trace_marks_nf _ _ _ _ A) | apply (trace_marks_skip _ _ _ _ A)].
Qed.

(* every wake-up of a whole run carries a parent that satisfies the specification over the final marks *)
Lemma roots_mono_prefix a b : roots_mono (a ++ b) = true -> roots_mono a = true.
Proof.
  induction b as [|op b IH] using rev_ind; [rewrite app_nil_r; tauto|].
  rewrite app_assoc. intros H. apply roots_mono_snoc in H. apply IH, H.
Qed.
Lemma woken_justified : forall ops t ann wk, roots_mono ops = true -> pt_run ops = Some (t, ann, wk) ->
  forall x p, In (EWaiterWoken x p) wk -> ready_spec_m (marks_of ops) x p = true.
Proof.
  induction ops as [|op ops IH] using rev_ind; intros t' ann' wk' Hm Hrun x p Hin.
  - injection Hrun as _ _ <-. destruct Hin.
  - pose proof (roots_mono_prefix _ _ Hm) as Hm0. rewrite pt_run_snoc in Hrun.
    destruct (pt_run ops) as [[[t ann] wk]|] eqn:E; [|discriminate]. cbn [pt_run_step] in Hrun.
    destruct (pt_step t op) as [[[t1 a] w]|] eqn:Es; [|discriminate]. injection Hrun as <- <- <-.
    apply in_app_or in Hin. destruct Hin as [Hin|Hin].
    + rewrite marks_of_snoc. apply marks_step_mono. exact (IH t ann wk Hm0 eq_refl x p Hin).
    + destruct (step_waiters ops op t ann wk t1 a w Hm E Es) as [W _]. destruct (W x p Hin) as [_ [_ [_ [_ Hd]]]].
      assert (Hrun' : pt_run (ops ++ [op]) = Some (t1, ann ++ a, wk ++ w)) by (rewrite pt_run_snoc, E; cbn [pt_run_step]; rewrite Es; reflexivity).
      apply (ready_sound _ _ _ _ Hm Hrun' x p). destruct (pt_parents_ready t1 x) as [|q l]; [discriminate|]. injection Hd as ->. left; reflexivity.
Qed.

(* ================= (3) corollaries at certificate level ================= *)
(* without any premise: in terms of the certificates and of the finalization events the finality tracker returned *)
Theorem pool_parent_ready_events_level e ops :
  let g := ghost_run e ops in let p := g_pool g in
  let H := held_certs (g_trace g) in
  exists fevs, ft_run ft_init (fops_of (g_trace g)) = Some (p_ft p, fevs) /\
    let nf b := b = (0, 0) \/ has_nf_cert H b = true \/ In b (all_final_events fevs) in
    let sk x := has_skip_cert H x = true \/ In x (all_skip_events fevs) in
    let spec s b := is_window_start s = true /\ fst b < s /\ nf b /\ forall x, fst b < x < s -> sk x in
    (forall s b, In b (pt_parents_ready (p_prt p) s) -> spec s b) /\
    (forall s b, first_unpruned p <= fst b -> spec s b -> In b (pt_parents_ready (p_prt p) s)) /\
    (forall s, NoDup (pt_parents_ready (p_prt p) s)) /\
    NoDup (ev_prs (g_events g)) /\
    (forall s b, In (s, b) (ev_prs (g_events g)) -> spec s b) /\
    (forall s b, In (EWaiterWoken s b) (g_events g) -> spec s b) /\
    (forall s, pr_waiting (pt_get (p_prt p) s) = true -> pt_parents_ready (p_prt p) s = []).
Proof.
  intros g p H. destruct (pool_ready_marks e ops) as [fevs [tops [A [_ [R [B [M1 [M2 [_ [_ [_ [_ [_ [N1 N2]]]]]]]]]]]]]].
  fold g p H in A, R, B, M2, N1, N2. exists fevs. split; [exact R|]. intros nf sk spec.
  assert (Hspec : forall s b, ready_spec_m (marks_of tops) s b = true <-> spec s b).
  { intros s b. rewrite ready_spec_iff. unfold spec, nf, sk. rewrite N1. split.
    - intros [X1 [X2 [X3 X4]]]. repeat split; try assumption. intros x Hx. apply N2, X4, Hx.
    - intros [X1 [X2 [X3 X4]]]. repeat split; try assumption. intros x Hx. apply N2, X4, Hx. }
  split; [intros s b Hin; apply Hspec, (ready_sound _ _ _ _ M1 B s b Hin)|].
  split; [intros s b Hr Hs; apply (ready_complete _ _ _ _ M1 B s b); [unfold retained; rewrite M2; apply N.leb_le, Hr | apply Hspec, Hs]|].
  split; [apply (ready_nodup _ _ _ _ M1 B)|].
  destruct (announced_once _ _ _ _ M1 B) as [ND AJ].
  split; [exact ND|]. split; [intros s b Hin; apply Hspec, AJ, Hin|].
  split; [|apply (waiter_invariant _ _ _ _ M1 B)].
  intros s b Hin. apply Hspec, (woken_justified _ _ _ _ M1 B). unfold ev_wk. apply filter_In. split; [exact Hin | reflexivity].
Qed.

(* the only two facts about the consistency premise used below, besides the theorems of FinalityProofs.v taken as
   black boxes: it is a property of the SET of marks (ft_consistent_same above), and the chain's block of slot 0 is
   genesis *)

(* under the consistency of the certificates held and links registered (no two conflicting finalizations - what
   < 20% Byzantine stake guarantees), the finalization events are exactly the finalized closure *)
Section Consistent.
Variable e : epoch.
Variable ops : list pool_op.
Variable C : slot -> option hash.
Let g := ghost_run e ops.
Let p := g_pool g.
Let H := held_certs (g_trace g).
Let B := reg_links (g_trace g).
Hypothesis Hc : ft_consistent C (cert_hist H B) = true.

Let fops := fops_of (g_trace g).
Lemma cons_fops : ft_consistent C fops = true.
Proof. unfold fops. rewrite (ft_consistent_same C _ _ (fops_of_same (g_trace g))). exact Hc. Qed.
Lemma same_fops : same_marks fops (cert_hist H B).
Proof. apply fops_of_same. Qed.

(* the only block of slot 0 that is ever finalized is genesis: discharged below in two ways *)
Hypothesis Hgen : forall b, FinalStar (cert_hist H B) b -> fst b = 0 -> b = (0, 0).
Lemma genesis_only b : FinalStar fops b -> fst b = 0 -> b = (0, 0).
Proof. intros F. apply Hgen. apply (same_FinalStar _ _ b same_fops). exact F. Qed.

Lemma nf_events_iff fevs : ft_run ft_init fops = Some (p_ft p, fevs) -> forall b,
  (b = (0, 0) \/ has_nf_cert H b = true \/ In b (all_final_events fevs)) <-> NfJust H B b.
Proof.
  intros R b. destruct (events_once C fops cons_fops (p_ft p) fevs R) as [_ [_ [E3 [E4 _]]]]. unfold NfJust.
  rewrite <- (same_FinalStar _ _ b same_fops). split.
  - intros [X|[X|X]]; [left; exact X | right; left; exact X | right; right; apply E3, X].
  - intros [X|[X|X]]; [left; exact X | right; left; exact X |].
    destruct (N.eq_dec (fst b) 0) as [E0|E0]; [left; apply genesis_only; assumption | right; right; apply E4; [exact X | apply N.neq_0_lt_0, E0]].
Qed.
Lemma skip_events_iff fevs : ft_run ft_init fops = Some (p_ft p, fevs) -> forall x,
  (has_skip_cert H x = true \/ In x (all_skip_events fevs)) <-> SkipJust H B x.
Proof.
  intros R x. destruct (events_once C fops cons_fops (p_ft p) fevs R) as [_ [_ [_ [_ E5]]]]. unfold SkipJust.
  rewrite <- (same_SkippedStar _ _ x same_fops), E5. tauto.
Qed.

(* C07 at certificate level *)
Theorem pool_parent_ready_certificate_level_gen :
  (forall s b, In b (pt_parents_ready (p_prt p) s) -> ReadySpec H B s b) /\
  (forall s b, first_unpruned p <= fst b -> ReadySpec H B s b -> In b (pt_parents_ready (p_prt p) s)) /\
  (forall s, NoDup (pt_parents_ready (p_prt p) s)) /\
  NoDup (ev_prs (g_events g)) /\
  (forall s b, In (s, b) (ev_prs (g_events g)) -> ReadySpec H B s b) /\
  (forall s b, In (EWaiterWoken s b) (g_events g) -> ReadySpec H B s b) /\
  (forall s, pr_waiting (pt_get (p_prt p) s) = true -> pt_parents_ready (p_prt p) s = []).
Proof.
  destruct (pool_parent_ready_events_level e ops) as [fevs [R X]]. fold g p H fops in R, X. cbv zeta in X.
  assert (Hs : forall s b,
    (is_window_start s = true /\ fst b < s /\ (b = (0, 0) \/ has_nf_cert H b = true \/ In b (all_final_events fevs)) /\
     (forall x, fst b < x < s -> has_skip_cert H x = true \/ In x (all_skip_events fevs))) <-> ReadySpec H B s b).
  { intros s b. unfold ReadySpec. rewrite (nf_events_iff fevs R b). split.
    - intros [X1 [X2 [X3 X4]]]. repeat split; try assumption. intros x Hx. apply (skip_events_iff fevs R), X4, Hx.
    - intros [X1 [X2 [X3 X4]]]. repeat split; try assumption. intros x Hx. apply (skip_events_iff fevs R), X4, Hx. }
  destruct X as [X1 [X2 [X3 [X4 [X5 [X6 X7]]]]]].
  split; [intros s b Hin; apply Hs, X1, Hin|]. split; [intros s b Hr Hsp; apply X2; [exact Hr | apply Hs, Hsp]|].
  split; [exact X3|]. split; [exact X4|]. split; [intros s b Hin; apply Hs, X5, Hin|].
  split; [intros s b Hin; apply Hs, X6, Hin | exact X7].
Qed.

(* C08 at certificate level *)
Theorem pool_finality_certificate_level :
  (forall s, first_unpruned p <= s -> ft_view (p_ft p) s = spec_view fops s) /\
  (forall s h, first_unpruned p <= s -> (ft_view (p_ft p) s = VFinal h <-> FinalStar (cert_hist H B) (s, h))) /\
  (forall s, first_unpruned p <= s -> (ft_view (p_ft p) s = VSkipped <-> SkippedStar (cert_hist H B) s)) /\
  (forall s, 0 < s <= first_unpruned p -> Decided (cert_hist H B) s) /\
  ~ Decided (cert_hist H B) (first_unpruned p + 1) /\
  (forall b, Direct (cert_hist H B) b -> fst b <= finalized_slot p) /\
  (finalized_slot p = 0 \/ exists b, Direct (cert_hist H B) b /\ fst b = finalized_slot p) /\
  (forall s v, In (s, v) (ft_status (p_ft p)) -> first_unpruned p <= s) /\
  (forall b par, In (b, par) (ft_parents (p_ft p)) -> first_unpruned p <= fst b).
Proof.
  destruct (pool_finality_marks e ops) as [[fevs R] _]. fold g p fops in R.
  pose proof cons_fops as Hf. pose proof (consistent_Cons _ _ Hf) as HC.
  destruct (watermark_is_decided_prefix C fops Hf (p_ft p) fevs R) as [W1 [W2 [W3 W4]]].
  destruct (highest_is_max_direct C fops Hf (p_ft p) fevs R) as [D1 D2].
  split; [intros s Hs; apply (status_is_spec C fops Hf (p_ft p) fevs R s Hs)|].
  split; [intros s h Hs; rewrite <- (same_FinalStar _ _ (s, h) same_fops); apply (reported_final_iff C fops Hf (p_ft p) fevs R s h Hs)|].
  split; [intros s Hs; rewrite <- (same_SkippedStar _ _ s same_fops); apply (reported_skipped_iff C fops Hf (p_ft p) fevs R s Hs)|].
  split; [intros s Hs; apply (same_Decided _ _ s same_fops), (spec_view_decided C fops HC), W1, Hs|].
  split.
  { intros X. apply (same_Decided _ _ _ same_fops), (spec_view_decided C fops HC) in X. unfold first_unpruned in X. congruence. }
  split; [intros b Db; apply D1, (same_Direct _ _ b same_fops), Db|].
  split; [destruct D2 as [D2|[b [D2 D3]]]; [left; exact D2 | right; exists b; split; [apply (same_Direct _ _ b same_fops), D2 | exact D3]]|].
  split; [exact W3 | exact W4].
Qed.

(* every finalization / implicit skip the finality tracker of the pool has reported, exactly once *)
Theorem pool_finality_events_certificate_level :
  exists fevs, ft_run ft_init fops = Some (p_ft p, fevs) /\
    NoDup (all_final_events fevs) /\ NoDup (all_skip_events fevs) /\
    (forall x, In x (all_final_events fevs) -> FinalStar (cert_hist H B) x) /\
    (forall x, FinalStar (cert_hist H B) x -> 0 < fst x -> In x (all_final_events fevs)) /\
    (forall s, In s (all_skip_events fevs) <-> SkippedStar (cert_hist H B) s).
Proof.
  destruct (pool_finality_marks e ops) as [[fevs R] _]. fold g p fops in R. exists fevs. split; [exact R|].
  destruct (events_once C fops cons_fops (p_ft p) fevs R) as [E1 [E2 [E3 [E4 E5]]]].
  split; [exact E1|]. split; [exact E2|].
  split; [intros x Hx; apply (same_FinalStar _ _ x same_fops), E3, Hx|].
  split; [intros x F Hx; apply E4; [apply (same_FinalStar _ _ x same_fops), F | exact Hx]|].
  intros s. rewrite E5. apply same_SkippedStar, same_fops.
Qed.
End Consistent.

(* (i) with the present ft_consistent the genesis fact follows from the premise itself *)
(* (ii) independently of the form of ft_consistent: no certificate and no registration names a block of slot 0 other
   than genesis (decidable, about H and B only) *)
Definition slot0_ok (b : blockid) : bool := negb (fst b =? 0) || (snd b =? 0).
Definition slot0_genesis_only (H : list cert) (B : list (blockid * blockid)) : bool :=
  forallb (fun o => match o with
                    | TParent c p => slot0_ok c && slot0_ok p
                    | TNotar b | TFast b => slot0_ok b
                    | TFinal _ => true
                    end) (cert_hist H B).
Lemma slot0_ok_iff b : slot0_ok b = true -> fst b = 0 -> b = (0, 0).
Proof.
  unfold slot0_ok. destruct b as [s h]. cbn [fst snd]. intros Hb ->. cbn in Hb. apply N.eqb_eq in Hb. subst. reflexivity.
Qed.
Lemma genesis_from_mentions H B : slot0_genesis_only H B = true ->
  forall b, FinalStar (cert_hist H B) b -> fst b = 0 -> b = (0, 0).
Proof.
  unfold slot0_genesis_only. rewrite forallb_forall. intros Hm b F. induction F as [b [D|[_ [D|D]]]|c p F _ L].
  - apply slot0_ok_iff. exact (Hm _ D).
  - intros _. exact D.
  - apply slot0_ok_iff. exact (Hm _ D).
  - apply slot0_ok_iff. specialize (Hm _ L). cbn in Hm. apply andb_true_iff in Hm. apply Hm.
Qed.


Theorem pool_parent_ready_certificate_level_explicit_genesis e ops (C : slot -> option hash) :
  let g := ghost_run e ops in let p := g_pool g in
  let H := held_certs (g_trace g) in let B := reg_links (g_trace g) in
  ft_consistent C (cert_hist H B) = true -> slot0_genesis_only H B = true ->
  (forall s b, In b (pt_parents_ready (p_prt p) s) -> ReadySpec H B s b) /\
  (forall s b, first_unpruned p <= fst b -> ReadySpec H B s b -> In b (pt_parents_ready (p_prt p) s)) /\
  (forall s, NoDup (pt_parents_ready (p_prt p) s)) /\
  NoDup (ev_prs (g_events g)) /\
  (forall s b, In (s, b) (ev_prs (g_events g)) -> ReadySpec H B s b) /\
  (forall s b, In (EWaiterWoken s b) (g_events g) -> ReadySpec H B s b) /\
  (forall s, pr_waiting (pt_get (p_prt p) s) = true -> pt_parents_ready (p_prt p) s = []).
Proof. intros g p H B Hc Hg. exact (pool_parent_ready_certificate_level_gen e ops C Hc (genesis_from_mentions H B Hg)). Qed.

(* ================= the executable form of the certificate-level condition ================= *)
Lemma item_step_link_lt t b par r : item_step t (IBlock b par) = Some r -> fst par < fst b.
Proof.
  cbn [item_step]. unfold ft_add_parent. destruct (fst par <? fst b) eqn:E; [intros _; apply N.ltb_lt, E|].
  cbn [negb lift_ft]. discriminate.
Qed.
Lemma trace_run_links_lt : forall tr t r, trace_run t tr = Some r ->
  forall b par, In (b, par) (reg_links tr) -> fst par < fst b.
Proof.
  induction tr as [|it tr IH]; intros t r H b par Hin; [destruct Hin|].
  cbn [trace_run] in H. destruct (item_step t it) as [[[t1 e1] o1]|] eqn:E; [|discriminate].
  destruct (trace_run t1 tr) as [r2|] eqn:E2; [|discriminate].
  change (reg_links (it :: tr)) with ((match it with IBlock b p => [(b, p)] | _ => [] end) ++ reg_links tr) in Hin.
  apply in_app_or in Hin. destruct Hin as [Hin|Hin]; [|exact (IH _ _ E2 _ _ Hin)].
  destruct it as [c|b' par'|s]; [destruct Hin | | destruct Hin]. destruct Hin as [X|[]]. injection X as -> ->.
  exact (item_step_link_lt _ _ _ _ E).
Qed.
(* every link the pool has registered points to an older slot *)
Lemma reachable_links_lt e ops b par :
  In (b, par) (reg_links (g_trace (ghost_run e ops))) -> fst par < fst b.
Proof. destruct (reach e ops) as [fevs [tops [A _]]]. exact (trace_run_links_lt _ _ _ A b par). Qed.

Lemma cert_hist_links_lt H B : (forall b par, In (b, par) B -> fst par < fst b) ->
  forall c p, Link (cert_hist H B) c p -> fst p < fst c.
Proof. intros HB c p L. apply HB. apply (cert_hist_link H B). exact L. Qed.

Lemma nf_justb_iff H B b : (forall b par, In (b, par) B -> fst par < fst b) -> (nf_justb H B b = true <-> NfJust H B b).
Proof.
  intros HB. unfold nf_justb, NfJust. rewrite !orb_true_iff, bid_eqb_iff, (final_starb_iff _ b (cert_hist_links_lt H B HB)). tauto.
Qed.
Lemma skip_justb_iff H B x : (forall b par, In (b, par) B -> fst par < fst b) -> (skip_justb H B x = true <-> SkipJust H B x).
Proof.
  intros HB. unfold skip_justb, SkipJust. rewrite orb_true_iff, (spec_skipped_iff _ x (cert_hist_links_lt H B HB)). tauto.
Qed.
Theorem ready_specb_iff H B s p : (forall b par, In (b, par) B -> fst par < fst b) ->
  (ready_specb H B s p = true <-> ReadySpec H B s p).
Proof.
  intros HB. unfold ready_specb, ReadySpec. rewrite !andb_true_iff, forallb_forall, N.ltb_lt, (nf_justb_iff H B p HB). split.
  - intros [[[X1 X2] X3] X4]. repeat split; try assumption. intros x Hx. apply (skip_justb_iff H B x HB), X4, ParentReadyProofs.in_between, Hx.
  - intros [X1 [X2 [X3 X4]]]. repeat split; try assumption. intros x Hx. apply (skip_justb_iff H B x HB), X4, ParentReadyProofs.in_between, Hx.
Qed.

(* ================= non-vacuity: a run with certificates created from votes, a finalization certificate before the
   notarization certificate, a child link before the parent link, a gap, a certificate for a decided slot, a waiter *)
Definition lk_epoch : epoch := mkEpoch [1; 1; 1; 1; 1] 0.
Definition lk_cert (s : slot) (k : ckind) : cert := mkCert s k [0; 1; 2] [] 3.
Definition lk_ops : list pool_op :=
  [ OpVote (mkVote 1 (KNotar 7) 0); OpVote (mkVote 1 (KNotar 7) 1); OpVote (mkVote 1 (KNotar 7) 2);
    OpVote (mkVote 1 (KNotar 7) 3);
    OpCert (lk_cert 3 CFinal); OpBlock (5, 5) (3, 3); OpCert (lk_cert 2 CSkip); OpCert (lk_cert 3 (CNotar 3));
    OpBlock (3, 3) (1, 7); OpCert (mkCert 5 (CFastFinal 5) [0; 1; 2; 3] [] 4); OpCert (lk_cert 4 CSkip);
    OpWait 8; OpCert (lk_cert 6 CSkip); OpCert (lk_cert 7 CSkip) ].
Definition lk_chain (s : slot) : option hash :=
  if s =? 0 then Some 0 else if s =? 1 then Some 7 else if s =? 3 then Some 3 else if s =? 5 then Some 5 else None.

Lemma lk_example :
  let g := ghost_run lk_epoch lk_ops in
  let H := held_certs (g_trace g) in let B := reg_links (g_trace g) in
  ft_consistent lk_chain (cert_hist H B) = true /\ slot0_genesis_only H B = true /\
  p_panicked (g_pool g) = false /\
  map (fun c => (c_slot c, c_kind c)) H =
    [(1, CNotarFb 7); (1, CNotar 7); (1, CFastFinal 7); (3, CFinal); (2, CSkip); (3, CNotar 3); (5, CFastFinal 5);
     (6, CSkip); (7, CSkip)] /\
  B = [((5, 5), (3, 3)); ((3, 3), (1, 7))] /\
  first_unpruned (g_pool g) = 5 /\ finalized_slot (g_pool g) = 5 /\
  pt_parents_ready (p_prt (g_pool g)) 8 = [(5, 5)] /\
  ev_prs (g_events g) = [(4, (3, 3)); (8, (5, 5))] /\ ev_wk (g_events g) = [EWaiterWoken 8 (5, 5)] /\
  ready_specb H B 8 (5, 5) = true /\ ready_specb H B 8 (3, 3) = false.
Proof. vm_compute. repeat split; reflexivity. Qed.

(* ================= monotonicity along every pool run (no premise) ================= *)
Lemma ft_skip_between_highest : forall slots t ev t' ev' b,
  ft_skip_between t ev slots = Some (t', ev', b) -> ft_highest t' = ft_highest t.
Proof.
  induction slots as [|s rest IH]; intros t ev t' ev' b H; cbn [ft_skip_between] in H.
  - injection H as <- _ _. reflexivity.
  - destruct (alookup s (ft_status t)) as [[h| |h|h|]|]; try discriminate H;
      try (apply IH in H; exact H). injection H as <- _ _. reflexivity.
Qed.
Lemma ft_handle_impl_highest : forall fuel t src b ev t' ev',
  ft_handle_impl fuel t src b ev = Some (t', ev') -> ft_highest t' = ft_highest t.
Proof.
  induction fuel as [|f IH]; intros t src b ev t' ev' H; cbn [ft_handle_impl] in H; [discriminate|].
  destruct (negb (fst b <? src)); [discriminate|].
  destruct (fst b <? ft_first t); [injection H as <- _; reflexivity|].
  destruct (ft_skip_between t ev _) as [[[t1 ev1] early]|] eqn:Esk; [|discriminate].
  apply ft_skip_between_highest in Esk. destruct early; [injection H as <- _; exact Esk|].
  cbv zeta in H.
  assert (Hcont : forall t3, ft_highest t3 = ft_highest t ->
            match blookup b (ft_parents t3) with
            | Some p => ft_handle_impl f t3 (fst b) p (mkFE (fe_final ev1) (fe_impl_final ev1 ++ [b]) (fe_impl_skipped ev1))
            | None => Some (t3, mkFE (fe_final ev1) (fe_impl_final ev1 ++ [b]) (fe_impl_skipped ev1))
            end = Some (t', ev') -> ft_highest t' = ft_highest t).
  { intros t3 E3 H3. destruct (blookup b (ft_parents t3)); [apply IH in H3; congruence | injection H3 as <- _; exact E3]. }
  destruct (alookup (fst b) (ft_status t1)) as [[h| |h|h|]|]; try discriminate H;
    try (destruct (h =? snd b); [|discriminate H]);
    try (injection H as <- _; exact Esk);
    apply Hcont in H; try exact H; exact Esk.
Qed.
Lemma ft_hfb_highest t b ev t' ev' : ft_handle_finalized_block t b ev = Some (t', ev') -> ft_highest t <= ft_highest t'.
Proof.
  unfold ft_handle_finalized_block. cbv zeta. cbn [ft_parents].
  destruct (blookup b (ft_parents t)).
  - destruct (ft_handle_impl _ _ _ _ _) as [[t2 ev2]|] eqn:E; [|discriminate]. intros H. injection H as <- _.
    apply ft_handle_impl_highest in E. cbn [ft_highest ft_prune] in *. lia.
  - intros H. injection H as <- _. cbn [ft_highest ft_prune]. lia.
Qed.
Lemma ft_step_highest t o t' ev : ft_step t o = Some (t', ev) -> ft_highest t <= ft_highest t'.
Proof.
  destruct o as [b p|b|b|s]; cbn [ft_step].
  - unfold ft_add_parent. destruct (negb (fst p <? fst b)); [discriminate|].
    destruct (fst b <? ft_first t); [intros H; injection H as <- _; lia|].
    destruct (blookup b (ft_parents t)) as [p'|].
    { destruct (bid_eqb p p'); [intros H; injection H as <- _; lia | discriminate]. }
    cbv zeta. cbn [ft_status].
    set (t1 := mkFT (ft_status t) (binsert b p (ft_parents t)) (ft_highest t) (ft_first t)).
    assert (Hd : forall (t'' : ftracker) (ev'' : fin_event), Some (t1, fe_empty) = Some (t'', ev'') -> ft_highest t <= ft_highest t'')
      by (intros t'' ev'' H; injection H as <- _; cbn [ft_highest t1]; lia).
    assert (Hi : forall h, (if h =? snd b
                  then match ft_handle_impl (ft_fuel t1) t1 (fst b) p fe_empty with
                       | Some (t2, ev0) => Some (ft_prune t2, ev0)
                       | None => None
                       end
                  else Some (t1, fe_empty)) = Some (t', ev) -> ft_highest t <= ft_highest t').
    { intros h. destruct (h =? snd b); [|apply Hd].
      destruct (ft_handle_impl _ _ _ _ _) as [[t2 ev2]|] eqn:E; [|discriminate]. intros H. injection H as <- _.
      apply ft_handle_impl_highest in E. cbn [ft_highest ft_prune t1] in *. lia. }
    destruct (alookup (fst b) (ft_status t)) as [[h| |h|h|]|]; try apply Hd; apply Hi.
  - unfold ft_mark_notarized. destruct (fst b <? ft_first t); [intros H; injection H as <- _; lia|]. cbv zeta.
    destruct (alookup (fst b) (ft_status t)) as [[h| |h|h|]|]; try discriminate;
      try (destruct (h =? snd b); [|discriminate]);
      try (intros H; injection H as <- _; cbn [ft_highest ft_set_status]; lia);
      intros H; apply ft_hfb_highest in H; exact H.
  - unfold ft_mark_fast_finalized. destruct (fst b <? ft_first t); [intros H; injection H as <- _; lia|]. cbv zeta.
    destruct (alookup (fst b) (ft_status t)) as [[h| |h|h|]|]; try discriminate;
      try (destruct (h =? snd b); [|discriminate]);
      try (intros H; injection H as <- _; cbn [ft_highest ft_set_status]; lia);
      intros H; apply ft_hfb_highest in H; exact H.
  - unfold ft_mark_finalized. destruct (s <? ft_first t); [intros H; injection H as <- _; lia|]. cbv zeta.
    destruct (alookup s (ft_status t)) as [[h| |h|h|]|]; try discriminate;
      try (intros H; injection H as <- _; cbn [ft_highest ft_set_status]; lia);
      intros H; apply ft_hfb_highest in H; exact H.
Qed.
Lemma ft_run_highest : forall l t t' evs, ft_run t l = Some (t', evs) -> ft_highest t <= ft_highest t'.
Proof.
  induction l as [|o l IH]; intros t t' evs H; cbn [ft_run] in H; [injection H as <- _; lia|].
  destruct (ft_step t o) as [[t1 ev]|] eqn:E; [|discriminate]. destruct (ft_run t1 l) as [[t2 evs2]|] eqn:E2; [|discriminate].
  injection H as <- _. apply ft_step_highest in E. apply IH in E2. lia.
Qed.

Lemma ghost_run_trace_app e a : forall b, exists more,
  g_trace (ghost_run e (a ++ b)) = g_trace (ghost_run e a) ++ more.
Proof.
  induction b as [|op b IH] using rev_ind; [exists []; rewrite !app_nil_r; reflexivity|].
  destruct IH as [more IH]. rewrite app_assoc, ghost_run_snoc.
  destruct (ghost_step_proj e (ghost_run e (a ++ b)) op) as [_ [T _]]. rewrite T, IH, <- app_assoc. eexists. reflexivity.
Qed.

(* the watermark and the highest finalized slot of a node never decrease *)
Theorem pool_monotone e ops1 ops2 :
  first_unpruned (g_pool (ghost_run e ops1)) <= first_unpruned (g_pool (ghost_run e (ops1 ++ ops2))) /\
  finalized_slot (g_pool (ghost_run e ops1)) <= finalized_slot (g_pool (ghost_run e (ops1 ++ ops2))).
Proof.
  destruct (reach e ops1) as [f1 [o1 [A1 _]]]. destruct (reach e (ops1 ++ ops2)) as [f2 [o2 [A2 _]]].
  destruct (ghost_run_trace_app e ops1 ops2) as [more E]. rewrite E, trace_run_app, A1 in A2.
  destruct (trace_run (p_ft (g_pool (ghost_run e ops1))) more) as [[[t2 e2] oo2]|] eqn:E2; [|discriminate].
  injection A2 as A2 _ _. unfold first_unpruned, finalized_slot. rewrite <- A2. split.
  - apply (trace_run_first _ _ _ _ _ E2).
  - apply trace_run_ft in E2. apply (ft_run_highest _ _ _ _ E2).
Qed.
