(* Proofs about the repair model (Model/Repair.v). *)
From Coq Require Import List NArith Bool Lia.
From AG Require Import Gen.Params Model.Pool Model.Blockstore Model.Repair Proofs.SlotStateProofs Proofs.BlockstoreProofs.
Import ListNotations.
Open Scope N_scope.

(* ---------- a rejected response changes nothing ---------- *)
Theorem rejected_response_is_harmless : forall ct slot expected rp p,
  rp_panicked rp = false -> rejected rp p = true ->
  handle_response true ct slot expected rp p = (rp, []).
Proof.
  intros ct slot expected rp p Hp Hr. unfold handle_response, handle_response_gen, rejected in *. rewrite Hp.
  destruct (has_req rp (resp_req p)) eqn:Hh; cbn [negb orb] in *; [|reflexivity].
  destruct p as [r|r last root ok|r root ok|r slot_ok s sig_ok]; cbn [resp_req] in *.
  - discriminate.
  - destruct r; try reflexivity. destruct ok; [discriminate|reflexivity].
  - destruct r; try reflexivity. destruct ok; [discriminate|reflexivity].
  - destruct r as [b|b sl|b sl ix]; try reflexivity.
    destruct (slot_ok && (b_slice s =? sl) && (b_index s =? ix)) eqn:Hhd; cbn [negb orb] in *; [|reflexivity].
    destruct (shred_tag_ok s) eqn:Ht; cbn [negb orb] in *; [|reflexivity].
    destruct (Bool.eqb (b_last s) (is_last_slice rp b sl)) eqn:Hl; cbn [negb orb andb] in *; [|reflexivity].
    destruct (root_lookup (b, sl) (rp_roots rp)) as [root|]; [|discriminate].
    destruct (b_root s =? root); cbn [negb orb] in *; [|reflexivity].
    destruct sig_ok; [discriminate|reflexivity].
Qed.

(* a shred response whose data / coding type contradicts its shred index - whatever else is right about it,
   e.g. the leader's validly signed shred with the unsigned type flipped in transit - is such a rejected
   response: the request stays outstanding, nothing reaches the blockstore *)
Theorem tag_flipped_response_is_rejected : forall rp r slot_ok s sig_ok,
  shred_tag_ok s = false -> rejected rp (PShred r slot_ok s sig_ok) = true.
Proof.
  intros rp r slot_ok s sig_ok Ht. unfold rejected. cbn [resp_req].
  destruct (has_req rp r); cbn [negb orb]; [|reflexivity].
  destruct r as [b|b sl|b sl ix]; try reflexivity. rewrite Ht. cbn [negb].
  rewrite orb_true_r. reflexivity.
Qed.
Theorem tag_flipped_response_is_ignored : forall ct slot expected rp r slot_ok s sig_ok,
  rp_panicked rp = false -> shred_tag_ok s = false ->
  handle_response true ct slot expected rp (PShred r slot_ok s sig_ok) = (rp, []).
Proof.
  intros ct slot expected rp r slot_ok s sig_ok Hp Ht.
  apply rejected_response_is_harmless; [exact Hp | apply tag_flipped_response_is_rejected; exact Ht].
Qed.

(* a NACK re-sends the request and leaves the set of outstanding requests unchanged *)
Lemma rreq_eqb_refl : forall r, rreq_eqb r r = true.
Proof. destruct r; cbn [rreq_eqb]; rewrite ?N.eqb_refl; reflexivity. Qed.
Lemma rreq_eqb_eq : forall a b, rreq_eqb a b = true -> a = b.
Proof.
  intros a b; destruct a, b; cbn [rreq_eqb]; intros H; try discriminate;
  repeat match goal with H : _ && _ = true |- _ => apply andb_true_iff in H; destruct H end;
  repeat match goal with H : (_ =? _) = true |- _ => apply N.eqb_eq in H; subst end; reflexivity.
Qed.
Lemma rreq_eqb_sym : forall a b, rreq_eqb a b = rreq_eqb b a.
Proof.
  intros a b. destruct (rreq_eqb a b) eqn:E.
  - apply rreq_eqb_eq in E; subst; symmetry; apply rreq_eqb_refl.
  - destruct (rreq_eqb b a) eqn:E2; [|reflexivity]. apply rreq_eqb_eq in E2; subst. rewrite rreq_eqb_refl in E; discriminate.
Qed.
Lemma existsb_del : forall l r x, existsb (rreq_eqb x) (del_req l r) = existsb (rreq_eqb x) l && negb (rreq_eqb r x).
Proof.
  induction l as [|y l IH]; intros r x; cbn [del_req filter existsb]; [reflexivity|].
  destruct (rreq_eqb r y) eqn:E; cbn [negb existsb].
  - fold (del_req l r). rewrite IH. apply rreq_eqb_eq in E; subst y.
    rewrite (rreq_eqb_sym x r). destruct (rreq_eqb r x); cbn; [rewrite andb_false_r; reflexivity|reflexivity].
  - fold (del_req l r). rewrite IH. destruct (rreq_eqb x y) eqn:E2; cbn; [|reflexivity].
    apply rreq_eqb_eq in E2; subst y. rewrite E; reflexivity.
Qed.
Lemma existsb_add : forall l r x, existsb (rreq_eqb x) (add_req l r) = existsb (rreq_eqb x) l || rreq_eqb x r.
Proof.
  intros l r x. unfold add_req. destruct (existsb (rreq_eqb r) l) eqn:E.
  - destruct (rreq_eqb x r) eqn:E2; [|rewrite orb_false_r; reflexivity].
    apply rreq_eqb_eq in E2; subst. rewrite E; reflexivity.
  - rewrite existsb_app. cbn. rewrite orb_false_r. reflexivity.
Qed.
Theorem nack_keeps_request : forall ct slot expected rp r,
  rp_panicked rp = false -> has_req rp r = true ->
  exists rp', handle_response true ct slot expected rp (PNack r) = (rp', [OSend r]) /\
              (forall x, has_req rp' x = has_req rp x) /\ rp_roots rp' = rp_roots rp /\ rp_store rp' = rp_store rp.
Proof.
  intros ct slot expected rp r Hp Hh. unfold handle_response, handle_response_gen. rewrite Hp. cbn [resp_req]. rewrite Hh. cbn [negb].
  eexists; split; [reflexivity|]. cbn. split; [|split; reflexivity].
  intros x. unfold has_req. cbn. rewrite existsb_add, existsb_del.
  destruct (rreq_eqb x r) eqn:E.
  - apply rreq_eqb_eq in E; subst. rewrite orb_true_r. symmetry; exact Hh.
  - rewrite orb_false_r. rewrite (rreq_eqb_sym r x), E. cbn. rewrite andb_true_r. reflexivity.
Qed.

(* ---------- the unreachable!() is unreachable: a shred is only requested once its slice root is proven ---------- *)
Definition roots_known (rp : repair) : Prop :=
  forall b s i, has_req rp (RShred b s i) = true -> root_lookup (b, s) (rp_roots rp) <> None.

Lemma root_lookup_insert_same : forall k v m, root_lookup k (root_insert k v m) = Some v.
Proof. intros [a b] v m. unfold root_insert. cbn. rewrite !N.eqb_refl. reflexivity. Qed.
Lemma root_lookup_filter_other : forall k k' m,
  (fst k' =? fst k) && (snd k' =? snd k) = false ->
  root_lookup k (filter (fun kv => negb ((fst k' =? fst (fst kv)) && (snd k' =? snd (fst kv)))) m) = root_lookup k m.
Proof.
  intros k k' m Hne. induction m as [|[[a b] v] m IH]; cbn [filter root_lookup fst snd]; [reflexivity|].
  destruct ((fst k' =? a) && (snd k' =? b)) eqn:E; cbn [negb].
  - rewrite IH. destruct ((fst k =? a) && (snd k =? b)) eqn:E2; [|reflexivity]. exfalso.
    apply andb_true_iff in E; destruct E as [E1 E3]. apply andb_true_iff in E2; destruct E2 as [E4 E5].
    apply N.eqb_eq in E1, E3, E4, E5. rewrite <- E4 in E1. rewrite <- E5 in E3. rewrite E1, E3, !N.eqb_refl in Hne. discriminate.
  - cbn [root_lookup fst snd]. rewrite IH. reflexivity.
Qed.
Lemma root_lookup_insert_mono : forall k k' v m, root_lookup k m <> None -> root_lookup k (root_insert k' v m) <> None.
Proof.
  intros k k' v m H. unfold root_insert. cbn [root_lookup fst snd].
  destruct ((fst k =? fst k') && (snd k =? snd k')) eqn:E; [discriminate|].
  rewrite root_lookup_filter_other; [exact H|].
  rewrite (N.eqb_sym (fst k')), (N.eqb_sym (snd k')). exact E.
Qed.

Lemma has_fold_add : forall rs l x, existsb (rreq_eqb x) (fold_left add_req rs l) = existsb (rreq_eqb x) l || existsb (rreq_eqb x) rs.
Proof.
  induction rs as [|r rs IH]; intros l x; cbn [fold_left existsb]; [rewrite orb_false_r; reflexivity|].
  rewrite IH, existsb_add, orb_assoc. reflexivity.
Qed.

Lemma existsb_map_rshred : forall x b s l, existsb (rreq_eqb x) (map (fun i => RShred b s i) l) = true -> exists i, x = RShred b s i.
Proof.
  intros x b s l H. apply existsb_exists in H. destruct H as [y [Hin He]]. apply in_map_iff in Hin.
  destruct Hin as [i [Hy _]]. subst y. apply rreq_eqb_eq in He. eauto.
Qed.
Lemma existsb_map_rroot : forall b s i bb l, existsb (rreq_eqb (RShred b s i)) (map (fun s' => RRoot bb s') l) = false.
Proof. intros. induction l; cbn; [reflexivity|exact IHl]. Qed.

Lemma has_req_send_all : forall rp rs x, has_req (fst (send_all rp rs)) x = has_req rp x || existsb (rreq_eqb x) rs.
Proof. intros rp rs x. unfold send_all, has_req. cbn [fst rp_outstanding]. apply has_fold_add. Qed.
Lemma roots_send_all : forall rp rs, rp_roots (fst (send_all rp rs)) = rp_roots rp.
Proof. reflexivity. Qed.

Theorem roots_known_step : forall keep ct slot expected rp o,
  roots_known rp -> roots_known (fst (repair_step keep ct slot expected rp o)).
Proof.
  intros keep ct slot expected rp o Inv. destruct o as [k|p|r]; cbn [repair_step].
  - unfold repair_block. destruct (rp_panicked rp); [exact Inv|]. destruct (have_block _ _); [exact Inv|].
    intros b s i H. unfold send_all, has_req in H. cbn [fst rp_outstanding fold_left] in H. rewrite existsb_add in H. cbn [rreq_eqb] in H. rewrite orb_false_r in H. cbn [fst send_all rp_roots]. apply (Inv b s i); exact H.
  - unfold handle_response, handle_response_gen. destruct (rp_panicked rp); [exact Inv|].
    destruct (has_req rp (resp_req p)) eqn:Hh; cbn [negb]; [|exact Inv].
    assert (Hdrop : forall l pn, roots_known (mkRepair (del_req (rp_outstanding rp) (resp_req p)) (rp_roots rp) (rp_lasts rp) l pn)).
    { intros l pn b s i H. unfold has_req in H; cbn [rp_outstanding] in H. rewrite existsb_del in H. apply andb_true_iff in H. apply (Inv b s i). apply H. }
    assert (Hign : roots_known (fst (if keep then (rp, @nil rout) else (mkRepair (del_req (rp_outstanding rp) (resp_req p)) (rp_roots rp) (rp_lasts rp) (rp_store rp) false, [])))).
    { destruct keep; [exact Inv|apply Hdrop]. }
    destruct p as [r|r last root ok|r root ok|r slot_ok s sig_ok]; cbn [resp_req] in *.
    + intros b s i H. unfold send_all, has_req in H. cbn [fst rp_outstanding fold_left] in H. rewrite existsb_add, existsb_del in H.
      apply orb_true_iff in H. destruct H as [H|H].
      * apply andb_true_iff in H. apply (Inv b s i), H.
      * apply rreq_eqb_eq in H. subst r. apply (Inv b s i). exact Hh.
    + destruct r as [b| |]; try exact Hign. destruct ok; [|exact Hign].
      remember (map (fun s => RRoot b s) (seqN 0 (N.to_nat (last + 1)))) as rs eqn:Hrs.
      intros b' s i H. rewrite has_req_send_all in H. rewrite roots_send_all. cbn [rp_roots].
      assert (Hx : existsb (rreq_eqb (RShred b' s i)) rs = false) by (subst rs; apply existsb_map_rroot).
      rewrite Hx, orb_false_r in H. unfold has_req in H. cbn [rp_outstanding] in H. rewrite existsb_del in H.
      apply andb_true_iff in H. apply root_lookup_insert_mono. apply (Inv b' s i), H.
    + destruct r as [|b sl|]; try exact Hign. destruct ok; [|exact Hign].
      remember (map (fun i => RShred b sl i) (seqN 0 (N.to_nat TOTAL_SHREDS))) as rs eqn:Hrs.
      intros b' s i H. rewrite has_req_send_all in H. rewrite roots_send_all. cbn [rp_roots].
      apply orb_true_iff in H. destruct H as [H|H].
      * unfold has_req in H. cbn [rp_outstanding] in H. rewrite existsb_del in H. apply andb_true_iff in H.
        apply root_lookup_insert_mono. apply (Inv b' s i), H.
      * subst rs. apply existsb_map_rshred in H. destruct H as [j Hj]. inversion Hj; subst. rewrite root_lookup_insert_same. discriminate.
    + destruct r as [| |b sl ix]; try exact Hign.
      destruct (negb (slot_ok && (b_slice s =? sl) && (b_index s =? ix))); [exact Hign|].
      destruct (negb (shred_tag_ok s)); [exact Hign|].
      destruct (true && negb (Bool.eqb (b_last s) (is_last_slice rp b sl))); [exact Hign|].
      destruct (root_lookup (b, sl) (rp_roots rp)) as [root|] eqn:Hr.
      2:{ exfalso. apply (Inv b sl ix Hh). exact Hr. }
      destruct (negb (b_root s =? root)); [exact Hign|]. destruct (negb sig_ok); [exact Hign|].
      cbn [rp_store rp_outstanding rp_roots rp_lasts rp_panicked].
      destruct (bs_step true ct slot (rp_store rp) (BRepair b (expected b) s)) as [[sd ret] evs].
      destruct ret as [[[h par]|]| |]; cbn [fst]; apply Hdrop.
  - unfold timeout. destruct (rp_panicked rp); [exact Inv|]. destruct (has_req rp r); exact Inv.
Qed.

Theorem roots_known_reachable : forall keep ct slot expected ops, roots_known (repair_run keep ct slot expected ops).
Proof.
  intros keep ct slot expected ops. unfold repair_run.
  assert (H0 : roots_known repair_init) by (intros b s i H; discriminate H).
  revert H0. generalize repair_init. induction ops as [|o ops IH]; intros rp H; cbn [fold_left]; [exact H|].
  apply IH. apply roots_known_step. exact H.
Qed.

(* consequently the requester panics only if the blockstore does *)
Theorem unreachable_is_unreachable : forall ct slot expected rp p,
  roots_known rp -> rp_panicked rp = false ->
  rp_panicked (fst (handle_response true ct slot expected rp p)) = true ->
  exists b sl ix slot_ok s sig_ok sd evs,
    p = PShred (RShred b sl ix) slot_ok s sig_ok /\ bs_step true ct slot (rp_store rp) (BRepair b (expected b) s) = (sd, BRPanic, evs).
Proof.
  intros ct slot expected rp p Inv Hp H. unfold handle_response, handle_response_gen in H. rewrite Hp in H.
  destruct (has_req rp (resp_req p)) eqn:Hh; cbn [negb] in H; [|cbn in H; congruence].
  destruct p as [r|r last root ok|r root ok|r slot_ok s sig_ok]; cbn [resp_req] in *.
  - cbn in H. congruence.
  - destruct r; cbn in H; try congruence. destruct ok; cbn in H; congruence.
  - destruct r; cbn in H; try congruence. destruct ok; cbn in H; congruence.
  - destruct r as [| |b sl ix]; try (cbn in H; congruence).
    destruct (negb (slot_ok && (b_slice s =? sl) && (b_index s =? ix))); [cbn in H; congruence|].
    destruct (negb (shred_tag_ok s)); [cbn in H; congruence|].
    destruct (true && negb (Bool.eqb (b_last s) (is_last_slice rp b sl))); [cbn in H; congruence|].
    destruct (root_lookup (b, sl) (rp_roots rp)) as [root|] eqn:Hr.
    2:{ exfalso. apply (Inv b sl ix Hh). exact Hr. }
    destruct (negb (b_root s =? root)); [cbn in H; congruence|]. destruct (negb sig_ok); [cbn in H; congruence|].
    cbn [rp_store rp_outstanding rp_roots rp_lasts rp_panicked] in H.
    destruct (bs_step true ct slot (rp_store rp) (BRepair b (expected b) s)) as [[sd ret] evs] eqn:Hs.
    destruct ret as [[[h par]|]| |]; cbn in H; try congruence.
    exists b, sl, ix, slot_ok, s, sig_ok, sd, evs. split; [reflexivity|exact Hs].
Qed.

(* ---------- a repaired block is stored only under the hash it was requested by ---------- *)
Lemma listN_eqb_eq : forall a b, listN_eqb a b = true -> a = b.
Proof.
  induction a as [|x a IH]; destruct b as [|y b]; cbn; intros H; try discriminate; [reflexivity|].
  apply andb_true_iff in H. destruct H as [H1 H2]. apply N.eqb_eq in H1. subst. f_equal. apply IH, H2.
Qed.

Lemma rec_slice_completed_same : forall ct d idx d' r, try_reconstruct_slice ct d idx = (d', r) -> bd_completed d' = bd_completed d.
Proof.
  intros ct d idx d' r H. unfold try_reconstruct_slice in H.
  destruct (bd_completed d) eqn:Hc; [inversion H; subst; exact Hc|].
  destruct (alookup idx (bd_slices d)); [inversion H; subst; exact Hc|].
  destruct (deshred ct (aget [] idx (bd_shreds d))) as [| | |rs]; try (inversion H; subst; exact Hc).
  destruct (rs_parent rs); [inversion H; subst; cbn; exact Hc|].
  destruct (idx =? 0); inversion H; subst; cbn; exact Hc.
Qed.
Lemma rec_block_completed_spec : forall chk slot d d' r, try_reconstruct_block chk slot d = (d', r) ->
  (exists h p, r = RBComplete h p /\ bd_completed d' = Some (h, p)) \/
  ((forall h p, r <> RBComplete h p) /\ bd_completed d' = bd_completed d).
Proof.
  intros chk slot d d' r H. unfold try_reconstruct_block in H.
  destruct (bd_completed d) eqn:Hc; [inversion H; subst; right; split; [discriminate|exact Hc]|].
  destruct (bd_last d); [|inversion H; subst; right; split; [discriminate|exact Hc]].
  destruct (negb _); [inversion H; subst; right; split; [discriminate|exact Hc]|].
  destruct (alookup 0 (bd_slices d)); [|inversion H; subst; right; split; [discriminate|exact Hc]].
  destruct (rs_parent r0); [|inversion H; subst; right; split; [discriminate|exact Hc]].
  destruct (walk_slices _ _ _); [|inversion H; subst; right; split; [discriminate|exact Hc]].
  destruct (chk && _); [inversion H; subst; right; split; [discriminate|exact Hc]|].
  inversion H; subst. left. eexists _, _. split; reflexivity.
Qed.

Lemma add_shred_completed_spec : forall chk ct slot d s d' r, bd_add_shred chk ct slot d s = (d', r) ->
  (exists h p, r = AOk (Some (BBlock h p)) /\ bd_completed d' = Some (h, p)) \/
  ((forall h p, r <> AOk (Some (BBlock h p))) /\ bd_completed d' = bd_completed d).
Proof.
  intros chk ct slot d s d' r H. unfold bd_add_shred in H.
  set (d1o := match alookup (b_slice s) (bd_cache d) with
              | Some c => if commit_eqb c (commitment_of s) then Some d else None
              | None => Some (mkBD (bd_completed d) (bd_shreds d) (bd_slices d) (bd_last d) (ainsert (b_slice s) (commitment_of s) (bd_cache d))) end) in *.
  assert (H1 : forall d1, d1o = Some d1 -> bd_completed d1 = bd_completed d).
  { intros d1 E. unfold d1o in E. destruct (alookup (b_slice s) (bd_cache d)).
    - destruct (commit_eqb _ _); inversion E; reflexivity.
    - inversion E; reflexivity. }
  destruct d1o as [d1|]; [|inversion H; subst; right; split; [discriminate|reflexivity]].
  specialize (H1 d1 eq_refl).
  match type of H with context [match ?ls with Some _ => _ | None => (d1, AErr EEquivocation) end] => set (d2o := ls) in * end.
  assert (H2 : forall d2, d2o = Some d2 -> bd_completed d2 = bd_completed d).
  { intros d2 E. unfold d2o in E. destruct (bd_last d1).
    - destruct (_ || _); inversion E; subst; exact H1.
    - destruct (b_last s); [|inversion E; subst; exact H1].
      destruct (existsb _ _); inversion E; subst. cbn. exact H1. }
  destruct d2o as [d2|]; [|inversion H; subst; right; split; [discriminate|exact H1]].
  specialize (H2 d2 eq_refl).
  destruct (alookup (b_index s) (aget [] (b_slice s) (bd_shreds d2))).
  { inversion H; subst. right; split; [discriminate|]. destruct (alookup (b_slice s) (bd_shreds d2)); cbn; exact H2. }
  destruct (bd_shreds d2) as [|sh0 shs0] eqn:Hsh.
  { inversion H; subst. right; split; [discriminate|]. cbn. exact H2. }
  rewrite <- Hsh in H.
  destruct (try_reconstruct_slice ct _ (b_slice s)) as [d4 rr] eqn:Hs.
  apply rec_slice_completed_same in Hs. cbn in Hs.
  destruct rr; try (inversion H; subst; right; split; [discriminate|rewrite Hs; exact H2]).
  destruct (try_reconstruct_block chk slot d4) as [d5 rb] eqn:Hb.
  apply rec_block_completed_spec in Hb. destruct Hb as [[h [pp [Hr Hc]]]|[Hn Hc]].
  - subst rb. inversion H; subst. left. eexists _, _. split; [reflexivity|exact Hc].
  - right. destruct rb; inversion H; subst; (split; [try discriminate|rewrite Hc, Hs; exact H2]).
    exfalso. eapply Hn; reflexivity.
Qed.

Definition store_ok (expected : N -> blockhash) (sd : slotdata) : Prop :=
  forall key d h p, alookup key (sd_repaired sd) = Some d -> bd_completed d = Some (h, p) -> h = expected key.

Lemma alookup_filter_key {V} : forall key k (m : list (N * V)),
  alookup k (filter (fun kv => negb (fst kv =? key)) m) = if k =? key then None else alookup k m.
Proof.
  intros key k m. induction m as [|[a v] m IH]; cbn [filter alookup fst]; [destruct (k =? key); reflexivity|].
  destruct (a =? key) eqn:E; cbn [negb alookup].
  - rewrite IH. apply N.eqb_eq in E. subst a. destruct (k =? key); reflexivity.
  - rewrite IH. destruct (k =? a) eqn:E2; [|reflexivity]. apply N.eqb_eq in E2. subst a. rewrite E. reflexivity.
Qed.

Theorem repair_step_store_ok : forall chk ct slot expected sd key s sd' ret evs,
  store_ok expected sd -> bs_step chk ct slot sd (BRepair key (expected key) s) = (sd', ret, evs) ->
  store_ok expected sd' /\ (forall h p, ret = BROk (Some (h, p)) -> h = expected key).
Proof.
  intros chk ct slot expected sd key s sd' ret evs Inv H.
  (* a shred refused by the tag guard changes nothing *)
  destruct (bs_step_cases chk ct slot sd (BRepair key (expected key) s)) as [E|[_ [_ E]]]; rewrite E in H; clear E;
    [|inversion H; subst; split; [exact Inv|discriminate]].
  unfold bs_step_gen in H.
  destruct (sd_panicked sd); [inversion H; subst; split; [exact Inv|discriminate]|]. cbn [andb] in H.
  destruct (bd_add_shred chk ct slot (aget bd_empty key (sd_repaired sd)) s) as [d r] eqn:Ha.
  pose proof (add_shred_completed_spec _ _ _ _ _ _ _ Ha) as Hc.
  assert (Hold : forall h p, bd_completed (aget bd_empty key (sd_repaired sd)) = Some (h, p) -> h = expected key).
  { intros h p E. unfold aget in E. destruct (alookup key (sd_repaired sd)) eqn:El; [|discriminate]. eapply Inv; eassumption. }
  assert (Hins : forall mis pan, (forall h p, bd_completed d = Some (h, p) -> h = expected key) ->
                                 store_ok expected (mkSD (sd_dissem sd) (ainsert key d (sd_repaired sd)) mis pan)).
  { intros mis pan Hd k d0 h p El Ec. cbn in El. destruct (N.eq_dec k key) as [->|Hne].
    - rewrite alookup_ainsert_same in El. inversion El; subst. eapply Hd; eassumption.
    - rewrite alookup_ainsert_other in El by exact Hne. eapply Inv; eassumption. }
  assert (Hflag : forall sdx, store_ok expected sdx -> forall sdy e, flag_misbehaviour sdx = (sdy, e) -> store_ok expected sdy).
  { intros sdx Hx sdy e E. unfold flag_misbehaviour in E. destruct (sd_misbehaved sdx); inversion E; subst; exact Hx. }
  destruct Hc as [[h [p [Hr Hcd]]]|[Hn Hcd]].
  - subst r. destruct (negb (listN_eqb h (expected key))) eqn:Hm.
    + inversion H; subst. split; [|discriminate].
      intros k d0 h0 p0 El Ec. cbn in El. rewrite alookup_filter_key in El.
      destruct (k =? key); [discriminate|]. eapply Inv; eassumption.
    + apply negb_false_iff, listN_eqb_eq in Hm. subst h. inversion H; subst. split.
      * apply Hins. intros h0 p0 E. rewrite Hcd in E. inversion E; reflexivity.
      * intros h0 p0 E. inversion E; reflexivity.
  - assert (Hd : forall h p, bd_completed d = Some (h, p) -> h = expected key) by (intros h p E; rewrite Hcd in E; eapply Hold; exact E).
    assert (Hmis : match r with AOk (Some (BBlock h _)) => negb (listN_eqb h (expected key)) | _ => false end = false).
    { destruct r as [[[| |]|]| |]; try reflexivity. exfalso. eapply Hn; reflexivity. }
    rewrite Hmis in H.
    destruct r as [e|e|].
    + inversion H; subst. split; [apply Hins, Hd|]. intros h p E. destruct e as [[| |]|]; cbn in E; try discriminate. exfalso. eapply Hn; reflexivity.
    + destruct e.
      * inversion H; subst. split; [apply Hins, Hd|discriminate].
      * destruct (flag_misbehaviour _) as [sd2 e2] eqn:Hf. inversion H; subst. split; [|discriminate]. eapply Hflag; [|exact Hf]. apply Hins, Hd.
      * destruct (flag_misbehaviour _) as [sd2 e2] eqn:Hf. inversion H; subst. split; [|discriminate]. eapply Hflag; [|exact Hf]. apply Hins, Hd.
    + inversion H; subst. split; [apply Hins, Hd|discriminate].
Qed.

Theorem store_ok_step : forall keep ct slot expected rp o,
  store_ok expected (rp_store rp) ->
  store_ok expected (rp_store (fst (repair_step keep ct slot expected rp o))) /\
  (forall key h par, In (OBlockToPool key h par) (snd (repair_step keep ct slot expected rp o)) -> h = expected key).
Proof.
  intros keep ct slot expected rp o Inv. destruct o as [k|p|r]; cbn [repair_step].
  - unfold repair_block. destruct (rp_panicked rp); [split; [exact Inv|intros ? ? ? []]|].
    destruct (have_block _ _); cbn; (split; [exact Inv|]); [intros ? ? ? []|intros ? ? ? [E|[]]; discriminate].
  - unfold handle_response, handle_response_gen. destruct (rp_panicked rp); [split; [exact Inv|intros ? ? ? []]|].
    destruct (negb (has_req rp (resp_req p))); [split; [exact Inv|intros ? ? ? []]|].
    assert (Hign : forall pn, let X := (if keep then (rp, @nil rout) else (mkRepair (del_req (rp_outstanding rp) (resp_req p)) (rp_roots rp) (rp_lasts rp) (rp_store rp) pn, [])) in
                   store_ok expected (rp_store (fst X)) /\ (forall key h par, In (OBlockToPool key h par) (snd X) -> h = expected key)).
    { intros pn. destruct keep; cbn; (split; [exact Inv|intros ? ? ? []]). }
    assert (Hsend : forall o1 rts ls st pn rs, store_ok expected st ->
              store_ok expected (rp_store (fst (send_all (mkRepair o1 rts ls st pn) rs))) /\
              (forall key h par, In (OBlockToPool key h par) (snd (send_all (mkRepair o1 rts ls st pn) rs)) -> h = expected key)).
    { intros o1 rts ls st pn rs Hst. cbn. split; [exact Hst|]. intros key h par Hin. apply in_map_iff in Hin. destruct Hin as [x [E _]]. discriminate. }
    destruct p as [r|r last root ok|r root ok|r slot_ok s sig_ok]; cbn [resp_req] in *.
    + apply Hsend, Inv.
    + destruct r; try (apply Hign). destruct ok; [apply Hsend, Inv|apply Hign].
    + destruct r; try (apply Hign). destruct ok; [apply Hsend, Inv|apply Hign].
    + destruct r as [| |b sl ix]; try (apply Hign).
      destruct (negb (slot_ok && (b_slice s =? sl) && (b_index s =? ix))); [apply Hign|].
      destruct (negb (shred_tag_ok s)); [apply Hign|].
      destruct (true && negb (Bool.eqb (b_last s) (is_last_slice rp b sl))); [apply Hign|].
      destruct (root_lookup (b, sl) (rp_roots rp)) as [root|]; [|cbn; split; [exact Inv|intros ? ? ? []]].
      destruct (negb (b_root s =? root)); [apply Hign|]. destruct (negb sig_ok); [apply Hign|].
      cbn [rp_store rp_outstanding rp_roots rp_lasts rp_panicked]. destruct (bs_step true ct slot (rp_store rp) (BRepair b (expected b) s)) as [[sd ret] evs] eqn:Hs.
      destruct (repair_step_store_ok _ _ _ _ _ _ _ _ _ _ Inv Hs) as [Hst Hret].
      destruct ret as [[[h par]|]| |]; cbn; (split; [exact Hst|]); intros kk hh pp Hin; try (destruct Hin; fail).
      destruct Hin as [E|[]]. inversion E; subst. eapply Hret; reflexivity.
  - unfold timeout. destruct (rp_panicked rp); [split; [exact Inv|intros ? ? ? []]|].
    destruct (has_req rp r); cbn; (split; [exact Inv|]); [intros ? ? ? [E|[]]; discriminate|intros ? ? ? []].
Qed.

Theorem stored_only_if_hash_matches : forall keep ct slot expected ops key d h p,
  alookup key (sd_repaired (rp_store (repair_run keep ct slot expected ops))) = Some d ->
  bd_completed d = Some (h, p) -> h = expected key.
Proof.
  intros keep ct slot expected ops. unfold repair_run.
  assert (H0 : store_ok expected (rp_store repair_init)) by (intros k d h p E; discriminate E).
  revert H0. generalize repair_init. induction ops as [|o ops IH]; intros rp H; cbn [fold_left].
  - intros key d h p E1 E2. eapply H; eassumption.
  - apply IH. apply store_ok_step. exact H.
Qed.

(* the pinned requester (request removed on ANY response) let a single bad response cancel a request *)
Theorem pinned_bad_response_cancels_request :
  exists rp p, rp_panicked rp = false /\ rejected rp p = true /\
    has_req rp (resp_req p) = true /\
    has_req (fst (handle_response false [] 5 (fun _ => []) rp p)) (resp_req p) = false.
Proof.
  exists (mkRepair [RLast 1] [] [] sd_empty false), (PLast (RLast 1) 0 7 false). vm_compute. repeat split; reflexivity.
Qed.

(* Without the last-slice-flag check, ONE shred of a slice the (Byzantine) leader signed a second time
   with the other flag - same slice root, valid signature, right indices - poisons the repaired data:
   every correct response is delivered afterwards, no request is left, and the block is not stored.
   With the check the same response stream stores the block. *)
Definition derail_ops : list rop :=
  let h0 i := mkBS 0 false 7 i (i <? DATA_SHREDS) 100 in
  let h1 i := mkBS 1 true 8 i (i <? DATA_SHREDS) 100 in
  [OStart 1; OResp (PLast (RLast 1) 1 8 true); OResp (PRoot (RRoot 1 0) 7 true); OResp (PRoot (RRoot 1 1) 8 true);
   OResp (PShred (RShred 1 0 0) true (mkBS 0 true 7 0 true 100) true)]
  ++ map (fun i => OResp (PShred (RShred 1 0 i) true (h0 i) true)) (seqN 0 64)
  ++ map (fun i => OResp (PShred (RShred 1 1 i) true (h1 i) true)) (seqN 0 64).
Definition derail_ct : content := [(7, DecOk (Some (4, 3)) true); (8, DecOk None true)].
Theorem resigned_slice_derails_unchecked_repair :
  let bad := repair_run_gen true false derail_ct 5 (fun _ => [7; 8]) derail_ops in
  let good := repair_run_gen true true derail_ct 5 (fun _ => [7; 8]) derail_ops in
  have_block (rp_store bad) 1 = false /\ rp_outstanding bad = [] /\
  have_block (rp_store good) 1 = true /\ rp_panicked good = false.
Proof. vm_compute. repeat split; reflexivity. Qed.
