(* C06, completeness of safe-to-notar / safe-to-skip on one slot state (Model/Pool.v, SlotState part):
   in every reachable slot state the sent-flag of a block equals the condition of the property, the
   event is raised by exactly the operation that makes the condition true, exactly once. *)
From Coq Require Import List NArith Bool Lia ZifyBool ZifyNat ZifyN.
From AG Require Import Gen.Params Model.Pool Model.PoolSpec Model.SafeToSpec Proofs.SlotStateProofs Proofs.SafeToProofs.
Import ListNotations.
Open Scope N_scope.

(* ---------- auxiliary vocabulary ---------- *)
Definition pendb (ss : slot_state) (h : hash) : bool := memN h (s2n_pending (ss_n ss)).
Definition posb (ss : slot_state) (h : hash) : bool := pendb ss h || s2n_sentb ss h.
Definition own_unvotedb (e : epoch) (ss : slot_state) : bool :=
  negb (memN (own e) (vo_skip (ss_v ss)))
  && match alookup (own e) (vo_notar (ss_v ss)) with None => true | Some _ => false end.
Definition wqb (e : epoch) (ss : slot_state) (h : hash) : bool :=
  is_weakest_quorum e (aget 0 h (st_notar (ss_t ss))).
Definition aqb (e : epoch) (ss : slot_state) (h : hash) : bool :=
  is_weak_quorum e (aget 0 h (st_notar (ss_t ss)))
  || is_quorum e (aget 0 h (st_notar (ss_t ss)) + st_skip (ss_t ss)).
(* the states in which the implementation must remember h as pending *)
Definition needs_pendb (e : epoch) (ss : slot_state) (h : hash) : bool :=
  wqb e ss h && (negb (aqb e ss h) || (parent_certb ss h && own_unvotedb e ss)).

Lemma s2n_stakeb_split e ss h : s2n_stakeb e ss h = wqb e ss h && aqb e ss h.
Proof. reflexivity. Qed.

Lemma memN_filter_neq x y l : memN x (sset_remove y l) = negb (y =? x) && memN x l.
Proof.
  unfold memN, sset_remove. induction l as [|a l IH]; cbn [filter existsb].
  - rewrite andb_false_r. reflexivity.
  - destruct (y =? a) eqn:E; cbn [negb existsb].
    + rewrite IH. apply N.eqb_eq in E. subst a. rewrite (N.eqb_sym x y).
      destruct (y =? x); reflexivity.
    + rewrite IH. destruct (x =? a) eqn:E3; cbn [orb]; [|reflexivity].
      apply N.eqb_eq in E3. subst a. rewrite E. reflexivity.
Qed.

(* conditions depend on the stored votes, the totals and the parent status only *)
Lemma condb_ext e ss ss' h :
  ss_v ss' = ss_v ss -> ss_t ss' = ss_t ss -> pa_status (ss_n ss') = pa_status (ss_n ss) ->
  s2n_condb e ss' h = s2n_condb e ss h /\ needs_pendb e ss' h = needs_pendb e ss h.
Proof.
  intros Ev Et Ep.
  unfold s2n_condb, needs_pendb, own_voted_otherb, s2n_stakeb, parent_certb, own_unvotedb, wqb, aqb.
  rewrite Ev, Et, Ep. split; reflexivity.
Qed.
Lemma s2s_condb_ext e ss ss' : ss_v ss' = ss_v ss -> ss_t ss' = ss_t ss -> s2s_condb e ss' = s2s_condb e ss.
Proof. intros Ev Et. unfold s2s_condb, own_notarizedb. rewrite Ev, Et. reflexivity. Qed.

(* ---------- exact description of check_safe_to_notar ---------- *)
Lemma csn_spec e ss h :
  check_safe_to_notar e ss h =
  if s2n_condb e ss h then (with_n ss (n_mark_sent (ss_n ss) h), S2NSafe)
  else if needs_pendb e ss h then (with_n ss (n_add_pending (ss_n ss) h), S2NAwaiting)
  else (ss, if wqb e ss h && aqb e ss h && match alookup h (pa_status (ss_n ss)) with None => true | _ => false end
            then S2NMissingBlock else S2NAwaiting).
Proof.
  unfold check_safe_to_notar, s2n_condb, needs_pendb, s2n_stakeb, own_voted_otherb, parent_certb, own_unvotedb, wqb, aqb.
  destruct (is_weakest_quorum e (aget 0 h (st_notar (ss_t ss)))); cbn [negb andb orb];
    [|rewrite !andb_false_r; reflexivity].
  destruct (is_weak_quorum e (aget 0 h (st_notar (ss_t ss)))); cbn [negb andb orb].
  - destruct (alookup h (pa_status (ss_n ss))) as [[|]|]; cbn [andb orb negb]; rewrite ?andb_false_r; try reflexivity.
    destruct (memN (own e) (vo_skip (ss_v ss))); cbn [andb orb negb]; [reflexivity|].
    destruct (alookup (own e) (vo_notar (ss_v ss))) as [h'|]; cbn [andb orb negb]; [|reflexivity].
    destruct (h' =? h); reflexivity.
  - destruct (is_quorum e (aget 0 h (st_notar (ss_t ss)) + st_skip (ss_t ss))); cbn [negb andb orb];
      [|rewrite !andb_false_r; reflexivity].
    destruct (alookup h (pa_status (ss_n ss))) as [[|]|]; cbn [andb orb negb]; rewrite ?andb_false_r; try reflexivity.
    destruct (memN (own e) (vo_skip (ss_v ss))); cbn [andb orb negb]; [reflexivity|].
    destruct (alookup (own e) (vo_notar (ss_v ss))) as [h'|]; cbn [andb orb negb]; [|reflexivity].
    destruct (h' =? h); reflexivity.
Qed.

(* ---------- extension relation: what the re-evaluation steps may do to a slot state ---------- *)
Definition ev_kind_ok (x : pevent) : Prop :=
  match x with ESafeToNotar _ | ESafeToSkip _ => True | _ => False end.

Record ext (e : epoch) (s : slot) (ss ss' : slot_state) (new : list pevent) : Prop := mkExt {
  ex_v : ss_v ss' = ss_v ss;
  ex_t : ss_t ss' = ss_t ss;
  ex_c : ss_c ss' = ss_c ss;
  ex_pa : pa_status (ss_n ss') = pa_status (ss_n ss);
  ex_pos : forall x, posb ss x = true -> posb ss' x = true;
  ex_sent : forall x, s2n_sentb ss x = true -> s2n_sentb ss' x = true;
  ex_snd : forall x, s2n_sentb ss' x = true -> s2n_sentb ss x = true \/ s2n_condb e ss x = true;
  ex_s2s : s2s_sent (ss_n ss) = true -> s2s_sent (ss_n ss') = true;
  ex_s2s_snd : s2s_sent (ss_n ss') = true -> s2s_sent (ss_n ss) = true \/ s2s_condb e ss = true;
  ex_cnt_n : forall b, ev_count (is_s2n b) new
                       = b2n ((fst b =? s) && s2n_sentb ss' (snd b) && negb (s2n_sentb ss (snd b)));
  ex_cnt_s : forall s', ev_count (is_s2s s') new
                        = b2n ((s' =? s) && s2s_sent (ss_n ss') && negb (s2s_sent (ss_n ss)));
  ex_kinds : Forall ev_kind_ok new }.

Lemma ev_count_app f a b : ev_count f (a ++ b) = (ev_count f a + ev_count f b)%nat.
Proof. induction a as [|x a IH]; cbn [app ev_count]; [reflexivity|]. rewrite IH. lia. Qed.

Lemma flip_same a b : b2n (a && b && negb b) = O.
Proof. destruct a; destruct b; reflexivity. Qed.

Lemma ext_refl e s ss : ext e s ss ss [].
Proof.
  constructor; auto.
  - intros b. rewrite flip_same. reflexivity.
  - intros s'. rewrite flip_same. reflexivity.
Qed.

Lemma ext_trans e s a b c n1 n2 : ext e s a b n1 -> ext e s b c n2 -> ext e s a c (n1 ++ n2).
Proof.
  intros H1 H2. destruct H1, H2.
  destruct (condb_ext e a b 0 ex_v0 ex_t0 ex_pa0) as [_ _].
  constructor; try congruence; auto.
  - intros x Hx. destruct (ex_snd1 x Hx) as [Hb|Hb]; [auto|].
    right. destruct (condb_ext e a b x ex_v0 ex_t0 ex_pa0) as [E _]. congruence.
  - intros Hx. destruct (ex_s2s_snd1 Hx) as [Hb|Hb]; [auto|].
    right. rewrite <- (s2s_condb_ext e a b ex_v0 ex_t0). exact Hb.
  - intros x. rewrite ev_count_app, ex_cnt_n0, ex_cnt_n1.
    specialize (ex_sent0 (snd x)). specialize (ex_sent1 (snd x)).
    destruct (fst x =? s); cbn [andb]; [|reflexivity].
    destruct (s2n_sentb a (snd x)); destruct (s2n_sentb b (snd x)); destruct (s2n_sentb c (snd x));
      cbn; try reflexivity; try (specialize (ex_sent0 eq_refl)); try (specialize (ex_sent1 eq_refl)); discriminate.
  - intros x. rewrite ev_count_app, ex_cnt_s0, ex_cnt_s1.
    destruct (x =? s); cbn [andb]; [|reflexivity].
    destruct (s2s_sent (ss_n a)); destruct (s2s_sent (ss_n b)); destruct (s2s_sent (ss_n c));
      cbn; try reflexivity; try (specialize (ex_s2s0 eq_refl)); try (specialize (ex_s2s1 eq_refl)); discriminate.
  - apply Forall_app. split; assumption.
Qed.

(* ---------- one evaluation of check_safe_to_notar ---------- *)
Lemma sent_mark ss h x : s2n_sentb (with_n ss (n_mark_sent (ss_n ss) h)) x = (x =? h) || s2n_sentb ss x.
Proof. unfold s2n_sentb, with_n, n_mark_sent. cbn [ss_n s2n_sent]. apply memN_sset_insert. Qed.
Lemma pend_mark ss h x : pendb (with_n ss (n_mark_sent (ss_n ss) h)) x = negb (h =? x) && pendb ss x.
Proof. unfold pendb, with_n, n_mark_sent. cbn [ss_n s2n_pending]. apply memN_filter_neq. Qed.
Lemma sent_addp ss h x : s2n_sentb (with_n ss (n_add_pending (ss_n ss) h)) x = s2n_sentb ss x.
Proof. reflexivity. Qed.
Lemma pend_addp ss h x : pendb (with_n ss (n_add_pending (ss_n ss) h)) x = (x =? h) || pendb ss x.
Proof. unfold pendb, with_n, n_add_pending. cbn [ss_n s2n_pending]. apply memN_sset_insert. Qed.

Lemma ext_mark e s ss h : s2n_sentb ss h = false -> s2n_condb e ss h = true ->
  ext e s ss (with_n ss (n_mark_sent (ss_n ss) h)) [ESafeToNotar (s, h)].
Proof.
  intros Hs Hc. constructor; try reflexivity; auto.
  - intros x. unfold posb. rewrite sent_mark, pend_mark. rewrite (N.eqb_sym h x).
    destruct (x =? h); cbn [negb andb orb]; auto.
  - intros x Hx. rewrite sent_mark, Hx. apply orb_true_r.
  - intros x. rewrite sent_mark. destruct (x =? h) eqn:E; cbn [orb]; [|auto].
    apply N.eqb_eq in E. subst. auto.
  - intros b. rewrite sent_mark. cbn [ev_count is_s2n]. unfold bid_eqb. cbn [fst snd].
    destruct (fst b =? s); cbn [andb]; [|reflexivity].
    destruct (snd b =? h) eqn:E; cbn [orb andb].
    + apply N.eqb_eq in E. rewrite E, Hs. reflexivity.
    + destruct (s2n_sentb ss (snd b)); reflexivity.
  - intros s'. cbn [ev_count is_s2s]. change (s2s_sent (ss_n (with_n ss (n_mark_sent (ss_n ss) h)))) with (s2s_sent (ss_n ss)).
    rewrite flip_same. reflexivity.
  - constructor; [exact I | constructor].
Qed.

Lemma ext_addp e s ss h : ext e s ss (with_n ss (n_add_pending (ss_n ss) h)) [].
Proof.
  constructor; try reflexivity; auto.
  - intros x. unfold posb. rewrite sent_addp, pend_addp. destruct (x =? h); cbn [orb]; auto.
  - intros b. rewrite sent_addp, flip_same. reflexivity.
  - intros s'. change (s2s_sent (ss_n (with_n ss (n_add_pending (ss_n ss) h)))) with (s2s_sent (ss_n ss)).
    rewrite flip_same. reflexivity.
Qed.

Definition s2n_evs (s : slot) (h : hash) (st : s2n_status) : list pevent :=
  match st with S2NSafe => [ESafeToNotar (s, h)] | _ => [] end.

Lemma csn_ext e s ss h ss' st :
  check_safe_to_notar e ss h = (ss', st) -> s2n_sentb ss h = false ->
  ext e s ss ss' (s2n_evs s h st)
  /\ (s2n_condb e ss h = true -> s2n_sentb ss' h = true)
  /\ (needs_pendb e ss h = true -> posb ss' h = true).
Proof.
  rewrite csn_spec. intros H Hs.
  destruct (s2n_condb e ss h) eqn:C.
  - injection H as <- <-. split; [apply ext_mark; assumption|]. split.
    + intros _. rewrite sent_mark, N.eqb_refl. reflexivity.
    + intros _. unfold posb. rewrite sent_mark, N.eqb_refl. apply orb_true_r.
  - destruct (needs_pendb e ss h) eqn:P.
    + injection H as <- <-. split; [apply ext_addp|]. split; [discriminate|].
      intros _. unfold posb. rewrite pend_addp, N.eqb_refl. reflexivity.
    + injection H as <- <-. split.
      * destruct (wqb e ss h && aqb e ss h && _); apply ext_refl.
      * split; discriminate.
Qed.

(* s2n_try: one guarded evaluation *)
Lemma s2n_try_ext e s ss h ss' ev rp :
  s2n_try e s ss h = (ss', ev, rp) ->
  ext e s ss ss' ev
  /\ (s2n_condb e ss h = true -> s2n_sentb ss' h = true)
  /\ (needs_pendb e ss h = true -> posb ss' h = true).
Proof.
  unfold s2n_try. fold (s2n_sentb ss h). destruct (s2n_sentb ss h) eqn:S.
  - intros H. injection H as <- <- <-. split; [apply ext_refl|]. split; intros _; [exact S|].
    unfold posb. rewrite S. apply orb_true_r.
  - destruct (check_safe_to_notar e ss h) as [ss1 st] eqn:C.
    destruct (csn_ext e s ss h ss1 st C S) as (X & Y & Z).
    intros H. destruct st; injection H as <- <- <-; auto.
Qed.

(* the loop over the pending snapshot *)
Lemma recheck_ext e s : forall hs ss ev rp ss' ev' rp',
  recheck_pending e s ss hs ev rp = (ss', ev', rp') ->
  exists new, ev' = ev ++ new /\ ext e s ss ss' new
              /\ (forall x, In x hs -> s2n_condb e ss x = true -> s2n_sentb ss' x = true).
Proof.
  induction hs as [|h hs IH]; intros ss ev rp ss' ev' rp' H; cbn [recheck_pending] in H.
  - injection H as <- <- <-. exists []. rewrite app_nil_r. split; [reflexivity|]. split; [apply ext_refl|].
    intros x [].
  - fold (s2n_sentb ss h) in H. destruct (s2n_sentb ss h) eqn:S.
    + destruct (IH _ _ _ _ _ _ H) as (new & E & X & Y). exists new. split; [exact E|]. split; [exact X|].
      intros x [<-|Hx] Hc; [apply (ex_sent _ _ _ _ _ X); exact S | apply Y; assumption].
    + destruct (check_safe_to_notar e ss h) as [ss1 st] eqn:C.
      destruct (csn_ext e s ss h ss1 st C S) as (X1 & Y1 & _).
      assert (exists ev1 rp1, recheck_pending e s ss1 hs ev1 rp1 = (ss', ev', rp') /\ ev1 = ev ++ s2n_evs s h st) as (ev1 & rp1 & H1 & E1).
      { destruct st; cbn [s2n_evs]; eexists; eexists; (split; [exact H|]); rewrite ?app_nil_r; reflexivity. }
      destruct (IH _ _ _ _ _ _ H1) as (new & E & X & Y).
      exists (s2n_evs s h st ++ new). split; [rewrite E, E1, app_assoc; reflexivity|].
      split; [eapply ext_trans; eassumption|].
      intros x [<-|Hx] Hc.
      * apply (ex_sent _ _ _ _ _ X). apply Y1. exact Hc.
      * apply Y; [exact Hx|].
        destruct (condb_ext e ss ss1 x (ex_v _ _ _ _ _ X1) (ex_t _ _ _ _ _ X1) (ex_pa _ _ _ _ _ X1)) as [Q _].
        rewrite Q. exact Hc.
Qed.

(* safe-to-skip re-evaluation *)
Lemma s2s_try_ext e s ss ev ss' ev' :
  s2s_try e s ss ev = (ss', ev') ->
  exists new, ev' = ev ++ new /\ ext e s ss ss' new /\ (s2s_condb e ss = true -> s2s_sent (ss_n ss') = true).
Proof.
  unfold s2s_try, safe_to_skip_now. intros H.
  assert (Q : (is_weak_quorum e (st_nos (ss_t ss) - st_top (ss_t ss))
               && match alookup (own e) (vo_notar (ss_v ss)) with Some _ => true | None => false end) = s2s_condb e ss).
  { unfold s2s_condb, own_notarizedb. apply andb_comm. }
  rewrite <- andb_assoc, Q in H.
  destruct (s2s_sent (ss_n ss)) eqn:S; cbn [negb andb] in H.
  - injection H as <- <-. exists []. rewrite app_nil_r. split; [reflexivity|]. split; [apply ext_refl | auto].
  - destruct (s2s_condb e ss) eqn:C.
    + injection H as <- <-. exists [ESafeToSkip s]. split; [reflexivity|]. split; [|reflexivity].
      constructor; try reflexivity; auto.
      * intros b. change (s2n_sentb (set_s2s ss) (snd b)) with (s2n_sentb ss (snd b)). rewrite flip_same. reflexivity.
      * intros s'. cbn [ev_count is_s2s set_s2s with_n ss_n s2s_sent]. rewrite S.
        destruct (s' =? s); reflexivity.
      * constructor; [exact I | constructor].
    + injection H as <- <-. exists []. rewrite app_nil_r. split; [reflexivity|]. split; [apply ext_refl | discriminate].
Qed.

(* ---------- the stake-counting functions as: totals update, then a chain of re-evaluations ---------- *)
Lemma pend_in ss x : pendb ss x = true -> In x (s2n_pending (ss_n ss)).
Proof. unfold pendb. apply memN_true. Qed.

Lemma count_notar_chain e s ss h stake ss' out :
  count_notar_stake e s ss h stake = (ss', out) ->
  let t := ss_t ss in
  let ss0 := with_t ss (mkStakes (ainsert h (aget 0 h (st_notar t) + stake) (st_notar t)) (st_nf t) (st_skip t)
                                 (st_sf t) (st_fin t) (st_nos t + stake) (N.max (aget 0 h (st_notar t) + stake) (st_top t))) in
  ext e s ss0 ss' (o_events out)
  /\ (s2n_condb e ss0 h = true -> s2n_sentb ss' h = true)
  /\ (needs_pendb e ss0 h = true -> posb ss' h = true)
  /\ (s2s_condb e ss0 = true -> s2s_sent (ss_n ss') = true).
Proof.
  unfold count_notar_stake. cbv zeta.
  match goal with |- context [s2n_try e s ?x h] => set (ss0 := x) end.
  destruct (s2n_try e s ss0 h) as [[ss2 ev1] rp1] eqn:E1.
  destruct (s2s_try e s ss2 ev1) as [ss3 ev2] eqn:E2.
  intros H. injection H as <- <-. cbn [o_events].
  destruct (s2n_try_ext _ _ _ _ _ _ _ E1) as (X1 & Y1 & Z1).
  destruct (s2s_try_ext _ _ _ _ _ _ E2) as (new & -> & X2 & Y2).
  split; [eapply ext_trans; eassumption|]. split; [|split].
  - intros Hc. apply (ex_sent _ _ _ _ _ X2). auto.
  - intros Hc. apply (ex_pos _ _ _ _ _ X2). auto.
  - intros Hc. apply Y2. rewrite (s2s_condb_ext e ss0 ss2 (ex_v _ _ _ _ _ X1) (ex_t _ _ _ _ _ X1)). exact Hc.
Qed.

Lemma count_skip_chain e s ss stake fb ss' out :
  count_skip_stake e s ss stake fb = (ss', out) ->
  let t := ss_t ss in
  let ss0 := with_t ss (mkStakes (st_notar t) (st_nf t) (if fb then st_skip t else st_skip t + stake)
                                 (if fb then st_sf t + stake else st_sf t) (st_fin t) (st_nos t) (st_top t)) in
  ext e s ss0 ss' (o_events out)
  /\ (forall x, posb ss0 x = true -> s2n_condb e ss0 x = true -> s2n_sentb ss' x = true)
  /\ (s2s_condb e ss0 = true -> s2s_sent (ss_n ss') = true).
Proof.
  unfold count_skip_stake. cbv zeta.
  match goal with |- context [recheck_pending e s ?x _ [] []] => set (ss0 := x) end.
  destruct (recheck_pending e s ss0 (s2n_pending (ss_n ss0)) [] []) as [[ss2 ev1] rp1] eqn:E1.
  destruct (s2s_try e s ss2 ev1) as [ss3 ev2] eqn:E2.
  intros H. injection H as <- <-. cbn [o_events].
  destruct (recheck_ext _ _ _ _ _ _ _ _ _ E1) as (n1 & -> & X1 & Y1).
  destruct (s2s_try_ext _ _ _ _ _ _ E2) as (new & -> & X2 & Y2).
  cbn [app]. split; [eapply ext_trans; eassumption|]. split.
  - intros x Hp Hc. apply (ex_sent _ _ _ _ _ X2). unfold posb in Hp. apply orb_prop in Hp. destruct Hp as [Hp|Hp].
    + apply Y1; [apply pend_in; exact Hp | exact Hc].
    + apply (ex_sent _ _ _ _ _ X1). exact Hp.
  - intros Hc. apply Y2. rewrite (s2s_condb_ext e ss0 ss2 (ex_v _ _ _ _ _ X1) (ex_t _ _ _ _ _ X1)). exact Hc.
Qed.

(* the state right after storing the vote and updating the totals, before any re-evaluation *)
Definition vote_counted (e : epoch) (ss : slot_state) (vt : vote) : slot_state :=
  mkSS (ss_v (store_vote ss (v_signer vt) (v_kind vt))) (totals_after e (ss_t ss) vt) (ss_c ss) (ss_n ss).

Definition rechecks_all (e : epoch) (vt : vote) : Prop :=
  v_kind vt = KSkip \/ v_kind vt = KSkipFb \/ v_signer vt = own e.
Definition tries_s2s (vt : vote) : Prop :=
  match v_kind vt with KNotar _ | KSkip | KSkipFb => True | _ => False end.

Lemma count_vote_chain e ss vt ss' out :
  ss_count_vote true e ss vt = (ss', out) ->
  let ss0 := vote_counted e ss vt in
  ext e (v_slot vt) ss0 ss' (o_events out)
  /\ (forall h, v_kind vt = KNotar h ->
        (s2n_condb e ss0 h = true -> s2n_sentb ss' h = true) /\ (needs_pendb e ss0 h = true -> posb ss' h = true))
  /\ ((v_kind vt = KSkip \/ v_kind vt = KSkipFb) ->
        forall x, posb ss x = true -> s2n_condb e ss0 x = true -> s2n_sentb ss' x = true)
  /\ (tries_s2s vt -> s2s_condb e ss0 = true -> s2s_sent (ss_n ss') = true).
Proof.
  destruct vt as [s k v]. unfold ss_count_vote, vote_counted, tries_s2s. cbn [v_slot v_kind v_signer]. intros H.
  destruct k as [h|h| | |].
  - destruct (count_notar_chain _ _ _ _ _ _ _ H) as (X & Y & Z & W).
    split; [exact X|]. split; [|split].
    + intros h' E. injection E as <-. split; assumption.
    + intros [E|E]; discriminate.
    + intros _. exact W.
  - unfold count_nf_stake in H. injection H as <- <-. split; [apply ext_refl|]. split; [|split].
    + intros h' E. discriminate.
    + intros [E|E]; discriminate.
    + intros [].
  - destruct (count_skip_chain _ _ _ _ _ _ _ H) as (X & Y & W).
    split; [exact X|]. split; [|split].
    + intros h' E. discriminate.
    + intros _. exact Y.
    + intros _. exact W.
  - destruct (count_skip_chain _ _ _ _ _ _ _ H) as (X & Y & W).
    split; [exact X|]. split; [|split].
    + intros h' E. discriminate.
    + intros _. exact Y.
    + intros _. exact W.
  - unfold count_fin_stake in H. injection H as <- <-. split; [apply ext_refl|]. split; [|split].
    + intros h' E. discriminate.
    + intros [E|E]; discriminate.
    + intros [].
Qed.

Lemma add_vote_chain e ss vt ss' out :
  ss_add_vote e ss vt = (ss', out) ->
  let ss0 := vote_counted e ss vt in
  ext e (v_slot vt) ss0 ss' (o_events out)
  /\ (forall h, v_kind vt = KNotar h ->
        (s2n_condb e ss0 h = true -> s2n_sentb ss' h = true) /\ (needs_pendb e ss0 h = true -> posb ss' h = true))
  /\ (rechecks_all e vt -> forall x, posb ss x = true -> s2n_condb e ss0 x = true -> s2n_sentb ss' x = true)
  /\ (tries_s2s vt -> s2s_condb e ss0 = true -> s2s_sent (ss_n ss') = true).
Proof.
  unfold ss_add_vote, ss_add_vote_gen. destruct (ss_count_vote true e ss vt) as [ss1 out1] eqn:E1.
  destruct (count_vote_chain _ _ _ _ _ E1) as (X & Y & Z & W). cbv zeta.
  destruct (v_signer vt =? own e) eqn:O.
  - destruct (recheck_pending e (v_slot vt) ss1 (s2n_pending (ss_n ss1)) (o_events out1) (o_repair out1)) as [[ss2 ev] rp] eqn:E2.
    intros H. injection H as <- <-. cbn [o_events].
    destruct (recheck_ext _ _ _ _ _ _ _ _ _ E2) as (new & -> & X2 & Y2).
    split; [eapply ext_trans; eassumption|]. split; [|split].
    + intros h Hk. destruct (Y h Hk) as [A B]. split; intros Hc.
      * apply (ex_sent _ _ _ _ _ X2). auto.
      * apply (ex_pos _ _ _ _ _ X2). auto.
    + intros _ x Hp Hc.
      assert (Hp1 : posb ss1 x = true) by (apply (ex_pos _ _ _ _ _ X); exact Hp).
      unfold posb in Hp1. apply orb_prop in Hp1. destruct Hp1 as [Hp1|Hp1].
      * apply Y2; [apply pend_in; exact Hp1|].
        destruct (condb_ext e (vote_counted e ss vt) ss1 x (ex_v _ _ _ _ _ X) (ex_t _ _ _ _ _ X) (ex_pa _ _ _ _ _ X)) as [Q _].
        rewrite Q. exact Hc.
      * apply (ex_sent _ _ _ _ _ X2). exact Hp1.
    + intros Ht Hc. apply (ex_s2s _ _ _ _ _ X2). auto.
  - intros H. injection H as <- <-. split; [exact X|]. split; [exact Y|]. split; [|exact W].
    intros [Hk|[Hk|Hk]]; [apply Z; auto | apply Z; auto |].
    apply N.eqb_neq in O. contradiction.
Qed.

(* ---------- how storing + counting an admitted vote changes the figures of the conditions ---------- *)
Lemma is_met_mono num den v v' total : v <= v' -> is_met num den v total = true -> is_met num den v' total = true.
Proof.
  unfold is_met. intros Hle H. apply N.leb_le in H. apply N.leb_le.
  eapply N.le_trans; [exact H|]. apply N.mul_le_mono_r. exact Hle.
Qed.

Ltac same_tail :=
  try (intros ? ?H1 ?H2; congruence); try (intros ?H; split; [lia | exact H]);
  try (intros ?Hn; exfalso; apply Hn; exact I).
Ltac split10 := refine (conj _ (conj _ (conj _ (conj _ (conj _ (conj _ (conj _ (conj _ (conj _ _))))))))).

Lemma counted_facts e ss vt : admitted ss vt ->
  let c := vote_counted e ss vt in
  (forall h, v_kind vt <> KNotar h -> aget 0 h (st_notar (ss_t c)) = aget 0 h (st_notar (ss_t ss))) /\
  (forall h, aget 0 h (st_notar (ss_t ss)) <= aget 0 h (st_notar (ss_t c))) /\
  (st_skip (ss_t ss) <= st_skip (ss_t c)) /\
  (v_kind vt <> KSkip -> st_skip (ss_t c) = st_skip (ss_t ss)) /\
  (own_unvotedb e c = true -> own_unvotedb e ss = true) /\
  (forall h, own_voted_otherb e ss h = true -> own_voted_otherb e c h = true) /\
  (forall h, own_voted_otherb e c h = true -> own_voted_otherb e ss h = false ->
             v_signer vt = own e /\ own_unvotedb e ss = true) /\
  (own_notarizedb e ss = true -> own_notarizedb e c = true) /\
  ((forall h, aget 0 h (st_notar (ss_t ss)) <= st_top (ss_t ss)) ->
   st_nos (ss_t ss) - st_top (ss_t ss) <= st_nos (ss_t c) - st_top (ss_t c)
   /\ forall h, aget 0 h (st_notar (ss_t c)) <= st_top (ss_t c)) /\
  (~ tries_s2s vt -> s2s_condb e c = s2s_condb e ss).
Proof.
  intros [Hsl Hig]. destruct vt as [s k v].
  unfold check_slashable in Hsl. unfold should_ignore in Hig. cbn [v_signer v_kind] in Hsl, Hig.
  unfold vote_counted, totals_after, store_vote, tries_s2s, own_unvotedb, own_voted_otherb, own_notarizedb, s2s_condb.
  cbn [v_signer v_kind ss_v ss_t with_v].
  destruct k as [h0|h0| | |]; cbn [vo_notar vo_skip st_notar st_skip st_nos st_top].
  - (* notar *)
    destruct (memN v (vo_skip (ss_v ss))) eqn:Sk; [discriminate|].
    destruct (alookup v (vo_notar (ss_v ss))) as [hh|] eqn:No; [discriminate|].
    assert (Hget : forall h, aget 0 h (ainsert h0 (aget 0 h0 (st_notar (ss_t ss)) + stake_of e v) (st_notar (ss_t ss)))
                             = if h =? h0 then aget 0 h0 (st_notar (ss_t ss)) + stake_of e v else aget 0 h (st_notar (ss_t ss))).
    { intros h. destruct (h =? h0) eqn:E.
      - apply N.eqb_eq in E. subst. apply aget_ainsert_same.
      - apply aget_ainsert_other. apply N.eqb_neq. exact E. }
    assert (Hown : alookup (own e) (ainsert v h0 (vo_notar (ss_v ss)))
                   = if own e =? v then Some h0 else alookup (own e) (vo_notar (ss_v ss))).
    { destruct (own e =? v) eqn:E.
      - apply N.eqb_eq in E. rewrite E. apply alookup_ainsert_same.
      - apply alookup_ainsert_other. apply N.eqb_neq. exact E. }
    rewrite Hown. split10.
    + intros h Hk. rewrite Hget. destruct (h =? h0) eqn:E; [|reflexivity].
      apply N.eqb_eq in E. subst. congruence.
    + intros h. rewrite Hget. destruct (h =? h0) eqn:E; [|lia]. apply N.eqb_eq in E. subst. lia.
    + lia.
    + reflexivity.
    + destruct (own e =? v); [rewrite andb_false_r; discriminate | auto].
    + intros h. destruct (own e =? v) eqn:E; [|auto]. apply N.eqb_eq in E. rewrite E, Sk, No. discriminate.
    + intros h H H0. destruct (own e =? v) eqn:E.
      * apply N.eqb_eq in E. split; [symmetry; exact E|]. rewrite E, Sk, No. reflexivity.
      * rewrite H0 in H. discriminate.
    + destruct (own e =? v); auto.
    + intros H. split.
      * specialize (H h0). lia.
      * intros h. rewrite Hget. specialize (H h). destruct (h =? h0); lia.
    + intros Hn. exfalso. apply Hn. exact I.
  - (* notar-fallback *)
    split10; auto; try lia; try congruence; same_tail.
  - (* skip *)
    destruct (memN v (vo_fin (ss_v ss))); [discriminate|].
    destruct (alookup v (vo_notar (ss_v ss))) as [hh|] eqn:No; [discriminate|].
    apply orb_false_elim in Hig. destruct Hig as [Sk _].
    assert (Hown : memN (own e) (v :: vo_skip (ss_v ss)) = (own e =? v) || memN (own e) (vo_skip (ss_v ss))) by reflexivity.
    rewrite Hown. split10.
    + reflexivity.
    + intros h. lia.
    + lia.
    + congruence.
    + destruct (own e =? v); cbn [orb negb andb]; [discriminate | auto].
    + intros h H. apply orb_prop in H. destruct H as [H|H]; [rewrite H; rewrite orb_true_r; reflexivity|].
      rewrite H. apply orb_true_r.
    + intros h H H0. destruct (own e =? v) eqn:E.
      * apply N.eqb_eq in E. split; [symmetry; exact E|]. rewrite E, Sk, No. reflexivity.
      * cbn [orb] in H. congruence.
    + auto.
    + intros H. split; [lia | exact H].
    + intros Hn. exfalso. apply Hn. exact I.
  - (* skip-fallback *)
    split10; auto; try lia; try congruence; same_tail.
  - (* final *)
    split10; auto; try lia; try congruence; same_tail.
Qed.

(* ---------- the invariant of one slot state ---------- *)
Definition slot_inv (e : epoch) (ss : slot_state) : Prop :=
  (forall h, needs_pendb e ss h = true -> posb ss h = true) /\
  (forall h, s2n_sentb ss h = s2n_condb e ss h) /\
  s2s_sent (ss_n ss) = s2s_condb e ss /\
  (forall h, aget 0 h (st_notar (ss_t ss)) <= st_top (ss_t ss)).

Lemma inv_close e s ss ss0 ss' new :
  slot_inv e ss ->
  s2n_pending (ss_n ss0) = s2n_pending (ss_n ss) -> s2n_sent (ss_n ss0) = s2n_sent (ss_n ss) ->
  s2s_sent (ss_n ss0) = s2s_sent (ss_n ss) ->
  (forall h, s2n_condb e ss h = true -> s2n_condb e ss0 h = true) ->
  (s2s_condb e ss = true -> s2s_condb e ss0 = true) ->
  (forall h, aget 0 h (st_notar (ss_t ss0)) <= st_top (ss_t ss0)) ->
  ext e s ss0 ss' new ->
  (forall h, s2n_condb e ss0 h = true -> s2n_sentb ss' h = true) ->
  (forall h, needs_pendb e ss0 h = true -> posb ss' h = true) ->
  (s2s_condb e ss0 = true -> s2s_sent (ss_n ss') = true) ->
  slot_inv e ss'.
Proof.
  intros (I1 & I2 & I3 & I4) Ep Es Ek Mc Ms Top X Gc Gp Gs.
  assert (Q := fun h => condb_ext e ss0 ss' h (ex_v _ _ _ _ _ X) (ex_t _ _ _ _ _ X) (ex_pa _ _ _ _ _ X)).
  assert (Qs := s2s_condb_ext e ss0 ss' (ex_v _ _ _ _ _ X) (ex_t _ _ _ _ _ X)).
  split; [|split; [|split]].
  - intros h. destruct (Q h) as [_ ->]. apply Gp.
  - intros h. destruct (Q h) as [-> _]. destruct (s2n_condb e ss0 h) eqn:C; [apply Gc; exact C|].
    destruct (s2n_sentb ss' h) eqn:S; [|reflexivity].
    destruct (ex_snd _ _ _ _ _ X h S) as [H|H]; [|congruence].
    unfold s2n_sentb in H. rewrite Es in H. fold (s2n_sentb ss h) in H. rewrite I2 in H. apply Mc in H. congruence.
  - rewrite Qs. destruct (s2s_condb e ss0) eqn:C; [apply Gs; reflexivity|].
    destruct (s2s_sent (ss_n ss')) eqn:S; [|reflexivity].
    destruct (ex_s2s_snd _ _ _ _ _ X S) as [H|H]; [|congruence].
    rewrite Ek, I3 in H. apply Ms in H. congruence.
  - intros h. rewrite (ex_t _ _ _ _ _ X). apply Top.
Qed.

Lemma kind_notar_dec k h : {k = KNotar h} + {k <> KNotar h}.
Proof.
  destruct k as [h0| | | |]; try (right; discriminate).
  destruct (N.eq_dec h0 h); [left; subst; reflexivity | right; congruence].
Qed.

Lemma other_hash_cases e ss vt h : admitted ss vt -> v_kind vt <> KNotar h ->
  s2n_condb e (vote_counted e ss vt) h = true ->
  s2n_condb e ss h = true \/ (needs_pendb e ss h = true /\ rechecks_all e vt).
Proof.
  intros Ha Hk. destruct (counted_facts e ss vt Ha) as (F1 & F2 & F3 & F4 & F5 & F6 & F7 & F8 & F9 & F10).
  specialize (F1 h Hk). specialize (F7 h).
  unfold s2n_condb, needs_pendb, s2n_stakeb, wqb, aqb, rechecks_all in *.
  change (parent_certb (vote_counted e ss vt) h) with (parent_certb ss h).
  rewrite F1. intros H.
  apply andb_prop in H. destruct H as [H HP]. apply andb_prop in H. destruct H as [HO H].
  apply andb_prop in H. destruct H as [HW HA]. rewrite HW, HP. cbn [andb].
  destruct (is_weak_quorum e (aget 0 h (st_notar (ss_t ss))) || is_quorum e (aget 0 h (st_notar (ss_t ss)) + st_skip (ss_t ss))) eqn:A.
  - destruct (own_voted_otherb e ss h) eqn:O; [left; reflexivity|].
    destruct (F7 HO eq_refl) as [Hv Hu]. right. rewrite Hu. split; [reflexivity | auto].
  - right. split; [reflexivity|].
    destruct (v_kind vt) eqn:K; auto; exfalso; rewrite F4 in HA by discriminate; congruence.
Qed.

Lemma other_hash_pend e ss vt h : admitted ss vt -> v_kind vt <> KNotar h ->
  needs_pendb e (vote_counted e ss vt) h = true -> needs_pendb e ss h = true.
Proof.
  intros Ha Hk. destruct (counted_facts e ss vt Ha) as (F1 & F2 & F3 & F4 & F5 & F6 & F7 & F8 & F9 & F10).
  specialize (F1 h Hk).
  unfold needs_pendb, wqb, aqb in *.
  change (parent_certb (vote_counted e ss vt) h) with (parent_certb ss h).
  rewrite F1. intros H. apply andb_prop in H. destruct H as [HW H]. rewrite HW. cbn [andb].
  destruct (is_weak_quorum e (aget 0 h (st_notar (ss_t ss))) || is_quorum e (aget 0 h (st_notar (ss_t ss)) + st_skip (ss_t ss))) eqn:A;
    [|reflexivity].
  cbn [negb orb].
  assert (A' : is_weak_quorum e (aget 0 h (st_notar (ss_t ss)))
               || is_quorum e (aget 0 h (st_notar (ss_t ss)) + st_skip (ss_t (vote_counted e ss vt))) = true).
  { apply orb_prop in A. destruct A as [A|A]; [rewrite A; reflexivity|].
    apply orb_true_iff. right. unfold is_quorum in *. eapply is_met_mono; [|exact A]. lia. }
  rewrite A' in H. cbn [negb orb] in H. apply andb_prop in H. destruct H as [HP HU].
  rewrite HP, (F5 HU). reflexivity.
Qed.

Lemma condb_mono_vote e ss vt h : admitted ss vt ->
  s2n_condb e ss h = true -> s2n_condb e (vote_counted e ss vt) h = true.
Proof.
  intros Ha. destruct (counted_facts e ss vt Ha) as (F1 & F2 & F3 & F4 & F5 & F6 & F7 & F8 & F9 & F10).
  unfold s2n_condb, s2n_stakeb. change (parent_certb (vote_counted e ss vt) h) with (parent_certb ss h).
  intros H. apply andb_prop in H. destruct H as [H HP]. apply andb_prop in H. destruct H as [HO H].
  apply andb_prop in H. destruct H as [HW HA]. rewrite HP, (F6 h HO). cbn [andb]. rewrite andb_true_r.
  specialize (F2 h). apply andb_true_intro. split.
  - unfold is_weakest_quorum in *. eapply is_met_mono; eassumption.
  - apply orb_prop in HA. apply orb_true_iff. destruct HA as [A|A]; [left|right].
    + unfold is_weak_quorum in *. eapply is_met_mono; eassumption.
    + unfold is_quorum in *. eapply is_met_mono; [|exact A]. lia.
Qed.

Theorem vote_inv : forall e ss vt,
  slot_inv e ss -> admitted ss vt -> slot_inv e (fst (ss_add_vote e ss vt)).
Proof.
  intros e ss vt Hinv Ha. destruct (ss_add_vote e ss vt) as [ss' out] eqn:E. cbn [fst].
  destruct (add_vote_chain _ _ _ _ _ E) as (X & Y & Z & W). cbv zeta in *.
  destruct (counted_facts e ss vt Ha) as (F1 & F2 & F3 & F4 & F5 & F6 & F7 & F8 & F9 & F10).
  assert (Hinv' := Hinv). destruct Hinv' as (I1 & I2 & I3 & I4).
  destruct (F9 I4) as [F9a F9b].
  apply (inv_close e (v_slot vt) ss (vote_counted e ss vt) ss' (o_events out)); try reflexivity; auto.
  - intros h. apply condb_mono_vote. exact Ha.
  - unfold s2s_condb. intros H. apply andb_prop in H. destruct H as [H1 H2].
    rewrite (F8 H1). cbn [andb]. unfold is_weak_quorum in *. eapply is_met_mono; eassumption.
  - intros h Hc. destruct (kind_notar_dec (v_kind vt) h) as [K|K].
    + apply (Y h K). exact Hc.
    + destruct (other_hash_cases e ss vt h Ha K Hc) as [H|[H R]].
      * apply (ex_sent _ _ _ _ _ X). change (s2n_sentb (vote_counted e ss vt) h) with (s2n_sentb ss h).
        rewrite I2. exact H.
      * apply Z; auto.
  - intros h Hp. destruct (kind_notar_dec (v_kind vt) h) as [K|K].
    + apply (Y h K). exact Hp.
    + apply (ex_pos _ _ _ _ _ X). change (posb (vote_counted e ss vt) h) with (posb ss h).
      apply I1. eapply other_hash_pend; eassumption.
  - intros Hc. assert (D : tries_s2s vt \/ ~ tries_s2s vt) by (unfold tries_s2s; destruct (v_kind vt); auto).
    destruct D as [D|D]; [apply W; assumption|].
    apply (ex_s2s _ _ _ _ _ X). change (s2s_sent (ss_n (vote_counted e ss vt))) with (s2s_sent (ss_n ss)).
    rewrite I3, <- (F10 D). exact Hc.
Qed.

(* ---------- the other operations on a slot state ---------- *)
Lemma slot_inv_ext e ss ss' : ss_v ss' = ss_v ss -> ss_t ss' = ss_t ss -> ss_n ss' = ss_n ss ->
  slot_inv e ss -> slot_inv e ss'.
Proof.
  intros Ev Et En (I1 & I2 & I3 & I4).
  assert (Ep : pa_status (ss_n ss') = pa_status (ss_n ss)) by (rewrite En; reflexivity).
  assert (Q := fun h => condb_ext e ss ss' h Ev Et Ep). assert (Qs := s2s_condb_ext e ss ss' Ev Et).
  unfold slot_inv, posb, pendb, s2n_sentb in *. rewrite En, Qs, Et.
  split; [|split; [|split]]; auto.
  - intros h. destruct (Q h) as [_ ->]. apply I1.
  - intros h. destruct (Q h) as [-> _]. apply I2.
Qed.

Lemma add_cert_n ss c : ss_n (ss_add_cert ss c) = ss_n ss.
Proof. unfold ss_add_cert. destruct (c_kind c) as [h|h| |h|]; try reflexivity. destruct (is_notar_fallback ss h); reflexivity. Qed.

Theorem cert_inv : forall e ss c, slot_inv e ss -> slot_inv e (ss_add_cert ss c).
Proof.
  intros e ss c. destruct (add_cert_frame ss c) as [A B]. apply slot_inv_ext; auto. apply add_cert_n.
Qed.

(* changing the status of block h's parent (never away from "certified") *)
Lemma set_parents_inv e s ss pa' h ss' new :
  slot_inv e ss ->
  (forall x, x <> h -> alookup x pa' = alookup x (pa_status (ss_n ss))) ->
  (parent_certb ss h = true -> alookup h pa' = Some true) ->
  ext e s (set_parents ss pa') ss' new ->
  (s2n_condb e (set_parents ss pa') h = true -> s2n_sentb ss' h = true) ->
  (needs_pendb e (set_parents ss pa') h = true -> posb ss' h = true) ->
  slot_inv e ss'.
Proof.
  intros Hinv Hoth Hh X Gc Gp. assert (Hinv' := Hinv). destruct Hinv' as (I1 & I2 & I3 & I4).
  assert (P : forall x, x <> h -> parent_certb (set_parents ss pa') x = parent_certb ss x).
  { intros x Hx. unfold parent_certb, set_parents. cbn [ss_n with_n pa_status]. rewrite (Hoth x Hx). reflexivity. }
  assert (C : forall x, x <> h -> s2n_condb e (set_parents ss pa') x = s2n_condb e ss x
                                  /\ needs_pendb e (set_parents ss pa') x = needs_pendb e ss x).
  { intros x Hx. unfold s2n_condb, needs_pendb. rewrite (P x Hx). split; reflexivity. }
  apply (inv_close e s ss (set_parents ss pa') ss' new); try reflexivity; auto.
  - intros x Hc. destruct (N.eq_dec x h) as [->|Hx]; [|destruct (C x Hx) as [-> _]; exact Hc].
    unfold s2n_condb in *. apply andb_prop in Hc. destruct Hc as [Hc HP].
    change (own_voted_otherb e (set_parents ss pa') h) with (own_voted_otherb e ss h).
    change (s2n_stakeb e (set_parents ss pa') h) with (s2n_stakeb e ss h). rewrite Hc. cbn [andb].
    unfold parent_certb, set_parents. cbn [ss_n with_n pa_status]. rewrite (Hh HP). reflexivity.
  - intros x Hc. destruct (N.eq_dec x h) as [->|Hx]; [auto|].
    apply (ex_sent _ _ _ _ _ X). destruct (C x Hx) as [Q _]. rewrite Q in Hc.
    change (s2n_sentb (set_parents ss pa') x) with (s2n_sentb ss x). rewrite I2. exact Hc.
  - intros x Hp. destruct (N.eq_dec x h) as [->|Hx]; [auto|].
    apply (ex_pos _ _ _ _ _ X). destruct (C x Hx) as [_ Q]. rewrite Q in Hp.
    change (posb (set_parents ss pa') x) with (posb ss x). auto.
  - intros Hc. apply (ex_s2s _ _ _ _ _ X). change (s2s_sent (ss_n (set_parents ss pa'))) with (s2s_sent (ss_n ss)).
    rewrite I3. exact Hc.
Qed.

Theorem known_inv : forall e ss h, slot_inv e ss -> slot_inv e (notify_parent_known ss h).
Proof.
  intros e ss h Hinv. unfold notify_parent_known.
  destruct (alookup h (pa_status (ss_n ss))) eqn:L; [exact Hinv|].
  assert (Pf : parent_certb (set_parents ss (ainsert h false (pa_status (ss_n ss)))) h = false).
  { unfold parent_certb, set_parents. cbn [ss_n with_n pa_status]. rewrite alookup_ainsert_same. reflexivity. }
  apply (set_parents_inv e 0 ss (ainsert h false (pa_status (ss_n ss))) h _ []); auto.
  - intros x Hx. apply alookup_ainsert_other. exact Hx.
  - unfold parent_certb. rewrite L. discriminate.
  - apply ext_refl.
  - unfold s2n_condb. rewrite Pf, andb_false_r. discriminate.
  - unfold needs_pendb. rewrite Pf. cbn [andb]. rewrite orb_false_r.
    change (wqb e (set_parents ss (ainsert h false (pa_status (ss_n ss)))) h) with (wqb e ss h).
    change (aqb e (set_parents ss (ainsert h false (pa_status (ss_n ss)))) h) with (aqb e ss h).
    intros H. change (posb (set_parents ss (ainsert h false (pa_status (ss_n ss)))) h) with (posb ss h).
    destruct Hinv as (I1 & _). apply I1. unfold needs_pendb.
    apply andb_prop in H. destruct H as [H1 H2]. rewrite H1, H2. reflexivity.
Qed.

Theorem certified_inv : forall e s ss h r,
  slot_inv e ss -> notify_parent_certified e s ss h = Some r -> slot_inv e (fst (fst r)).
Proof.
  intros e s ss h [[ss' evs] rps] Hinv H. unfold notify_parent_certified in H.
  destruct (alookup h (pa_status (ss_n ss))) eqn:L; [|discriminate]. injection H as H. cbn [fst].
  destruct (s2n_try_ext _ _ _ _ _ _ _ H) as (X & Y & Z).
  apply (set_parents_inv e s ss (ainsert h true (pa_status (ss_n ss))) h ss' evs); auto.
  - intros x Hx. apply alookup_ainsert_other. exact Hx.
  - intros _. apply alookup_ainsert_same.
Qed.

Lemma weakest_zero e : is_weakest_quorum e 0 = true -> is_weak_quorum e 0 = true.
Proof.
  unfold is_weakest_quorum, is_weak_quorum, is_met. intros H. apply N.leb_le in H. apply N.leb_le.
  assert (0 < WEAKEST_QUORUM_NUM) by (vm_compute; reflexivity). nia.
Qed.

Lemma empty_inv e : slot_inv e ss_empty.
Proof.
  split; [|split; [|split]].
  - intros h. unfold needs_pendb, wqb, aqb, parent_certb. cbn.
    change (aget 0 h []) with 0.
    destruct (is_weakest_quorum e 0) eqn:W; [|discriminate].
    rewrite (weakest_zero e W). discriminate.
  - intros h. unfold s2n_condb, parent_certb, s2n_sentb, memN.
    cbn [ss_empty ss_n pa_status alookup s2n_sent existsb]. rewrite andb_false_r. reflexivity.
  - reflexivity.
  - intros h. cbn. change (aget 0 h []) with 0. lia.
Qed.

(* INVARIANT: in every reachable slot state the sent-flags equal the conditions of the property *)
Theorem reach_slot_inv : forall e ss, ss_reach e ss -> slot_inv e ss.
Proof.
  intros e ss H. induction H as [|ss vt H IH Ha|ss c H IH|ss h H IH|ss s h r H IH E].
  - apply empty_inv.
  - apply vote_inv; assumption.
  - apply cert_inv; assumption.
  - apply known_inv; assumption.
  - eapply certified_inv; eassumption.
Qed.

(* ---------- events are raised exactly when a sent-flag flips ---------- *)
Record flips (s : slot) (ss ss' : slot_state) (evs : list pevent) : Prop := mkFlips {
  fl_sent : forall x, s2n_sentb ss x = true -> s2n_sentb ss' x = true;
  fl_s2s : s2s_sent (ss_n ss) = true -> s2s_sent (ss_n ss') = true;
  fl_n : forall b, ev_count (is_s2n b) evs
                   = b2n ((fst b =? s) && s2n_sentb ss' (snd b) && negb (s2n_sentb ss (snd b)));
  fl_s : forall s', ev_count (is_s2s s') evs
                    = b2n ((s' =? s) && s2s_sent (ss_n ss') && negb (s2s_sent (ss_n ss)));
  fl_kinds : Forall ev_kind_ok evs }.

Lemma ext_flips e s ss ss0 ss' evs :
  s2n_sent (ss_n ss0) = s2n_sent (ss_n ss) -> s2s_sent (ss_n ss0) = s2s_sent (ss_n ss) ->
  ext e s ss0 ss' evs -> flips s ss ss' evs.
Proof.
  intros E1 E2 X. destruct X. unfold s2n_sentb in *. rewrite E1, E2 in *.
  constructor; auto.
Qed.

Lemma flips_same s ss ss' : s2n_sent (ss_n ss') = s2n_sent (ss_n ss) -> s2s_sent (ss_n ss') = s2s_sent (ss_n ss) ->
  flips s ss ss' [].
Proof.
  intros E1 E2. constructor; unfold s2n_sentb; rewrite ?E1, ?E2; auto.
  - intros b. rewrite flip_same. reflexivity.
  - intros s'. rewrite flip_same. reflexivity.
Qed.

Lemma flips_trans s a b c n1 n2 : flips s a b n1 -> flips s b c n2 -> flips s a c (n1 ++ n2).
Proof.
  intros H1 H2. destruct H1, H2. constructor; auto.
  - intros x. rewrite ev_count_app, fl_n0, fl_n1.
    specialize (fl_sent0 (snd x)). specialize (fl_sent1 (snd x)).
    destruct (fst x =? s); cbn [andb]; [|reflexivity].
    destruct (s2n_sentb a (snd x)); destruct (s2n_sentb b (snd x)); destruct (s2n_sentb c (snd x));
      cbn; try reflexivity; try (specialize (fl_sent0 eq_refl)); try (specialize (fl_sent1 eq_refl)); discriminate.
  - intros x. rewrite ev_count_app, fl_s0, fl_s1.
    destruct (x =? s); cbn [andb]; [|reflexivity].
    destruct (s2s_sent (ss_n a)); destruct (s2s_sent (ss_n b)); destruct (s2s_sent (ss_n c));
      cbn; try reflexivity; try (specialize (fl_s2s0 eq_refl)); try (specialize (fl_s2s1 eq_refl)); discriminate.
  - apply Forall_app. split; assumption.
Qed.

Lemma admittedb_true ss vt : admittedb ss vt = true <-> admitted ss vt.
Proof.
  unfold admittedb, admitted. destruct (check_slashable ss vt); split.
  - discriminate.
  - intros [H _]. discriminate.
  - intros H. split; [reflexivity|]. destruct (should_ignore ss vt); [discriminate | reflexivity].
  - intros [_ H]. rewrite H. reflexivity.
Qed.

Lemma apply_flips e s ss op ss' evs :
  ss_op_ok s ss op = true -> ss_apply e s ss op = (ss', evs) -> flips s ss ss' evs.
Proof.
  intros Hok H. destruct op as [vt|c|h|h]; cbn [ss_apply ss_op_ok] in *.
  - apply andb_prop in Hok. destruct Hok as [Hs _]. apply N.eqb_eq in Hs. subst s.
    destruct (ss_add_vote e ss vt) as [ss1 out] eqn:E. injection H as <- <-.
    destruct (add_vote_chain _ _ _ _ _ E) as (X & _).
    apply (ext_flips e _ ss (vote_counted e ss vt)); [reflexivity | reflexivity | exact X].
  - injection H as <- <-. apply flips_same; rewrite add_cert_n; reflexivity.
  - injection H as <- <-. unfold notify_parent_known.
    destruct (alookup h (pa_status (ss_n ss))); apply flips_same; reflexivity.
  - unfold notify_parent_certified in H. destruct (alookup h (pa_status (ss_n ss))) eqn:L; [|discriminate].
    destruct (s2n_try e s (set_parents ss (ainsert h true (pa_status (ss_n ss)))) h) as [[ss1 ev1] rp1] eqn:E.
    injection H as <- <-. destruct (s2n_try_ext _ _ _ _ _ _ _ E) as (X & _).
    apply (ext_flips e s ss (set_parents ss (ainsert h true (pa_status (ss_n ss))))); [reflexivity | reflexivity | exact X].
Qed.

Lemma apply_reach e s ss op :
  ss_reach e ss -> ss_op_ok s ss op = true -> ss_reach e (fst (ss_apply e s ss op)).
Proof.
  intros Hr Hok. destruct op as [vt|c|h|h]; cbn [ss_apply ss_op_ok] in *.
  - apply andb_prop in Hok. destruct Hok as [_ Ha]. apply admittedb_true in Ha.
    assert (R := reach_vote e ss vt Hr Ha). destruct (ss_add_vote e ss vt) as [ss1 out]. exact R.
  - apply reach_cert. exact Hr.
  - apply reach_known. exact Hr.
  - destruct (notify_parent_certified e s ss h) as [[[ss1 ev1] rp1]|] eqn:E; [|exact Hr].
    apply (reach_certified e ss s h _ Hr E).
Qed.

(* EXACTLY WHEN: an operation on a reachable slot state raises SafeToNotar(s, h) iff it makes the
   condition of h true (it was false before and is true after), and then exactly once; likewise
   SafeToSkip(s); nothing is raised for another slot *)
Theorem step_exact : forall e s ss op ss' evs,
  ss_reach e ss -> ss_op_ok s ss op = true -> ss_apply e s ss op = (ss', evs) ->
  (forall b, ev_count (is_s2n b) evs
             = b2n ((fst b =? s) && s2n_condb e ss' (snd b) && negb (s2n_condb e ss (snd b)))) /\
  (forall s', ev_count (is_s2s s') evs
              = b2n ((s' =? s) && s2s_condb e ss' && negb (s2s_condb e ss))) /\
  Forall ev_kind_ok evs.
Proof.
  intros e s ss op ss' evs Hr Hok H.
  assert (Hr' : ss_reach e ss') by (assert (R := apply_reach e s ss op Hr Hok); rewrite H in R; exact R).
  destruct (reach_slot_inv e ss Hr) as (_ & I2 & I3 & _).
  destruct (reach_slot_inv e ss' Hr') as (_ & J2 & J3 & _).
  destruct (apply_flips e s ss op ss' evs Hok H) as [_ _ Fn Fs Fk].
  split; [|split]; [| |exact Fk].
  - intros b. rewrite Fn, I2, J2. reflexivity.
  - intros s'. rewrite Fs, I3, J3. reflexivity.
Qed.

(* whole histories of one slot: after any sequence of operations from the empty state, SafeToNotar(s, h)
   has been raised exactly once if the condition of h holds now, and never otherwise *)
Lemma run_flips e s : forall ops ss ss' evs,
  ss_reach e ss -> ss_run e s ss ops = Some (ss', evs) -> ss_reach e ss' /\ flips s ss ss' evs.
Proof.
  induction ops as [|op ops IH]; intros ss ss' evs Hr H; cbn [ss_run] in H.
  - injection H as <- <-. split; [exact Hr | apply flips_same; reflexivity].
  - destruct (ss_op_ok s ss op) eqn:Hok; [|discriminate].
    destruct (ss_apply e s ss op) as [ss1 ev1] eqn:E1.
    destruct (ss_run e s ss1 ops) as [[ss2 ev2]|] eqn:E2; [|discriminate]. injection H as <- <-.
    assert (Hr1 : ss_reach e ss1) by (assert (R := apply_reach e s ss op Hr Hok); rewrite E1 in R; exact R).
    destruct (IH _ _ _ Hr1 E2) as [Hr2 F2]. split; [exact Hr2|].
    eapply flips_trans; [apply (apply_flips e s ss op ss1 ev1 Hok E1) | exact F2].
Qed.

Theorem run_exact : forall e s ops ss evs,
  ss_run e s ss_empty ops = Some (ss, evs) ->
  (forall h, ev_count (is_s2n (s, h)) evs = b2n (s2n_condb e ss h)) /\
  ev_count (is_s2s s) evs = b2n (s2s_condb e ss) /\
  (forall b, fst b <> s -> ev_count (is_s2n b) evs = O) /\
  (forall s', s' <> s -> ev_count (is_s2s s') evs = O) /\
  Forall ev_kind_ok evs.
Proof.
  intros e s ops ss evs H.
  destruct (run_flips e s ops ss_empty ss evs (reach_empty e) H) as [Hr [_ _ Fn Fs Fk]].
  destruct (reach_slot_inv e ss Hr) as (_ & I2 & I3 & _).
  split; [|split; [|split; [|split]]]; [| | | |exact Fk].
  - intros h. rewrite Fn. cbn [fst snd]. rewrite N.eqb_refl, I2. cbn [andb].
    change (s2n_sentb ss_empty h) with false. cbn [negb]. rewrite andb_true_r. reflexivity.
  - rewrite Fs, N.eqb_refl, I3. cbn [andb]. change (s2s_sent (ss_n ss_empty)) with false. cbn [negb].
    rewrite andb_true_r. reflexivity.
  - intros b Hb. rewrite Fn. apply N.eqb_neq in Hb. rewrite Hb. reflexivity.
  - intros s' Hs. rewrite Fs. apply N.eqb_neq in Hs. rewrite Hs. reflexivity.
Qed.

(* the stake figures of the condition are the stake of the distinct validators with stored votes *)
Theorem condb_on_votes : forall e ss h, ss_reach e ss -> s2n_condb e ss h = s2n_cond_votesb e ss h.
Proof.
  intros e ss h Hr. destruct (reach_invariants e ss Hr) as [(T1 & _ & T3 & _) _].
  unfold s2n_condb, s2n_cond_votesb, s2n_stakeb, s2n_stake_votesb. rewrite T1, T3. reflexivity.
Qed.

(* ---------- the two figures of safe-to-skip are figures of the stored votes ---------- *)
Definition nt_inv (e : epoch) (ss : slot_state) : Prop :=
  st_nos (ss_t ss) = stake_sum e (nos_voters e ss) /\
  exists h, st_top (ss_t ss) = aget 0 h (st_notar (ss_t ss)).

Lemma nt_inv_ext e ss ss' : ss_v ss' = ss_v ss -> ss_t ss' = ss_t ss -> nt_inv e ss -> nt_inv e ss'.
Proof. intros Ev Et. unfold nt_inv, nos_voters. rewrite Ev, Et. auto. Qed.

Lemma vote_nt_inv e ss vt : admitted ss vt -> nt_inv e ss -> nt_inv e (fst (ss_add_vote e ss vt)).
Proof.
  intros Ha [N1 [hw N2]].
  apply (nt_inv_ext e (vote_counted e ss vt)).
  { apply (add_vote_stores true). }
  { apply (add_vote_totals true). }
  destruct Ha as [Hsl Hig]. destruct vt as [s k v].
  unfold check_slashable in Hsl. unfold should_ignore in Hig. cbn [v_signer v_kind] in Hsl, Hig.
  unfold nt_inv, nos_voters, vote_counted, totals_after, store_vote.
  cbn [v_signer v_kind ss_v ss_t with_v].
  destruct k as [h0|h0| | |]; cbn [vo_notar vo_skip st_notar st_nos st_top].
  - destruct (memN v (vo_skip (ss_v ss))) eqn:Sk; [discriminate|].
    destruct (alookup v (vo_notar (ss_v ss))) as [hh|] eqn:No; [discriminate|]. split.
    + rewrite N1. symmetry. apply sum_filter_add.
      * intros u Hu. rewrite alookup_ainsert_other by exact Hu. reflexivity.
      * rewrite Sk, No. reflexivity.
      * rewrite alookup_ainsert_same. apply orb_true_r.
    + destruct (N.max_spec (aget 0 h0 (st_notar (ss_t ss)) + stake_of e v) (st_top (ss_t ss))) as [[Hlt ->]|[Hle ->]].
      * destruct (N.eq_dec hw h0) as [->|Hne].
        -- exfalso. lia.
        -- exists hw. rewrite aget_ainsert_other by exact Hne. exact N2.
      * exists h0. rewrite aget_ainsert_same. reflexivity.
  - split; [exact N1 | exists hw; exact N2].
  - destruct (memN v (vo_fin (ss_v ss))); [discriminate|].
    destruct (alookup v (vo_notar (ss_v ss))) as [hh|] eqn:No; [discriminate|].
    apply orb_false_elim in Hig. destruct Hig as [Sk _]. split; [|exists hw; exact N2].
    rewrite N1. symmetry. apply sum_filter_add.
    + intros u Hu. unfold memN. cbn [existsb]. assert ((u =? v) = false) by (apply N.eqb_neq; exact Hu).
      rewrite H. reflexivity.
    + rewrite Sk, No. reflexivity.
    + unfold memN. cbn [existsb]. rewrite N.eqb_refl. reflexivity.
  - split; [exact N1 | exists hw; exact N2].
  - split; [exact N1 | exists hw; exact N2].
Qed.

Lemma reach_nt_inv e ss : ss_reach e ss -> nt_inv e ss.
Proof.
  intros H. induction H as [|ss vt H IH Ha|ss c H IH|ss h H IH|ss s h r H IH E].
  - split; [|exists 0; reflexivity]. unfold nos_voters. cbn.
    induction (vals e) as [|a l IHl]; [reflexivity | exact IHl].
  - apply vote_nt_inv; assumption.
  - destruct (add_cert_frame ss c) as [A B]. apply (nt_inv_ext e ss); auto.
  - destruct (known_frame ss h) as [A B]. apply (nt_inv_ext e ss); auto.
  - destruct (certified_frame e s ss h r E) as [A B]. apply (nt_inv_ext e ss); auto.
Qed.

(* in every reachable slot state: notar-or-skip stake = stake of the validators holding a skip or a notar
   vote, top = the stake of the most-voted block *)
Theorem reach_nos_top : forall e ss, ss_reach e ss -> nos_top_ok e ss.
Proof.
  intros e ss Hr. destruct (reach_nt_inv e ss Hr) as [N1 [hw N2]].
  destruct (reach_invariants e ss Hr) as [(T1 & _) _].
  destruct (reach_slot_inv e ss Hr) as (_ & _ & _ & I4).
  split; [exact N1|]. split.
  - intros h. rewrite <- T1. apply I4.
  - exists hw. rewrite <- T1. exact N2.
Qed.

(* the decidable condition is the condition of the soundness theorems (SafeToProofs.s2n_conditions) *)
Lemma condb_iff_conditions e ss h : s2n_condb e ss h = true <-> s2n_conditions e ss h.
Proof.
  unfold s2n_condb, s2n_conditions, own_voted_otherb, own_voted_other, s2n_stakeb, s2n_stake_cond, parent_certb.
  cbv zeta. split.
  - intros H. apply andb_prop in H. destruct H as [H HP]. apply andb_prop in H. destruct H as [HO HS].
    apply andb_prop in HS. destruct HS as [HW HA]. split; [|split].
    + apply orb_prop in HO. destruct HO as [HO|HO]; [left; exact HO|]. right.
      destruct (alookup (own e) (vo_notar (ss_v ss))) as [h'|]; [|discriminate].
      exists h'. split; [reflexivity|]. apply N.eqb_neq. apply negb_true_iff. exact HO.
    + split; [exact HW|]. apply orb_prop in HA. exact HA.
    + destruct (alookup h (pa_status (ss_n ss))) as [[|]|]; try discriminate. reflexivity.
  - intros (HO & (HW & HA) & HP). rewrite HW, HP. cbn [andb]. rewrite andb_true_r.
    apply andb_true_intro. split.
    + destruct HO as [HO|[h' [E Hne]]]; [rewrite HO; reflexivity|]. rewrite E.
      apply orb_true_iff. right. apply negb_true_iff. apply N.eqb_neq. exact Hne.
    + destruct HA as [HA|HA]; rewrite HA; [reflexivity | apply orb_true_r].
Qed.

Theorem slot_flags_are_conditions : forall e ss, ss_reach e ss ->
  (forall h, s2n_sentb ss h = s2n_condb e ss h) /\ s2s_sent (ss_n ss) = s2s_condb e ss.
Proof.
  intros e ss H. destruct (reach_slot_inv e ss H) as (_ & I2 & I3 & _). split; assumption.
Qed.
