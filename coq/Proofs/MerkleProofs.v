(* Proofs about Model/Merkle.v: structure of the bottom-up tree (node_step),
   completeness and soundness of proof verification, last-leaf variant. *)
From Coq Require Import List NArith ZArith Bool Lia Arith PeanoNat ZifyBool ZifyNat ZifyN.
From AG Require Import Model.Merkle.
Import ListNotations.

Ltac Zify.zify_post_hook ::= Z.div_mod_to_equations.

Lemma div2_odd : forall k, N.div2 (2 * k + 1) = k.
Proof. intros k. rewrite N.div2_div. lia. Qed.
Lemma div2_even : forall k, N.div2 (2 * k) = k.
Proof. intros k. rewrite N.div2_div. lia. Qed.

Section MerkleProofs.
  Context {H : Type} {leafT : Type}.
  Variable hash_leaf : leafT -> H.
  Variable hash_pair : H -> H -> H.
  Variable empty_leaf : leafT.
  Variable H_eqb : H -> H -> bool.
  Variable max_height : nat.
  Hypothesis H_eqb_spec : forall a b, H_eqb a b = true <-> a = b.

  Notation empty0 := (hash_leaf empty_leaf).
  Notation er := (empty_root hash_pair empty0).
  Notation pair_up := (pair_up hash_pair empty0).
  Notation build_levels := (build_levels hash_pair empty0).
  Notation levels := (levels hash_pair empty0).
  Notation node := (node hash_pair empty0).
  Notation proof_from := (proof_from hash_pair empty0).
  Notation create_proof := (create_proof hash_pair empty0).
  Notation derive := (derive hash_pair).
  Notation derive_last := (derive_last hash_pair empty0 H_eqb).
  Notation check := (check hash_pair H_eqb max_height).
  Notation check_pinned := (check_pinned hash_pair H_eqb max_height).
  Notation check_last := (check_last hash_pair empty0 H_eqb max_height).
  Notation root := (root empty0).

  (* What an adversary would have to exhibit to defeat the tree: *)
  Definition PairCollision : Prop :=
    exists a b c d, (a <> c \/ b <> d) /\ hash_pair a b = hash_pair c d.
  Definition LabelConfusion : Prop :=
    exists a b d, hash_pair a b = hash_leaf d.
  Definition LeafCollision : Prop :=
    exists d d', d <> d' /\ hash_leaf d = hash_leaf d'.
  Definition Collision : Prop := PairCollision \/ LabelConfusion.

  Lemma H_eq_dec : forall a b : H, a = b \/ a <> b.
  Proof.
    intros a b. destruct (H_eqb a b) eqn:E.
    - left. apply H_eqb_spec. exact E.
    - right. intro Hab. apply H_eqb_spec in Hab. congruence.
  Qed.

  Lemma pair_inj : forall a b c d, hash_pair a b = hash_pair c d ->
    PairCollision \/ (a = c /\ b = d).
  Proof.
    intros a b c d E. destruct (H_eq_dec a c) as [Hac|Hac]; destruct (H_eq_dec b d) as [Hbd|Hbd];
      try (right; split; assumption);
      left; exists a, b, c, d; split; auto.
  Qed.

  (* ---------- one level ---------- *)

  Lemma pair_ind (P : list H -> Prop) :
    P [] -> (forall x, P [x]) -> (forall x y t, P t -> P (x :: y :: t)) -> forall l, P l.
  Proof.
    intros P0 P1 P2.
    assert (G : forall n l, length l <= n -> P l).
    { induction n as [|n IH]; intros l Hl.
      - destruct l; [exact P0| simpl in Hl; lia].
      - destruct l as [|x [|y t]]; [exact P0 | apply P1 |].
        apply P2. apply IH. simpl in Hl. lia. }
    intros l. apply (G (length l)). lia.
  Qed.

  Lemma nth_nil' : forall (A : Type) n (d : A), nth n [] d = d.
  Proof. intros A n d. destruct n; reflexivity. Qed.

  Lemma nth_S' : forall (A : Type) n (a : A) l d, nth (S n) (a :: l) d = nth n l d.
  Proof. reflexivity. Qed.

  Lemma pair_up_nth : forall h l m,
    nth m (pair_up h l) (er (S h)) =
    hash_pair (nth (2 * m) l (er h)) (nth (2 * m + 1) l (er h)).
  Proof.
    intros h l. induction l as [| x | x y t IH] using pair_ind; intros m.
    - cbn [Merkle.pair_up]. rewrite !nth_nil'. reflexivity.
    - cbn [Merkle.pair_up]. destruct m as [|m].
      + reflexivity.
      + replace (2 * S m) with (S (S (2 * m))) by lia.
        replace (S (S (2 * m)) + 1) with (S (S (2 * m + 1))) by lia.
        rewrite !nth_S', !nth_nil'. reflexivity.
    - cbn [Merkle.pair_up]. destruct m as [|m].
      + reflexivity.
      + replace (2 * S m) with (S (S (2 * m))) by lia.
        replace (S (S (2 * m)) + 1) with (S (S (2 * m + 1))) by lia.
        rewrite !nth_S'. apply IH.
  Qed.

  Lemma pair_up_length : forall h l, length (pair_up h l) = (length l + 1) / 2.
  Proof.
    intros h l. induction l as [| x | x y t IH] using pair_ind.
    - reflexivity.
    - reflexivity.
    - cbn [Merkle.pair_up length]. rewrite IH.
      replace (S (S (length t)) + 1) with (length t + 1 + 1 * 2) by lia.
      rewrite Nat.div_add by lia. lia.
  Qed.

  (* ---------- structure of the level list ---------- *)

  Lemma nth_last' : forall (A : Type) (l : list A) d, nth (length l - 1) l d = last l d.
  Proof.
    intros A l d. induction l as [|a l IH]; [reflexivity|].
    destruct l as [|b l]; [reflexivity|].
    cbn [length]. replace (S (S (length l)) - 1) with (S (length (b :: l) - 1)) by (cbn; lia).
    rewrite nth_S'. rewrite IH. reflexivity.
  Qed.

  Lemma half_le : forall n, 2 <= n -> (n + 1) / 2 <= n - 1.
  Proof.
    intros n Hn. assert ((n + 1) / 2 < n); [|lia].
    apply Nat.div_lt_upper_bound; lia.
  Qed.

  Lemma build_levels_nonempty : forall f h l, build_levels f h l <> [].
  Proof.
    intros f h l. destruct f; cbn; [discriminate|].
    destruct l as [|x [|y t]]; discriminate.
  Qed.

  Lemma build_levels_step : forall f h l k,
    length l <= S f ->
    S k < length (build_levels f h l) ->
    nth (S k) (build_levels f h l) [] = pair_up (h + k) (nth k (build_levels f h l) []).
  Proof.
    induction f as [|f IH]; intros h l k Hf Hk.
    - cbn in Hk. lia.
    - cbn [Merkle.build_levels] in *. destruct l as [|x [|y t]].
      + cbn in Hk. lia.
      + cbn in Hk. lia.
      + cbn [length] in Hk. destruct k as [|k].
        * cbn [nth]. rewrite Nat.add_0_r.
          destruct f; cbn [Merkle.build_levels].
          -- reflexivity.
          -- destruct (pair_up h (x :: y :: t)) as [|a [|b u]] eqn:E; reflexivity.
        * cbn [nth]. replace (h + S k) with (S h + k) by lia.
          apply IH.
          -- rewrite pair_up_length. cbn [length] in *.
             assert (A := half_le).
             specialize (A (S (S (length t)))). lia.
          -- lia.
  Qed.

  Lemma build_levels_last : forall f h l,
    l <> [] -> length l <= S f ->
    exists r, last (build_levels f h l) [] = [r].
  Proof.
    induction f as [|f IH]; intros h l Hne Hf.
    - destruct l as [|x [|y t]]; [congruence | exists x; reflexivity | cbn in Hf; lia].
    - cbn [Merkle.build_levels]. destruct l as [|x [|y t]]; [congruence | exists x; reflexivity |].
      destruct (IH (S h) (pair_up h (x :: y :: t))) as [r Hr].
      + cbn. discriminate.
      + rewrite pair_up_length. cbn [length] in *.
        assert (A := half_le).
        specialize (A (S (S (length t)))). lia.
      + exists r.
        assert (Hb := build_levels_nonempty f (S h) (pair_up h (x :: y :: t))).
        destruct (build_levels f (S h) (pair_up h (x :: y :: t))) eqn:E; [congruence|].
        exact Hr.
  Qed.

  Lemma build_levels_hd : forall f h l, nth 0 (build_levels f h l) [] = l.
  Proof.
    intros f h l. destruct f; cbn; [reflexivity|]. destruct l as [|x [|y t]]; reflexivity.
  Qed.

  Lemma proof_from_cons2 : forall l b u h i,
    proof_from (l :: b :: u) h i =
    nth (N.to_nat (sib i)) l (er h) :: proof_from (b :: u) (S h) (N.div2 i).
  Proof. reflexivity. Qed.

  Section Tree.
    Variable leaves : list H.
    Hypothesis leaves_nonempty : leaves <> [].
    Let lv := levels leaves.
    Let ht := height lv.

    Lemma lv_length : length lv = S ht.
    Proof.
      unfold ht, height. assert (lv <> []) by apply build_levels_nonempty.
      destruct lv; [congruence|]. cbn. lia.
    Qed.

    Lemma node_step : forall h m, h < ht ->
      node lv (S h) m = hash_pair (node lv h (2 * m)) (node lv h (2 * m + 1)).
    Proof.
      intros h m Hh. unfold node.
      unfold lv, levels. rewrite build_levels_step; [| lia |].
      - rewrite Nat.add_0_l. rewrite pair_up_nth.
        replace (N.to_nat (2 * m)) with (2 * N.to_nat m) by lia.
        replace (N.to_nat (2 * m + 1)) with (2 * N.to_nat m + 1) by lia.
        reflexivity.
      - fold (levels leaves). fold lv. rewrite lv_length. lia.
    Qed.

    Lemma node_leaf : forall m, node lv 0 m = nth (N.to_nat m) leaves empty0.
    Proof.
      intros m. unfold node, lv, levels. rewrite build_levels_hd. reflexivity.
    Qed.

    Lemma top_level : exists r, nth ht lv [] = [r] /\ root lv = r.
    Proof.
      destruct (build_levels_last (length leaves) 0 leaves leaves_nonempty) as [r Hr]; [lia|].
      fold (levels leaves) in Hr. fold lv in Hr.
      exists r. split.
      - assert (L := lv_length). rewrite <- Hr.
        replace ht with (length lv - 1) by lia. apply nth_last'.
      - unfold root. rewrite Hr. reflexivity.
    Qed.

    Lemma root_node : root lv = node lv ht 0.
    Proof.
      destruct top_level as [r [Hr1 Hr2]]. unfold node. rewrite Hr1, Hr2. reflexivity.
    Qed.

    Lemma node_top_empty : forall m, (0 < m)%N -> node lv ht m = er ht.
    Proof.
      intros m Hm. destruct top_level as [r [Hr1 _]]. unfold node. rewrite Hr1.
      destruct (N.to_nat m) eqn:E; [lia|]. destruct n; reflexivity.
    Qed.

    (* ---------- created proofs ---------- *)

    Definition comb (i : N) (x s : H) : H := if N.even i then hash_pair x s else hash_pair s x.

    Lemma comb_node : forall h i, h < ht ->
      comb i (node lv h i) (node lv h (sib i)) = node lv (S h) (N.div2 i).
    Proof.
      intros h i Hh. rewrite node_step by assumption. unfold comb, sib.
      destruct (N.even i) eqn:E.
      - apply N.even_spec in E. destruct E as [k ->].
        rewrite div2_even. reflexivity.
      - assert (O : N.odd i = true) by (rewrite <- N.negb_even, E; reflexivity).
        apply N.odd_spec in O. destruct O as [k ->].
        rewrite div2_odd.
        replace (2 * k + 1 - 1)%N with (2 * k)%N by lia. reflexivity.
    Qed.

    (* proof_from on the suffix of the level list starting at level h *)
    Lemma proof_from_skipn : forall k h i, h + k = ht ->
      proof_from (skipn h lv) h i =
      match k with
      | O => []
      | S k' => node lv h (sib i) :: proof_from (skipn (S h) lv) (S h) (N.div2 i)
      end.
    Proof.
      intros k h i Hk. assert (L := lv_length).
      assert (Hs : skipn h lv = nth h lv [] :: skipn (S h) lv).
      { clear -L Hk. revert h Hk L. generalize ht as n. induction lv as [|a t IH]; intros n h Hk L.
        - cbn in L. lia.
        - destruct h; [reflexivity|]. cbn [skipn nth]. cbn [length] in L.
          destruct n; [lia|]. apply (IH n); lia. }
      rewrite Hs. destruct k as [|k'].
      - assert (skipn (S h) lv = []) as ->.
        { apply skipn_all2. rewrite L. lia. }
        reflexivity.
      - assert (exists b u, skipn (S h) lv = b :: u) as [b [u E]].
        { destruct (skipn (S h) lv) as [|b u] eqn:E.
          - assert (length (skipn (S h) lv) = 0) by (rewrite E; reflexivity).
            rewrite skipn_length, L in H0. lia.
          - exists b, u. reflexivity. }
        rewrite E. rewrite proof_from_cons2. unfold node. reflexivity.
    Qed.

    Lemma derive_created : forall k h i, h + k = ht ->
      derive (node lv h i) i (proof_from (skipn h lv) h i) =
      (node lv ht (N.shiftr i (N.of_nat k)), N.shiftr i (N.of_nat k)).
    Proof.
      induction k as [|k IH]; intros h i Hk.
      - rewrite (proof_from_skipn 0) by assumption. replace h with ht by lia.
        cbn [Merkle.derive]. change (N.of_nat 0) with 0%N. rewrite N.shiftr_0_r. reflexivity.
      - rewrite (proof_from_skipn (S k)) by assumption. cbn [Merkle.derive].
        fold (comb i (node lv h i) (node lv h (sib i))).
        rewrite comb_node by lia. rewrite IH by lia.
        replace (N.shiftr (N.div2 i) (N.of_nat k)) with (N.shiftr i (N.of_nat (S k))).
        2:{ rewrite N.div2_spec. rewrite N.shiftr_shiftr. f_equal. lia. }
        reflexivity.
    Qed.

    Lemma create_proof_length_gen : forall k h i, h + k = ht ->
      length (proof_from (skipn h lv) h i) = k.
    Proof.
      induction k as [|k IH]; intros h i Hk.
      - rewrite (proof_from_skipn 0) by assumption. reflexivity.
      - rewrite (proof_from_skipn (S k)) by assumption. cbn [length]. rewrite IH by lia. reflexivity.
    Qed.

    Lemma create_proof_length : forall i, length (create_proof lv i) = ht.
    Proof. intros i. unfold create_proof. apply (create_proof_length_gen ht 0 i). lia. Qed.

    Lemma H_eqb_refl : forall a, H_eqb a a = true.
    Proof. intros a. apply H_eqb_spec. reflexivity. Qed.

    (* Every created proof verifies (for every position within the padded width). *)
    Theorem proof_complete : forall i, (i < 2 ^ N.of_nat ht)%N -> ht <= max_height ->
      check (node lv 0 i) i (root lv) (create_proof lv i) = true.
    Proof.
      intros i Hi Hmax. unfold check, create_proof.
      assert (D := derive_created ht 0 i eq_refl). cbn [skipn] in D. rewrite D. cbn [fst snd].
      assert (S0 : N.shiftr i (N.of_nat ht) = 0%N).
      { rewrite N.shiftr_div_pow2. apply N.div_small. exact Hi. }
      rewrite S0. rewrite <- root_node. rewrite H_eqb_refl.
      assert (L := create_proof_length i). unfold create_proof in L. rewrite L.
      apply Nat.leb_le in Hmax. rewrite Hmax. reflexivity.
    Qed.

    (* ---------- soundness ---------- *)

    Lemma derive_snd : forall p x i, snd (derive x i p) = N.shiftr i (N.of_nat (length p)).
    Proof.
      induction p as [|s p IH]; intros x i.
      - cbn [Merkle.derive snd length]. change (N.of_nat 0) with 0%N. rewrite N.shiftr_0_r. reflexivity.
      - cbn [Merkle.derive length]. rewrite IH. rewrite N.div2_spec, N.shiftr_shiftr. f_equal. lia.
    Qed.

    Lemma shiftr_zero_lt : forall i n, N.shiftr i n = 0%N -> (i < 2 ^ n)%N.
    Proof.
      intros i n E. rewrite N.shiftr_div_pow2 in E.
      apply N.div_small_iff in E; [exact E|]. apply N.pow_nonzero. lia.
    Qed.

    (* core: if consuming p from (x,i) reaches the node at level h+|p|, position m,
       then (absent a collision) x is the node at level h, position m*2^|p| + i, and
       every proof element is the sibling node on that path. *)
    Lemma sound_core : forall p h m x i,
      h + length p <= ht ->
      (i < 2 ^ N.of_nat (length p))%N ->
      fst (derive x i p) = node lv (h + length p) m ->
      PairCollision \/ x = node lv h (m * 2 ^ N.of_nat (length p) + i).
    Proof.
      induction p as [|s p IH]; intros h m x i Hh Hi E.
      - cbn [length] in *. cbn in E. right. rewrite Nat.add_0_r in E.
        assert (i = 0%N) by (cbn in Hi; lia). subst i.
        replace (m * 2 ^ N.of_nat 0 + 0)%N with m by (cbn; lia). exact E.
      - cbn [length] in *. cbn [Merkle.derive] in E.
        assert (Hi' : (N.div2 i < 2 ^ N.of_nat (length p))%N).
        { rewrite N.div2_div. apply N.div_lt_upper_bound; [lia|].
          replace (N.of_nat (S (length p))) with (N.succ (N.of_nat (length p))) in Hi by lia.
          rewrite N.pow_succ_r' in Hi. exact Hi. }
        replace (h + S (length p)) with (S h + length p) in E by lia.
        destruct (IH (S h) m _ (N.div2 i) ltac:(lia) Hi' E) as [C | E2]; [left; exact C|].
        set (M := (m * 2 ^ N.of_nat (length p) + N.div2 i)%N) in *.
        rewrite node_step in E2 by lia.
        assert (P2 : (2 ^ N.of_nat (S (length p)) = 2 * 2 ^ N.of_nat (length p))%N).
        { replace (N.of_nat (S (length p))) with (N.succ (N.of_nat (length p))) by lia.
          apply N.pow_succ_r'. }
        destruct (N.even i) eqn:Ev.
        + apply pair_inj in E2. destruct E2 as [C | [Ex Es]]; [left; exact C|].
          right. rewrite Ex. f_equal. unfold M. rewrite P2.
          apply N.even_spec in Ev. destruct Ev as [k ->]. rewrite div2_even. lia.
        + apply pair_inj in E2. destruct E2 as [C | [Es Ex]]; [left; exact C|].
          right. rewrite Ex. f_equal. unfold M. rewrite P2.
          assert (O : N.odd i = true) by (rewrite <- N.negb_even, Ev; reflexivity).
          apply N.odd_spec in O. destruct O as [k ->].
          rewrite div2_odd.
          lia.
    Qed.

    Lemma derive_app : forall p1 p2 x i,
      derive x i (p1 ++ p2) = derive (fst (derive x i p1)) (snd (derive x i p1)) p2.
    Proof.
      induction p1 as [|s p1 IH]; intros p2 x i; [reflexivity|].
      cbn [app Merkle.derive]. apply IH.
    Qed.

    Lemma derive_nonempty_pair : forall p x i, p <> [] ->
      exists a b, fst (derive x i p) = hash_pair a b.
    Proof.
      induction p as [|s p IH]; intros x i Hne; [congruence|].
      destruct p as [|s' p'].
      - cbn. destruct (N.even i); eauto.
      - cbn [Merkle.derive]. apply IH. discriminate.
    Qed.

    Hypothesis leaves_are_leaf_hashes : Forall (fun y => exists d, y = hash_leaf d) leaves.

    Lemma node0_leaf_hash : forall m, exists d, node lv 0 m = hash_leaf d.
    Proof.
      intros m. rewrite node_leaf.
      destruct (nth_in_or_default (N.to_nat m) leaves empty0) as [Hin | ->].
      - rewrite Forall_forall in leaves_are_leaf_hashes. apply leaves_are_leaf_hashes. exact Hin.
      - eauto.
    Qed.

    (* A verifying proof for a leaf hash binds length, index range and the leaf. *)
    Theorem proof_sound : forall d i p,
      check (hash_leaf d) i (root lv) p = true ->
      Collision \/ (length p = ht /\ (i < 2 ^ N.of_nat ht)%N /\ hash_leaf d = node lv 0 i).
    Proof.
      intros d i p Hc. unfold check in Hc.
      apply andb_prop in Hc. destruct Hc as [Hc Hr]. apply andb_prop in Hc. destruct Hc as [_ Hz].
      apply H_eqb_spec in Hr. apply N.eqb_eq in Hz. rewrite derive_snd in Hz.
      apply shiftr_zero_lt in Hz. rewrite root_node in Hr.
      destruct (le_lt_dec (length p) ht) as [Hle | Hgt].
      - (* proof not longer than the tree *)
        assert (E : fst (derive (hash_leaf d) i p) = node lv ((ht - length p) + length p) 0).
        { replace (ht - length p + length p) with ht by lia. exact Hr. }
        destruct (sound_core p (ht - length p) 0 _ i ltac:(lia) Hz E) as [C | Ex];
          [left; left; exact C|].
        cbn [N.mul N.add] in Ex.
        destruct (Nat.eq_dec (length p) ht) as [Heq | Hne].
        + right. rewrite Heq in *. replace (ht - ht) with 0 in Ex by lia. auto.
        + (* shorter: the leaf hash equals an inner node *)
          left. right. destruct (ht - length p) as [|h'] eqn:Eh; [lia|].
          rewrite node_step in Ex by lia. red. eauto.
      - (* proof longer than the tree: an inner derivation equals a leaf-level node *)
        left.
        set (k := length p - ht).
        assert (Hsplit : p = firstn k p ++ skipn k p) by (symmetry; apply firstn_skipn).
        assert (L2 : length (skipn k p) = ht) by (rewrite skipn_length; unfold k; lia).
        assert (L1 : firstn k p <> []).
        { intro E0. assert (length (firstn k p) = 0) by (rewrite E0; reflexivity).
          rewrite firstn_length in H0. unfold k in H0. lia. }
        rewrite Hsplit, derive_app in Hr.
        destruct (derive_nonempty_pair (firstn k p) (hash_leaf d) i L1) as [a [b Eab]].
        assert (Hz2 : (snd (derive (hash_leaf d) i (firstn k p)) < 2 ^ N.of_nat (length (skipn k p)))%N).
        { rewrite derive_snd. rewrite firstn_length. replace (Nat.min k (length p)) with k by (unfold k; lia).
          rewrite L2. rewrite N.shiftr_div_pow2. apply N.div_lt_upper_bound; [apply N.pow_nonzero; lia|].
          rewrite <- N.pow_add_r. replace (N.of_nat k + N.of_nat ht)%N with (N.of_nat (length p)) by (unfold k; lia).
          exact Hz. }
        assert (E : fst (derive (fst (derive (hash_leaf d) i (firstn k p)))
                          (snd (derive (hash_leaf d) i (firstn k p))) (skipn k p))
                    = node lv (0 + length (skipn k p)) 0).
        { rewrite L2. exact Hr. }
        assert (Hle0 : 0 + length (skipn k p) <= ht) by lia.
        destruct (sound_core (skipn k p) 0 0 _ _ Hle0 Hz2 E) as [C | Ex]; [left; exact C|].
        right. rewrite Eab in Ex.
        destruct (node0_leaf_hash (0 * 2 ^ N.of_nat (length (skipn k p)) + snd (derive (hash_leaf d) i (firstn k p)))) as [d' Ed'].
        rewrite Ed' in Ex. red. eauto.
    Qed.

    (* ---------- last-leaf variant ---------- *)

    Lemma derive_last_derive : forall p h x i r,
      derive_last h x i p = Some r -> derive x i p = r.
    Proof.
      induction p as [|s p IH]; intros h x i r E.
      - cbn in E. injection E as <-. reflexivity.
      - cbn [Merkle.derive_last] in E. cbn [Merkle.derive].
        destruct (N.even i) eqn:Ev.
        + destruct (H_eqb s (er h)) eqn:Es; [|discriminate].
          apply H_eqb_spec in Es. subst s. apply IH with (h := S h). exact E.
        + apply IH with (h := S h). exact E.
    Qed.

    Lemma er_S : forall h, er (S h) = hash_pair (er h) (er h).
    Proof. reflexivity. Qed.

    Lemma pow2_S : forall n, (2 ^ N.of_nat (S n) = 2 * 2 ^ N.of_nat n)%N.
    Proof.
      intros n. replace (N.of_nat (S n)) with (N.succ (N.of_nat n)) by lia.
      apply N.pow_succ_r'.
    Qed.

    Lemma last_core : forall p h m x i r rest,
      h + length p <= ht ->
      (i < 2 ^ N.of_nat (length p))%N ->
      derive_last h x i p = Some (r, rest) ->
      r = node lv (h + length p) m ->
      (PairCollision \/ x = node lv h (m * 2 ^ N.of_nat (length p) + i)) /\
      (forall j, (m * 2 ^ N.of_nat (length p) + i < j)%N ->
                 (j < (m + 1) * 2 ^ N.of_nat (length p))%N ->
                 PairCollision \/ node lv h j = er h).
    Proof.
      induction p as [|s p IH]; intros h m x i r rest Hh Hi E Er.
      - cbn [length] in *. cbn in E. injection E as <- <-. rewrite Nat.add_0_r in Er.
        assert (i = 0%N) by (cbn in Hi; lia). subst i.
        change (N.of_nat 0) with 0%N. rewrite N.pow_0_r. split.
        + right. rewrite Er. f_equal. lia.
        + intros j H1 H2. lia.
      - cbn [length] in *. cbn [Merkle.derive_last] in E.
        assert (P2 := pow2_S (length p)).
        assert (Hi' : (N.div2 i < 2 ^ N.of_nat (length p))%N).
        { rewrite N.div2_div. lia. }
        replace (h + S (length p)) with (S h + length p) in Er by lia.
        set (M := (m * 2 ^ N.of_nat (length p) + N.div2 i)%N) in *.
        assert (Hstep : forall J, PairCollision \/ node lv (S h) J = er (S h) ->
                  PairCollision \/ (node lv h (2 * J) = er h /\ node lv h (2 * J + 1) = er h)).
        { intros J [C | EJ]; [left; exact C|]. rewrite node_step in EJ by lia. rewrite er_S in EJ.
          apply pair_inj in EJ. exact EJ. }
        assert (Hup : forall j (Hall : forall J, (M < J)%N -> (J < (m + 1) * 2 ^ N.of_nat (length p))%N ->
                                   PairCollision \/ node lv (S h) J = er (S h)),
                   (M < N.div2 j)%N -> (N.div2 j < (m + 1) * 2 ^ N.of_nat (length p))%N ->
                   PairCollision \/ node lv h j = er h).
        { intros j Hall HJ1 HJ2.
          destruct (Hstep (N.div2 j) (Hall _ HJ1 HJ2)) as [C | [Ea Eb]]; [left; exact C|].
          right. destruct (N.even j) eqn:Evj.
          + apply N.even_spec in Evj. destruct Evj as [q ->]. rewrite div2_even in Ea. exact Ea.
          + assert (O : N.odd j = true) by (rewrite <- N.negb_even, Evj; reflexivity).
            apply N.odd_spec in O. destruct O as [q ->]. rewrite div2_odd in Eb. exact Eb. }
        destruct (N.even i) eqn:Ev.
        + destruct (H_eqb s (er h)) eqn:Es; [|discriminate]. apply H_eqb_spec in Es.
          destruct (IH (S h) m _ (N.div2 i) r rest ltac:(lia) Hi' E Er) as [E2 Hall].
          fold M in E2, Hall.
          apply N.even_spec in Ev. destruct Ev as [k Hk]. subst i. rewrite div2_even in *.
          assert (E3 : PairCollision \/ (x = node lv h (2 * M) /\ er h = node lv h (2 * M + 1))).
          { destruct E2 as [C | E2]; [left; exact C|]. rewrite node_step in E2 by lia.
            apply pair_inj in E2. exact E2. }
          split.
          * destruct E3 as [C | [Ex _]]; [left; exact C|]. right. rewrite Ex. f_equal. unfold M. rewrite P2. lia.
          * intros j H1 H2. rewrite P2 in H1, H2.
            destruct (N.eq_dec j (2 * M + 1)) as [-> | Hne].
            -- destruct E3 as [C | [_ Ee]]; [left; exact C|]. right. symmetry. exact Ee.
            -- apply (Hup j Hall); rewrite N.div2_div; unfold M in *; lia.
        + destruct (IH (S h) m _ (N.div2 i) r rest ltac:(lia) Hi' E Er) as [E2 Hall].
          fold M in E2, Hall.
          assert (O : N.odd i = true) by (rewrite <- N.negb_even, Ev; reflexivity).
          apply N.odd_spec in O. destruct O as [k Hk]. subst i. rewrite div2_odd in *.
          split.
          * destruct E2 as [C | E2]; [left; exact C|]. rewrite node_step in E2 by lia.
            apply pair_inj in E2. destruct E2 as [C | [_ Ex]]; [left; exact C|].
            right. rewrite Ex. f_equal. unfold M. rewrite P2. lia.
          * intros j H1 H2. rewrite P2 in H1, H2.
            apply (Hup j Hall); rewrite N.div2_div; unfold M in *; lia.
    Qed.

    Lemma leaves_le_width : length leaves <= 2 ^ ht.
    Proof.
      assert (G : forall k, k <= ht -> length (nth (ht - k) lv []) <= 2 ^ k).
      { induction k as [|k IH]; intros Hk.
        - rewrite Nat.sub_0_r. destruct top_level as [r [Hr _]]. rewrite Hr. cbn. lia.
        - assert (IH' := IH ltac:(lia)).
          replace (ht - k) with (S (ht - S k)) in IH' by lia.
          unfold lv, levels in IH'. rewrite build_levels_step in IH'; [| lia |].
          + rewrite pair_up_length in IH'. fold (levels leaves) in IH'. fold lv in IH'.
            cbn [Nat.pow]. lia.
          + fold (levels leaves). fold lv. rewrite lv_length. lia. }
      specialize (G ht (le_n _)). rewrite Nat.sub_diag in G.
      unfold lv, levels in G. rewrite build_levels_hd in G. exact G.
    Qed.

    Lemma node0_beyond : forall j, (2 ^ N.of_nat ht <= j)%N -> node lv 0 j = empty0.
    Proof.
      intros j Hj. rewrite node_leaf. apply nth_overflow.
      assert (L := leaves_le_width).
      assert (N.to_nat (2 ^ N.of_nat ht) = 2 ^ ht).
      { clear. induction ht as [|n IH]; [reflexivity|].
        rewrite pow2_S. rewrite N2Nat.inj_mul, IH. cbn [Nat.pow]. lia. }
      lia.
    Qed.

    (* The last-leaf check accepts only if, in addition to proof_sound's conclusion,
       every leaf to the right of the index is the empty leaf. *)
    Theorem last_sound : forall d i p,
      check_last (hash_leaf d) i (root lv) p = true ->
      Collision \/
      (length p = ht /\ (i < 2 ^ N.of_nat ht)%N /\ hash_leaf d = node lv 0 i /\
       forall j, (i < j)%N -> PairCollision \/ node lv 0 j = empty0).
    Proof.
      intros d i p Hc. unfold check_last in Hc.
      apply andb_prop in Hc. destruct Hc as [Hlen Hc].
      destruct (derive_last 0 (hash_leaf d) i p) as [[r rest]|] eqn:E; [|discriminate].
      apply andb_prop in Hc. destruct Hc as [Hz Hr].
      assert (D := derive_last_derive _ _ _ _ _ E).
      assert (Hchk : check (hash_leaf d) i (root lv) p = true).
      { unfold check. rewrite D. cbn [fst snd]. rewrite Hlen, Hz, Hr. reflexivity. }
      destruct (proof_sound d i p Hchk) as [C | [Hl [Hi Hx]]]; [left; exact C|].
      right. repeat split; try assumption.
      intros j Hj. destruct (N.lt_ge_cases j (2 ^ N.of_nat ht)) as [Hin | Hout].
      - apply H_eqb_spec in Hr. rewrite root_node in Hr.
        assert (Hle : 0 + length p <= ht) by lia.
        assert (Hi2 : (i < 2 ^ N.of_nat (length p))%N) by (rewrite Hl; exact Hi).
        assert (Er : r = node lv (0 + length p) 0) by (rewrite Hl; exact Hr).
        destruct (last_core p 0 0 _ i r rest Hle Hi2 E Er) as [_ Hall].
        apply Hall; rewrite Hl; lia.
      - right. apply node0_beyond. exact Hout.
    Qed.

    (* Conversely the created proof passes the last-leaf check when everything to the right is empty. *)
    Lemma empties_up : forall h i,
      h <= ht ->
      (forall j, (i < j)%N -> (j < 2 ^ N.of_nat ht)%N -> node lv 0 j = empty0) ->
      forall J, (N.shiftr i (N.of_nat h) < J)%N -> (J < 2 ^ N.of_nat (ht - h))%N -> node lv h J = er h.
    Proof.
      induction h as [|h IH]; intros i Hh H0 J H1 H2.
      - change (N.of_nat 0) with 0%N in H1. rewrite N.shiftr_0_r in H1. rewrite Nat.sub_0_r in H2.
        apply H0; assumption.
      - rewrite node_step by lia. rewrite er_S.
        assert (P2 := pow2_S (ht - S h)). replace (S (ht - S h)) with (ht - h) in P2 by lia.
        assert (Hs : N.shiftr i (N.of_nat (S h)) = N.div2 (N.shiftr i (N.of_nat h))).
        { rewrite N.div2_spec, N.shiftr_shiftr. f_equal. lia. }
        rewrite Hs in H1. rewrite N.div2_div in H1.
        rewrite (IH i ltac:(lia) H0 (2 * J)%N) by lia.
        rewrite (IH i ltac:(lia) H0 (2 * J + 1)%N) by lia.
        reflexivity.
    Qed.

    Lemma derive_last_created : forall k h i,
      h + k = ht -> (i < 2 ^ N.of_nat k)%N ->
      (forall J, (i < J)%N -> (J < 2 ^ N.of_nat k)%N -> node lv h J = er h) ->
      (forall h' J, h <= h' -> h' <= ht -> (N.shiftr i (N.of_nat (h' - h)) < J)%N ->
                    (J < 2 ^ N.of_nat (ht - h'))%N -> node lv h' J = er h') ->
      derive_last h (node lv h i) i (proof_from (skipn h lv) h i) = Some (node lv ht 0, 0%N).
    Proof.
      induction k as [|k IH]; intros h i Hk Hi _ Hall.
      - rewrite (proof_from_skipn 0) by assumption. replace h with ht by lia.
        cbn in Hi. assert (i = 0%N) by lia. subst i. reflexivity.
      - rewrite (proof_from_skipn (S k)) by assumption. cbn [Merkle.derive_last].
        assert (P2 := pow2_S k).
        assert (Hc := comb_node h i ltac:(lia)). unfold comb in Hc.
        assert (Hi' : (N.div2 i < 2 ^ N.of_nat k)%N) by (rewrite N.div2_div; lia).
        assert (Hall' : forall h' J, S h <= h' -> h' <= ht ->
                   (N.shiftr (N.div2 i) (N.of_nat (h' - S h)) < J)%N ->
                   (J < 2 ^ N.of_nat (ht - h'))%N -> node lv h' J = er h').
        { intros h' J A B C D. apply Hall; try lia.
          replace (N.shiftr i (N.of_nat (h' - h))) with (N.shiftr (N.div2 i) (N.of_nat (h' - S h))); [exact C|].
          rewrite N.div2_spec, N.shiftr_shiftr. f_equal. lia. }
        assert (Hnext : forall J, (N.div2 i < J)%N -> (J < 2 ^ N.of_nat k)%N -> node lv (S h) J = er (S h)).
        { intros J A B. apply Hall'; try lia.
          - replace (S h - S h) with 0 by lia. change (N.of_nat 0) with 0%N. rewrite N.shiftr_0_r. exact A.
          - replace (ht - S h) with k by lia. exact B. }
        destruct (N.even i) eqn:Ev.
        + assert (Es : node lv h (sib i) = er h).
          { apply (Hall h); try lia.
            - replace (h - h) with 0 by lia. change (N.of_nat 0) with 0%N. rewrite N.shiftr_0_r.
              unfold sib. rewrite Ev. lia.
            - replace (ht - h) with (S k) by lia. unfold sib. rewrite Ev.
              apply N.even_spec in Ev. destruct Ev as [q ->]. lia. }
          rewrite Es, H_eqb_refl. rewrite Es in Hc. rewrite Hc.
          apply IH; try lia; assumption.
        + rewrite Hc. apply IH; try lia; assumption.
    Qed.

    Theorem last_complete : forall i,
      (i < 2 ^ N.of_nat ht)%N -> ht <= max_height ->
      (forall j, (i < j)%N -> (j < 2 ^ N.of_nat ht)%N -> node lv 0 j = empty0) ->
      check_last (node lv 0 i) i (root lv) (create_proof lv i) = true.
    Proof.
      intros i Hi Hmax Hempty. unfold check_last, create_proof.
      assert (L := create_proof_length i). unfold create_proof in L. rewrite L.
      apply Nat.leb_le in Hmax. rewrite Hmax. cbn [andb].
      assert (D : derive_last 0 (node lv 0 i) i (proof_from (skipn 0 lv) 0 i) = Some (node lv ht 0, 0%N)).
      { apply (derive_last_created ht 0 i); try lia.
        - intros J A B. apply Hempty; assumption.
        - intros h' J A B C D. rewrite Nat.sub_0_r in C. apply (empties_up h' i B Hempty J C D). }
      cbn [skipn] in D. rewrite D. rewrite <- root_node. rewrite H_eqb_refl. reflexivity.
    Qed.

    (* The pinned tree's check (no leftover-index test) accepted aliased indices. *)
    Lemma check_pinned_alias : forall x i p r k,
      check_pinned x i r p = true ->
      check_pinned x (i + k * 2 ^ N.of_nat (length p)) r p = true.
    Proof.
      intros x i p r k. unfold check_pinned.
      assert (G : forall p x i k, fst (derive x (i + k * 2 ^ N.of_nat (length p)) p) = fst (derive x i p)).
      { clear x i p r k. induction p as [|s p IH]; intros x i k; [reflexivity|].
        cbn [Merkle.derive length]. rewrite pow2_S.
        assert (Ev : N.even (i + k * (2 * 2 ^ N.of_nat (length p))) = N.even i).
        { replace (i + k * (2 * 2 ^ N.of_nat (length p)))%N with (i + 2 * (k * 2 ^ N.of_nat (length p)))%N by lia.
          apply N.even_add_mul_2. }
        rewrite Ev.
        replace (N.div2 (i + k * (2 * 2 ^ N.of_nat (length p)))) with (N.div2 i + k * 2 ^ N.of_nat (length p))%N.
        - apply IH.
        - rewrite !N.div2_div. lia. }
      rewrite G. auto.
    Qed.


    (* root derivation WITHOUT the index-range test (Shred::slice_root / derive_root): it still binds the
       leaf to position (index mod 2^height) of the tree, and the path length to the height *)
    Lemma derive_fst_alias : forall p x i k,
      fst (derive x (i + k * 2 ^ N.of_nat (length p)) p) = fst (derive x i p).
    Proof.
      induction p as [|s p IH]; intros x i k; [reflexivity|].
      cbn [Merkle.derive length]. rewrite pow2_S.
      assert (Ev : N.even (i + k * (2 * 2 ^ N.of_nat (length p))) = N.even i).
      { replace (i + k * (2 * 2 ^ N.of_nat (length p)))%N with (i + 2 * (k * 2 ^ N.of_nat (length p)))%N by lia.
        apply N.even_add_mul_2. }
      rewrite Ev.
      replace (N.div2 (i + k * (2 * 2 ^ N.of_nat (length p)))) with (N.div2 i + k * 2 ^ N.of_nat (length p))%N.
      - apply IH.
      - rewrite !N.div2_div. lia.
    Qed.

    Theorem derive_root_sound : forall d i p,
      fst (derive (hash_leaf d) i p) = root lv ->
      Collision \/ (length p = ht /\ hash_leaf d = node lv 0 (i mod 2 ^ N.of_nat ht)).
    Proof.
      intros d i p E.
      set (w := (2 ^ N.of_nat (length p))%N).
      assert (Wpos : (0 < w)%N) by (apply N.neq_0_lt_0, N.pow_nonzero; lia).
      assert (Ei : i = (i mod w + (i / w) * w)%N) by (assert (X := N.div_mod' i w); lia).
      assert (E' : fst (derive (hash_leaf d) (i mod w) p) = root lv).
      { rewrite <- E. rewrite Ei at 2. unfold w. symmetry. apply derive_fst_alias. }
      assert (Hlt : (i mod w < w)%N) by (apply N.mod_lt; lia).
      assert (Hc : Merkle.check hash_pair H_eqb (length p) (hash_leaf d) (i mod w) (root lv) p = true).
      { unfold Merkle.check. rewrite Nat.leb_refl. cbn [andb].
        rewrite derive_snd. rewrite N.shiftr_div_pow2. fold w. rewrite N.div_small by exact Hlt.
        cbn [N.eqb andb]. rewrite E'. apply H_eqb_spec. reflexivity. }
      assert (PS : Collision \/ (length p = ht /\ (i mod w < 2 ^ N.of_nat ht)%N /\ hash_leaf d = node lv 0 (i mod w))).
      { unfold Merkle.check in Hc.
        (* re-run the argument of proof_sound with max_height := length p *)
        apply andb_prop in Hc. destruct Hc as [Hc Hr]. apply andb_prop in Hc. destruct Hc as [_ Hz].
        apply H_eqb_spec in Hr. apply N.eqb_eq in Hz. rewrite derive_snd in Hz.
        apply shiftr_zero_lt in Hz. rewrite root_node in Hr.
        destruct (le_lt_dec (length p) ht) as [Hle | Hgt].
        - assert (Eq : fst (derive (hash_leaf d) (i mod w) p) = node lv ((ht - length p) + length p) 0).
          { replace (ht - length p + length p) with ht by lia. exact Hr. }
          destruct (sound_core p (ht - length p) 0 _ (i mod w) ltac:(lia) Hz Eq) as [C | Ex];
            [left; left; exact C|].
          cbn [N.mul N.add] in Ex.
          destruct (Nat.eq_dec (length p) ht) as [Heq | Hne].
          + right. rewrite Heq in *. replace (ht - ht) with 0 in Ex by lia. auto.
          + left. right. destruct (ht - length p) as [|h'] eqn:Eh; [lia|].
            rewrite node_step in Ex by lia. red. eauto.
        - left.
          set (k := length p - ht).
          assert (Hsplit : p = firstn k p ++ skipn k p) by (symmetry; apply firstn_skipn).
          assert (L2 : length (skipn k p) = ht) by (rewrite skipn_length; unfold k; lia).
          assert (L1 : firstn k p <> []).
          { intro E0. assert (length (firstn k p) = 0) by (rewrite E0; reflexivity).
            rewrite firstn_length in H0. unfold k in H0. lia. }
          rewrite Hsplit, derive_app in Hr.
          destruct (derive_nonempty_pair (firstn k p) (hash_leaf d) (i mod w) L1) as [a [b Eab]].
          assert (Hz2 : (snd (derive (hash_leaf d) (i mod w) (firstn k p)) < 2 ^ N.of_nat (length (skipn k p)))%N).
          { rewrite derive_snd. rewrite firstn_length. replace (Nat.min k (length p)) with k by (unfold k; lia).
            rewrite L2. rewrite N.shiftr_div_pow2. apply N.div_lt_upper_bound; [apply N.pow_nonzero; lia|].
            rewrite <- N.pow_add_r. replace (N.of_nat k + N.of_nat ht)%N with (N.of_nat (length p)) by (unfold k; lia).
            exact Hz. }
          assert (Eq : fst (derive (fst (derive (hash_leaf d) (i mod w) (firstn k p)))
                            (snd (derive (hash_leaf d) (i mod w) (firstn k p))) (skipn k p))
                      = node lv (0 + length (skipn k p)) 0).
          { rewrite L2. exact Hr. }
          assert (Hle0 : 0 + length (skipn k p) <= ht) by lia.
          destruct (sound_core (skipn k p) 0 0 _ _ Hle0 Hz2 Eq) as [C | Ex]; [left; exact C|].
          right. rewrite Eab in Ex.
          destruct (node0_leaf_hash (0 * 2 ^ N.of_nat (length (skipn k p)) + snd (derive (hash_leaf d) (i mod w) (firstn k p)))) as [d' Ed'].
          rewrite Ed' in Ex. red. eauto. }
      destruct PS as [C | [Hl [_ Hx]]]; [left; exact C|].
      right. split; [exact Hl|]. unfold w in Hx. rewrite Hl in Hx. exact Hx.
    Qed.

  End Tree.
End MerkleProofs.
