(* C18, ready parents at the receiver of a standstill bundle: every block that the certificates of the bundle
   alone make a ready parent of a window start is a ready parent of that window in the fresh pool that was fed
   the bundle.  Marks of the parent-ready tracker only grow (above its root); a certificate held for an
   unpruned slot has set its mark; at a receiver that never learnt a parent link a Finalized status comes with
   the notar-fallback mark set by the finalization event. *)
From Coq Require Import List NArith Bool Lia ZifyBool ZifyNat ZifyN.
From AG Require Import Gen.Params Model.Pool Model.PoolSpec Model.TrackerSpec
  Proofs.SlotStateProofs Proofs.TrackerProofs Proofs.ParentReadyProofs Proofs.PoolTrackerLink
  Proofs.VotorProgressProofs Proofs.PoolProgressProofs Proofs.ReadyChainProofs Proofs.StandstillProofs.
Import ListNotations.
Open Scope N_scope.

(* ================= marks only grow ================= *)
Definition marks_le (t t' : prtracker) : Prop :=
  pt_root t <= pt_root t' /\
  forall k, pt_root t' <= k ->
    (pr_skip (pt_get t k) = true -> pr_skip (pt_get t' k) = true) /\
    (forall h, In h (pr_nfs (pt_get t k)) -> In h (pr_nfs (pt_get t' k))).

Lemma marks_le_refl t : marks_le t t.
Proof. split; [lia | intros k _; auto]. Qed.
Lemma marks_le_trans a b c : marks_le a b -> marks_le b c -> marks_le a c.
Proof.
  intros [R1 M1] [R2 M2]. split; [lia|]. intros k Hk.
  destruct (M1 k ltac:(lia)) as [A1 A2]. destruct (M2 k Hk) as [B1 B2]. split; auto.
Qed.
Lemma same_marks_le t t' : same_marks t t' -> marks_le t t'.
Proof.
  intros (R & M & _). split; [lia|]. intros k _. destruct (M k) as [E1 E2]. rewrite E1, E2. auto.
Qed.
Lemma set_marks_le t s st' :
  (pr_skip (pt_get t s) = true -> pr_skip st' = true) -> (forall h, In h (pr_nfs (pt_get t s)) -> In h (pr_nfs st')) ->
  marks_le t (pt_set t s st').
Proof.
  intros H1 H2. split; [cbn; lia|]. intros k _. rewrite pt_get_set.
  destruct (k =? s) eqn:E; [apply N.eqb_eq in E; subst; auto | auto].
Qed.

Lemma mark_nf_le t b t' prs wk : pt_mark_notar_fallback t b = Some (t', prs, wk) -> marks_le t t'.
Proof.
  destruct b as [s h]. unfold pt_mark_notar_fallback.
  destruct (s <? pt_root t); [intros H; injection H as <- _ _; apply marks_le_refl|].
  destruct (memN h (pr_nfs (pt_get t s))); [intros H; injection H as <- _ _; apply marks_le_refl|].
  intros H. destruct (propagate_spec _ _ _ _ _ _ _ _ _ H) as [SM _].
  eapply marks_le_trans; [|apply same_marks_le; exact SM].
  apply set_marks_le; cbn [pr_skip pr_nfs]; auto. intros h0 Hin. apply in_or_app. left. exact Hin.
Qed.
Lemma mark_skipped_le t s t' prs wk : pt_mark_skipped t s = Some (t', prs, wk) -> marks_le t t'.
Proof.
  unfold pt_mark_skipped.
  destruct (s <? pt_root t); [intros H; injection H as <- _ _; apply marks_le_refl|].
  destruct (pr_skip (pt_get t s)); [intros H; injection H as <- _ _; apply marks_le_refl|].
  intros H. destruct (propagate_spec _ _ _ _ _ _ _ _ _ H) as [SM _].
  eapply marks_le_trans; [|apply same_marks_le; exact SM].
  apply set_marks_le; cbn [pr_skip pr_nfs]; auto.
Qed.
Lemma hf_le t ev t' prs wk : pt_handle_finalization t ev = Some (t', prs, wk) -> marks_le t t'.
Proof.
  intros H. apply (hf_preserves (fun x => marks_le t x)) with (t := t) (ev := ev) (prs := prs) (wk := wk); auto.
  - intros b t0 t1 a w E Q. eapply marks_le_trans; [exact Q | apply (mark_nf_le _ _ _ _ _ E)].
  - intros s t0 t1 a w E Q. eapply marks_le_trans; [exact Q | apply (mark_skipped_le _ _ _ _ _ E)].
  - apply marks_le_refl.
Qed.
Lemma pt_get_prune t r k : r <= k -> pt_get (pt_prune t r) k = pt_get t k.
Proof.
  intros Hk. unfold pt_get, pt_prune, aget. cbn [pt_states].
  rewrite (PoolProgressProofs.alookup_filter_key (fun x => r <=? x)). apply N.leb_le in Hk. rewrite Hk. reflexivity.
Qed.
Lemma prune_le t r : pt_root t <= r -> marks_le t (pt_prune t r).
Proof.
  intros Hr. split; [cbn; exact Hr|]. intros k Hk. cbn [pt_prune pt_root] in Hk. rewrite pt_get_prune by exact Hk. auto.
Qed.

(* the block of the finalization event gets its notar-fallback mark *)
Lemma fold_fin_preserves {B} (Q : prtracker -> Prop) (F : B -> prtracker -> ptres) :
  (forall b t0 t1 a w, F b t0 = Some (t1, a, w) -> Q t0 -> Q t1) ->
  forall l r tt a w, fold_left (fun r b => fin_step r (F b)) l r = Some (tt, a, w) ->
  (forall t0 a0 w0, r = Some (t0, a0, w0) -> Q t0) -> Q tt.
Proof.
  intros HF. induction l as [|b l IH]; intros r tt a w H Hr; cbn [fold_left] in H.
  - apply (Hr _ _ _ H).
  - apply (IH _ _ _ _ H). intros t0 a0 w0 E. unfold fin_step in E.
    destruct r as [[[t1 a1] w1]|]; [|discriminate]. destruct (F b t1) as [[[t2 a2] w2]|] eqn:Fb; [|discriminate].
    injection E as <- _ _. apply (HF _ _ _ _ _ Fb). apply (Hr _ _ _ eq_refl).
Qed.

Lemma hf_final_mark t ev t' prs wk s h :
  pt_handle_finalization t ev = Some (t', prs, wk) -> fe_final ev = Some (s, h) -> pt_root t <= s ->
  In h (pr_nfs (pt_get t' s)).
Proof.
  intros H Hf Hr. rewrite hf_unfold in H. destruct (hf_r3 t ev) as [[[t3 a3] w3]|] eqn:E3; [|discriminate].
  injection H as <- _ _. unfold hf_r3 in E3. rewrite Hf in E3.
  set (Q := fun x => pt_root x = pt_root t /\ In h (pr_nfs (pt_get x s))).
  assert (Fn : forall b t0 t1 a w, pt_mark_notar_fallback t0 b = Some (t1, a, w) -> Q t0 -> Q t1).
  { intros b t0 t1 a w E [R M]. split; [rewrite (mark_nf_root _ _ _ _ _ E); exact R|].
    destruct (mark_nf_le _ _ _ _ _ E) as [_ L]. apply (L s); [rewrite (mark_nf_root _ _ _ _ _ E), R; exact Hr | exact M]. }
  assert (Fs : forall b t0 t1 a w, pt_mark_skipped t0 b = Some (t1, a, w) -> Q t0 -> Q t1).
  { intros b t0 t1 a w E [R M]. split; [rewrite (mark_skipped_root _ _ _ _ _ E); exact R|].
    destruct (mark_skipped_le _ _ _ _ _ E) as [_ L]. apply (L s); [rewrite (mark_skipped_root _ _ _ _ _ E), R; exact Hr | exact M]. }
  assert (Q3 : Q t3); [|apply Q3].
  apply (fold_fin_preserves Q (fun s0 t0 => pt_mark_skipped t0 s0) Fs _ _ _ _ _ E3).
  intros t2 a2 w2 E2.
  apply (fold_fin_preserves Q (fun b t0 => pt_mark_notar_fallback t0 b) Fn _ _ _ _ _ E2).
  intros t1 a1 w1 E1. unfold fin_step in E1.
  destruct (pt_mark_notar_fallback t (s, h)) as [[[t0 a0] w0]|] eqn:M0; [|discriminate]. injection E1 as <- _ _.
  split; [apply (mark_nf_root _ _ _ _ _ M0) | apply (mark_nf_marks _ _ _ _ _ _ M0 Hr)].
Qed.

(* ================= the pool's sub-operations ================= *)
Lemma pool_hf_marks p ev p' o :
  pool_handle_finalization p ev = Some (p', o) -> pt_root (p_prt p) <= first_unpruned p ->
  marks_le (p_prt p) (p_prt p') /\
  (forall s h, fe_final ev = Some (s, h) -> first_unpruned p <= s -> In h (pr_nfs (pt_get (p_prt p') s))).
Proof.
  unfold pool_handle_finalization. destruct (pt_handle_finalization (p_prt p) ev) as [[[t prs] wk]|] eqn:HF; [|discriminate].
  intros H Hr. injection H as <- _. unfold pool_prune. cbn [p_prt p_ft first_unpruned].
  pose proof (handle_finalization_root _ _ _ _ _ HF) as Rt.
  split.
  - eapply marks_le_trans; [apply (hf_le _ _ _ _ _ HF)|]. apply prune_le. rewrite Rt. exact Hr.
  - intros s h Hf Hs. unfold first_unpruned in Hs. rewrite pt_get_prune by exact Hs.
    apply (hf_final_mark _ _ _ _ _ _ _ HF Hf). unfold first_unpruned in Hr. lia.
Qed.

Lemma hf_first p ev p' o : pool_handle_finalization p ev = Some (p', o) -> first_unpruned p' = first_unpruned p.
Proof.
  unfold pool_handle_finalization. destruct (pt_handle_finalization (p_prt p) ev) as [[[t prs] wk]|]; [|discriminate].
  intros H. injection H as <- _. reflexivity.
Qed.

Lemma hf_root p ev p' o : pool_handle_finalization p ev = Some (p', o) -> pt_root (p_prt p') = first_unpruned p.
Proof.
  unfold pool_handle_finalization. destruct (pt_handle_finalization (p_prt p) ev) as [[[t prs] wk]|]; [|discriminate].
  intros H. injection H as <- _. reflexivity.
Qed.

(* add_valid_cert: marks grow; the finalization event's block is marked *)
Lemma add_valid_cert_marks e p c p' o :
  add_valid_cert e p c = Some (p', o) -> pt_root (p_prt p) <= first_unpruned p ->
  marks_le (p_prt p) (p_prt p') /\
  forall s h, first_unpruned p' <= s ->
    match c_kind c with
    | CNotar h0 => exists ev, ft_mark_notarized (p_ft p) (c_slot c, h0) = Some (p_ft p', ev) /\ fe_final ev = Some (s, h)
    | CFastFinal h0 => exists ev, ft_mark_fast_finalized (p_ft p) (c_slot c, h0) = Some (p_ft p', ev) /\ fe_final ev = Some (s, h)
    | CFinal => exists ev, ft_mark_finalized (p_ft p) (c_slot c) = Some (p_ft p', ev) /\ fe_final ev = Some (s, h)
    | _ => False
    end -> In h (pr_nfs (pt_get (p_prt p') s)).
Proof.
  unfold add_valid_cert. fold (stored_cert p c). set (p0 := stored_cert p c). set (s0 := c_slot c).
  change (p_ft p0) with (p_ft p). intros H Hr.
  assert (R0 : pt_root (p_prt p0) <= ft_first (p_ft p)) by exact Hr.
  destruct (c_kind c) as [h0|h0| |h0|] eqn:K.
  - destruct (ft_mark_notarized (p_ft p) (s0, h0)) as [[t ev]|] eqn:MN; [|discriminate].
    destruct (pool_handle_finalization (pool_with_ft p0 t) ev) as [[p1 o1]|] eqn:HF; [|discriminate].
    destruct (notify_waiting_children e p1 (s0, h0)) as [[p2 o2]|] eqn:NW; [|discriminate].
    destruct (pt_mark_notar_fallback (p_prt p2) (s0, h0)) as [[[t2 prs] wk]|] eqn:MF; [|discriminate].
    injection H as <- _.
    pose proof (ft_mark_notarized_first _ _ _ _ MN) as Mono.
    assert (Rw : pt_root (p_prt (pool_with_ft p0 t)) <= first_unpruned (pool_with_ft p0 t)).
    { unfold first_unpruned. cbn [pool_with_ft p_prt p_ft]. lia. }
    destruct (pool_hf_marks _ _ _ _ HF Rw) as [L1 Fm].
    destruct (notify_waiting_same _ _ _ _ _ NW) as [E1 E2].
    pose proof (mark_nf_le _ _ _ _ _ MF) as L2. rewrite E1 in L2.
    pose proof (hf_frame _ _ _ _ HF) as (_ & _ & F1). cbn [pool_with_ft p_ft] in F1.
    split.
    + cbn [pool_with_prt p_prt]. eapply marks_le_trans; [exact L1 | exact L2].
    + intros s h Hs (ev' & Eq & Hf). cbn [pool_with_prt p_prt p_ft] in *. rewrite E2, F1 in Eq. injection Eq as <-.
      unfold first_unpruned in Hs. cbn [pool_with_prt p_ft] in Hs. rewrite E2, F1 in Hs.
      destruct L2 as [Rl L2]. apply (L2 s).
      * rewrite (mark_nf_root _ _ _ _ _ MF), E1, (hf_root _ _ _ _ HF). unfold first_unpruned. cbn [pool_with_ft p_ft]. exact Hs.
      * apply (Fm s h Hf). unfold first_unpruned. cbn [pool_with_ft p_ft]. exact Hs.
  - destruct (notify_waiting_children e p0 (s0, h0)) as [[p2 o2]|] eqn:NW; [|discriminate].
    destruct (pt_mark_notar_fallback (p_prt p2) (s0, h0)) as [[[t2 prs] wk]|] eqn:MF; [|discriminate].
    injection H as <- _. destruct (notify_waiting_same _ _ _ _ _ NW) as [E1 E2].
    pose proof (mark_nf_le _ _ _ _ _ MF) as L2. rewrite E1 in L2.
    split; [exact L2 | intros s h _ []].
  - destruct (pt_mark_skipped (p_prt p0) s0) as [[[t2 prs] wk]|] eqn:MS; [|discriminate].
    injection H as <- _. split; [apply (mark_skipped_le _ _ _ _ _ MS) | intros s h _ []].
  - destruct (ft_mark_fast_finalized (p_ft p) (s0, h0)) as [[t ev]|] eqn:MN; [|discriminate].
    destruct (pool_handle_finalization (pool_with_ft p0 t) ev) as [[p1 o1]|] eqn:HF; [|discriminate].
    destruct (notify_waiting_children e p1 (s0, h0)) as [[p2 o2]|] eqn:NW; [|discriminate].
    injection H as <- _.
    pose proof (ft_mark_fast_finalized_first _ _ _ _ MN) as Mono.
    assert (Rw : pt_root (p_prt (pool_with_ft p0 t)) <= first_unpruned (pool_with_ft p0 t)).
    { unfold first_unpruned. cbn [pool_with_ft p_prt p_ft]. lia. }
    destruct (pool_hf_marks _ _ _ _ HF Rw) as [L1 Fm].
    destruct (notify_waiting_same _ _ _ _ _ NW) as [E1 E2].
    pose proof (hf_frame _ _ _ _ HF) as (_ & _ & F1). cbn [pool_with_ft p_ft] in F1.
    rewrite E1. split; [exact L1|].
    intros s h Hs (ev' & Eq & Hf). rewrite E2, F1 in Eq. injection Eq as <-.
    unfold first_unpruned in Hs. rewrite E2, F1 in Hs.
    apply (Fm s h Hf). unfold first_unpruned. cbn [pool_with_ft p_ft]. exact Hs.
  - destruct (ft_mark_finalized (p_ft p) s0) as [[t ev]|] eqn:MN; [|discriminate].
    destruct (pool_handle_finalization (pool_with_ft p0 t) ev) as [[p1 o1]|] eqn:HF; [|discriminate].
    injection H as <- _.
    pose proof (ft_mark_finalized_first _ _ _ _ MN) as Mono.
    assert (Rw : pt_root (p_prt (pool_with_ft p0 t)) <= first_unpruned (pool_with_ft p0 t)).
    { unfold first_unpruned. cbn [pool_with_ft p_prt p_ft]. lia. }
    destruct (pool_hf_marks _ _ _ _ HF Rw) as [L1 Fm].
    pose proof (hf_frame _ _ _ _ HF) as (_ & _ & F1). cbn [pool_with_ft p_ft] in F1.
    split; [exact L1|].
    intros s h Hs (ev' & Eq & Hf). rewrite F1 in Eq. injection Eq as <-.
    unfold first_unpruned in Hs. rewrite F1 in Hs.
    apply (Fm s h Hf). unfold first_unpruned. cbn [pool_with_ft p_ft]. exact Hs.
Qed.

(* ================= where a Finalized status comes from, when no parent link is known ================= *)
Lemma hfb_plain_eq t b ev : ft_parents t = [] ->
  ft_handle_finalized_block t b ev =
  Some (ft_prune (mkFT (ft_status t) (ft_parents t) (N.max (fst b) (ft_highest t)) (ft_first t)),
        mkFE (Some b) (fe_impl_final ev) (fe_impl_skipped ev)).
Proof. intros P. unfold ft_handle_finalized_block. cbn [ft_parents]. rewrite P. reflexivity. Qed.

Definition fin_origin (t t' : ftracker) (ev : fin_event) : Prop :=
  forall s' h', st_of t' s' = Some (FFinalized h') -> st_of t s' = Some (FFinalized h') \/ fe_final ev = Some (s', h').

Lemma origin_hfb t t1 s h t' ev :
  ft_parents t1 = [] -> (forall s', st_of t1 s' = if s' =? s then Some (FFinalized h) else st_of t s') ->
  ft_handle_finalized_block t1 (s, h) fe_empty = Some (t', ev) -> fin_origin t t' ev.
Proof.
  intros P St H. rewrite (hfb_plain_eq _ _ _ P) in H. injection H as <- <-. intros s' h' E.
  rewrite st_of_prune in E. destruct (_ <=? s'); [|discriminate].
  unfold st_of in E. cbn [ft_status] in E. fold (st_of t1 s') in E.
  rewrite St in E. destruct (s' =? s) eqn:Es; [|left; exact E].
  apply N.eqb_eq in Es. subst. injection E as <-. right. reflexivity.
Qed.
Lemma origin_set t t' s v ev :
  (forall s', st_of t' s' = if s' =? s then Some v else st_of t s') ->
  (forall h', v = FFinalized h' -> st_of t s = Some (FFinalized h')) -> fin_origin t t' ev.
Proof.
  intros St Hv s' h' E. left. rewrite St in E. destruct (s' =? s) eqn:Es; [|exact E].
  apply N.eqb_eq in Es. subst. injection E as E. apply Hv. exact E.
Qed.

Lemma origin_fast t s h t' ev : plain t -> ft_mark_fast_finalized t (s, h) = Some (t', ev) -> fin_origin t t' ev.
Proof.
  intros [P N] H. unfold ft_mark_fast_finalized in H. cbn [fst snd] in H.
  destruct (s <? ft_first t); [injection H as <- <-; intros s' h' E; left; exact E|]. fold (st_of t s) in H.
  assert (Hh : ft_handle_finalized_block (ft_set_status t s (FFinalized h)) (s, h) fe_empty = Some (t', ev) -> fin_origin t t' ev).
  { apply (origin_hfb t _ s h); [exact P | intros s'; apply st_of_set]. }
  destruct (st_of t s) as [[h0| |h0|h0|]|] eqn:Old; try discriminate; auto.
  - destruct (h0 =? h); [auto | discriminate].
  - destruct (h0 =? h) eqn:E; [|discriminate]. apply N.eqb_eq in E. subst h0. injection H as <- <-.
    apply (origin_set t _ s (FFinalized h)); [intros s'; apply st_of_set|]. intros h' Eh. injection Eh as <-. exact Old.
  - exfalso. destruct (N s) as [_ N2]. apply (N2 h0). exact Old.
Qed.
Lemma origin_notar t s h t' ev : plain t -> ft_mark_notarized t (s, h) = Some (t', ev) -> fin_origin t t' ev.
Proof.
  intros [P N] H. unfold ft_mark_notarized in H. cbn [fst snd] in H.
  destruct (s <? ft_first t); [injection H as <- <-; intros s' h' E; left; exact E|]. fold (st_of t s) in H.
  destruct (st_of t s) as [[h0| |h0|h0|]|] eqn:Old.
  - destruct (h0 =? h); [|discriminate]. injection H as <- <-.
    apply (origin_set t _ s (FNotarized h)); [intros s'; apply st_of_set | intros h' Eh; discriminate].
  - apply (origin_hfb t (ft_set_status (ft_set_status t s (FNotarized h)) s (FFinalized h)) s h _ _ P (st_of_set2 t s _ _) H).
  - destruct (h0 =? h) eqn:E; [|discriminate]. apply N.eqb_eq in E. subst h0. injection H as <- <-.
    apply (origin_set t _ s (FFinalized h)); [intros s'; apply st_of_set2|]. intros h' Eh. injection Eh as <-. exact Old.
  - exfalso. destruct (N s) as [_ N2]. apply (N2 h0). exact Old.
  - exfalso. destruct (N s) as [N1 _]. apply N1. exact Old.
  - injection H as <- <-.
    apply (origin_set t _ s (FNotarized h)); [intros s'; apply st_of_set | intros h' Eh; discriminate].
Qed.
Lemma origin_final t s t' ev : plain t -> ft_mark_finalized t s = Some (t', ev) -> fin_origin t t' ev.
Proof.
  intros [P N] H. unfold ft_mark_finalized in H.
  destruct (s <? ft_first t); [injection H as <- <-; intros s' h' E; left; exact E|]. fold (st_of t s) in H.
  destruct (st_of t s) as [[h0| |h0|h0|]|] eqn:Old.
  - apply (origin_hfb t (ft_set_status (ft_set_status t s FFinalPendingNotar) s (FFinalized h0)) s h0 _ _ P (st_of_set2 t s _ _) H).
  - injection H as <- <-.
    apply (origin_set t _ s FFinalPendingNotar); [intros s'; apply st_of_set | intros h' Eh; discriminate].
  - injection H as <- <-.
    apply (origin_set t _ s (FFinalized h0)); [intros s'; apply st_of_set2|]. intros h' Eh. injection Eh as <-. exact Old.
  - exfalso. destruct (N s) as [_ N2]. apply (N2 h0). exact Old.
  - discriminate.
  - injection H as <- <-.
    apply (origin_set t _ s FFinalPendingNotar); [intros s'; apply st_of_set | intros h' Eh; discriminate].
Qed.

(* ================= the receiver: certificates held and Finalized statuses have their marks ================= *)
Definition cert_mark (t : prtracker) (s : slot) (c : cert) : Prop :=
  match c_kind c with
  | CNotar h | CNotarFb h => In h (pr_nfs (pt_get t s))
  | CSkip => pr_skip (pt_get t s) = true
  | _ => True
  end.
Record RM (q : pool) : Prop := {
  rm_ready : pool_ready_complete q;
  rm_certs : forall s c, first_unpruned q <= s -> In c (certs_of_slot (p_ss q s)) -> cert_mark (p_prt q) s c;
  rm_fin : forall s h, first_unpruned q <= s -> st_of (p_ft q) s = Some (FFinalized h) -> In h (pr_nfs (pt_get (p_prt q) s))
}.

Lemma RM_init : RM pool_init.
Proof.
  split.
  - apply pool_init_ready.
  - intros s c _ H. cbn in H. contradiction.
  - intros s h _ H. unfold st_of in H. cbn [pool_init p_ft] in H. unfold ft_init in H. cbn [ft_status alookup] in H.
    destruct (s =? 0); discriminate.
Qed.

Lemma cert_mark_le t t' s c : marks_le t t' -> pt_root t' <= s -> cert_mark t s c -> cert_mark t' s c.
Proof.
  intros [_ L] Hs. unfold cert_mark. destruct (L s Hs) as [L1 L2]. destruct (c_kind c); auto.
Qed.

Lemma recv_step_marks e f X q c :
  Xok f X -> RQ X q -> RM q -> X c -> RM (fst (fst (pool_step e q (OpCert c)))).
Proof.
  intros XO R M Hc. destruct (recv_step e f X q c XO R Hc) as (R' & _ & _).
  set (q' := fst (fst (pool_step e q (OpCert c)))) in *.
  pose proof (rq_ok _ _ R') as Ok'. destruct R as [I Pl Wt Src Fd Ok]. destruct M as [Rd Mc Mf].
  unfold q', pool_step in *. rewrite Ok in *. unfold pool_add_cert in *.
  destruct (out_of_bounds q (c_slot c)); [split; assumption|].
  set (s := c_slot c) in *. set (q0 := p_touch q s) in *.
  destruct (touch_same q s) as [P0 F0]. fold q0 in P0, F0.
  assert (M0 : RM q0).
  { split.
    - apply (prc_same q); auto.
    - intros s' c'. unfold q0, first_unpruned. rewrite p_ss_touch. fold q0. rewrite F0, P0. apply Mc.
    - intros s' h'. unfold first_unpruned. rewrite F0, P0. apply Mf. }
  destruct (cert_duplicate (p_ss q0 s) c); [exact M0|].
  destruct (add_valid_cert e q0 c) as [[q1 o]|] eqn:AV; [|cbn in Ok'; discriminate]. cbn [fst] in *.
  assert (I0 : INV q0) by (apply (INV_same_ft q); [exact I | apply cext_touch | exact F0]).
  destruct (add_valid_cert_INV e q0 c q1 o I0 AV) as [I1 T1].
  destruct M0 as [Rd0 Mc0 Mf0]. pose proof (add_valid_cert_ready e q0 c q1 o AV Rd0) as Rd1.
  destruct Rd0 as [_ Rr0]. destruct (add_valid_cert_marks e q0 c q1 o AV Rr0) as [Le Ev].
  destruct (add_valid_cert_cext e q0 c q1 o AV) as [_ [Mono _]].
  assert (Hroot : forall s', first_unpruned q1 <= s' -> pt_root (p_prt q1) <= s') by (destruct Rd1 as [_ Rr1]; intros; lia).
  assert (Hfirst : forall s', first_unpruned q1 <= s' -> first_unpruned q0 <= s') by (unfold first_unpruned; intros; lia).
  split.
  - exact Rd1.
  - intros s' c' Hs' Hin. destruct (T1 s' c' Hin) as [->|Hold].
    + destruct (inv_cwf _ I1 s') as (_ & Sl & _). pose proof (Sl c Hin) as Es. fold s in Es. subst s'.
      pose proof (cert_sets_mark e q0 c q1 o AV (Hroot _ Hs')) as Cm. unfold cert_mark. fold s in Cm.
      destruct (c_kind c); auto.
    + apply (cert_mark_le (p_prt q0)); [exact Le | apply Hroot; exact Hs' | apply Mc0; [apply Hfirst; exact Hs' | exact Hold]].
  - intros s' h' Hs' Est.
    assert (Old : st_of (p_ft q0) s' = Some (FFinalized h') -> In h' (pr_nfs (pt_get (p_prt q1) s'))).
    { intros Eo. destruct Le as [_ L]. apply (L s' (Hroot _ Hs')). apply Mf0; [apply Hfirst; exact Hs' | exact Eo]. }
    assert (Pl0 : plain (p_ft q0)) by (rewrite F0; exact Pl).
    pose proof (add_valid_cert_ft e q0 c q1 o AV) as Ft. fold s in Ft. specialize (Ev s' h' Hs'). fold s in Ev.
    destruct (c_kind c) as [h0|h0| |h0|].
    + destruct Ft as [ev Ft]. destruct (origin_notar _ _ _ _ _ Pl0 Ft s' h' Est) as [Eo|Ef]; [apply Old; exact Eo | apply Ev; eauto].
    + rewrite Ft in Est. apply Old. exact Est.
    + rewrite Ft in Est. apply Old. exact Est.
    + destruct Ft as [ev Ft]. destruct (origin_fast _ _ _ _ _ Pl0 Ft s' h' Est) as [Eo|Ef]; [apply Old; exact Eo | apply Ev; eauto].
    + destruct Ft as [ev Ft]. destruct (origin_final _ _ _ _ Pl0 Ft s' h' Est) as [Eo|Ef]; [apply Old; exact Eo | apply Ev; eauto].
Qed.

Lemma recv_run_marks e f X : Xok f X -> forall l q,
  RQ X q -> RM q -> (forall c, In c l -> X c) -> RM (feed e q l).
Proof.
  intros XO. induction l as [|c l IH]; intros q R M Hl; unfold feed; cbn [map pool_run]; [exact M|].
  pose proof (Hl c (or_introl eq_refl)) as Xc.
  destruct (recv_step e f X q c XO R Xc) as (R1 & _ & _).
  apply (IH _ R1); [apply (recv_step_marks e f X q c XO R M Xc) | intros c' H; apply Hl; right; exact H].
Qed.

(* (3) ready parents: whatever the certificates of the bundle alone justify is ready at the receiver *)
Definition bundle_certifies (p : pool) (sb : slot) (h : hash) : Prop :=
  exists c, In c (bundle_certs p) /\ c_slot c = sb /\ (c_kind c = CNotar h \/ c_kind c = CNotarFb h \/ c_kind c = CFastFinal h).
Definition bundle_skips (p : pool) (k : slot) : Prop :=
  exists c, In c (bundle_certs p) /\ c_slot c = k /\ c_kind c = CSkip.

Theorem bundle_ready_parents : forall e' p l,
  INV p ->
  (forall c, In c l -> In c (bundle_certs p)) -> (forall c, In c (bundle_certs p) -> In c l) ->
  (forall c, In c l -> c_slot c < 2 * SLOTS_PER_EPOCH) ->
  let q := feed e' pool_init l in
  forall sb h w, sb < w -> is_window_start w = true ->
    bundle_certifies p sb h -> (forall k, sb < k < w -> bundle_skips p k) ->
    In (sb, h) (pt_parents_ready (p_prt q) w).
Proof.
  intros e' p l I Sub Sup Bnd q sb h w Hlt Hw (c & Hc & Sc & Kc) Hsk.
  set (X := fun c => In c (bundle_certs p)). set (f := finalized_slot p).
  pose proof (sender_Xok p I) as XO. fold X f in XO.
  destruct (recv_run e' f X XO l pool_init (RQ_init X)) as (R & _ & _).
  { intros c0 H0. split; [apply Sub; exact H0 | apply Bnd; exact H0]. }
  pose proof (recv_run_marks e' f X XO l pool_init (RQ_init X) RM_init Sub) as M. fold q in R, M.
  destruct (bundle_sufficient e' p l I Sub Sup Bnd) as (_ & Fq & _ & _). fold q in Fq.
  pose proof (bundle_sufficient_exact e' p l I Sub Sup Bnd) as Ex. cbv zeta in Ex. fold q in Ex.
  destruct R as [Iq Pl _ _ _ _]. destruct M as [[RC Rr] Mc Mf].
  pose proof (lk_fh _ _ _ (inv_link _ Iq)) as Fh. fold (first_unpruned q) (finalized_slot q) in Fh.
  assert (Hf : forall c0, In c0 (bundle_certs p) -> first_unpruned q <= c_slot c0 /\ In c0 (certs_of_slot (p_ss q (c_slot c0)))).
  { intros c0 H0. destruct (bundle_certs_held p c0 I H0) as [_ Hle]. split; [lia|]. apply Ex; auto. }
  destruct (Hf c Hc) as [Hfc Hin]. rewrite Sc in Hfc, Hin.
  apply RC; auto; [lia| |].
  - destruct Kc as [Kc|[Kc|Kc]].
    + pose proof (Mc sb c Hfc Hin) as Cm. unfold cert_mark in Cm. rewrite Kc in Cm. exact Cm.
    + pose proof (Mc sb c Hfc Hin) as Cm. unfold cert_mark in Cm. rewrite Kc in Cm. exact Cm.
    + apply (Mf sb h Hfc).
      destruct (inv_cwf _ Iq sb) as (Kd & _). pose proof (field_of _ c Kd Hin) as Fo. rewrite Kc in Fo.
      pose proof (lk_slot _ _ _ (inv_link _ Iq) sb Hfc) as Sl. unfold slot_link_ss in Sl.
      destruct (sl_ff _ _ _ _ _ Sl h Fo) as [E|E]; [exact E|].
      exfalso. destruct Pl as [_ N]. destruct (N sb) as [_ N2]. apply (N2 h). exact E.
  - intros k Hk. destruct (Hsk k Hk) as (ck & Hck & Sk & Kk). destruct (Hf ck Hck) as [Hfk Hink]. rewrite Sk in Hfk, Hink.
    pose proof (Mc k ck Hfk Hink) as Cm. unfold cert_mark in Cm. rewrite Kk in Cm. exact Cm.
Qed.

Theorem reachable_bundle_ready_parents : forall e e' p l,
  pool_reachable e p -> incl l (bundle_certs p) -> incl (bundle_certs p) l -> in_window l = true ->
  let q := feed e' pool_init l in
  forall sb h w, sb < w -> is_window_start w = true ->
    bundle_certifies p sb h -> (forall k, sb < k < w -> bundle_skips p k) ->
    In (sb, h) (pt_parents_ready (p_prt q) w).
Proof.
  intros e e' p l R Sub Sup W. apply bundle_ready_parents; auto.
  - apply (reachable_INV e p R).
  - apply in_window_spec. exact W.
Qed.

(* ================= every reachable pool: a certificate held for an unpruned slot has set its mark ================= *)
Lemma avc_marks_cert e p c p' o :
  add_valid_cert e p c = Some (p', o) -> pool_ready_complete p ->
  marks_le (p_prt p) (p_prt p') /\ pool_ready_complete p' /\
  (pt_root (p_prt p') <= c_slot c -> cert_mark (p_prt p') (c_slot c) c).
Proof.
  intros AV PC. destruct PC as [RC Rr]. destruct (add_valid_cert_marks e p c p' o AV Rr) as [Le _].
  split; [exact Le|]. split; [apply (add_valid_cert_ready e p c p' o AV); split; assumption|].
  intros Hr. pose proof (cert_sets_mark e p c p' o AV Hr) as Cm. unfold cert_mark. destruct (c_kind c); auto.
Qed.

Lemma add_certs_marks e : forall cs p acc p' o,
  add_certs e p cs acc = Some (p', o) -> pool_ready_complete p ->
  marks_le (p_prt p) (p_prt p') /\ pool_ready_complete p' /\
  forall c, In (Some c) cs -> pt_root (p_prt p') <= c_slot c -> cert_mark (p_prt p') (c_slot c) c.
Proof.
  induction cs as [|oc l IH]; intros p acc p' o H PC; cbn [add_certs] in H.
  - injection H as <- _. split; [apply marks_le_refl|]. split; [exact PC | intros c []].
  - destruct oc as [c|]; [|discriminate]. destruct (add_valid_cert e p c) as [[p1 o1]|] eqn:AV; [|discriminate].
    destruct (avc_marks_cert e p c p1 o1 AV PC) as (L1 & PC1 & C1).
    destruct (IH _ _ _ _ H PC1) as (L2 & PC2 & C2).
    split; [eapply marks_le_trans; eassumption|]. split; [exact PC2|].
    intros c' [E|Hin] Hr; [|apply C2; assumption]. injection E as <-.
    apply (cert_mark_le (p_prt p1)); [exact L2 | exact Hr|]. apply C1. destruct L2 as [Rl _]. lia.
Qed.

Lemma wait_marks t s t' r : pt_wait t s = Some (t', r) -> marks_le t t'.
Proof.
  unfold pt_wait. destruct (pr_ready (pt_get t s)) as [ids|].
  - intros H. injection H as <- _. apply set_marks_le; cbn [pr_skip pr_nfs]; auto.
  - destruct (pr_waiting (pt_get t s)); [discriminate|]. intros H. injection H as <- _.
    apply set_marks_le; cbn [pr_skip pr_nfs]; auto.
Qed.

Record GM (p : pool) : Prop := {
  gm_ready : pool_ready_complete p;
  gm_certs : forall s c, first_unpruned p <= s -> In c (certs_of_slot (p_ss p s)) -> cert_mark (p_prt p) s c
}.
Lemma GM_init : GM pool_init.
Proof. split; [apply pool_init_ready | intros s c _ H; cbn in H; contradiction]. Qed.

(* no certificate added: marks grew, the watermark moved on, stores are the same or emptied *)
Lemma GM_frame p p' :
  GM p -> pool_ready_complete p' -> marks_le (p_prt p) (p_prt p') -> first_unpruned p <= first_unpruned p' ->
  (forall s, ss_c (p_ss p' s) = ss_c (p_ss p s) \/ ss_c (p_ss p' s) = ss_c ss_empty) -> GM p'.
Proof.
  intros [PC Mc] PC' Le Hf Hc. split; [exact PC'|]. intros s c Hs Hin. unfold certs_of_slot in Hin.
  destruct (Hc s) as [E|E]; rewrite E in Hin; [|cbn in Hin; contradiction].
  apply (cert_mark_le (p_prt p)); [exact Le | destruct PC' as [_ R]; lia | apply Mc; [lia | exact Hin]].
Qed.
Lemma cext_certs p p' : cext p p' -> forall s, ss_c (p_ss p' s) = ss_c (p_ss p s) \/ ss_c (p_ss p' s) = ss_c ss_empty.
Proof. intros X s. destruct (cx_certs _ _ X s) as [E|[E _]]; auto. Qed.

Lemma avc_GM e p c p' o : INV p -> GM p -> add_valid_cert e p c = Some (p', o) -> GM p'.
Proof.
  intros I [PC Mc] AV. destruct (avc_marks_cert e p c p' o AV PC) as (Le & PC' & Cm).
  destruct (add_valid_cert_INV e p c p' o I AV) as [I' T]. destruct (add_valid_cert_cext e p c p' o AV) as [_ [Mono _]].
  split; [exact PC'|]. intros s c' Hs Hin. destruct PC' as [_ R'].
  destruct (T s c' Hin) as [->|Hold].
  - destruct (inv_cwf _ I' s) as (_ & Sl & _). rewrite <- (Sl c Hin) in *. apply Cm. lia.
  - apply (cert_mark_le (p_prt p)); [exact Le | lia | apply Mc; [unfold first_unpruned in *; lia | exact Hold]].
Qed.
Lemma add_certs_GM e : forall cs p acc p' o, INV p -> GM p -> add_certs e p cs acc = Some (p', o) -> GM p'.
Proof.
  induction cs as [|oc l IH]; intros p acc p' o I G H; cbn [add_certs] in H.
  - injection H as <- _. exact G.
  - destruct oc as [c|]; [|discriminate]. destruct (add_valid_cert e p c) as [[p1 o1]|] eqn:AV; [|discriminate].
    apply (IH _ _ _ _ (proj1 (add_valid_cert_INV e p c p1 o1 I AV)) (avc_GM e p c p1 o1 I G AV) H).
Qed.

Theorem pool_step_GM : forall e p op,
  INV p -> GM p -> p_panicked (fst (fst (pool_step e p op))) = false -> GM (fst (fst (pool_step e p op))).
Proof.
  intros e p op I G Hp. pose proof (pool_step_ready e p op (gm_ready _ G) Hp) as PC'. revert Hp PC'.
  unfold pool_step. destruct (p_panicked p) eqn:Pp; [cbn; intros; congruence|].
  assert (Frame : forall p', cext p p' -> p_prt p' = p_prt p -> pool_ready_complete p' -> GM p').
  { intros p' X E PC'. apply (GM_frame p); auto; [rewrite E; apply marks_le_refl | apply (cx_first _ _ X) | apply cext_certs; exact X]. }
  destruct op as [vt|c|b par| |s|].
  - unfold pool_add_vote, pool_add_vote_gen.
    destruct (out_of_bounds p (v_slot vt)); [cbn; intros; exact G|].
    destruct (touch_same p (v_slot vt)) as [T1 T2]. set (p0 := p_touch p (v_slot vt)) in *.
    assert (X0 : cext p p0) by apply cext_touch.
    assert (S0 : p_ss p0 (v_slot vt) = p_ss p (v_slot vt)) by apply p_ss_touch. rewrite S0.
    destruct (check_slashable (p_ss p (v_slot vt)) vt); [cbn; intros _ PC'; apply Frame; assumption|].
    destruct (should_ignore (p_ss p (v_slot vt)) vt); [cbn; intros _ PC'; apply Frame; assumption|].
    pose proof (add_vote_certs_frame true e (p_ss p (v_slot vt)) vt) as Fr.
    destruct (ss_add_vote_gen true e (p_ss p (v_slot vt)) vt) as [ss' out]. cbn [fst] in Fr.
    set (p1 := p_set_ss p0 (v_slot vt) ss').
    assert (X1 : cext p p1) by (eapply cext_trans; [exact X0 | apply cext_set; rewrite S0; exact Fr]).
    assert (I1 : INV p1) by (apply (INV_same_ft p); [exact I | exact X1 | exact T2]).
    assert (G1 : GM p1) by (apply Frame; [exact X1 | exact T1 | apply (prc_same p); auto; apply (gm_ready _ G)]).
    destruct (add_certs e p1 (o_certs out) po_empty) as [[p2 o]|] eqn:AC; [|cbn; intros; congruence].
    cbn [fst]. intros _ _. apply (add_certs_GM e _ _ _ _ _ I1 G1 AC).
  - unfold pool_add_cert.
    destruct (out_of_bounds p (c_slot c)); [cbn; intros; exact G|].
    destruct (touch_same p (c_slot c)) as [T1 T2]. set (p0 := p_touch p (c_slot c)) in *.
    assert (X0 : cext p p0) by apply cext_touch.
    assert (G0 : GM p0) by (apply Frame; [exact X0 | exact T1 | apply (prc_same p); auto; apply (gm_ready _ G)]).
    assert (I0 : INV p0) by (apply (INV_same_ft p); assumption).
    destruct (cert_duplicate (p_ss p0 (c_slot c)) c); [cbn; intros; exact G0|].
    destruct (add_valid_cert e p0 c) as [[p1 o]|] eqn:AV; [|cbn; intros; congruence].
    cbn [fst]. intros _ _. apply (avc_GM e p0 c p1 o I0 G0 AV).
  - unfold pool_add_block, pool_add_block_gen.
    destruct (negb (fst par <? fst b)); [cbn; intros; congruence|].
    destruct (fst b <? first_unpruned p); [cbn; intros; exact G|].
    destruct (ft_add_parent (p_ft p) b par) as [[t ev]|] eqn:AP; [|cbn; intros; congruence].
    destruct (pool_handle_finalization (pool_with_ft p t) ev) as [[p1 o1]|] eqn:HF; [|cbn; intros; congruence].
    pose proof (ft_add_parent_first _ _ _ _ _ AP) as Mono.
    assert (Rw : pt_root (p_prt (pool_with_ft p t)) <= first_unpruned (pool_with_ft p t)).
    { destruct (gm_ready _ G) as [_ R]. unfold first_unpruned in *. cbn [pool_with_ft p_prt p_ft]. lia. }
    destruct (pool_hf_marks _ _ _ _ HF Rw) as [L1 _]. cbn [pool_with_ft p_prt] in L1.
    pose proof (cext_hf _ _ _ _ HF) as X1.
    assert (Via : forall p', cext p1 p' -> p_prt p' = p_prt p1 -> pool_ready_complete p' -> GM p').
    { intros p' X E PC'. apply (GM_frame p); auto.
      - rewrite E. exact L1.
      - pose proof (cx_first _ _ X1). pose proof (cx_first _ _ X). unfold first_unpruned in *. cbn [pool_with_ft p_ft] in *. lia.
      - intros s. destruct (cext_certs _ _ X s) as [E2|E2]; [|auto].
        destruct (cext_certs _ _ X1 s) as [E1|E1]; [left | right]; rewrite E2, E1; reflexivity. }
    destruct (fst b <? first_unpruned p1); [cbn [fst]; intros _ PC'; apply Via; [apply cext_refl | reflexivity | exact PC']|].
    set (p2 := p_set_ss p1 (fst b) (notify_parent_known (p_ss p1 (fst b)) (snd b))).
    assert (X2 : cext p1 p2) by (apply cext_set; apply known_certs).
    match goal with |- context [if ?c then _ else _] => destruct c end.
    + destruct (notify_parent_certified e (fst b) (p_ss p2 (fst b)) (snd b)) as [[[ss' evs] rps]|] eqn:NC; [|cbn; intros; congruence].
      assert (X3 : cext p1 (p_set_ss p2 (fst b) ss')).
      { eapply cext_trans; [exact X2|]. apply cext_set. apply (certified_certs _ _ _ _ _ NC). }
      destruct evs; destruct rps; cbn [fst]; intros _ PC'; apply Via; try exact PC'; try exact X3; try reflexivity.
      eapply cext_trans; [exact X3|]. apply cext_slots; [reflexivity | unfold first_unpruned; cbn; lia].
    + cbn [fst]. intros _ PC'. apply Via; [|reflexivity | exact PC'].
      eapply cext_trans; [exact X2|]. apply cext_slots; [reflexivity | unfold first_unpruned; cbn; lia].
  - unfold pool_standstill, pool_standstill_gen.
    destruct (get_final_certs p (finalized_slot p)); [destruct (true && (finalized_slot p =? 0))|]; cbn; intros; try congruence; exact G.
  - unfold pool_wait. destruct (pt_wait (p_prt p) s) as [[t r]|] eqn:W; cbn [fst]; [|cbn; intros; congruence].
    intros _ PC'. apply (GM_frame p); auto.
    + apply (wait_marks _ _ _ _ W).
    + unfold first_unpruned. cbn. lia.
  - cbn. intros; exact G.
Qed.

Theorem pool_run_GM : forall e ops p, INV p -> GM p -> p_panicked (pool_run e p ops) = false -> GM (pool_run e p ops).
Proof.
  intros e ops. induction ops as [|op l IH]; intros p I G Hp; cbn [pool_run] in *; [exact G|].
  assert (Hp1 : p_panicked (fst (fst (pool_step e p op))) = false).
  { destruct (p_panicked (fst (fst (pool_step e p op)))) eqn:E; [|reflexivity].
    rewrite (panicked_sticky e l _ E) in Hp. discriminate. }
  apply IH; [apply (pool_step_INV e p op I) | apply (pool_step_GM e p op I G Hp1) | exact Hp].
Qed.

(* the sender: the parents that notarization / notar-fallback certificates it holds certify, with held skip
   certificates up to a window start, are ready at the sender as well *)
Theorem sender_ready_parents : forall e p,
  pool_reachable e p -> p_panicked p = false ->
  forall sb h w, first_unpruned p <= sb -> sb < w -> is_window_start w = true ->
    (exists c, In c (certs_of_slot (p_ss p sb)) /\ (c_kind c = CNotar h \/ c_kind c = CNotarFb h)) ->
    (forall k, sb < k < w -> exists c, In c (certs_of_slot (p_ss p k)) /\ c_kind c = CSkip) ->
    In (sb, h) (pt_parents_ready (p_prt p) w).
Proof.
  intros e p [ops ->] Hp sb h w Hf Hlt Hw (c & Hc & Kc) Hsk.
  destruct (pool_run_GM e ops pool_init INV_init GM_init Hp) as [[RC Rr] Mc].
  apply RC; auto; [lia| |].
  - pose proof (Mc sb c Hf Hc) as Cm. unfold cert_mark in Cm. destruct Kc as [Kc|Kc]; rewrite Kc in Cm; exact Cm.
  - intros k Hk. destruct (Hsk k Hk) as (ck & Hck & Kk). pose proof (Mc k ck ltac:(lia) Hck) as Cm.
    unfold cert_mark in Cm. rewrite Kk in Cm. exact Cm.
Qed.

(* ... in particular those certified by the bundle's notarization / notar-fallback and skip certificates: sender and
   receiver agree on them *)
Theorem reachable_bundle_ready_parents_sender : forall e p,
  pool_reachable e p -> p_panicked p = false ->
  forall sb h w, sb < w -> is_window_start w = true ->
    (exists c, In c (bundle_certs p) /\ c_slot c = sb /\ (c_kind c = CNotar h \/ c_kind c = CNotarFb h)) ->
    (forall k, sb < k < w -> exists c, In c (bundle_certs p) /\ c_slot c = k /\ c_kind c = CSkip) ->
    In (sb, h) (pt_parents_ready (p_prt p) w).
Proof.
  intros e p R Hp sb h w Hlt Hw (c & Hc & Sc & Kc) Hsk. pose proof (reachable_INV e p R) as I.
  pose proof (lk_fh _ _ _ (inv_link _ I)) as Fh. fold (first_unpruned p) (finalized_slot p) in Fh.
  assert (Hh : forall c0, In c0 (bundle_certs p) -> first_unpruned p <= c_slot c0 /\ In c0 (certs_of_slot (p_ss p (c_slot c0)))).
  { intros c0 H0. destruct (bundle_certs_held p c0 I H0) as [Hin Hle]. split; [lia | exact Hin]. }
  destruct (Hh c Hc) as [Hf Hin]. rewrite Sc in Hf, Hin.
  apply (sender_ready_parents e p R Hp sb h w Hf Hlt Hw).
  - exists c. auto.
  - intros k Hk. destruct (Hsk k Hk) as (ck & Hck & Sk & Kk). destruct (Hh ck Hck) as [_ Hink]. rewrite Sk in Hink. eauto.
Qed.
