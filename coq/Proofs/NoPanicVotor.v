(* C10: the Votor model (Model/Votor.v) - the four assert!(slot >= first_unpruned_slot) of try_notar /
   try_final / try_skip_window are unreachable for EVERY input sequence; the only reachable assertion is
   set_timeouts' assert!(slot.is_start_of_window()), exactly on a ParentReady event for a slot that is not
   the first of its window (which the pool never emits: Proofs/NoPanicPool.v). *)
From Coq Require Import List NArith ZArith Bool Lia ZifyBool ZifyN.
From AG Require Import Gen.Params Model.Pool Model.Votor Proofs.SlotStateProofs Proofs.NoPanicBlockstore.
Import ListNotations.
Open Scope N_scope.

Module WinArith.
  Ltac Zify.zify_post_hook ::= Z.div_mod_to_equations.
  Lemma wf_le s : window_first s <= s.
  Proof. unfold window_first. change SLOTS_PER_WINDOW with 4. lia. Qed.
  Lemma wf_mono a b : a <= b -> window_first a <= window_first b.
  Proof. unfold window_first. change SLOTS_PER_WINDOW with 4. lia. Qed.
  Lemma wf_idem s : window_first (window_first s) = window_first s.
  Proof. unfold window_first. change SLOTS_PER_WINDOW with 4. lia. Qed.
  Lemma wf_start s : is_window_start (window_first s) = true.
  Proof. unfold is_window_start, window_first. change SLOTS_PER_WINDOW with 4. lia. Qed.
  Lemma start_fixed s : is_window_start s = true -> window_first s = s.
  Proof. unfold is_window_start, window_first. change SLOTS_PER_WINDOW with 4. lia. Qed.
End WinArith.
Import WinArith.

(* every retained slot lies at or above the first unpruned slot *)
Definition vinv (t : votor) : Prop := forall s x, In (s, x) (vt_slots t) -> v_first_unpruned t <= s.

Lemma vinv_init : vinv votor_init.
Proof. intros s x [E|[]]. injection E as <- <-. vm_compute. discriminate. Qed.

Lemma vinv_vset t s st : vinv t -> v_first_unpruned t <= s -> vinv (vset t s st).
Proof.
  intros I Hs s' x Hin. unfold vset in Hin. cbn [vt_slots] in Hin. apply ainsert_in in Hin.
  destruct Hin as [E|Hin]; [injection E as -> ->; exact Hs|exact (I s' x Hin)].
Qed.
Lemma fu_vset t s st : v_first_unpruned (vset t s st) = v_first_unpruned t. Proof. reflexivity. Qed.
Lemma pan_vset t s st : vt_panicked (vset t s st) = vt_panicked t. Proof. reflexivity. Qed.

(* outcome of a handler: defined, invariant kept, watermark and flag untouched *)
Definition good (t : votor) (r : vres) : Prop :=
  exists t' o, r = Some (t', o) /\ vinv t' /\ v_first_unpruned t' = v_first_unpruned t /\ vt_panicked t' = vt_panicked t.

Lemma try_final_good own t s h : vinv t -> v_first_unpruned t <= s -> good t (v_try_final own t s h).
Proof.
  intros I Hs. unfold v_try_final. destruct (s <? v_first_unpruned t) eqn:E; [lia|].
  match goal with |- context [if ?c then _ else _] => destruct c end.
  - eexists _, _. split; [reflexivity|]. split; [apply vinv_vset; assumption|split; reflexivity].
  - eexists _, _. split; [reflexivity|]. split; [exact I|split; reflexivity].
Qed.

Lemma try_notar_good own t s h p : vinv t -> v_first_unpruned t <= s ->
  exists t' o b, v_try_notar own t s h p = Some (t', o, b) /\ vinv t' /\
                 v_first_unpruned t' = v_first_unpruned t /\ vt_panicked t' = vt_panicked t.
Proof.
  intros I Hs. unfold v_try_notar. destruct (s <? v_first_unpruned t) eqn:E; [lia|].
  destruct (v_voted t s); [eexists _, _, _; split; [reflexivity|]; split; [exact I|split; reflexivity]|].
  match goal with |- context [if negb ?c then _ else _] => destruct c end; cbn [negb];
    [|eexists _, _, _; split; [reflexivity|]; split; [exact I|split; reflexivity]].
  match goal with |- context [v_try_final own ?t1 s h] =>
    destruct (try_final_good own t1 s h) as [t2 [o2 [E2 [I2 [F2 P2]]]]];
      [apply vinv_vset; assumption|rewrite fu_vset; exact Hs|] end.
  rewrite E2. eexists _, _, _. split; [reflexivity|]. split; [exact I2|].
  split; [rewrite F2; apply fu_vset|rewrite P2; apply pan_vset].
Qed.

Definition skip_f (own : vidx) := (fun (acc : votor * list vout) s' =>
                        let '(t', o) := acc in
                        if v_voted t' s' then acc
                        else let x := vstate t' s' in
                             (vset t' s' (mkVS true (vs_voted_notar x) true (vs_notarized x) (vs_parents x) (vs_shred x) (vs_pending x) (vs_retired x)),
                              o ++ [VBVote (mkVote s' KSkip own)])).
Lemma skip_fold_good own : forall slots t o fu pan,
  vinv t -> v_first_unpruned t = fu -> vt_panicked t = pan -> (forall s, In s slots -> fu <= s) ->
  vinv (fst (fold_left (skip_f own) slots (t, o))) /\ v_first_unpruned (fst (fold_left (skip_f own) slots (t, o))) = fu /\
  vt_panicked (fst (fold_left (skip_f own) slots (t, o))) = pan.
Proof.
  induction slots as [|a l IH]; intros t o fu pan I F P Hs; cbn [fold_left].
  - cbn. auto.
  - unfold skip_f at 2 4 6. destruct (v_voted t a).
    + apply IH; [exact I|exact F|exact P|intros s Hin; apply Hs; right; exact Hin].
    + cbv zeta. apply IH.
      * apply vinv_vset; [exact I|rewrite F; apply Hs; left; reflexivity].
      * exact F.
      * exact P.
      * intros s Hin; apply Hs; right; exact Hin.
Qed.

Lemma try_skip_window_good own t s : vinv t -> v_first_unpruned t <= s -> good t (v_try_skip_window own t s).
Proof.
  intros I Hs. unfold v_try_skip_window. destruct (s <? v_first_unpruned t) eqn:E; [lia|].
  fold (skip_f own).
  match goal with |- context [fold_left (skip_f own) ?l (t, [])] =>
    pose proof (skip_fold_good own l t [] (v_first_unpruned t) (vt_panicked t) I eq_refl eq_refl) as H;
    destruct (fold_left (skip_f own) l (t, [])) as [t' o'] eqn:Ef end.
  cbn [fst] in H. destruct H as [A [B C]].
  - intros s' Hin. apply seqN_in in Hin. pose proof (wf_mono _ _ Hs) as M. unfold v_first_unpruned in *. rewrite wf_idem in M. lia.
  - exists t', o'. split; [reflexivity|]. split; [exact A|split; [exact B|exact C]].
Qed.

Lemma check_pending_fold_good own : forall slots t o fu,
  vinv t -> v_first_unpruned t = fu -> (forall s, In s slots -> fu <= s) ->
  exists t' o', fold_left (fun (acc : vres) s =>
               match acc with
               | None => None
               | Some (t', o) =>
                 match vget t' s with
                 | Some x => match vs_pending x with
                             | Some (h, p) => match v_try_notar own t' s h p with
                                              | None => None
                                              | Some (t'', o', _) => Some (t'', o ++ o')
                                              end
                             | None => Some (t', o)
                             end
                 | None => Some (t', o)
                 end
               end) slots (Some (t, o)) = Some (t', o') /\
    vinv t' /\ v_first_unpruned t' = fu /\ vt_panicked t' = vt_panicked t.
Proof.
  induction slots as [|a l IH]; intros t o fu I F Hs; cbn [fold_left].
  - eexists _, _. split; [reflexivity|]. auto.
  - assert (Hl : forall s, In s l -> fu <= s) by (intros s Hin; apply Hs; right; exact Hin).
    destruct (vget t a) as [x|]; [|apply IH; assumption].
    destruct (vs_pending x) as [[h p]|]; [|apply IH; assumption].
    destruct (try_notar_good own t a h p I) as [t2 [o2 [b [E2 [I2 [F2 P2]]]]]]; [rewrite F; apply Hs; left; reflexivity|].
    rewrite E2. destruct (IH t2 (o ++ o2) fu I2 (eq_trans F2 F) Hl) as [t3 [o3 [E3 [I3 [F3 P3]]]]].
    exists t3, o3. split; [exact E3|]. split; [exact I3|split; [exact F3|rewrite P3; exact P2]].
Qed.

Lemma insert_sorted_in x l y : In y (slot_insert_sorted' x l) -> y = x \/ In y l.
Proof.
  induction l as [|z l IH]; cbn [slot_insert_sorted']; [intros [H|[]]; left; symmetry; exact H|].
  destruct (z <? x).
  - intros [H|H]; [right; left; exact H|]. destruct (IH H) as [H'|H']; [left; exact H'|right; right; exact H'].
  - intros [H|H]; [left; symmetry; exact H|right; exact H].
Qed.
Lemma sorted_in l y : In y (fold_right slot_insert_sorted' [] l) -> In y l.
Proof.
  induction l as [|x l IH]; cbn [fold_right]; [intros []|]. intros H. apply insert_sorted_in in H.
  destruct H as [->|H]; [left; reflexivity|right; apply IH, H].
Qed.

Lemma check_pending_good own t : vinv t -> good t (v_check_pending own t).
Proof.
  intros I. unfold v_check_pending.
  match goal with |- context [fold_left ?f ?slots (Some (t, []))] =>
    destruct (check_pending_fold_good own slots t [] (v_first_unpruned t) I eq_refl) as [t' [o' [E [A [B C]]]]] end.
  - intros s Hin. apply sorted_in in Hin. apply in_map_iff in Hin. destruct Hin as [[k v] [E Hin]]. cbn in E. subst k.
    apply filter_In in Hin. apply (I s v), Hin.
  - exists t', o'. split; [exact E|auto].
Qed.

Lemma vinv_prune t : vinv (v_prune t).
Proof.
  intros s x Hin. unfold v_prune, v_first_unpruned in *. cbn [vt_slots vt_highest] in *.
  apply filter_In in Hin. destruct Hin as [_ H]. cbn [fst] in H. apply N.leb_le in H. exact H.
Qed.

(* the one reachable assertion: ParentReady for a slot that does not start a window *)
Definition bad_parent_ready (t : votor) (i : vin) : bool :=
  match i with
  | VPool (EParentReady s p) => negb (v_should_ignore t (EParentReady s p)) && negb (is_window_start s)
  | _ => false
  end.

Theorem votor_step_panics_iff : forall own t i, vinv t -> vt_panicked t = false ->
  snd (votor_step own t i) = bad_parent_ready t i /\
  vinv (fst (fst (votor_step own t i))) /\
  vt_panicked (fst (fst (votor_step own t i))) = bad_parent_ready t i.
Proof.
  intros own t i I Hp. unfold votor_step. rewrite Hp.
  assert (Hold : forall s, v_old t s = false -> v_first_unpruned t <= s).
  { intros s H. unfold v_old in H. apply orb_false_iff in H. destruct H as [H _]. unfold v_first_unpruned. pose proof (wf_le (vt_highest t)). lia. }
  destruct i as [e|s|s|s h parent|s|s].
  - (* pool events *)
    unfold v_handle_pool. destruct (v_should_ignore t e) eqn:Ig.
    { assert (Hb : bad_parent_ready t (VPool e) = false) by (destruct e; cbn [bad_parent_ready]; try reflexivity; rewrite Ig; reflexivity).
      rewrite Hb. cbn. split; [reflexivity|split; [exact I|exact Hp]]. }
    destruct e as [s p|[s h]|s|c|s cs vs|s p].
    + (* ParentReady *)
      cbn [bad_parent_ready]. rewrite Ig. cbn [negb andb].
      assert (Hs : v_first_unpruned t <= s).
      { unfold v_should_ignore in Ig. cbn [pevent_slot] in Ig. apply orb_false_iff in Ig. lia. }
      match goal with |- context [v_check_pending own ?t1] =>
        destruct (check_pending_good own t1) as [t2 [o2 [E2 [I2 [F2 P2]]]]]; [apply vinv_vset; assumption|] end.
      rewrite E2. unfold v_set_timeouts. destruct (is_window_start s); cbn [negb].
      * cbn. split; [reflexivity|split; [exact I2|rewrite P2; exact Hp]].
      * cbn. split; [reflexivity|split; [exact I|reflexivity]].
    + (* SafeToNotar *)
      assert (Hs : v_first_unpruned t <= s).
      { unfold v_should_ignore in Ig. cbn [pevent_slot fst] in Ig. apply orb_false_iff in Ig. lia. }
      destruct (try_skip_window_good own t s I Hs) as [t1 [o1 [E1 [I1 [F1 P1]]]]]. rewrite E1.
      cbn. split; [reflexivity|]. split; [apply vinv_vset; [exact I1|rewrite F1; exact Hs]|]. rewrite P1. exact Hp.
    + assert (Hs : v_first_unpruned t <= s).
      { unfold v_should_ignore in Ig. cbn [pevent_slot] in Ig. apply orb_false_iff in Ig. lia. }
      destruct (try_skip_window_good own t s I Hs) as [t1 [o1 [E1 [I1 [F1 P1]]]]]. rewrite E1.
      cbn. split; [reflexivity|]. split; [apply vinv_vset; [exact I1|rewrite F1; exact Hs]|]. rewrite P1. exact Hp.
    + (* CertCreated *)
      assert (Hs : v_first_unpruned t <= c_slot c).
      { unfold v_should_ignore in Ig. cbn [pevent_slot] in Ig. lia. }
      unfold v_handle_cert. destruct (c_kind c) as [h|h| |h|].
      * match goal with |- context [v_try_final own ?t1 _ h] =>
          destruct (try_final_good own t1 (c_slot c) h) as [t2 [o2 [E2 [I2 [F2 P2]]]]];
            [apply vinv_vset; assumption|rewrite fu_vset; exact Hs|] end.
        rewrite E2. cbn. split; [reflexivity|split; [exact I2|rewrite P2; exact Hp]].
      * cbn. split; [reflexivity|split; [exact I|exact Hp]].
      * cbn. split; [reflexivity|split; [exact I|exact Hp]].
      * unfold v_set_timeouts. rewrite wf_start. cbn. split; [reflexivity|split; [apply vinv_prune|exact Hp]].
      * unfold v_set_timeouts. rewrite wf_start. cbn. split; [reflexivity|split; [apply vinv_prune|exact Hp]].
    + cbn. split; [reflexivity|split; [exact I|exact Hp]].
    + cbn. split; [reflexivity|split; [exact I|exact Hp]].
  - (* FirstShred *)
    cbn [bad_parent_ready]. destruct (v_old t s) eqn:O; [cbn; auto|].
    cbn. split; [reflexivity|]. split; [apply vinv_vset; [exact I|apply Hold, O]|exact Hp].
  - cbn [bad_parent_ready]. destruct (v_old t s) eqn:O; [cbn; auto|].
    destruct (try_skip_window_good own t s I (Hold s O)) as [t1 [o1 [E1 [I1 [F1 P1]]]]]. rewrite E1.
    cbn. split; [reflexivity|split; [exact I1|rewrite P1; exact Hp]].
  - (* Block *)
    cbn [bad_parent_ready]. destruct (v_old t s) eqn:O; [cbn; auto|]. destruct (v_voted t s); [cbn; auto|].
    destruct (try_notar_good own t s h parent I (Hold s O)) as [t1 [o1 [b [E1 [I1 [F1 P1]]]]]]. rewrite E1.
    destruct b.
    + destruct (check_pending_good own t1 I1) as [t2 [o2 [E2 [I2 [F2 P2]]]]]. rewrite E2.
      cbn. split; [reflexivity|split; [exact I2|rewrite P2, P1; exact Hp]].
    + cbn. split; [reflexivity|]. split; [apply vinv_vset; [exact I1|rewrite F1; apply Hold, O]|rewrite P1; exact Hp].
  - cbn [bad_parent_ready]. destruct (v_old t s) eqn:O; [cbn; auto|]. destruct (v_voted t s); [cbn; auto|].
    destruct (try_skip_window_good own t s I (Hold s O)) as [t1 [o1 [E1 [I1 [F1 P1]]]]]. rewrite E1.
    cbn. split; [reflexivity|split; [exact I1|rewrite P1; exact Hp]].
  - cbn [bad_parent_ready]. destruct (v_old t s) eqn:O; [cbn; auto|].
    destruct (negb (v_shred t s) && negb (v_voted t s)); [|cbn; auto].
    destruct (try_skip_window_good own t s I (Hold s O)) as [t1 [o1 [E1 [I1 [F1 P1]]]]]. rewrite E1.
    cbn. split; [reflexivity|split; [exact I1|rewrite P1; exact Hp]].
Qed.

(* ---------- all input sequences ---------- *)
Definition votor_run (own : vidx) (ins : list vin) : votor :=
  fold_left (fun t i => fst (fst (votor_step own t i))) ins votor_init.

Definition parent_ready_on_window_start (i : vin) : bool :=
  match i with VPool (EParentReady s _) => is_window_start s | _ => true end.

Theorem votor_never_panics : forall own ins,
  forallb parent_ready_on_window_start ins = true ->
  vt_panicked (votor_run own ins) = false /\ vinv (votor_run own ins).
Proof.
  intros own ins. unfold votor_run.
  assert (H0 : vt_panicked votor_init = false /\ vinv votor_init) by (split; [reflexivity|apply vinv_init]).
  revert H0. generalize votor_init. induction ins as [|i ins IH]; intros t [Hp I] Hall; cbn [fold_left]; [auto|].
  cbn [forallb] in Hall. apply andb_true_iff in Hall. destruct Hall as [Hi Hrest].
  destruct (votor_step_panics_iff own t i I Hp) as [_ [I' P']].
  apply IH; [|exact Hrest]. split; [|exact I']. rewrite P'.
  destruct i as [e| | | | |]; try reflexivity. destruct e; try reflexivity. cbn [bad_parent_ready parent_ready_on_window_start] in *.
  rewrite Hi. apply andb_false_r.
Qed.

(* ... and the one assertion is reachable if a ParentReady for another slot ever arrives *)
Theorem votor_misaligned_parent_ready_refuted :
  snd (votor_step 0 votor_init (VPool (EParentReady 5 (4, 1)))) = true.
Proof. vm_compute. reflexivity. Qed.
