(* C06 through the pool (Model/Pool.v, PoolImpl part): every slot state of a reachable pool is a reachable
   slot state, the waiting-children map delivers the parent's certificate to every registered child
   (cross-slot trigger), and the pool's events are raised exactly when a sent-flag flips. *)
From Coq Require Import List NArith Bool Lia ZifyBool ZifyNat ZifyN.
From AG Require Import Gen.Params Model.Pool Model.PoolSpec Model.SafeToSpec
  Proofs.SlotStateProofs Proofs.SafeToProofs Proofs.TrackerProofs Proofs.SafeToComplete.
Import ListNotations.
Open Scope N_scope.

(* ---------- association lists keyed by block ids ---------- *)
Lemma bid_eqb_eq a b : bid_eqb a b = true <-> a = b.
Proof.
  unfold bid_eqb. destruct a as [a1 a2], b as [b1 b2]. cbn [fst snd]. split.
  - intros H. apply andb_prop in H. destruct H as [H1 H2]. apply N.eqb_eq in H1, H2. congruence.
  - intros H. injection H as -> ->. rewrite !N.eqb_refl. reflexivity.
Qed.
Lemma bid_eqb_refl a : bid_eqb a a = true.
Proof. apply bid_eqb_eq. reflexivity. Qed.
Lemma bid_eqb_neq a b : bid_eqb a b = false <-> a <> b.
Proof.
  split.
  - intros H E. apply bid_eqb_eq in E. congruence.
  - intros H. destruct (bid_eqb a b) eqn:E; [|reflexivity]. apply bid_eqb_eq in E. contradiction.
Qed.

Lemma blookup_binsert_same {V} k (v : V) m : blookup k (binsert k v m) = Some v.
Proof.
  induction m as [|[k' v'] m IH]; cbn [binsert blookup].
  - rewrite bid_eqb_refl. reflexivity.
  - destruct (bid_eqb k k') eqn:E; cbn [blookup]; [rewrite bid_eqb_refl; reflexivity|].
    rewrite E. exact IH.
Qed.
Lemma blookup_binsert_other {V} k k' (v : V) m : k <> k' -> blookup k (binsert k' v m) = blookup k m.
Proof.
  intros Hne. induction m as [|[k2 v2] m IH]; cbn [binsert blookup].
  - apply bid_eqb_neq in Hne. rewrite Hne. reflexivity.
  - destruct (bid_eqb k' k2) eqn:E2; cbn [blookup].
    + apply bid_eqb_eq in E2. subst k2. apply bid_eqb_neq in Hne. rewrite Hne. reflexivity.
    + destruct (bid_eqb k k2); [reflexivity | exact IH].
Qed.
Lemma blookup_filter_key {V} (f : blockid -> bool) k (m : list (blockid * V)) :
  blookup k (filter (fun kv => f (fst kv)) m) = if f k then blookup k m else None.
Proof.
  induction m as [|[k' v'] m IH]; cbn [filter blookup fst].
  - destruct (f k); reflexivity.
  - destruct (f k') eqn:Ek; cbn [blookup].
    + destruct (bid_eqb k k') eqn:E; [|exact IH]. apply bid_eqb_eq in E. subst. rewrite Ek. reflexivity.
    + destruct (bid_eqb k k') eqn:E; [|exact IH]. apply bid_eqb_eq in E. subst. rewrite Ek in *. exact IH.
Qed.
Lemma alookup_filter_key {V} (f : N -> bool) k (m : list (N * V)) :
  alookup k (filter (fun kv => f (fst kv)) m) = if f k then alookup k m else None.
Proof.
  induction m as [|[k' v'] m IH]; cbn [filter alookup fst].
  - destruct (f k); reflexivity.
  - destruct (f k') eqn:Ek; cbn [alookup].
    + destruct (k =? k') eqn:E; [|exact IH]. apply N.eqb_eq in E. subst. rewrite Ek. reflexivity.
    + destruct (k =? k') eqn:E; [|exact IH]. apply N.eqb_eq in E. subst. rewrite Ek in *. exact IH.
Qed.
Lemma in_bremove {V} b k (v : V) m : In (k, v) (bremove b m) <-> In (k, v) m /\ k <> b.
Proof.
  unfold bremove. rewrite filter_In. cbn [fst]. split; intros [H1 H2]; split; auto.
  - intros E. subst. rewrite bid_eqb_refl in H2. discriminate.
  - apply negb_true_iff. apply bid_eqb_neq. congruence.
Qed.

(* ---------- slot states of a pool ---------- *)
Lemma p_ss_set p s x s' : p_ss (p_set_ss p s x) s' = if s' =? s then x else p_ss p s'.
Proof.
  unfold p_ss, p_set_ss, aget. cbn [p_slots]. destruct (s' =? s) eqn:E.
  - apply N.eqb_eq in E. subst. rewrite alookup_ainsert_same. reflexivity.
  - rewrite alookup_ainsert_other by (apply N.eqb_neq; exact E). reflexivity.
Qed.
Lemma p_ss_touch p s s' : p_ss (p_touch p s) s' = p_ss p s'.
Proof.
  unfold p_touch. destruct (alookup s (p_slots p)) eqn:E; [reflexivity|].
  rewrite p_ss_set. destruct (s' =? s) eqn:E2; [|reflexivity].
  apply N.eqb_eq in E2. subst. unfold p_ss, aget. rewrite E. reflexivity.
Qed.
Lemma p_touch_frame p s : p_ft (p_touch p s) = p_ft p /\ p_waiting (p_touch p s) = p_waiting p
  /\ p_prt (p_touch p s) = p_prt p /\ p_panicked (p_touch p s) = p_panicked p.
Proof. unfold p_touch. destruct (alookup s (p_slots p)); repeat split; reflexivity. Qed.
Lemma p_ss_prune p s : p_ss (pool_prune p) s = if first_unpruned p <=? s then p_ss p s else ss_empty.
Proof.
  unfold p_ss, pool_prune, aget. cbn [p_slots].
  rewrite (alookup_filter_key (fun k => first_unpruned p <=? k)).
  destruct (first_unpruned p <=? s); reflexivity.
Qed.

(* ---------- the finality tracker only prunes and inserts parent links ---------- *)
Definition ft_le (t t' : ftracker) : Prop :=
  ft_first t <= ft_first t' /\
  forall b, ft_first t' <= fst b -> blookup b (ft_parents t') = blookup b (ft_parents t).

Lemma ft_le_same t t' : ft_parents t' = ft_parents t -> ft_first t' = ft_first t -> ft_le t t'.
Proof. intros E1 E2. unfold ft_le. rewrite E1, E2. split; [lia | auto]. Qed.
Lemma ft_le_trans a b c : ft_le a b -> ft_le b c -> ft_le a c.
Proof.
  intros [A1 A2] [B1 B2]. split; [lia|]. intros x Hx. rewrite B2 by exact Hx. apply A2. lia.
Qed.
Lemma ft_le_prune t : ft_le t (ft_prune t).
Proof.
  split; [apply ft_prune_spec|]. intros b Hb. unfold ft_prune in *. cbn [ft_parents ft_first] in *.
  rewrite (blookup_filter_key (fun k => ft_advance (length (ft_status t)) (ft_status t) (ft_first t) <=? fst k)).
  cbv beta. match goal with |- (if ?c then _ else _) = _ => destruct c eqn:E end; [reflexivity|].
  apply N.leb_gt in E. unfold slot, hash, blockid in *. lia.
Qed.

Lemma ft_skip_between_frame : forall slots t ev t' ev' fl,
  ft_skip_between t ev slots = Some (t', ev', fl) -> ft_parents t' = ft_parents t /\ ft_first t' = ft_first t.
Proof.
  induction slots as [|s rest IH]; intros t ev t' ev' fl H; cbn [ft_skip_between] in H.
  - injection H as <- <- <-. split; reflexivity.
  - destruct (alookup s (ft_status t)) as [[h| |h|h|]|]; try discriminate;
      try (injection H as <- <- <-; split; reflexivity);
      (apply IH in H; destruct H as [H1 H2]; split; [rewrite H1 | rewrite H2]; reflexivity).
Qed.

Lemma ft_handle_impl_frame : forall fuel t source b ev t' ev',
  ft_handle_impl fuel t source b ev = Some (t', ev') -> ft_parents t' = ft_parents t /\ ft_first t' = ft_first t.
Proof.
  induction fuel as [|f IH]; intros t source b ev t' ev' H; cbn [ft_handle_impl] in H; [discriminate|].
  destruct (negb (fst b <? source)); [discriminate|].
  destruct (fst b <? ft_first t); [injection H as <- <-; split; reflexivity|].
  destruct (ft_skip_between t ev (seqN (fst b + 1) (N.to_nat (source - fst b - 1)))) as [[[t1 ev1] fl]|] eqn:E; [|discriminate].
  apply ft_skip_between_frame in E. destruct E as [E1 E2].
  destruct fl; [injection H as <- <-; split; assumption|].
  assert (C : forall t3 ev2, ft_parents t3 = ft_parents t -> ft_first t3 = ft_first t ->
              match blookup b (ft_parents t3) with
              | Some p => ft_handle_impl f t3 (fst b) p ev2
              | None => Some (t3, ev2)
              end = Some (t', ev') -> ft_parents t' = ft_parents t /\ ft_first t' = ft_first t).
  { intros t3 ev2 P1 P2 H3. destruct (blookup b (ft_parents t3)).
    - apply IH in H3. destruct H3 as [H31 H32]. split; congruence.
    - injection H3 as <- <-. split; assumption. }
  destruct (alookup (fst b) (ft_status t1)) as [[h| |h|h|]|];
    try discriminate;
    try (destruct (h =? snd b); [|discriminate]);
    try (injection H as <- <-; split; assumption);
    (eapply C; [| |exact H]; assumption).
Qed.

Lemma ft_le_finalized_block t b ev t' ev' :
  ft_handle_finalized_block t b ev = Some (t', ev') -> ft_le t t'.
Proof.
  unfold ft_handle_finalized_block. cbn [ft_parents].
  destruct (blookup b (ft_parents t)) as [p|].
  - destruct (ft_handle_impl _ _ _ _ _) as [[t2 ev2]|] eqn:E; [|discriminate].
    intros H. injection H as <- <-. apply ft_handle_impl_frame in E. destruct E as [E1 E2].
    eapply ft_le_trans; [|apply ft_le_prune]. apply ft_le_same; assumption.
  - intros H. injection H as <- <-. eapply ft_le_trans; [|apply ft_le_prune]. apply ft_le_same; reflexivity.
Qed.

Lemma ft_le_set_status t s st : ft_le t (ft_set_status t s st).
Proof. apply ft_le_same; reflexivity. Qed.

Lemma ft_le_mark_fast_finalized t b t' ev : ft_mark_fast_finalized t b = Some (t', ev) -> ft_le t t'.
Proof.
  unfold ft_mark_fast_finalized. destruct (fst b <? ft_first t); [intros H; injection H as <- <-; apply ft_le_same; reflexivity|].
  destruct (alookup (fst b) (ft_status t)) as [[h| |h|h|]|]; try discriminate;
    try (destruct (h =? snd b); [|discriminate]);
    try (intros H; injection H as <- <-; apply ft_le_set_status);
    (intros H; apply ft_le_finalized_block in H; eapply ft_le_trans; [apply ft_le_set_status | exact H]).
Qed.

Lemma ft_le_mark_notarized t b t' ev : ft_mark_notarized t b = Some (t', ev) -> ft_le t t'.
Proof.
  unfold ft_mark_notarized. destruct (fst b <? ft_first t); [intros H; injection H as <- <-; apply ft_le_same; reflexivity|].
  destruct (alookup (fst b) (ft_status t)) as [[h| |h|h|]|]; try discriminate;
    try (destruct (h =? snd b); [|discriminate]);
    try (intros H; injection H as <- <-; apply ft_le_same; reflexivity).
  intros H. apply ft_le_finalized_block in H. eapply ft_le_trans; [|exact H]. apply ft_le_same; reflexivity.
Qed.

Lemma ft_le_mark_finalized t s t' ev : ft_mark_finalized t s = Some (t', ev) -> ft_le t t'.
Proof.
  unfold ft_mark_finalized. destruct (s <? ft_first t); [intros H; injection H as <- <-; apply ft_le_same; reflexivity|].
  destruct (alookup s (ft_status t)) as [[h| |h|h|]|]; try discriminate;
    try (intros H; injection H as <- <-; apply ft_le_same; reflexivity).
  intros H. apply ft_le_finalized_block in H. eapply ft_le_trans; [|exact H]. apply ft_le_same; reflexivity.
Qed.

(* add_parent: the new link is recorded (unless the block's slot is already pruned), nothing else changes *)
Lemma ft_add_parent_spec t b par t' ev : ft_add_parent t b par = Some (t', ev) ->
  ft_first t <= ft_first t' /\
  (forall x, ft_first t' <= fst x -> x <> b -> blookup x (ft_parents t') = blookup x (ft_parents t)) /\
  (ft_first t' <= fst b -> blookup b (ft_parents t') = Some par).
Proof.
  unfold ft_add_parent. destruct (negb (fst par <? fst b)); [discriminate|].
  destruct (fst b <? ft_first t) eqn:Eb.
  { intros H. injection H as <- <-. split; [lia|]. split; [auto|]. intros. lia. }
  destruct (blookup b (ft_parents t)) as [p'|] eqn:L.
  { destruct (bid_eqb par p') eqn:E; [|discriminate]. apply bid_eqb_eq in E. subst p'.
    intros H. injection H as <- <-. split; [lia|]. split; auto. }
  set (t1 := mkFT (ft_status t) (binsert b par (ft_parents t)) (ft_highest t) (ft_first t)).
  assert (B1 : forall t2, ft_le t1 t2 ->
          ft_first t <= ft_first t2 /\
          (forall x, ft_first t2 <= fst x -> x <> b -> blookup x (ft_parents t2) = blookup x (ft_parents t)) /\
          (ft_first t2 <= fst b -> blookup b (ft_parents t2) = Some par)).
  { intros t2 [A1 A2]. cbn [ft_first ft_parents t1] in A1, A2. split; [exact A1|]. split.
    - intros x Hx Hne. rewrite A2 by exact Hx. apply blookup_binsert_other. exact Hne.
    - intros Hb. rewrite A2 by exact Hb. apply blookup_binsert_same. }
  assert (B0 : ft_le t1 t1) by (apply ft_le_same; reflexivity).
  change (ft_status t1) with (ft_status t).
  destruct (alookup (fst b) (ft_status t)) as [[h| |h|h|]|];
    try (intros H; injection H as <- <-; apply B1; exact B0).
  - destruct (h =? snd b); [|intros H; injection H as <- <-; apply B1; exact B0].
    destruct (ft_handle_impl (ft_fuel t1) t1 (fst b) par fe_empty) as [[t2 ev2]|] eqn:E; [|discriminate].
    intros H. injection H as <- <-. apply B1. apply ft_handle_impl_frame in E. destruct E as [E1 E2].
    eapply ft_le_trans; [|apply ft_le_prune]. apply ft_le_same; assumption.
  - destruct (h =? snd b); [|intros H; injection H as <- <-; apply B1; exact B0].
    destruct (ft_handle_impl (ft_fuel t1) t1 (fst b) par fe_empty) as [[t2 ev2]|] eqn:E; [|discriminate].
    intros H. injection H as <- <-. apply B1. apply ft_handle_impl_frame in E. destruct E as [E1 E2].
    eapply ft_le_trans; [|apply ft_le_prune]. apply ft_le_same; assumption.
Qed.

(* ---------- the parent-ready tracker raises no safe-to-notar / safe-to-skip events ---------- *)
Definition no_safe (x : pevent) : Prop :=
  match x with ESafeToNotar _ | ESafeToSkip _ => False | _ => True end.

Lemma count_no_safe evs : Forall no_safe evs ->
  (forall b, ev_count (is_s2n b) evs = O) /\ (forall s, ev_count (is_s2s s) evs = O).
Proof.
  induction 1 as [|x l Hx Hl [IH1 IH2]]; [split; reflexivity|].
  split; intros y; cbn [ev_count]; rewrite ?IH1, ?IH2; destruct x; cbn in *; try reflexivity; contradiction.
Qed.

Lemma pr_events_no_safe l : Forall no_safe (pr_events l).
Proof. unfold pr_events. induction l; cbn [map]; constructor; [exact I | assumption]. Qed.

Lemma add_to_ready_no_safe t s id t' w : pr_add_to_ready t s id = Some (t', w) -> Forall no_safe w.
Proof.
  unfold pr_add_to_ready. destruct (pr_ready (pt_get t s)) as [ids|].
  - destruct (existsb (bid_eqb id) ids); [discriminate|]. intros H. injection H as <- <-. constructor.
  - intros H. injection H as <- <-. destruct (pr_waiting (pt_get t s)); repeat constructor.
Qed.

Definition ready_fold (s : slot) :=
  (fun (r : ptres) p =>
     match r with
     | None => None
     | Some (t', acc', wk') =>
       match pr_add_to_ready t' s p with
       | None => None
       | Some (t'', w) => Some (t'', acc' ++ [(s, p)], wk' ++ w)
       end
     end).

Lemma ready_fold_none s l : fold_left (ready_fold s) l None = None.
Proof. induction l; [reflexivity | exact IHl]. Qed.

Lemma ready_fold_no_safe s : forall l t acc wk t1 acc1 wk1,
  fold_left (ready_fold s) l (Some (t, acc, wk)) = Some (t1, acc1, wk1) -> Forall no_safe wk -> Forall no_safe wk1.
Proof.
  induction l as [|p l IH]; intros t acc wk t1 acc1 wk1 H Hw; cbn [fold_left] in H.
  - injection H as <- <- <-. exact Hw.
  - unfold ready_fold at 2 in H. destruct (pr_add_to_ready t s p) as [[t2 w]|] eqn:E.
    + apply (IH _ _ _ _ _ _ H). apply Forall_app. split; [exact Hw|]. eapply add_to_ready_no_safe; eassumption.
    + rewrite ready_fold_none in H. discriminate.
Qed.

Lemma propagate_no_safe : forall fuel t s parents acc wk t' acc' wk',
  pt_propagate fuel t s parents acc wk = Some (t', acc', wk') -> Forall no_safe wk -> Forall no_safe wk'.
Proof.
  induction fuel as [|f IH]; intros t s parents acc wk t' acc' wk' H Hw; cbn [pt_propagate] in H; [discriminate|].
  match type of H with match ?X with _ => _ end = _ => destruct X as [[[t1 acc1] wk1]|] eqn:E end; [|discriminate].
  change (fold_left _ parents (Some (t, acc, wk))) with (fold_left (ready_fold s) parents (Some (t, acc, wk))) in E.
  assert (Hw1 : Forall no_safe wk1).
  { destruct (is_window_start s).
    - eapply ready_fold_no_safe; eassumption.
    - injection E as <- <- <-. exact Hw. }
  destruct (pr_skip (pt_get t1 s)).
  - eapply IH; eassumption.
  - injection H as <- <- <-. exact Hw1.
Qed.

Lemma mark_nf_no_safe t id t' prs wk : pt_mark_notar_fallback t id = Some (t', prs, wk) -> Forall no_safe wk.
Proof.
  unfold pt_mark_notar_fallback. destruct id as [s h].
  destruct (s <? pt_root t); [intros H; injection H as <- <- <-; constructor|].
  destruct (memN h (pr_nfs (pt_get t s))); [intros H; injection H as <- <- <-; constructor|].
  intros H. eapply propagate_no_safe; [exact H | constructor].
Qed.

Lemma mark_skipped_no_safe t s t' prs wk : pt_mark_skipped t s = Some (t', prs, wk) -> Forall no_safe wk.
Proof.
  unfold pt_mark_skipped.
  destruct (s <? pt_root t); [intros H; injection H as <- <- <-; constructor|].
  destruct (pr_skip (pt_get t s)); [intros H; injection H as <- <- <-; constructor|].
  intros H. eapply propagate_no_safe; [exact H | constructor].
Qed.

Definition pt_seq (r : ptres) (f : prtracker -> ptres) : ptres :=
  match r with
  | None => None
  | Some (t', acc, wk) =>
    match f t' with None => None | Some (t'', a, w) => Some (t'', acc ++ a, wk ++ w) end
  end.

Lemma pt_seq_no_safe r f t' acc wk :
  (forall t0 t1 a w, f t0 = Some (t1, a, w) -> Forall no_safe w) ->
  (forall t0 a0 w0, r = Some (t0, a0, w0) -> Forall no_safe w0) ->
  pt_seq r f = Some (t', acc, wk) -> Forall no_safe wk.
Proof.
  intros Hf Hr. unfold pt_seq. destruct r as [[[t0 a0] w0]|]; [|discriminate].
  destruct (f t0) as [[[t1 a] w]|] eqn:E; [|discriminate]. intros H. injection H as <- <- <-.
  apply Forall_app. split; [eapply Hr; reflexivity | eapply Hf; eassumption].
Qed.

Lemma pt_seq_fold_no_safe {A} (g : A -> prtracker -> ptres) :
  (forall x t0 t1 a w, g x t0 = Some (t1, a, w) -> Forall no_safe w) ->
  forall l r t' acc wk,
  (forall t0 a0 w0, r = Some (t0, a0, w0) -> Forall no_safe w0) ->
  fold_left (fun r x => pt_seq r (g x)) l r = Some (t', acc, wk) -> Forall no_safe wk.
Proof.
  intros Hg. induction l as [|x l IH]; intros r t' acc wk Hr H; cbn [fold_left] in H.
  - eapply Hr. exact H.
  - eapply IH; [|exact H]. intros t0 a0 w0 E. eapply pt_seq_no_safe; [apply Hg | exact Hr | exact E].
Qed.

Lemma handle_fin_no_safe t ev t' prs wk : pt_handle_finalization t ev = Some (t', prs, wk) -> Forall no_safe wk.
Proof.
  unfold pt_handle_finalization. fold pt_seq.
  match goal with |- match ?r with _ => _ end = _ -> _ => destruct r as [[[t3 acc3] wk3]|] eqn:E3 end; [|discriminate].
  intros H. injection H as <- <- <-.
  revert E3.
  apply (pt_seq_fold_no_safe (fun s t0 => pt_mark_skipped t0 s)).
  { intros x t0 t1 a w. apply mark_skipped_no_safe. }
  intros t0 a0 w0.
  apply (pt_seq_fold_no_safe (fun b t0 => pt_mark_notar_fallback t0 b)).
  { intros x t1 t2 a w. apply mark_nf_no_safe. }
  intros t1 a1 w1. destruct (fe_final ev) as [b|].
  - destruct (pt_mark_notar_fallback t b) as [[[t2 a2] w2]|] eqn:E2; [|discriminate].
    intros E. injection E as <- <- <-. cbn [app]. eapply mark_nf_no_safe. exact E2.
  - intros E. injection E as <- <- <-. constructor.
Qed.

(* ---------- pool-level invariants ---------- *)
Definition slots_reach (e : epoch) (p : pool) : Prop := forall s, ss_reach e (p_ss p s).

Definition child_status (p : pool) (b : blockid) : option bool :=
  alookup (snd b) (pa_status (ss_n (p_ss p (fst b)))).

(* every registered child of a retained slot either knows its parent certified, or waits in the
   waiting-children map for a parent the pool holds no certificate for ([ex]: the one parent whose
   certificate is being processed right now) *)
Definition link_inv (p : pool) (ex : option blockid) : Prop :=
  forall b par, blookup b (ft_parents (p_ft p)) = Some par -> first_unpruned p <= fst b ->
    child_status p b = Some true \/
    (child_status p b = Some false /\ In (par, b) (p_waiting p)
     /\ (holds_parent_certb p par = false \/ ex = Some par)).

(* events of a pool operation = flips of sent-flags of retained slots *)
Record pflips (F : slot) (p p' : pool) (evs : list pevent) : Prop := mkPFlips {
  pf_sent : forall b, F <= fst b -> pool_s2n_sentb p b = true -> pool_s2n_sentb p' b = true;
  pf_s2s : forall s, F <= s -> pool_s2s_sentb p s = true -> pool_s2s_sentb p' s = true;
  pf_n : forall b, F <= fst b ->
         ev_count (is_s2n b) evs = b2n (pool_s2n_sentb p' b && negb (pool_s2n_sentb p b));
  pf_s : forall s, F <= s ->
         ev_count (is_s2s s) evs = b2n (pool_s2s_sentb p' s && negb (pool_s2s_sentb p s)) }.

Lemma flip_same1 b : b2n (b && negb b) = O.
Proof. destruct b; reflexivity. Qed.

Lemma pflips_same F p p' evs :
  (forall s, F <= s -> p_ss p' s = p_ss p s) -> Forall no_safe evs -> pflips F p p' evs.
Proof.
  intros Hs Hn. destruct (count_no_safe evs Hn) as [C1 C2].
  constructor; unfold pool_s2n_sentb, pool_s2s_sentb.
  - intros b Hb. assert (E := Hs _ Hb). unfold slot, hash, blockid in *. rewrite E. auto.
  - intros s Hb. assert (E := Hs _ Hb). unfold slot, hash, blockid in *. rewrite E. auto.
  - intros b Hb. assert (E := Hs _ Hb). unfold slot, hash, blockid in *. rewrite E, C1, flip_same1. reflexivity.
  - intros s Hb. assert (E := Hs _ Hb). unfold slot, hash, blockid in *. rewrite E, C2, flip_same1. reflexivity.
Qed.

Lemma pflips_trans F a b c n1 n2 : pflips F a b n1 -> pflips F b c n2 -> pflips F a c (n1 ++ n2).
Proof.
  intros H1 H2. destruct H1, H2. constructor; auto.
  - intros x Hx. rewrite ev_count_app, pf_n0, pf_n1 by exact Hx.
    specialize (pf_sent0 x Hx). specialize (pf_sent1 x Hx).
    destruct (pool_s2n_sentb a x); destruct (pool_s2n_sentb b x); destruct (pool_s2n_sentb c x);
      cbn; try reflexivity; try (specialize (pf_sent0 eq_refl)); try (specialize (pf_sent1 eq_refl)); discriminate.
  - intros x Hx. rewrite ev_count_app, pf_s0, pf_s1 by exact Hx.
    specialize (pf_s2s0 x Hx). specialize (pf_s2s1 x Hx).
    destruct (pool_s2s_sentb a x); destruct (pool_s2s_sentb b x); destruct (pool_s2s_sentb c x);
      cbn; try reflexivity; try (specialize (pf_s2s0 eq_refl)); try (specialize (pf_s2s1 eq_refl)); discriminate.
Qed.

(* one slot's state replaced by the result of slot-level operations *)
Lemma pflips_slot F p p' s ss' evs :
  (forall s', p_ss p' s' = if s' =? s then ss' else p_ss p s') ->
  flips s (p_ss p s) ss' evs -> pflips F p p' evs.
Proof.
  intros Hs [A B C D _]. constructor; unfold pool_s2n_sentb, pool_s2s_sentb; unfold slot, hash, blockid in *.
  - intros b _. rewrite Hs. destruct (fst b =? s) eqn:E; [|auto]. apply N.eqb_eq in E. rewrite E. apply A.
  - intros x _. rewrite Hs. destruct (x =? s) eqn:E; [|auto]. apply N.eqb_eq in E. rewrite E. apply B.
  - intros b _. rewrite C, Hs. destruct (fst b =? s) eqn:E; cbn [andb].
    + apply N.eqb_eq in E. rewrite E. reflexivity.
    + rewrite flip_same1. reflexivity.
  - intros x _. rewrite D, Hs. destruct (x =? s) eqn:E; cbn [andb].
    + apply N.eqb_eq in E. rewrite E. reflexivity.
    + rewrite flip_same1. reflexivity.
Qed.

Lemma pflips_src_ext F q p p' evs : (forall s, p_ss q s = p_ss p s) -> pflips F q p' evs -> pflips F p p' evs.
Proof.
  intros Hs [A B C D]. unfold pool_s2n_sentb, pool_s2s_sentb in *.
  constructor; unfold pool_s2n_sentb, pool_s2s_sentb.
  - intros b Hb. rewrite <- Hs. apply A. exact Hb.
  - intros s Hb. rewrite <- Hs. apply B. exact Hb.
  - intros b Hb. rewrite <- Hs. apply C. exact Hb.
  - intros s Hb. rewrite <- Hs. apply D. exact Hb.
Qed.

Definition pgood (e : epoch) (p p' : pool) (evs : list pevent) : Prop :=
  first_unpruned p <= first_unpruned p' /\
  (slots_reach e p -> slots_reach e p') /\
  (forall F, first_unpruned p' <= F -> pflips F p p' evs).

Lemma pgood_trans e a b c n1 n2 : pgood e a b n1 -> pgood e b c n2 -> pgood e a c (n1 ++ n2).
Proof.
  intros (A1 & A2 & A3) (B1 & B2 & B3). split; [lia|]. split; [auto|].
  intros F HF. eapply pflips_trans; [apply A3; lia | apply B3; exact HF].
Qed.

Lemma pgood_refl e p : pgood e p p [].
Proof.
  split; [lia|]. split; [auto|]. intros F _. apply pflips_same; [reflexivity | constructor].
Qed.

Lemma pgood_same e p p' evs :
  first_unpruned p' = first_unpruned p -> (forall s, p_ss p' s = p_ss p s) -> Forall no_safe evs -> pgood e p p' evs.
Proof.
  intros Hf Hs Hn. split; [lia|]. split.
  - intros R s. rewrite Hs. apply R.
  - intros F _. apply pflips_same; auto.
Qed.

Lemma pgood_slot e p p' s ss' evs :
  first_unpruned p' = first_unpruned p ->
  (forall s', p_ss p' s' = if s' =? s then ss' else p_ss p s') ->
  (ss_reach e (p_ss p s) -> ss_reach e ss') ->
  flips s (p_ss p s) ss' evs -> pgood e p p' evs.
Proof.
  intros Hf Hs Hr Hfl. split; [lia|]. split.
  - intros R s'. rewrite Hs. destruct (s' =? s); [apply Hr; apply R | apply R].
  - intros F _. eapply pflips_slot; eassumption.
Qed.

Lemma pgood_app_no_safe e a b n m : pgood e a b n -> Forall no_safe m -> pgood e a b (n ++ m).
Proof. intros H Hm. eapply pgood_trans; [exact H|]. apply pgood_same; auto. Qed.
Lemma pgood_no_safe_app e a b n m : Forall no_safe m -> pgood e a b n -> pgood e a b (m ++ n).
Proof. intros Hm H. eapply pgood_trans; [|exact H]. apply pgood_same; auto. Qed.

(* ---------- finalization handling: prunes, raises nothing ---------- *)
Lemma phf_spec p ev p' o : pool_handle_finalization p ev = Some (p', o) ->
  exists t, p' = pool_prune (mkPool (p_slots p) t (p_ft p) (p_waiting p) (p_panicked p))
            /\ Forall no_safe (po_events o).
Proof.
  unfold pool_handle_finalization. destruct (pt_handle_finalization (p_prt p) ev) as [[[t prs] wk]|] eqn:E; [|discriminate].
  intros H. injection H as <- <-. exists t. split; [reflexivity|]. cbn [po_events].
  apply Forall_app. split; [eapply handle_fin_no_safe; exact E | apply pr_events_no_safe].
Qed.

Lemma nf_or_stronger_ext ss ss' h : ss_c ss' = ss_c ss -> is_nf_or_stronger ss' h = is_nf_or_stronger ss h.
Proof. intros E. unfold is_nf_or_stronger, is_notar_fallback. rewrite E. reflexivity. Qed.
Lemma nf_or_stronger_empty h : is_nf_or_stronger ss_empty h = false.
Proof. reflexivity. Qed.

Lemma ft_step e p t' ev p1 o1 :
  ft_le (p_ft p) t' -> pool_handle_finalization (pool_with_ft p t') ev = Some (p1, o1) ->
  pgood e p p1 (po_events o1) /\ (forall ex, link_inv p ex -> link_inv p1 ex)
  /\ p_panicked p1 = p_panicked p /\ p_ft p1 = t' /\ p_waiting p1 = p_waiting p.
Proof.
  intros [L1 L2] H. apply phf_spec in H. destruct H as (t & -> & Hn).
  cbn [pool_with_ft p_slots p_ft p_waiting p_panicked].
  set (q := mkPool (p_slots p) t t' (p_waiting p) (p_panicked p)).
  assert (Hss : forall s, p_ss (pool_prune q) s = if ft_first t' <=? s then p_ss p s else ss_empty).
  { intros s. rewrite p_ss_prune. reflexivity. }
  assert (Hf : first_unpruned (pool_prune q) = ft_first t') by reflexivity.
  split; [|split; [|split; [|split]]]; try reflexivity.
  - split; [rewrite Hf; exact L1|]. split.
    + intros R s. rewrite Hss. destruct (ft_first t' <=? s); [apply R | apply reach_empty].
    + intros F HF. rewrite Hf in HF. apply pflips_same; [|exact Hn].
      intros s Hs. rewrite Hss. assert (E : (ft_first t' <=? s) = true) by (apply N.leb_le; lia). rewrite E. reflexivity.
  - intros ex K b par Hb Hfb. rewrite Hf in Hfb. change (p_ft (pool_prune q)) with t' in Hb.
    rewrite L2 in Hb by exact Hfb.
    assert (Hfb0 : first_unpruned p <= fst b) by (unfold first_unpruned; lia).
    assert (Hst : child_status (pool_prune q) b = child_status p b).
    { unfold child_status. rewrite Hss. assert (E : (ft_first t' <=? fst b) = true) by (apply N.leb_le; exact Hfb).
      rewrite E. reflexivity. }
    rewrite Hst. change (p_waiting (pool_prune q)) with (p_waiting p).
    destruct (K b par Hb Hfb0) as [A|(A & B & C)]; [left; exact A|]. right. split; [exact A|]. split; [exact B|].
    destruct C as [C|C]; [|right; exact C]. left.
    unfold holds_parent_certb in *. apply orb_false_elim in C. destruct C as [Cg Cn]. rewrite Cg. cbn [orb].
    rewrite Hss. destruct (ft_first t' <=? fst par); [exact Cn | reflexivity].
Qed.

(* ---------- a slot state replaced without touching parent statuses ---------- *)
Lemma link_inv_set_ss p s ss' ex ex' :
  pa_status (ss_n ss') = pa_status (ss_n (p_ss p s)) ->
  (forall h, is_nf_or_stronger ss' h = true -> is_nf_or_stronger (p_ss p s) h = true \/ ex' = Some (s, h)) ->
  (ex = None \/ ex = ex') ->
  link_inv p ex -> link_inv (p_set_ss p s ss') ex'.
Proof.
  intros Hpa Hh Hex K b par Hb Hfb.
  change (p_ft (p_set_ss p s ss')) with (p_ft p) in Hb.
  change (first_unpruned (p_set_ss p s ss')) with (first_unpruned p) in Hfb.
  change (p_waiting (p_set_ss p s ss')) with (p_waiting p).
  assert (Hst : child_status (p_set_ss p s ss') b = child_status p b).
  { unfold child_status. rewrite p_ss_set. destruct (fst b =? s) eqn:E; [|reflexivity].
    apply N.eqb_eq in E. rewrite E, Hpa. reflexivity. }
  rewrite Hst. destruct (K b par Hb Hfb) as [A|(A & B & C)]; [left; exact A|]. right. split; [exact A|]. split; [exact B|].
  destruct C as [C|C].
  - unfold holds_parent_certb in *. apply orb_false_elim in C. destruct C as [Cg Cn]. rewrite Cg. cbn [orb].
    rewrite p_ss_set. destruct (fst par =? s) eqn:E; [|left; exact Cn].
    apply N.eqb_eq in E. destruct (is_nf_or_stronger ss' (snd par)) eqn:N; [|left; reflexivity].
    destruct (Hh _ N) as [N'|N']; [rewrite <- E in N'; congruence|].
    right. rewrite N', <- E. destruct par; reflexivity.
  - right. destruct Hex as [Hex|Hex]; congruence.
Qed.

Definition cert_block (c : cert) : option blockid :=
  match cert_hash c with Some h => Some (c_slot c, h) | None => None end.

Lemma existsb_app_single {A} (f : A -> bool) l x : existsb f (l ++ [x]) = existsb f l || f x.
Proof. rewrite existsb_app. cbn [existsb]. rewrite orb_false_r. reflexivity. Qed.

Lemma add_cert_holds ss c h : is_nf_or_stronger (ss_add_cert ss c) h = true ->
  is_nf_or_stronger ss h = true \/ cert_hash c = Some h.
Proof.
  unfold ss_add_cert. destruct (c_kind c) as [h0|h0| |h0|] eqn:K; auto;
    (assert (Hc : cert_hash c = Some h0) by (unfold cert_hash; rewrite K; reflexivity)).
  - unfold is_nf_or_stronger, is_notar_fallback. cbn [ss_c with_c ce_notar ce_ff ce_nf]. rewrite Hc.
    destruct (h0 =? h) eqn:E; [apply N.eqb_eq in E; subst; auto|]. intros H. left. lia.
  - destruct (is_notar_fallback ss h0) eqn:N; [auto|].
    unfold is_nf_or_stronger, is_notar_fallback. cbn [ss_c with_c ce_notar ce_ff ce_nf].
    rewrite existsb_app_single. rewrite Hc.
    destruct (h0 =? h) eqn:E; [apply N.eqb_eq in E; subst; auto|]. intros H. left. lia.
  - unfold is_nf_or_stronger, is_notar_fallback. cbn [ss_c with_c ce_notar ce_ff ce_nf]. rewrite Hc.
    destruct (h0 =? h) eqn:E; [apply N.eqb_eq in E; subst; auto|]. intros H. left. lia.
Qed.

(* ---------- notifying waiting children ---------- *)
Lemma npc_spec e s ss h ss' evs rps : notify_parent_certified e s ss h = Some (ss', evs, rps) ->
  (forall x, alookup x (pa_status (ss_n ss')) = if x =? h then Some true else alookup x (pa_status (ss_n ss)))
  /\ ss_c ss' = ss_c ss /\ flips s ss ss' evs.
Proof.
  unfold notify_parent_certified. destruct (alookup h (pa_status (ss_n ss))) eqn:L; [|discriminate].
  intros H. injection H as H. destruct (s2n_try_ext _ _ _ _ _ _ _ H) as (X & _).
  split; [|split].
  - intros x. rewrite (ex_pa _ _ _ _ _ X). cbn [set_parents with_n ss_n pa_status].
    destruct (x =? h) eqn:E.
    + apply N.eqb_eq in E. subst. apply alookup_ainsert_same.
    + apply alookup_ainsert_other. apply N.eqb_neq. exact E.
  - rewrite (ex_c _ _ _ _ _ X). reflexivity.
  - apply (ext_flips e s ss (set_parents ss (ainsert h true (pa_status (ss_n ss))))); [reflexivity | reflexivity | exact X].
Qed.

Lemma notify_children_spec e : forall children p acc p' out,
  notify_children e p children acc = Some (p', out) ->
  p_ft p' = p_ft p /\ p_waiting p' = p_waiting p /\ p_panicked p' = p_panicked p /\ p_prt p' = p_prt p /\
  (forall b, child_status p' b = if existsb (bid_eqb b) children && (first_unpruned p <=? fst b)
                                 then Some true else child_status p b) /\
  (forall s, ss_c (p_ss p' s) = ss_c (p_ss p s)) /\
  exists new, po_events out = po_events acc ++ new /\ pgood e p p' new.
Proof.
  unfold notify_children.
  induction children as [|[cs ch] rest IH]; intros p acc p' out H; cbn [notify_children_gen andb] in H.
  - injection H as <- <-. repeat split; auto. exists []. rewrite app_nil_r. split; [reflexivity | apply pgood_refl].
  - destruct (cs <? first_unpruned p) eqn:Ecs.
    { (* the child's slot was pruned: skipped, the pool is unchanged *)
      destruct (IH _ _ _ _ H) as (A1 & A2 & A3 & A3' & A4 & A5 & new & A6 & A7).
      repeat (split; [assumption|]). split; [|split; [exact A5 | exists new; split; assumption]].
      intros b. rewrite A4. cbn [existsb].
      destruct (bid_eqb b (cs, ch)) eqn:Eb; cbn [orb]; [|reflexivity].
      apply bid_eqb_eq in Eb. subst b. cbn [fst].
      assert (Q : (first_unpruned p <=? cs) = false) by (apply N.leb_gt; apply N.ltb_lt; exact Ecs).
      rewrite Q, andb_false_r. reflexivity. }
    destruct (notify_parent_certified e cs (p_ss (p_touch p cs) cs) ch) as [[[ss' evs] rps]|] eqn:E; [|discriminate].
    rewrite p_ss_touch in E. destruct (npc_spec _ _ _ _ _ _ _ E) as (N1 & N2 & N3).
    destruct (p_touch_frame p cs) as (T1 & T2 & T3 & T4).
    set (p1 := p_set_ss (p_touch p cs) cs ss') in *.
    assert (Hss : forall s', p_ss p1 s' = if s' =? cs then ss' else p_ss p s').
    { intros s'. unfold p1. rewrite p_ss_set, p_ss_touch. reflexivity. }
    assert (Hf1 : first_unpruned p1 = first_unpruned p).
    { unfold p1, first_unpruned. change (p_ft (p_set_ss (p_touch p cs) cs ss')) with (p_ft (p_touch p cs)). rewrite T1. reflexivity. }
    destruct (IH _ _ _ _ H) as (A1 & A2 & A3 & A3' & A4 & A5 & new & A6 & A7).
    split; [rewrite A1; exact T1|]. split; [rewrite A2; exact T2|]. split; [rewrite A3; exact T4|].
    split; [rewrite A3'; exact T3|]. split; [|split].
    + intros b. rewrite A4, Hf1. cbn [existsb].
      destruct (existsb (bid_eqb b) rest && (first_unpruned p <=? fst b)) eqn:Er.
      * apply andb_prop in Er. destruct Er as [Er1 Er2]. rewrite Er1, Er2, orb_true_r. reflexivity.
      * assert (Q : (first_unpruned p <=? cs) = true) by (apply N.leb_le; apply N.ltb_ge; exact Ecs).
        assert (Hx : (bid_eqb b (cs, ch) || existsb (bid_eqb b) rest) && (first_unpruned p <=? fst b)
                     = bid_eqb b (cs, ch) && (first_unpruned p <=? fst b)).
        { destruct (bid_eqb b (cs, ch)); destruct (existsb (bid_eqb b) rest); destruct (first_unpruned p <=? fst b);
            cbn in *; congruence. }
        rewrite Hx. unfold child_status. rewrite Hss.
        destruct (bid_eqb b (cs, ch)) eqn:Eb.
        -- apply bid_eqb_eq in Eb. subst b. cbn [fst snd]. rewrite N.eqb_refl, N1, N.eqb_refl, Q. reflexivity.
        -- cbn [andb]. destruct (fst b =? cs) eqn:E1; [|reflexivity]. rewrite N1.
           destruct (snd b =? ch) eqn:E2; [|apply N.eqb_eq in E1; rewrite E1; reflexivity]. exfalso. apply bid_eqb_neq in Eb. apply Eb.
           apply N.eqb_eq in E1, E2. destruct b. cbn in *. congruence.
    + intros s. rewrite A5, Hss. destruct (s =? cs) eqn:E1; [|reflexivity].
      apply N.eqb_eq in E1. subst. exact N2.
    + exists (evs ++ new). split; [rewrite A6; cbn [po_app po_events]; rewrite app_assoc; reflexivity|].
      eapply pgood_trans; [|exact A7].
      apply (pgood_slot e p p1 cs ss' evs); auto.
      intros R. apply (reach_certified e (p_ss p cs) cs ch _ R E).
Qed.

Lemma nwc_spec e p b0 p' o ex :
  notify_waiting_children e p b0 = Some (p', o) -> (ex = None \/ ex = Some b0) -> link_inv p ex ->
  link_inv p' None /\ pgood e p p' (po_events o) /\ p_panicked p' = p_panicked p
  /\ p_ft p' = p_ft p /\ p_prt p' = p_prt p
  /\ (forall x, In x (p_waiting p') -> In x (p_waiting p)).
Proof.
  unfold notify_waiting_children, notify_waiting_children_gen. fold notify_children. intros H Hex K.
  set (p1 := mkPool (p_slots p) (p_prt p) (p_ft p) (bremove b0 (p_waiting p)) (p_panicked p)) in *.
  set (children := map snd (filter (fun kv => bid_eqb b0 (fst kv)) (p_waiting p))) in *.
  destruct (notify_children_spec e _ _ _ _ _ H) as (A1 & A2 & A3 & Hprt & A4 & A5 & new & A6 & A7).
  cbn [po_empty po_events app] in A6. rewrite A6.
  split; [|split; [|split; [|split; [|split]]]]; [| |exact A3|exact A1|exact Hprt|].
  - intros b par Hb Hfb. rewrite A1 in Hb. unfold first_unpruned in Hfb. rewrite A1 in Hfb.
    rewrite A4, A2.
    assert (Q : (first_unpruned p1 <=? fst b) = true) by (apply N.leb_le; exact Hfb). rewrite Q, andb_true_r.
    destruct (existsb (bid_eqb b) children) eqn:Ex; [left; reflexivity|].
    change (child_status p1 b) with (child_status p b).
    destruct (K b par Hb Hfb) as [A|(A & B & C)]; [left; exact A|]. right. split; [exact A|].
    assert (Hne : par <> b0).
    { intros ->. assert (In b children).
      { unfold children. apply in_map_iff. exists (b0, b). split; [reflexivity|]. apply filter_In. split; [exact B|].
        apply bid_eqb_refl. }
      assert (existsb (bid_eqb b) children = true) by (apply existsb_exists; exists b; split; [assumption | apply bid_eqb_refl]).
      congruence. }
    split; [apply in_bremove; split; assumption|]. left.
    destruct C as [C|C]; [|destruct Hex as [Hex|Hex]; congruence].
    unfold holds_parent_certb in *. rewrite nf_or_stronger_ext with (ss := p_ss p (fst par)); [exact C|].
    rewrite A5. reflexivity.
  - destruct A7 as (G1 & G2 & G3). split; [exact G1|]. split; [exact G2|].
    intros F HF. apply (pflips_src_ext F p1 p); [reflexivity | apply G3; exact HF].
  - intros [k v] Hx. rewrite A2 in Hx. apply in_bremove in Hx. tauto.
Qed.

Lemma pgood_tgt_ext e a b b' n :
  first_unpruned b' = first_unpruned b -> (forall s, p_ss b' s = p_ss b s) -> pgood e a b n -> pgood e a b' n.
Proof.
  intros Hf Hs G. rewrite <- (app_nil_r n). eapply pgood_trans; [exact G|]. apply pgood_same; auto.
Qed.

(* ---------- add_valid_cert ---------- *)
Lemma add_valid_cert_spec e p c p' o :
  add_valid_cert e p c = Some (p', o) -> link_inv p None ->
  link_inv p' None /\ pgood e p p' (po_events o) /\ p_panicked p' = p_panicked p.
Proof.
  unfold add_valid_cert. intros H K. cbv zeta beta in H.
  set (s := c_slot c) in *. set (p0 := p_set_ss p s (ss_add_cert (p_ss p s) c)) in *.
  assert (K0 : link_inv p0 (cert_block c)).
  { apply (link_inv_set_ss p s _ None (cert_block c)); auto.
    - rewrite add_cert_n. reflexivity.
    - intros h Hh. destruct (add_cert_holds _ _ _ Hh) as [A|A]; [left; exact A|]. right.
      unfold cert_block. rewrite A. reflexivity. }
  assert (G0 : pgood e p p0 []).
  { apply (pgood_slot e p p0 s (ss_add_cert (p_ss p s) c)); auto.
    - intros s'. apply p_ss_set.
    - intros R. apply reach_cert. exact R.
    - apply flips_same; rewrite add_cert_n; reflexivity. }
  assert (Ce : Forall no_safe [ECertCreated c]) by (repeat constructor).
  destruct (c_kind c) as [h|h| |h|] eqn:Kc.
  - (* notarization *)
    assert (Cb : cert_block c = Some (s, h)) by (unfold cert_block, cert_hash; rewrite Kc; reflexivity).
    destruct (ft_mark_notarized (p_ft p0) (s, h)) as [[t ev]|] eqn:E1; [|discriminate].
    destruct (pool_handle_finalization (pool_with_ft p0 t) ev) as [[p1 o1]|] eqn:E2; [|discriminate].
    destruct (notify_waiting_children e p1 (s, h)) as [[p2 o2]|] eqn:E3; [|discriminate].
    destruct (pt_mark_notar_fallback (p_prt p2) (s, h)) as [[[t2 prs] wk]|] eqn:E4; [|discriminate].
    injection H as <- <-.
    destruct (ft_step e p0 t ev p1 o1 (ft_le_mark_notarized _ _ _ _ E1) E2) as (G1 & K1 & P1 & _).
    destruct (nwc_spec e p1 (s, h) p2 o2 (cert_block c) E3 (or_intror Cb) (K1 _ K0)) as (K2 & G2 & P2 & _).
    split; [exact K2|]. split; [|cbn [pool_with_prt p_panicked]; rewrite P2, P1; reflexivity].
    cbn [po_app po_events].
    apply pgood_app_no_safe; [|exact Ce].
    apply pgood_app_no_safe; [|apply Forall_app; split; [eapply mark_nf_no_safe; exact E4 | apply pr_events_no_safe]].
    apply (pgood_tgt_ext e p p2); [reflexivity | reflexivity|].
    pose proof (pgood_trans _ _ _ _ _ _ (pgood_trans _ _ _ _ _ _ G0 G1) G2) as G. exact G.
  - (* notar-fallback *)
    assert (Cb : cert_block c = Some (s, h)) by (unfold cert_block, cert_hash; rewrite Kc; reflexivity).
    destruct (notify_waiting_children e p0 (s, h)) as [[p2 o2]|] eqn:E3; [|discriminate].
    destruct (pt_mark_notar_fallback (p_prt p2) (s, h)) as [[[t2 prs] wk]|] eqn:E4; [|discriminate].
    injection H as <- <-.
    destruct (nwc_spec e p0 (s, h) p2 o2 (cert_block c) E3 (or_intror Cb) K0) as (K2 & G2 & P2 & _).
    split; [exact K2|]. split; [|cbn [pool_with_prt p_panicked]; rewrite P2; reflexivity].
    cbn [po_app po_events po_empty app].
    apply pgood_app_no_safe; [|exact Ce].
    apply pgood_app_no_safe; [|apply Forall_app; split; [eapply mark_nf_no_safe; exact E4 | apply pr_events_no_safe]].
    apply (pgood_tgt_ext e p p2); [reflexivity | reflexivity|].
    pose proof (pgood_trans _ _ _ _ _ _ G0 G2) as G. exact G.
  - (* skip *)
    assert (Cb : cert_block c = None) by (unfold cert_block, cert_hash; rewrite Kc; reflexivity).
    destruct (pt_mark_skipped (p_prt p0) s) as [[[t2 prs] wk]|] eqn:E4; [|discriminate].
    injection H as <- <-. rewrite Cb in K0.
    split; [exact K0|]. split; [|reflexivity].
    cbn [po_app po_events].
    apply pgood_app_no_safe; [|exact Ce].
    apply (pgood_tgt_ext e p p0); [reflexivity | reflexivity|].
    apply (pgood_app_no_safe e p p0 [] (wk ++ pr_events prs) G0).
    apply Forall_app; split; [eapply mark_skipped_no_safe; exact E4 | apply pr_events_no_safe].
  - (* fast finalization *)
    assert (Cb : cert_block c = Some (s, h)) by (unfold cert_block, cert_hash; rewrite Kc; reflexivity).
    destruct (ft_mark_fast_finalized (p_ft p0) (s, h)) as [[t ev]|] eqn:E1; [|discriminate].
    destruct (pool_handle_finalization (pool_with_ft p0 t) ev) as [[p1 o1]|] eqn:E2; [|discriminate].
    destruct (notify_waiting_children e p1 (s, h)) as [[p2 o2]|] eqn:E3; [|discriminate].
    injection H as <- <-.
    destruct (ft_step e p0 t ev p1 o1 (ft_le_mark_fast_finalized _ _ _ _ E1) E2) as (G1 & K1 & P1 & _).
    destruct (nwc_spec e p1 (s, h) p2 o2 (cert_block c) E3 (or_intror Cb) (K1 _ K0)) as (K2 & G2 & P2 & _).
    split; [exact K2|]. split; [|rewrite P2, P1; reflexivity].
    cbn [po_app po_events].
    apply pgood_app_no_safe; [|exact Ce].
    pose proof (pgood_trans _ _ _ _ _ _ (pgood_trans _ _ _ _ _ _ G0 G1) G2) as G. exact G.
  - (* finalization *)
    assert (Cb : cert_block c = None) by (unfold cert_block, cert_hash; rewrite Kc; reflexivity).
    destruct (ft_mark_finalized (p_ft p0) s) as [[t ev]|] eqn:E1; [|discriminate].
    destruct (pool_handle_finalization (pool_with_ft p0 t) ev) as [[p1 o1]|] eqn:E2; [|discriminate].
    injection H as <- <-. rewrite Cb in K0.
    destruct (ft_step e p0 t ev p1 o1 (ft_le_mark_finalized _ _ _ _ E1) E2) as (G1 & K1 & P1 & _).
    split; [apply K1; exact K0|]. split; [|rewrite P1; reflexivity].
    cbn [po_app po_events].
    apply pgood_app_no_safe; [|exact Ce].
    pose proof (pgood_trans _ _ _ _ _ _ G0 G1) as G. exact G.
Qed.

(* ---------- generic transfer of the link invariant ---------- *)
Definition link_at (p : pool) (ex : option blockid) (b par : blockid) : Prop :=
  child_status p b = Some true \/
  (child_status p b = Some false /\ In (par, b) (p_waiting p)
   /\ (holds_parent_certb p par = false \/ ex = Some par)).

Lemma link_inv_at p ex : link_inv p ex <->
  (forall b par, blookup b (ft_parents (p_ft p)) = Some par -> first_unpruned p <= fst b -> link_at p ex b par).
Proof. reflexivity. Qed.

Lemma link_at_transfer p q ex b par :
  (child_status q b = child_status p b \/ child_status q b = Some true) ->
  (forall x, In x (p_waiting p) -> In x (p_waiting q)) ->
  (holds_parent_certb q par = true -> holds_parent_certb p par = true) ->
  link_at p ex b par -> link_at q ex b par.
Proof.
  intros Hst Hw Hh [A|(A & B & C)].
  - left. destruct Hst as [-> | ->]; auto.
  - destruct Hst as [Hst|Hst]; [|left; exact Hst]. right. rewrite Hst. split; [exact A|]. split; [auto|].
    destruct C as [C|C]; [|right; exact C]. left.
    destruct (holds_parent_certb q par) eqn:E; [|reflexivity]. rewrite (Hh eq_refl) in C. discriminate.
Qed.

Lemma link_inv_ext p q ex :
  p_ft q = p_ft p -> (forall x, In x (p_waiting p) -> In x (p_waiting q)) -> (forall s, p_ss q s = p_ss p s) ->
  link_inv p ex -> link_inv q ex.
Proof.
  intros Hf Hw Hs K b par Hb Hfb. unfold first_unpruned in Hfb. rewrite Hf in Hb, Hfb.
  apply (link_at_transfer p q); auto.
  - left. unfold child_status. rewrite Hs. reflexivity.
  - unfold holds_parent_certb. rewrite Hs. auto.
  - apply K; assumption.
Qed.

Lemma ev_count_comm f a b : ev_count f (a ++ b) = ev_count f (b ++ a).
Proof. rewrite !ev_count_app. lia. Qed.

Lemma pgood_perm e a b n m : (forall f, ev_count f n = ev_count f m) -> pgood e a b n -> pgood e a b m.
Proof.
  intros Hc (G1 & G2 & G3). split; [exact G1|]. split; [exact G2|].
  intros F HF. destruct (G3 F HF) as [A B C D]. constructor; auto.
  - intros x Hx. rewrite <- Hc. apply C. exact Hx.
  - intros x Hx. rewrite <- Hc. apply D. exact Hx.
Qed.

(* ---------- add_certs ---------- *)
Lemma add_certs_spec e : forall cs p acc p' o,
  add_certs e p cs acc = Some (p', o) -> link_inv p None ->
  link_inv p' None /\ p_panicked p' = p_panicked p /\
  exists new, po_events o = po_events acc ++ new /\ pgood e p p' new.
Proof.
  induction cs as [|[c|] cs IH]; intros p acc p' o H K; cbn [add_certs] in H.
  - injection H as <- <-. split; [exact K|]. split; [reflexivity|]. exists []. rewrite app_nil_r.
    split; [reflexivity | apply pgood_refl].
  - destruct (add_valid_cert e p c) as [[p1 o1]|] eqn:E; [|discriminate].
    destruct (add_valid_cert_spec e p c p1 o1 E K) as (K1 & G1 & P1).
    destruct (IH _ _ _ _ H K1) as (K2 & P2 & new & E2 & G2).
    split; [exact K2|]. split; [congruence|]. exists (po_events o1 ++ new).
    split; [rewrite E2; cbn [po_app po_events]; rewrite app_assoc; reflexivity|].
    eapply pgood_trans; eassumption.
  - discriminate.
Qed.

(* ---------- pool_add_vote ---------- *)
Lemma pool_add_vote_spec e p vt p' res o :
  pool_add_vote e p vt = (p', res, o) -> p_panicked p' = false -> link_inv p None ->
  link_inv p' None /\ pgood e p p' (po_events o).
Proof.
  unfold pool_add_vote, pool_add_vote_gen. intros H Hnp K.
  destruct (out_of_bounds p (v_slot vt)); [injection H as <- <- <-; split; [exact K | apply pgood_refl]|].
  set (s := v_slot vt) in *. set (p0 := p_touch p s) in *.
  destruct (p_touch_frame p s) as (T1 & T2 & T3 & T4).
  assert (K0 : link_inv p0 None).
  { apply (link_inv_ext p p0 None T1); [intros x Hx; unfold p0; rewrite T2; exact Hx | apply p_ss_touch | exact K]. }
  assert (G0 : pgood e p p0 []).
  { apply pgood_same; [unfold first_unpruned, p0; rewrite T1; reflexivity | apply p_ss_touch | constructor]. }
  destruct (check_slashable (p_ss p0 s) vt) eqn:Sl; [injection H as <- <- <-; split; assumption|].
  destruct (should_ignore (p_ss p0 s) vt) eqn:Ig; [injection H as <- <- <-; split; assumption|].
  destruct (ss_add_vote_gen true e (p_ss p0 s) vt) as [ss' out] eqn:Ev.
  set (p1 := p_set_ss p0 s ss') in *.
  destruct (add_certs e p1 (o_certs out) po_empty) as [[p2 o2]|] eqn:Ec.
  2:{ injection H as <- <- <-. cbn in Hnp. discriminate. }
  injection H as <- <- <-.
  assert (Hok : ss_op_ok s (p_ss p0 s) (SOVote vt) = true).
  { cbn [ss_op_ok]. replace (v_slot vt =? s) with true by (symmetry; apply N.eqb_refl).
    unfold admittedb. rewrite Sl, Ig. reflexivity. }
  assert (Hap : ss_apply e s (p_ss p0 s) (SOVote vt) = (ss', o_events out)).
  { cbn [ss_apply]. unfold ss_add_vote. rewrite Ev. reflexivity. }
  destruct (add_vote_chain e (p_ss p0 s) vt ss' out Ev) as (X & _).
  assert (K1 : link_inv p1 None).
  { apply (link_inv_set_ss p0 s ss' None None); auto.
    - rewrite (ex_pa _ _ _ _ _ X). reflexivity.
    - intros h Hh. left. rewrite <- Hh. symmetry. apply nf_or_stronger_ext. rewrite (ex_c _ _ _ _ _ X). reflexivity. }
  assert (G1 : pgood e p0 p1 (o_events out)).
  { apply (pgood_slot e p0 p1 s ss'); auto.
    - intros s'. apply p_ss_set.
    - intros R. assert (R' := apply_reach e s _ _ R Hok). rewrite Hap in R'. exact R'.
    - apply (apply_flips e s _ _ _ _ Hok Hap). }
  destruct (add_certs_spec e _ _ _ _ _ Ec K1) as (K2 & P2 & new & E2 & G2).
  split; [exact K2|]. cbn [po_app po_events]. rewrite E2. cbn [po_empty po_events app].
  apply (pgood_perm e p p2 (o_events out ++ new)); [intros f; apply ev_count_comm|].
  pose proof (pgood_trans _ _ _ _ _ _ (pgood_trans _ _ _ _ _ _ G0 G1) G2) as G. exact G.
Qed.

(* ---------- pool_add_cert ---------- *)
Lemma pool_add_cert_spec e p c p' res o :
  pool_add_cert e p c = (p', res, o) -> p_panicked p' = false -> link_inv p None ->
  link_inv p' None /\ pgood e p p' (po_events o).
Proof.
  unfold pool_add_cert. intros H Hnp K.
  destruct (out_of_bounds p (c_slot c)); [injection H as <- <- <-; split; [exact K | apply pgood_refl]|].
  set (s := c_slot c) in *. set (p0 := p_touch p s) in *.
  destruct (p_touch_frame p s) as (T1 & T2 & T3 & T4).
  assert (K0 : link_inv p0 None).
  { apply (link_inv_ext p p0 None T1); [intros x Hx; unfold p0; rewrite T2; exact Hx | apply p_ss_touch | exact K]. }
  assert (G0 : pgood e p p0 []).
  { apply pgood_same; [unfold first_unpruned, p0; rewrite T1; reflexivity | apply p_ss_touch | constructor]. }
  destruct (cert_duplicate (p_ss p0 s) c); [injection H as <- <- <-; split; assumption|].
  destruct (add_valid_cert e p0 c) as [[p1 o1]|] eqn:E.
  2:{ injection H as <- <- <-. cbn in Hnp. discriminate. }
  injection H as <- <- <-.
  destruct (add_valid_cert_spec e p0 c p1 o1 E K0) as (K1 & G1 & _).
  split; [exact K1|]. pose proof (pgood_trans _ _ _ _ _ _ G0 G1) as G. exact G.
Qed.

(* ---------- pool_add_block ---------- *)
Lemma phf_gen e p t' ev p1 o1 :
  ft_first (p_ft p) <= ft_first t' -> pool_handle_finalization (pool_with_ft p t') ev = Some (p1, o1) ->
  pgood e p p1 (po_events o1) /\ p_panicked p1 = p_panicked p /\ p_ft p1 = t' /\ p_waiting p1 = p_waiting p
  /\ (forall s, p_ss p1 s = if ft_first t' <=? s then p_ss p s else ss_empty).
Proof.
  intros L1 H. apply phf_spec in H. destruct H as (t & -> & Hn).
  cbn [pool_with_ft p_slots p_ft p_waiting p_panicked].
  set (q := mkPool (p_slots p) t t' (p_waiting p) (p_panicked p)).
  assert (Hss : forall s, p_ss (pool_prune q) s = if ft_first t' <=? s then p_ss p s else ss_empty).
  { intros s. rewrite p_ss_prune. reflexivity. }
  assert (Hf : first_unpruned (pool_prune q) = ft_first t') by reflexivity.
  split; [|split; [|split; [|split]]]; try reflexivity; [|exact Hss].
  split; [rewrite Hf; exact L1|]. split.
  - intros R s. rewrite Hss. destruct (ft_first t' <=? s); [apply R | apply reach_empty].
  - intros F HF. rewrite Hf in HF. apply pflips_same; [|exact Hn].
    intros s Hs. rewrite Hss. assert (E : (ft_first t' <=? s) = true) by (apply N.leb_le; lia). rewrite E. reflexivity.
Qed.

Lemma parent_certified_eq p s h :
  match alookup s (p_slots p) with Some pss => is_nf_or_stronger pss h | None => false end
  = is_nf_or_stronger (p_ss p s) h.
Proof. unfold p_ss, aget. destruct (alookup s (p_slots p)); reflexivity. Qed.

Lemma known_spec ss h :
  ss_c (notify_parent_known ss h) = ss_c ss /\
  s2n_sent (ss_n (notify_parent_known ss h)) = s2n_sent (ss_n ss) /\
  s2s_sent (ss_n (notify_parent_known ss h)) = s2s_sent (ss_n ss) /\
  (forall x, x <> h -> alookup x (pa_status (ss_n (notify_parent_known ss h))) = alookup x (pa_status (ss_n ss))) /\
  (exists v, alookup h (pa_status (ss_n (notify_parent_known ss h))) = Some v).
Proof.
  unfold notify_parent_known. destruct (alookup h (pa_status (ss_n ss))) as [v|] eqn:L.
  - repeat split; auto. exists v. exact L.
  - cbn [set_parents with_n ss_c ss_n s2n_sent s2s_sent pa_status]. repeat split; auto.
    + intros x Hx. apply alookup_ainsert_other. exact Hx.
    + exists false. apply alookup_ainsert_same.
Qed.

Lemma add_block_close p1 q t b par :
  p_ft q = t -> first_unpruned q = ft_first t ->
  (forall b' par', blookup b' (ft_parents t) = Some par' -> ft_first t <= fst b' -> b' <> b -> link_at p1 None b' par') ->
  (forall b', b' <> b -> child_status q b' = child_status p1 b') ->
  (forall x, In x (p_waiting p1) -> In x (p_waiting q)) ->
  (forall x, holds_parent_certb q x = holds_parent_certb p1 x) ->
  (ft_first t <= fst b -> blookup b (ft_parents t) = Some par) ->
  (ft_first t <= fst b -> link_at q None b par) ->
  link_inv q None.
Proof.
  intros Hft Hfi L1 Hst Hw Hh Hb Hl b' par' Hb' Hfb'. rewrite Hft in Hb'. rewrite Hfi in Hfb'.
  destruct (bid_eqb b' b) eqn:E.
  - apply bid_eqb_eq in E. subst b'. rewrite (Hb Hfb') in Hb'. injection Hb' as <-. apply Hl. exact Hfb'.
  - apply bid_eqb_neq in E.
    apply (link_at_transfer p1 q); [left; apply Hst; exact E | exact Hw | rewrite Hh; auto | apply L1; assumption].
Qed.

Lemma pool_add_block_spec e p b par p' res o :
  pool_add_block e p b par = (p', res, o) -> p_panicked p' = false -> link_inv p None ->
  link_inv p' None /\ pgood e p p' (po_events o).
Proof.
  unfold pool_add_block, pool_add_block_gen. intros H Hnp K.
  destruct (negb (fst par <? fst b)); [injection H as <- <- <-; cbn in Hnp; discriminate|].
  destruct (fst b <? first_unpruned p) eqn:Eb; [injection H as <- <- <-; split; [exact K | apply pgood_refl]|].
  destruct (ft_add_parent (p_ft p) b par) as [[t ev]|] eqn:E1; [|injection H as <- <- <-; cbn in Hnp; discriminate].
  destruct (ft_add_parent_spec _ _ _ _ _ E1) as (F1 & F2 & F3).
  destruct (pool_handle_finalization (pool_with_ft p t) ev) as [[p1 o1]|] eqn:E2;
    [|injection H as <- <- <-; cbn in Hnp; discriminate].
  destruct (phf_gen e p t ev p1 o1 F1 E2) as (G1 & P1 & Ft1 & W1 & S1).
  assert (Hf1 : first_unpruned p1 = ft_first t) by (unfold first_unpruned; rewrite Ft1; reflexivity).
  assert (L1 : forall b' par', blookup b' (ft_parents t) = Some par' -> ft_first t <= fst b' -> b' <> b ->
                               link_at p1 None b' par').
  { intros b' par' Hb' Hfb' Hne. rewrite F2 in Hb' by assumption.
    assert (Hfb0 : first_unpruned p <= fst b') by (unfold first_unpruned; lia).
    apply (link_at_transfer p p1); [| | |apply K; assumption].
    - left. unfold child_status. rewrite S1. assert (E : (ft_first t <=? fst b') = true) by (apply N.leb_le; exact Hfb').
      rewrite E. reflexivity.
    - rewrite W1. auto.
    - unfold holds_parent_certb. rewrite S1. destruct (is_genesis par'); [reflexivity|]. cbn [orb].
      destruct (ft_first t <=? fst par'); [auto | discriminate]. }
  destruct (fst b <? first_unpruned p1) eqn:Eb1.
  { injection H as <- <- <-. split; [|exact G1].
    apply (add_block_close p1 p1 t b par); auto.
    intros Hc. apply N.ltb_lt in Eb1. unfold slot, hash, blockid in *. lia. }
  set (s := fst b) in *. set (h := snd b) in *.
  destruct (known_spec (p_ss p1 s) h) as (N1 & N2 & N3 & N4 & [v N5]).
  set (nk := notify_parent_known (p_ss p1 s) h) in *.
  set (p2 := p_set_ss p1 s nk) in *.
  assert (G2 : pgood e p1 p2 []).
  { apply (pgood_slot e p1 p2 s nk); auto.
    - intros s'. apply p_ss_set.
    - intros R. apply reach_known. exact R.
    - apply flips_same; assumption. }
  assert (St2 : forall b', b' <> b -> child_status p2 b' = child_status p1 b').
  { intros b' Hne. unfold child_status, p2. rewrite p_ss_set. destruct (fst b' =? s) eqn:E; [|reflexivity].
    apply N.eqb_eq in E. rewrite E. apply N4. intros E'. apply Hne. destruct b', b. cbn in *. unfold s, h in *. cbn in *. congruence. }
  assert (Stb : child_status p2 b = Some v).
  { unfold child_status, p2. fold s. fold h. rewrite p_ss_set, N.eqb_refl. exact N5. }
  assert (Hh2 : forall x, holds_parent_certb p2 x = holds_parent_certb p1 x).
  { intros x. unfold holds_parent_certb, p2. rewrite p_ss_set. destruct (fst x =? s) eqn:E; [|reflexivity].
    apply N.eqb_eq in E. rewrite E. f_equal. apply nf_or_stronger_ext. exact N1. }
  rewrite parent_certified_eq in H. cbn [andb] in H.
  change (bid_eqb par (0, 0) || is_nf_or_stronger (p_ss p2 (fst par)) (snd par)) with (holds_parent_certb p2 par) in H.
  assert (Hbt : ft_first t <= fst b -> blookup b (ft_parents t) = Some par) by exact F3.
  destruct (holds_parent_certb p2 par) eqn:Hc.
  - (* the parent is already certified *)
    assert (Ep2 : p_ss p2 s = nk) by (unfold p2; rewrite p_ss_set, N.eqb_refl; reflexivity).
    rewrite Ep2 in H.
    destruct (notify_parent_certified e s nk h) as [[[ss' evs] rps]|] eqn:E3;
      [|injection H as <- <- <-; cbn in Hnp; discriminate].
    destruct (npc_spec _ _ _ _ _ _ _ E3) as (C1 & C2 & C3).
    set (p3 := p_set_ss p2 s ss') in *.
    assert (Hs3 : forall s', p_ss p3 s' = if s' =? s then ss' else p_ss p1 s').
    { intros s'. unfold p3, p2. rewrite !p_ss_set. destruct (s' =? s); reflexivity. }
    assert (G3 : pgood e p2 p3 evs).
    { apply (pgood_slot e p2 p3 s ss'); auto.
      - intros s'. apply p_ss_set.
      - rewrite Ep2. intros R. apply (reach_certified e nk s h _ R E3).
      - rewrite Ep2. exact C3. }
    assert (St3 : forall b', b' <> b -> child_status p3 b' = child_status p1 b').
    { intros b' Hne. rewrite <- (St2 b' Hne). unfold child_status, p3. rewrite p_ss_set.
      destruct (fst b' =? s) eqn:E; [|reflexivity]. apply N.eqb_eq in E. rewrite E.
      rewrite Ep2. rewrite C1.
      destruct (snd b' =? h) eqn:E'; [|reflexivity]. apply N.eqb_eq in E'. exfalso. apply Hne.
      destruct b', b. cbn in *. unfold s, h in *. cbn in *. congruence. }
    assert (Stb3 : child_status p3 b = Some true).
    { unfold child_status, p3. fold s. fold h. rewrite p_ss_set, N.eqb_refl, C1, N.eqb_refl. reflexivity. }
    assert (Hh3 : forall x, holds_parent_certb p3 x = holds_parent_certb p1 x).
    { intros x. rewrite <- Hh2. unfold holds_parent_certb, p3. rewrite p_ss_set. destruct (fst x =? s) eqn:E; [|reflexivity].
      apply N.eqb_eq in E. rewrite E. f_equal. apply nf_or_stronger_ext. rewrite Ep2. exact C2. }
    assert (G : pgood e p p3 (po_events o1 ++ evs)).
    { pose proof (pgood_trans _ _ _ _ _ _ (pgood_trans _ _ _ _ _ _ G1 G2) G3) as G. rewrite app_nil_r in G. exact G. }
    destruct evs as [|ev1 evs]; [destruct rps as [|rp1 rps]|]; injection H as <- <- <-.
    + split.
      * apply (add_block_close p1 _ t b par); auto.
        -- cbn [p_waiting]. intros x Hx. apply in_or_app. left. exact Hx.
        -- intros _. left. exact Stb3.
      * rewrite app_nil_r in G. apply (pgood_tgt_ext e p p3); [reflexivity | reflexivity | exact G].
    + split; [|exact G]. apply (add_block_close p1 p3 t b par); auto. intros _. left. exact Stb3.
    + split; [|exact G]. apply (add_block_close p1 p3 t b par); auto. intros _. left. exact Stb3.
  - (* the parent is not certified yet: the child waits *)
    injection H as <- <- <-. split.
    + apply (add_block_close p1 _ t b par); auto.
      * cbn [p_waiting]. intros x Hx. apply in_or_app. left. exact Hx.
      * intros _. destruct v; [left; exact Stb|]. right. split; [exact Stb|]. split.
        -- cbn [p_waiting]. apply in_or_app. right. left. reflexivity.
        -- left. exact Hc.
    + apply (pgood_tgt_ext e p p2); [reflexivity | reflexivity|].
      pose proof (pgood_trans _ _ _ _ _ _ G1 G2) as G. rewrite app_nil_r in G. exact G.
Qed.

(* ---------- the waiting-children notification cannot panic any more ---------- *)
(* every waiting child of a retained slot is a registered block *)
Definition wait_inv (p : pool) : Prop :=
  forall par b, In (par, b) (p_waiting p) -> first_unpruned p <= fst b ->
                blookup b (ft_parents (p_ft p)) <> None.

Definition fw_le (p p' : pool) : Prop :=
  first_unpruned p <= first_unpruned p' /\
  (forall b, first_unpruned p' <= fst b -> blookup b (ft_parents (p_ft p')) = blookup b (ft_parents (p_ft p))) /\
  (forall x, In x (p_waiting p') -> In x (p_waiting p)).

Lemma fw_le_same p p' : p_ft p' = p_ft p -> (forall x, In x (p_waiting p') -> In x (p_waiting p)) -> fw_le p p'.
Proof. intros E H. unfold fw_le, first_unpruned. rewrite E. split; [lia|]. split; auto. Qed.
Lemma fw_le_trans a b c : fw_le a b -> fw_le b c -> fw_le a c.
Proof.
  intros (A1 & A2 & A3) (B1 & B2 & B3). split; [lia|]. split; [|auto].
  intros x Hx. rewrite B2 by exact Hx. apply A2. lia.
Qed.
Lemma wait_inv_fw p p' : wait_inv p -> fw_le p p' -> wait_inv p'.
Proof.
  intros W (A1 & A2 & A3) par b Hin Hfb. rewrite A2 by exact Hfb. apply (W par b); [auto | lia].
Qed.

Lemma ft_step_fw (e : epoch) p t' ev p1 o1 :
  ft_le (p_ft p) t' -> pool_handle_finalization (pool_with_ft p t') ev = Some (p1, o1) -> fw_le p p1.
Proof.
  intros [L1 L2] H. destruct (phf_gen e p t' ev p1 o1 L1 H) as (_ & _ & Ft1 & W1 & _).
  unfold fw_le, first_unpruned. rewrite Ft1, W1. split; [exact L1|]. split; auto.
Qed.

Lemma nwc_fw e p b0 p' o : notify_waiting_children e p b0 = Some (p', o) -> fw_le p p'.
Proof.
  unfold notify_waiting_children, notify_waiting_children_gen. fold notify_children. intros H.
  destruct (notify_children_spec e _ _ _ _ _ H) as (A1 & A2 & _).
  apply fw_le_same; [exact A1|]. intros [k v] Hx. rewrite A2 in Hx. cbn [p_waiting] in Hx.
  apply in_bremove in Hx. tauto.
Qed.

Lemma add_valid_cert_fw (e : epoch) p c p' o : add_valid_cert e p c = Some (p', o) -> fw_le p p'.
Proof.
  unfold add_valid_cert. intros H. cbv zeta beta in H.
  set (s := c_slot c) in *. set (p0 := p_set_ss p s (ss_add_cert (p_ss p s) c)) in *.
  assert (G0 : fw_le p p0) by (apply fw_le_same; [reflexivity | auto]).
  destruct (c_kind c) as [h|h| |h|] eqn:Kc.
  - destruct (ft_mark_notarized (p_ft p0) (s, h)) as [[t ev]|] eqn:E1; [|discriminate].
    destruct (pool_handle_finalization (pool_with_ft p0 t) ev) as [[p1 o1]|] eqn:E2; [|discriminate].
    destruct (notify_waiting_children e p1 (s, h)) as [[p2 o2]|] eqn:E3; [|discriminate].
    destruct (pt_mark_notar_fallback (p_prt p2) (s, h)) as [[[t2 prs] wk]|] eqn:E4; [|discriminate].
    injection H as <- <-.
    apply (fw_le_trans p p2); [|apply fw_le_same; [reflexivity | auto]].
    eapply fw_le_trans; [exact G0|]. eapply fw_le_trans; [|eapply nwc_fw; exact E3].
    apply (ft_step_fw e p0 t ev p1 o1 (ft_le_mark_notarized _ _ _ _ E1) E2).
  - destruct (notify_waiting_children e p0 (s, h)) as [[p2 o2]|] eqn:E3; [|discriminate].
    destruct (pt_mark_notar_fallback (p_prt p2) (s, h)) as [[[t2 prs] wk]|] eqn:E4; [|discriminate].
    injection H as <- <-.
    apply (fw_le_trans p p2); [|apply fw_le_same; [reflexivity | auto]].
    eapply fw_le_trans; [exact G0|]. eapply nwc_fw; exact E3.
  - destruct (pt_mark_skipped (p_prt p0) s) as [[[t2 prs] wk]|] eqn:E4; [|discriminate].
    injection H as <- <-. apply (fw_le_trans p p0); [exact G0|]. apply fw_le_same; [reflexivity | auto].
  - destruct (ft_mark_fast_finalized (p_ft p0) (s, h)) as [[t ev]|] eqn:E1; [|discriminate].
    destruct (pool_handle_finalization (pool_with_ft p0 t) ev) as [[p1 o1]|] eqn:E2; [|discriminate].
    destruct (notify_waiting_children e p1 (s, h)) as [[p2 o2]|] eqn:E3; [|discriminate].
    injection H as <- <-.
    eapply fw_le_trans; [exact G0|]. eapply fw_le_trans; [|eapply nwc_fw; exact E3].
    apply (ft_step_fw e p0 t ev p1 o1 (ft_le_mark_fast_finalized _ _ _ _ E1) E2).
  - destruct (ft_mark_finalized (p_ft p0) s) as [[t ev]|] eqn:E1; [|discriminate].
    destruct (pool_handle_finalization (pool_with_ft p0 t) ev) as [[p1 o1]|] eqn:E2; [|discriminate].
    injection H as <- <-.
    eapply fw_le_trans; [exact G0|]. apply (ft_step_fw e p0 t ev p1 o1 (ft_le_mark_finalized _ _ _ _ E1) E2).
Qed.

Lemma add_certs_fw e : forall cs p acc p' o, add_certs e p cs acc = Some (p', o) -> fw_le p p'.
Proof.
  induction cs as [|[c|] cs IH]; intros p acc p' o H; cbn [add_certs] in H.
  - injection H as <- <-. apply fw_le_same; auto.
  - destruct (add_valid_cert e p c) as [[p1 o1]|] eqn:E; [|discriminate].
    eapply fw_le_trans; [eapply add_valid_cert_fw; exact E | eapply IH; exact H].
  - discriminate.
Qed.

Lemma fw_le_touch p s : fw_le p (p_touch p s).
Proof.
  destruct (p_touch_frame p s) as (T1 & T2 & _). apply fw_le_same; [exact T1|]. rewrite T2. auto.
Qed.

Lemma pool_step_wait e p op p' res o :
  pool_step e p op = (p', res, o) -> p_panicked p' = false -> wait_inv p -> wait_inv p'.
Proof.
  unfold pool_step. intros H Hnp W.
  destruct (p_panicked p) eqn:Pp; [injection H as <- <- <-; congruence|].
  destruct op as [vt|c|b par| |s|].
  - unfold pool_add_vote, pool_add_vote_gen in H.
    destruct (out_of_bounds p (v_slot vt)); [injection H as <- <- <-; exact W|].
    assert (W0 := wait_inv_fw _ _ W (fw_le_touch p (v_slot vt))).
    destruct (check_slashable _ vt); [injection H as <- <- <-; exact W0|].
    destruct (should_ignore _ vt); [injection H as <- <- <-; exact W0|].
    destruct (ss_add_vote_gen true e _ vt) as [ss' out].
    destruct (add_certs e _ (o_certs out) po_empty) as [[p2 o2]|] eqn:Ec;
      injection H as <- <- <-; [|cbn in Hnp; discriminate].
    apply (wait_inv_fw _ _ W0). eapply fw_le_trans; [|eapply add_certs_fw; exact Ec].
    apply fw_le_same; [reflexivity | auto].
  - unfold pool_add_cert in H.
    destruct (out_of_bounds p (c_slot c)); [injection H as <- <- <-; exact W|].
    assert (W0 := wait_inv_fw _ _ W (fw_le_touch p (c_slot c))).
    destruct (cert_duplicate _ c); [injection H as <- <- <-; exact W0|].
    destruct (add_valid_cert e _ c) as [[p1 o1]|] eqn:E; injection H as <- <- <-; [|cbn in Hnp; discriminate].
    apply (wait_inv_fw _ _ W0). eapply add_valid_cert_fw; exact E.
  - unfold pool_add_block, pool_add_block_gen in H.
    destruct (negb (fst par <? fst b)); [injection H as <- <- <-; cbn in Hnp; discriminate|].
    destruct (fst b <? first_unpruned p) eqn:Eb; [injection H as <- <- <-; exact W|].
    destruct (ft_add_parent (p_ft p) b par) as [[t ev]|] eqn:E1; [|injection H as <- <- <-; cbn in Hnp; discriminate].
    destruct (ft_add_parent_spec _ _ _ _ _ E1) as (F1 & F2 & F3).
    destruct (pool_handle_finalization (pool_with_ft p t) ev) as [[p1 o1]|] eqn:E2;
      [|injection H as <- <- <-; cbn in Hnp; discriminate].
    destruct (phf_gen e p t ev p1 o1 F1 E2) as (_ & _ & Ft1 & W1 & _).
    (* any pool with tracker t and waiting list within the old one plus (par, b) *)
    assert (Wq : forall q, p_ft q = t -> (forall x, In x (p_waiting q) -> In x (p_waiting p) \/ x = (par, b)) -> wait_inv q).
    { intros q Hq Hw par' b' Hin Hfb. unfold first_unpruned in Hfb. rewrite Hq in *.
      destruct (bid_eqb b' b) eqn:E.
      - apply bid_eqb_eq in E. subst b'. rewrite (F3 Hfb). discriminate.
      - apply bid_eqb_neq in E. rewrite F2 by assumption.
        destruct (Hw _ Hin) as [Hin'|Hin']; [|congruence].
        apply (W par' b' Hin'). unfold first_unpruned. lia. }
    destruct (fst b <? first_unpruned p1).
    { injection H as <- <- <-. apply Wq; [exact Ft1|]. rewrite W1. auto. }
    cbv zeta in H.
    match type of H with (if ?c then _ else _) = _ => destruct c end.
    + match type of H with match ?x with _ => _ end = _ => destruct x as [[[ss' evs] rps]|] end;
        [|injection H as <- <- <-; cbn in Hnp; discriminate].
      destruct evs as [|ev1 evs]; [destruct rps as [|rp1 rps]|]; injection H as <- <- <-.
      * apply Wq; [exact Ft1|]. cbn [p_waiting p_set_ss]. intros x Hx. apply in_app_or in Hx. rewrite W1 in Hx.
        destruct Hx as [Hx|[Hx|[]]]; auto.
      * apply Wq; [exact Ft1|]. cbn [p_waiting p_set_ss]. rewrite W1. auto.
      * apply Wq; [exact Ft1|]. cbn [p_waiting p_set_ss]. rewrite W1. auto.
    + injection H as <- <- <-. apply Wq; [exact Ft1|]. cbn [p_waiting p_set_ss]. intros x Hx. apply in_app_or in Hx.
      rewrite W1 in Hx. destruct Hx as [Hx|[Hx|[]]]; auto.
  - unfold pool_standstill, pool_standstill_gen in H.
    destruct (get_final_certs p (finalized_slot p)) as [|c0 cs].
    + destruct (true && (finalized_slot p =? 0)); injection H as <- <- <-; [exact W | cbn in Hnp; discriminate].
    + injection H as <- <- <-. exact W.
  - unfold pool_wait in H. destruct (pt_wait (p_prt p) s) as [[t r]|]; injection H as <- <- <-; [|cbn in Hnp; discriminate].
    exact W.
  - injection H as <- <- <-. exact W.
Qed.

Lemma exec_panicked_w e : forall ops p, p_panicked p = true -> p_panicked (fst (pool_exec e p ops)) = true.
Proof.
  induction ops as [|op ops IH]; intros p Hp; cbn [pool_exec]; [exact Hp|].
  unfold pool_step. rewrite Hp. specialize (IH p Hp). destruct (pool_exec e p ops) as [p2 evs]. exact IH.
Qed.

Lemma pool_exec_wait e : forall ops p p' evs,
  pool_exec e p ops = (p', evs) -> p_panicked p' = false -> wait_inv p -> wait_inv p'.
Proof.
  induction ops as [|op ops IH]; intros p p' evs H Hnp W; cbn [pool_exec] in H.
  - injection H as <- <-. exact W.
  - destruct (pool_step e p op) as [[p1 r] o] eqn:E1. destruct (pool_exec e p1 ops) as [p2 ev2] eqn:E2.
    injection H as <- <-.
    assert (Hnp1 : p_panicked p1 = false).
    { destruct (p_panicked p1) eqn:P1; [|reflexivity].
      assert (Q := exec_panicked_w e ops p1 P1). rewrite E2 in Q. cbn [fst] in Q. congruence. }
    apply (IH p1 p2 ev2 E2 Hnp). eapply pool_step_wait; eassumption.
Qed.

(* all children notified have a known parent status: the loop cannot hit "parent not known" *)
Lemma notify_children_total e : forall children p acc,
  (forall c, In c children -> first_unpruned p <= fst c -> child_status p c <> None) ->
  notify_children e p children acc <> None.
Proof.
  unfold notify_children.
  induction children as [|[cs ch] rest IH]; intros p acc Hc; cbn [notify_children_gen andb]; [discriminate|].
  destruct (cs <? first_unpruned p) eqn:Ecs.
  { apply IH. intros c Hin. apply Hc. right. exact Hin. }
  assert (Hst : child_status p (cs, ch) <> None).
  { apply Hc; [left; reflexivity|]. cbn [fst]. apply N.ltb_ge. exact Ecs. }
  unfold child_status in Hst. cbn [fst snd] in Hst.
  destruct (notify_parent_certified e cs (p_ss (p_touch p cs) cs) ch) as [[[ss' evs] rps]|] eqn:E.
  2:{ exfalso. rewrite p_ss_touch in E. unfold notify_parent_certified in E.
      destruct (alookup ch (pa_status (ss_n (p_ss p cs)))); [discriminate | congruence]. }
  rewrite p_ss_touch in E. destruct (npc_spec _ _ _ _ _ _ _ E) as (N1 & _).
  destruct (p_touch_frame p cs) as (T1 & _).
  apply IH. intros c Hin Hfc.
  assert (Hf1 : first_unpruned (p_set_ss (p_touch p cs) cs ss') = first_unpruned p).
  { unfold first_unpruned. change (p_ft (p_set_ss (p_touch p cs) cs ss')) with (p_ft (p_touch p cs)). rewrite T1. reflexivity. }
  rewrite Hf1 in Hfc. specialize (Hc c (or_intror Hin) Hfc).
  unfold child_status in *. rewrite p_ss_set, p_ss_touch. unfold slot, hash, blockid in *.
  destruct (fst c =? cs) eqn:E1; [|exact Hc]. apply N.eqb_eq in E1. rewrite E1 in Hc. rewrite N1.
  destruct (snd c =? ch); [discriminate | exact Hc].
Qed.

Theorem nwc_no_panic : forall e p ex b0,
  link_inv p ex -> wait_inv p -> notify_waiting_children e p b0 <> None.
Proof.
  intros e p ex b0 K W. unfold notify_waiting_children, notify_waiting_children_gen. fold notify_children.
  apply notify_children_total. intros c Hin Hfc.
  apply in_map_iff in Hin. destruct Hin as [[k v] [Ev Hin]]. cbn [snd] in Ev. subst v.
  apply filter_In in Hin. destruct Hin as [Hin _].
  change (first_unpruned (mkPool (p_slots p) (p_prt p) (p_ft p) (bremove b0 (p_waiting p)) (p_panicked p)))
    with (first_unpruned p) in Hfc.
  change (child_status (mkPool (p_slots p) (p_prt p) (p_ft p) (bremove b0 (p_waiting p)) (p_panicked p)) c)
    with (child_status p c).
  assert (Hb := W k c Hin Hfc).
  destruct (blookup c (ft_parents (p_ft p))) as [par|] eqn:L; [|congruence].
  destruct (K c par L Hfc) as [A|(A & _)]; rewrite A; discriminate.
Qed.

(* ---------- every pool operation ---------- *)
Lemma pool_step_spec e p op p' res o :
  pool_step e p op = (p', res, o) -> p_panicked p' = false -> link_inv p None ->
  link_inv p' None /\ pgood e p p' (po_events o).
Proof.
  unfold pool_step. intros H Hnp K.
  destruct (p_panicked p) eqn:Pp; [injection H as <- <- <-; congruence|].
  destruct op as [v|c|b par| |s|].
  - eapply pool_add_vote_spec; eassumption.
  - eapply pool_add_cert_spec; eassumption.
  - eapply pool_add_block_spec; eassumption.
  - unfold pool_standstill, pool_standstill_gen in H.
    destruct (get_final_certs p (finalized_slot p)) as [|c0 cs].
    + destruct (true && (finalized_slot p =? 0)); injection H as <- <- <-; [|cbn in Hnp; discriminate].
      split; [exact K|]. apply pgood_same; auto. repeat constructor.
    + injection H as <- <- <-. split; [exact K|]. apply pgood_same; auto. repeat constructor.
  - unfold pool_wait in H. destruct (pt_wait (p_prt p) s) as [[t r]|]; injection H as <- <- <-; [|cbn in Hnp; discriminate].
    split; [exact K|]. apply pgood_same; auto. constructor.
  - injection H as <- <- <-. split; [exact K | apply pgood_refl].
Qed.

Definition pool_inv (e : epoch) (p : pool) : Prop := slots_reach e p /\ link_inv p None.

Lemma pool_inv_init e : pool_inv e pool_init.
Proof.
  split.
  - intros s. apply reach_empty.
  - intros b par Hb. discriminate.
Qed.

Lemma exec_panicked e : forall ops p, p_panicked p = true -> p_panicked (fst (pool_exec e p ops)) = true.
Proof.
  induction ops as [|op ops IH]; intros p Hp; cbn [pool_exec]; [exact Hp|].
  unfold pool_step. rewrite Hp. specialize (IH p Hp). destruct (pool_exec e p ops) as [p2 evs]. exact IH.
Qed.

Lemma pool_exec_spec e : forall ops p p' evs,
  pool_exec e p ops = (p', evs) -> p_panicked p' = false -> pool_inv e p ->
  pool_inv e p' /\ pgood e p p' evs.
Proof.
  induction ops as [|op ops IH]; intros p p' evs H Hnp [R K]; cbn [pool_exec] in H.
  - injection H as <- <-. split; [split; assumption | apply pgood_refl].
  - destruct (pool_step e p op) as [[p1 r] o] eqn:E1. destruct (pool_exec e p1 ops) as [p2 ev2] eqn:E2.
    injection H as <- <-.
    assert (Hnp1 : p_panicked p1 = false).
    { destruct (p_panicked p1) eqn:P1; [|reflexivity].
      assert (Q := exec_panicked e ops p1 P1). rewrite E2 in Q. cbn [fst] in Q. congruence. }
    destruct (pool_step_spec e p op p1 r o E1 Hnp1 K) as (K1 & G1).
    assert (R1 : slots_reach e p1) by (apply G1; exact R).
    destruct (IH p1 p2 ev2 E2 Hnp (conj R1 K1)) as (I2 & G2).
    split; [exact I2|]. eapply pgood_trans; eassumption.
Qed.

(* ---------- the theorems ---------- *)
(* every slot state of a pool reached by any operation sequence is a reachable slot state *)
Theorem pool_reach_inv : forall e ops p evs,
  pool_exec e pool_init ops = (p, evs) -> p_panicked p = false -> pool_inv e p.
Proof.
  intros e ops p evs H Hnp. exact (proj1 (pool_exec_spec e ops pool_init p evs H Hnp (pool_inv_init e))).
Qed.

(* cross-slot trigger: the pool-level condition (registration, held parent certificate) implies the
   slot-level one (parent status "certified" delivered to the child's slot state) *)
Lemma pool_cond_slot e p b par : link_inv p None ->
  pool_s2n_condb e p b par = true -> s2n_condb e (p_ss p (fst b)) (snd b) = true.
Proof.
  intros K H. unfold pool_s2n_condb in H.
  apply andb_prop in H. destruct H as [H Hst]. apply andb_prop in H. destruct H as [H Hov].
  apply andb_prop in H. destruct H as [H Hh]. apply andb_prop in H. destruct H as [Hr Hreg].
  unfold retainedb in Hr. apply N.leb_le in Hr. unfold registeredb in Hreg.
  destruct (blookup b (ft_parents (p_ft p))) as [par'|] eqn:L; [|discriminate].
  apply bid_eqb_eq in Hreg. subst par'.
  unfold s2n_condb. rewrite Hov, Hst. cbn [andb].
  destruct (K b par L Hr) as [A|(A & B & [C|C])]; [|congruence|discriminate].
  unfold parent_certb. unfold child_status in A. rewrite A. reflexivity.
Qed.

(* INVARIANT (completeness): in every reachable pool, if the safe-to-notar condition of block b holds
   (own vote, stake, block registered with parent par, certificate for par held, slot retained),
   SafeToNotar(b) has been emitted; likewise safe-to-skip *)
Theorem pool_s2n_complete : forall e p b par,
  pool_inv e p -> pool_s2n_condb e p b par = true -> pool_s2n_sentb p b = true.
Proof.
  intros e p b par [R K] H. unfold pool_s2n_sentb.
  destruct (reach_slot_inv e _ (R (fst b))) as (_ & I2 & _). rewrite I2.
  eapply pool_cond_slot; eassumption.
Qed.

Theorem pool_s2s_complete : forall e p s,
  pool_inv e p -> pool_s2s_condb e p s = true -> pool_s2s_sentb p s = true.
Proof.
  intros e p s [R K] H. unfold pool_s2s_sentb, pool_s2s_condb in *.
  apply andb_prop in H. destruct H as [_ H].
  destruct (reach_slot_inv e _ (R s)) as (_ & _ & I3 & _). rewrite I3. exact H.
Qed.

(* EXACTLY WHEN, through pool_step: for a retained slot, the number of SafeToNotar(b) events one pool
   operation raises is 1 if the operation makes b's condition true and 0 otherwise *)
Theorem pool_step_exact : forall e p op p' res o,
  pool_inv e p -> pool_step e p op = (p', res, o) -> p_panicked p' = false ->
  pool_inv e p' /\
  (forall b, first_unpruned p' <= fst b ->
     ev_count (is_s2n b) (po_events o)
     = b2n (s2n_condb e (p_ss p' (fst b)) (snd b) && negb (s2n_condb e (p_ss p (fst b)) (snd b)))) /\
  (forall s, first_unpruned p' <= s ->
     ev_count (is_s2s s) (po_events o) = b2n (s2s_condb e (p_ss p' s) && negb (s2s_condb e (p_ss p s)))).
Proof.
  intros e p op p' res o [R K] H Hnp.
  destruct (pool_step_spec e p op p' res o H Hnp K) as (K' & G1 & G2 & G3).
  assert (R' := G2 R). split; [split; assumption|].
  destruct (G3 _ (N.le_refl _)) as [_ _ C D]. unfold pool_s2n_sentb, pool_s2s_sentb in *. split.
  - intros b Hb. rewrite (C b Hb).
    destruct (reach_slot_inv e _ (R (fst b))) as (_ & I2 & _).
    destruct (reach_slot_inv e _ (R' (fst b))) as (_ & J2 & _). rewrite I2, J2. reflexivity.
  - intros s Hs. rewrite (D s Hs).
    destruct (reach_slot_inv e _ (R s)) as (_ & _ & I3 & _).
    destruct (reach_slot_inv e _ (R' s)) as (_ & _ & J3 & _). rewrite I3, J3. reflexivity.
Qed.

(* the last-arriving trigger raises the event: whichever operation makes the pool-level condition of b
   true (a vote, the own vote, the block registration, the parent's certificate - created from votes or
   received) has SafeToNotar(b) among its events, exactly once *)
Theorem pool_trigger_emits : forall e p op p' res o b par,
  pool_inv e p -> pool_step e p op = (p', res, o) -> p_panicked p' = false ->
  pool_s2n_condb e p' b par = true -> s2n_condb e (p_ss p (fst b)) (snd b) = false ->
  ev_count (is_s2n b) (po_events o) = 1%nat.
Proof.
  intros e p op p' res o b par I H Hnp Hc Hn.
  destruct (pool_step_exact e p op p' res o I H Hnp) as ([R' K'] & C & _).
  assert (Hr : first_unpruned p' <= fst b).
  { unfold pool_s2n_condb, retainedb in Hc. apply N.leb_le. destruct (first_unpruned p' <=? fst b); [reflexivity | discriminate]. }
  rewrite (C b Hr). assert (Q := pool_cond_slot e p' b par K' Hc).
  unfold slot, hash, blockid in *. rewrite Q, Hn. reflexivity.
Qed.

(* whole histories: over any operation sequence from the initial pool, SafeToNotar(b) of a retained slot
   has been raised exactly once if b's condition holds at the end and never otherwise *)
Theorem pool_history_exact : forall e ops p evs,
  pool_exec e pool_init ops = (p, evs) -> p_panicked p = false ->
  (forall b, first_unpruned p <= fst b ->
     ev_count (is_s2n b) evs = b2n (s2n_condb e (p_ss p (fst b)) (snd b))) /\
  (forall s, first_unpruned p <= s -> ev_count (is_s2s s) evs = b2n (s2s_condb e (p_ss p s))).
Proof.
  intros e ops p evs H Hnp.
  destruct (pool_exec_spec e ops pool_init p evs H Hnp (pool_inv_init e)) as ([R K] & G1 & G2 & G3).
  destruct (G3 _ (N.le_refl _)) as [_ _ C D]. unfold pool_s2n_sentb, pool_s2s_sentb in *. split.
  - intros b Hb. rewrite (C b Hb). destruct (reach_slot_inv e _ (R (fst b))) as (_ & I2 & _). rewrite I2.
    change (s2n_sentb (p_ss pool_init (fst b)) (snd b)) with false. cbn [negb]. rewrite andb_true_r. reflexivity.
  - intros s Hs. rewrite (D s Hs). destruct (reach_slot_inv e _ (R s)) as (_ & _ & I3 & _). rewrite I3.
    change (s2s_sent (ss_n (p_ss pool_init s))) with false. cbn [negb]. rewrite andb_true_r. reflexivity.
Qed.

Corollary pool_history_once : forall e ops p evs b par,
  pool_exec e pool_init ops = (p, evs) -> p_panicked p = false ->
  pool_s2n_condb e p b par = true -> ev_count (is_s2n b) evs = 1%nat.
Proof.
  intros e ops p evs b par H Hnp Hc.
  destruct (pool_history_exact e ops p evs H Hnp) as [C _].
  destruct (pool_reach_inv e ops p evs H Hnp) as [_ K].
  assert (Hr : first_unpruned p <= fst b).
  { unfold pool_s2n_condb, retainedb in Hc. apply N.leb_le. destruct (first_unpruned p <=? fst b); [reflexivity | discriminate]. }
  rewrite (C b Hr). assert (Q := pool_cond_slot e p b par K Hc).
  unfold slot, hash, blockid in *. rewrite Q. reflexivity.
Qed.

(* ---------- what is NOT true: a certificate held once, but pruned before the child was registered ---------- *)
(* 5 equal validators, own = 4: fast-finalization certificates for (1,11) and (2,22) are received (the second
   prunes slot 1 together with its certificate), then block (3,33) is registered with parent (1,11), two
   validators (40 %) notarize it and the node votes skip.  Every clause of the property's condition holds on
   the history (own vote, stake, block registered, a received fast-finalization certificate for the parent,
   slot 3 retained), but the pool no longer holds the parent's certificate and never raises SafeToNotar(3,33). *)
Definition pruned_parent_epoch := mkEpoch [1; 1; 1; 1; 1] 4.
Definition pruned_parent_cert1 := mkCert 1 (CFastFinal 11) [0; 1; 2; 3] [] 4.
Definition pruned_parent_cert2 := mkCert 2 (CFastFinal 22) [0; 1; 2; 3] [] 4.
Definition pruned_parent_ops :=
  [OpCert pruned_parent_cert1; OpCert pruned_parent_cert2; OpBlock (3, 33) (1, 11);
   OpVote (mkVote 3 (KNotar 33) 0); OpVote (mkVote 3 (KNotar 33) 1); OpVote (mkVote 3 KSkip 4)].

Lemma received_parent_cert_pruned_refuted :
  let e := pruned_parent_epoch in
  let p := fst (pool_exec e pool_init pruned_parent_ops) in
  let evs := snd (pool_exec e pool_init pruned_parent_ops) in
  snd (fst (pool_step e pool_init (OpCert pruned_parent_cert1))) = RVerdict VOk   (* the certificate was accepted *)
  /\ cert_block pruned_parent_cert1 = Some (1, 11)
  /\ p_panicked p = false /\ retainedb p 3 = true /\ registeredb p (3, 33) (1, 11) = true
  /\ own_voted_otherb e (p_ss p 3) 33 = true /\ s2n_stakeb e (p_ss p 3) 33 = true
  /\ holds_parent_certb p (1, 11) = false                                          (* ... but is no longer held *)
  /\ ev_count (is_s2n (3, 33)) evs = O.
Proof. vm_compute. repeat split; reflexivity. Qed.

Theorem pool_complete_once : forall e ops p evs b par,
  pool_exec e pool_init ops = (p, evs) -> p_panicked p = false ->
  pool_s2n_condb e p b par = true ->
  pool_s2n_sentb p b = true /\ ev_count (is_s2n b) evs = 1%nat.
Proof.
  intros e ops p evs b par H Hnp Hc. split.
  - exact (pool_s2n_complete e p b par (pool_reach_inv e ops p evs H Hnp) Hc).
  - exact (pool_history_once e ops p evs b par H Hnp Hc).
Qed.

Theorem pool_s2s_complete_once : forall e ops p evs s,
  pool_exec e pool_init ops = (p, evs) -> p_panicked p = false ->
  pool_s2s_condb e p s = true ->
  pool_s2s_sentb p s = true /\ ev_count (is_s2s s) evs = 1%nat.
Proof.
  intros e ops p evs s H Hnp Hc. split.
  - exact (pool_s2s_complete e p s (pool_reach_inv e ops p evs H Hnp) Hc).
  - destruct (pool_history_exact e ops p evs H Hnp) as [_ D].
    unfold pool_s2s_condb, retainedb in Hc. apply andb_prop in Hc. destruct Hc as [Hr Hc].
    apply N.leb_le in Hr. rewrite (D s Hr), Hc. reflexivity.
Qed.

(* ---------- the pinned tree: a waiting child whose slot was pruned made the notification panic ---------- *)
(* 5 equal validators: block (2,22) registered with parent (1,11) waits for the parent's certificate; a
   finalization certificate for slot 1 and fast-finalization certificates for (2,23) and (3,34) arrive; the
   late notarization certificate for (1,11) finalizes slot 1, the watermark moves to 3 and prunes slot 2,
   and only then the waiting child (2,22) is notified.  Pinned tree (notify_waiting_children_gen false): its
   slot state is re-created empty and notify_parent_certified panics ("parent not known").  Current tree
   (fix 599595f): the pruned child is skipped. *)
Definition pruned_child_epoch := mkEpoch [1; 1; 1; 1; 1] 4.
Definition pruned_child_ops :=
  [OpBlock (2, 22) (1, 11); OpCert (mkCert 1 CFinal [0; 1; 2] [] 3);
   OpCert (mkCert 2 (CFastFinal 23) [0; 1; 2; 3] [] 4); OpCert (mkCert 3 (CFastFinal 34) [0; 1; 2; 3] [] 4)].
Definition pruned_child_late_cert := mkCert 1 (CNotar 11) [0; 1; 2] [] 3.
(* the state inside add_valid_cert at the moment the waiting children of (1,11) are notified: the late
   certificate stored, slot 1 marked notarized, the finalization handled (pruned) *)
Definition pruned_child_mid : option pool :=
  let p := fst (pool_exec pruned_child_epoch pool_init pruned_child_ops) in
  let p0 := p_set_ss p 1 (ss_add_cert (p_ss p 1) pruned_child_late_cert) in
  match ft_mark_notarized (p_ft p0) (1, 11) with
  | Some (t, ev) => match pool_handle_finalization (pool_with_ft p0 t) ev with Some (p1, _) => Some p1 | None => None end
  | None => None
  end.

Lemma pinned_waiting_child_pruned_panics :
  match pruned_child_mid with
  | Some p1 => first_unpruned p1 = 3 /\ In ((1, 11), (2, 22)) (p_waiting p1)
               /\ notify_waiting_children_gen false pruned_child_epoch p1 (1, 11) = None
               /\ notify_waiting_children pruned_child_epoch p1 (1, 11) <> None
  | None => False
  end.
Proof. vm_compute. repeat split; try reflexivity; [left; reflexivity | discriminate]. Qed.

(* the same history on the current pool: the late certificate is accepted, no panic *)
Lemma waiting_child_pruned_no_panic :
  let e := pruned_child_epoch in
  let p := fst (pool_exec e pool_init pruned_child_ops) in
  p_panicked p = false /\ In ((1, 11), (2, 22)) (p_waiting p)
  /\ snd (fst (pool_step e p (OpCert pruned_child_late_cert))) = RVerdict VOk
  /\ p_panicked (fst (fst (pool_step e p (OpCert pruned_child_late_cert)))) = false.
Proof. vm_compute. repeat split; try reflexivity. left. reflexivity. Qed.

(* ---------- the pinned tree: genesis was never a certified parent ---------- *)
(* 5 equal validators, own = 4: block (1,7) registered as a child of genesis, notar(1,7) by validators 0 and 1
   (40 %), skip votes by the node and by validator 3: every clause of the condition holds (the parent is
   genesis); the pinned registration (pool_add_block_gen false) never raises SafeToNotar(1,7), the current
   one raises it exactly once *)
Definition genesis_child_epoch := mkEpoch [1; 1; 1; 1; 1] 4.
Definition genesis_child_ops :=
  [OpBlock (1, 7) (0, 0); OpVote (mkVote 1 (KNotar 7) 0); OpVote (mkVote 1 (KNotar 7) 1);
   OpVote (mkVote 1 KSkip 4); OpVote (mkVote 1 KSkip 3)].
Lemma pinned_genesis_parent_refuted :
  let e := genesis_child_epoch in
  let p := fst (pool_exec_gp false e pool_init genesis_child_ops) in
  let evs := snd (pool_exec_gp false e pool_init genesis_child_ops) in
  p_panicked p = false /\ pool_s2n_condb e p (1, 7) (0, 0) = true /\ ev_count (is_s2n (1, 7)) evs = O.
Proof. vm_compute. repeat split; reflexivity. Qed.

Lemma pool_exec_gp_current e : forall ops p, pool_exec_gp true e p ops = pool_exec e p ops.
Proof.
  induction ops as [|op ops IH]; intros p; cbn [pool_exec_gp pool_exec]; [reflexivity|].
  assert (E : pool_step_gp true e p op = pool_step e p op) by (destruct op; reflexivity).
  rewrite E. destruct (pool_step e p op) as [[p1 r] o]. rewrite IH. reflexivity.
Qed.

Lemma wait_inv_init : wait_inv pool_init.
Proof. intros par b []. Qed.

(* in every pool reached without panic, notifying the waiting children of any block cannot panic *)
Theorem reach_nwc_no_panic : forall e ops p evs b0,
  pool_exec e pool_init ops = (p, evs) -> p_panicked p = false ->
  notify_waiting_children e p b0 <> None.
Proof.
  intros e ops p evs b0 H Hnp.
  destruct (pool_reach_inv e ops p evs H Hnp) as [_ K].
  apply (nwc_no_panic e p None b0 K). exact (pool_exec_wait e ops pool_init p evs H Hnp wait_inv_init).
Qed.
