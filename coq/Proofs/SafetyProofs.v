(* Protocol-level safety of Alpenglow (C01) over the abstract global view of Model/Safety.v.
   Part 1: votes cast, monotonicity in the vote set.
   Part 2: from the temporal rules (hist_ok) to the order-free rules (trules).
   Part 3: quorum intersection: slot exclusivity of a finalized block (T1, T2).
   Part 4: chains: same-window descent, cross-window descent by induction over time (T3). *)
From Coq Require Import List NArith ZArith Bool Lia ZifyBool ZifyN ZifyNat.
From AG Require Import Gen.Params Model.Pool Model.Safety Proofs.SlotStateProofs Proofs.StakeSets.
Import ListNotations.
Open Scope N_scope.

(* ================= Part 1: votes cast ================= *)
Lemma vk_eqb_eq a b : vk_eqb a b = true <-> a = b.
Proof.
  destruct a; destruct b; cbn [vk_eqb]; split; intros E; try discriminate; try reflexivity;
    try (apply N.eqb_eq in E; subst; reflexivity); try (injection E as ->; apply N.eqb_refl).
Qed.

Lemma cast_in H s k u : cast H s k u = true <-> In (mkVote s k u) H.
Proof.
  unfold cast. rewrite existsb_exists. split.
  - intros [x [Hin E]]. apply andb_prop in E. destruct E as [E E3]. apply andb_prop in E. destruct E as [E1 E2].
    apply N.eqb_eq in E1. apply N.eqb_eq in E3. apply vk_eqb_eq in E2. destruct x as [xs xk xu]. cbn in *. subst. exact Hin.
  - intros Hin. exists (mkVote s k u). split; [exact Hin|]. cbn [v_slot v_kind v_signer].
    rewrite !N.eqb_refl. cbn [andb]. rewrite andb_true_r. apply vk_eqb_eq. reflexivity.
Qed.

Lemma cast_any_notar_iff H s u : cast_any_notar H s u = true <-> exists h, cast H s (KNotar h) u = true.
Proof.
  unfold cast_any_notar. rewrite existsb_exists. split.
  - intros [x [Hin E]]. apply andb_prop in E. destruct E as [E E3]. apply andb_prop in E. destruct E as [E1 E2].
    destruct x as [xs xk xu]. cbn in *. destruct xk as [h| | | |]; try discriminate.
    apply N.eqb_eq in E1. apply N.eqb_eq in E2. subst. exists h. apply cast_in. exact Hin.
  - intros [h C]. apply cast_in in C. exists (mkVote s (KNotar h) u). split; [exact C|]. cbn. rewrite !N.eqb_refl. reflexivity.
Qed.

Lemma cast_notar_other_iff H s h u :
  cast_notar_other H s h u = true <-> exists h', h' <> h /\ cast H s (KNotar h') u = true.
Proof.
  unfold cast_notar_other. rewrite existsb_exists. split.
  - intros [x [Hin E]]. apply andb_prop in E. destruct E as [E E3]. apply andb_prop in E. destruct E as [E1 E2].
    destruct x as [xs xk xu]. cbn in *. destruct xk as [h'| | | |]; try discriminate.
    apply N.eqb_eq in E1. apply N.eqb_eq in E2. subst. exists h'. split.
    + apply N.eqb_neq. destruct (h' =? h); [discriminate | reflexivity].
    + apply cast_in. exact Hin.
  - intros [h' [Hne C]]. apply cast_in in C. exists (mkVote s (KNotar h') u). split; [exact C|]. cbn. rewrite !N.eqb_refl.
    apply N.eqb_neq in Hne. rewrite Hne. reflexivity.
Qed.

Lemma cast_any_nf_iff H s u : cast_any_nf H s u = true <-> exists h, cast H s (KNotarFb h) u = true.
Proof.
  unfold cast_any_nf. rewrite existsb_exists. split.
  - intros [x [Hin E]]. apply andb_prop in E. destruct E as [E E3]. apply andb_prop in E. destruct E as [E1 E2].
    destruct x as [xs xk xu]. cbn in *. destruct xk as [|h| | |]; try discriminate.
    apply N.eqb_eq in E1. apply N.eqb_eq in E2. subst. exists h. apply cast_in. exact Hin.
  - intros [h C]. apply cast_in in C. exists (mkVote s (KNotarFb h) u). split; [exact C|]. cbn. rewrite !N.eqb_refl. reflexivity.
Qed.

(* ---------- monotonicity in the vote set ---------- *)
Lemma cast_mono H H' s k u : incl H H' -> cast H s k u = true -> cast H' s k u = true.
Proof. intros I C. apply cast_in. apply I. apply cast_in. exact C. Qed.
Lemma cast_notar_other_mono H H' s h u : incl H H' -> cast_notar_other H s h u = true -> cast_notar_other H' s h u = true.
Proof.
  intros I C. apply cast_notar_other_iff in C. destruct C as [h' [Hne C]].
  apply cast_notar_other_iff. exists h'. split; [exact Hne | eapply cast_mono; eassumption].
Qed.

Lemma quorum_mono e x y : x <= y -> is_quorum e x = true -> is_quorum e y = true.
Proof. intros L Q. apply quorum_iff in Q. apply quorum_iff. lia. Qed.
Lemma strong_mono e x y : x <= y -> is_strong_quorum e x = true -> is_strong_quorum e y = true.
Proof. intros L Q. apply strong_iff in Q. apply strong_iff. lia. Qed.
Lemma weak_mono e x y : x <= y -> is_weak_quorum e x = true -> is_weak_quorum e y = true.
Proof. intros L Q. apply weak_iff in Q. apply weak_iff. lia. Qed.
Lemma weakest_mono e x y : x <= y -> is_weakest_quorum e x = true -> is_weakest_quorum e y = true.
Proof. intros L Q. apply weakest_iff in Q. apply weakest_iff. lia. Qed.

Section Mono.
Variable W : world.
Variables H H' : list vote.
Hypothesis I : incl H H'.

Lemma notar_stake_mono b : notar_stake W H b <= notar_stake W H' b.
Proof. apply stk_mono. intros u. apply cast_mono. exact I. Qed.
Lemma nf_stake_mono b : nf_stake W H b <= nf_stake W H' b.
Proof.
  apply stk_mono. intros u E. apply orb_prop in E. apply orb_true_iff.
  destruct E as [E|E]; [left | right]; eapply cast_mono; eassumption.
Qed.
Lemma skip_stake_mono s : skip_stake W H s <= skip_stake W H' s.
Proof.
  apply stk_mono. intros u E. apply orb_prop in E. apply orb_true_iff.
  destruct E as [E|E]; [left | right]; eapply cast_mono; eassumption.
Qed.
Lemma final_stake_mono s : final_stake W H s <= final_stake W H' s.
Proof. apply stk_mono. intros u. apply cast_mono. exact I. Qed.

Lemma notar_cert_mono b : notar_cert W H b = true -> notar_cert W H' b = true.
Proof. apply quorum_mono. apply notar_stake_mono. Qed.
Lemma nf_cert_mono b : nf_cert W H b = true -> nf_cert W H' b = true.
Proof. apply quorum_mono. apply nf_stake_mono. Qed.
Lemma skip_cert_mono s : skip_cert W H s = true -> skip_cert W H' s = true.
Proof. apply quorum_mono. apply skip_stake_mono. Qed.
Lemma ff_cert_mono b : ff_cert W H b = true -> ff_cert W H' b = true.
Proof. apply strong_mono. apply notar_stake_mono. Qed.
Lemma final_cert_mono s : final_cert W H s = true -> final_cert W H' s = true.
Proof. apply quorum_mono. apply final_stake_mono. Qed.
Lemma finalized_mono b : finalized W H b = true -> finalized W H' b = true.
Proof.
  unfold finalized. intros E. apply orb_prop in E. apply orb_true_iff. destruct E as [E|E].
  - left. apply ff_cert_mono. exact E.
  - right. apply andb_prop in E. destruct E as [E1 E2]. apply andb_true_intro.
    split; [apply final_cert_mono | apply notar_cert_mono]; assumption.
Qed.
Lemma s2n_stake_mono b : s2n_stake W H b = true -> s2n_stake W H' b = true.
Proof.
  unfold s2n_stake. intros E. apply andb_prop in E. destruct E as [E1 E2]. apply andb_true_intro. split.
  - eapply weakest_mono; [apply notar_stake_mono | exact E1].
  - apply orb_prop in E2. apply orb_true_iff. destruct E2 as [E2|E2]; [left | right].
    + eapply weak_mono; [apply notar_stake_mono | exact E2].
    + eapply quorum_mono; [|exact E2]. apply stk_mono. intros u F. apply orb_prop in F. apply orb_true_iff.
      destruct F as [F|F]; [left | right]; eapply cast_mono; eassumption.
Qed.
Lemma s2s_stake_mono s : s2s_stake W H s -> s2s_stake W H' s.
Proof.
  intros E h. eapply weak_mono; [|apply (E h)]. apply stk_mono. intros u F. apply orb_prop in F. apply orb_true_iff.
  destruct F as [F|F]; [left; eapply cast_mono | right; eapply cast_notar_other_mono]; eassumption.
Qed.
End Mono.

(* a certificate in the sense "some set of distinct validators, all of whom cast a matching vote,
   has the threshold stake" exists iff the set of all such validators has it *)
Theorem cert_iff_exists_signers : forall W H b,
  nf_cert W H b = true <->
  exists S : vidx -> bool,
    (forall u, S u = true -> cast H (fst b) (KNotar (snd b)) u = true \/ cast H (fst b) (KNotarFb (snd b)) u = true) /\
    is_quorum (wep W) (stk W S) = true.
Proof.
  intros W H b. split.
  - intros C. exists (fun u => cast H (fst b) (KNotar (snd b)) u || cast H (fst b) (KNotarFb (snd b)) u).
    split; [intros u E; apply orb_prop in E; exact E | exact C].
  - intros [S [Sub Q]]. unfold nf_cert. eapply quorum_mono; [|exact Q]. apply stk_mono.
    intros u E. apply orb_true_iff. apply Sub. exact E.
Qed.

(* ================= Part 2: order-free rules ================= *)
Record trules (W : world) (H : list vote) : Prop := mkTR {
  tr0 : forall s k u, correct W u = true -> cast H s k u = true -> 0 < s;
  tr1a : forall s h h' u, correct W u = true -> cast H s (KNotar h) u = true -> cast H s (KNotar h') u = true -> h = h';
  tr1b : forall s h u, correct W u = true -> cast H s (KNotar h) u = true -> cast H s KSkip u = false;
  tr2 : forall s u, correct W u = true -> cast H s KFinal u = true ->
        (exists h, cast H s (KNotar h) u = true /\ notar_cert W H (s, h) = true) /\
        cast H s KSkip u = false /\ cast H s KSkipFb u = false /\ (forall h, cast H s (KNotarFb h) u = false);
  tr4 : forall s h u, correct W u = true -> cast H s (KNotarFb h) u = true ->
        s2n_stake W H (s, h) = true /\ exists p, w_parent W (s, h) = Some p /\ (nf_cert W H p = true \/ p = genesis);
  tr5 : forall s u, correct W u = true -> cast H s KSkipFb u = true -> s2s_stake W H s;
  tr6b : forall s h u, correct W u = true -> cast H s (KNotar h) u = true -> s <> window_first s ->
        exists h', w_parent W (s, h) = Some (s - 1, h') /\ (cast H (s - 1) (KNotar h') u = true \/ (s - 1, h') = genesis)
}.

Lemma hist_ok_app W n H : hist_ok W (n ++ H) -> hist_ok W H.
Proof. induction n as [|a n IH]; cbn [app hist_ok]; [auto|]. intros [_ R]. auto. Qed.

Lemma hist_ok_split W n x o : hist_ok W (n ++ x :: o) -> correct W (v_signer x) = true -> rule_at W o x /\ hist_ok W o.
Proof. intros Hk C. apply hist_ok_app in Hk. cbn [hist_ok] in Hk. destruct Hk as [R K]. auto. Qed.

Lemma incl_suffix {A} (n : list A) x o : incl o (n ++ x :: o).
Proof. intros a Ha. apply in_or_app. right. right. exact Ha. Qed.

(* the relative position of two votes of a history *)
Lemma two_positions {A} (l : list A) x y : In x l -> In y l ->
  x = y \/ (exists n o, l = n ++ x :: o /\ In y o) \/ (exists n o, l = n ++ y :: o /\ In x o).
Proof.
  induction l as [|a l IH]; intros Hx Hy; [destruct Hx|].
  destruct Hx as [->|Hx]; destruct Hy as [->|Hy].
  - left. reflexivity.
  - right. left. exists [], l. split; [reflexivity | exact Hy].
  - right. right. exists [], l. split; [reflexivity | exact Hx].
  - destruct (IH Hx Hy) as [E|[[n [o [E I]]]|[n [o [E I]]]]].
    + left. exact E.
    + right. left. exists (a :: n), o. split; [rewrite E; reflexivity | exact I].
    + right. right. exists (a :: n), o. split; [rewrite E; reflexivity | exact I].
Qed.

Lemma rule_of W H x : hist_ok W H -> In x H -> correct W (v_signer x) = true ->
  exists o, incl o H /\ rule_at W o x /\ hist_ok W o.
Proof.
  intros K I C. destruct (in_split _ _ I) as [n [o E]]. subst H.
  destruct (hist_ok_split W n x o K C) as [R Ko]. exists o. split; [apply incl_suffix | auto].
Qed.

(* two votes of correct validators: the same vote, or one of them was cast with the other already cast *)
Lemma pair_rule W H x y : hist_ok W H -> In x H -> In y H ->
  correct W (v_signer x) = true -> correct W (v_signer y) = true ->
  x = y \/ (exists o, incl o H /\ In y o /\ rule_at W o x /\ hist_ok W o)
        \/ (exists o, incl o H /\ In x o /\ rule_at W o y /\ hist_ok W o).
Proof.
  intros K Ix Iy Cx Cy.
  destruct (two_positions H x y Ix Iy) as [E|[[n [o [E I]]]|[n [o [E I]]]]].
  - left. exact E.
  - right. left. subst H. destruct (hist_ok_split W n x o K Cx) as [R Ko]. exists o. split; [apply incl_suffix | auto].
  - right. right. subst H. destruct (hist_ok_split W n y o K Cy) as [R Ko]. exists o. split; [apply incl_suffix | auto].
Qed.

Lemma no_notar_genesis W H u h : hist_ok W H -> correct W u = true -> cast H 0 (KNotar h) u = false.
Proof.
  intros K C. destruct (cast H 0 (KNotar h) u) eqn:F; [|reflexivity]. exfalso.
  apply cast_in in F. destruct (rule_of W H _ K F C) as [o [_ [R _]]]. destruct R as [R _].
  cbn [v_slot v_kind v_signer] in R. lia.
Qed.

(* a finalization vote for the genesis slot would need a notarization certificate for a block of the
   genesis slot, i.e. >= 60 % notar votes there - but only Byzantine validators cast such votes *)
Lemma no_final_genesis W H u : world_ok W -> hist_ok W H -> correct W u = true -> cast H 0 KFinal u = false.
Proof.
  intros WO K C. destruct (cast H 0 KFinal u) eqn:F; [|reflexivity]. exfalso.
  apply cast_in in F. destruct (rule_of W H _ K F C) as [o [_ [R Ko]]]. destruct R as [_ R].
  cbn [v_slot v_kind v_signer] in R. destruct R as [[h [_ Nc]] _].
  apply quorum_iff in Nc. unfold notar_stake in Nc. cbn [fst snd] in Nc.
  assert (M : stk W (cast o 0 (KNotar h)) <= stk W (byz W)).
  { apply stk_mono. intros z Ez. destruct (byz W z) eqn:B; [reflexivity|]. exfalso.
    rewrite (no_notar_genesis W o z h Ko) in Ez; [discriminate | unfold correct; rewrite B; reflexivity]. }
  destruct WO as [P [B _]]. apply weakest_false_iff in B. unfold wtotal in P. lia.
Qed.

Lemma final_has_notar W H s u : world_ok W -> hist_ok W H -> correct W u = true -> cast H s KFinal u = true -> cast_any_notar H s u = true.
Proof.
  intros WO K C F. pose proof F as F0. apply cast_in in F. destruct (rule_of W H _ K F C) as [o [Io [R _]]].
  unfold rule_at in R. cbn [v_slot v_kind v_signer] in R.
  destruct R as [_ [[h [[Ch|G] _]] _]].
  - apply cast_any_notar_iff. exists h. eapply cast_mono; eassumption.
  - exfalso. unfold genesis in G. injection G as G _. subst s. rewrite (no_final_genesis W H u WO K C) in F0. discriminate.
Qed.

Lemma initial_of_notar o s h u : In (mkVote s (KNotar h) u) o -> cast_initial o s u = true.
Proof.
  intros I. unfold cast_initial. apply orb_true_iff. right. apply cast_any_notar_iff. exists h. apply cast_in. exact I.
Qed.
Lemma initial_of_skip o s u : In (mkVote s KSkip u) o -> cast_initial o s u = true.
Proof. intros I. unfold cast_initial. apply orb_true_iff. left. apply cast_in. exact I. Qed.

Theorem hist_ok_trules : forall W H, world_ok W -> hist_ok W H -> trules W H.
Proof.
  intros W H WO K. constructor.
  - (* tr0 *)
    intros s k u C F. pose proof F as F0. apply cast_in in F. destruct (rule_of W H _ K F C) as [o [_ [R _]]]. destruct R as [R _].
    cbn [v_slot v_kind v_signer] in R. destruct k; try exact R.
    destruct (N.eq_dec s 0) as [->|Hne]; [|lia]. rewrite (no_final_genesis W H u WO K C) in F0. discriminate.
  - (* tr1a *)
    intros s h h' u C F1 F2. apply cast_in in F1. apply cast_in in F2.
    destruct (pair_rule W H _ _ K F1 F2 C C) as [E|[[o [_ [I [R _]]]]|[o [_ [I [R _]]]]]].
    + injection E as ->. reflexivity.
    + destruct R as [_ [R _]]. cbn [v_slot v_kind v_signer] in R. rewrite (initial_of_notar _ _ _ _ I) in R. discriminate.
    + destruct R as [_ [R _]]. cbn [v_slot v_kind v_signer] in R. rewrite (initial_of_notar _ _ _ _ I) in R. discriminate.
  - (* tr1b *)
    intros s h u C F1. destruct (cast H s KSkip u) eqn:F2; [|reflexivity]. exfalso.
    apply cast_in in F1. apply cast_in in F2.
    destruct (pair_rule W H _ _ K F1 F2 C C) as [E|[[o [_ [I [R _]]]]|[o [_ [I [R _]]]]]].
    + discriminate.
    + destruct R as [_ [R _]]. cbn [v_slot v_kind v_signer] in R. rewrite (initial_of_skip _ _ _ I) in R. discriminate.
    + destruct R as [_ R]. cbn [v_slot v_kind v_signer] in R. rewrite (initial_of_notar _ _ _ _ I) in R. discriminate.
  - (* tr2 *)
    intros s u C F. pose proof F as F0. apply cast_in in F. split.
    { destruct (rule_of W H _ K F C) as [o [Io [R _]]]. destruct R as [_ R]. cbn [v_slot v_kind v_signer] in R.
      destruct R as [[h [[Ch|G] Nc]] _].
      - exists h. split; [eapply cast_mono; eassumption | eapply notar_cert_mono; eassumption].
      - exfalso. unfold genesis in G. injection G as G _. subst s. rewrite (no_final_genesis W H u WO K C) in F0. discriminate. }
    split; [|split].
    + destruct (cast H s KSkip u) eqn:Fy; [|reflexivity]. exfalso. apply cast_in in Fy.
      destruct (pair_rule W H _ _ K F Fy C C) as [E|[[o [_ [I [R _]]]]|[o [_ [I [R Ko]]]]]].
      * discriminate.
      * destruct R as [_ R]. cbn [v_slot v_kind v_signer] in R. destruct R as [_ [R _]]. apply cast_in in I. congruence.
      * destruct R as [_ R]. cbn [v_slot v_kind v_signer] in R.
        apply cast_in in I. apply (final_has_notar W o s u WO Ko C) in I.
        unfold cast_initial in R. rewrite I, orb_true_r in R. discriminate.
    + destruct (cast H s KSkipFb u) eqn:Fy; [|reflexivity]. exfalso. apply cast_in in Fy.
      destruct (pair_rule W H _ _ K F Fy C C) as [E|[[o [_ [I [R _]]]]|[o [_ [I [R Ko]]]]]].
      * discriminate.
      * destruct R as [_ R]. cbn [v_slot v_kind v_signer] in R. destruct R as [_ [_ [R _]]]. apply cast_in in I. congruence.
      * destruct R as [_ R]. cbn [v_slot v_kind v_signer] in R. destruct R as [R _]. apply cast_in in I. congruence.
    + intros h. destruct (cast H s (KNotarFb h) u) eqn:Fy; [|reflexivity]. exfalso. apply cast_in in Fy.
      destruct (pair_rule W H _ _ K F Fy C C) as [E|[[o [_ [I [R _]]]]|[o [_ [I [R Ko]]]]]].
      * discriminate.
      * destruct R as [_ R]. cbn [v_slot v_kind v_signer] in R. destruct R as [_ [_ [_ R]]].
        assert (X : cast_any_nf o s u = true) by (apply cast_any_nf_iff; exists h; apply cast_in; exact I). congruence.
      * destruct R as [_ R]. cbn [v_slot v_kind v_signer] in R. destruct R as [R _]. apply cast_in in I. congruence.
  - (* tr4 *)
    intros s h u C F. apply cast_in in F. destruct (rule_of W H _ K F C) as [o [Io [R _]]].
    destruct R as [_ R]. cbn [v_slot v_kind v_signer] in R. destruct R as [_ [S2 [_ [p [Pp Pc]]]]].
    split; [eapply s2n_stake_mono; eassumption|]. exists p. split; [exact Pp|].
    destruct Pc as [Pc|Pc]; [left; eapply nf_cert_mono; eassumption | right; exact Pc].
  - (* tr5 *)
    intros s u C F. apply cast_in in F. destruct (rule_of W H _ K F C) as [o [Io [R _]]].
    destruct R as [_ R]. cbn [v_slot v_kind v_signer] in R. destruct R as [_ [_ S2]].
    eapply s2s_stake_mono; eassumption.
  - (* tr6b *)
    intros s h u C F Hw. apply cast_in in F. destruct (rule_of W H _ K F C) as [o [Io [R _]]].
    destruct R as [_ R]. cbn [v_slot v_kind v_signer] in R. destruct R as [_ R].
    apply N.eqb_neq in Hw. rewrite Hw in R. destruct R as [h' [Pp [Cv|G]]].
    + exists h'. split; [exact Pp|]. left. eapply cast_mono; eassumption.
    + exists h'. split; [exact Pp|]. right. exact G.
Qed.

(* ================= Part 3: quorum intersection ================= *)
Section Timeless.
Variable W : world.
Variable H : list vote.
Hypothesis WO : world_ok W.
Hypothesis TR : trules W H.

Let T := wtotal W.
Let Bz := stk W (byz W).

Lemma byz_small : 5 * Bz < T.
Proof. destruct WO as [_ [B _]]. apply weakest_false_iff in B. exact B. Qed.
Lemma total_pos : 0 < T.
Proof. destruct WO as [P _]. exact P. Qed.

(* correct validators among P *)
Definition cpart (P : vidx -> bool) : vidx -> bool := fun u => P u && correct W u.

Lemma cpart_bound P : 5 * stk W P < 5 * stk W (cpart P) + T.
Proof. pose proof (stk_correct_part W P). pose proof byz_small. unfold cpart, Bz in *. lia. Qed.

Lemma cpart_ex P : T <= 5 * stk W P -> exists u, P u = true /\ correct W u = true.
Proof.
  intros L. pose proof (cpart_bound P). destruct (stk_pos_ex W (cpart P)) as [u E]; [lia|].
  unfold cpart in E. apply andb_prop in E. exists u. exact E.
Qed.

(* a set disjoint from V weighs at most the rest *)
Lemma outside_bound (V P : vidx -> bool) : (forall u, V u = true -> P u = false) -> stk W V + stk W P <= T.
Proof. intros D. apply stk_disjoint_le. exact D. Qed.

Definition Nv (b : blockid) : vidx -> bool := cast H (fst b) (KNotar (snd b)).

(* a correct notar voter of b casts no skip vote and no notar vote for another block in that slot *)
Lemma cnotar_excl b u : cpart (Nv b) u = true ->
  cast H (fst b) KSkip u = false /\ (forall h', h' <> snd b -> cast H (fst b) (KNotar h') u = false)
  /\ cast_notar_other H (fst b) (snd b) u = false.
Proof.
  intros E. unfold cpart, Nv in E. apply andb_prop in E. destruct E as [E C]. split; [|split].
  - eapply tr1b; eassumption.
  - intros h' Hne. destruct (cast H (fst b) (KNotar h') u) eqn:F; [|reflexivity]. exfalso. apply Hne.
    eapply tr1a; eassumption.
  - destruct (cast_notar_other H (fst b) (snd b) u) eqn:F; [|reflexivity]. exfalso.
    apply cast_notar_other_iff in F. destruct F as [h' [Hne F]]. apply Hne. eapply tr1a; eassumption.
Qed.

(* two notarization certificates in one slot are for the same block *)
Lemma notar_cert_unique s h1 h2 : notar_cert W H (s, h1) = true -> notar_cert W H (s, h2) = true -> h1 = h2.
Proof.
  intros C1 C2. apply quorum_iff in C1. apply quorum_iff in C2. unfold notar_stake in *. cbn [fst snd] in *.
  pose proof (stk_incl_excl W (cast H s (KNotar h1)) (cast H s (KNotar h2))) as IE.
  destruct (cpart_ex (fun u => cast H s (KNotar h1) u && cast H s (KNotar h2) u)) as [u [E C]].
  { fold T in IE. change (total_stake (wep W)) with T in *. lia. }
  apply andb_prop in E. destruct E as [E1 E2]. eapply tr1a; eassumption.
Qed.

(* ---- the voters behind a finalization ---- *)
(* fast path: correct notar(b) voters hold more than 60 % *)
Lemma fast_core b : ff_cert W H b = true -> 3 * T < 5 * stk W (cpart (Nv b)).
Proof.
  intros F. apply strong_iff in F. pose proof (cpart_bound (Nv b)).
  unfold notar_stake in F. change (total_stake (wep W)) with T in *. unfold Nv in *. lia.
Qed.

(* slow path: correct final voters hold more than 40 %, all of them voted notar(b) and nothing else *)
Definition Fc (s : slot) : vidx -> bool := cpart (cast H s KFinal).
Lemma slow_core b : final_cert W H (fst b) = true -> notar_cert W H b = true ->
  2 * T < 5 * stk W (Fc (fst b)) /\
  (forall u, Fc (fst b) u = true ->
     Nv b u = true /\ correct W u = true /\ cast H (fst b) KSkip u = false /\ cast H (fst b) KSkipFb u = false
     /\ forall h, cast H (fst b) (KNotarFb h) u = false).
Proof.
  intros F Nc. split.
  - apply quorum_iff in F. pose proof (cpart_bound (cast H (fst b) KFinal)).
    unfold final_stake in F. change (total_stake (wep W)) with T in *. unfold Fc. lia.
  - intros u E. unfold Fc, cpart in E. apply andb_prop in E. destruct E as [E C].
    destruct (tr2 W H TR _ _ C E) as [[h [Ch Nh]] [R1 [R2 R3]]].
    assert (h = snd b). { destruct b as [s hb]. cbn [fst snd] in *. eapply notar_cert_unique; eassumption. }
    subst h. unfold Nv. auto.
Qed.

(* in a fast-finalized slot no correct validator casts a skip-fallback vote *)
Lemma fast_no_skipfb b u : ff_cert W H b = true -> correct W u = true -> cast H (fst b) KSkipFb u = false.
Proof.
  intros F C. destruct (cast H (fst b) KSkipFb u) eqn:E; [|reflexivity]. exfalso.
  pose proof (fast_core b F) as Core.
  pose proof (tr5 W H TR _ _ C E (snd b)) as S2. apply weak_iff in S2. change (total_stake (wep W)) with T in S2.
  pose proof (outside_bound (cpart (Nv b)) (fun z => cast H (fst b) KSkip z || cast_notar_other H (fst b) (snd b) z)) as OB.
  assert (stk W (cpart (Nv b)) + stk W (fun z => cast H (fst b) KSkip z || cast_notar_other H (fst b) (snd b) z) <= T).
  { apply OB. intros z Ez. destruct (cnotar_excl b z Ez) as [X1 [_ X3]]. rewrite X1, X3. reflexivity. }
  lia.
Qed.

(* ... and no notar-fallback vote for another block *)
Lemma fast_no_nfb b h' u : ff_cert W H b = true -> h' <> snd b -> correct W u = true ->
  cast H (fst b) (KNotarFb h') u = false.
Proof.
  intros F Hne C. destruct (cast H (fst b) (KNotarFb h') u) eqn:E; [|reflexivity]. exfalso.
  pose proof (fast_core b F) as Core.
  destruct (tr4 W H TR _ _ _ C E) as [S2 _]. unfold s2n_stake in S2. cbn [fst snd] in S2.
  apply andb_prop in S2. destruct S2 as [_ S2].
  set (U := fun z => cast H (fst b) (KNotar h') z || cast H (fst b) KSkip z) in *.
  assert (OB : stk W (cpart (Nv b)) + stk W U <= T).
  { apply outside_bound. intros z Ez. destruct (cnotar_excl b z Ez) as [X1 [X2 _]]. unfold U. rewrite X1, (X2 h' Hne). reflexivity. }
  assert (M : notar_stake W H (fst b, h') <= stk W U).
  { apply stk_mono. intros z Ez. unfold U. cbn [fst snd] in Ez. rewrite Ez. reflexivity. }
  apply orb_prop in S2. destruct S2 as [S2|S2].
  - apply weak_iff in S2. change (total_stake (wep W)) with T in S2. lia.
  - apply quorum_iff in S2. change (total_stake (wep W)) with T in S2. fold U in S2. lia.
Qed.

(* Lemma A: a finalized block excludes a skip certificate for its slot and any certificate
   (notar-fallback or stronger) for another block of its slot *)
Lemma fin_excl_skip b : finalized W H b = true -> skip_cert W H (fst b) = false.
Proof.
  intros F. apply quorum_false_iff. change (total_stake (wep W)) with T. unfold skip_stake.
  set (X := fun u => cast H (fst b) KSkip u || cast H (fst b) KSkipFb u).
  unfold finalized in F. apply orb_prop in F. destruct F as [F|F].
  - pose proof (fast_core b F) as Core.
    assert (stk W (cpart (Nv b)) + stk W X <= T).
    { apply outside_bound. intros z Ez. destruct (cnotar_excl b z Ez) as [X1 _]. unfold X. rewrite X1.
      unfold cpart in Ez. apply andb_prop in Ez. destruct Ez as [_ Cz]. rewrite (fast_no_skipfb b z F Cz). reflexivity. }
    lia.
  - apply andb_prop in F. destruct F as [F Nc]. destruct (slow_core b F Nc) as [Core All].
    assert (stk W (Fc (fst b)) + stk W X <= T).
    { apply outside_bound. intros z Ez. destruct (All z Ez) as [_ [_ [X1 [X2 _]]]]. unfold X. rewrite X1, X2. reflexivity. }
    lia.
Qed.

Lemma fin_excl_other b h' : finalized W H b = true -> h' <> snd b -> nf_cert W H (fst b, h') = false.
Proof.
  intros F Hne. apply quorum_false_iff. change (total_stake (wep W)) with T. unfold nf_stake. cbn [fst snd].
  set (Y := fun u => cast H (fst b) (KNotar h') u || cast H (fst b) (KNotarFb h') u).
  unfold finalized in F. apply orb_prop in F. destruct F as [F|F].
  - pose proof (fast_core b F) as Core.
    assert (stk W (cpart (Nv b)) + stk W Y <= T).
    { apply outside_bound. intros z Ez. destruct (cnotar_excl b z Ez) as [_ [X2 _]]. unfold Y. rewrite (X2 h' Hne).
      unfold cpart in Ez. apply andb_prop in Ez. destruct Ez as [_ Cz]. rewrite (fast_no_nfb b h' z F Hne Cz). reflexivity. }
    lia.
  - apply andb_prop in F. destruct F as [F Nc]. destruct (slow_core b F Nc) as [Core All].
    assert (stk W (Fc (fst b)) + stk W Y <= T).
    { apply outside_bound. intros z Ez. destruct (All z Ez) as [Nz [Cz [_ [_ X3]]]]. unfold Y. rewrite X3.
      destruct (cast H (fst b) (KNotar h') z) eqn:E; [|reflexivity]. exfalso. apply Hne. unfold Nv in Nz.
      eapply tr1a; eassumption. }
    lia.
Qed.

(* the weaker certificates implied by stronger ones *)
Lemma notar_cert_nf b : notar_cert W H b = true -> nf_cert W H b = true.
Proof. apply quorum_mono. apply stk_mono. intros u E. rewrite E. reflexivity. Qed.
Lemma ff_cert_notar b : ff_cert W H b = true -> notar_cert W H b = true.
Proof. intros F. apply strong_iff in F. apply quorum_iff. pose proof total_pos. change (total_stake (wep W)) with T in *. lia. Qed.
Lemma finalized_notar b : finalized W H b = true -> notar_cert W H b = true.
Proof.
  unfold finalized. intros F. apply orb_prop in F. destruct F as [F|F]; [apply ff_cert_notar; exact F|].
  apply andb_prop in F. destruct F as [_ F]. exact F.
Qed.
Lemma finalized_nf b : finalized W H b = true -> nf_cert W H b = true.
Proof. intros F. apply notar_cert_nf, finalized_notar, F. Qed.

(* T1 / T2 on a vote set *)
Lemma fin_unique s h1 h2 : finalized W H (s, h1) = true -> finalized W H (s, h2) = true -> h1 = h2.
Proof.
  intros F1 F2. destruct (N.eq_dec h2 h1) as [E|Hne]; [symmetry; exact E|]. exfalso.
  pose proof (fin_excl_other (s, h1) h2 F1 Hne) as X. cbn [fst] in X.
  rewrite (finalized_nf _ F2) in X. discriminate.
Qed.
Lemma cert_in_fin_slot b c : finalized W H b = true -> nf_cert W H c = true -> fst c = fst b -> c = b.
Proof.
  intros F C E. destruct c as [sc hc]. destruct b as [sb hb]. cbn [fst] in E. subst sc.
  destruct (N.eq_dec hc hb) as [->|Hne]; [reflexivity|]. exfalso.
  pose proof (fin_excl_other (sb, hb) hc F Hne) as X. cbn [fst] in X. congruence.
Qed.

(* ---- who stands behind a certified block ---- *)
(* Lemma 27: a certified block has a correct notar voter *)
Lemma cert_has_correct_notar b : nf_cert W H b = true -> exists u, correct W u = true /\ Nv b u = true.
Proof.
  intros C. apply quorum_iff in C. change (total_stake (wep W)) with T in C. unfold nf_stake in C.
  pose proof total_pos.
  destruct (cpart_ex (fun u => cast H (fst b) (KNotar (snd b)) u || cast H (fst b) (KNotarFb (snd b)) u)) as [u [E Cu]]; [lia|].
  apply orb_prop in E. destruct E as [E|E]; [exists u; split; assumption|].
  destruct b as [s h]. cbn [fst snd] in *.
  destruct (tr4 W H TR _ _ _ Cu E) as [S2 _]. unfold s2n_stake in S2. apply andb_prop in S2. destruct S2 as [S2 _].
  apply weakest_iff in S2. change (total_stake (wep W)) with T in S2. unfold notar_stake in S2. cbn [fst snd] in S2.
  destruct (cpart_ex (cast H s (KNotar h))) as [u' [E' Cu']]; [lia|]. exists u'. split; assumption.
Qed.

(* more than 40 % of the stake is held by correct validators that voted notar(b) *)
Definition strong_notar (b : blockid) : Prop := 2 * T < 5 * stk W (cpart (Nv b)).
Definition correct_nfb (b : blockid) : Prop := exists u, correct W u = true /\ cast H (fst b) (KNotarFb (snd b)) u = true.

(* Lemma 30, base: behind a certificate there is a correct notar-fallback voter or > 40 % correct notar voters *)
Lemma cert_support b : nf_cert W H b = true -> strong_notar b \/ correct_nfb b.
Proof.
  intros C.
  destruct (existsb (fun x => (v_slot x =? fst b) && vk_eqb (v_kind x) (KNotarFb (snd b)) && correct W (v_signer x)) H) eqn:Ex.
  - right. apply existsb_exists in Ex. destruct Ex as [x [Hin E]]. apply andb_prop in E. destruct E as [E E3].
    apply andb_prop in E. destruct E as [E1 E2]. apply N.eqb_eq in E1. apply vk_eqb_eq in E2.
    exists (v_signer x). split; [exact E3|]. apply cast_in. destruct x as [xs xk xu]. cbn in *. subst. exact Hin.
  - left. unfold strong_notar. apply quorum_iff in C. change (total_stake (wep W)) with T in C. unfold nf_stake in C.
    set (Y := fun u => cast H (fst b) (KNotar (snd b)) u || cast H (fst b) (KNotarFb (snd b)) u) in *.
    pose proof (cpart_bound Y) as CB.
    assert (M : stk W (cpart Y) <= stk W (cpart (Nv b))).
    { apply stk_mono. intros u E. unfold cpart in *. apply andb_prop in E. destruct E as [E Cu]. rewrite Cu, andb_true_r.
      unfold Y in E. apply orb_prop in E. destruct E as [E|E]; [exact E|]. exfalso.
      apply cast_in in E. assert (X : existsb (fun x => (v_slot x =? fst b) && vk_eqb (v_kind x) (KNotarFb (snd b)) && correct W (v_signer x)) H = true).
      { apply existsb_exists. exists (mkVote (fst b) (KNotarFb (snd b)) u). split; [exact E|]. cbn [v_slot v_kind v_signer].
        rewrite N.eqb_refl, Cu. cbn [andb]. rewrite andb_true_r. apply vk_eqb_eq. reflexivity. }
      congruence. }
    lia.
Qed.

(* > 40 % correct notar voters for h' and a notarization certificate for b in the same slot: h' = b *)
Lemma strong_notar_vs_cert s h' hb : strong_notar (s, h') -> notar_cert W H (s, hb) = true -> h' = hb.
Proof.
  intros S C. destruct (N.eq_dec h' hb) as [E|Hne]; [exact E|]. exfalso.
  unfold strong_notar in S. apply quorum_iff in C. change (total_stake (wep W)) with T in C. unfold notar_stake in C. cbn [fst snd] in C.
  assert (stk W (cpart (Nv (s, h'))) + stk W (cast H s (KNotar hb)) <= T).
  { apply outside_bound. intros z Ez. destruct (cnotar_excl (s, h') z Ez) as [_ [X2 _]]. cbn [fst snd] in X2.
    apply X2. intros E. apply Hne. symmetry. exact E. }
  lia.
Qed.
End Timeless.

(* ================= Part 4: chains ================= *)
(* ---- leader windows ---- *)
Ltac Zify.zify_post_hook ::= Z.div_mod_to_equations.
Lemma wf_le s : window_first s <= s.
Proof. unfold window_first, SLOTS_PER_WINDOW. lia. Qed.
Lemma wf_idem s : window_first (window_first s) = window_first s.
Proof. unfold window_first, SLOTS_PER_WINDOW. lia. Qed.
Lemma wf_prev s : s <> window_first s -> window_first (s - 1) = window_first s /\ 0 < s.
Proof. unfold window_first, SLOTS_PER_WINDOW. lia. Qed.
Ltac Zify.zify_post_hook ::= idtac.

Ltac nlia := cbv beta delta [blockid slot hash vidx] in *; lia.
(* ---- ancestors ---- *)
Section Chains.
Variable W : world.
Hypothesis WO : world_ok W.

Lemma parent_lt b p : w_parent W b = Some p -> fst p < fst b.
Proof. destruct WO as [_ [_ P]]. apply P. Qed.

Lemma anc_eq_slot a b : anc_eq W a b -> fst a <= fst b /\ (fst a = fst b -> a = b).
Proof.
  induction 1 as [b|a b p Pp An IH].
  - split; [nlia | reflexivity].
  - pose proof (parent_lt _ _ Pp). destruct IH as [L _]. split; [nlia | intros E; nlia].
Qed.

Lemma anc_eq_trans a b c : anc_eq W a b -> anc_eq W b c -> anc_eq W a c.
Proof. intros Hab Hbc. induction Hbc as [c|b c p Pp An IH]; [exact Hab|]. eapply ae_step; [exact Pp | apply IH; exact Hab]. Qed.

(* the chain below a block is linear *)
Lemma anc_eq_linear x y f : anc_eq W x f -> anc_eq W y f -> fst x <= fst y -> anc_eq W x y.
Proof.
  intros Hx Hy. revert x Hx. induction Hy as [f|y f p Pp An IH]; intros x Hx L; [exact Hx|].
  inversion Hx as [f' E1 E2|x' f' p' Pp' An' E1 E2]; subst.
  - exfalso. pose proof (parent_lt _ _ Pp). destruct (anc_eq_slot _ _ An) as [L2 _]. nlia.
  - rewrite Pp in Pp'. injection Pp' as <-. apply IH; assumption.
Qed.

Lemma anc_eq_below_parent b a a' : anc_eq W b a -> b <> a -> w_parent W a = Some a' -> anc_eq W b a'.
Proof.
  intros An Hne Pp. inversion An as [f' E1 E2|x' f' p' Pp' An' E1 E2]; subst; [congruence|].
  rewrite Pp in Pp'. injection Pp' as <-. exact An'.
Qed.

(* ---- descent inside a leader window (order-free) ---- *)
Section SameWindow.
Variable H : list vote.
Hypothesis TR : trules W H.

Lemma fin_slot_pos b : finalized W H b = true -> 0 < fst b.
Proof.
  intros F. destruct (cert_has_correct_notar W H WO TR b (finalized_nf W H WO b F)) as [u [C E]].
  unfold Nv in E. eapply tr0; eassumption.
Qed.

Lemma step_strong d : strong_notar W H d -> fst d <> window_first (fst d) ->
  exists h', w_parent W d = Some (fst d - 1, h') /\ ((fst d - 1, h') = genesis \/ strong_notar W H (fst d - 1, h')).
Proof.
  intros S Hw. destruct d as [s h]. cbn [fst] in *. unfold strong_notar in S.
  destruct (stk_pos_ex W (cpart W (Nv H (s, h)))) as [u E]; [nlia|].
  unfold cpart, Nv in E. cbn [fst snd] in E. apply andb_prop in E. destruct E as [E C].
  destruct (tr6b W H TR _ _ _ C E Hw) as [h' [Pp _]]. exists h'. split; [exact Pp|].
  assert (D : (s - 1, h') = genesis \/ (s - 1, h') <> genesis).
  { unfold genesis. destruct (N.eq_dec (s - 1) 0) as [Z|NZ]; [destruct (N.eq_dec h' 0) as [Z2|NZ2]|].
    - left. rewrite Z, Z2. reflexivity.
    - right. intros X. injection X as _ X. contradiction.
    - right. intros X. injection X as X _. contradiction. }
  destruct D as [G|NG]; [left; exact G | right].
  unfold strong_notar. eapply N.lt_le_trans; [exact S|]. apply N.mul_le_mono_l.
  apply stk_mono. intros z Ez. unfold cpart, Nv in *. cbn [fst snd] in *.
  apply andb_prop in Ez. destruct Ez as [Ez Cz]. rewrite Cz, andb_true_r.
  destruct (tr6b W H TR _ _ _ Cz Ez Hw) as [h'' [Pp' [Cv|G]]]; rewrite Pp in Pp'; injection Pp' as <-; [exact Cv | contradiction].
Qed.

Lemma step_nfb d : correct_nfb W H d -> fst d <> window_first (fst d) ->
  exists h', w_parent W d = Some (fst d - 1, h') /\ (nf_cert W H (fst d - 1, h') = true \/ (fst d - 1, h') = genesis).
Proof.
  intros [u [C E]] Hw. destruct d as [s h]. cbn [fst snd] in *.
  destruct (tr4 W H TR _ _ _ C E) as [S2 [p [Pp Pc]]].
  unfold s2n_stake in S2. apply andb_prop in S2. destruct S2 as [S2 _]. apply weakest_iff in S2.
  unfold notar_stake in S2. cbn [fst snd] in S2.
  destruct (cpart_ex W WO (cast H s (KNotar h))) as [u' [E' C']]; [exact S2|].
  destruct (tr6b W H TR _ _ _ C' E' Hw) as [h' [Pp' _]]. exists h'. split; [exact Pp'|].
  rewrite Pp in Pp'. injection Pp' as ->. exact Pc.
Qed.

(* Lemma 31: a block supported in a later slot of the finalized block's window descends from it *)
Lemma same_window_descent b : finalized W H b = true ->
  forall k d, fst d = fst b + 1 + N.of_nat k -> window_first (fst d) <= fst b ->
              (strong_notar W H d \/ nf_cert W H d = true) -> anc_eq W b d.
Proof.
  intros F. pose proof (fin_slot_pos b F) as Pos. destruct b as [sb hb]. cbn [fst snd] in *.
  induction k as [|k IH]; intros [sd hd] Ed Hwin Sup; cbn [fst snd] in *.
  - (* the parent lies in the slot of b *)
    assert (Hw : sd <> window_first sd) by nlia.
    assert (Sup' : strong_notar W H (sd, hd) \/ correct_nfb W H (sd, hd)).
    { destruct Sup as [S|C]; [left; exact S | apply (cert_support W H WO _ C)]. }
    assert (Es : sd - 1 = sb) by nlia.
    destruct Sup' as [S|Nf].
    + destruct (step_strong _ S Hw) as [h' [Pp [G|S']]]; cbn [fst snd] in *.
      * exfalso. unfold genesis in G. injection G as G _. nlia.
      * rewrite Es in Pp, S'.
        assert (h' = hb). { eapply strong_notar_vs_cert; [exact TR | exact S' |]. apply finalized_notar; assumption. }
        subst h'. eapply ae_step; [exact Pp|]. apply ae_refl.
    + destruct (step_nfb _ Nf Hw) as [h' [Pp [Pc|G]]]; cbn [fst snd] in *;
        [|exfalso; unfold genesis in G; injection G as G _; nlia].
      rewrite Es in Pp, Pc.
      assert (X : (sb, h') = (sb, hb)) by (apply (cert_in_fin_slot W H WO TR (sb, hb) _ F Pc); reflexivity).
      injection X as ->. eapply ae_step; [exact Pp|]. apply ae_refl.
  - assert (Hw : sd <> window_first sd) by nlia.
    destruct (wf_prev _ Hw) as [Wp _].
    assert (Sup' : strong_notar W H (sd, hd) \/ correct_nfb W H (sd, hd)).
    { destruct Sup as [S|C]; [left; exact S | apply (cert_support W H WO _ C)]. }
    assert (Ed' : sd - 1 = sb + 1 + N.of_nat k) by nlia.
    destruct Sup' as [S|Nf].
    + destruct (step_strong _ S Hw) as [h' [Pp [G|S']]]; cbn [fst snd] in *.
      * exfalso. unfold genesis in G. injection G as G _. nlia.
      * eapply ae_step; [exact Pp|]. apply IH; cbn [fst snd]; [exact Ed' | rewrite Wp; exact Hwin | left; exact S'].
    + destruct (step_nfb _ Nf Hw) as [h' [Pp [Pc|G]]]; cbn [fst snd] in *;
        [|exfalso; unfold genesis in G; injection G as G _; nlia].
      eapply ae_step; [exact Pp|]. apply IH; cbn [fst snd]; [exact Ed' | rewrite Wp; exact Hwin | right; exact Pc].
Qed.

(* Lemma 28: a correct notar voter of d voted notar for the ancestors of d back to the start of the window *)
Lemma chain_down u : correct W u = true ->
  forall k d t, fst d = t + N.of_nat k -> window_first (fst d) <= t -> 0 < t ->
    cast H (fst d) (KNotar (snd d)) u = true ->
    exists a, fst a = t /\ anc_eq W a d /\ cast H t (KNotar (snd a)) u = true.
Proof.
  intros C. induction k as [|k IH]; intros d t Ed Hwin Pos E.
  - exists d. split; [nlia|]. split; [apply ae_refl|]. assert (fst d = t) as <- by nlia. exact E.
  - assert (Hw : fst d <> window_first (fst d)) by nlia.
    destruct (wf_prev _ Hw) as [Wp _]. destruct d as [s h]. cbn [fst snd] in *.
    destruct (tr6b W H TR _ _ _ C E Hw) as [h' [Pp [Cv|G]]].
    + destruct (IH (s - 1, h') t) as [a [Ea [An Ca]]]; cbn [fst snd]; try nlia; [exact Cv|].
      exists a. split; [exact Ea|]. split; [eapply ae_step; eassumption | exact Ca].
    + exfalso. unfold genesis in G. injection G as G _. nlia.
Qed.
End SameWindow.

(* ---- T3: induction over time ---- *)
Lemma incl_tail_of_split {A} (x : A) pre' n2 v o : x :: pre' = n2 ++ v :: o -> incl o pre'.
Proof.
  intros E. destruct n2 as [|y n2]; cbn [app] in E; injection E as _ E; subst pre'.
  - apply incl_refl.
  - apply incl_suffix.
Qed.

Theorem chain_descent : forall hist b,
  hist_ok W hist -> finalized W hist b = true ->
  forall pre n, hist = n ++ pre ->
  forall c, nf_cert W pre c = true -> fst b <= fst c -> anc_eq W b c.
Proof.
  intros hist b K F.
  pose proof (hist_ok_trules W hist WO K) as TRh.
  pose proof (fin_slot_pos hist TRh b F) as Pos.
  induction pre as [|x pre' IH]; intros n E c C L.
  - exfalso. assert (TR0 : trules W []) by (apply hist_ok_trules; [exact WO | exact I]).
    destruct (cert_has_correct_notar W [] WO TR0 c C) as [u [_ X]]. unfold Nv, cast in X. cbn in X. discriminate.
  - assert (Ipre : incl (x :: pre') hist) by (rewrite E; intros a Ha; apply in_or_app; right; exact Ha).
    assert (Kpre : hist_ok W (x :: pre')) by (rewrite E in K; eapply hist_ok_app; exact K).
    assert (IHo : forall o, incl o pre' -> forall c', nf_cert W o c' = true -> fst b <= fst c' -> anc_eq W b c').
    { intros o Io c' C' L'. apply (IH (n ++ [x])); [rewrite <- app_assoc; exact E | eapply nf_cert_mono; eassumption | exact L']. }
    assert (Ch : nf_cert W hist c = true) by (eapply nf_cert_mono; eassumption).
    destruct (N.eq_dec (fst c) (fst b)) as [Es|Ns].
    { rewrite (cert_in_fin_slot W hist WO TRh b c F Ch Es). apply ae_refl. }
    destruct (N.le_gt_cases (window_first (fst c)) (fst b)) as [Hwin|Hwin].
    { apply (same_window_descent hist TRh b F (N.to_nat (fst c - fst b - 1)) c); [nlia | exact Hwin | right; exact Ch]. }
    (* another window: go back to the first block of c's window and use its ParentReady evidence *)
    pose proof (hist_ok_trules W _ WO Kpre) as TRp.
    destruct (cert_has_correct_notar W _ WO TRp c C) as [u [Cu Eu]]. unfold Nv in Eu.
    set (w := window_first (fst c)) in *.
    destruct (chain_down _ TRp u Cu (N.to_nat (fst c - w)) c w) as [a [Ea [An Ca]]];
      [pose proof (wf_le (fst c)); fold w in H; nlia | fold w; nlia | nlia | exact Eu |].
    apply cast_in in Ca. destruct (in_split _ _ Ca) as [n2 [o Eo]].
    assert (Io : incl o pre') by (eapply incl_tail_of_split; exact Eo).
    rewrite Eo in Kpre. destruct (hist_ok_split W n2 _ o Kpre Cu) as [R Ko].
    destruct R as [_ [_ R]]. cbn [v_slot v_kind v_signer] in R.
    assert (Ww : (w =? window_first w) = true) by (apply N.eqb_eq; unfold w; symmetry; apply wf_idem).
    rewrite Ww in R. destruct R as [p [Pp [Plt [Mnf Msk]]]].
    assert (Pa : w_parent W a = Some p) by (destruct a as [sa ha]; cbn [fst snd] in *; subst sa; exact Pp).
    (* finalized blocks known at that time descend from b *)
    assert (FinO : forall f, finalized W o f = true -> fst b <= fst f -> anc_eq W b f).
    { intros f Ff Lf. apply (IHo o Io); [|exact Lf]. apply (finalized_nf W o WO f Ff). }
    (* the parent is not below the slot of b: that slot is not marked skipped *)
    assert (Lp : fst b <= fst p).
    { destruct (N.le_gt_cases (fst b) (fst p)) as [X|X]; [exact X|]. exfalso.
      destruct (Msk (fst b) X Hwin) as [Sk|[f [a1 [a1' [Ff [An1 [Pp1 [Lo Hi]]]]]]]].
      - assert (Skh : skip_cert W hist (fst b) = true).
        { eapply skip_cert_mono; [|exact Sk]. intros z Hz. apply Ipre. right. apply Io. exact Hz. }
        rewrite (fin_excl_skip W hist WO TRh b F) in Skh. discriminate.
      - destruct (anc_eq_slot _ _ An1) as [L1 _].
        assert (Bf : anc_eq W b f) by (apply FinO; [exact Ff | nlia]).
        assert (Ba : anc_eq W b a1) by (apply (anc_eq_linear b a1 f Bf An1); nlia).
        assert (Hne : b <> a1) by (intros ->; nlia).
        pose proof (anc_eq_below_parent b a1 a1' Ba Hne Pp1) as Ba'.
        destruct (anc_eq_slot _ _ Ba') as [L2 _]. nlia. }
    assert (Bp : anc_eq W b p).
    { destruct Mnf as [Cp|[G|[f [Ff Apf]]]].
      - apply (IHo o Io); assumption.
      - exfalso. subst p. unfold genesis in Lp. cbn [fst] in Lp. nlia.
      - destruct (anc_eq_slot _ _ Apf) as [L1 _].
        assert (Bf : anc_eq W b f) by (apply FinO; [exact Ff | nlia]).
        apply (anc_eq_linear b p f Bf Apf Lp). }
    apply (anc_eq_trans b a c); [|exact An]. eapply ae_step; [exact Pa | exact Bp].
Qed.
End Chains.

(* ================= the safety theorems ================= *)
(* T1: at most one block is finalized per slot *)
Theorem safety_T1 : forall W hist s h1 h2,
  world_ok W -> hist_ok W hist ->
  finalized W hist (s, h1) = true -> finalized W hist (s, h2) = true -> h1 = h2.
Proof. intros W hist s h1 h2 WO K. apply (fin_unique W hist WO (hist_ok_trules W hist WO K)). Qed.

(* T2: a slot with a finalized block has no skip certificate *)
Theorem safety_T2 : forall W hist b,
  world_ok W -> hist_ok W hist -> finalized W hist b = true -> skip_cert W hist (fst b) = false.
Proof. intros W hist b WO K. apply (fin_excl_skip W hist WO (hist_ok_trules W hist WO K)). Qed.

(* ... nor a certificate (notar-fallback or stronger) for another block of that slot *)
Theorem safety_T2_other : forall W hist b h',
  world_ok W -> hist_ok W hist -> finalized W hist b = true -> h' <> snd b -> nf_cert W hist (fst b, h') = false.
Proof. intros W hist b h' WO K. apply (fin_excl_other W hist WO (hist_ok_trules W hist WO K)). Qed.

(* T3: every block certified (notarization, notar-fallback or fast-finalization certificate) in the
   slot of a finalized block or later is that block or one of its descendants *)
Theorem safety_T3 : forall W hist b c,
  world_ok W -> hist_ok W hist ->
  finalized W hist b = true -> nf_cert W hist c = true -> fst b <= fst c -> anc_eq W b c.
Proof.
  intros W hist b c WO K F C L. apply (chain_descent W WO hist b K F hist []); [reflexivity | exact C | exact L].
Qed.

(* all finalized blocks, directly or through a finalized descendant, lie on one chain *)
Theorem safety_one_chain : forall W hist f1 f2 x1 x2,
  world_ok W -> hist_ok W hist ->
  finalized W hist f1 = true -> finalized W hist f2 = true ->
  anc_eq W x1 f1 -> anc_eq W x2 f2 ->
  anc_eq W x1 x2 \/ anc_eq W x2 x1.
Proof.
  intros W hist f1 f2 x1 x2 WO K F1 F2 A1 A2.
  pose proof (hist_ok_trules W hist WO K) as TR.
  assert (Main : forall g1 g2 y1 y2, finalized W hist g1 = true -> finalized W hist g2 = true ->
                   anc_eq W y1 g1 -> anc_eq W y2 g2 -> fst g1 <= fst g2 -> anc_eq W y1 y2 \/ anc_eq W y2 y1).
  { intros g1 g2 y1 y2 G1 G2 B1 B2 L.
    assert (G12 : anc_eq W g1 g2) by (apply (safety_T3 W hist g1 g2 WO K G1 (finalized_nf W hist WO g2 G2) L)).
    assert (B1' : anc_eq W y1 g2) by (eapply anc_eq_trans; eassumption).
    destruct (N.le_gt_cases (fst y1) (fst y2)) as [X|X].
    - left. apply (anc_eq_linear W WO y1 y2 g2 B1' B2 X).
    - right. apply (anc_eq_linear W WO y2 y1 g2 B2 B1'). lia. }
  destruct (N.le_gt_cases (fst f1) (fst f2)) as [X|X].
  - apply (Main f1 f2 x1 x2); assumption.
  - destruct (Main f2 f1 x2 x1) as [Y|Y]; try assumption; [lia | right; exact Y | left; exact Y].
Qed.

(* in particular two blocks of one slot that are finalized directly or implicitly are equal *)
Theorem safety_one_block_per_slot : forall W hist f1 f2 x1 x2,
  world_ok W -> hist_ok W hist ->
  finalized W hist f1 = true -> finalized W hist f2 = true ->
  anc_eq W x1 f1 -> anc_eq W x2 f2 -> fst x1 = fst x2 -> x1 = x2.
Proof.
  intros W hist f1 f2 x1 x2 WO K F1 F2 A1 A2 E.
  destruct (safety_one_chain W hist f1 f2 x1 x2 WO K F1 F2 A1 A2) as [X|X];
    destruct (anc_eq_slot W WO _ _ X) as [_ Y]; [apply Y; exact E | symmetry; apply Y; symmetry; exact E].
Qed.

(* the safety statements hold at every moment of the execution: every suffix of a rule-abiding
   history is rule-abiding *)
Theorem hist_ok_prefix_closed : forall W newer older, hist_ok W (newer ++ older) -> hist_ok W older.
Proof. intros W n o. apply hist_ok_app. Qed.
