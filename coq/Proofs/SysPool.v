(* C01, global composition, part 4: the whole pool.
   [PJ W e H p]: every slot state of pool p satisfies SJ (stored votes were cast, held certificates and
   "certified" parents are justified by the abstract view over the votes cast H), the waiting-children
   map and the finality tracker know only links of the block tree, every status of the finality tracker
   and every mark delivered to the parent-ready tracker is justified by H.
   THEOREM pool_step_just: every pool operation whose argument is justified (a vote really cast, a
   certificate backed by cast votes, a block with its true parent) preserves PJ, and EVERY event it
   hands to Votor is justified by H: ParentReady(s, p) only for a marked parent over marked-skipped
   slots, SafeToNotar / SafeToSkip only under their stake and own-vote conditions with a certified (or
   genesis) parent, CertCreated only for certificates of the abstract view.  This is the premise
   [ev_justified] of C01_node_rule_sound, for every reachable pool - pruning, received certificates,
   implicit finalization and implicit skips included.  A panic (None) needs nothing: a panicked pool
   ignores every later operation. *)
From Coq Require Import List NArith Bool Lia ZifyBool ZifyNat ZifyN.
From AG Require Import Gen.Params Model.Pool Model.PoolSpec Model.SafeToSpec Model.TrackerSpec Model.Votor Model.Node
  Model.Safety Model.NodeRules Model.System
  Proofs.SlotStateProofs Proofs.StakeSets Proofs.SafetyProofs Proofs.ParentReadyProofs Proofs.PoolTrackerLink
  Proofs.SafeToPool Proofs.NodeProofs Proofs.SysSlot Proofs.SysFinality Proofs.SysReady.
Import ListNotations.
Open Scope N_scope.

Section Pool.
Variable W : world.
Hypothesis WO : world_ok W.
Variable e : epoch.
Hypothesis Est : stakes e = w_stakes W.

Definition evJ (H : list vote) : pevent -> Prop := ev_just W H (own e).

Lemma evJ_mono H H' x : incl H H' -> evJ H x -> evJ H' x.
Proof.
  intros I. unfold evJ. destruct x as [s p|b|s|c|s cs vs|s p]; cbn [ev_just]; try (intros; exact Logic.I).
  - apply (parent_ready_mono W); exact I.
  - intros (A & B & C). split; [eapply s2n_stake_mono; eassumption|]. split.
    + destruct B as [B|B]; [left; eapply cast_mono; eassumption | right; eapply cast_notar_other_mono; eassumption].
    + eapply par_cert_just_mono; eassumption.
  - intros (A & B). split; [|eapply s2s_stake_mono; eassumption].
    apply cast_any_notar_iff in A. destruct A as [h A]. apply cast_any_notar_iff. exists h. eapply cast_mono; eassumption.
  - apply cert_backed_mono; exact I.
Qed.

Lemma woken_just H wk : woken_only wk -> Forall (evJ H) wk.
Proof. intros Wk. apply Forall_forall. intros x Ix. destruct (Wk x Ix) as (s & p & ->). exact I. Qed.
Lemma pr_events_just H prs : (forall s p, In (s, p) prs -> parent_ready W H s p) -> Forall (evJ H) (pr_events prs).
Proof.
  intros A. apply Forall_forall. intros x Ix. unfold pr_events in Ix. apply in_map_iff in Ix.
  destruct Ix as [[s p] [<- Isp]]. cbn [fst snd evJ ev_just]. apply A. exact Isp.
Qed.

Record PJ (H : list vote) (p : pool) : Prop := mkPJ {
  pj_slots : forall s, SJ W e H s (p_ss p s);
  pj_wait : forall par b, In (par, b) (p_waiting p) -> w_parent W b = Some par;
  pj_ft : FJ W H (p_ft p);
  pj_prt : PRJ W H (p_prt p);
  pj_root : pt_root (p_prt p) <= ft_first (p_ft p) }.

Lemma PJ_mono H H' p : incl H H' -> PJ H p -> PJ H' p.
Proof.
  intros I [A B C D E]. constructor; [| exact B | | | exact E].
  - intros s. eapply SJ_mono; [exact I | apply A].
  - eapply FJ_mono; eassumption.
  - eapply PRJ_mono; eassumption.
Qed.

Lemma PJ_init H : PJ H pool_init.
Proof.
  constructor.
  - intros s. apply SJ_empty.
  - intros par b [].
  - apply FJ_init.
  - apply PRJ_init.
  - cbn. lia.
Qed.

Lemma PJ_set_ss H p s x : PJ H p -> SJ W e H s x -> PJ H (p_set_ss p s x).
Proof.
  intros [A B C D E] J. constructor; try assumption.
  intros s'. rewrite p_ss_set. destruct (s' =? s) eqn:Es; [apply N.eqb_eq in Es; subst; exact J | apply A].
Qed.
Lemma PJ_touch H p s : PJ H p -> PJ H (p_touch p s).
Proof.
  intros [A B C D E]. destruct (p_touch_frame p s) as (F1 & F2 & F3 & _).
  constructor; rewrite ?F1, ?F2, ?F3; try assumption. intros s'. rewrite p_ss_touch. apply A.
Qed.
Lemma PJ_panicked H p : PJ H p -> PJ H (panicked p).
Proof. intros [A B C D E]. constructor; assumption. Qed.
Lemma PJ_with_ft H p t : PJ H p -> FJ W H t -> ft_first (p_ft p) <= ft_first t -> PJ H (pool_with_ft p t).
Proof. intros [A B C D E] J L. constructor; try assumption. cbn [pool_with_ft p_prt p_ft]. lia. Qed.
Lemma PJ_with_prt H p t : PJ H p -> PRJ W H t -> pt_root t <= ft_first (p_ft p) -> PJ H (pool_with_prt p t).
Proof. intros [A B C D E] J L. constructor; assumption. Qed.
Lemma PJ_waiting H p w : PJ H p -> (forall par b, In (par, b) w -> w_parent W b = Some par) ->
  PJ H (mkPool (p_slots p) (p_prt p) (p_ft p) w (p_panicked p)).
Proof. intros [A B C D E] J. constructor; assumption. Qed.

(* ---------- finalization handling ---------- *)
Lemma evj_op_just H ev : evj W H ev -> op_just W H (TFinalize ev).
Proof.
  intros (A & B & C). cbn [op_just]. split.
  - intros b Ib. unfold fin_blocks in Ib. apply in_app_or in Ib. destruct Ib as [Ib|Ib].
    + destruct (fe_final ev) as [f|]; [|destruct Ib]. destruct Ib as [<-|[]]. apply (fin_mark_nf W WO). apply A. reflexivity.
    + apply (ifin_mark_nf W WO). apply B. exact Ib.
  - intros s Is. apply (iskip_mark_skip W WO). apply C. exact Is.
Qed.

Lemma phf_just H p ev p' o :
  PJ H p -> evj W H ev -> pool_handle_finalization p ev = Some (p', o) -> PJ H p' /\ Forall (evJ H) (po_events o).
Proof.
  intros J Ev R. unfold pool_handle_finalization in R.
  destruct (pt_handle_finalization (p_prt p) ev) as [[[t prs] wk]|] eqn:HF; [|discriminate]. injection R as <- <-.
  destruct (handle_finalization_acc _ _ _ _ _ HF) as [_ Wk].
  destruct (prj_step W H (p_prt p) (TFinalize ev) t prs wk (pj_prt _ _ J) (evj_op_just H ev Ev)) as (D1 & R1 & A1);
    [intros r Er; discriminate | exact HF |].
  destruct (prj_step W H t (TPrune (ft_first (p_ft p))) (pt_prune t (ft_first (p_ft p))) [] [] D1 I) as (D2 & R2 & _);
    [intros r Er; injection Er as <-; rewrite R1; apply (pj_root _ _ J) | reflexivity |].
  split.
  - destruct J as [A B C D E]. constructor.
    + intros s. rewrite p_ss_prune. destruct (_ <=? s); [apply A | apply SJ_empty].
    + exact B.
    + exact C.
    + exact D2.
    + change (pt_root (pt_prune t (ft_first (p_ft p))) <= ft_first (p_ft p)). rewrite R2. lia.
  - cbn [po_events]. apply Forall_app. split; [apply woken_just; exact Wk | apply pr_events_just; exact A1].
Qed.

(* ---------- the waiting children of a newly certified parent ---------- *)
Lemma notify_children_just H : forall children p acc p' o,
  PJ H p -> Forall (evJ H) (po_events acc) -> (forall c, In c children -> par_cert_just W H c) ->
  notify_children e p children acc = Some (p', o) -> PJ H p' /\ Forall (evJ H) (po_events o).
Proof.
  unfold notify_children.
  induction children as [|[cs ch] l IH]; intros p acc p' o J Fa Pc R; cbn [notify_children_gen andb] in R.
  - injection R as <- <-. split; assumption.
  - assert (Pc' : forall c, In c l -> par_cert_just W H c) by (intros c Ic; apply Pc; right; exact Ic).
    destruct (cs <? first_unpruned p); [exact (IH _ _ _ _ J Fa Pc' R)|].
    destruct (notify_parent_certified e cs (p_ss (p_touch p cs) cs) ch) as [[[ss' evs] rps]|] eqn:NC; [|discriminate].
    pose proof (PJ_touch H p cs J) as J0.
    destruct (SJ_certified W e Est H cs _ ch ss' evs rps (pj_slots _ _ J0 cs) (Pc (cs, ch) (or_introl eq_refl)) NC) as [Js Fe].
    apply (IH _ _ _ _ (PJ_set_ss H _ cs ss' J0 Js)) with (3 := R); [|exact Pc'].
    cbn [po_app po_events]. apply Forall_app. split; assumption.
Qed.

Lemma nwc_just H p b p' o :
  PJ H p -> nf_cert W H b = true -> notify_waiting_children e p b = Some (p', o) -> PJ H p' /\ Forall (evJ H) (po_events o).
Proof.
  intros J Nc R. unfold notify_waiting_children, notify_waiting_children_gen in R.
  apply (notify_children_just H _ _ _ _ _) with (4 := R).
  - apply PJ_waiting; [exact J|]. intros par c Ic. apply in_bremove in Ic. destruct Ic as [Ic _]. apply (pj_wait _ _ J). exact Ic.
  - constructor.
  - intros c Ic. apply in_map_iff in Ic. destruct Ic as [[par c'] [Ec Ic]]. cbn [snd] in Ec. subst c'.
    apply filter_In in Ic. destruct Ic as [Ic Eb]. cbn [fst] in Eb. apply bid_eqb_eq in Eb. subst par.
    exists b. split; [apply (pj_wait _ _ J); exact Ic | left; exact Nc].
Qed.

(* ---------- a certificate enters the pool (created or received) ---------- *)
Lemma Forall_evJ_app3 H a b c : Forall (evJ H) a -> Forall (evJ H) b -> Forall (evJ H) c -> Forall (evJ H) ((a ++ b) ++ c).
Proof. intros A B C. apply Forall_app. split; [apply Forall_app; split; assumption | exact C]. Qed.

Theorem avc_just : forall H p c p' o,
  PJ H p -> cert_backed W H c = true -> add_valid_cert e p c = Some (p', o) -> PJ H p' /\ Forall (evJ H) (po_events o).
Proof.
  intros H p c p' o J Bc R. pose proof (backed_just W H c Bc) as Jc. unfold add_valid_cert in R.
  set (s := c_slot c) in *. set (p0 := p_set_ss p s (ss_add_cert (p_ss p s) c)) in *.
  assert (J0 : PJ H p0).
  { apply PJ_set_ss; [exact J|]. apply (SJ_cert W e); [apply (pj_slots _ _ J) | reflexivity | exact Bc]. }
  assert (Cc : Forall (evJ H) [ECertCreated c]) by (constructor; [exact Bc | constructor]).
  unfold cert_just in Jc. fold s in Jc.
  destruct (c_kind c) as [h|h| |h|].
  - (* notarization certificate *)
    destruct (ft_mark_notarized (p_ft p0) (s, h)) as [[t ev]|] eqn:FT; [|discriminate].
    destruct (pool_handle_finalization (pool_with_ft p0 t) ev) as [[p1 o1]|] eqn:HF; [|discriminate].
    destruct (notify_waiting_children e p1 (s, h)) as [[p2 o2]|] eqn:NW; [|discriminate].
    destruct (pt_mark_notar_fallback (p_prt p2) (s, h)) as [[[t2 prs] wk]|] eqn:MF; [|discriminate].
    injection R as <- <-.
    destruct (mark_notarized_just W H _ _ _ _ (pj_ft _ _ J0) Jc FT) as [Jt Je].
    pose proof (ft_mark_notarized_first _ _ _ _ FT) as Lf.
    destruct (phf_just H _ _ _ _ (PJ_with_ft H p0 t J0 Jt Lf) Je HF) as [J1 F1].
    pose proof (notar_cert_nf W H _ Jc) as Nf.
    destruct (nwc_just H _ _ _ _ J1 Nf NW) as [J2 F2].
    destruct (mark_nf_acc _ _ _ _ _ MF) as [_ Wk].
    destruct (prj_step W H (p_prt p2) (TNotarFb (s, h)) t2 prs wk (pj_prt _ _ J2)) as (D & Rt & A);
      [left; exact Nf | intros r Er; discriminate | exact MF |].
    split.
    + apply PJ_with_prt; [exact J2 | exact D | rewrite Rt; apply (pj_root _ _ J2)].
    + cbn [po_app po_events]. apply Forall_app. split; [|exact Cc].
      apply Forall_evJ_app3; [exact F1 | exact F2|]. apply Forall_app. split; [apply woken_just; exact Wk | apply pr_events_just; exact A].
  - (* notar-fallback certificate *)
    destruct (notify_waiting_children e p0 (s, h)) as [[p2 o2]|] eqn:NW; [|discriminate].
    destruct (pt_mark_notar_fallback (p_prt p2) (s, h)) as [[[t2 prs] wk]|] eqn:MF; [|discriminate].
    injection R as <- <-.
    destruct (nwc_just H _ _ _ _ J0 Jc NW) as [J2 F2].
    destruct (mark_nf_acc _ _ _ _ _ MF) as [_ Wk].
    destruct (prj_step W H (p_prt p2) (TNotarFb (s, h)) t2 prs wk (pj_prt _ _ J2)) as (D & Rt & A);
      [left; exact Jc | intros r Er; discriminate | exact MF |].
    split.
    + apply PJ_with_prt; [exact J2 | exact D | rewrite Rt; apply (pj_root _ _ J2)].
    + cbn [po_app po_events po_empty]. apply Forall_app. split; [|exact Cc].
      apply Forall_evJ_app3; [constructor | exact F2|]. apply Forall_app. split; [apply woken_just; exact Wk | apply pr_events_just; exact A].
  - (* skip certificate *)
    destruct (pt_mark_skipped (p_prt p0) s) as [[[t2 prs] wk]|] eqn:MS; [|discriminate].
    injection R as <- <-.
    destruct (mark_skipped_acc _ _ _ _ _ MS) as [_ Wk].
    destruct (prj_step W H (p_prt p0) (TSkip s) t2 prs wk (pj_prt _ _ J0)) as (D & Rt & A);
      [left; exact Jc | intros r Er; discriminate | exact MS |].
    split.
    + apply PJ_with_prt; [exact J0 | exact D | rewrite Rt; apply (pj_root _ _ J0)].
    + cbn [po_app po_events]. apply Forall_app. split; [|exact Cc].
      apply Forall_app. split; [apply woken_just; exact Wk | apply pr_events_just; exact A].
  - (* fast-finalization certificate *)
    destruct (ft_mark_fast_finalized (p_ft p0) (s, h)) as [[t ev]|] eqn:FT; [|discriminate].
    destruct (pool_handle_finalization (pool_with_ft p0 t) ev) as [[p1 o1]|] eqn:HF; [|discriminate].
    destruct (notify_waiting_children e p1 (s, h)) as [[p2 o2]|] eqn:NW; [|discriminate].
    injection R as <- <-.
    destruct (mark_fast_finalized_just W H _ _ _ _ (pj_ft _ _ J0) Jc FT) as [Jt Je].
    pose proof (ft_mark_fast_finalized_first _ _ _ _ FT) as Lf.
    destruct (phf_just H _ _ _ _ (PJ_with_ft H p0 t J0 Jt Lf) Je HF) as [J1 F1].
    pose proof (notar_cert_nf W H _ (ff_cert_notar W H WO _ Jc)) as Nf.
    destruct (nwc_just H _ _ _ _ J1 Nf NW) as [J2 F2].
    split; [exact J2|]. cbn [po_app po_events]. apply Forall_evJ_app3; assumption.
  - (* finalization certificate *)
    destruct (ft_mark_finalized (p_ft p0) s) as [[t ev]|] eqn:FT; [|discriminate].
    destruct (pool_handle_finalization (pool_with_ft p0 t) ev) as [[p1 o1]|] eqn:HF; [|discriminate].
    injection R as <- <-.
    destruct (mark_finalized_just W H _ _ _ _ (pj_ft _ _ J0) Jc FT) as [Jt Je].
    pose proof (ft_mark_finalized_first _ _ _ _ FT) as Lf.
    destruct (phf_just H _ _ _ _ (PJ_with_ft H p0 t J0 Jt Lf) Je HF) as [J1 F1].
    split; [exact J1|]. cbn [po_app po_events]. apply Forall_app. split; assumption.
Qed.

Lemma add_certs_just H : forall cs p acc p' o,
  PJ H p -> Forall (evJ H) (po_events acc) ->
  Forall (fun oc => forall c, oc = Some c -> cert_backed W H c = true) cs ->
  add_certs e p cs acc = Some (p', o) -> PJ H p' /\ Forall (evJ H) (po_events o).
Proof.
  induction cs as [|oc l IH]; intros p acc p' o J Fa Fc R; cbn [add_certs] in R.
  - injection R as <- <-. split; assumption.
  - inversion Fc as [|? ? Hc Fc']; subst. destruct oc as [c|]; [|discriminate].
    destruct (add_valid_cert e p c) as [[p1 o1]|] eqn:AV; [|discriminate].
    destruct (avc_just H p c p1 o1 J (Hc c eq_refl) AV) as [J1 F1].
    apply (IH _ _ _ _ J1) with (3 := R); [|exact Fc'].
    cbn [po_app po_events]. apply Forall_app. split; assumption.
Qed.

(* ---------- every pool operation ---------- *)
Definition op_ok (H : list vote) (op : pool_op) : Prop :=
  match op with
  | OpVote v => was_cast H v = true
  | OpCert c => cert_backed W H c = true
  | OpBlock b par => w_parent W b = Some par
  | _ => True
  end.

Lemma p_ss_of_lookup p s pss : alookup s (p_slots p) = Some pss -> p_ss p s = pss.
Proof. intros E. unfold p_ss, aget. rewrite E. reflexivity. Qed.

Theorem pool_step_just : forall H p op p' res o,
  PJ H p -> op_ok H op -> pool_step e p op = (p', res, o) -> PJ H p' /\ Forall (evJ H) (po_events o).
Proof.
  intros H p op p' res o J Ok R. unfold pool_step in R.
  assert (Same : forall q r, PJ H q -> (q, r, po_empty) = (p', res, o) -> PJ H p' /\ Forall (evJ H) (po_events o)).
  { intros q r Jq E. injection E as <- <- <-. split; [exact Jq | constructor]. }
  destruct (p_panicked p); [apply (Same _ _ J R)|].
  destruct op as [vt|c|b par| |s|]; cbn [op_ok] in Ok.
  - (* vote *)
    unfold pool_add_vote, pool_add_vote_gen in R. cbv zeta in R.
    destruct (out_of_bounds p (v_slot vt)); [apply (Same _ _ J R)|].
    pose proof (PJ_touch H p (v_slot vt) J) as J0.
    destruct (check_slashable _ vt) eqn:Cs; [apply (Same _ _ J0 R)|].
    destruct (should_ignore _ vt) eqn:Si; [apply (Same _ _ J0 R)|].
    destruct (ss_add_vote_gen true e (p_ss (p_touch p (v_slot vt)) (v_slot vt)) vt) as [ss' out] eqn:AV.
    destruct (SJ_vote W WO e Est H _ vt ss' out (pj_slots _ _ J0 (v_slot vt)) (conj Cs Si) Ok AV) as (Js & Fe & Fc).
    pose proof (PJ_set_ss H _ (v_slot vt) ss' J0 Js) as J1.
    destruct (add_certs e _ (o_certs out) po_empty) as [[p2 o2]|] eqn:AC.
    + injection R as <- <- <-.
      assert (X : PJ H p2 /\ Forall (evJ H) (po_events o2)).
      { eapply add_certs_just; [exact J1 | | | exact AC]; [constructor|].
        eapply Forall_impl; [|exact Fc]. intros oc [c0 [-> [_ B]]] c1 E1. injection E1 as <-. exact B. }
      destruct X as [J2 F2]. split; [exact J2|]. cbn [po_app po_events]. apply Forall_app. split; assumption.
    + apply (Same _ _ (PJ_panicked H _ J1) R).
  - (* certificate *)
    unfold pool_add_cert in R. cbv zeta in R.
    destruct (out_of_bounds p (c_slot c)); [apply (Same _ _ J R)|].
    pose proof (PJ_touch H p (c_slot c) J) as J0.
    destruct (cert_duplicate _ c); [apply (Same _ _ J0 R)|].
    destruct (add_valid_cert e (p_touch p (c_slot c)) c) as [[p1 o1]|] eqn:AV.
    + injection R as <- <- <-. apply (avc_just H _ c _ _ J0 Ok AV).
    + apply (Same _ _ (PJ_panicked H _ J0) R).
  - (* block *)
    unfold pool_add_block, pool_add_block_gen in R.
    destruct (negb (fst par <? fst b)); [apply (Same _ _ (PJ_panicked H _ J) R)|].
    destruct (fst b <? first_unpruned p); [apply (Same _ _ J R)|].
    destruct (ft_add_parent (p_ft p) b par) as [[t ev]|] eqn:FT; [|apply (Same _ _ (PJ_panicked H _ J) R)].
    destruct (pool_handle_finalization (pool_with_ft p t) ev) as [[p1 o1]|] eqn:HF; [|apply (Same _ _ (PJ_panicked H _ J) R)].
    destruct (add_parent_just W H _ _ _ _ _ (pj_ft _ _ J) Ok FT) as [Jt Je].
    pose proof (ft_add_parent_first _ _ _ _ _ FT) as Lf.
    destruct (phf_just H _ _ _ _ (PJ_with_ft H p t J Jt Lf) Je HF) as [J1 F1].
    destruct (fst b <? first_unpruned p1); [injection R as <- <- <-; split; assumption|].
    cbv zeta in R.
    set (p2 := p_set_ss p1 (fst b) (notify_parent_known (p_ss p1 (fst b)) (snd b))) in *.
    assert (J2 : PJ H p2) by (apply PJ_set_ss; [exact J1 | apply (SJ_known W e); apply (pj_slots _ _ J1)]).
    assert (Jw : PJ H (mkPool (p_slots p2) (p_prt p2) (p_ft p2) (p_waiting p2 ++ [(par, b)]) (p_panicked p2))).
    { apply PJ_waiting; [exact J2|]. intros par' b' Ib. apply in_app_or in Ib.
      destruct Ib as [Ib|[Eb|[]]]; [apply (pj_wait _ _ J2); exact Ib | injection Eb as <- <-; exact Ok]. }
    match type of R with (if ?c then _ else _) = _ => destruct c eqn:PC end.
    2:{ injection R as <- <- <-. split; assumption. }
    assert (Pj : par_cert_just W H (fst b, snd b)).
    { exists par. split; [destruct b; exact Ok|]. apply orb_prop in PC. destruct PC as [PC|PC].
      - right. cbn [andb] in PC. apply bid_eqb_eq in PC. exact PC.
      - left. destruct (alookup (fst par) (p_slots p2)) as [pss|] eqn:L; [|discriminate].
        pose proof (SJ_nf_cert W WO e H (fst par) pss (snd par)) as X. rewrite <- (p_ss_of_lookup _ _ _ L) in X at 1.
        destruct par as [ps ph]. cbn [fst snd] in *. apply X; [apply (pj_slots _ _ J2) | exact PC]. }
    destruct (notify_parent_certified e (fst b) (p_ss p2 (fst b)) (snd b)) as [[[ss' evs] rps]|] eqn:NC;
      [|apply (Same _ _ (PJ_panicked H _ J2) R)].
    destruct (SJ_certified W e Est H (fst b) _ (snd b) ss' evs rps (pj_slots _ _ J2 (fst b)) Pj NC) as [Js Fe].
    pose proof (PJ_set_ss H p2 (fst b) ss' J2 Js) as J3.
    assert (J3w : PJ H (mkPool (p_slots (p_set_ss p2 (fst b) ss')) (p_prt (p_set_ss p2 (fst b) ss')) (p_ft (p_set_ss p2 (fst b) ss'))
                               (p_waiting (p_set_ss p2 (fst b) ss') ++ [(par, b)]) (p_panicked (p_set_ss p2 (fst b) ss')))).
    { apply PJ_waiting; [exact J3|]. intros par' b' Ib. apply in_app_or in Ib.
      destruct Ib as [Ib|[Eb|[]]]; [apply (pj_wait _ _ J3); exact Ib | injection Eb as <- <-; exact Ok]. }
    destruct evs as [|x evs]; [destruct rps as [|r rps]|]; injection R as <- <- <-.
    + split; assumption.
    + split; [exact J3|]. cbn [po_app po_events]. apply Forall_app. split; assumption.
    + split; [exact J3|]. cbn [po_app po_events]. apply Forall_app. split; assumption.
  - (* standstill *)
    unfold pool_standstill, pool_standstill_gen in R. cbv zeta in R.
    assert (St : forall ev, (p, RVerdict VNone, mkPO [ev] []) = (p', res, o) ->
                            (match ev with EStandstill _ _ _ => True | _ => False end) ->
                            PJ H p' /\ Forall (evJ H) (po_events o)).
    { intros ev E K. injection E as <- <- <-. split; [exact J|]. cbn [po_events]. constructor; [|constructor].
      destruct ev; try contradiction. exact Logic.I. }
    destruct (get_final_certs p (finalized_slot p)); [destruct (true && (finalized_slot p =? 0))|].
    + apply (St _ R). exact Logic.I.
    + apply (Same _ _ (PJ_panicked H _ J) R).
    + apply (St _ R). exact Logic.I.
  - (* wait *)
    unfold pool_wait in R. destruct (pt_wait (p_prt p) s) as [[t r]|] eqn:PW; [|apply (Same _ _ (PJ_panicked H _ J) R)].
    injection R as <- <- <-. split; [|constructor].
    destruct (prj_step W H (p_prt p) (TWait s) t [] [] (pj_prt _ _ J) Logic.I) as (D & Rt & _);
      [intros r0 Er; discriminate | cbn [pt_step]; rewrite PW; reflexivity |].
    apply PJ_with_prt; [exact J | exact D | rewrite Rt; apply (pj_root _ _ J)].
  - apply (Same _ _ J R).
Qed.
End Pool.
