(* Proofs about the routing model (Model/Routing.v) - C16. *)
From Coq Require Import List NArith ZArith Bool Lia.
From AG Require Import Gen.Params Lib.ChaCha Model.Sampling Model.Routing Proofs.SamplingProofs.
Import ListNotations.
Open Scope N_scope.

(* ------------------------------------------------------------------ *)
(* seeds: distinct (slot, slice) / (slot, shred) give distinct seeds   *)
(* ------------------------------------------------------------------ *)
Lemma be_bytes_length n : forall x, length (be_bytes n x) = n.
Proof. induction n as [|n IH]; intros x; cbn [be_bytes]; [reflexivity|]. rewrite app_length, IH. cbn. lia. Qed.

Lemma be_bytes_inj n : forall x y, be_bytes n x = be_bytes n y -> x mod 256 ^ N.of_nat n = y mod 256 ^ N.of_nat n.
Proof.
  induction n as [|n IH]; intros x y H.
  - cbn. rewrite !N.mod_1_r. reflexivity.
  - cbn [be_bytes] in H. apply app_inj_tail in H. destruct H as [H1 H2]. apply IH in H1.
    replace (N.of_nat (S n)) with (1 + N.of_nat n) by lia. rewrite N.pow_add_r, N.pow_1_r.
    rewrite !N.mod_mul_r by (try discriminate; apply N.pow_nonzero; discriminate).
    rewrite H1, H2. reflexivity.
Qed.

Lemma be8_inj x y : x < W64 -> y < W64 -> be8 x = be8 y -> x = y.
Proof.
  intros Hx Hy H. apply be_bytes_inj in H. change (256 ^ N.of_nat 8) with W64 in H.
  rewrite !N.mod_small in H by assumption. exact H.
Qed.

Lemma app_eq_len {A} (a a' b b' : list A) : length a = length a' -> a ++ b = a' ++ b' -> a = a' /\ b = b'.
Proof.
  revert a'. induction a as [|x a IH]; intros [|x' a'] Hl H; cbn in *; try discriminate; auto.
  inversion H; subst. destruct (IH a' ltac:(lia) H2) as [E1 E2]. subst. auto.
Qed.

Theorem rotor_seed_injective : forall slot slice slot' slice',
  slot < W64 -> slice < W64 -> slot' < W64 -> slice' < W64 ->
  rotor_seed slot slice = rotor_seed slot' slice' -> slot = slot' /\ slice = slice'.
Proof.
  intros slot slice slot' slice' H1 H2 H3 H4 H. unfold rotor_seed in H.
  apply app_eq_len in H; [|unfold be8; rewrite !be_bytes_length; reflexivity]. destruct H as [Ha Hb].
  apply app_eq_len in Hb; [|unfold be8; rewrite !be_bytes_length; reflexivity]. destruct Hb as [Hb _].
  split; apply be8_inj; auto.
Qed.

Theorem turbine_seed_injective : forall slot shred slot' shred',
  slot < W64 -> shred < W64 -> slot' < W64 -> shred' < W64 ->
  turbine_seed slot shred = turbine_seed slot' shred' -> slot = slot' /\ shred = shred'.
Proof.
  intros slot shred slot' shred' H1 H2 H3 H4 H. unfold turbine_seed in H.
  apply app_inv_head in H.
  apply app_eq_len in H; [|unfold be8; rewrite !be_bytes_length; reflexivity]. destruct H as [Ha Hb].
  split; apply be8_inj; auto.
Qed.

(* Rotor and Turbine never share a seed for slots below 2^56 .. : the tag differs from eight zero
   bytes; stated for completeness of the seeding argument *)
Lemma seed_lengths slot x : length (rotor_seed slot x) = 32%nat /\ length (turbine_seed slot x) = 32%nat.
Proof. unfold rotor_seed, turbine_seed, be8. rewrite !app_length, !be_bytes_length. cbn. auto. Qed.

(* ------------------------------------------------------------------ *)
(* caches: a look-up-else-compute cache returns what a fresh computation returns, whatever was asked before *)
(* ------------------------------------------------------------------ *)
Section MemoProofs.
  Context {K V : Type}.
  Variable keq : K -> K -> bool.
  Hypothesis keq_eq : forall a b, keq a b = true -> a = b.
  Variable f : K -> V.

  Definition cache_valid (c : list (K * V)) : Prop := forall k v, In (k, v) c -> v = f k.

  Lemma memo_lookup_valid c k v : cache_valid c -> memo_lookup keq c k = Some v -> v = f k.
  Proof.
    induction c as [|[k' v'] c IH]; intros Hv H; cbn [memo_lookup] in H; [discriminate|].
    destruct (keq k k') eqn:E.
    - inversion H; subst. apply keq_eq in E. subst k'. apply Hv. left. reflexivity.
    - apply IH; auto. intros a b Hin. apply Hv. right. exact Hin.
  Qed.

  Lemma memo_get_correct keep c k :
    (forall c0 e, In e (keep c0) -> In e c0) ->
    cache_valid c ->
    fst (memo_get keq f keep c k) = f k /\ cache_valid (snd (memo_get keq f keep c k)).
  Proof.
    intros Hkeep Hv. unfold memo_get. destruct (memo_lookup keq c k) as [v|] eqn:E; cbn [fst snd].
    - split; [eapply memo_lookup_valid; eauto | exact Hv].
    - split; [reflexivity|]. intros a b [Hin|Hin]; [inversion Hin; reflexivity|]. apply Hv. apply Hkeep. exact Hin.
  Qed.

  (* any sequence of queries, with any eviction policy, from a valid (e.g. empty) cache *)
  Fixpoint memo_run (keeps : list (list (K * V) -> list (K * V))) (c : list (K * V)) (ks : list K) : list V :=
    match ks, keeps with
    | k :: ks', keep :: keeps' => let '(v, c') := memo_get keq f keep c k in v :: memo_run keeps' c' ks'
    | _, _ => []
    end.
  Theorem cache_is_memo : forall ks keeps c,
    length keeps = length ks ->
    Forall (fun keep => forall c0 e, In e (keep c0) -> In e c0) keeps ->
    cache_valid c ->
    memo_run keeps c ks = map f ks.
  Proof.
    induction ks as [|k ks IH]; intros [|keep keeps] c Hl Hk Hv; cbn in Hl; try discriminate; [reflexivity|].
    cbn [memo_run map]. inversion Hk; subst.
    pose proof (memo_get_correct keep c k H1 Hv) as [E1 E2].
    destruct (memo_get keq f keep c k) as [v c'] eqn:E. cbn [fst snd] in *. subst v. f_equal.
    apply IH; auto.
  Qed.
End MemoProofs.

(* ------------------------------------------------------------------ *)
(* loss-free runs                                                      *)
(* ------------------------------------------------------------------ *)
Lemma run_no_forward fwd : forall l fuel,
  (forall d, In d l -> fwd d = []) -> (length l <= fuel)%nat -> run fwd fuel l = Some l.
Proof.
  induction l as [|d l IH]; intros fuel Hf Hl; [destruct fuel; reflexivity|].
  destruct fuel as [|fuel]; cbn [length] in Hl; [lia|]. cbn [run].
  rewrite (Hf d) by (left; reflexivity). rewrite app_nil_r.
  rewrite IH; [reflexivity | intros x Hx; apply Hf; right; exact Hx | lia].
Qed.

Lemma seqN_In start len x : In x (seqN start len) <-> start <= x < start + N.of_nat len.
Proof.
  revert start. induction len as [|len IH]; intros start; cbn [seqN In].
  - split; [contradiction | lia].
  - rewrite IH. split; [intros [H|H]; lia | intros H; destruct (N.eq_dec start x); [left; auto | right; lia]].
Qed.
Lemma seqN_length start len : length (seqN start len) = len.
Proof. revert start. induction len as [|len IH]; intros start; cbn [seqN length]; auto. Qed.
Lemma count_filter_seqN (p : N -> bool) len : forall start v,
  count_occ_N (filter p (seqN start len)) v = if p v && (start <=? v) && (v <? start + N.of_nat len) then 1 else 0.
Proof.
  induction len as [|len IH]; intros start v; cbn [seqN filter].
  - cbn [count_occ_N]. destruct (p v); cbn [andb]; [|reflexivity].
    destruct (start <=? v) eqn:A; cbn [andb]; [|reflexivity].
    destruct (v <? start + N.of_nat 0) eqn:B; [|reflexivity]. apply N.leb_le in A. apply N.ltb_lt in B. lia.
  - assert (Hrec := IH (start + 1) v).
    destruct (N.eq_dec start v) as [E|D].
    + subst v. replace (start <=? start) with true by (symmetry; apply N.leb_le; lia).
      replace (start <? start + N.of_nat (S len)) with true by (symmetry; apply N.ltb_lt; lia).
      replace (start + 1 <=? start) with false in Hrec by (symmetry; apply N.leb_gt; lia).
      rewrite andb_false_r in Hrec. cbn [andb] in Hrec.
      destruct (p start) eqn:Ep; cbn [andb count_occ_N]; rewrite ?N.eqb_refl, Hrec; reflexivity.
    + assert (Hc : count_occ_N (if p start then start :: filter p (seqN (start + 1) len) else filter p (seqN (start + 1) len)) v
                   = count_occ_N (filter p (seqN (start + 1) len)) v).
      { destruct (p start); [|reflexivity]. cbn [count_occ_N].
        replace (start =? v) with false by (symmetry; apply N.eqb_neq; exact D). reflexivity. }
      rewrite Hc, Hrec. destruct (p v); cbn [andb]; [|reflexivity].
      destruct (start <=? v) eqn:A; destruct (start + 1 <=? v) eqn:A'; cbn [andb];
        try apply N.leb_le in A; try apply N.leb_gt in A; try apply N.leb_le in A'; try apply N.leb_gt in A'; try lia.
      replace (start + 1 + N.of_nat len) with (start + N.of_nat (S len)) by lia. reflexivity.
Qed.

Lemma filter_length_le' {A} (p : A -> bool) l : (length (filter p l) <= length l)%nat.
Proof. induction l as [|x l IH]; cbn [filter length]; [lia|]. destruct (p x); cbn [length]; lia. Qed.

(* Rotor: the deliveries of a loss-free run are the relay followed by everybody except relay and leader *)
Theorem rotor_run_deliveries : forall n leader relay,
  relay < n ->
  rotor_run n leader relay
  = Some (relay :: filter (fun i => negb (i =? relay) && negb (i =? leader)) (seqN 0 (N.to_nat n))).
Proof.
  intros n leader relay Hr. unfold rotor_run, rotor_send. cbn [run app].
  set (L := filter (fun i => negb (i =? relay) && negb (i =? leader)) (seqN 0 (N.to_nat n))).
  assert (Hf : rotor_forward n relay relay leader = L) by (unfold rotor_forward; rewrite N.eqb_refl; reflexivity).
  rewrite Hf. rewrite run_no_forward; [reflexivity| |].
  - intros d Hd. unfold L in Hd. apply filter_In in Hd. destruct Hd as [_ Hd]. apply andb_prop in Hd.
    destruct Hd as [Hd _]. unfold rotor_forward. destruct (d =? relay); [discriminate | reflexivity].
  - unfold L. pose proof (filter_length_le' (fun i => negb (i =? relay) && negb (i =? leader)) (seqN 0 (N.to_nat n))) as Hle.
    rewrite seqN_length in Hle. exact Hle.
Qed.

(* every validator other than the leader obtains the shred exactly once; the leader at most once (only when it
   is its own relay); exactly one node (the relay) broadcasts, everybody else forwards nothing *)
Theorem rotor_exactly_one_relay_broadcast : forall n leader relay,
  relay < n -> leader < n ->
  exists deliveries, rotor_run n leader relay = Some deliveries /\
    (forall v, v < n -> v <> leader -> count_occ_N deliveries v = 1) /\
    count_occ_N deliveries leader = (if leader =? relay then 1 else 0) /\
    (forall v, n <= v -> count_occ_N deliveries v = 0) /\
    (forall own, own <> relay -> rotor_forward n own relay leader = []).
Proof.
  intros n leader relay Hr Hl. eexists. split; [apply rotor_run_deliveries; exact Hr|].
  assert (Hcount : forall v, count_occ_N (relay :: filter (fun i => negb (i =? relay) && negb (i =? leader)) (seqN 0 (N.to_nat n))) v
                   = (if relay =? v then 1 else 0) + (if negb (v =? relay) && negb (v =? leader) && (0 <=? v) && (v <? 0 + N.of_nat (N.to_nat n)) then 1 else 0)).
  { intros v. cbn [count_occ_N]. rewrite count_filter_seqN. reflexivity. }
  repeat split.
  - intros v Hv Hvl. rewrite Hcount. rewrite N2Nat.id.
    replace (0 <=? v) with true by (symmetry; apply N.leb_le; lia).
    replace (v <? 0 + n) with true by (symmetry; apply N.ltb_lt; lia).
    replace (v =? leader) with false by (symmetry; apply N.eqb_neq; exact Hvl).
    rewrite (N.eqb_sym relay v). destruct (v =? relay); reflexivity.
  - rewrite Hcount. rewrite N.eqb_refl. cbn [negb andb]. rewrite andb_false_r. cbn [andb].
    rewrite (N.eqb_sym relay leader). destruct (leader =? relay); reflexivity.
  - intros v Hv. rewrite Hcount. rewrite N2Nat.id.
    replace (v <? 0 + n) with false by (symmetry; apply N.ltb_ge; lia). rewrite andb_false_r.
    replace (relay =? v) with false by (symmetry; apply N.eqb_neq; lia). reflexivity.
  - intros own Ho. unfold rotor_forward. replace (own =? relay) with false by (symmetry; apply N.eqb_neq; exact Ho). reflexivity.
Qed.

(* the trivial disseminator: the leader's single send_to_many reaches everybody exactly once *)
Theorem trivial_run_deliveries : forall n, trivial_run n = Some (seqN 0 (N.to_nat n)).
Proof.
  intros n. unfold trivial_run. apply run_no_forward; [reflexivity|]. rewrite seqN_length. lia.
Qed.

(* ------------------------------------------------------------------ *)
(* Turbine: the forwarding relation over any shuffled order is a tree  *)
(* that reaches every validator exactly once                           *)
(* ------------------------------------------------------------------ *)
Definition slice {A} (l : list A) (i j : nat) : list A := firstn (j - i) (skipn i l).

Lemma slice_empty {A} (l : list A) i j : (j <= i)%nat -> slice l i j = [].
Proof. intros H. unfold slice. replace (j - i)%nat with 0%nat by lia. reflexivity. Qed.
Lemma slice_beyond {A} (l : list A) i j : (length l <= i)%nat -> slice l i j = [].
Proof. intros H. unfold slice. rewrite skipn_all2 by exact H. apply firstn_nil. Qed.
Lemma skipn_nth_cons {A} (d : A) l : forall i, (i < length l)%nat -> skipn i l = nth i l d :: skipn (S i) l.
Proof.
  induction l as [|x l IH]; intros i H; cbn [length] in H; [lia|].
  destruct i as [|i]; [reflexivity|]. cbn [skipn nth]. apply IH. lia.
Qed.
Lemma slice_cons {A} (d : A) l i j : (i < length l)%nat -> (i < j)%nat -> slice l i j = nth i l d :: slice l (S i) j.
Proof.
  intros Hi Hj. unfold slice. rewrite (skipn_nth_cons d) by exact Hi.
  replace (j - i)%nat with (S (j - S i)) by lia. reflexivity.
Qed.
Lemma firstn_plus {A} : forall a b (l : list A), firstn (a + b) l = firstn a l ++ firstn b (skipn a l).
Proof.
  induction a as [|a IH]; intros b l; [reflexivity|]. destruct l as [|x l]; cbn [plus firstn skipn app].
  - rewrite firstn_nil. reflexivity.
  - f_equal. apply IH.
Qed.
Lemma skipn_plus {A} : forall b a (l : list A), skipn a (skipn b l) = skipn (b + a) l.
Proof.
  induction b as [|b IH]; intros a l; [reflexivity|]. destruct l as [|x l]; cbn [plus skipn].
  - apply skipn_nil.
  - apply IH.
Qed.
Lemma slice_app {A} (l : list A) i j k : (i <= j)%nat -> (j <= k)%nat -> slice l i j ++ slice l j k = slice l i k.
Proof.
  intros H1 H2. unfold slice.
  replace (k - i)%nat with ((j - i) + (k - j))%nat by lia.
  rewrite firstn_plus. f_equal. rewrite skipn_plus. replace (i + (j - i))%nat with j by lia. reflexivity.
Qed.
Lemma slice_clip {A} (l : list A) i j : slice l i j = slice l i (Nat.min j (length l)).
Proof.
  unfold slice. destruct (Nat.le_gt_cases j (length l)) as [H|H].
  - rewrite Nat.min_l by exact H. reflexivity.
  - rewrite Nat.min_r by lia.
    rewrite (firstn_all2 (n := (j - i)%nat)) by (rewrite skipn_length; lia).
    rewrite (firstn_all2 (n := (length l - i)%nat)) by (rewrite skipn_length; lia). reflexivity.
Qed.
Lemma slice_all {A} (l : list A) i : slice l i (length l) = skipn i l.
Proof. unfold slice. apply firstn_all2. rewrite skipn_length. lia. Qed.

Lemma position_nth l : forall p i0, NoDup l -> (p < length l)%nat -> position l (nth p l 0) i0 = Some (i0 + N.of_nat p).
Proof.
  induction l as [|y r IH]; intros p i0 Hnd Hp; cbn [length] in Hp; [lia|].
  inversion Hnd; subst. destruct p as [|p]; cbn [nth position].
  - rewrite N.eqb_refl. f_equal. lia.
  - destruct (y =? nth p r 0) eqn:E.
    + apply N.eqb_eq in E. exfalso. apply H1. rewrite E. apply nth_In. lia.
    + rewrite IH by (auto; lia). f_equal. lia.
Qed.

(* the children of the validator at position p are the validators at positions p*F+1 .. p*F+F *)
Lemma turbine_children_positions order fanout p :
  NoDup order -> (p < length order)%nat -> 1 <= fanout -> N.of_nat p * fanout + 1 < W64 ->
  turbine_children order fanout (nth p order 0)
  = slice order (p * N.to_nat fanout + 1) (p * N.to_nat fanout + 1 + N.to_nat fanout).
Proof.
  intros Hnd Hp Hf Hov. unfold turbine_children, tree_of_order.
  destruct order as [|root rest] eqn:Eo; [cbn in Hp; lia|]. rewrite <- Eo in *.
  rewrite position_nth by assumption. rewrite N.add_0_l.
  replace (fanout =? 0) with false by (symmetry; apply N.eqb_neq; lia). rewrite andb_false_r.
  replace (W64 <=? N.of_nat p * fanout + 1) with false by (symmetry; apply N.leb_gt; exact Hov).
  cbn [t_children].
  set (n := length order). set (Fn := N.to_nat fanout).
  assert (Hoff : skipn (N.to_nat (N.min (N.of_nat p * fanout + 1) (lenN order))) order = skipn (p * Fn + 1) order).
  { unfold lenN. fold n. destruct (N.le_gt_cases (N.of_nat p * fanout + 1) (N.of_nat n)) as [H|H].
    - rewrite N.min_l by exact H. f_equal. unfold Fn. lia.
    - rewrite N.min_r by lia. rewrite Nat2N.id. rewrite !skipn_all2; [reflexivity | unfold n, Fn in *; lia | unfold n; lia]. }
  rewrite Hoff. unfold slice. replace (p * Fn + 1 + Fn - (p * Fn + 1))%nat with Fn by lia.
  unfold lenN. fold n. destruct (N.le_gt_cases fanout (N.of_nat n)) as [H|H].
  - rewrite N.min_l by exact H. reflexivity.
  - rewrite N.min_r by lia. rewrite Nat2N.id.
    rewrite (firstn_all2 (n := n)) by (rewrite skipn_length; unfold n; lia).
    rewrite (firstn_all2 (n := Fn)) by (rewrite skipn_length; unfold n, Fn in *; lia). reflexivity.
Qed.

(* breadth-first delivery visits the positions in increasing order *)
Lemma turbine_bfs order fanout :
  NoDup order -> 1 <= fanout -> lenN order * fanout + 1 < W64 ->
  forall k a fuel, (a + k = length order)%nat -> (k < fuel)%nat ->
  run (turbine_children order fanout) fuel
      (slice order a (Nat.min (length order) (a * N.to_nat fanout + 1)))
  = Some (skipn a order).
Proof.
  intros Hnd Hf Hov. set (n := length order). set (Fn := N.to_nat fanout).
  assert (HFn : (1 <= Fn)%nat) by (unfold Fn; lia).
  induction k as [|k IH]; intros a fuel Ha Hfuel.
  - assert (a = n) by lia. subst a. rewrite slice_beyond by (fold n; lia).
    rewrite skipn_all2 by (fold n; lia). destruct fuel; reflexivity.
  - destruct fuel as [|fuel]; [lia|].
    assert (Han : (a < n)%nat) by lia.
    rewrite (slice_cons 0) by (fold n; nia).
    cbn [run].
    assert (Hov' : N.of_nat a * fanout + 1 < W64).
    { unfold lenN in Hov. fold n in Hov. nia. }
    rewrite turbine_children_positions by (auto; fold n; lia). fold Fn.
    assert (Hq : slice order (S a) (Nat.min n (a * Fn + 1)) ++ slice order (a * Fn + 1) (a * Fn + 1 + Fn)
                 = slice order (S a) (Nat.min n (S a * Fn + 1))).
    { destruct (Nat.le_gt_cases (a * Fn + 1) n) as [H|H].
      - rewrite (Nat.min_r n (a * Fn + 1)) by exact H. rewrite slice_app by nia.
        rewrite (slice_clip order (S a) (a * Fn + 1 + Fn)). fold n. f_equal. rewrite Nat.min_comm. f_equal. lia.
      - rewrite (Nat.min_l n (a * Fn + 1)) by lia. rewrite (slice_beyond order (a * Fn + 1)) by (fold n; lia). rewrite app_nil_r.
        rewrite (Nat.min_l n (S a * Fn + 1)) by nia. reflexivity. }
    rewrite Hq. rewrite IH by lia.
    rewrite (skipn_nth_cons 0 order a) by (fold n; lia). reflexivity.
Qed.

Theorem turbine_run_is_the_order : forall order fanout,
  NoDup order -> 1 <= fanout -> lenN order * fanout + 1 < W64 ->
  turbine_run order fanout = Some order.
Proof.
  intros order fanout Hnd Hf Hov. unfold turbine_run. destruct order as [|root rest] eqn:Eo; [reflexivity|].
  rewrite <- Eo in *.
  pose proof (turbine_bfs order fanout Hnd Hf Hov (length order) 0 (S (length order)) ltac:(lia) ltac:(lia)) as H.
  assert (Hs : slice order 0 (Nat.min (length order) (0 * N.to_nat fanout + 1)) = [root]).
  { rewrite Eo. cbn [length]. rewrite Nat.min_r by lia. reflexivity. }
  rewrite Hs in H. cbn [skipn] in H. exact H.
Qed.

(* every validator receives every shred exactly once (and nobody else receives anything) *)
Lemma count_occ_N_NoDup l v : NoDup l -> count_occ_N l v = if existsb (N.eqb v) l then 1 else 0.
Proof.
  induction l as [|x l IH]; intros Hnd; [reflexivity|]. inversion Hnd; subst. cbn [count_occ_N existsb].
  rewrite IH by assumption. rewrite (N.eqb_sym v x). destruct (x =? v) eqn:E; cbn [orb]; [|reflexivity].
  apply N.eqb_eq in E. subst x.
  destruct (existsb (N.eqb v) l) eqn:Ex; [|reflexivity].
  apply existsb_exists in Ex. destruct Ex as [y [Hy Ey]]. apply N.eqb_eq in Ey. subst y. contradiction.
Qed.

Theorem turbine_exactly_once : forall order fanout,
  NoDup order -> 1 <= fanout -> lenN order * fanout + 1 < W64 ->
  exists deliveries, turbine_run order fanout = Some deliveries /\
    (forall v, In v order -> count_occ_N deliveries v = 1) /\
    (forall v, ~ In v order -> count_occ_N deliveries v = 0).
Proof.
  intros order fanout Hnd Hf Hov. exists order. split; [apply turbine_run_is_the_order; assumption|].
  split; intros v Hv; rewrite count_occ_N_NoDup by assumption.
  - replace (existsb (N.eqb v) order) with true; [reflexivity|]. symmetry. apply existsb_exists.
    exists v. split; [exact Hv | apply N.eqb_refl].
  - destruct (existsb (N.eqb v) order) eqn:E; [|reflexivity].
    apply existsb_exists in E. destruct E as [y [Hy Ey]]. apply N.eqb_eq in Ey. subst y. contradiction.
Qed.

(* every position other than the root has exactly one parent - the validator at position (q-1)/fanout - and
   is among that parent's children *)
Theorem turbine_child_of_its_parent : forall order fanout q,
  NoDup order -> 1 <= fanout -> lenN order * fanout + 1 < W64 ->
  (0 < q)%nat -> (q < length order)%nat ->
  let parent := nth ((q - 1) / N.to_nat fanout)%nat order 0 in
  (exists t, tree_of_order order fanout (nth q order 0) = Some t /\ t_parent t = Some parent) /\
  In (nth q order 0) (turbine_children order fanout parent).
Proof.
  intros order fanout q Hnd Hf Hov Hq0 Hq. set (Fn := N.to_nat fanout). set (n := length order).
  assert (HFn : (1 <= Fn)%nat) by (unfold Fn; lia).
  set (p := ((q - 1) / Fn)%nat). cbn zeta.
  assert (Hp : (p < n)%nat).
  { unfold p. apply Nat.div_lt_upper_bound; [lia|]. fold n in Hq. nia. }
  assert (Hpq : (p * Fn + 1 <= q /\ q < p * Fn + 1 + Fn)%nat).
  { unfold p. pose proof (Nat.div_mod (q - 1) Fn ltac:(lia)) as Hdm. pose proof (Nat.mod_upper_bound (q - 1) Fn ltac:(lia)). nia. }
  split.
  - unfold tree_of_order. destruct order as [|root rest] eqn:Eo; [cbn in Hq; lia|]. rewrite <- Eo in *.
    rewrite position_nth by assumption. rewrite N.add_0_l.
    replace (fanout =? 0) with false by (symmetry; apply N.eqb_neq; lia). rewrite andb_false_r.
    assert (Hovq : N.of_nat q * fanout + 1 < W64) by (unfold lenN in Hov; fold n in Hov; fold n in Hq; nia).
    replace (W64 <=? N.of_nat q * fanout + 1) with false by (symmetry; apply N.leb_gt; exact Hovq).
    eexists. split; [reflexivity|]. cbn [t_parent].
    replace (N.of_nat q =? 0) with false by (symmetry; apply N.eqb_neq; lia).
    f_equal. unfold nthN. f_equal. unfold p, Fn.
    rewrite N2Nat.inj_div, N2Nat.inj_sub, Nat2N.id. reflexivity.
  - rewrite turbine_children_positions; auto.
    + fold Fn. assert (Hin : In (nth q order 0) (slice order (p * Fn + 1) (Nat.min (p * Fn + 1 + Fn) n))).
      { assert (G : forall m i j, (j - i = m)%nat -> (i <= q)%nat -> (q < j)%nat -> (j <= n)%nat -> In (nth q order 0) (slice order i j)).
        { induction m as [|m IHm]; intros i j Hm Hi Hj Hjn; [lia|].
          rewrite (slice_cons 0) by (fold n; lia). destruct (Nat.eq_dec i q) as [E|D]; [left; subst; reflexivity|].
          right. apply IHm; lia. }
        eapply G; [reflexivity | lia | | ]; fold n in Hq; lia. }
      rewrite slice_clip. exact Hin.
    + unfold lenN in Hov. fold n in Hov. nia.
Qed.

(* Rotor::new_fa1 in the pinned tree: two instances whose PartitionSampler::new shuffled differently (thread
   RNG) assigned different relays to the same shred (stakes 255, 255, 245, 245: two fallback seats) *)
Lemma rotor_fa1_instances_disagree_pinned_refuted :
  exists stakes o1 o2 sm1 sm2 slot slice shred,
    rotor_new_fa1_pinned stakes o1 = COk sm1 /\ rotor_new_fa1_pinned stakes o2 = COk sm2 /\
    (exists r1 r2, rotor_relay (stdrng 4) sm1 slot slice shred = RRelay r1 /\
                   rotor_relay (stdrng 4) sm2 slot slice shred = RRelay r2 /\ r1 <> r2).
Proof.
  eexists [255; 255; 245; 245], [0; 1; 2; 3], [3; 2; 1; 0], _, _, 0, 0, 62.
  split; [vm_compute; reflexivity|]. split; [vm_compute; reflexivity|].
  eexists; eexists. split; [vm_compute; reflexivity|]. split; [vm_compute; reflexivity|]. discriminate.
Qed.

(* non-vacuity: a complete model run of both protocols on 7 validators *)
Example routing_nonvacuous :
  (match rotor_new [3; 1; 4; 1; 5; 9; 2] with
   | COk sm => match rotor_relay (stdrng 16) sm 11 2 5 with
               | RRelay r => rotor_run 7 (leader_of 7 11) r
               | _ => None
               end
   | _ => None
   end,
   match turbine_order (stdrng 16) [3; 1; 4; 1; 5; 9; 2] 11 (index_in_slot 2 5) with
   | Ok order _ => turbine_run order 2
   | _ => None
   end) = (Some [5; 0; 1; 3; 4; 6], Some [4; 2; 1; 6; 5; 0; 3]).
Proof. vm_compute. reflexivity. Qed.

(* ------------------------------------------------------------------ *)
(* the weighted shuffle returns every validator index exactly once      *)
(* ------------------------------------------------------------------ *)
From Coq Require Import Permutation.

Lemma wsh_search_spec ws : forall val i k w,
  wsh_search ws val i = Some (k, w) -> i <= k /\ k - i < lenN ws /\ nthN ws (k - i) 0 = w /\ 0 < w.
Proof.
  induction ws as [|w0 r IH]; intros val i k w H; cbn [wsh_search] in H; [discriminate|].
  destruct (val <? w0) eqn:E.
  - inversion H; subst. apply N.ltb_lt in E. rewrite lenN_cons. replace (k - k) with 0 by lia.
    repeat split; try lia. 
  - apply IH in H. destruct H as [A [B [C D]]]. rewrite lenN_cons. repeat split; try lia.
    unfold nthN in *. replace (N.to_nat (k - i)) with (S (N.to_nat (k - (i + 1)))) by lia. exact C.
Qed.

Lemma nthN_set_zero_same ws k : nthN (set_nthN ws (N.to_nat k) (fun _ => 0)) k 0 = 0.
Proof.
  unfold nthN. destruct (Nat.lt_ge_cases (N.to_nat k) (length ws)) as [H|H].
  - rewrite set_nthN_same by exact H. reflexivity.
  - apply nth_overflow. rewrite set_nthN_length. exact H.
Qed.
Lemma nthN_set_zero_other ws k j : k <> j -> nthN (set_nthN ws (N.to_nat k) (fun _ => 0)) j 0 = nthN ws j 0.
Proof. intros D. unfold nthN. apply set_nthN_other. lia. Qed.
Lemma sumN_set_zero ws : forall k, (k < length ws)%nat ->
  sumN (set_nthN ws k (fun _ => 0)) + nth k ws 0 = sumN ws.
Proof.
  induction ws as [|x r IH]; intros k Hk; cbn [length] in Hk; [lia|].
  destruct k as [|k]; cbn [set_nthN nth]; rewrite !sumN_cons; [lia|]. specialize (IH k ltac:(lia)). lia.
Qed.
Lemma sumN_zero_all ws : sumN ws = 0 -> forall k, nthN ws k 0 = 0.
Proof. intros H k. pose proof (sumN_nth_le ws k). lia. Qed.

Lemma wsh_positive_spec fuel : forall ws weight s l r,
  weight = sumN ws ->
  wsh_positive fuel ws weight s = Ok l r ->
  NoDup l /\ (forall k, In k l <-> (k < lenN ws /\ 0 < nthN ws k 0)).
Proof.
  induction fuel as [|f IH]; intros ws weight s l r Hw H; cbn [wsh_positive] in H.
  - destruct (weight =? 0) eqn:E0; [|discriminate]. inversion H; subst l r. apply N.eqb_eq in E0.
    split; [constructor|]. intros k. split; [contradiction|]. intros [_ B].
    rewrite (sumN_zero_all ws) in B by lia. lia.
  - destruct (weight =? 0) eqn:E0.
    + inversion H; subst l r. apply N.eqb_eq in E0. split; [constructor|]. intros k. split; [contradiction|].
      intros [_ B]. rewrite (sumN_zero_all ws) in B by lia. lia.
    + destruct (random_range_u64 weight s) as [v s1| |]; try discriminate.
      destruct (wsh_search ws v 0) as [[k0 w]|] eqn:Es; [|discriminate].
      apply wsh_search_spec in Es. destruct Es as [_ [B [C D]]]. rewrite N.sub_0_r in *.
      destruct (wsh_positive f (set_nthN ws (N.to_nat k0) (fun _ => 0)) (weight - w) s1) as [l' s2| |] eqn:Er; try discriminate.
      inversion H; subst l r; clear H.
      assert (Hk0 : (N.to_nat k0 < length ws)%nat) by (apply nthN_lt_length; exact B).
      apply IH in Er.
      * destruct Er as [Nd Hin]. split.
        -- constructor; [|exact Nd]. intros C0. apply Hin in C0. destruct C0 as [_ C0].
           rewrite nthN_set_zero_same in C0. lia.
        -- intros k. cbn [In]. rewrite Hin. unfold lenN. rewrite set_nthN_length. fold (lenN ws).
           destruct (N.eq_dec k0 k) as [E|Dk].
           ++ subst k. rewrite nthN_set_zero_same. split; [intros [_|[_ X]]; [split; [exact B | lia] | lia] | intros _; left; reflexivity].
           ++ rewrite nthN_set_zero_other by exact Dk. split; [intros [X|X]; [congruence | exact X] | intros X; right; exact X].
      * pose proof (sumN_set_zero ws (N.to_nat k0) Hk0) as Hs. unfold nthN in C. lia.
Qed.

Lemma last_app_nonempty {A} (a b : list A) d : b <> [] -> last (a ++ b) d = last b d.
Proof.
  intros Hb. induction a as [|x a IH]; [reflexivity|]. cbn [app].
  assert (Hne : a ++ b <> []) by (destruct a; cbn; [exact Hb | discriminate]).
  destruct (a ++ b) as [|y t] eqn:E; [congruence|]. cbn [last]. exact IH.
Qed.

Lemma swap_remove_perm l i : (i < length l)%nat -> Permutation (nth i l 0 :: swap_remove l i) l.
Proof.
  intros Hi. unfold swap_remove. destruct l as [|x0 l0] eqn:El; [cbn in Hi; lia|]. rewrite <- El in *.
  assert (Hsplit : l = firstn i l ++ nth i l 0 :: skipn (S i) l).
  { rewrite <- (firstn_skipn i l) at 1. f_equal. apply skipn_nth_cons. exact Hi. }
  destruct (Nat.eqb i (length l - 1)) eqn:E.
  - apply Nat.eqb_eq in E.
    assert (Hs : skipn (S i) l = []) by (apply skipn_all2; lia).
    rewrite Hs in Hsplit.
    assert (Hrl : removelast l = firstn i l).
    { rewrite Hsplit at 1. rewrite removelast_app by discriminate. cbn [removelast]. apply app_nil_r. }
    rewrite Hrl. rewrite Hsplit at 3. apply Permutation_cons_append.
  - apply Nat.eqb_neq in E.
    remember (skipn (S i) l) as T eqn:ET.
    assert (HT : T <> []).
    { intros C. assert (length T = 0%nat) by (rewrite C; reflexivity). rewrite ET, skipn_length in H. lia. }
    assert (Hlast : last l 0 = last T 0).
    { rewrite Hsplit. change (nth i l 0 :: T) with ([nth i l 0] ++ T). rewrite app_assoc. apply last_app_nonempty. exact HT. }
    rewrite Hlast.
    assert (G : Permutation (nth i l 0 :: firstn i l ++ [last T 0] ++ removelast T) (firstn i l ++ nth i l 0 :: T)).
    { destruct (exists_last HT) as [RT [lt Hrl]]. rewrite Hrl, last_last, removelast_last.
      apply Permutation_cons_app. cbn [app].
      apply Permutation_app_head. apply Permutation_cons_append. }
    rewrite <- Hsplit in G. exact G.
Qed.

Lemma wsh_zeros_perm fuel : forall zeros s l r,
  lenN zeros < W64 -> wsh_zeros fuel zeros s = Ok l r -> Permutation l zeros.
Proof.
  induction fuel as [|f IH]; intros zeros s l r Hlen H; cbn [wsh_zeros] in H.
  - destruct zeros; [inversion H; constructor | discriminate].
  - destruct zeros as [|z0 zs] eqn:Ez; [inversion H; constructor|]. rewrite <- Ez in *.
    destruct (random_range_usize (lenN zeros) s) as [i s1| |] eqn:Er; try discriminate.
    apply random_range_usize_lt in Er; [|exact Hlen].
    destruct (wsh_zeros f (swap_remove zeros (N.to_nat i)) s1) as [l' s2| |] eqn:Ew; try discriminate.
    inversion H; subst l r; clear H.
    assert (Hi : (N.to_nat i < length zeros)%nat) by (apply nthN_lt_length; exact Er).
    pose proof (swap_remove_perm zeros (N.to_nat i) Hi) as Hp.
    apply IH in Ew.
    + unfold nthN. eapply Permutation_trans; [|exact Hp]. constructor. exact Ew.
    + apply Permutation_length in Hp. cbn [length] in Hp. unfold lenN in *. lia.
Qed.

Lemma wsh_new_spec ws : forall i sum eff total zeros,
  wsh_new ws i sum = (eff, total, zeros) ->
  length eff = length ws /\ total = sum + sumN eff /\
  NoDup zeros /\ (forall z, In z zeros <-> (i <= z /\ z - i < lenN ws /\ nthN eff (z - i) 0 = 0)).
Proof.
  induction ws as [|w r IH]; intros i sum eff total zeros H; cbn [wsh_new] in H.
  - inversion H; subst. split; [reflexivity|]. split; [cbn; lia|]. split; [constructor|].
    intros z. split; [contradiction|]. intros [_ [B _]]. unfold lenN in B. cbn in B. lia.
  - destruct ((w =? 0) || (W64 <=? sum + w)) eqn:E.
    + destruct (wsh_new r (i + 1) sum) as [[e t] z] eqn:Er. inversion H; subst eff total zeros; clear H.
      apply IH in Er. destruct Er as [A [B [C D]]]. rewrite sumN_cons, lenN_cons. split; [cbn [length]; lia|]. split; [lia|]. split.
      * constructor; [|exact C]. intros X. apply D in X. lia.
      * intros z0. cbn [In]. rewrite D. split.
        -- intros [X|[X1 [X2 X3]]]; [subst z0; replace (i - i) with 0 by lia; repeat split; try lia; reflexivity|].
           repeat split; try lia. unfold nthN in *. replace (N.to_nat (z0 - i)) with (S (N.to_nat (z0 - (i + 1)))) by lia. exact X3.
        -- intros [X1 [X2 X3]]. destruct (N.eq_dec i z0) as [Eq|Dq]; [left; exact Eq|]. right. repeat split; try lia.
           unfold nthN in *. replace (N.to_nat (z0 - i)) with (S (N.to_nat (z0 - (i + 1)))) in X3 by lia. exact X3.
    + destruct (wsh_new r (i + 1) (sum + w)) as [[e t] z] eqn:Er. inversion H; subst eff total zeros; clear H.
      apply IH in Er. destruct Er as [A [B [C D]]]. rewrite sumN_cons, lenN_cons. split; [cbn [length]; lia|]. split; [lia|]. split; [exact C|].
      apply orb_false_iff in E. destruct E as [E _]. apply N.eqb_neq in E.
      intros z0. rewrite D. split.
      * intros [X1 [X2 X3]]. repeat split; try lia.
        unfold nthN in *. replace (N.to_nat (z0 - i)) with (S (N.to_nat (z0 - (i + 1)))) by lia. exact X3.
      * intros [X1 [X2 X3]]. destruct (N.eq_dec i z0) as [Eq|Dq].
        -- subst z0. replace (i - i) with 0 in X3 by lia. unfold nthN in X3. cbn in X3. lia.
        -- repeat split; try lia. unfold nthN in *. replace (N.to_nat (z0 - i)) with (S (N.to_nat (z0 - (i + 1)))) in X3 by lia. exact X3.
Qed.

Lemma NoDup_app_intro {A} (a b : list A) :
  NoDup a -> NoDup b -> (forall x, In x a -> In x b -> False) -> NoDup (a ++ b).
Proof.
  induction a as [|x a IH]; intros Ha Hb Hd; [exact Hb|]. inversion Ha; subst. cbn [app]. constructor.
  - intros C. apply in_app_or in C. destruct C as [C|C]; [contradiction|]. apply (Hd x); [left; reflexivity | exact C].
  - apply IH; auto. intros y Hy Hy'. apply (Hd y); [right; exact Hy | exact Hy'].
Qed.

Lemma indexed_fst_In (l : list N) : forall i0 z, i0 <= z -> z - i0 < lenN l -> In z (map fst (indexed i0 l)).
Proof.
  induction l as [|x l IH]; intros i0 z H1 H2; [unfold lenN in H2; cbn in H2; lia|].
  rewrite lenN_cons in H2. cbn [indexed map fst In].
  destruct (N.eq_dec i0 z); [left; auto|]. right. apply IH; lia.
Qed.

(* for every stake vector and every random stream *)
Theorem weighted_shuffle_is_a_permutation : forall stakes s order r,
  lenN stakes < W64 ->
  weighted_shuffle stakes s = Ok order r ->
  NoDup order /\ (forall v, In v order <-> v < lenN stakes).
Proof.
  intros stakes s order r Hn H. unfold weighted_shuffle in H.
  destruct (wsh_new stakes 0 0) as [[eff total] zeros] eqn:En.
  apply wsh_new_spec in En. destruct En as [El [Et [Zd Zin]]].
  destruct (wsh_positive (S (length stakes)) eff total s) as [pos s1| |] eqn:Ep; try discriminate.
  destruct (wsh_zeros (S (length stakes)) zeros s1) as [zs s2| |] eqn:Ez; try discriminate.
  inversion H; subst order r; clear H.
  apply wsh_positive_spec in Ep; [|lia]. destruct Ep as [Pd Pin].
  assert (Hzl : lenN zeros < W64).
  { assert (Hl : (length zeros <= length (map fst (indexed 0 stakes)))%nat).
    { apply NoDup_incl_length; [exact Zd|].
      intros z Hz. apply Zin in Hz. destruct Hz as [_ [B _]]. apply indexed_fst_In; lia. }
    rewrite map_length, indexed_length in Hl. unfold lenN in *. lia. }
  apply wsh_zeros_perm in Ez; [|exact Hzl].
  assert (Zin' : forall z, In z zs <-> (z < lenN stakes /\ nthN eff z 0 = 0)).
  { intros z. split.
    - intros Hz. apply (Permutation_in _ Ez) in Hz. apply Zin in Hz. rewrite N.sub_0_r in Hz. destruct Hz as [_ Hz]. exact Hz.
    - intros [A B]. apply (Permutation_in _ (Permutation_sym Ez)). apply Zin. rewrite N.sub_0_r. repeat split; auto; lia. }
  assert (Hle : lenN eff = lenN stakes) by (unfold lenN; rewrite El; reflexivity).
  split.
  - apply NoDup_app_intro; [exact Pd | eapply Permutation_NoDup; [apply Permutation_sym; exact Ez | exact Zd] |].
    intros v Hp Hz. apply Pin in Hp. apply Zin' in Hz. lia.
  - intros v. rewrite in_app_iff, Pin, Zin', Hle. split; [intros [[A _]|[A _]]; exact A|].
    intros Hv. destruct (N.eq_dec (nthN eff v 0) 0) as [E|D]; [right; auto | left; split; [exact Hv | lia]].
Qed.

Lemma seqN_NoDup len : forall start, NoDup (seqN start len).
Proof.
  induction len as [|len IH]; intros start; cbn [seqN]; constructor; [|apply IH].
  intros C. apply seqN_In in C. lia.
Qed.

Lemma permutation_length order n :
  NoDup order -> (forall v, In v order <-> v < n) -> lenN order = n.
Proof.
  intros Hnd Hin.
  assert (H1 : (length order <= length (seqN 0 (N.to_nat n)))%nat).
  { apply NoDup_incl_length; [exact Hnd|]. intros v Hv. apply seqN_In. apply Hin in Hv. lia. }
  assert (H2 : (length (seqN 0 (N.to_nat n)) <= length order)%nat).
  { apply NoDup_incl_length; [apply seqN_NoDup|]. intros v Hv. apply seqN_In in Hv. apply Hin. lia. }
  rewrite seqN_length in *. unfold lenN. lia.
Qed.

(* the tree the model builds for a shred, from ANY random stream, delivers the shred to every validator of
   the epoch exactly once *)
Theorem turbine_model_exactly_once : forall (rng : list N -> stream) stakes slot shred fanout order r,
  turbine_order rng stakes slot shred = Ok order r ->
  1 <= fanout -> lenN stakes * fanout + 1 < W64 ->
  exists deliveries, turbine_run order fanout = Some deliveries /\
    forall v, count_occ_N deliveries v = if v <? lenN stakes then 1 else 0.
Proof.
  intros rng stakes slot shred fanout order r Ho Hf Hov. unfold turbine_order in Ho.
  assert (Hn : lenN stakes < W64) by nia.
  apply weighted_shuffle_is_a_permutation in Ho; [|exact Hn]. destruct Ho as [Hnd Hin].
  pose proof (permutation_length order (lenN stakes) Hnd Hin) as Hlen.
  destruct (turbine_exactly_once order fanout Hnd Hf ltac:(rewrite Hlen; exact Hov)) as [d [Hr [H1 H0]]].
  exists d. split; [exact Hr|]. intros v. destruct (v <? lenN stakes) eqn:E.
  - apply N.ltb_lt in E. apply H1. apply Hin. exact E.
  - apply N.ltb_ge in E. apply H0. intros C. apply Hin in C. lia.
Qed.

(* ------------------------------------------------------------------ *)
(* Rotor::new / Rotor::new_fa1: the relay as a function of the triple   *)
(* ------------------------------------------------------------------ *)
(* both constructors of the current tree *)
Definition rotor_ctor (fa1 : bool) (stakes : list N) : cres sampler :=
  if fa1 then rotor_new_fa1 stakes else rotor_new stakes.

Theorem rotor_relay_is_a_function_of_the_triple : forall (rng : list N -> stream) fa1 stakes sm1 sm2 slot slice shred,
  rotor_ctor fa1 stakes = COk sm1 -> rotor_ctor fa1 stakes = COk sm2 ->
  rotor_relay rng sm1 slot slice shred = rotor_relay rng sm2 slot slice shred.
Proof. intros rng fa1 stakes sm1 sm2 slot slice shred H1 H2. rewrite H1 in H2. inversion H2. reflexivity. Qed.

Lemma rotor_ctor_as_construct fa1 stakes sm :
  rotor_ctor fa1 stakes = COk sm ->
  exists st order, quorum_size st = TOTAL_SHREDS /\ valid_order stakes order /\
                   construct Current st stakes order = COk sm /\ fa2_counts_ok sm.
Proof.
  intros H. destruct fa1; cbn [rotor_ctor] in H; unfold rotor_new_fa1, rotor_new in H;
    apply construct_current_as_construct in H; destruct H as [o [Ho Hc]].
  - exists (StFA1Part TOTAL_SHREDS), o. repeat split; auto.
    cbn [construct] in Hc. destruct (fa1_prepare Current stakes TOTAL_SHREDS); [|discriminate].
    destruct (partition_new _ _); inversion Hc. exact I.
  - exists (StStake TOTAL_SHREDS), o. repeat split; auto.
    cbn [construct] in Hc. destruct (windex_ok stakes); inversion Hc. exact I.
Qed.

Theorem rotor_relay_in_range : forall (rng : list N -> stream) fa1 stakes sm slot slice shred r,
  rotor_ctor fa1 stakes = COk sm -> lenN stakes < W64 ->
  rotor_relay rng sm slot slice shred = RRelay r -> r < lenN stakes.
Proof.
  intros rng fa1 stakes sm slot slice shred r Hc Hn H. unfold rotor_relay, rotor_relays in H.
  destruct (sample_quorum sm (rng (rotor_seed slot slice))) as [q rest| |] eqn:E; try discriminate.
  destruct (nth_error q (N.to_nat shred)) as [v|] eqn:En; inversion H; subst.
  apply rotor_ctor_as_construct in Hc. destruct Hc as [st [o [_ [Ho [Hc _]]]]].
  pose proof (members_in_range _ _ _ _ _ _ _ _ Hc Ho Hn E) as Hall.
  rewrite Forall_forall in Hall. apply Hall. eapply nth_error_In; eauto.
Qed.

Theorem rotor_model_exactly_once : forall (rng : list N -> stream) fa1 stakes sm slot slice shred relay,
  rotor_ctor fa1 stakes = COk sm -> lenN stakes < W64 ->
  rotor_relay rng sm slot slice shred = RRelay relay ->
  let n := lenN stakes in
  let leader := leader_of n slot in
  exists deliveries, rotor_run n leader relay = Some deliveries /\
    (forall v, v < n -> v <> leader -> count_occ_N deliveries v = 1) /\
    count_occ_N deliveries leader <= 1 /\
    (forall v, n <= v -> count_occ_N deliveries v = 0) /\
    (forall own, own <> relay -> rotor_forward n own relay leader = []).
Proof.
  intros rng fa1 stakes sm slot slice shred relay Hc Hn Hr n leader.
  assert (Hrel : relay < n) by (eapply rotor_relay_in_range; eauto).
  assert (Hl : leader < n) by (unfold leader, leader_of; apply N.mod_lt; intros C; rewrite C in Hrel; destruct relay; discriminate).
  destruct (rotor_exactly_one_relay_broadcast n leader relay Hrel Hl) as [d [H1 [H2 [H3 [H4 H5]]]]].
  exists d. repeat split; auto. rewrite H3. destruct (leader =? relay); [apply N.le_refl | apply N.le_0_l].
Qed.

(* sample_relay indexes the committee by the shred index: defined for every shred of a slice *)
Theorem rotor_relay_defined_for_every_shred : forall (rng : list N -> stream) fa1 stakes sm slot slice q r shred,
  rotor_ctor fa1 stakes = COk sm ->
  rotor_relays rng sm slot slice = Ok q r -> shred < TOTAL_SHREDS ->
  exists v, rotor_relay rng sm slot slice shred = RRelay v /\ nth_error q (N.to_nat shred) = Some v.
Proof.
  intros rng fa1 stakes sm slot slice q r shred Hc Hq Hs.
  apply rotor_ctor_as_construct in Hc. destruct Hc as [st [o [Hk [_ [Hc Hfa]]]]].
  unfold rotor_relay. rewrite Hq. unfold rotor_relays in Hq.
  pose proof (quorum_len _ _ _ _ _ _ _ _ Hc Hfa Hq) as Hlen. rewrite Hk in Hlen.
  destruct (nth_error q (N.to_nat shred)) as [v|] eqn:E; [exists v; auto|].
  apply nth_error_None in E. unfold lenN in Hlen. lia.
Qed.

Theorem cache_is_memo_any : forall (K V : Type) (keq : K -> K -> bool) (f : K -> V),
  (forall a b, keq a b = true -> a = b) ->
  forall ks keeps c,
    length keeps = length ks ->
    Forall (fun keep => forall c0 e, In e (keep c0) -> In e c0) keeps ->
    cache_valid f c ->
    memo_run keq f keeps c ks = map f ks.
Proof. intros K V keq f H. exact (cache_is_memo keq H f). Qed.
