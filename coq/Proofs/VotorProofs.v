(* Proofs about the Votor model (Model/Votor.v) - C05: the guard under which each kind of vote is cast. *)
From Coq Require Import List NArith Bool Lia.
From AG Require Import Gen.Params Model.Pool Model.PoolSpec Model.Votor Proofs.SlotStateProofs.
Import ListNotations.
Open Scope N_scope.

(* finalize: only for the block the node notarized, only with that block's notarization certificate seen,
   never in a slot marked bad (skip / skip-fallback / notar-fallback cast there); then the slot is retired *)
Theorem final_vote_guard : forall own t s h t' o,
  v_try_final own t s h = Some (t', o) -> o <> [] ->
  o = [VBVote (mkVote s KFinal own)] /\
  (exists x, vget t s = Some x /\ vs_notarized x = Some h /\ vs_voted_notar x = Some h /\ vs_bad x = false) /\
  v_retired t' s = true.
Proof.
  intros own t s h t' o H Hne. unfold v_try_final in H.
  destruct (s <? v_first_unpruned t); [discriminate|].
  destruct (vget t s) as [x|] eqn:G; cbn [andb negb] in H.
  - destruct (opt_hash_eqb (vs_notarized x) h) eqn:E1; cbn [andb] in H; [|injection H as <- <-; congruence].
    destruct (opt_hash_eqb (vs_voted_notar x) h) eqn:E2; cbn [andb] in H; [|injection H as <- <-; congruence].
    destruct (vs_bad x) eqn:E3; cbn [negb] in H; [injection H as <- <-; congruence|].
    injection H as <- <-. split; [reflexivity|]. split.
    + exists x. unfold opt_hash_eqb in *.
      destruct (vs_notarized x) as [a|]; [|discriminate]. destruct (vs_voted_notar x) as [b|]; [|discriminate].
      apply N.eqb_eq in E1. apply N.eqb_eq in E2. subst. auto.
    + unfold v_retired, vget, vset. cbn [vt_slots]. rewrite alookup_ainsert_same. reflexivity.
  - injection H as <- <-. congruence.
Qed.

(* notarize: only in a slot without an initial vote, only with an acceptable parent: a parent announced
   ready for the window's first slot, otherwise the block notarized in the preceding slot *)
Theorem notar_vote_guard : forall own t s h parent t' o,
  v_try_notar own t s h parent = Some (t', o, true) ->
  v_voted t s = false /\ v_first_unpruned t <= s /\
  (if s =? window_first s
   then exists x, vget t s = Some x /\ existsb (bid_eqb parent) (vs_parents x) = true
   else fst parent = s - 1 /\ exists x, vget t (fst parent) = Some x /\ vs_voted_notar x = Some (snd parent)) /\
  (exists rest, o = VBVote (mkVote s (KNotar h) own) :: rest /\ (rest = [] \/ rest = [VBVote (mkVote s KFinal own)])).
Proof.
  intros own t s h parent t' o H. unfold v_try_notar in H.
  destruct (s <? v_first_unpruned t) eqn:F; [discriminate|].
  destruct (v_voted t s) eqn:V; [discriminate|].
  match type of H with context [if negb ?c then _ else _] => destruct c eqn:OK end; cbn [negb] in H; [|discriminate].
  match type of H with context [v_try_final own ?t1 s h] => destruct (v_try_final own t1 s h) as [[t2 o2]|] eqn:TF end; [|discriminate].
  injection H as <- <-. split; [reflexivity|]. split; [apply N.ltb_ge; exact F|]. split.
  - destruct (s =? window_first s).
    + destruct (vget t s) as [x|]; [|discriminate]. exists x. auto.
    + apply andb_prop in OK. destruct OK as [O1 O2]. apply N.eqb_eq in O1. split; [exact O1|].
      destruct (vget t (fst parent)) as [x|]; [|discriminate]. exists x. split; [reflexivity|].
      unfold opt_hash_eqb in O2. destruct (vs_voted_notar x) as [a|]; [|discriminate]. apply N.eqb_eq in O2. subst. reflexivity.
  - exists o2. split; [reflexivity|].
    destruct o2 as [|z l]; [left; reflexivity|]. right.
    assert (Hne : z :: l <> []) by discriminate.
    destruct (final_vote_guard own _ s h t2 (z :: l) TF Hne) as [E _]. exact E.
Qed.

(* skipping a window: skip votes go exactly to the slots of the window without an initial vote *)
Lemma skip_window_votes_gen own : forall slots t o t' o',
  fold_left (fun (acc : votor * list vout) s' =>
               let '(t', o) := acc in
               if v_voted t' s' then acc
               else let x := vstate t' s' in
                    (vset t' s' (mkVS true (vs_voted_notar x) true (vs_notarized x) (vs_parents x) (vs_shred x) (vs_pending x) (vs_retired x)),
                     o ++ [VBVote (mkVote s' KSkip own)])) slots (t, o) = (t', o') ->
  exists extra, o' = o ++ extra /\
    Forall (fun x => exists s', x = VBVote (mkVote s' KSkip own) /\ In s' slots) extra.
Proof.
  induction slots as [|a l IH]; intros t o t' o' H; cbn [fold_left] in H.
  - injection H as <- <-. exists []. split; [symmetry; apply app_nil_r | constructor].
  - destruct (v_voted t a).
    + destruct (IH _ _ _ _ H) as [ex [E F]]. exists ex. split; [exact E|].
      eapply Forall_impl; [|exact F]. intros x [s' [Hx Hin]]. exists s'. split; [exact Hx | right; exact Hin].
    + destruct (IH _ _ _ _ H) as [ex [E F]]. exists (VBVote (mkVote a KSkip own) :: ex).
      split; [rewrite E, <- app_assoc; reflexivity|]. constructor.
      * exists a. split; [reflexivity | left; reflexivity].
      * eapply Forall_impl; [|exact F]. intros x [s' [Hx Hin]]. exists s'. split; [exact Hx | right; exact Hin].
Qed.

Theorem skip_window_votes : forall own t s t' o,
  v_try_skip_window own t s = Some (t', o) ->
  Forall (fun x => exists s', x = VBVote (mkVote s' KSkip own) /\
                              In s' (seqN (window_first s) (N.to_nat SLOTS_PER_WINDOW))) o.
Proof.
  intros own t s t' o H. unfold v_try_skip_window in H.
  remember (seqN (window_first s) (N.to_nat SLOTS_PER_WINDOW)) as slots eqn:Es.
  destruct (s <? v_first_unpruned t); [discriminate|].
  assert (H' : fold_left (fun (acc : votor * list vout) s' =>
               let '(t', o) := acc in
               if v_voted t' s' then acc
               else let x := vstate t' s' in
                    (vset t' s' (mkVS true (vs_voted_notar x) true (vs_notarized x) (vs_parents x) (vs_shred x) (vs_pending x) (vs_retired x)),
                     o ++ [VBVote (mkVote s' KSkip own)])) slots (t, []) = (t', o)) by (injection H as H; exact H).
  destruct (skip_window_votes_gen own _ _ _ _ _ H') as [ex [E F]]. cbn [app] in E. subst o. exact F.
Qed.

(* the standstill bundle is forwarded verbatim, whatever Votor's pruning state *)
Theorem standstill_forwarded : forall own t s cs vs,
  vt_panicked t = false ->
  votor_step own t (VPool (EStandstill s cs vs)) = (t, map VBCert cs ++ map VBVote vs, false).
Proof.
  intros own t s cs vs Hp. unfold votor_step. rewrite Hp. reflexivity.
Qed.
