(* Executable model of src/consensus/votor.rs (definitions only).
   Inputs are the three event kinds Votor's loop dispatches (pool events, blockstore events,
   timeouts); outputs are the messages handed to All2All::broadcast, in order, and the windows for
   which timeouts are scheduled.  Real time is abstracted: a fired timeout is an input event.

   MODELLED_FUNCTIONS: Votor::{new,should_ignore_pool_event,handle_pool_event,handle_cert_created,
     handle_blockstore_event,handle_timeout_event,set_timeouts,try_notar,try_final,try_skip_window,
     check_pending_blocks,prune,first_unpruned_slot,is_retired,has_voted,received_shred} *)
From Coq Require Import List NArith Bool.
From AG Require Import Gen.Params Model.Pool.
Import ListNotations.
Open Scope N_scope.

Record vslot := mkVS {
  vs_voted : bool;
  vs_voted_notar : option hash;
  vs_bad : bool;
  vs_notarized : option hash;
  vs_parents : list blockid;
  vs_shred : bool;
  vs_pending : option (hash * blockid);
  vs_retired : bool }.
Definition vs_default := mkVS false None false None [] false None false.
Definition vs_genesis := mkVS true (Some 0) false (Some 0) [(0, 0)] false None true.

Record votor := mkVotor { vt_slots : list (slot * vslot); vt_highest : slot; vt_panicked : bool }.
Definition votor_init : votor := mkVotor [(0, vs_genesis)] 0 false.

Inductive vin :=
| VPool (e : pevent)
| VFirstShred (s : slot)
| VInvalidBlock (s : slot)
| VBlock (s : slot) (h : hash) (parent : blockid)
| VTimeout (s : slot)
| VTimeoutCrashed (s : slot).

Inductive vout := VBVote (v : vote) | VBCert (c : cert) | VSetTimeouts (s : slot).

Definition vget (t : votor) (s : slot) : option vslot := alookup s (vt_slots t).
Definition vstate (t : votor) (s : slot) : vslot := aget vs_default s (vt_slots t).
Definition vset (t : votor) (s : slot) (st : vslot) : votor :=
  mkVotor (ainsert s st (vt_slots t)) (vt_highest t) (vt_panicked t).
Definition v_first_unpruned (t : votor) : slot := window_first (vt_highest t).
Definition v_retired (t : votor) (s : slot) : bool := match vget t s with Some st => vs_retired st | None => false end.
Definition v_voted (t : votor) (s : slot) : bool := match vget t s with Some st => vs_voted st | None => false end.
Definition v_shred (t : votor) (s : slot) : bool := match vget t s with Some st => vs_shred st | None => false end.
Definition opt_hash_eqb (a : option hash) (b : hash) : bool := match a with Some x => x =? b | None => false end.

Definition vres := option (votor * list vout).     (* None = panic *)

(* try_final *)
Definition v_try_final (own : vidx) (t : votor) (s : slot) (h : hash) : vres :=
  if s <? v_first_unpruned t then None
  else
    let st := vget t s in
    let notarized := match st with Some x => opt_hash_eqb (vs_notarized x) h | None => false end in
    let voted_notar := match st with Some x => opt_hash_eqb (vs_voted_notar x) h | None => false end in
    let not_bad := negb (match st with Some x => vs_bad x | None => false end) in
    if notarized && voted_notar && not_bad then
      let x := vstate t s in
      Some (vset t s (mkVS (vs_voted x) (vs_voted_notar x) (vs_bad x) (vs_notarized x) (vs_parents x) (vs_shred x) (vs_pending x) true),
            [VBVote (mkVote s KFinal own)])
    else Some (t, []).

(* try_notar: returns also whether a notar vote was cast *)
Definition v_try_notar (own : vidx) (t : votor) (s : slot) (h : hash) (parent : blockid) : option (votor * list vout * bool) :=
  if s <? v_first_unpruned t then None
  else if v_voted t s then Some (t, [], false)
  else
    let ok :=
      if s =? window_first s then
        match vget t s with Some x => existsb (bid_eqb parent) (vs_parents x) | None => false end
      else
        (fst parent =? s - 1)
        && match vget t (fst parent) with Some x => opt_hash_eqb (vs_voted_notar x) (snd parent) | None => false end in
    if negb ok then Some (t, [], false)
    else
      let x := vstate t s in
      let t1 := vset t s (mkVS true (Some h) (vs_bad x) (vs_notarized x) (vs_parents x) (vs_shred x) None (vs_retired x)) in
      match v_try_final own t1 s h with
      | None => None
      | Some (t2, o) => Some (t2, VBVote (mkVote s (KNotar h) own) :: o, true)
      end.

(* try_skip_window *)
Definition v_try_skip_window (own : vidx) (t : votor) (s : slot) : vres :=
  if s <? v_first_unpruned t then None
  else
    Some (fold_left (fun (acc : votor * list vout) s' =>
                       let '(t', o) := acc in
                       if v_voted t' s' then acc
                       else
                         let x := vstate t' s' in
                         (vset t' s' (mkVS true (vs_voted_notar x) true (vs_notarized x) (vs_parents x) (vs_shred x) (vs_pending x) (vs_retired x)),
                          o ++ [VBVote (mkVote s' KSkip own)]))
                    (seqN (window_first s) (N.to_nat SLOTS_PER_WINDOW)) (t, [])).

Fixpoint slot_insert_sorted' (x : slot) (l : list slot) : list slot :=
  match l with [] => [x] | y :: t => if y <? x then y :: slot_insert_sorted' x t else x :: l end.

(* check_pending_blocks: slots with a pending block, ascending; each re-read before try_notar *)
Definition v_check_pending (own : vidx) (t : votor) : vres :=
  let slots := fold_right slot_insert_sorted' []
                 (map fst (filter (fun kv => match vs_pending (snd kv) with Some _ => true | None => false end) (vt_slots t))) in
  fold_left (fun (acc : vres) s =>
               match acc with
               | None => None
               | Some (t', o) =>
                 match vget t' s with
                 | Some x => match vs_pending x with
                             | Some (h, p) => match v_try_notar own t' s h p with
                                              | None => None
                                              | Some (t'', o', _) => Some (t'', o ++ o')
                                              end
                             | None => Some (t', o)
                             end
                 | None => Some (t', o)
                 end
               end) slots (Some (t, [])).

Definition v_set_timeouts (s : slot) : option (list vout) :=
  if is_window_start s then Some [VSetTimeouts s] else None.

Definition v_prune (t : votor) : votor :=
  mkVotor (filter (fun kv => v_first_unpruned t <=? fst kv) (vt_slots t)) (vt_highest t) (vt_panicked t).

Definition pevent_slot (e : pevent) : slot :=
  match e with
  | EParentReady s _ | ESafeToSkip s | EStandstill s _ _ | EWaiterWoken s _ => s
  | ESafeToNotar b => fst b
  | ECertCreated c => c_slot c
  end.

Definition v_should_ignore (t : votor) (e : pevent) : bool :=
  let s := pevent_slot e in
  match e with
  | EStandstill _ _ _ => false
  | ECertCreated _ => s <? v_first_unpruned t
  | _ => (s <? v_first_unpruned t) || v_retired t s
  end.

Definition set_bad (t : votor) (s : slot) : votor :=
  let x := vstate t s in
  vset t s (mkVS (vs_voted x) (vs_voted_notar x) true (vs_notarized x) (vs_parents x) (vs_shred x) (vs_pending x) (vs_retired x)).

Definition v_handle_cert (own : vidx) (t : votor) (c : cert) : vres :=
  let s := c_slot c in
  let r : vres :=
    match c_kind c with
    | CNotar h =>
      let x := vstate t s in
      let t1 := vset t s (mkVS (vs_voted x) (vs_voted_notar x) (vs_bad x) (Some h) (vs_parents x) (vs_shred x) (vs_pending x) (vs_retired x)) in
      v_try_final own t1 s h
    | CFinal | CFastFinal _ =>
      match v_set_timeouts (window_first s) with
      | None => None
      | Some o => let t1 := mkVotor (vt_slots t) (N.max (vt_highest t) s) (vt_panicked t) in Some (v_prune t1, o)
      end
    | CSkip | CNotarFb _ => Some (t, [])
    end in
  match r with None => None | Some (t', o) => Some (t', o ++ [VBCert c]) end.

Definition v_handle_pool (own : vidx) (t : votor) (e : pevent) : vres :=
  if v_should_ignore t e then Some (t, [])
  else
    match e with
    | EParentReady s p =>
      let x := vstate t s in
      let ps := if existsb (bid_eqb p) (vs_parents x) then vs_parents x else vs_parents x ++ [p] in
      let t1 := vset t s (mkVS (vs_voted x) (vs_voted_notar x) (vs_bad x) (vs_notarized x) ps (vs_shred x) (vs_pending x) (vs_retired x)) in
      match v_check_pending own t1 with
      | None => None
      | Some (t2, o) => match v_set_timeouts s with None => None | Some o' => Some (t2, o ++ o') end
      end
    | ESafeToNotar (s, h) =>
      match v_try_skip_window own t s with
      | None => None
      | Some (t1, o) => Some (set_bad t1 s, VBVote (mkVote s (KNotarFb h) own) :: o)
      end
    | ESafeToSkip s =>
      match v_try_skip_window own t s with
      | None => None
      | Some (t1, o) => Some (set_bad t1 s, VBVote (mkVote s KSkipFb own) :: o)
      end
    | ECertCreated c => v_handle_cert own t c
    | EStandstill _ cs vs => Some (t, map VBCert cs ++ map VBVote vs)
    | EWaiterWoken _ _ => Some (t, [])
    end.

Definition v_old (t : votor) (s : slot) : bool := (s <=? vt_highest t) || v_retired t s.

Definition votor_step (own : vidx) (t : votor) (i : vin) : votor * list vout * bool (* panicked *) :=
  if vt_panicked t then (t, [], true)
  else
    let r : vres :=
      match i with
      | VPool e => v_handle_pool own t e
      | VFirstShred s =>
        if v_old t s then Some (t, [])
        else let x := vstate t s in
             Some (vset t s (mkVS (vs_voted x) (vs_voted_notar x) (vs_bad x) (vs_notarized x) (vs_parents x) true (vs_pending x) (vs_retired x)), [])
      | VInvalidBlock s => if v_old t s then Some (t, []) else v_try_skip_window own t s
      | VBlock s h parent =>
        if v_old t s then Some (t, [])
        else if v_voted t s then Some (t, [])
        else match v_try_notar own t s h parent with
             | None => None
             | Some (t1, o, true) =>
               match v_check_pending own t1 with None => None | Some (t2, o') => Some (t2, o ++ o') end
             | Some (t1, o, false) =>
               let x := vstate t1 s in
               Some (vset t1 s (mkVS (vs_voted x) (vs_voted_notar x) (vs_bad x) (vs_notarized x) (vs_parents x) (vs_shred x) (Some (h, parent)) (vs_retired x)), o)
             end
      | VTimeout s =>
        if v_old t s then Some (t, [])
        else if v_voted t s then Some (t, []) else v_try_skip_window own t s
      | VTimeoutCrashed s =>
        if v_old t s then Some (t, [])
        else if negb (v_shred t s) && negb (v_voted t s) then v_try_skip_window own t s else Some (t, [])
      end in
    match r with
    | None => (mkVotor (vt_slots t) (vt_highest t) true, [], true)
    | Some (t', o) => (t', o, false)
    end.
