(* Executable model of the leader's slice builder (definitions only):
     src/consensus/block_producer.rs   produce_slice_payload (the byte accounting of the receive loop),
                                       shred_and_disseminate (the size precondition of Shredder::shred),
                                       apply_parent_ready
   A transaction is represented by the length of its payload (Transaction(Vec<u8>) is encoded as an 8-byte
   length followed by the bytes).  Real time is abstracted: the transactions that arrive before the slice's
   time budget expires are the input list; running out of the list is the time-out arm.
   [Rust]  buffer_space = MAX_DATA_PER_SLICE - parent_encoded_len - 8;  buffer starts with the 8-byte count;
           per transaction:  if tx.0.len() > MAX_TRANSACTION_SIZE { continue }            (current tree)
                             tx_count += 1; serialize;
                             if buffer_space - buffer.len() < MAX_TRANSACTION_SIZE + 8 { break }
   The subtraction is on usize with overflow checks on (the crate's release profile): it panics as soon as
   the buffer has grown beyond buffer_space - the explicit [PPanic] outcome.
   [drop_oversize]: the current tree ("fix: drop transactions above the size limit ...", 7f57b91) skips
   transactions above the limit; the pinned tree accounted for every transaction ([drop_oversize = false]).
   [same_slot_ok]: the current tree ("fix: switch to the ready parent also when it is another block of the same
   slot", 8dab5dc) has no assertion in apply_parent_ready; the pinned tree asserted new_slot != parent_slot.

   MODELLED_FUNCTIONS: produce_slice_payload BlockProducer::shred_and_disseminate (size precondition)
     apply_parent_ready *)
From Coq Require Import List NArith Bool.
From AG Require Import Gen.Params.
Import ListNotations.
Open Scope N_scope.

(* wincode size of Option<BlockId>: tag, and for Some the slot (8) and the 32-byte hash; from Gen/Params.v *)
Definition parent_len (has_parent : bool) : N := if has_parent then PARENT_ENC_SOME else PARENT_ENC_NONE.
Definition buffer_space (has_parent : bool) : N := MAX_DATA_PER_SLICE - parent_len has_parent - 8.
Definition tx_encoded (payload : N) : N := 8 + payload.

(* [len] buffer length (incl. the 8-byte count), [count] = tx_count, [consumed] = transactions taken from the source *)
Inductive pres :=
| PPanic                                  (* usize underflow in [buffer_space - buffer.len()] *)
| PFull (len count consumed : N)          (* loop left because no further maximal transaction fits *)
| PTimeout (len count consumed : N).      (* time budget over (input exhausted) *)

Fixpoint produce_gen (drop_oversize : bool) (space len count consumed : N) (txs : list N) : pres :=
  match txs with
  | [] => PTimeout len count consumed
  | p :: rest =>
    if drop_oversize && (MAX_TRANSACTION_SIZE <? p) then produce_gen drop_oversize space len count (consumed + 1) rest
    else
      let len' := len + tx_encoded p in
      if space <? len' then PPanic
      else if space - len' <? MAX_TRANSACTION_SIZE + 8 then PFull len' (count + 1) (consumed + 1)
      else produce_gen drop_oversize space len' (count + 1) (consumed + 1) rest
  end.

Definition produce_slice_gen (drop_oversize has_parent : bool) (txs : list N) : pres :=
  produce_gen drop_oversize (buffer_space has_parent) 8 0 0 txs.
(* current tree / pinned tree *)
Definition produce_slice := produce_slice_gen true.
Definition produce_slice_pinned := produce_slice_gen false.

(* the transactions that end up in the slice: those within the limit among the consumed ones *)
Definition accepted (consumed : N) (txs : list N) : list N :=
  filter (fun p => p <=? MAX_TRANSACTION_SIZE) (firstn (N.to_nat consumed) txs).

(* the slice payload handed to the shredder is  parent ++ (8-byte length) ++ buffer *)
Definition slice_payload_len (has_parent : bool) (len : N) : N := parent_len has_parent + 8 + len.
(* Shredder::shred refuses (and shred_and_disseminate's expect panics) above MAX_DATA_PER_SLICE *)
Definition shred_accepts (has_parent : bool) (len : N) : bool := slice_payload_len has_parent len <=? MAX_DATA_PER_SLICE.

Definition is_ppanic (r : pres) : bool := match r with PPanic => true | _ => false end.

(* ---- apply_parent_ready: the ParentReady event that arrives while the leader is already producing
   optimistically on [optimistic] (the block of the previous slot it holds in its blockstore):
     same hash -> keep;  other hash -> (pinned tree: assert_ne!(new_slot, parent_slot);) switch the parent.
   A block id is (slot, hash). ---- *)
Inductive apr := AprKeep | AprSwitch (p : N * N) | AprPanic.
Definition apply_parent_ready_gen (same_slot_ok : bool) (optimistic received : N * N) : apr :=
  if snd received =? snd optimistic then AprKeep
  else if negb same_slot_ok && (fst received =? fst optimistic) then AprPanic
  else AprSwitch received.
Definition apply_parent_ready := apply_parent_ready_gen true.
Definition apply_parent_ready_pinned := apply_parent_ready_gen false.
