(* Executable model of the leader's slice builder (definitions only):
     src/consensus/block_producer.rs   produce_slice_payload (the byte accounting of the receive loop),
                                       shred_and_disseminate (the size precondition of Shredder::shred)
   A transaction is represented by the length of its payload (Transaction(Vec<u8>) is encoded as an 8-byte
   length followed by the bytes).  Real time is abstracted: the transactions that arrive before the slice's
   time budget expires are the input list; running out of the list is the time-out arm.
   [Rust]  buffer_space = MAX_DATA_PER_SLICE - parent_encoded_len - 8;  buffer starts with the 8-byte count;
           after every transaction:  if buffer_space - buffer.len() < MAX_TRANSACTION_SIZE + 8 { break }
   The subtraction is on usize with overflow checks on (the crate's release profile sets overflow-checks):
   it panics as soon as the buffer has grown beyond buffer_space.  That is the explicit [PPanic] outcome.

   MODELLED_FUNCTIONS: produce_slice_payload BlockProducer::shred_and_disseminate (size precondition)
     apply_parent_ready *)
From Coq Require Import List NArith Bool.
From AG Require Import Gen.Params.
Import ListNotations.
Open Scope N_scope.

(* wincode size of Option<BlockId>: tag, and for Some the slot (8) and the 32-byte hash; from Gen/Params.v *)
Definition parent_len (has_parent : bool) : N := if has_parent then PARENT_ENC_SOME else PARENT_ENC_NONE.
Definition buffer_space (has_parent : bool) : N := MAX_DATA_PER_SLICE - parent_len has_parent - 8.
Definition tx_encoded (payload : N) : N := 8 + payload.

Inductive pres :=
| PPanic                       (* usize underflow in [buffer_space - buffer.len()] *)
| PFull (len : N) (used : N)   (* loop left because no further maximal transaction fits; [used] transactions consumed *)
| PTimeout (len : N).          (* time budget over (input exhausted) *)

Fixpoint produce (space len used : N) (txs : list N) : pres :=
  match txs with
  | [] => PTimeout len
  | p :: rest =>
    let len' := len + tx_encoded p in
    if space <? len' then PPanic
    else if space - len' <? MAX_TRANSACTION_SIZE + 8 then PFull len' (used + 1)
    else produce space len' (used + 1) rest
  end.

Definition produce_slice (has_parent : bool) (txs : list N) : pres := produce (buffer_space has_parent) 8 0 txs.

(* the slice payload handed to the shredder is  parent ++ (8-byte length) ++ buffer *)
Definition slice_payload_len (has_parent : bool) (len : N) : N := parent_len has_parent + 8 + len.
(* Shredder::shred refuses (and shred_and_disseminate's expect panics) above MAX_DATA_PER_SLICE *)
Definition shred_accepts (has_parent : bool) (len : N) : bool := slice_payload_len has_parent len <=? MAX_DATA_PER_SLICE.

Definition pres_len (r : pres) : option N := match r with PPanic => None | PFull l _ | PTimeout l => Some l end.

(* a whole block's worth of slices: the transaction stream is cut wherever a slice ends (full) - the time-outs
   that also end slices are abstracted into [cuts]: a slice additionally ends after cuts[i] transactions *)
Fixpoint drop (n : nat) (l : list N) : list N := match n, l with O, _ => l | S n', [] => [] | S n', _ :: t => drop n' t end.

(* the proposed repair: transactions above the limit are dropped before they are accounted for *)
Fixpoint produce_fixed (space len used : N) (txs : list N) : pres :=
  match txs with
  | [] => PTimeout len
  | p :: rest =>
    if MAX_TRANSACTION_SIZE <? p then produce_fixed space len used rest
    else
      let len' := len + tx_encoded p in
      if space <? len' then PPanic
      else if space - len' <? MAX_TRANSACTION_SIZE + 8 then PFull len' (used + 1)
      else produce_fixed space len' (used + 1) rest
  end.
Definition produce_slice_fixed (has_parent : bool) (txs : list N) : pres := produce_fixed (buffer_space has_parent) 8 0 txs.

(* every phase at which a slice may begin inside a stream (a time-out can end a slice anywhere) *)
Fixpoint suffixes (l : list N) : list (list N) := match l with [] => [[]] | _ :: t => l :: suffixes t end.
Definition is_ppanic (r : pres) : bool := match r with PPanic => true | _ => false end.
(* some slice start makes the builder panic / every slice start that receives the whole rest does *)
Definition stream_may_panic (txs : list N) : bool :=
  existsb (fun s => is_ppanic (produce_slice true s) || is_ppanic (produce_slice false s)) (suffixes txs).

(* ---- apply_parent_ready: the ParentReady event that arrives while the leader is already producing
   optimistically on [optimistic] (the block of the previous slot it holds in its blockstore):
     same hash -> keep;  other hash -> assert_ne!(new_slot, parent_slot); switch the parent.
   A block id is (slot, hash). ---- *)
Inductive apr := AprKeep | AprSwitch (p : N * N) | AprPanic.
Definition apply_parent_ready (optimistic received : N * N) : apr :=
  if snd received =? snd optimistic then AprKeep
  else if fst received =? fst optimistic then AprPanic
  else AprSwitch received.
(* proposed repair: a different block is a different parent, whatever its slot *)
Definition apply_parent_ready_fixed (optimistic received : N * N) : apr :=
  if snd received =? snd optimistic then AprKeep else AprSwitch received.
