(* Abstract GLOBAL view of an Alpenglow execution, for the protocol-level safety proof (C01).
   Definitions only; the proofs are in Proofs/StakeSets.v and Proofs/SafetyProofs.v.

   A world = validator stakes, a Byzantine set, the block tree (block id -> parent id).
   A history = the list of ALL votes ever cast by anybody, NEWEST FIRST ([x :: older]: x was cast
   when exactly the votes of [older] had been cast).  A crashed validator simply casts fewer votes;
   Byzantine validators cast anything (conflicting votes included).  Messages are not modelled:
   whatever a correct node holds in its pool at the moment it votes is a subset of the votes cast so
   far (ideal signatures, C09), and every condition it evaluates on its pool is monotone in the vote
   set, so the condition is stated on the whole prefix [older] - the weakest reading, which makes
   the theorems cover every delivery schedule (delay, loss, duplication, reordering).

   Certificates are stake statements over the votes cast: "a set of distinct validators with stake
   >= threshold all of whom cast a matching vote" exists iff the set of ALL such validators has that
   stake (Proofs/SafetyProofs.v: cert_iff_exists_signers).  Thresholds are the pool model's
   is_*quorum (Model/Pool.v, Fraction::is_met over Gen/Params.v), i.e. exact integer comparisons.

   The rules R0-R6 a correct validator obeys ([rule_at]) are the guards of Votor (votor.rs) with
   the conditions under which Pool raises the events Votor reacts to (slot_state.rs
   check_safe_to_notar, safe-to-skip; parent_ready_tracker.rs + finality_tracker.rs), see the
   comment at each rule.

   MODELLED_FUNCTIONS: (specification level) Votor::{try_notar,try_final,try_skip_window,
     handle_pool_event} SlotState::{check_safe_to_notar,count_notar_stake,count_skip_stake}
     ParentReadyTracker::{mark_notar_fallback,mark_skipped,handle_finalization}
     FinalityTracker::{handle_finalized_block,handle_implicitly_finalized}
     EpochInfo::{is_weakest_quorum,is_weak_quorum,is_quorum,is_strong_quorum} *)
From Coq Require Import List NArith Bool.
From AG Require Import Gen.Params Model.Pool.
Import ListNotations.
Open Scope N_scope.

(* ---------- weighted sums over a predicate ---------- *)
Fixpoint wsum {A : Type} (w : A -> N) (P : A -> bool) (l : list A) : N :=
  match l with
  | [] => 0
  | a :: t => (if P a then w a else 0) + wsum w P t
  end.

(* ---------- world ---------- *)
Record world := mkWorld {
  w_stakes : list N;                          (* stake of validator i = i-th entry *)
  w_byz : list vidx;                          (* the Byzantine validators *)
  w_parent : blockid -> option blockid        (* block id (slot, hash) -> parent id; a function: the hash binds the parent *)
}.

Definition wep (W : world) : epoch := mkEpoch (w_stakes W) 0.
Definition wtotal (W : world) : N := total_stake (wep W).
(* stake of the validators satisfying P (each validator once) *)
Definition stk (W : world) (P : vidx -> bool) : N := wsum (stake_of (wep W)) P (vals (wep W)).
Definition byz (W : world) (v : vidx) : bool := memN v (w_byz W).
Definition correct (W : world) (v : vidx) : bool := negb (byz W v).

Definition genesis : blockid := (0, 0).

(* total stake positive; Byzantine stake STRICTLY below 20 % (the weakest quorum is not met);
   a parent lies in an earlier slot (blockstore / Pool::add_block enforce it) *)
Definition world_ok (W : world) : Prop :=
  0 < wtotal W /\
  is_weakest_quorum (wep W) (stk W (byz W)) = false /\
  (forall b p, w_parent W b = Some p -> fst p < fst b).

(* a is b or an ancestor of b *)
Inductive anc_eq (W : world) : blockid -> blockid -> Prop :=
| ae_refl : forall b, anc_eq W b b
| ae_step : forall a b p, w_parent W b = Some p -> anc_eq W a p -> anc_eq W a b.

(* ---------- votes cast ---------- *)
Definition vk_eqb (a b : vkind) : bool :=
  match a, b with
  | KNotar h, KNotar h' | KNotarFb h, KNotarFb h' => h =? h'
  | KSkip, KSkip | KSkipFb, KSkipFb | KFinal, KFinal => true
  | _, _ => false
  end.

(* validator u cast a vote of kind k in slot s *)
Definition cast (H : list vote) (s : slot) (k : vkind) (u : vidx) : bool :=
  existsb (fun x => (v_slot x =? s) && vk_eqb (v_kind x) k && (v_signer x =? u)) H.
Definition cast_any_notar (H : list vote) (s : slot) (u : vidx) : bool :=
  existsb (fun x => (v_slot x =? s) && (v_signer x =? u) && match v_kind x with KNotar _ => true | _ => false end) H.
(* u cast a notar vote in slot s for a block other than h *)
Definition cast_notar_other (H : list vote) (s : slot) (h : hash) (u : vidx) : bool :=
  existsb (fun x => (v_slot x =? s) && (v_signer x =? u) && match v_kind x with KNotar h' => negb (h' =? h) | _ => false end) H.
Definition cast_any_nf (H : list vote) (s : slot) (u : vidx) : bool :=
  existsb (fun x => (v_slot x =? s) && (v_signer x =? u) && match v_kind x with KNotarFb _ => true | _ => false end) H.
(* u cast its initial vote (notar or skip) in slot s *)
Definition cast_initial (H : list vote) (s : slot) (u : vidx) : bool := cast H s KSkip u || cast_any_notar H s u.

(* ---------- certificates: stake of the validators that cast a matching vote ---------- *)
Definition notar_stake (W : world) (H : list vote) (b : blockid) : N := stk W (cast H (fst b) (KNotar (snd b))).
Definition nf_stake (W : world) (H : list vote) (b : blockid) : N :=
  stk W (fun u => cast H (fst b) (KNotar (snd b)) u || cast H (fst b) (KNotarFb (snd b)) u).
Definition skip_stake (W : world) (H : list vote) (s : slot) : N :=
  stk W (fun u => cast H s KSkip u || cast H s KSkipFb u).
Definition final_stake (W : world) (H : list vote) (s : slot) : N := stk W (cast H s KFinal).

Definition notar_cert (W : world) (H : list vote) (b : blockid) : bool := is_quorum (wep W) (notar_stake W H b).
Definition nf_cert (W : world) (H : list vote) (b : blockid) : bool := is_quorum (wep W) (nf_stake W H b).
Definition skip_cert (W : world) (H : list vote) (s : slot) : bool := is_quorum (wep W) (skip_stake W H s).
Definition ff_cert (W : world) (H : list vote) (b : blockid) : bool := is_strong_quorum (wep W) (notar_stake W H b).
Definition final_cert (W : world) (H : list vote) (s : slot) : bool := is_quorum (wep W) (final_stake W H s).

(* direct finalization: fast-finalization certificate, or finalization certificate for the slot
   together with the notarization certificate of the block (FinalityTracker) *)
Definition finalized (W : world) (H : list vote) (b : blockid) : bool :=
  ff_cert W H b || (final_cert W H (fst b) && notar_cert W H b).

(* ---------- what Pool's trackers mark (ParentReadyTracker fed by certificates and by
   FinalityTracker's finalization events) ---------- *)
(* marked notarized-fallback: certificate (notar / notar-fallback / fast-final all imply the
   notar-fallback stake), genesis, or a finalized block or one of its ancestors *)
Definition mark_nf (W : world) (H : list vote) (p : blockid) : Prop :=
  nf_cert W H p = true \/ p = genesis \/ exists f, finalized W H f = true /\ anc_eq W p f.
(* marked skipped: skip certificate, or implicitly skipped = strictly between two consecutive
   blocks of the chain of a finalized block *)
Definition mark_skip (W : world) (H : list vote) (t : slot) : Prop :=
  skip_cert W H t = true \/
  exists f a a', finalized W H f = true /\ anc_eq W a f /\ w_parent W a = Some a' /\ fst a' < t /\ t < fst a.
(* ParentReady(s, p) *)
Definition parent_ready (W : world) (H : list vote) (s : slot) (p : blockid) : Prop :=
  fst p < s /\ mark_nf W H p /\ forall t, fst p < t -> t < s -> mark_skip W H t.

(* safe-to-notar stake condition (check_safe_to_notar): notar(b) >= 20 % and (notar(b) >= 40 % or
   skip + notar(b) >= 60 %).  A pool counts every validator at most once among skip / notar votes
   (vote admission, C04), so its skip + notar(b) is at most the stake of the union below. *)
Definition s2n_stake (W : world) (H : list vote) (b : blockid) : bool :=
  is_weakest_quorum (wep W) (notar_stake W H b)
  && (is_weak_quorum (wep W) (notar_stake W H b)
      || is_quorum (wep W) (stk W (fun u => cast H (fst b) (KNotar (snd b)) u || cast H (fst b) KSkip u))).
(* safe-to-skip stake condition: skip + sum_b notar(b) - max_b notar(b) >= 40 %.  In a pool (every
   validator counted once) this quantity is, for EVERY block h, at most the stake of the validators
   that cast skip or notar for a block other than h. *)
Definition s2s_stake (W : world) (H : list vote) (s : slot) : Prop :=
  forall h, is_weak_quorum (wep W) (stk W (fun u => cast H s KSkip u || cast_notar_other H s h u)) = true.

(* ---------- the rules of a correct validator ---------- *)
(* [rule_at W older x]: vote x may be cast by a correct validator whose own earlier votes and whose
   evidence are contained in [older]. *)
Definition rule_at (W : world) (o : list vote) (x : vote) : Prop :=
  let s := v_slot x in
  let u := v_signer x in
  (* R0: no notar / skip / fallback vote is ever cast for the genesis slot (its Votor state is
     voted + retired).  A finalization vote for the genesis slot IS cast by Votor when it is handed
     a notarization certificate for the genesis block (the genesis state counts as "voted notar");
     Proofs/SafetyProofs.v (no_final_genesis) shows such a certificate cannot exist. *)
  match v_kind x with KFinal => True | _ => 0 < s end /\
  match v_kind x with
  | KNotar h =>
    (* R1: one initial vote per slot (try_notar: has_voted) *)
    cast_initial o s u = false /\
    (* R6 (try_notar): first slot of a window: the parent was announced ParentReady; later slot:
       the parent is the block of slot s-1 this node voted to notarize (genesis counts) *)
    (if s =? window_first s
     then exists p, w_parent W (s, h) = Some p /\ parent_ready W o s p
     else exists h', w_parent W (s, h) = Some (s - 1, h') /\
                     (cast o (s - 1) (KNotar h') u = true \/ (s - 1, h') = genesis))
  | KSkip =>
    (* R1 (try_skip_window: has_voted); R3 follows: a slot with a final vote has a notar vote (R2) *)
    cast_initial o s u = false
  | KFinal =>
    (* R2 (try_final): voted notar for the block whose notarization certificate it holds (the genesis
       block counts as voted), and cast no skip / skip-fallback / notar-fallback vote in the slot
       (bad_window) *)
    (exists h, (cast o s (KNotar h) u = true \/ (s, h) = genesis) /\ notar_cert W o (s, h) = true) /\
    cast o s KSkip u = false /\ cast o s KSkipFb u = false /\ cast_any_nf o s u = false
  | KNotarFb h =>
    (* R3: not after final (retired slots ignore SafeToNotar) *)
    cast o s KFinal u = false /\
    (* R4 (SafeToNotar from Pool): stake condition, own vote in the slot is skip or notar for another
       block, the block's parent is certified notar-fallback or stronger - or is the genesis block,
       which Pool::add_block treats as certified ("fix: treat the genesis block as a certified parent
       for safe-to-notar"; no certificate for genesis can exist) *)
    s2n_stake W o (s, h) = true /\
    (cast o s KSkip u = true \/ cast_notar_other o s h u = true) /\
    (exists p, w_parent W (s, h) = Some p /\ (nf_cert W o p = true \/ p = genesis))
  | KSkipFb =>
    (* R3 *)
    cast o s KFinal u = false /\
    (* R5 (SafeToSkip from Pool): own notar vote in the slot, stake condition *)
    cast_any_notar o s u = true /\ s2s_stake W o s
  end.

(* every vote of a correct validator obeyed the rules when it was cast *)
Fixpoint hist_ok (W : world) (H : list vote) : Prop :=
  match H with
  | [] => True
  | x :: older => (correct W (v_signer x) = true -> rule_at W older x) /\ hist_ok W older
  end.

(* ---------- variants used to show that individual clauses are needed ---------- *)
(* [rule_at] without R2's bad-window clause *)
Definition rule_at_no_bad (W : world) (o : list vote) (x : vote) : Prop :=
  match v_kind x with
  | KFinal => True /\ exists h, (cast o (v_slot x) (KNotar h) (v_signer x) = true \/ (v_slot x, h) = genesis) /\ notar_cert W o (v_slot x, h) = true
  | _ => rule_at W o x
  end.
(* [rule_at] without R1 *)
Definition rule_at_no_r1 (W : world) (o : list vote) (x : vote) : Prop :=
  match v_kind x with
  | KSkip => 0 < v_slot x /\ cast o (v_slot x) KFinal (v_signer x) = false   (* R3 kept *)
  | _ => rule_at W o x
  end.
(* [rule_at] without the safe-to-skip stake condition of R5 *)
Definition rule_at_no_r5 (W : world) (o : list vote) (x : vote) : Prop :=
  match v_kind x with
  | KSkipFb => 0 < v_slot x /\ cast o (v_slot x) KFinal (v_signer x) = false /\ cast_any_notar o (v_slot x) (v_signer x) = true
  | _ => rule_at W o x
  end.
(* [rule_at] without the safe-to-notar stake condition of R4 *)
Definition rule_at_no_r4 (W : world) (o : list vote) (x : vote) : Prop :=
  match v_kind x with
  | KNotarFb h => 0 < v_slot x /\ cast o (v_slot x) KFinal (v_signer x) = false /\
                  (cast o (v_slot x) KSkip (v_signer x) = true \/ cast_notar_other o (v_slot x) h (v_signer x) = true) /\
                  (exists p, w_parent W (v_slot x, h) = Some p /\ (nf_cert W o p = true \/ p = genesis))
  | _ => rule_at W o x
  end.
(* [rule_at] without R6 *)
Definition rule_at_no_r6 (W : world) (o : list vote) (x : vote) : Prop :=
  match v_kind x with
  | KNotar h => 0 < v_slot x /\ cast_initial o (v_slot x) (v_signer x) = false
  | _ => rule_at W o x
  end.
Fixpoint hist_ok_with (R : world -> list vote -> vote -> Prop) (W : world) (H : list vote) : Prop :=
  match H with
  | [] => True
  | x :: older => (correct W (v_signer x) = true -> R W older x) /\ hist_ok_with R W older
  end.
