(* Executable model of the blockstore's per-slot state machine (definitions only):
     src/consensus/blockstore/slot_block_data.rs  SlotBlockData, BlockData
     src/consensus/blockstore.rs                  BlockstoreImpl::{add_shred_from_dissemination,
                                                  add_shred_from_repair, add_own_slice, flag_leader_misbehavior}
     src/shredder.rs / validated_shreds.rs        the layout / count guards of Shredder::deshred
   Abstraction: a validated shred is (slice index, last flag, slice root id, shred index, data/coding tag,
   payload size); the slice root id stands for the signed Merkle root (C12/C15 bind the payload to it).
   What >= 32 consistent shreds of a root decode to (Reed-Solomon + Merkle re-check + payload parsing,
   C11's subject) is supplied per case as the [content] table: root id -> decoded slice (parent,
   whether the transaction bytes decode) or a decoding error.  A block hash is represented by the list
   of its slice root ids (the double-Merkle root is a function of it, C15).

   MODELLED_FUNCTIONS: SlotBlockData::{add_shred_from_dissemination,add_shred_from_repair,add_own_slice,
     mark_leader_misbehaved} BlockData::{add_shred,mark_last_slice,add_own_slice,try_reconstruct_slice,
     try_reconstruct_block} BlockstoreImpl::{add_shred_from_dissemination,add_shred_from_repair,
     add_own_slice,flag_leader_misbehavior,disseminated_block_hash,get_block,get_last_slice_index,
     get_slice_root,get_shred} Shredder::deshred (guards) ValidatedShreds::try_new *)
From Coq Require Import List NArith Bool.
From AG Require Import Gen.Params Model.Pool.
Import ListNotations.
Open Scope N_scope.

Record bshred := mkBS { b_slice : N; b_last : bool; b_root : N; b_index : N; b_is_data : bool; b_size : N }.
Definition bshred_eqb (a b : bshred) : bool :=
  (b_slice a =? b_slice b) && Bool.eqb (b_last a) (b_last b) && (b_root a =? b_root b)
  && (b_index a =? b_index b) && Bool.eqb (b_is_data a) (b_is_data b) && (b_size a =? b_size b).

(* decoded content of a slice root *)
Inductive deco := DecOk (parent : option blockid) (txs_ok : bool) | DecErr.
Definition content := list (N * deco).
Definition content_of (ct : content) (root : N) : deco := match alookup root ct with Some d => d | None => DecErr end.

Record rslice := mkRS { rs_root : N; rs_parent : option blockid; rs_txs_ok : bool }.
Definition blockhash := list N.       (* slice roots in slice order *)
Fixpoint listN_eqb (a b : list N) : bool :=
  match a, b with [], [] => true | x :: a', y :: b' => (x =? y) && listN_eqb a' b' | _, _ => false end.
Record bdata := mkBD {
  bd_completed : option (blockhash * blockid);            (* hash, parent *)
  bd_shreds : list (N * list (N * bshred));               (* slice -> (shred index -> shred) *)
  bd_slices : list (N * rslice);
  bd_last : option N;
  bd_cache : list (N * (bool * N))                        (* slice -> commitment (last flag, root) *)
}.
Definition bd_empty := mkBD None [] [] None [].

Inductive add_err := EDuplicate | EEquivocation | EInvalidShred.
Inductive bevent := BFirstShred | BBlock (h : blockhash) (parent : blockid) | BInvalidBlock.

Definition commitment_of (s : bshred) : bool * N := (b_last s, b_root s).
Definition commit_eqb (a b : bool * N) : bool := Bool.eqb (fst a) (fst b) && (snd a =? snd b).

(* ---- Shredder::deshred as far as the blockstore is concerned ---- *)
Inductive deshred_res := DNotEnough | DInvalidLayout | DError | DOk (r : rslice).
Definition slice_layout_ok (shs : list (N * bshred)) : bool :=
  match shs with
  | [] => false
  | (_, s0) :: _ =>
    negb (b_size s0 =? 0) && (b_size s0 mod 2 =? 0)
    && forallb (fun is => (b_size (snd is) =? b_size s0)
                          && Bool.eqb (fst is <? DATA_SHREDS) (b_is_data (snd is))) shs
  end.
(* the array is scanned in index order: "any shred" is the one with the lowest index *)
Fixpoint insert_by_index (x : N * bshred) (l : list (N * bshred)) : list (N * bshred) :=
  match l with [] => [x] | y :: t => if fst y <? fst x then y :: insert_by_index x t else x :: l end.
Definition by_index (l : list (N * bshred)) : list (N * bshred) := fold_right insert_by_index [] l.
Definition deshred (ct : content) (shs : list (N * bshred)) : deshred_res :=
  let shs := by_index shs in
  match shs with
  | [] => DNotEnough
  | (_, s0) :: _ =>
    if negb (slice_layout_ok shs) then DInvalidLayout
    else if N.of_nat (length shs) <? DATA_SHREDS then DNotEnough
    else match content_of ct (b_root s0) with
         | DecOk p ok => DOk (mkRS (b_root s0) p ok)
         | DecErr => DError
         end
  end.
(* fill_missing_shreds: all TOTAL_SHREDS positions hold the leader's shred afterwards *)
Definition canonical_shreds (s0 : bshred) : list (N * bshred) :=
  map (fun i => (i, mkBS (b_slice s0) (b_last s0) (b_root s0) i (i <? DATA_SHREDS) (b_size s0)))
      (seqN 0 (N.to_nat TOTAL_SHREDS)).
Definition fill_missing (shs : list (N * bshred)) : list (N * bshred) :=
  match by_index shs with
  | [] => []
  | (_, s0) :: _ => map (fun ic => match alookup (fst ic) shs with Some s => (fst ic, s) | None => ic end) (canonical_shreds s0)
  end.

Inductive rec_slice := RSNoAction | RSError | RSComplete.
Inductive rec_block := RBNoAction | RBError | RBComplete (h : blockhash) (parent : blockid) | RBPanic.

Definition bd_set_shreds (d : bdata) (x : list (N * list (N * bshred))) := mkBD (bd_completed d) x (bd_slices d) (bd_last d) (bd_cache d).

Definition try_reconstruct_slice (ct : content) (d : bdata) (idx : N) : bdata * rec_slice :=
  match bd_completed d with
  | Some _ => (d, RSNoAction)
  | None =>
    match alookup idx (bd_slices d) with
    | Some _ => (d, RSNoAction)
    | None =>
      let shs := aget [] idx (bd_shreds d) in
      match deshred ct shs with
      | DNotEnough => (d, RSNoAction)
      | DInvalidLayout | DError => (d, RSError)
      | DOk r =>
        (* missing shreds were regenerated in place before the parent check *)
        let d1 := bd_set_shreds d (ainsert idx (fill_missing shs) (bd_shreds d)) in
        match rs_parent r with
        | None => if idx =? 0 then (d1, RSError)
                  else (mkBD (bd_completed d1) (bd_shreds d1) (ainsert idx r (bd_slices d1)) (bd_last d1) (bd_cache d1), RSComplete)
        | Some _ => (mkBD (bd_completed d1) (bd_shreds d1) (ainsert idx r (bd_slices d1)) (bd_last d1) (bd_cache d1), RSComplete)
        end
      end
    end
  end.

Fixpoint slice_insert_sorted (x : N * rslice) (l : list (N * rslice)) : list (N * rslice) :=
  match l with [] => [x] | y :: t => if fst y <? fst x then y :: slice_insert_sorted x t else x :: l end.
Definition slices_sorted (l : list (N * rslice)) : list (N * rslice) := fold_right slice_insert_sorted [] l.

(* walk the slices in index order: parent handover (at most one switch, not to the same value) and
   transaction decoding.  None = Error *)
Fixpoint walk_slices (l : list (N * rslice)) (parent : blockid) (switched : bool) : option blockid :=
  match l with
  | [] => Some parent
  | (idx, r) :: t =>
    let step : option (blockid * bool) :=
      if idx =? 0 then Some (parent, switched)
      else match rs_parent r with
           | None => Some (parent, switched)
           | Some np => if bid_eqb np parent then None
                        else if switched then None else Some (np, true)
           end in
    match step with
    | None => None
    | Some (p', sw') => if rs_txs_ok r then walk_slices t p' sw' else None
    end
  end.

(* [check_parent_slot]: current tree ("fix: reject blocks whose parent is not in an earlier slot") *)
Definition try_reconstruct_block (check_parent_slot : bool) (slot : N) (d : bdata) : bdata * rec_block :=
  match bd_completed d with
  | Some _ => (d, RBNoAction)
  | None =>
    match bd_last d with
    | None => (d, RBNoAction)
    | Some last =>
      if negb (N.of_nat (length (bd_slices d)) =? last + 1) then (d, RBNoAction)
      else
        let sl := slices_sorted (bd_slices d) in
        let h := map (fun x => rs_root (snd x)) sl in
        match alookup 0 (bd_slices d) with
        | None => (d, RBPanic)                        (* expect("all slices are present, including the first") *)
        | Some first =>
          match rs_parent first with
          | None => (d, RBPanic)                      (* expect("first slice contains a parent") *)
          | Some p0 =>
            match walk_slices sl p0 false with
            | None => (d, RBError)
            | Some parent =>
              if check_parent_slot && negb (fst parent <? slot) then (d, RBError)
              else (mkBD (Some (h, parent)) (bd_shreds d)
                         (filter (fun x => negb (fst x <=? last)) (bd_slices d)) (bd_last d) (bd_cache d),
                    RBComplete h parent)
            end
          end
        end
    end
  end.

Definition mark_last_slice (d : bdata) (idx : N) : bdata :=
  mkBD (bd_completed d) (filter (fun x => fst x <=? idx) (bd_shreds d))
       (filter (fun x => fst x <=? idx) (bd_slices d)) (Some idx) (bd_cache d).

Inductive add_res := AOk (e : option bevent) | AErr (e : add_err) | APanic.

(* BlockData::add_shred *)
Definition bd_add_shred (chk : bool) (ct : content) (slot : N) (d : bdata) (s : bshred) : bdata * add_res :=
  let idx := b_slice s in
  let cache_step : option bdata :=
    match alookup idx (bd_cache d) with
    | Some c => if commit_eqb c (commitment_of s) then Some d else None
    | None => Some (mkBD (bd_completed d) (bd_shreds d) (bd_slices d) (bd_last d) (ainsert idx (commitment_of s) (bd_cache d)))
    end in
  match cache_step with
  | None => (d, AErr EEquivocation)
  | Some d1 =>
    let last_step : option bdata :=
      match bd_last d1 with
      | None => if b_last s then
                  (* current tree ("fix: report slices beyond a later-declared last slice as equivocation") *)
                  if existsb (fun x => idx <? fst x) (bd_shreds d1) then None else Some (mark_last_slice d1 idx)
                else Some d1
      | Some l => if ((idx <? l) && negb (b_last s)) || ((idx =? l) && b_last s) then Some d1 else None
      end in
    match last_step with
    | None => (d1, AErr EEquivocation)
    | Some d2 =>
      let is_first := match bd_shreds d2 with [] => true | _ => false end in
      let shs := aget [] idx (bd_shreds d2) in
      match alookup (b_index s) shs with
      | Some _ =>
        (* the (empty) slice entry was created by entry().or_insert before the duplicate test *)
        (match alookup idx (bd_shreds d2) with Some _ => d2 | None => bd_set_shreds d2 (ainsert idx [] (bd_shreds d2)) end,
         AErr EDuplicate)
      | None =>
        let d3 := bd_set_shreds d2 (ainsert idx (shs ++ [(b_index s, s)]) (bd_shreds d2)) in
        if is_first then (d3, AOk (Some BFirstShred))
        else
          let '(d4, r) := try_reconstruct_slice ct d3 idx in
          match r with
          | RSNoAction => (d4, AOk None)
          | RSError => (d4, AErr EInvalidShred)
          | RSComplete =>
            let '(d5, rb) := try_reconstruct_block chk slot d4 in
            match rb with
            | RBNoAction => (d5, AOk None)
            | RBError => (d5, AErr EInvalidShred)
            | RBComplete h p => (d5, AOk (Some (BBlock h p)))
            | RBPanic => (d5, APanic)
            end
          end
      end
    end
  end.

(* ---- SlotBlockData + the event / misbehaviour glue of BlockstoreImpl, for one slot ---- *)
Record slotdata := mkSD { sd_dissem : bdata; sd_repaired : list (N * bdata); sd_misbehaved : bool; sd_panicked : bool }.
Definition sd_empty := mkSD bd_empty [] false false.

Inductive bs_op :=
| BDissem (s : bshred)
| BRepair (key : N) (expected : blockhash) (s : bshred)    (* expected: the slice roots the requested block hash commits to *)
| BOwnSlice (idx : N) (last : bool) (root : N) (size : N).

Inductive bs_ret := BROk (info : option (blockhash * blockid)) | BRErr (e : add_err) | BRPanic.

Definition flag_misbehaviour (sd : slotdata) : slotdata * list bevent :=
  if sd_misbehaved sd then (sd, [])
  else (mkSD (sd_dissem sd) (sd_repaired sd) true (sd_panicked sd), [BInvalidBlock]).

Definition ret_of_event (e : option bevent) : bs_ret :=
  match e with Some (BBlock h p) => BROk (Some (h, p)) | _ => BROk None end.

(* [tagchk]: current tree ("fix: do not blame the leader for a shred whose type contradicts its index"): a shred
   whose unsigned data / coding tag contradicts its index is refused up front, without flagging the leader *)
Definition shred_tag_ok (s : bshred) : bool := Bool.eqb (b_index s <? DATA_SHREDS) (b_is_data s).
Definition bs_step_gen (tagchk : bool) (chk : bool) (ct : content) (slot : N) (sd : slotdata) (op : bs_op) : slotdata * bs_ret * list bevent :=
  if sd_panicked sd then (sd, BRPanic, [])
  else if tagchk && match op with BDissem s | BRepair _ _ s => negb (shred_tag_ok s) | BOwnSlice _ _ _ _ => false end
  then (sd, BRErr EInvalidShred, [])
  else
    match op with
    | BDissem s =>
      if sd_misbehaved sd then
        (* add_shred_from_dissemination returns InvalidShred, and the caller flags (no-op, already flagged) *)
        (sd, BRErr EInvalidShred, [])
      else
        let '(d, r) := bd_add_shred chk ct slot (sd_dissem sd) s in
        let sd1 := mkSD d (sd_repaired sd) (sd_misbehaved sd) (sd_panicked sd) in
        match r with
        | AOk e => (sd1, ret_of_event e, match e with Some x => [x] | None => [] end)
        | AErr EDuplicate => (sd1, BRErr EDuplicate, [])
        | AErr e => let '(sd2, evs) := flag_misbehaviour sd1 in (sd2, BRErr e, evs)
        | APanic => (mkSD d (sd_repaired sd) (sd_misbehaved sd) true, BRPanic, [])
        end
    | BRepair key expected s =>
      let d0 := aget bd_empty key (sd_repaired sd) in
      let '(d, r) := bd_add_shred chk ct slot d0 s in
      (* current tree ("fix: discard a repaired block that does not hash to the requested identifier") *)
      let mismatch := match r with
                      | AOk (Some (BBlock h _)) => negb (listN_eqb h expected)
                      | _ => false end in
      if mismatch then
        (* dropped without an error: nobody is blamed ("fix: do not blame the leader for a repaired block that
           misses the requested hash") *)
        (mkSD (sd_dissem sd) (filter (fun kv => negb (fst kv =? key)) (sd_repaired sd)) (sd_misbehaved sd) (sd_panicked sd), BROk None, [])
      else
      let sd1 := mkSD (sd_dissem sd) (ainsert key d (sd_repaired sd)) (sd_misbehaved sd) (sd_panicked sd) in
      match r with
      | AOk e => (sd1, ret_of_event e, match e with Some x => [x] | None => [] end)
      | AErr EDuplicate => (sd1, BRErr EDuplicate, [])
      | AErr e => let '(sd2, evs) := flag_misbehaviour sd1 in (sd2, BRErr e, evs)
      | APanic => (mkSD (sd_dissem sd) (ainsert key d (sd_repaired sd)) (sd_misbehaved sd) true, BRPanic, [])
      end
    | BOwnSlice idx last root size =>
      (* the leader's fast path: all shreds + decoded payload at once, no deshredding *)
      let d := sd_dissem sd in
      match bd_last d with
      | Some _ => (mkSD d (sd_repaired sd) (sd_misbehaved sd) true, BRPanic, [])
      | None =>
        let s0 := mkBS idx last root 0 true size in
        let is_first := match bd_shreds d with [] => true | _ => false end in
        let d1 := mkBD (bd_completed d) (bd_shreds d) (bd_slices d) (bd_last d) (ainsert idx (last, root) (bd_cache d)) in
        let d2 := if last then mark_last_slice d1 idx else d1 in
        match content_of ct root with
        | DecErr => (mkSD d (sd_repaired sd) (sd_misbehaved sd) true, BRPanic, [])
        | DecOk p ok =>
          let d3 := mkBD (bd_completed d2) (ainsert idx (canonical_shreds s0) (bd_shreds d2))
                         (ainsert idx (mkRS root p ok) (bd_slices d2)) (bd_last d2) (bd_cache d2) in
          let '(d4, rb) := try_reconstruct_block chk slot d3 in
          let sd1 := mkSD d4 (sd_repaired sd) (sd_misbehaved sd) (sd_panicked sd) in
          let first_ev := if is_first then [BFirstShred] else [] in
          match rb with
          | RBNoAction => (sd1, BROk None, first_ev)
          | RBComplete h pr => (sd1, BROk (Some (h, pr)), first_ev ++ [BBlock h pr])
          | RBError | RBPanic => (mkSD d4 (sd_repaired sd) (sd_misbehaved sd) true, BRPanic, first_ev)
          end
        end
      end
    end.

Definition bs_step := bs_step_gen true.

(* observable queries *)
Record bs_obs := mkBObs {
  bo_dissem_hash : option blockhash;
  bo_stored : list (N * N)            (* (slice, number of stored shreds) of the disseminated block, ascending *)
}.
Fixpoint pair_insert_sorted (x : N * N) (l : list (N * N)) : list (N * N) :=
  match l with [] => [x] | y :: t => if fst y <? fst x then y :: pair_insert_sorted x t else x :: l end.
Definition bs_observe (sd : slotdata) : bs_obs :=
  mkBObs (match bd_completed (sd_dissem sd) with Some (h, _) => Some h | None => None end)
         (fold_right pair_insert_sorted [] (map (fun x => (fst x, N.of_nat (length (snd x)))) (bd_shreds (sd_dissem sd)))).

(* specification vocabulary (not run by the oracle): the tag test of the shred an operation carries through the
   guard of [bs_step_gen true]; the leader's own slices carry none *)
Definition op_tag_ok (op : bs_op) : bool :=
  match op with BDissem s | BRepair _ _ s => shred_tag_ok s | BOwnSlice _ _ _ _ => true end.
