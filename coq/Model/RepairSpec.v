(* Specification vocabulary for C14 (definitions only; nothing here is run by the oracle):
   - what it means for an answer of the repair RESPONDER to be consistent with the block it holds,
   - the honest responder's correct response to a request about an honest block,
   - the SOUNDNESS premise on response streams (a Merkle proof boolean is true only for the true root at the
     true position - C15's theorem for the real tree; a validly signed shred with the proven root, flag and
     indices is the leader's shred - Merkle binding), as a decidable predicate,
   - the finite FAIRNESS premise: a round of responses covers every request outstanding at its start. *)
From Coq Require Import List NArith Bool.
From AG Require Import Gen.Params Model.Pool Model.Blockstore Model.BlockstoreSpec Model.Repair.
Import ListNotations.
Open Scope N_scope.

(* ---------- responder ---------- *)
(* every slot state reachable by any sequence of blockstore operations (dissemination, repair, own slices) *)
Definition bs_run_ops (chk : bool) (ct : content) (slot : N) (ops : list bs_op) : slotdata :=
  fold_left (fun sd op => fst (fst (bs_step chk ct slot sd op))) ops sd_empty.

(* the i-th slice root a block hash commits to *)
Definition root_at (h : blockhash) (i : N) : option N := nth_error h (N.to_nat i).

(* [d] holds a completed block with hash [h] (the slice roots in order) whose last slice is [l] *)
Definition held_block (d : bdata) (h : blockhash) (l : N) : Prop :=
  exists p, bd_completed d = Some (h, p) /\ bd_last d = Some l /\ N.of_nat (length h) = l + 1.

(* the answer [a] to request [r] is consistent with the block data the responder holds for the key *)
Definition answer_ok (sd : slotdata) (key_hash : N -> blockhash) (r : rreq) (a : ranswer) : Prop :=
  match a, r with
  | ANack, _ => True
  | ALast l root, RLast b =>
    exists d h, responder_data sd b (key_hash b) = Some d /\ held_block d h l /\ root_at h l = Some root
  | ARoot root, RRoot b s =>
    exists d h l, responder_data sd b (key_hash b) = Some d /\ held_block d h l /\ s <= l /\ root_at h s = Some root
  | AShred sh, RShred b s i =>
    exists d shs, responder_data sd b (key_hash b) = Some d /\
      alookup s (bd_shreds d) = Some shs /\ alookup i shs = Some sh /\
      b_slice sh = s /\ b_index sh = i /\
      alookup s (bd_cache d) = Some (commitment_of sh) /\      (* the slice's committed (last flag, root) *)
      (forall h l, held_block d h l -> s <= l /\ root_at h s = Some (b_root sh))
  | _, _ => False
  end.

(* every repair operation files the shred under the hash its key stands for *)
Definition ops_keyed (key_hash : N -> blockhash) (ops : list bs_op) : bool :=
  forallb (fun op => match op with BRepair key e _ => listN_eqb e (key_hash key) | _ => true end) ops.

(* ---------- requester: honest block, correct responses, sound streams, fair rounds ---------- *)
Definition correct_resp (hb : hblock) (r : rreq) : rresp :=
  match r with
  | RLast _ => PLast r (hb_len hb - 1) (hb_root hb (hb_len hb - 1)) true
  | RRoot _ s => PRoot r (hb_root hb s) true
  | RShred _ s i => PShred r true (hshred hb s i) true
  end.

(* what a responder puts on the wire for its answer (the proof / signature of a positive answer verifies) *)
Definition resp_of_answer (r : rreq) (a : ranswer) : rresp :=
  match a with
  | ANack => PNack r
  | ALast l root => PLast r l root true
  | ARoot root => PRoot r root true
  | AShred s => PShred r true s true
  end.

(* SOUNDNESS of the check results carried by a response about block [k] = the honest block [hb]:
   a last-slice proof verifies only for the true last index and its root, a slice proof only for the true
   root of that slice, and a validly signed shred with the requested indices, the slice's root, the slice's
   last flag and a data / coding type consistent with its index is the leader's shred (one slice content per
   root).  Anything else is unconstrained - in particular a validly signed shred of the leader whose (unsigned)
   type was flipped in transit: the requester ignores it (current tree) and keeps the request. *)
Definition sound_resp (hb : hblock) (k : N) (p : rresp) : bool :=
  match p with
  | PNack _ => true
  | PLast (RLast b) last root ok =>
    implb ((b =? k) && ok) ((last =? hb_len hb - 1) && (root =? hb_root hb (hb_len hb - 1)))
  | PRoot (RRoot b s) root ok => implb ((b =? k) && ok) (root =? hb_root hb s)
  | PShred (RShred b s i) slot_ok sh sig_ok =>
    implb ((b =? k) && sig_ok && (b_slice sh =? s) && (b_index sh =? i)
           && (b_root sh =? hb_root hb s) && Bool.eqb (b_last sh) (hb_is_last hb s) && shred_tag_ok sh)
          (bshred_eqb sh (hshred hb s i))
  | _ => true
  end.
Definition sound_op (hb : hblock) (k : N) (o : rop) : bool :=
  match o with OResp p => sound_resp hb k p | OTimeout _ => true | OStart k' => k' =? k end.

Definition rresp_eqb (p q : rresp) : bool :=
  match p, q with
  | PNack r, PNack r' => rreq_eqb r r'
  | PLast r l x ok, PLast r' l' x' ok' => rreq_eqb r r' && (l =? l') && (x =? x') && Bool.eqb ok ok'
  | PRoot r x ok, PRoot r' x' ok' => rreq_eqb r r' && (x =? x') && Bool.eqb ok ok'
  | PShred r a s b, PShred r' a' s' b' => rreq_eqb r r' && Bool.eqb a a' && bshred_eqb s s' && Bool.eqb b b'
  | _, _ => false
  end.
Definition is_resp (p : rresp) (o : rop) : bool := match o with OResp q => rresp_eqb q p | _ => false end.

(* FAIRNESS, finitely: the round [l] contains, somewhere, the correct response to every request that is
   outstanding when the round starts (anything else may be interleaved) *)
Definition covers (hb : hblock) (rp : repair) (l : list rop) : bool :=
  forallb (fun r => existsb (is_resp (correct_resp hb r)) l) (rp_outstanding rp).

Definition run_ops (keep : bool) (ct : content) (slot : N) (expected : N -> blockhash) (rp : repair) (ops : list rop) : repair :=
  fold_left (fun rp o => fst (repair_step keep ct slot expected rp o)) ops rp.
(* every round covers the requests outstanding at its start *)
Fixpoint fair_rounds (hb : hblock) (ct : content) (slot : N) (expected : N -> blockhash) (rp : repair) (rounds : list (list rop)) : bool :=
  match rounds with
  | [] => true
  | l :: t => covers hb rp l && fair_rounds hb ct slot expected (run_ops true ct slot expected rp l) t
  end.

(* the same with an actual peer: the round contains, for every outstanding request, what the responder
   holding slot state [sd] puts on the wire for it *)
Definition peer_covers (sd : slotdata) (key_hash : N -> blockhash) (rp : repair) (l : list rop) : bool :=
  forallb (fun r => existsb (is_resp (resp_of_answer r (answer sd key_hash r))) l) (rp_outstanding rp).
Fixpoint peer_rounds (sd : slotdata) (ct : content) (slot : N) (expected : N -> blockhash) (rp : repair) (rounds : list (list rop)) : bool :=
  match rounds with
  | [] => true
  | l :: t => peer_covers sd expected rp l && peer_rounds sd ct slot expected (run_ops true ct slot expected rp l) t
  end.
Definition req_key (r : rreq) : N := match r with RLast b | RRoot b _ | RShred b _ _ => b end.

(* everything the requester sends / hands to the pool during a run, in order *)
Fixpoint run_outs (keep : bool) (ct : content) (slot : N) (expected : N -> blockhash) (rp : repair) (ops : list rop) : list rout :=
  match ops with
  | [] => []
  | o :: t => snd (repair_step keep ct slot expected rp o)
              ++ run_outs keep ct slot expected (fst (repair_step keep ct slot expected rp o)) t
  end.

(* the answer verifies against the hash the key stands for: the last-slice answer names the last leaf of the
   hash and its root, a slice-root answer the root at that position, a shred answer sits at the requested
   position and (whenever the block data is complete) carries the root the hash commits to for its slice *)
Definition answer_verifies (sd : slotdata) (key_hash : N -> blockhash) (r : rreq) (a : ranswer) : Prop :=
  match a, r with
  | ANack, _ => True
  | ALast l root, RLast b => N.of_nat (length (key_hash b)) = l + 1 /\ root_at (key_hash b) l = Some root
  | ARoot root, RRoot b s => s < N.of_nat (length (key_hash b)) /\ root_at (key_hash b) s = Some root
  | AShred sh, RShred b s i =>
    b_slice sh = s /\ b_index sh = i /\
    (forall d, responder_data sd b (key_hash b) = Some d -> bd_completed d <> None ->
               s < N.of_nat (length (key_hash b)) /\ root_at (key_hash b) s = Some (b_root sh))
  | _, _ => False
  end.
