(* Specification vocabulary for the finality tracker (C08) - definitions only, no proofs.
   Nothing here is run by the oracle; the executable tracker is Model/Pool.v (the ft_ definitions).

   - [ft_op], [ft_step], [ft_run]: operation sequences on the tracker (None = panic);
   - the history of a run is the list of operations issued so far (marks and parent links, including
     repetitions and the ones the tracker ignored); genesis (0,0) counts as notarized from the start
     (FinalityTracker::default inserts Notarized(GENESIS));
   - [FinalStar], [SkippedStar]: what the accumulated marks and links justify (relational form), and
     the same as boolean functions ([final_starb], [spec_skipped], [spec_view]);
   - [ft_consistent C H]: the consistency assumed of a history, relative to a chain
     C : slot -> option hash ("the block of slot s on the finalized chain", None = not on it). *)
From Coq Require Import List NArith Bool.
From AG Require Import Model.Pool.
Import ListNotations.
Open Scope N_scope.

(* ---------- operations and runs ---------- *)
Inductive ft_op :=
| TParent (b p : blockid)     (* add_parent(block, parent) *)
| TNotar (b : blockid)        (* mark_notarized *)
| TFast (b : blockid)         (* mark_fast_finalized *)
| TFinal (s : slot).          (* mark_finalized *)

Definition ft_step (t : ftracker) (o : ft_op) : ftres :=
  match o with
  | TParent b p => ft_add_parent t b p
  | TNotar b => ft_mark_notarized t b
  | TFast b => ft_mark_fast_finalized t b
  | TFinal s => ft_mark_finalized t s
  end.

(* None = some operation panicked; otherwise the final tracker and the event of every operation, in order *)
Fixpoint ft_run (t : ftracker) (ops : list ft_op) : option (ftracker * list fin_event) :=
  match ops with
  | [] => Some (t, [])
  | o :: rest =>
    match ft_step t o with
    | None => None
    | Some (t1, ev) =>
      match ft_run t1 rest with
      | None => None
      | Some (t2, evs) => Some (t2, ev :: evs)
      end
    end
  end.

Definition hist := list ft_op.

(* ---------- accumulated marks and links (relational) ---------- *)
Definition Notar (H : hist) (b : blockid) : Prop := b = (0, 0) \/ In (TNotar b) H.
Definition Fast (H : hist) (b : blockid) : Prop := In (TFast b) H.
Definition Fin (H : hist) (s : slot) : Prop := In (TFinal s) H.
Definition Link (H : hist) (c p : blockid) : Prop := In (TParent c p) H.

(* directly finalized: fast-finalization mark, or finalization mark + notarization mark *)
Definition Direct (H : hist) (b : blockid) : Prop := Fast H b \/ (Fin H (fst b) /\ Notar H b).

(* finalized = directly finalized or an ancestor, through KNOWN parent links, of a directly finalized block *)
Inductive FinalStar (H : hist) : blockid -> Prop :=
| FS_direct : forall b, Direct H b -> FinalStar H b
| FS_anc : forall c p, FinalStar H c -> Link H c p -> FinalStar H p.

(* implicitly skipped = strictly between a finalized block and its known parent *)
Definition SkippedStar (H : hist) (s : slot) : Prop :=
  exists c p, FinalStar H c /\ Link H c p /\ fst p < s < fst c.

Definition Decided (H : hist) (s : slot) : Prop := (exists h, FinalStar H (s, h)) \/ SkippedStar H s.

(* x is b or an ancestor of b through known links *)
Inductive Anc (H : hist) : blockid -> blockid -> Prop :=
| Anc_refl : forall a, Anc H a a
| Anc_step : forall a p x, Link H a p -> Anc H p x -> Anc H a x.

(* ---------- the same as boolean functions ---------- *)
Definition notarb (H : hist) (b : blockid) : bool :=
  bid_eqb b (0, 0) || existsb (fun o => match o with TNotar b' => bid_eqb b b' | _ => false end) H.
Definition fastb (H : hist) (b : blockid) : bool :=
  existsb (fun o => match o with TFast b' => bid_eqb b b' | _ => false end) H.
Definition finb (H : hist) (s : slot) : bool :=
  existsb (fun o => match o with TFinal s' => s =? s' | _ => false end) H.
Definition links_of (H : hist) : list (blockid * blockid) :=
  flat_map (fun o => match o with TParent c p => [(c, p)] | _ => [] end) H.
Definition directb (H : hist) (b : blockid) : bool := fastb H b || (finb H (fst b) && notarb H b).

(* walk upwards through links whose child has a larger slot; [fuel] bounds the length of the path *)
Fixpoint fstar_fuel (fuel : nat) (H : hist) (b : blockid) : bool :=
  directb H b ||
  match fuel with
  | O => false
  | S f => existsb (fun l => bid_eqb (snd l) b && (fst b <? fst (fst l)) && fstar_fuel f H (fst l)) (links_of H)
  end.
Definition max_link_slot (H : hist) : slot := fold_right N.max 0 (map (fun l => fst (fst l)) (links_of H)).
Definition final_starb (H : hist) (b : blockid) : bool :=
  fstar_fuel (N.to_nat (max_link_slot H - fst b)) H b.

Definition spec_skipped (H : hist) (s : slot) : bool :=
  existsb (fun l => final_starb H (fst l) && (fst (snd l) <? s) && (s <? fst (fst l))) (links_of H).

(* every hash mentioned for slot s by a mark or a link (and the genesis hash for slot 0) *)
Definition cand_hashes (H : hist) (s : slot) : list hash :=
  (if s =? 0 then [0] else []) ++
  flat_map (fun o =>
    let of_b (b : blockid) := if fst b =? s then [snd b] else [] in
    match o with
    | TParent c p => of_b c ++ of_b p
    | TNotar b | TFast b => of_b b
    | TFinal _ => []
    end) H.
Definition spec_final (H : hist) (s : slot) : option hash := find (fun h => final_starb H (s, h)) (cand_hashes H s).
Definition spec_notar (H : hist) (s : slot) : option hash := find (fun h => notarb H (s, h)) (cand_hashes H s).

(* what a node may report about slot s *)
Inductive fview := VFinal (h : hash) | VSkipped | VFinalPendingNotar | VNotarized (h : hash) | VNothing.
Definition view_of (o : option fstatus) : fview :=
  match o with
  | Some (FFinalized h) | Some (FImplFinalized h) => VFinal h
  | Some FImplSkipped => VSkipped
  | Some FFinalPendingNotar => VFinalPendingNotar
  | Some (FNotarized h) => VNotarized h
  | None => VNothing
  end.
Definition spec_view (H : hist) (s : slot) : fview :=
  match spec_final H s with
  | Some h => VFinal h
  | None =>
    if spec_skipped H s then VSkipped
    else if finb H s then VFinalPendingNotar
    else match spec_notar H s with Some h => VNotarized h | None => VNothing end
  end.
Definition view_decided (v : fview) : bool := match v with VFinal _ | VSkipped => true | _ => false end.

Definition ft_view (t : ftracker) (s : slot) : fview := view_of (alookup s (ft_status t)).

(* ---------- consistency of a history with a chain ---------- *)
Definition is_none {A} (o : option A) : bool := match o with None => true | Some _ => false end.
(* b is the chain's block of its slot *)
Definition chain_has (C : slot -> option hash) (b : blockid) : bool :=
  match C (fst b) with Some h => h =? snd b | None => false end.
(* b does not contradict the chain *)
Definition chain_agrees (C : slot -> option hash) (b : blockid) : bool :=
  match C (fst b) with Some h => h =? snd b | None => true end.

Definition op_consistent (C : slot -> option hash) (H : hist) (o : ft_op) : bool :=
  match o with
  | TFast b => chain_has C b                       (* fast-finalized blocks are on the chain *)
  | TNotar b =>                                    (* at most one notarized block per slot, the chain's if any *)
    chain_agrees C b
    && (negb (fst b =? 0) || (snd b =? 0))
    && forallb (fun o' => match o' with TNotar b' => negb (fst b =? fst b') || (snd b =? snd b') | _ => true end) H
  | TFinal s => negb (is_none (C s))               (* a finalized slot is on the chain *)
  | TParent c p =>                                 (* parent is older, unique, and the chain is closed under parents *)
    (fst p <? fst c)
    && forallb (fun o' => match o' with TParent c' p' => negb (bid_eqb c c') || bid_eqb p p' | _ => true end) H
    && (negb (chain_has C c)
        || (chain_has C p && forallb (fun t => is_none (C t)) (seqN (fst p + 1) (N.to_nat (fst c - fst p - 1)))))
  end.
Definition ft_consistent (C : slot -> option hash) (H : hist) : bool :=
  chain_agrees C (0, 0) && forallb (op_consistent C H) H.

(* ---------- events of a run ---------- *)
Definition ev_blocks (ev : fin_event) : list blockid :=
  (match fe_final ev with Some b => [b] | None => [] end) ++ fe_impl_final ev.
Definition all_final_events (evs : list fin_event) : list blockid := flat_map ev_blocks evs.
Definition all_skip_events (evs : list fin_event) : list slot := flat_map fe_impl_skipped evs.

(* ---------- mark_notarized WITHOUT writing a decided old status back (the defect recorded for the pinned
   tree, repaired by "fix: keep decided finalization status", b32759c: "the new status is written first
   and not restored").  Reconstructed from that description, not compared with any code; kept only to
   show that the write-back is necessary.  The oracle never runs it. ---------- *)
Definition ft_mark_notarized_norestore (t : ftracker) (b : blockid) : ftres :=
  if fst b <? ft_first t then Some (t, fe_empty)
  else
    let old := alookup (fst b) (ft_status t) in
    let t1 := ft_set_status t (fst b) (FNotarized (snd b)) in
    match old with
    | None => Some (t1, fe_empty)
    | Some (FNotarized h) | Some (FFinalized h) | Some (FImplFinalized h) =>
      if h =? snd b then Some (t1, fe_empty) else None
    | Some FImplSkipped => Some (t1, fe_empty)
    | Some FFinalPendingNotar =>
      ft_handle_finalized_block (ft_set_status t1 (fst b) (FFinalized (snd b))) b fe_empty
    end.
