(* Specification vocabulary for the finality tracker (C08) - definitions only, no proofs.
   Nothing here is run by the oracle; the executable tracker is Model/Pool.v (the ft_ definitions).

   - [ft_op], [ft_step], [ft_run]: operation sequences on the tracker (None = panic);
   - the history of a run is the list of operations issued so far (marks and parent links, including
     repetitions and the ones the tracker ignored); genesis (0,0) counts as notarized from the start
     (FinalityTracker::default inserts Notarized(GENESIS));
   - [FinalStar], [SkippedStar]: what the accumulated marks and links justify (relational form), and
     the same as boolean functions ([final_starb], [spec_skipped], [spec_view]);
   - [ft_consistent C H]: the consistency assumed of a history, relative to a chain
     C : slot -> option hash ("the block of slot s on the finalized chain", None = not on it). *)
From Coq Require Import List NArith Bool.
From AG Require Import Model.Pool.
Import ListNotations.
Open Scope N_scope.

(* ---------- operations and runs ---------- *)
Inductive ft_op :=
| TParent (b p : blockid)     (* add_parent(block, parent) *)
| TNotar (b : blockid)        (* mark_notarized *)
| TFast (b : blockid)         (* mark_fast_finalized *)
| TFinal (s : slot).          (* mark_finalized *)

Definition ft_step (t : ftracker) (o : ft_op) : ftres :=
  match o with
  | TParent b p => ft_add_parent t b p
  | TNotar b => ft_mark_notarized t b
  | TFast b => ft_mark_fast_finalized t b
  | TFinal s => ft_mark_finalized t s
  end.

(* None = some operation panicked; otherwise the final tracker and the event of every operation, in order *)
Fixpoint ft_run (t : ftracker) (ops : list ft_op) : option (ftracker * list fin_event) :=
  match ops with
  | [] => Some (t, [])
  | o :: rest =>
    match ft_step t o with
    | None => None
    | Some (t1, ev) =>
      match ft_run t1 rest with
      | None => None
      | Some (t2, evs) => Some (t2, ev :: evs)
      end
    end
  end.

Definition hist := list ft_op.

(* ---------- accumulated marks and links (relational) ---------- *)
Definition Notar (H : hist) (b : blockid) : Prop := b = (0, 0) \/ In (TNotar b) H.
Definition Fast (H : hist) (b : blockid) : Prop := In (TFast b) H.
Definition Fin (H : hist) (s : slot) : Prop := In (TFinal s) H.
Definition Link (H : hist) (c p : blockid) : Prop := In (TParent c p) H.

(* directly finalized: fast-finalization mark, or finalization mark + notarization mark *)
Definition Direct (H : hist) (b : blockid) : Prop := Fast H b \/ (Fin H (fst b) /\ Notar H b).

(* finalized = directly finalized or an ancestor, through KNOWN parent links, of a directly finalized block *)
Inductive FinalStar (H : hist) : blockid -> Prop :=
| FS_direct : forall b, Direct H b -> FinalStar H b
| FS_anc : forall c p, FinalStar H c -> Link H c p -> FinalStar H p.

(* implicitly skipped = strictly between a finalized block and its known parent *)
Definition SkippedStar (H : hist) (s : slot) : Prop :=
  exists c p, FinalStar H c /\ Link H c p /\ fst p < s < fst c.

Definition Decided (H : hist) (s : slot) : Prop := (exists h, FinalStar H (s, h)) \/ SkippedStar H s.

(* x is b or an ancestor of b through known links *)
Inductive Anc (H : hist) : blockid -> blockid -> Prop :=
| Anc_refl : forall a, Anc H a a
| Anc_step : forall a p x, Link H a p -> Anc H p x -> Anc H a x.

(* ---------- the same as boolean functions ---------- *)
Definition notarb (H : hist) (b : blockid) : bool :=
  bid_eqb b (0, 0) || existsb (fun o => match o with TNotar b' => bid_eqb b b' | _ => false end) H.
Definition fastb (H : hist) (b : blockid) : bool :=
  existsb (fun o => match o with TFast b' => bid_eqb b b' | _ => false end) H.
Definition finb (H : hist) (s : slot) : bool :=
  existsb (fun o => match o with TFinal s' => s =? s' | _ => false end) H.
Definition links_of (H : hist) : list (blockid * blockid) :=
  flat_map (fun o => match o with TParent c p => [(c, p)] | _ => [] end) H.
Definition directb (H : hist) (b : blockid) : bool := fastb H b || (finb H (fst b) && notarb H b).

(* walk upwards through links whose child has a larger slot; [fuel] bounds the length of the path *)
Fixpoint fstar_fuel (fuel : nat) (H : hist) (b : blockid) : bool :=
  directb H b ||
  match fuel with
  | O => false
  | S f => existsb (fun l => bid_eqb (snd l) b && (fst b <? fst (fst l)) && fstar_fuel f H (fst l)) (links_of H)
  end.
Definition max_link_slot (H : hist) : slot := fold_right N.max 0 (map (fun l => fst (fst l)) (links_of H)).
Definition final_starb (H : hist) (b : blockid) : bool :=
  fstar_fuel (N.to_nat (max_link_slot H - fst b)) H b.

Definition spec_skipped (H : hist) (s : slot) : bool :=
  existsb (fun l => final_starb H (fst l) && (fst (snd l) <? s) && (s <? fst (fst l))) (links_of H).

(* every hash mentioned for slot s by a mark or a link (and the genesis hash for slot 0) *)
Definition cand_hashes (H : hist) (s : slot) : list hash :=
  (if s =? 0 then [0] else []) ++
  flat_map (fun o =>
    let of_b (b : blockid) := if fst b =? s then [snd b] else [] in
    match o with
    | TParent c p => of_b c ++ of_b p
    | TNotar b | TFast b => of_b b
    | TFinal _ => []
    end) H.
Definition spec_final (H : hist) (s : slot) : option hash := find (fun h => final_starb H (s, h)) (cand_hashes H s).
Definition spec_notar (H : hist) (s : slot) : option hash := find (fun h => notarb H (s, h)) (cand_hashes H s).

(* what a node may report about slot s *)
Inductive fview := VFinal (h : hash) | VSkipped | VFinalPendingNotar | VNotarized (h : hash) | VNothing.
Definition view_of (o : option fstatus) : fview :=
  match o with
  | Some (FFinalized h) | Some (FImplFinalized h) => VFinal h
  | Some FImplSkipped => VSkipped
  | Some FFinalPendingNotar => VFinalPendingNotar
  | Some (FNotarized h) => VNotarized h
  | None => VNothing
  end.
Definition spec_view (H : hist) (s : slot) : fview :=
  match spec_final H s with
  | Some h => VFinal h
  | None =>
    if spec_skipped H s then VSkipped
    else if finb H s then VFinalPendingNotar
    else match spec_notar H s with Some h => VNotarized h | None => VNothing end
  end.
Definition view_decided (v : fview) : bool := match v with VFinal _ | VSkipped => true | _ => false end.

Definition ft_view (t : ftracker) (s : slot) : fview := view_of (alookup s (ft_status t)).

(* ---------- consistency of a history with a chain ---------- *)
Definition is_none {A} (o : option A) : bool := match o with None => true | Some _ => false end.
(* b is the chain's block of its slot *)
Definition chain_has (C : slot -> option hash) (b : blockid) : bool :=
  match C (fst b) with Some h => h =? snd b | None => false end.
(* b does not contradict the chain *)
Definition chain_agrees (C : slot -> option hash) (b : blockid) : bool :=
  match C (fst b) with Some h => h =? snd b | None => true end.

Definition op_consistent (C : slot -> option hash) (H : hist) (o : ft_op) : bool :=
  match o with
  | TFast b =>                                     (* fast-finalized blocks are on the chain ... *)
    chain_has C b
    (* ... and are the notarized block of their slot, if there is one (80 % + 60 % > 100 % + 20 %) *)
    && forallb (fun o' => match o' with TNotar b' => negb (fst b =? fst b') || (snd b =? snd b') | _ => true end) H
    && (negb (fst b =? 0) || (snd b =? 0))
  | TNotar b =>
    (* at most one notarized block per slot (60 % + 60 % > 100 % + 20 %); it need NOT be the chain's block
       of its slot (the chain may continue from a notar-fallback certified block) unless the slot is
       finalized directly: final mark + notarization mark *)
    (negb (finb H (fst b)) || chain_has C b)
    && (negb (fst b =? 0) || (snd b =? 0))
    && forallb (fun o' => match o' with TNotar b' => negb (fst b =? fst b') || (snd b =? snd b') | _ => true end) H
  | TFinal s => negb (is_none (C s))               (* a finalized slot is on the chain *)
  | TParent c p =>                                 (* parent is older, unique, and the chain is closed under parents *)
    (fst p <? fst c)
    && forallb (fun o' => match o' with TParent c' p' => negb (bid_eqb c c') || bid_eqb p p' | _ => true end) H
    && (negb (chain_has C c)
        || (chain_has C p && forallb (fun t => is_none (C t)) (seqN (fst p + 1) (N.to_nat (fst c - fst p - 1)))))
  end.
(* genesis (0,0) counts as notarized: the first conjunct is the TNotar clause for it *)
Definition ft_consistent (C : slot -> option hash) (H : hist) : bool :=
  (negb (finb H 0) || chain_has C (0, 0)) && forallb (op_consistent C H) H.

(* ---------- events of a run ---------- *)
Definition ev_blocks (ev : fin_event) : list blockid :=
  (match fe_final ev with Some b => [b] | None => [] end) ++ fe_impl_final ev.
Definition all_final_events (evs : list fin_event) : list blockid := flat_map ev_blocks evs.
Definition all_skip_events (evs : list fin_event) : list slot := flat_map fe_impl_skipped evs.

(* ---------- mark_notarized WITHOUT writing a decided old status back (the defect recorded for the pinned
   tree, repaired by "fix: keep decided finalization status", b32759c: "the new status is written first
   and not restored").  Reconstructed from that description, not compared with any code; kept only to
   show that the write-back is necessary.  The oracle never runs it. ---------- *)
Definition ft_mark_notarized_norestore (t : ftracker) (b : blockid) : ftres :=
  if fst b <? ft_first t then Some (t, fe_empty)
  else
    let old := alookup (fst b) (ft_status t) in
    let t1 := ft_set_status t (fst b) (FNotarized (snd b)) in
    match old with
    | None => Some (t1, fe_empty)
    | Some (FNotarized h) | Some (FFinalized h) | Some (FImplFinalized h) =>
      if h =? snd b then Some (t1, fe_empty) else None
    | Some FImplSkipped => Some (t1, fe_empty)
    | Some FFinalPendingNotar =>
      ft_handle_finalized_block (ft_set_status t1 (fst b) (FFinalized (snd b))) b fe_empty
    end.

(* ---------- the tracker with the two assertions of the PINNED tree ([strict] = true), removed by
   "fix: allow a notarized block other than the implicitly finalized one in a slot":
   handle_implicitly_finalized demanded that a slot whose status is Notarized(h) is implicitly finalized
   with that very h, and mark_notarized demanded the same of an ImplicitlyFinalized(h) slot.
   [strict] = false is, definition by definition, the current model of Model/Pool.v
   (Proofs/FinalityProofs.v: ft_run_gen_false).  The oracle never runs these. ---------- *)
Fixpoint ft_handle_impl_gen (strict : bool) (fuel : nat) (t : ftracker) (source : slot) (b : blockid) (ev : fin_event) : ftres :=
  match fuel with
  | O => None
  | S f =>
    if negb (fst b <? source) then None
    else if fst b <? ft_first t then Some (t, ev)
    else
      match ft_skip_between t ev (seqN (fst b + 1) (N.to_nat (source - fst b - 1))) with
      | None => None
      | Some (t1, ev1, true) => Some (t1, ev1)
      | Some (t1, ev1, false) =>
        let old := alookup (fst b) (ft_status t1) in
        let t2 := ft_set_status t1 (fst b) (FImplFinalized (snd b)) in
        let continue_ (t3 : ftracker) :=
          let ev2 := mkFE (fe_final ev1) (fe_impl_final ev1 ++ [b]) (fe_impl_skipped ev1) in
          match blookup b (ft_parents t3) with
          | Some p => ft_handle_impl_gen strict f t3 (fst b) p ev2
          | None => Some (t3, ev2)
          end in
        match old with
        | Some (FFinalized h) => if h =? snd b then Some (ft_set_status t2 (fst b) (FFinalized h), ev1) else None
        | Some (FImplFinalized h) => if h =? snd b then Some (ft_set_status t2 (fst b) (FImplFinalized h), ev1) else None
        | Some (FNotarized h) => if strict && negb (h =? snd b) then None else continue_ t2
        | Some FFinalPendingNotar => continue_ t2
        | Some FImplSkipped => None
        | None => continue_ t2
        end
      end
  end.
Definition ft_handle_finalized_block_gen (strict : bool) (t : ftracker) (b : blockid) (ev : fin_event) : ftres :=
  let ev1 := mkFE (Some b) (fe_impl_final ev) (fe_impl_skipped ev) in
  let t1 := mkFT (ft_status t) (ft_parents t) (N.max (fst b) (ft_highest t)) (ft_first t) in
  match blookup b (ft_parents t1) with
  | Some p => match ft_handle_impl_gen strict (ft_fuel t1) t1 (fst b) p ev1 with
              | Some (t2, ev2) => Some (ft_prune t2, ev2)
              | None => None
              end
  | None => Some (ft_prune t1, ev1)
  end.
Definition ft_add_parent_gen (strict : bool) (t : ftracker) (b p : blockid) : ftres :=
  if negb (fst p <? fst b) then None
  else if fst b <? ft_first t then Some (t, fe_empty)
  else match blookup b (ft_parents t) with
       | Some p' => if bid_eqb p p' then Some (t, fe_empty) else None
       | None =>
         let t1 := mkFT (ft_status t) (binsert b p (ft_parents t)) (ft_highest t) (ft_first t) in
         match alookup (fst b) (ft_status t1) with
         | Some (FFinalized h) | Some (FImplFinalized h) =>
           if h =? snd b then
             match ft_handle_impl_gen strict (ft_fuel t1) t1 (fst b) p fe_empty with
             | Some (t2, ev) => Some (ft_prune t2, ev)
             | None => None
             end
           else Some (t1, fe_empty)
         | _ => Some (t1, fe_empty)
         end
       end.
Definition ft_mark_fast_finalized_gen (strict : bool) (t : ftracker) (b : blockid) : ftres :=
  if fst b <? ft_first t then Some (t, fe_empty)
  else
    let old := alookup (fst b) (ft_status t) in
    let t1 := ft_set_status t (fst b) (FFinalized (snd b)) in
    match old with
    | Some (FFinalized h) | Some (FImplFinalized h) => if h =? snd b then Some (t1, fe_empty) else None
    | Some (FNotarized h) => if h =? snd b then ft_handle_finalized_block_gen strict t1 b fe_empty else None
    | Some FFinalPendingNotar | None => ft_handle_finalized_block_gen strict t1 b fe_empty
    | Some FImplSkipped => None
    end.
Definition ft_mark_notarized_gen (strict : bool) (t : ftracker) (b : blockid) : ftres :=
  if fst b <? ft_first t then Some (t, fe_empty)
  else
    let old := alookup (fst b) (ft_status t) in
    let t1 := ft_set_status t (fst b) (FNotarized (snd b)) in
    match old with
    | None => Some (t1, fe_empty)
    | Some (FNotarized h) => if h =? snd b then Some (t1, fe_empty) else None
    | Some (FFinalized h) => if h =? snd b then Some (ft_set_status t1 (fst b) (FFinalized h), fe_empty) else None
    | Some (FImplFinalized h) =>
      if strict && negb (h =? snd b) then None else Some (ft_set_status t1 (fst b) (FImplFinalized h), fe_empty)
    | Some FImplSkipped => Some (ft_set_status t1 (fst b) FImplSkipped, fe_empty)
    | Some FFinalPendingNotar =>
      ft_handle_finalized_block_gen strict (ft_set_status t1 (fst b) (FFinalized (snd b))) b fe_empty
    end.
Definition ft_mark_finalized_gen (strict : bool) (t : ftracker) (s : slot) : ftres :=
  if s <? ft_first t then Some (t, fe_empty)
  else
    let old := alookup s (ft_status t) in
    let t1 := ft_set_status t s FFinalPendingNotar in
    match old with
    | None => Some (t1, fe_empty)
    | Some FFinalPendingNotar => Some (t1, fe_empty)
    | Some (FFinalized h) => Some (ft_set_status t1 s (FFinalized h), fe_empty)
    | Some (FImplFinalized h) => Some (ft_set_status t1 s (FImplFinalized h), fe_empty)
    | Some (FNotarized h) => ft_handle_finalized_block_gen strict (ft_set_status t1 s (FFinalized h)) (s, h) fe_empty
    | Some FImplSkipped => None
    end.
Definition ft_step_gen (strict : bool) (t : ftracker) (o : ft_op) : ftres :=
  match o with
  | TParent b p => ft_add_parent_gen strict t b p
  | TNotar b => ft_mark_notarized_gen strict t b
  | TFast b => ft_mark_fast_finalized_gen strict t b
  | TFinal s => ft_mark_finalized_gen strict t s
  end.
Fixpoint ft_run_gen (strict : bool) (t : ftracker) (ops : list ft_op) : option (ftracker * list fin_event) :=
  match ops with
  | [] => Some (t, [])
  | o :: rest =>
    match ft_step_gen strict t o with
    | None => None
    | Some (t1, ev) =>
      match ft_run_gen strict t1 rest with
      | None => None
      | Some (t2, evs) => Some (t2, ev :: evs)
      end
    end
  end.
Definition ft_handle_impl_pinned := ft_handle_impl_gen true.
Definition ft_mark_notarized_pinned := ft_mark_notarized_gen true.
Definition ft_run_pinned := ft_run_gen true.
