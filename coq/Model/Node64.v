(* u64 arithmetic of Slot on the paths the network reaches (definitions only).
   The state-machine models use unbounded N for slots; the Rust code uses u64 with overflow checks on
   (the crate's release profile).  Slots in votes / certificates are bounded by the pool's window check,
   but a shred's slot is any u64 its leader signs, and it reaches Votor unchecked as a blockstore event.
     src/types/slot.rs  Slot::slots_in_window
        pinned tree:   (start.0 .. start.0 + SLOTS_PER_WINDOW)        overflows for the last window of the u64 range
        current tree:  (0..SLOTS_PER_WINDOW).map(|i| Slot(start + i))  ("fix: iterate the slots of the last leader
                       window without overflow", c169de0): start <= 2^64-4, so start + i <= 2^64-1
   Votor::try_skip_window iterates it.  [pinned = true] selects the pinned arithmetic.
   Every other slot computation Votor performs on an event's slot (first_slot_in_window: division then
   multiplication; prev() on a slot above the highest final certificate, hence > 0) stays inside u64 for every u64 input.

   MODELLED_FUNCTIONS: Slot::slots_in_window Votor::try_skip_window (arithmetic) *)
From Coq Require Import List NArith Bool.
From AG Require Import Gen.Params Model.Pool Model.Votor.
Import ListNotations.
Open Scope N_scope.

Definition U64_MAX : N := 18446744073709551615.
Definition window_overflows (s : slot) : bool := U64_MAX <? window_first s + SLOTS_PER_WINDOW.

(* the slot for which the handler of [i] calls try_skip_window, if it does *)
Definition skip_window_target (t : votor) (i : vin) : option slot :=
  match i with
  | VPool e =>
    if v_should_ignore t e then None
    else match e with ESafeToNotar (s, _) => Some s | ESafeToSkip s => Some s | _ => None end
  | VInvalidBlock s => if v_old t s then None else Some s
  | VTimeout s => if v_old t s then None else if v_voted t s then None else Some s
  | VTimeoutCrashed s => if v_old t s then None else if negb (v_shred t s) && negb (v_voted t s) then Some s else None
  | _ => None
  end.

(* what was already broadcast when try_skip_window is entered *)
Definition sent_before_skip (own : vidx) (i : vin) : list vout :=
  match i with
  | VPool (ESafeToNotar (s, h)) => [VBVote (mkVote s (KNotarFb h) own)]
  | VPool (ESafeToSkip s) => [VBVote (mkVote s KSkipFb own)]
  | _ => []
  end.

Definition votor_step64_gen (pinned : bool) (own : vidx) (t : votor) (i : vin) : votor * list vout * bool :=
  if vt_panicked t then (t, [], true)
  else match skip_window_target t i with
       | Some s => if pinned && window_overflows s
                   then (mkVotor (vt_slots t) (vt_highest t) true, sent_before_skip own i, true)
                   else votor_step own t i
       | None => votor_step own t i
       end.
Definition votor_step64 := votor_step64_gen false.
Definition votor_step64_pinned := votor_step64_gen true.

Definition vin_slot (i : vin) : slot :=
  match i with
  | VPool e => pevent_slot e
  | VFirstShred s | VInvalidBlock s | VBlock s _ _ | VTimeout s | VTimeoutCrashed s => s
  end.
(* every slot an event carries fits u64 *)
Definition vin_u64 (i : vin) : bool := vin_slot i <=? U64_MAX.
