(* Executable model of shred routing (definitions only):
     src/disseminator/rotor.rs                    Rotor::{new, new_fa1, sample_relays, sample_relay,
                                                  send_as_leader, broadcast_if_relay}
     src/disseminator/turbine.rs                  TurbineTree::new, Turbine::{send_shred_to_root, forward_shred}
     src/disseminator/turbine/weighted_shuffle.rs WeightedShuffle::{new, search, remove, shuffle}
     src/disseminator/trivial.rs                  TrivialDisseminator::{send, forward}
     src/consensus/epoch_info.rs                  EpochInfo::leader
     src/consensus.rs                             handle_disseminator_shred (forward on every receipt, the
                                                  leader included, before storing)
   Routing is a function of (validator stakes, slot, slice / shred index) and of the stream the RNG
   produces for the 32-byte seed.  The RNG is a parameter `rng : list N -> stream` (seed bytes to words);
   the instance used to run the model against the code is `stdrng` = ChaCha12 (Lib/ChaCha.v).  The
   relay caches (quick_cache) are modelled by `memo_get` at the end.

   The weighted shuffle is modelled by what its 16-ary sum tree computes: `search v` = the first index
   whose running weight sum exceeds v, `remove` = set that weight to zero.

   MODELLED_FUNCTIONS: Rotor::new Rotor::new_fa1 Rotor::sample_relays Rotor::sample_relay
     Rotor::send_as_leader Rotor::broadcast_if_relay TurbineTree::new Turbine::send_shred_to_root
     Turbine::forward_shred Turbine::get_tree WeightedShuffle::new WeightedShuffle::search
     WeightedShuffle::remove WeightedShuffle::shuffle TrivialDisseminator::send EpochInfo::leader *)
From Coq Require Import List NArith ZArith Bool.
From AG Require Import Gen.Params Lib.ChaCha Model.Sampling.
Import ListNotations.
Open Scope N_scope.

(* ------------------------------------------------------------------ *)
(* seeds                                                               *)
(* ------------------------------------------------------------------ *)
(* u64::to_be_bytes *)
Fixpoint be_bytes (n : nat) (x : N) : list N :=
  match n with
  | O => []
  | S n' => be_bytes n' (x / 256) ++ [x mod 256]
  end.
Definition be8 (x : N) : list N := be_bytes 8 x.

Definition rotor_seed (slot slice : N) : list N := be8 slot ++ be8 slice ++ repeat 0 16.
(* b"ALPENGLOWTURBINE" *)
Definition turbine_tag : list N := [65; 76; 80; 69; 78; 71; 76; 79; 87; 84; 85; 82; 66; 73; 78; 69].
Definition turbine_seed (slot shred : N) : list N := turbine_tag ++ be8 slot ++ be8 shred.

(* `stdrng` (StdRng::from_seed = ChaCha12 keystream words) is defined in Model/Sampling.v *)

(* EpochInfo::leader: one leader per window, round robin *)
Definition leader_of (n slot : N) : N := (slot / SLOTS_PER_WINDOW) mod n.

(* ------------------------------------------------------------------ *)
(* Rotor                                                               *)
(* ------------------------------------------------------------------ *)
Inductive rout := RRelay (v : N) | RPanic | RStarved.

Section Rotor.
  Variable rng : list N -> stream.
  Variable sm : sampler.                       (* the sampler the Rotor instance was constructed with *)

  (* sample_relays: the whole committee of a slice (what the cache stores) *)
  Definition rotor_relays (slot slice : N) : res (list N) := sample_quorum sm (rng (rotor_seed slot slice)).
  (* sample_relay: committee[shred] *)
  Definition rotor_relay (slot slice shred : N) : rout :=
    match rotor_relays slot slice with
    | Ok q _ => match nth_error q (N.to_nat shred) with Some v => RRelay v | None => RPanic end
    | Panic => RPanic
    | Starved => RStarved
    end.
End Rotor.

(* Rotor::new / Rotor::new_fa1 choose the sampler.  Rotor::new never depended on the code version.
   Rotor::new_fa1: in the pinned tree the sampler depended on the thread-RNG order of PartitionSampler::new
   (`rotor_new_fa1_pinned`); now it is a function of the stakes (`rotor_new_fa1`). *)
Definition rotor_new (stakes : list N) : cres sampler := construct_current (StStake TOTAL_SHREDS) stakes.
Definition rotor_new_fa1_pinned (stakes : list N) (order : list N) : cres sampler :=
  construct Pinned (StFA1Part TOTAL_SHREDS) stakes order.
Definition rotor_new_fa1 (stakes : list N) : cres sampler := construct_current (StFA1Part TOTAL_SHREDS) stakes.

Fixpoint seqN (start : N) (len : nat) : list N :=
  match len with O => [] | S l => start :: seqN (start + 1) l end.

(* destinations of send_as_leader / broadcast_if_relay executed by `own` *)
Definition rotor_send (relay : N) : list N := [relay].
Definition rotor_forward (n own relay leader : N) : list N :=
  if own =? relay
  then filter (fun i => negb (i =? relay) && negb (i =? leader)) (seqN 0 (N.to_nat n))
  else [].

(* ------------------------------------------------------------------ *)
(* Turbine                                                             *)
(* ------------------------------------------------------------------ *)
(* WeightedShuffle::new: zero weights, and weights that would overflow the u64 sum, go to `zeros` *)
Fixpoint wsh_new (ws : list N) (i sum : N) : list N * N * list N :=   (* (effective weights, sum, zeros) *)
  match ws with
  | [] => ([], sum, [])
  | w :: r =>
    if (w =? 0) || (W64 <=? sum + w)
    then let '(e, t, z) := wsh_new r (i + 1) sum in (0 :: e, t, i :: z)
    else let '(e, t, z) := wsh_new r (i + 1) (sum + w) in (w :: e, t, z)
  end.
(* search: smallest index with weights[..=k] > val, and its weight *)
Fixpoint wsh_search (ws : list N) (val i : N) : option (N * N) :=
  match ws with
  | [] => None
  | w :: r => if val <? w then Some (i, w) else wsh_search r (val - w) (i + 1)
  end.
Fixpoint wsh_positive (fuel : nat) (ws : list N) (weight : N) (s : stream) : res (list N) :=
  if weight =? 0 then Ok [] s
  else
    match fuel with
    | O => Panic
    | S f =>
      match random_range_u64 weight s with
      | Ok v s1 =>
        match wsh_search ws v 0 with
        | Some (k, w) =>
          match wsh_positive f (set_nthN ws (N.to_nat k) (fun _ => 0)) (weight - w) s1 with
          | Ok l s2 => Ok (k :: l) s2
          | Panic => Panic
          | Starved => Starved
          end
        | None => Panic                     (* "search value should be less than total subtree weight" *)
        end
      | Panic => Panic
      | Starved => Starved
      end
    end.
(* Vec::swap_remove: the last element takes the place of the removed one *)
Definition swap_remove (l : list N) (i : nat) : list N :=
  match l with
  | [] => []
  | _ => if Nat.eqb i (length l - 1) then removelast l
         else firstn i l ++ [last l 0] ++ removelast (skipn (S i) l)
  end.
Fixpoint wsh_zeros (fuel : nat) (zeros : list N) (s : stream) : res (list N) :=
  match zeros with
  | [] => Ok [] s
  | _ =>
    match fuel with
    | O => Panic
    | S f =>
      match random_range_usize (lenN zeros) s with
      | Ok i s1 =>
        match wsh_zeros f (swap_remove zeros (N.to_nat i)) s1 with
        | Ok l s2 => Ok (nthN zeros i 0 :: l) s2
        | Panic => Panic
        | Starved => Starved
        end
      | Panic => Panic
      | Starved => Starved
      end
    end
  end.
(* WeightedShuffle::new(stakes).shuffle(rng).collect() *)
Definition weighted_shuffle (stakes : list N) (s : stream) : res (list N) :=
  let '(eff, total, zeros) := wsh_new stakes 0 0 in
  match wsh_positive (S (length stakes)) eff total s with
  | Ok pos s1 =>
    match wsh_zeros (S (length stakes)) zeros s1 with
    | Ok zs s2 => Ok (pos ++ zs) s2
    | Panic => Panic
    | Starved => Starved
    end
  | Panic => Panic
  | Starved => Starved
  end.

Fixpoint position (l : list N) (x : N) (i : N) : option N :=
  match l with
  | [] => None
  | y :: r => if y =? x then Some i else position r x (i + 1)
  end.

(* what a TurbineTree keeps: root, parent, children (as seen by `own`) *)
Record ttree := mkTree { t_root : N; t_parent : option N; t_children : list N }.
Inductive tout := TTree (t : ttree) | TPanic | TStarved.

(* the tree positions over an already shuffled validator list *)
Definition tree_of_order (order : list N) (fanout own : N) : option ttree :=
  match order with
  | [] => None                                         (* validator_indices[0] *)
  | root :: _ =>
    match position order own 0 with
    | None => None                                     (* "own validator id should be in the validator set" *)
    | Some pos =>
      if (0 <? pos) && (fanout =? 0) then None         (* (own_pos - 1) / fanout *)
      else if W64 <=? pos * fanout + 1 then None       (* usize overflow of own_pos * fanout + 1 *)
      else
        let n := lenN order in
        let offset := N.min (pos * fanout + 1) n in
        let children := firstn (N.to_nat (N.min fanout n)) (skipn (N.to_nat offset) order) in
        let parent := if pos =? 0 then None else Some (nthN order ((pos - 1) / fanout) 0) in
        Some (mkTree root parent children)
    end
  end.

Section Turbine.
  Variable rng : list N -> stream.
  Definition turbine_order (stakes : list N) (slot shred : N) : res (list N) :=
    weighted_shuffle stakes (rng (turbine_seed slot shred)).
  (* TurbineTree::new(validators, fanout, own, slot, shred) *)
  Definition turbine_tree (stakes : list N) (fanout own slot shred : N) : tout :=
    match turbine_order stakes slot shred with
    | Ok order _ => match tree_of_order order fanout own with Some t => TTree t | None => TPanic end
    | Panic => TPanic
    | Starved => TStarved
    end.
End Turbine.

(* index_in_slot: the shred coordinate Turbine keys its trees with *)
Definition index_in_slot (slice shred : N) : N := slice * TOTAL_SHREDS + shred.

(* ------------------------------------------------------------------ *)
(* loss-free runs                                                      *)
(* ------------------------------------------------------------------ *)
(* `fwd v` = the destinations node v sends to when it receives the shred (Disseminator::forward, called
   by every node on every receipt).  The network delivers in FIFO order; the result is the sequence of
   deliveries (receiving nodes).  Fuel exhaustion is reported as None. *)
Fixpoint run (fwd : N -> list N) (fuel : nat) (inflight : list N) : option (list N) :=
  match inflight with
  | [] => Some []
  | d :: rest =>
    match fuel with
    | O => None
    | S f => match run fwd f (rest ++ fwd d) with Some l => Some (d :: l) | None => None end
    end
  end.

(* Turbine over a shuffled order: the leader sends to the root, everybody forwards to its children *)
Definition turbine_children (order : list N) (fanout own : N) : list N :=
  match tree_of_order order fanout own with Some t => t_children t | None => [] end.
Definition turbine_run (order : list N) (fanout : N) : option (list N) :=
  match order with
  | [] => Some []
  | root :: _ => run (turbine_children order fanout) (S (length order)) [root]
  end.

(* Rotor: the leader sends to the relay, the relay broadcasts, nobody else forwards *)
Definition rotor_run (n leader relay : N) : option (list N) :=
  run (fun own => rotor_forward n own relay leader) (S (N.to_nat n)) (rotor_send relay).

(* TrivialDisseminator: the leader sends to everybody (itself included), nobody forwards *)
Definition trivial_run (n : N) : option (list N) := run (fun _ => []) (S (N.to_nat n)) (seqN 0 (N.to_nat n)).

(* ------------------------------------------------------------------ *)
(* caches                                                              *)
(* ------------------------------------------------------------------ *)
(* relay_cache / tree_cache: look up, else compute, insert (possibly evicting anything) and return *)
Section Memo.
  Context {K V : Type}.
  Variable keq : K -> K -> bool.
  Variable f : K -> V.
  Fixpoint memo_lookup (c : list (K * V)) (k : K) : option V :=
    match c with
    | [] => None
    | (k', v) :: r => if keq k k' then Some v else memo_lookup r k
    end.
  (* `keep` = what the bounded cache retains of its old content when inserting (any sub-list) *)
  Definition memo_get (keep : list (K * V) -> list (K * V)) (c : list (K * V)) (k : K) : V * list (K * V) :=
    match memo_lookup c k with
    | Some v => (v, c)
    | None => (f k, (k, f k) :: keep c)
    end.
End Memo.
