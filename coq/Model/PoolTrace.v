(* Specification vocabulary for the certificate-to-mark link of C07 / C08 - definitions only, no proofs.
   Nothing here is run by the oracle; the executable pool is Model/Pool.v.

   - [item], [step_items], [ghost_run]: the ghost trace of a pool run.  It is read off the OBSERVABLE results of
     every pool_step: the certificates of the ECertCreated events of a vote / certificate step (add_valid_cert
     emits exactly one per certificate it stores, created from votes or received - this is the oracle's
     [all_certs]), the (block, parent) pair of every registration that did not panic (the oracle's
     [all_blocks]), and the waiter registrations; a panicking step contributes nothing.
       H = [held_certs trace]  (every certificate the pool has held so far, in arrival order)
       B = [reg_links trace]   (every parent link registered so far)
   - [fops_of]: the finality-tracker operations this trace justifies (one mark per Notar / FastFinal / Final
     certificate, one add_parent per registration), in arrival order;
   - [item_step], [trace_run], [tops_of]: the parent-ready-tracker operations it justifies: a notar-fallback mark
     per Notar / NotarFallback certificate, a skip mark per Skip certificate, and after every finality-tracker
     operation the finalization event THAT operation returned followed by a prune at the tracker's watermark
     (computed by running the finality tracker along the trace);
   - [cert_hist H B]: the same finality marks as a function of the two SETS H and B only (order forgotten);
   - [NfJust], [SkipJust], [ReadySpec] / [ready_specb]: the certificate-level parent-ready condition. *)
From Coq Require Import List NArith Bool.
From AG Require Import Gen.Params Model.Pool Model.TrackerSpec Model.FinalitySpec.
Import ListNotations.
Open Scope N_scope.

(* ---------- projections of an event list ---------- *)
Definition ev_certs (l : list pevent) : list cert :=
  flat_map (fun e => match e with ECertCreated c => [c] | _ => [] end) l.
Definition ev_prs (l : list pevent) : list (slot * blockid) :=
  flat_map (fun e => match e with EParentReady s p => [(s, p)] | _ => [] end) l.
Definition ev_is_woken (e : pevent) : bool := match e with EWaiterWoken _ _ => true | _ => false end.
Definition ev_wk (l : list pevent) : list pevent := filter ev_is_woken l.

(* ---------- the ghost trace ---------- *)
Inductive item :=
| ICert (c : cert)               (* add_valid_cert stored c (created from votes, or received) *)
| IBlock (b par : blockid)       (* add_block(b, par) returned *)
| IWait (s : slot).              (* wait_for_parent_ready(s) returned *)

Definition step_items (op : pool_op) (res : presult) (out : pout) : list item :=
  match res with
  | RPanic => []
  | _ =>
    match op with
    | OpVote _ | OpCert _ => map ICert (ev_certs (po_events out))
    | OpBlock b par => [IBlock b par]
    | OpWait s => [IWait s]
    | OpStandstill | OpNoop => []
    end
  end.

Record ghost := mkG { g_pool : pool; g_trace : list item; g_events : list pevent }.
Definition ghost_step (e : epoch) (g : ghost) (op : pool_op) : ghost :=
  let '(p', res, out) := pool_step e (g_pool g) op in
  mkG p' (g_trace g ++ step_items op res out) (g_events g ++ po_events out).
Definition ghost_run (e : epoch) (ops : list pool_op) : ghost := fold_left (ghost_step e) ops (mkG pool_init [] []).

Definition held_certs (tr : list item) : list cert :=
  flat_map (fun it => match it with ICert c => [c] | _ => [] end) tr.
Definition reg_links (tr : list item) : list (blockid * blockid) :=
  flat_map (fun it => match it with IBlock b p => [(b, p)] | _ => [] end) tr.

(* ---------- finality-tracker operations justified by the trace ---------- *)
Definition cert_fops (c : cert) : list ft_op :=
  match c_kind c with
  | CNotar h => [TNotar (c_slot c, h)]
  | CFastFinal h => [TFast (c_slot c, h)]
  | CFinal => [TFinal (c_slot c)]
  | CNotarFb _ | CSkip => []
  end.
Definition item_fops (it : item) : list ft_op :=
  match it with
  | ICert c => cert_fops c
  | IBlock b par => [TParent b par]
  | IWait _ => []
  end.
Definition fops_of (tr : list item) : list ft_op := flat_map item_fops tr.

(* the same marks from the sets H and B alone *)
Definition cert_hist (H : list cert) (B : list (blockid * blockid)) : hist :=
  flat_map cert_fops H ++ map (fun bp => TParent (fst bp) (snd bp)) B.

(* ---------- parent-ready-tracker operations justified by the trace ---------- *)
(* PoolImpl::handle_finalization after a finality-tracker operation that returned [ev] and left tracker [t'] *)
Definition fin_tops (ev : fin_event) (t' : ftracker) : list ptop := [TFinalize ev; TPrune (ft_first t')].

Definition lift_ft (r : ftres) (k : ftracker -> fin_event -> list ptop) : option (ftracker * list fin_event * list ptop) :=
  match r with
  | None => None
  | Some (t', ev) => Some (t', [ev], k t' ev)
  end.

(* None = the finality tracker panics on this item *)
Definition item_step (t : ftracker) (it : item) : option (ftracker * list fin_event * list ptop) :=
  match it with
  | ICert c =>
    let s := c_slot c in
    match c_kind c with
    | CNotar h => lift_ft (ft_mark_notarized t (s, h)) (fun t' ev => fin_tops ev t' ++ [TNotarFb (s, h)])
    | CNotarFb h => Some (t, [], [TNotarFb (s, h)])
    | CSkip => Some (t, [], [TSkip s])
    | CFastFinal h => lift_ft (ft_mark_fast_finalized t (s, h)) (fun t' ev => fin_tops ev t')
    | CFinal => lift_ft (ft_mark_finalized t s) (fun t' ev => fin_tops ev t')
    end
  | IBlock b par =>
    (* a block of an already decided slot is dropped before it reaches either tracker *)
    lift_ft (ft_add_parent t b par) (fun t' ev => if fst b <? ft_first t then [] else fin_tops ev t')
  | IWait s => Some (t, [], [TWait s])
  end.

Fixpoint trace_run (t : ftracker) (tr : list item) : option (ftracker * list fin_event * list ptop) :=
  match tr with
  | [] => Some (t, [], [])
  | it :: rest =>
    match item_step t it with
    | None => None
    | Some (t1, e1, o1) =>
      match trace_run t1 rest with
      | None => None
      | Some (t2, e2, o2) => Some (t2, e1 ++ e2, o1 ++ o2)
      end
    end
  end.
Definition tops_of (tr : list item) : list ptop :=
  match trace_run ft_init tr with Some (_, _, tops) => tops | None => [] end.

(* ---------- certificate-level vocabulary ---------- *)
Definition has_notar_cert (H : list cert) (b : blockid) : bool :=
  existsb (fun c => (c_slot c =? fst b) && match c_kind c with CNotar h => h =? snd b | _ => false end) H.
Definition has_ff_cert (H : list cert) (b : blockid) : bool :=
  existsb (fun c => (c_slot c =? fst b) && match c_kind c with CFastFinal h => h =? snd b | _ => false end) H.
Definition has_final_cert (H : list cert) (s : slot) : bool :=
  existsb (fun c => (c_slot c =? s) && match c_kind c with CFinal => true | _ => false end) H.
Definition has_skip_cert (H : list cert) (s : slot) : bool :=
  existsb (fun c => (c_slot c =? s) && match c_kind c with CSkip => true | _ => false end) H.
(* the kinds for which add_valid_cert itself calls mark_notar_fallback *)
Definition has_nf_cert (H : list cert) (b : blockid) : bool :=
  existsb (fun c => (c_slot c =? fst b) && match c_kind c with CNotar h | CNotarFb h => h =? snd b | _ => false end) H.
Definition has_link (B : list (blockid * blockid)) (b par : blockid) : bool :=
  existsb (fun bp => bid_eqb (fst bp) b && bid_eqb (snd bp) par) B.

(* b may be a parent: genesis, Notar / NotarFallback certificate, or finalized (FastFinal certificate, Final + Notar
   certificates, or an ancestor of such a block through registered links) *)
Definition NfJust (H : list cert) (B : list (blockid * blockid)) (b : blockid) : Prop :=
  b = (0, 0) \/ has_nf_cert H b = true \/ FinalStar (cert_hist H B) b.
(* slot x is out of the way: Skip certificate, or strictly between a finalized block and its registered parent *)
Definition SkipJust (H : list cert) (B : list (blockid * blockid)) (x : slot) : Prop :=
  has_skip_cert H x = true \/ SkippedStar (cert_hist H B) x.
Definition ReadySpec (H : list cert) (B : list (blockid * blockid)) (s : slot) (p : blockid) : Prop :=
  is_window_start s = true /\ fst p < s /\ NfJust H B p /\ forall x, fst p < x < s -> SkipJust H B x.

(* the same, executable *)
Definition nf_justb (H : list cert) (B : list (blockid * blockid)) (b : blockid) : bool :=
  bid_eqb b (0, 0) || has_nf_cert H b || final_starb (cert_hist H B) b.
Definition skip_justb (H : list cert) (B : list (blockid * blockid)) (x : slot) : bool :=
  has_skip_cert H x || spec_skipped (cert_hist H B) x.
Definition ready_specb (H : list cert) (B : list (blockid * blockid)) (s : slot) (p : blockid) : bool :=
  is_window_start s && (fst p <? s) && nf_justb H B p && forallb (skip_justb H B) (between (fst p) s).
