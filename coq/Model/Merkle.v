(* Executable model of src/crypto/merkle.rs (MerkleTree::new, create_proof,
   derive_hash_root, check_hash_proof, derive_hash_root_last), generic in the
   hash type and the two labelled hash functions.  Definitions only.

   MODELLED_FUNCTIONS: src/crypto/merkle.rs: MerkleTree::new create_proof check_proof
     check_hash_proof check_proof_last check_hash_proof_last derive_root derive_hash_root
     derive_hash_root_last hash_leaf hash_pair *)
From Coq Require Import List NArith Bool.
Import ListNotations.

Section Merkle.
  Context {H : Type}.
  Variable hash_pair : H -> H -> H.
  Variable empty0 : H.                 (* hash_leaf of the empty leaf *)
  Variable H_eqb : H -> H -> bool.
  Variable max_height : nat.           (* EMPTY_ROOTS.len() = MAX_MERKLE_TREE_HEIGHT *)

  (* EMPTY_ROOTS[h]: root of the all-empty tree of height h.  The code uses a
     constant table; Props/C15.v proves the table equals this function for the
     SHA-256 instance (empty_roots_ok). *)
  Fixpoint empty_root (h : nat) : H :=
    match h with
    | O => empty0
    | S h' => let e := empty_root h' in hash_pair e e
    end.

  (* one level of MerkleTree::new's loop: pair adjacent nodes, an odd last node
     is paired with EMPTY_ROOTS[h] *)
  Fixpoint pair_up (h : nat) (l : list H) : list H :=
    match l with
    | [] => []
    | [x] => [hash_pair x (empty_root h)]
    | x :: y :: t => hash_pair x y :: pair_up h t
    end.

  Fixpoint build_levels (fuel h : nat) (l : list H) : list (list H) :=
    match fuel with
    | O => [l]
    | S f => match l with
             | [] => [l]
             | [_] => [l]
             | _ => l :: build_levels f (S h) (pair_up h l)
             end
    end.

  (* levels of the tree whose leaf hashes are [leaves] (non-empty; the code asserts it) *)
  Definition levels (leaves : list H) : list (list H) := build_levels (length leaves) 0 leaves.
  Definition height (lv : list (list H)) : nat := length lv - 1.
  Definition root (lv : list (list H)) : H := hd empty0 (last lv []).

  (* node at level h, position m; positions past the end are canonical empty subtrees *)
  Definition node (lv : list (list H)) (h : nat) (m : N) : H :=
    nth (N.to_nat m) (nth h lv []) (empty_root h).

  Definition sib (i : N) : N := if N.even i then i + 1 else i - 1.   (* i ^ 1 *)

  Fixpoint proof_from (lv : list (list H)) (h : nat) (i : N) : list H :=
    match lv with
    | [] => []
    | [_] => []
    | l :: rest => nth (N.to_nat (sib i)) l (empty_root h) :: proof_from rest (S h) (N.div2 i)
    end.
  Definition create_proof (lv : list (list H)) (i : N) : list H := proof_from lv 0 i.

  (* derive_hash_root; also returns the index bits left over after the proof is consumed *)
  Fixpoint derive (x : H) (i : N) (p : list H) : H * N :=
    match p with
    | [] => (x, i)
    | s :: p' => derive (if N.even i then hash_pair x s else hash_pair s x) (N.div2 i) p'
    end.

  (* check_hash_proof, pinned tree: leftover index bits were NOT checked *)
  Definition check_pinned (x : H) (i : N) (r : H) (p : list H) : bool :=
    Nat.leb (length p) max_height && H_eqb (fst (derive x i p)) r.

  (* check_hash_proof, current tree (after "fix: reject Merkle proofs whose index exceeds the proof width") *)
  Definition check (x : H) (i : N) (r : H) (p : list H) : bool :=
    Nat.leb (length p) max_height && N.eqb (snd (derive x i p)) 0 && H_eqb (fst (derive x i p)) r.

  (* derive_hash_root_last: every right sibling on the path must be the canonical empty root *)
  Fixpoint derive_last (h : nat) (x : H) (i : N) (p : list H) : option (H * N) :=
    match p with
    | [] => Some (x, i)
    | s :: p' =>
      if N.even i then
        if H_eqb s (empty_root h) then derive_last (S h) (hash_pair x (empty_root h)) (N.div2 i) p'
        else None
      else derive_last (S h) (hash_pair s x) (N.div2 i) p'
    end.

  Definition check_last_pinned (x : H) (i : N) (r : H) (p : list H) : bool :=
    Nat.leb (length p) max_height &&
    match derive_last 0 x i p with Some (d, _) => H_eqb d r | None => false end.

  Definition check_last (x : H) (i : N) (r : H) (p : list H) : bool :=
    Nat.leb (length p) max_height &&
    match derive_last 0 x i p with Some (d, rest) => N.eqb rest 0 && H_eqb d r | None => false end.
End Merkle.
