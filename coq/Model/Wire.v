(* Wire format of every protocol message (property C19): executable encoders / decoders.

   MODELLED_FUNCTIONS:
     wincode 0.6 primitives under NetworkMessageConfig = Configuration<true, MTU_BYTES>
       (fixed-width little-endian u8/u32/u64/usize, bool in {0,1}, Option tag u8, enum tag u32 LE,
        Vec<T> = u64 length + elements with the preallocation check len * size_of::<T>() <= MTU_BYTES,
        [u8; N] raw, struct = fields in order)                                   -> c_uint c_bool c_option c_enum c_vec c_bytes_vec c_fixed c_pair
     alpenglow::network::deserialize (deserialize_exact: trailing bytes rejected) -> decode
     alpenglow::serialize / wincode::serialize                                    -> encode
     crypto/aggsig.rs  IndividualSignature::{read,write}, AggregateSignature::{read,write}, read_bitvec, write_bitvec, bitvec_size
                                                                                  -> c_isig c_aggsig c_bitmask
     types/slice_index.rs SliceIndex::read, shredder/shred_index.rs ShredIndex::read -> c_bounded
     crypto/signature.rs Signature (PodSignature, 64 raw bytes), crypto/hash.rs Hash ([u8;32]) -> c_fixed
     consensus/vote.rs VotePayload, NotarVote .. FinalVote, Vote; consensus/cert.rs NotarCert .. FinalCert, Cert;
     consensus.rs ConsensusMessage; shredder.rs ShredPayloadType, ShredPayload, Shred; types/slice.rs SliceHeader;
     repair.rs RepairRequestType, RepairRequest, RepairResponse; lib.rs Transaction  -> c_vote_payload c_vote c_cert c_consensus c_shred c_request c_response c_tx
     shredder/reed_solomon.rs ReedSolomonCoder::shred (only the shard size)       -> shard_size
     AggregateSignature::new (only the bitmask it builds), AggregateSignature::signers -> bitmask_of, signers_of

   BLS points are opaque 96-byte strings; whether blst accepts one (IndividualSignature: sig_validate with
   subgroup + infinity check, AggregateSignature: from_bytes) is a parameter of the codecs (record [blobs]).
   No proofs in this file. *)
From Coq Require Import String Ascii List NArith Bool.
From Coq Require Import Init.Byte Strings.Byte.
From AG Require Import Gen.Params.
Import ListNotations.
Open Scope N_scope.

Definition bytes := list byte.

(* ---------- bytes, little-endian integers, hex ---------- *)
Definition byte_of_N (n : N) : byte := match Byte.of_N (n mod 256) with Some b => b | None => x00 end.

Fixpoint le_enc (k : nat) (n : N) : bytes :=
  match k with O => [] | S k' => byte_of_N n :: le_enc k' (n / 256) end.
Fixpoint le_dec (bs : bytes) : N :=
  match bs with [] => 0 | b :: r => Byte.to_N b + 256 * le_dec r end.

Fixpoint take (k : nat) (b : bytes) : option (bytes * bytes) :=
  match k with
  | O => Some ([], b)
  | S k' => match b with
            | [] => None
            | x :: r => match take k' r with Some (p, q) => Some (x :: p, q) | None => None end
            end
  end.

Definition hexdigit (c : ascii) : N :=
  match c with
  | "0"%char => 0 | "1"%char => 1 | "2"%char => 2 | "3"%char => 3 | "4"%char => 4
  | "5"%char => 5 | "6"%char => 6 | "7"%char => 7 | "8"%char => 8 | "9"%char => 9
  | "a"%char => 10 | "b"%char => 11 | "c"%char => 12 | "d"%char => 13 | "e"%char => 14 | "f"%char => 15
  | _ => 0
  end.
Fixpoint hexb (s : string) : bytes :=
  match s with
  | String a (String b t) => byte_of_N (16 * hexdigit a + hexdigit b) :: hexb t
  | _ => []
  end.

Fixpoint bytes_eqb (a b : bytes) : bool :=
  match a, b with
  | [], [] => true
  | x :: a', y :: b' => Byte.eqb x y && bytes_eqb a' b'
  | _, _ => false
  end.

(* ---------- codecs ---------- *)
Record codec (A : Type) := mkCodec {
  enc : A -> bytes;                          (* SchemaWrite::write *)
  dec : bytes -> option (A * bytes);         (* SchemaRead::read: value and unread rest, None = ReadError *)
  wf : A -> Prop                             (* values the decoder can produce / the encoder is meant for *)
}.
Arguments mkCodec {A}. Arguments enc {A}. Arguments dec {A}. Arguments wf {A}.

(* network::deserialize = deserialize_exact *)
Definition decode {A} (c : codec A) (b : bytes) : option A :=
  match dec c b with Some (a, []) => Some a | _ => None end.
Definition encode {A} (c : codec A) (a : A) : bytes := enc c a.

Definition c_fixed (k : nat) : codec bytes :=
  mkCodec (fun b => b) (take k) (fun b => length b = k).

Definition c_uint (k : nat) : codec N :=
  mkCodec (le_enc k)
          (fun b => match take k b with Some (x, r) => Some (le_dec x, r) | None => None end)
          (fun n => n < 256 ^ N.of_nat k).
Definition c_u8 := c_uint 1.
Definition c_u32 := c_uint 4.
Definition c_u64 := c_uint 8.          (* u64 and usize (64-bit targets only, asserted in lib.rs) *)

Definition c_filter {A} (c : codec A) (p : A -> bool) : codec A :=
  mkCodec (enc c)
          (fun b => match dec c b with Some (a, r) => if p a then Some (a, r) else None | None => None end)
          (fun a => wf c a /\ p a = true).

Definition c_map {A B} (c : codec A) (f : A -> B) (g : B -> A) : codec B :=
  mkCodec (fun b => enc c (g b))
          (fun x => match dec c x with Some (a, r) => Some (f a, r) | None => None end)
          (fun b => wf c (g b)).

Definition c_pair {A B} (ca : codec A) (cb : codec B) : codec (A * B) :=
  mkCodec (fun p => enc ca (fst p) ++ enc cb (snd p))
          (fun x => match dec ca x with
                    | Some (a, r) => match dec cb r with Some (b, r') => Some ((a, b), r') | None => None end
                    | None => None
                    end)
          (fun p => wf ca (fst p) /\ wf cb (snd p)).

(* index newtypes that validate on read *)
Definition c_bounded (bound : N) : codec N := c_filter c_u64 (fun n => n <? bound).
Definition c_bool : codec bool :=
  c_map (c_filter c_u8 (fun n => n <? 2)) (fun n => n =? 1) (fun b : bool => if b then 1 else 0).
(* opaque fixed-width blob with an external validity predicate *)
Definition c_blob (k : nat) (ok : bytes -> bool) : codec bytes := c_filter (c_fixed k) ok.

Definition c_option {A} (c : codec A) : codec (option A) :=
  mkCodec (fun o => match o with None => le_enc 1 0 | Some a => le_enc 1 1 ++ enc c a end)
          (fun b => match dec c_u8 b with
                    | Some (t, r) =>
                      if t =? 0 then Some (None, r)
                      else if t =? 1 then match dec c r with Some (a, r') => Some (Some a, r') | None => None end
                      else None
                    | None => None
                    end)
          (fun o => match o with None => True | Some a => wf c a end).

Fixpoint dec_many {A} (c : codec A) (k : nat) (b : bytes) : option (list A * bytes) :=
  match k with
  | O => Some ([], b)
  | S k' => match dec c b with
            | Some (a, r) => match dec_many c k' r with Some (l, r') => Some (a :: l, r') | None => None end
            | None => None
            end
  end.

(* Vec<T>: esize = size_of::<T::Dst>() in memory, limit = PREALLOCATION_SIZE_LIMIT of the decoding config *)
Definition c_vec {A} (esize limit : N) (c : codec A) : codec (list A) :=
  mkCodec (fun l => le_enc 8 (N.of_nat (length l)) ++ flat_map (enc c) l)
          (fun b => match dec c_u64 b with
                    | Some (n, r) => if n * esize <=? limit then dec_many c (N.to_nat n) r else None
                    | None => None
                    end)
          (fun l => N.of_nat (length l) * esize <= limit /\ N.of_nat (length l) < 2 ^ 64 /\ Forall (wf c) l).

(* Vec<u8> *)
Definition c_bytes_vec (limit : N) : codec bytes :=
  mkCodec (fun l => le_enc 8 (N.of_nat (length l)) ++ l)
          (fun b => match dec c_u64 b with
                    | Some (n, r) => if n <=? limit then take (N.to_nat n) r else None
                    | None => None
                    end)
          (fun l => N.of_nat (length l) <= limit /\ N.of_nat (length l) < 2 ^ 64).

(* enums: u32 tag, then the variant's fields *)
Record vcodec (A : Type) := mkV {
  vtag : A -> N;
  vbody : A -> bytes;
  vdec : N -> bytes -> option (A * bytes);
  vwf : A -> Prop
}.
Arguments mkV {A}. Arguments vtag {A}. Arguments vbody {A}. Arguments vdec {A}. Arguments vwf {A}.

Definition v_one {A} (t : N) (c : codec A) : vcodec A :=
  mkV (fun _ => t) (enc c) (fun t' b => if t' =? t then dec c b else None) (wf c).
Definition v_or {A B} (va : vcodec A) (vb : vcodec B) : vcodec (A + B) :=
  mkV (fun s => match s with inl a => vtag va a | inr b => vtag vb b end)
      (fun s => match s with inl a => vbody va a | inr b => vbody vb b end)
      (fun t x => match vdec va t x with
                  | Some (a, r) => Some (inl a, r)
                  | None => match vdec vb t x with Some (b, r) => Some (inr b, r) | None => None end
                  end)
      (fun s => match s with inl a => vwf va a | inr b => vwf vb b end).
Definition c_enum {A} (v : vcodec A) : codec A :=
  mkCodec (fun a => le_enc 4 (vtag v a) ++ vbody v a)
          (fun b => match dec c_u32 b with Some (t, r) => vdec v t r | None => None end)
          (vwf v).

(* ---------- cryptographic blobs ---------- *)
Record blobs := mkBlobs {
  isig_ok : bytes -> bool;    (* blst::min_sig::Signature::sig_validate(bytes, true) succeeds *)
  asig_ok : bytes -> bool     (* blst::min_sig::Signature::from_bytes(bytes) succeeds *)
}.
Definition BLS_SIG_BYTES : nat := 96.
Definition ED_SIG_BYTES : nat := 64.
Definition HASH_BYTES : nat := 32.

Definition c_hash : codec bytes := c_fixed HASH_BYTES.
Definition c_edsig : codec bytes := c_fixed ED_SIG_BYTES.
Definition c_isig (V : blobs) : codec bytes := c_blob BLS_SIG_BYTES (isig_ok V).

(* ---------- AggregateSignature: signature + bitvec ---------- *)
Definition words_for (nb : N) : N := (nb + 63) / 64.
Definition c_bitmask_raw : codec (N * list N) := c_pair c_u64 (c_vec 8 MTU_BYTES c_u64).
(* read_bitvec: the decoded BitVec is truncated to num_bits; as_raw_slice then exposes only the words
   that carry live bits (dead bits of the last word are kept as they arrived) *)
Definition c_bitmask : codec (N * list N) :=
  mkCodec (enc c_bitmask_raw)
          (fun b => match dec c_bitmask_raw b with
                    | Some ((nb, ws), r) =>
                      if (N.of_nat (length ws) <=? MAX_SIGNER_WORDS) && (nb <=? 64 * N.of_nat (length ws))
                      then Some ((nb, firstn (N.to_nat (words_for nb)) ws), r) else None
                    | None => None
                    end)
          (fun p => fst p < 2 ^ 64 /\ N.of_nat (length (snd p)) = words_for (fst p)
                    /\ N.of_nat (length (snd p)) <= MAX_SIGNER_WORDS /\ Forall (fun w => w < 2 ^ 64) (snd p)).

Record w_aggsig := mkAgg { ag_sig : bytes; ag_bits : N; ag_words : list N }.
Definition c_aggsig (V : blobs) : codec w_aggsig :=
  c_map (c_pair (c_blob BLS_SIG_BYTES (asig_ok V)) c_bitmask)
        (fun p => mkAgg (fst p) (fst (snd p)) (snd (snd p)))
        (fun a => (ag_sig a, (ag_bits a, ag_words a))).

(* bit i of the mask (Lsb0 order inside usize words) *)
Definition mask_bit (ws : list N) (i : N) : bool := N.testbit (nth (N.to_nat (i / 64)) ws 0) (i mod 64).
Fixpoint signers_below (ws : list N) (k : nat) (acc : list N) : list N :=
  match k with
  | O => acc
  | S k' => signers_below ws k' (if mask_bit ws (N.of_nat k') then N.of_nat k' :: acc else acc)
  end.
(* AggregateSignature::signers: positions of the set bits below num_bits, ascending *)
Definition signers_of (a : w_aggsig) : list N :=
  if ag_bits a <=? 64 * N.of_nat (length (ag_words a)) then signers_below (ag_words a) (N.to_nat (ag_bits a)) [] else [].
(* the bitmask AggregateSignature::new builds: bitvec![0; n] with the signers' bits set *)
Definition word_of (signers : list N) (w : N) : N :=
  fold_left (fun acc s => if s / 64 =? w then N.setbit acc (s mod 64) else acc) signers 0.
Definition bitmask_of (n : N) (signers : list N) : N * list N :=
  (n, map (fun k => word_of signers (N.of_nat k)) (seq 0 (N.to_nat (words_for n)))).

(* ---------- votes ---------- *)
Inductive w_payload :=
| PlNotar (slot : N) (h : bytes) | PlNotarFallback (slot : N) (h : bytes)
| PlSkip (slot : N) | PlSkipFallback (slot : N) | PlFinal (slot : N).
Definition c_slot_hash : codec (N * bytes) := c_pair c_u64 c_hash.      (* also BlockId *)
Definition c_vote_payload : codec w_payload :=
  c_map (c_enum (v_or (v_one 0 c_slot_hash) (v_or (v_one 1 c_slot_hash) (v_or (v_one 2 c_u64) (v_or (v_one 3 c_u64) (v_one 4 c_u64))))))
        (fun s => match s with
                  | inl p => PlNotar (fst p) (snd p)
                  | inr (inl p) => PlNotarFallback (fst p) (snd p)
                  | inr (inr (inl s)) => PlSkip s
                  | inr (inr (inr (inl s))) => PlSkipFallback s
                  | inr (inr (inr (inr s))) => PlFinal s
                  end)
        (fun p => match p with
                  | PlNotar s h => inl (s, h)
                  | PlNotarFallback s h => inr (inl (s, h))
                  | PlSkip s => inr (inr (inl s))
                  | PlSkipFallback s => inr (inr (inr (inl s)))
                  | PlFinal s => inr (inr (inr (inr s)))
                  end).

Record w_hvote := mkHVote { hv_slot : N; hv_hash : bytes; hv_sig : bytes; hv_signer : N }.   (* NotarVote, NotarFallbackVote *)
Record w_svote := mkSVote { sv_slot : N; sv_sig : bytes; sv_signer : N }.                    (* SkipVote, SkipFallbackVote, FinalVote *)
Inductive w_vote :=
| WNotar (v : w_hvote) | WNotarFallback (v : w_hvote) | WSkip (v : w_svote) | WSkipFallback (v : w_svote) | WFinal (v : w_svote).

Definition c_hvote (V : blobs) : codec w_hvote :=
  c_map (c_pair c_u64 (c_pair c_hash (c_pair (c_isig V) c_u64)))
        (fun p => mkHVote (fst p) (fst (snd p)) (fst (snd (snd p))) (snd (snd (snd p))))
        (fun v => (hv_slot v, (hv_hash v, (hv_sig v, hv_signer v)))).
Definition c_svote (V : blobs) : codec w_svote :=
  c_map (c_pair c_u64 (c_pair (c_isig V) c_u64))
        (fun p => mkSVote (fst p) (fst (snd p)) (snd (snd p)))
        (fun v => (sv_slot v, (sv_sig v, sv_signer v))).
Definition c_vote (V : blobs) : codec w_vote :=
  c_map (c_enum (v_or (v_one 0 (c_hvote V)) (v_or (v_one 1 (c_hvote V)) (v_or (v_one 2 (c_svote V)) (v_or (v_one 3 (c_svote V)) (v_one 4 (c_svote V)))))))
        (fun s => match s with
                  | inl v => WNotar v
                  | inr (inl v) => WNotarFallback v
                  | inr (inr (inl v)) => WSkip v
                  | inr (inr (inr (inl v))) => WSkipFallback v
                  | inr (inr (inr (inr v))) => WFinal v
                  end)
        (fun v => match v with
                  | WNotar v => inl v
                  | WNotarFallback v => inr (inl v)
                  | WSkip v => inr (inr (inl v))
                  | WSkipFallback v => inr (inr (inr (inl v)))
                  | WFinal v => inr (inr (inr (inr v)))
                  end).

(* ---------- certificates ---------- *)
Record w_cert1h := mkCert1h { c1h_slot : N; c1h_hash : bytes; c1h_agg : w_aggsig; c1h_stake : N }.            (* NotarCert, FastFinalCert *)
Record w_cert2h := mkCert2h { c2h_slot : N; c2h_hash : bytes; c2h_agg1 : option w_aggsig; c2h_agg2 : option w_aggsig; c2h_stake : N }.  (* NotarFallbackCert *)
Record w_cert2 := mkCert2 { c2_slot : N; c2_agg1 : option w_aggsig; c2_agg2 : option w_aggsig; c2_stake : N }. (* SkipCert *)
Record w_cert1 := mkCert1 { c1_slot : N; c1_agg : w_aggsig; c1_stake : N }.                                    (* FinalCert *)
Inductive w_cert :=
| WCNotar (c : w_cert1h) | WCNotarFallback (c : w_cert2h) | WCSkip (c : w_cert2) | WCFastFinal (c : w_cert1h) | WCFinal (c : w_cert1).

Definition c_cert1h (V : blobs) : codec w_cert1h :=
  c_map (c_pair c_u64 (c_pair c_hash (c_pair (c_aggsig V) c_u64)))
        (fun p => mkCert1h (fst p) (fst (snd p)) (fst (snd (snd p))) (snd (snd (snd p))))
        (fun c => (c1h_slot c, (c1h_hash c, (c1h_agg c, c1h_stake c)))).
Definition c_cert2h (V : blobs) : codec w_cert2h :=
  c_map (c_pair c_u64 (c_pair c_hash (c_pair (c_option (c_aggsig V)) (c_pair (c_option (c_aggsig V)) c_u64))))
        (fun p => mkCert2h (fst p) (fst (snd p)) (fst (snd (snd p))) (fst (snd (snd (snd p)))) (snd (snd (snd (snd p)))))
        (fun c => (c2h_slot c, (c2h_hash c, (c2h_agg1 c, (c2h_agg2 c, c2h_stake c))))).
Definition c_cert2 (V : blobs) : codec w_cert2 :=
  c_map (c_pair c_u64 (c_pair (c_option (c_aggsig V)) (c_pair (c_option (c_aggsig V)) c_u64)))
        (fun p => mkCert2 (fst p) (fst (snd p)) (fst (snd (snd p))) (snd (snd (snd p))))
        (fun c => (c2_slot c, (c2_agg1 c, (c2_agg2 c, c2_stake c)))).
Definition c_cert1 (V : blobs) : codec w_cert1 :=
  c_map (c_pair c_u64 (c_pair (c_aggsig V) c_u64))
        (fun p => mkCert1 (fst p) (fst (snd p)) (snd (snd p)))
        (fun c => (c1_slot c, (c1_agg c, c1_stake c))).
Definition c_cert (V : blobs) : codec w_cert :=
  c_map (c_enum (v_or (v_one 0 (c_cert1h V)) (v_or (v_one 1 (c_cert2h V)) (v_or (v_one 2 (c_cert2 V)) (v_or (v_one 3 (c_cert1h V)) (v_one 4 (c_cert1 V)))))))
        (fun s => match s with
                  | inl c => WCNotar c
                  | inr (inl c) => WCNotarFallback c
                  | inr (inr (inl c)) => WCSkip c
                  | inr (inr (inr (inl c))) => WCFastFinal c
                  | inr (inr (inr (inr c))) => WCFinal c
                  end)
        (fun c => match c with
                  | WCNotar c => inl c
                  | WCNotarFallback c => inr (inl c)
                  | WCSkip c => inr (inr (inl c))
                  | WCFastFinal c => inr (inr (inr (inl c)))
                  | WCFinal c => inr (inr (inr (inr c)))
                  end).

Inductive w_consensus := WVote (v : w_vote) | WCert (c : w_cert).
Definition c_consensus (V : blobs) : codec w_consensus :=
  c_map (c_enum (v_or (v_one 0 (c_vote V)) (v_one 1 (c_cert V))))
        (fun s => match s with inl v => WVote v | inr c => WCert c end)
        (fun m => match m with WVote v => inl v | WCert c => inr c end).

(* ---------- shreds ---------- *)
Record w_shred := mkShred {
  sh_coding : bool;           (* ShredPayloadType::Data = false / Coding = true *)
  sh_slot : N; sh_slice : N; sh_last : bool;     (* SliceHeader *)
  sh_index : N;               (* ShredIndex *)
  sh_data : bytes;
  sh_sig : bytes;             (* ed25519 signature of the slice commitment *)
  sh_proof : list bytes       (* SliceProof *)
}.
Definition c_proof : codec (list bytes) := c_vec 32 MTU_BYTES c_hash.      (* Vec<Hash>, size_of::<Hash>() = 32 *)
Definition c_shred_payload : codec (N * (N * (bool * (N * bytes)))) :=
  c_pair c_u64 (c_pair (c_bounded MAX_SLICES_PER_BLOCK) (c_pair c_bool (c_pair (c_bounded TOTAL_SHREDS) (c_bytes_vec MTU_BYTES)))).
Definition c_shred : codec w_shred :=
  c_map (c_pair (c_enum (v_or (v_one 0 c_shred_payload) (v_one 1 c_shred_payload))) (c_pair c_edsig c_proof))
        (fun p => let pl := match fst p with inl x => x | inr x => x end in
                  mkShred (match fst p with inl _ => false | inr _ => true end)
                          (fst pl) (fst (snd pl)) (fst (snd (snd pl))) (fst (snd (snd (snd pl)))) (snd (snd (snd (snd pl))))
                          (fst (snd p)) (snd (snd p)))
        (fun s => let pl := (sh_slot s, (sh_slice s, (sh_last s, (sh_index s, sh_data s)))) in
                  ((if sh_coding s then inr pl else inl pl), (sh_sig s, sh_proof s))).

(* ---------- repair ---------- *)
Inductive w_reqtype :=
| RLastSliceRoot (slot : N) (h : bytes)
| RSliceRoot (slot : N) (h : bytes) (slice : N)
| RShred (slot : N) (h : bytes) (slice : N) (index : N).
Definition c_reqtype : codec w_reqtype :=
  c_map (c_enum (v_or (v_one 0 c_slot_hash)
                (v_or (v_one 1 (c_pair c_slot_hash (c_bounded MAX_SLICES_PER_BLOCK)))
                      (v_one 2 (c_pair c_slot_hash (c_pair (c_bounded MAX_SLICES_PER_BLOCK) (c_bounded TOTAL_SHREDS)))))))
        (fun s => match s with
                  | inl p => RLastSliceRoot (fst p) (snd p)
                  | inr (inl p) => RSliceRoot (fst (fst p)) (snd (fst p)) (snd p)
                  | inr (inr p) => RShred (fst (fst p)) (snd (fst p)) (fst (snd p)) (snd (snd p))
                  end)
        (fun t => match t with
                  | RLastSliceRoot s h => inl (s, h)
                  | RSliceRoot s h i => inr (inl ((s, h), i))
                  | RShred s h i j => inr (inr ((s, h), (i, j)))
                  end).
Record w_request := mkRequest { rq_sender : N; rq_type : w_reqtype }.
Definition c_request : codec w_request :=
  c_map (c_pair c_u64 c_reqtype) (fun p => mkRequest (fst p) (snd p)) (fun r => (rq_sender r, rq_type r)).
Inductive w_response :=
| PLastSliceRoot (t : w_reqtype) (slice : N) (root : bytes) (proof : list bytes)
| PSliceRoot (t : w_reqtype) (root : bytes) (proof : list bytes)
| PShred (t : w_reqtype) (s : w_shred)
| PNack (t : w_reqtype).
Definition c_response : codec w_response :=
  c_map (c_enum (v_or (v_one 0 (c_pair c_reqtype (c_pair (c_bounded MAX_SLICES_PER_BLOCK) (c_pair c_hash c_proof))))
                (v_or (v_one 1 (c_pair c_reqtype (c_pair c_hash c_proof)))
                (v_or (v_one 2 (c_pair c_reqtype c_shred))
                      (v_one 3 c_reqtype)))))
        (fun s => match s with
                  | inl p => PLastSliceRoot (fst p) (fst (snd p)) (fst (snd (snd p))) (snd (snd (snd p)))
                  | inr (inl p) => PSliceRoot (fst p) (fst (snd p)) (snd (snd p))
                  | inr (inr (inl p)) => PShred (fst p) (snd p)
                  | inr (inr (inr t)) => PNack t
                  end)
        (fun r => match r with
                  | PLastSliceRoot t i root pr => inl (t, (i, (root, pr)))
                  | PSliceRoot t root pr => inr (inl (t, (root, pr)))
                  | PShred t s => inr (inr (inl (t, s)))
                  | PNack t => inr (inr (inr t))
                  end).

(* ---------- transactions ---------- *)
Definition c_tx : codec bytes := c_bytes_vec MTU_BYTES.

(* ---------- channels: which decoder a socket applies ---------- *)
Inductive chan := ChConsensus | ChShred | ChRepairReq | ChRepairResp | ChTx.
Definition msg_of (ch : chan) : Type :=
  match ch with
  | ChConsensus => w_consensus | ChShred => w_shred | ChRepairReq => w_request | ChRepairResp => w_response | ChTx => bytes
  end.
Definition wire (V : blobs) (ch : chan) : codec (msg_of ch) :=
  match ch with
  | ChConsensus => c_consensus V | ChShred => c_shred | ChRepairReq => c_request | ChRepairResp => c_response | ChTx => c_tx
  end.

(* ---------- what a correct node emits (size-relevant bounds; booleans so that the oracle can
   evaluate them on messages built by the real constructors) ---------- *)
Definition SLICE_PROOF_MAX : N := N.log2_up TOTAL_SHREDS.                 (* Merkle tree over the shreds of a slice *)
Definition BLOCK_PROOF_MAX : N := N.log2_up MAX_SLICES_PER_BLOCK.         (* double-Merkle tree over the slices of a block *)
Definition shred_bounds (s : w_shred) : bool :=
  (N.of_nat (length (sh_data s)) <=? MAX_DATA_PER_SHRED) && (N.of_nat (length (sh_proof s)) <=? SLICE_PROOF_MAX).
Definition response_bounds (r : w_response) : bool :=
  match r with
  | PLastSliceRoot _ _ _ pr | PSliceRoot _ _ pr => N.of_nat (length pr) <=? BLOCK_PROOF_MAX
  | PShred _ s => shred_bounds s
  | PNack _ => true
  end.
Definition emit_bounds (ch : chan) : msg_of ch -> bool :=
  match ch with
  | ChConsensus => fun _ => true       (* every well-formed consensus message fits: the bitmask is capped by MAX_SIGNERS *)
  | ChShred => shred_bounds
  | ChRepairReq => fun _ => true
  | ChRepairResp => response_bounds
  | ChTx => fun t => N.of_nat (length t) <=? MAX_TRANSACTION_SIZE
  end.
Definition emittable (V : blobs) (ch : chan) (m : msg_of ch) : Prop := wf (wire V ch) m /\ emit_bounds ch m = true.

(* ReedSolomonCoder::shred: bytes per shard for a slice payload of p bytes *)
Definition shard_size (p : N) : N :=
  let padding := 2 * DATA_SHREDS - p mod (2 * DATA_SHREDS) in
  (p + padding + DATA_SHREDS - 1) / DATA_SHREDS.
