(* Executable model of vote / certificate validation with IDEAL signatures (definitions only):
     src/consensus/validated_vote.rs  ValidatedVote::try_new
     src/consensus/validated_cert.rs  ValidatedCert::try_new
     src/consensus/cert.rs            check_threshold / check_sig of the five certificate types
     src/crypto/aggsig.rs             AggregateSignature::{verify_bytes, is_signer, signers}
   An individual signature is an atom (key that produced it, payload it was produced for); an aggregate
   is the multiset of its atoms plus the signer bitmask (length + set bits).  Ideal verification:
   an aggregate verifies for payload P and n public keys iff its bitmask has exactly n bits and its
   atoms are, as a multiset, exactly { (v, P) | bit v set } (what BLS aggregate verification decides,
   up to forgery and algebraic cancellation, which are assumed away - see DESIGN.md section 4).

   MODELLED_FUNCTIONS: ValidatedVote::try_new ValidatedCert::try_new Cert::check_threshold Cert::check_sig
     NotarCert::{check_threshold,check_sig} NotarFallbackCert::{..} SkipCert::{..} FastFinalCert::{..}
     FinalCert::{..} AggregateSignature::{verify,verify_bytes,is_signer,signers} Vote::check_sig *)
From Coq Require Import List NArith Bool.
From AG Require Import Gen.Params Model.Pool.
Import ListNotations.
Open Scope N_scope.

(* vote kind tags: 0 notar, 1 notar-fallback, 2 skip, 3 skip-fallback, 4 final *)
Record payload := mkPayload { pl_kind : N; pl_slot : slot; pl_hash : hash }.
(* skip / skip-fallback / final payloads carry no hash *)
Definition norm_payload (p : payload) : payload :=
  if (pl_kind p =? 0) || (pl_kind p =? 1) then p else mkPayload (pl_kind p) (pl_slot p) 0.
Definition payload_eqb (a b : payload) : bool :=
  let a := norm_payload a in let b := norm_payload b in
  (pl_kind a =? pl_kind b) && (pl_slot a =? pl_slot b) && (pl_hash a =? pl_hash b).

Record atom := mkAtom { a_claimed : vidx; a_key : vidx; a_payload : payload }.
Record half := mkHalf { h_bits : N; h_atoms : list atom }.

Inductive verdict9 := V9Ok | V9UnknownSigner | V9InsufficientStake | V9InvalidSignature.

(* ---------- votes ---------- *)
Record svote := mkSVote { sv_payload : payload; sv_signer : vidx; sv_sig_key : vidx; sv_sig_payload : payload }.
Definition validate_vote (e : epoch) (v : svote) : verdict9 :=
  if nvals e <=? sv_signer v then V9UnknownSigner
  else if (sv_sig_key v =? sv_signer v) && payload_eqb (sv_sig_payload v) (sv_payload v) then V9Ok
  else V9InvalidSignature.

(* ---------- certificates ---------- *)
(* certificate kind tags as in Oracle/PoolRun.ctag: 0 notar, 1 notar-fallback, 2 skip, 3 fast-final, 4 final *)
Record scert := mkSCert { sc_kind : N; sc_slot : slot; sc_hash : hash; sc_h1 : option half; sc_h2 : option half; sc_declared : N }.

Definition half_is_signer (h : half) (v : vidx) : bool :=
  (v <? h_bits h) && existsb (fun a => a_claimed a =? v) (h_atoms h).
Definition opt_is_signer (h : option half) (v : vidx) : bool :=
  match h with Some x => half_is_signer x v | None => false end.
Definition cert_signer_stake (e : epoch) (c : scert) : N :=
  stake_sum e (filter (fun v => opt_is_signer (sc_h1 c) v || opt_is_signer (sc_h2 c) v) (vals e)).
Definition cert_check_threshold (e : epoch) (c : scert) : bool :=
  let st := cert_signer_stake e c in
  if sc_kind c =? 3 then is_strong_quorum e st else is_quorum e st.

(* multiset equality of (key, payload) atoms against the claimed signers *)
Fixpoint remove_atom (k : vidx) (p : payload) (l : list (vidx * payload)) : option (list (vidx * payload)) :=
  match l with
  | [] => None
  | (k', p') :: t => if (k =? k') && payload_eqb p p' then Some t
                     else match remove_atom k p t with Some t' => Some ((k', p') :: t') | None => None end
  end.
Fixpoint mset_atoms_eqb (a b : list (vidx * payload)) : bool :=
  match a with
  | [] => match b with [] => true | _ => false end
  | (k, p) :: a' => match remove_atom k p b with Some b' => mset_atoms_eqb a' b' | None => false end
  end.
Definition half_verify (n : N) (p : payload) (h : half) : bool :=
  (h_bits h =? n)
  && mset_atoms_eqb (map (fun a => (a_key a, a_payload a)) (h_atoms h))
                    (map (fun a => (a_claimed a, p)) (h_atoms h)).
Definition opt_half_verify (n : N) (p : payload) (h : option half) : bool :=
  match h with Some x => half_verify n p x | None => true end.

(* payload kinds of the two halves per certificate kind *)
Definition cert_payloads (c : scert) : payload * payload :=
  let s := sc_slot c in let h := sc_hash c in
  match sc_kind c with
  | 0 => (mkPayload 0 s h, mkPayload 0 s h)
  | 1 => (mkPayload 0 s h, mkPayload 1 s h)
  | 2 => (mkPayload 2 s 0, mkPayload 3 s 0)
  | 3 => (mkPayload 0 s h, mkPayload 0 s h)
  | _ => (mkPayload 4 s 0, mkPayload 4 s 0)
  end.
Definition is_mixed (c : scert) : bool := (sc_kind c =? 1) || (sc_kind c =? 2).
Definition cert_check_sig (e : epoch) (c : scert) : bool :=
  let '(p1, p2) := cert_payloads c in
  opt_half_verify (nvals e) p1 (sc_h1 c) && (if is_mixed c then opt_half_verify (nvals e) p2 (sc_h2 c) else true).

Definition validate_cert (e : epoch) (c : scert) : verdict9 :=
  if negb (cert_check_threshold e c) then V9InsufficientStake
  else if negb (cert_check_sig e c) then V9InvalidSignature
  else V9Ok.
