(* Executable model of shred authentication (definitions only):
     src/shredder/validated_shred.rs  ValidatedShred::try_new
     src/shredder.rs                  SliceCommitment::new, Shred::slice_root
   The Merkle path is evaluated with the SHA-256 instance of Model/Merkle.v.  The leader's ed25519
   signature is ideal: a signature is described by (made with the leader's key?, byte string it was
   made over); verification succeeds iff it was made with the leader's key over exactly the message.

   MODELLED_FUNCTIONS: ValidatedShred::try_new SliceCommitment::new Shred::slice_root *)
From Coq Require Import String Uint63 List NArith ZArith Bool.
From AG Require Import Lib.Sha256 Lib.Hex Model.Merkle Model.MerkleSha Gen.Params.
Import ListNotations.

(* little-endian bytes of a number *)
Fixpoint le_bytes (k : nat) (n : N) : list N :=
  match k with O => [] | S k' => (n mod 256)%N :: le_bytes k' (n / 256)%N end.
Fixpoint of_le (l : list N) : N := match l with [] => 0%N | b :: t => (b + 256 * of_le t)%N end.
Definition int_of_N (n : N) : int := of_Z (Z.of_N n).
Definition le8 (n : N) : list int := map int_of_N (le_bytes 8 n).

(* SliceCommitment: slot (u64 LE) || slice_index (u64 LE) || is_last (u8) || slice_root (32 B) *)
Definition commitment_bytes (slot slice : N) (last : bool) (root : list int) : list int :=
  le8 slot ++ le8 slice ++ [if last then 1%uint63 else 0%uint63] ++ root.

Record wshred := mkW {
  w_slot : N; w_slice : N; w_last : bool; w_index : N;
  w_data : list int; w_path : list (list int); w_is_data : bool;
  w_sig_by_leader : bool; w_sig_msg : list int }.

Definition shred_root (w : wshred) : list int := s_derive_root (w_data w) (w_index w) (w_path w).
Definition shred_commitment (w : wshred) : list int :=
  commitment_bytes (w_slot w) (w_slice w) (w_last w) (shred_root w).

Inductive sverdict := SOk | SInvalidSignature | SEquivocation.
Definition sig_verifies (w : wshred) (msg : list int) : bool := w_sig_by_leader w && bytes_eqb (w_sig_msg w) msg.
(* [widthchk]: current tree ("fix: reject a shred whose index lies beyond the width spanned by its Merkle path"):
   the derivation of the root ignores index bits beyond the length of the path *)
Definition index_in_width (w : wshred) : bool := (w_index w <? 2 ^ N.of_nat (length (w_path w)))%N.
Definition validate_shred_gen (widthchk : bool) (cached : option (list int)) (w : wshred) : sverdict :=
  if widthchk && negb (index_in_width w) then SInvalidSignature
  else
  let msg := shred_commitment w in
  match cached with
  | Some c => if bytes_eqb c msg then SOk
              else if sig_verifies w msg then SEquivocation else SInvalidSignature
  | None => if sig_verifies w msg then SOk else SInvalidSignature
  end.
Definition validate_shred := validate_shred_gen true.
