(* Specification vocabulary for C06 (definitions only, nothing here is run by the oracle):
   decidable statements of the safe-to-notar / safe-to-skip conditions on a slot state and on a pool,
   the operations the pool performs on one slot state, event counting, operation sequences. *)
From Coq Require Import List NArith Bool.
From AG Require Import Gen.Params Model.Pool Model.PoolSpec.
Import ListNotations.
Open Scope N_scope.

(* ---------- the conditions of the property, on one slot state ---------- *)
(* the node voted in the slot (skip or notarize), but not to notarize h *)
Definition own_voted_otherb (e : epoch) (ss : slot_state) (h : hash) : bool :=
  memN (own e) (vo_skip (ss_v ss))
  || match alookup (own e) (vo_notar (ss_v ss)) with Some h' => negb (h' =? h) | None => false end.
(* notar(h) >= 40 %, or notar(h) >= 20 % and skip + notar(h) >= 60 % (on the running totals) *)
Definition s2n_stakeb (e : epoch) (ss : slot_state) (h : hash) : bool :=
  let ns := aget 0 h (st_notar (ss_t ss)) in
  is_weakest_quorum e ns && (is_weak_quorum e ns || is_quorum e (ns + st_skip (ss_t ss))).
(* block h registered in this slot and its parent known to be certified *)
Definition parent_certb (ss : slot_state) (h : hash) : bool :=
  match alookup h (pa_status (ss_n ss)) with Some true => true | _ => false end.
Definition s2n_condb (e : epoch) (ss : slot_state) (h : hash) : bool :=
  own_voted_otherb e ss h && s2n_stakeb e ss h && parent_certb ss h.
Definition s2n_sentb (ss : slot_state) (h : hash) : bool := memN h (s2n_sent (ss_n ss)).

(* the same stake condition on the STORED VOTES (stake of distinct validators) *)
Definition s2n_stake_votesb (e : epoch) (ss : slot_state) (h : hash) : bool :=
  let ns := stake_sum e (notar_voters e ss h) in
  is_weakest_quorum e ns && (is_weak_quorum e ns || is_quorum e (ns + stake_sum e (skip_voters e ss))).
Definition s2n_cond_votesb (e : epoch) (ss : slot_state) (h : hash) : bool :=
  own_voted_otherb e ss h && s2n_stake_votesb e ss h && parent_certb ss h.

(* safe-to-skip: the node notarized some block of the slot and skip + notar stake of all but the
   most-voted block is >= 40 % *)
Definition own_notarizedb (e : epoch) (ss : slot_state) : bool :=
  match alookup (own e) (vo_notar (ss_v ss)) with Some _ => true | None => false end.
Definition s2s_condb (e : epoch) (ss : slot_state) : bool :=
  own_notarizedb e ss && is_weak_quorum e (st_nos (ss_t ss) - st_top (ss_t ss)).
(* the two figures on the stored votes: validators holding a skip or a notar vote; the best block *)
Definition nos_voters (e : epoch) (ss : slot_state) : list vidx :=
  filter (fun v => memN v (vo_skip (ss_v ss))
                   || match alookup v (vo_notar (ss_v ss)) with Some _ => true | None => false end) (vals e).
Definition nos_top_ok (e : epoch) (ss : slot_state) : Prop :=
  st_nos (ss_t ss) = stake_sum e (nos_voters e ss) /\
  (forall h, stake_sum e (notar_voters e ss h) <= st_top (ss_t ss)) /\
  (exists h, st_top (ss_t ss) = stake_sum e (notar_voters e ss h)).

(* ---------- the operations of the pool on one slot state ---------- *)
Inductive ss_op :=
| SOVote (vt : vote)          (* a vote that passed the admission guard *)
| SOCert (c : cert)           (* a certificate stored (created or received) *)
| SOKnown (h : hash)          (* block h of this slot registered (parent known) *)
| SOCertified (h : hash).     (* the parent of block h is certified *)

Definition admittedb (ss : slot_state) (vt : vote) : bool :=
  match check_slashable ss vt with None => negb (should_ignore ss vt) | Some _ => false end.
Definition ss_op_ok (s : slot) (ss : slot_state) (op : ss_op) : bool :=
  match op with
  | SOVote vt => (v_slot vt =? s) && admittedb ss vt
  | SOCertified h => match alookup h (pa_status (ss_n ss)) with Some _ => true | None => false end
  | _ => true
  end.
Definition ss_apply (e : epoch) (s : slot) (ss : slot_state) (op : ss_op) : slot_state * list pevent :=
  match op with
  | SOVote vt => let '(ss', o) := ss_add_vote e ss vt in (ss', o_events o)
  | SOCert c => (ss_add_cert ss c, [])
  | SOKnown h => (notify_parent_known ss h, [])
  | SOCertified h => match notify_parent_certified e s ss h with
                     | Some (ss', evs, _) => (ss', evs)
                     | None => (ss, [])
                     end
  end.
(* a sequence of operations, each passing its guard; all events raised *)
Fixpoint ss_run (e : epoch) (s : slot) (ss : slot_state) (ops : list ss_op) : option (slot_state * list pevent) :=
  match ops with
  | [] => Some (ss, [])
  | op :: rest =>
    if ss_op_ok s ss op then
      let '(ss1, ev1) := ss_apply e s ss op in
      match ss_run e s ss1 rest with
      | Some (ss2, ev2) => Some (ss2, ev1 ++ ev2)
      | None => None
      end
    else None
  end.

(* ---------- event counting ---------- *)
Definition is_s2n (b : blockid) (x : pevent) : bool :=
  match x with ESafeToNotar b' => bid_eqb b b' | _ => false end.
Definition is_s2s (s : slot) (x : pevent) : bool :=
  match x with ESafeToSkip s' => s =? s' | _ => false end.
Fixpoint ev_count (f : pevent -> bool) (l : list pevent) : nat :=
  match l with [] => O | x :: t => ((if f x then 1 else 0) + ev_count f t)%nat end.
Definition b2n (b : bool) : nat := if b then 1%nat else 0%nat.

(* ---------- the conditions on a pool ---------- *)
(* block b registered with parent par (the pool's own record of the registration) *)
Definition registeredb (p : pool) (b par : blockid) : bool :=
  match blookup b (ft_parents (p_ft p)) with Some par' => bid_eqb par par' | None => false end.
(* par is the genesis block, or the pool holds a notarization, notar-fallback or fast-finalization
   certificate for par *)
Definition is_genesis (par : blockid) : bool := bid_eqb par (0, 0).
Definition holds_parent_certb (p : pool) (par : blockid) : bool :=
  is_genesis par || is_nf_or_stronger (p_ss p (fst par)) (snd par).
Definition retainedb (p : pool) (s : slot) : bool := first_unpruned p <=? s.
Definition pool_s2n_condb (e : epoch) (p : pool) (b par : blockid) : bool :=
  retainedb p (fst b) && registeredb p b par && holds_parent_certb p par
  && own_voted_otherb e (p_ss p (fst b)) (snd b) && s2n_stakeb e (p_ss p (fst b)) (snd b).
Definition pool_s2n_sentb (p : pool) (b : blockid) : bool := s2n_sentb (p_ss p (fst b)) (snd b).
Definition pool_s2s_condb (e : epoch) (p : pool) (s : slot) : bool := retainedb p s && s2s_condb e (p_ss p s).
Definition pool_s2s_sentb (p : pool) (s : slot) : bool := s2s_sent (ss_n (p_ss p s)).

(* operation sequences on the pool; all events raised *)
Fixpoint pool_exec (e : epoch) (p : pool) (ops : list pool_op) : pool * list pevent :=
  match ops with
  | [] => (p, [])
  | op :: rest =>
    let '(p1, _, o) := pool_step e p op in
    let '(p2, evs) := pool_exec e p1 rest in
    (p2, po_events o ++ evs)
  end.

(* the pool with the block-registration variant selected ([false] = the pinned tree, which never treated
   genesis as a certified parent) *)
Definition pool_step_gp (genesis_parent_ok : bool) (e : epoch) (p : pool) (op : pool_op) : pool * presult * pout :=
  match op with
  | OpBlock b par => if p_panicked p then (p, RPanic, po_empty) else pool_add_block_gen genesis_parent_ok e p b par
  | _ => pool_step e p op
  end.
Fixpoint pool_exec_gp (genesis_parent_ok : bool) (e : epoch) (p : pool) (ops : list pool_op) : pool * list pevent :=
  match ops with
  | [] => (p, [])
  | op :: rest =>
    let '(p1, _, o) := pool_step_gp genesis_parent_ok e p op in
    let '(p2, evs) := pool_exec_gp genesis_parent_ok e p1 rest in
    (p2, po_events o ++ evs)
  end.
