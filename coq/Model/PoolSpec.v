(* Specification-level vocabulary for the pool properties (definitions only):
   which vote pairs of one validator in one slot conflict (slashable) or are equivalent (duplicate). *)
From Coq Require Import List NArith Bool.
From AG Require Import Model.Pool.
Import ListNotations.
Open Scope N_scope.

(* notarizing two blocks, skip together with notarize, finalize together with skip / skip-fallback /
   notar-fallback: symmetric in the order of arrival *)
Definition conflicts (old new : vkind) : option offence :=
  match old, new with
  | KNotar h, KNotar h' => if h =? h' then None else Some ONotarDifferentHash
  | KSkip, KNotar _ | KNotar _, KSkip => Some OSkipAndNotarize
  | KFinal, KSkip | KSkip, KFinal | KFinal, KSkipFb | KSkipFb, KFinal => Some OSkipAndFinalize
  | KFinal, KNotarFb _ | KNotarFb _, KFinal => Some ONotarFallbackAndFinalize
  | _, _ => None
  end.

(* exact repeats and equivalent repeats (notar + notar-fallback for the same block, skip + skip-fallback) *)
Definition equivalent (old new : vkind) : bool :=
  match old, new with
  | KNotar h, KNotar h' | KNotarFb h, KNotarFb h' | KNotar h, KNotarFb h' | KNotarFb h, KNotar h' => h =? h'
  | KSkip, KSkip | KSkipFb, KSkipFb | KSkip, KSkipFb | KSkipFb, KSkip | KFinal, KFinal => true
  | _, _ => false
  end.

(* vote of class k by validator v is stored in the slot state *)
Definition stored (ss : slot_state) (v : vidx) (k : vkind) : Prop :=
  match k with
  | KNotar h => alookup v (vo_notar (ss_v ss)) = Some h
  | KNotarFb h => has_nf_vote ss v h = true
  | KSkip => memN v (vo_skip (ss_v ss)) = true
  | KSkipFb => memN v (vo_sf (ss_v ss)) = true
  | KFinal => memN v (vo_fin (ss_v ss)) = true
  end.

(* the pool's admission guard for a vote in an existing slot state *)
Definition admitted (ss : slot_state) (vt : vote) : Prop :=
  check_slashable ss vt = None /\ should_ignore ss vt = false.

(* ---------- certificate validity as a receiver checks it (ValidatedCert::try_new, thresholds) ---------- *)
Definition union_signers (c : cert) : list vidx := c_s1 c ++ filter (fun v => negb (memN v (c_s1 c))) (c_s2 c).
Definition cert_threshold_ok (e : epoch) (c : cert) : bool :=
  let st := stake_sum e (union_signers c) in
  match c_kind c with CFastFinal _ => is_strong_quorum e st | _ => is_quorum e st end.
Definition cert_vote_kinds (k : ckind) : vkind * option vkind :=
  match k with
  | CNotar h | CFastFinal h => (KNotar h, None)
  | CNotarFb h => (KNotar h, Some (KNotarFb h))
  | CSkip => (KSkip, Some KSkipFb)
  | CFinal => (KFinal, None)
  end.
(* validators (ascending) with a stored vote of class k *)
Definition voters (e : epoch) (ss : slot_state) (k : vkind) : list vidx :=
  match k with
  | KNotar h => notar_voters e ss h
  | KNotarFb h => nf_voters e ss h
  | KSkip => skip_voters e ss
  | KSkipFb => sf_voters e ss
  | KFinal => fin_voters e ss
  end.
(* signers are exactly the validators with a stored matching vote; declared stake is their sum *)
Definition cert_signers_exact (e : epoch) (ss : slot_state) (s : slot) (c : cert) : Prop :=
  c_slot c = s /\
  c_s1 c = voters e ss (fst (cert_vote_kinds (c_kind c))) /\
  c_s2 c = match snd (cert_vote_kinds (c_kind c)) with Some k => voters e ss k | None => [] end /\
  c_stake c = stake_sum e (c_s1 c) + stake_sum e (c_s2 c).

(* running totals equal the stake of the validators with stored votes (each counted once) *)
Definition totals_ok (e : epoch) (ss : slot_state) : Prop :=
  (forall h, aget 0 h (st_notar (ss_t ss)) = stake_sum e (notar_voters e ss h)) /\
  (forall h, aget 0 h (st_nf (ss_t ss)) = stake_sum e (nf_voters e ss h)) /\
  st_skip (ss_t ss) = stake_sum e (skip_voters e ss) /\
  st_sf (ss_t ss) = stake_sum e (sf_voters e ss) /\
  st_fin (ss_t ss) = stake_sum e (fin_voters e ss).
(* no validator is stored in both halves of a mixed certificate class *)
Definition halves_disjoint (ss : slot_state) : Prop :=
  (forall v h, alookup v (vo_notar (ss_v ss)) = Some h -> has_nf_vote ss v h = false) /\
  (forall v, memN v (vo_skip (ss_v ss)) = true -> memN v (vo_sf (ss_v ss)) = false).
