(* Executable model of the execution-state building blocks (definitions only):
     src/execution/state.rs       persistent 32-way bitmap trie over 32-byte addresses
     src/execution/commitment.rs  LtHash (1024 lanes of u16, lane-wise wrapping add / sub)
     src/execution.rs             DummyExecution (placeholder engine)

   The trie is modelled as a persistent tree: a branch is its u32 bitmap (an N) plus the vector of
   children (one per set bit, in increasing chunk order), a leaf is (key, value).  `Arc::make_mut`
   path copying is invisible in a persistent model - what the implementation must guarantee is that
   every fork behaves as if it owned a private copy, which is what the correspondence check exercises.
   Every `unreachable!`, slice index and `expect` of the Rust code is an explicit `Panic` outcome.

   Hashing is a parameter of the lattice hash and of the engine (`he` = LtHash::hash_entry,
   `H` = SHA-256); the runner instantiates it with Lib/Sha256.v.

   Private constants mirrored here (no public accessor in /repo): BITS_PER_LEVEL = 5, FANOUT = 32,
   address length 32, NUM_LANES = 1024, LANES_PER_BLOCK = 16.

   MODELLED_FUNCTIONS: State::new State::len State::get State::insert State::remove State::iter
     State::insert_rec State::remove_rec State::eq Iter::next Branch::child_index Branch::insert_child
     Branch::remove_child chunk_at split_leaves take_leaf_value LtHash::identity LtHash::add_entry
     LtHash::remove_entry LtHash::observe LtHash::digest LtHash::hash_entry LtHash::add_assign
     LtHash::sub_assign DummyExecution::new DummyExecution::begin_block
     DummyExecution::execute_transactions DummyExecution::end_block (current and pinned variant)
     DummyExecution::finalize *)
From Coq Require Import List NArith Bool.
Import ListNotations.
Open Scope N_scope.

Inductive res (A : Type) : Type := Ok (a : A) | Panic.
Arguments Ok {A} a.
Arguments Panic {A}.

(* ------------------------------------------------------------------ keys *)
Definition key := list N.        (* Address = [u8; 32] *)
Definition value := list N.      (* AccountData = Vec<u8> *)
Definition BITS_PER_LEVEL : N := 5.
Definition FANOUT : N := 32.
Definition KEY_LEN : nat := 32%nat.

Fixpoint bytes_eqb (a b : list N) : bool :=
  match a, b with
  | [], [] => true
  | x :: a', y :: b' => (x =? y) && bytes_eqb a' b'
  | _, _ => false
  end.

(* lexicographic order on byte strings = Ord for [u8; 32] = the order of BTreeMap<Address, _> *)
Fixpoint bytes_ltb (a b : list N) : bool :=
  match a, b with
  | [], [] => false
  | [], _ :: _ => true
  | _ :: _, [] => false
  | x :: a', y :: b' => if x <? y then true else if y <? x then false else bytes_ltb a' b'
  end.

(* chunk_at: the window is a u16 built from key[bit/8] and key.get(bit/8+1); key[bit/8] panics when
   out of range (depth >= 52 for a 32-byte key; the debug_assert is compiled out) *)
Definition win_chunk (b0 lo r : N) : N :=
  N.land (N.shiftr (N.lor (N.shiftl b0 8) lo) (16 - BITS_PER_LEVEL - r)) (FANOUT - 1).
Definition chunk_at (k : key) (depth : N) : res N :=
  let bit := depth * BITS_PER_LEVEL in
  match nth_error k (N.to_nat (bit / 8)) with
  | None => Panic
  | Some b0 =>
    let lo := match nth_error k (N.to_nat (bit / 8 + 1)) with Some b => b | None => 0 end in
    Ok (win_chunk b0 lo (bit mod 8))
  end.

(* ------------------------------------------------------------------ trie nodes *)
Inductive node : Type :=
| Leaf (k : key) (v : value)
| Branch (bitmap : N) (children : list node).

Record state := mkState { st_root : node; st_len : N }.

Definition state_new : state := mkState (Branch 0 []) 0.

(* u32::count_ones *)
Fixpoint pop_pos (p : positive) : nat :=
  match p with xH => 1%nat | xO q => pop_pos q | xI q => S (pop_pos q) end.
Definition popcount (n : N) : nat := match n with N0 => 0%nat | Npos p => pop_pos p end.

Definition rank (bm chunk : N) : nat := popcount (N.land bm (N.shiftl 1 chunk - 1)).
Definition child_index (bm chunk : N) : option nat :=
  if N.land bm (N.shiftl 1 chunk) =? 0 then None else Some (rank bm chunk).

Definition insert_at {A} (i : nat) (x : A) (l : list A) : list A := firstn i l ++ x :: skipn i l.
Definition remove_at {A} (i : nat) (l : list A) : list A := firstn i l ++ skipn (S i) l.
Definition set_nth {A} (i : nat) (x : A) (l : list A) : list A := firstn i l ++ x :: skipn (S i) l.

Definition insert_child (bm : N) (cs : list node) (chunk : N) (child : node) : N * list node :=
  (N.lor bm (N.shiftl 1 chunk), insert_at (rank bm chunk) child cs).
(* bitmap &= !(1 << chunk) on u32 *)
Definition remove_child (bm : N) (cs : list node) (idx : nat) (chunk : N) : N * list node :=
  (N.ldiff bm (N.shiftl 1 chunk), remove_at idx cs).

(* ------------------------------------------------------------------ get *)
Fixpoint get_rec (fuel : nat) (n : node) (k : key) (depth : N) : res (option value) :=
  match n with
  | Leaf lk lv => Ok (if bytes_eqb lk k then Some lv else None)
  | Branch bm cs =>
    match fuel with
    | O => Panic
    | S f =>
      match chunk_at k depth with
      | Panic => Panic
      | Ok c =>
        match child_index bm c with
        | None => Ok None
        | Some idx =>
          match nth_error cs idx with
          | None => Panic
          | Some ch => get_rec f ch k (depth + 1)
          end
        end
      end
    end
  end.

Definition FUEL : nat := 64%nat.
Definition st_get (s : state) (k : key) : res (option value) := get_rec FUEL (st_root s) k 0.

(* ------------------------------------------------------------------ insert *)
Fixpoint split_leaves (fuel : nat) (depth : N) (k1 : key) (v1 : value) (k2 : key) (v2 : value) : res node :=
  match fuel with
  | O => Panic
  | S f =>
    match chunk_at k1 depth, chunk_at k2 depth with
    | Ok c1, Ok c2 =>
      if c1 =? c2 then
        match split_leaves f (depth + 1) k1 v1 k2 v2 with
        | Panic => Panic
        | Ok child => let '(bm, cs) := insert_child 0 [] c1 child in Ok (Branch bm cs)
        end
      else
        let '(bm1, cs1) := insert_child 0 [] c1 (Leaf k1 v1) in
        let '(bm2, cs2) := insert_child bm1 cs1 c2 (Leaf k2 v2) in
        Ok (Branch bm2 cs2)
    | _, _ => Panic
    end
  end.

(* returns the new node and the previous value *)
Fixpoint insert_rec (fuel : nat) (n : node) (depth : N) (k : key) (v : value) : res (node * option value) :=
  match fuel with
  | O => Panic
  | S f =>
    match n with
    | Leaf _ _ => Panic                                  (* unreachable!: only called on branch nodes *)
    | Branch bm cs =>
      match chunk_at k depth with
      | Panic => Panic
      | Ok c =>
        match child_index bm c with
        | None => let '(bm', cs') := insert_child bm cs c (Leaf k v) in Ok (Branch bm' cs', None)
        | Some idx =>
          match nth_error cs idx with
          | None => Panic
          | Some (Branch cb cc) =>
            match insert_rec f (Branch cb cc) (depth + 1) k v with
            | Panic => Panic
            | Ok (child', old) => Ok (Branch bm (set_nth idx child' cs), old)
            end
          | Some (Leaf lk lv) =>
            if bytes_eqb lk k then Ok (Branch bm (set_nth idx (Leaf lk v) cs), Some lv)
            else
              match split_leaves f (depth + 1) lk lv k v with
              | Panic => Panic
              | Ok sub => Ok (Branch bm (set_nth idx sub cs), None)
              end
          end
        end
      end
    end
  end.

Definition st_insert (s : state) (k : key) (v : value) : res (state * option value) :=
  match insert_rec FUEL (st_root s) 0 k v with
  | Panic => Panic
  | Ok (r, old) => Ok (mkState r (match old with None => st_len s + 1 | Some _ => st_len s end), old)
  end.

(* ------------------------------------------------------------------ remove *)
(* "If the child branch is left with a single leaf child, collapse it into that leaf." *)
Definition collapse_single (n : node) : node :=
  match n with
  | Branch _ [Leaf ck cv] => Leaf ck cv
  | other => other
  end.

Fixpoint remove_rec (fuel : nat) (n : node) (depth : N) (k : key) : res (node * option value) :=
  match fuel with
  | O => Panic
  | S f =>
    match n with
    | Leaf _ _ => Panic
    | Branch bm cs =>
      match chunk_at k depth with
      | Panic => Panic
      | Ok c =>
        match child_index bm c with
        | None => Ok (n, None)
        | Some idx =>
          match nth_error cs idx with
          | None => Panic
          | Some (Leaf lk lv) =>
            if bytes_eqb lk k
            then let '(bm', cs') := remove_child bm cs idx c in Ok (Branch bm' cs', Some lv)
            else Ok (n, None)
          | Some (Branch cb cc) =>
            match remove_rec f (Branch cb cc) (depth + 1) k with
            | Panic => Panic
            | Ok (_, None) => Ok (n, None)
            | Ok (child', Some old) =>
              Ok (Branch bm (set_nth idx (collapse_single child') cs), Some old)
            end
          end
        end
      end
    end
  end.

Definition st_remove (s : state) (k : key) : res (state * option value) :=
  match st_get s k with
  | Panic => Panic
  | Ok None => Ok (s, None)                               (* fast path: nothing copied *)
  | Ok (Some _) =>
    match remove_rec FUEL (st_root s) 0 k with
    | Panic => Panic
    | Ok (_, None) => Panic                               (* expect("key was found by the lookup right before") *)
    | Ok (r, Some old) => if st_len s =? 0 then Panic else Ok (mkState r (st_len s - 1), Some old)
    end
  end.

(* ------------------------------------------------------------------ iteration, equality *)
(* in-order traversal *)
Fixpoint to_list (n : node) : list (key * value) :=
  match n with
  | Leaf k v => [(k, v)]
  | Branch _ cs => (fix go (l : list node) := match l with [] => [] | c :: t => to_list c ++ go t end) cs
  end.

(* Iter::next as the stack machine of the implementation: pop; a leaf is yielded, a branch pushes its
   children in reverse so that the first child is on top *)
Fixpoint iter_run (fuel : nat) (stack : list node) : res (list (key * value)) :=
  match stack with
  | [] => Ok []
  | n :: rest =>
    match fuel with
    | O => Panic
    | S f =>
      match n with
      | Leaf k v => match iter_run f rest with Panic => Panic | Ok l => Ok ((k, v) :: l) end
      | Branch _ cs => iter_run f (cs ++ rest)
      end
    end
  end.
Fixpoint node_size (n : node) : nat :=
  match n with
  | Leaf _ _ => 1%nat
  | Branch _ cs => S ((fix go (l : list node) := match l with [] => 0%nat | c :: t => (node_size c + go t)%nat end) cs)
  end.
Definition st_iter (s : state) : res (list (key * value)) := iter_run (S (node_size (st_root s))) [st_root s].

(* derived PartialEq: structural *)
Fixpoint node_eqb (a b : node) : bool :=
  match a, b with
  | Leaf k1 v1, Leaf k2 v2 => bytes_eqb k1 k2 && bytes_eqb v1 v2
  | Branch b1 c1, Branch b2 c2 =>
    (b1 =? b2) &&
    (fix go (l1 l2 : list node) : bool :=
       match l1, l2 with
       | [], [] => true
       | x :: t1, y :: t2 => node_eqb x y && go t1 t2
       | _, _ => false
       end) c1 c2
  | _, _ => false
  end.
Definition state_eqb (a b : state) : bool := node_eqb (st_root a) (st_root b) && (st_len a =? st_len b).

(* ------------------------------------------------------------------ reference ordered map *)
Fixpoint m_find (k : key) (l : list (key * value)) : option value :=
  match l with [] => None | (k', v) :: t => if bytes_eqb k' k then Some v else m_find k t end.
Fixpoint m_ins (k : key) (v : value) (l : list (key * value)) : list (key * value) :=
  match l with
  | [] => [(k, v)]
  | (k', v') :: t =>
    if bytes_ltb k k' then (k, v) :: l
    else if bytes_eqb k' k then (k', v) :: t
    else (k', v') :: m_ins k v t
  end.
Fixpoint m_del (k : key) (l : list (key * value)) : list (key * value) :=
  match l with
  | [] => []
  | (k', v') :: t => if bytes_eqb k' k then t else (k', v') :: m_del k t
  end.

(* ------------------------------------------------------------------ lattice hash *)
Definition NUM_LANES : nat := 1024%nat.
Definition LANE_MOD : N := 65536.
Definition lanes := list N.

Definition lt_identity : lanes := repeat 0 NUM_LANES.
Fixpoint lanes_add (a b : lanes) : lanes :=            (* zip + wrapping_add *)
  match a, b with x :: a', y :: b' => ((x + y) mod LANE_MOD) :: lanes_add a' b' | _, _ => a end.
Fixpoint lanes_sub (a b : lanes) : lanes :=            (* zip + wrapping_sub *)
  match a, b with x :: a', y :: b' => ((x + LANE_MOD - y) mod LANE_MOD) :: lanes_sub a' b' | _, _ => a end.

Section LtHash.
  Variable he : key -> value -> lanes.                  (* LtHash::hash_entry *)
  Definition lt_add_entry (l : lanes) (k : key) (v : value) : lanes := lanes_add l (he k v).
  Definition lt_remove_entry (l : lanes) (k : key) (v : value) : lanes := lanes_sub l (he k v).
  Definition lt_observe (l : lanes) (k : key) (old new : option value) : lanes :=
    let l1 := match old with Some o => lt_remove_entry l k o | None => l end in
    match new with Some n => lt_add_entry l1 k n | None => l1 end.
  (* the commitment recomputed from scratch over the contents *)
  Definition lt_of_contents (c : list (key * value)) : lanes :=
    fold_left (fun l kv => lt_add_entry l (fst kv) (snd kv)) c lt_identity.
End LtHash.

Definition lane_le_bytes (x : N) : list N := [x mod 256; x / 256].
Definition lanes_bytes (l : lanes) : list N := flat_map lane_le_bytes l.

(* ------------------------------------------------------------------ a world of forks *)
(* one fork = a State together with the LtHash maintained next to it via observe *)
Record fork := mkFork { fk_state : state; fk_lt : lanes }.
Inductive sop :=
| SInsert (f : nat) (k : key) (v : value)
| SRemove (f : nat) (k : key)
| SFork (f : nat).                                      (* clone fork f; the clone is appended *)

Section World.
  Variable he : key -> value -> lanes.
  Definition fork_new : fork := mkFork state_new lt_identity.
  Definition fork_insert (x : fork) (k : key) (v : value) : res (fork * option value) :=
    match st_insert (fk_state x) k v with
    | Panic => Panic
    | Ok (s, old) => Ok (mkFork s (lt_observe he (fk_lt x) k old (Some v)), old)
    end.
  Definition fork_remove (x : fork) (k : key) : res (fork * option value) :=
    match st_remove (fk_state x) k with
    | Panic => Panic
    | Ok (s, old) => Ok (mkFork s (lt_observe he (fk_lt x) k old None), old)
    end.
  (* a step returns the new world and the operation's return value; an operation on a fork that does
     not exist is ignored *)
  Definition world_step (w : list fork) (o : sop) : res (list fork * option value) :=
    match o with
    | SInsert f k v =>
      match nth_error w f with
      | None => Ok (w, None)
      | Some x => match fork_insert x k v with Panic => Panic | Ok (x', old) => Ok (set_nth f x' w, old) end
      end
    | SRemove f k =>
      match nth_error w f with
      | None => Ok (w, None)
      | Some x => match fork_remove x k with Panic => Panic | Ok (x', old) => Ok (set_nth f x' w, old) end
      end
    | SFork f =>
      match nth_error w f with
      | None => Ok (w, None)
      | Some x => Ok (w ++ [x], None)
      end
    end.
  Fixpoint world_run (w : list fork) (ops : list sop) : res (list fork) :=
    match ops with
    | [] => Ok w
    | o :: t => match world_step w o with Panic => Panic | Ok (w', _) => world_run w' t end
    end.
End World.

(* the same operations on plain ordered maps (the reference) *)
Definition ref_step (w : list (list (key * value))) (o : sop) : list (list (key * value)) :=
  match o with
  | SInsert f k v => match nth_error w f with None => w | Some m => set_nth f (m_ins k v m) w end
  | SRemove f k => match nth_error w f with None => w | Some m => set_nth f (m_del k m) w end
  | SFork f => match nth_error w f with None => w | Some m => w ++ [m] end
  end.
Definition ref_run (w : list (list (key * value))) (ops : list sop) : list (list (key * value)) :=
  fold_left ref_step ops w.

(* ------------------------------------------------------------------ placeholder engine *)
Definition hash := list N.
Definition block_id := (N * hash)%type.
Inductive ipb := Pending (slot : N) | Known (slot : N) (h : hash).
Definition ipb_slot (i : ipb) : N := match i with Pending s => s | Known s _ => s end.
Definition ipb_eqb (a b : ipb) : bool :=
  match a, b with
  | Pending s, Pending t => s =? t
  | Known s h, Known t g => (s =? t) && bytes_eqb h g
  | _, _ => false
  end.
Record block_exec := mkExec { be_count : N; be_hash : hash }.
Definition engine := list (ipb * block_exec).           (* BTreeMap<InProgressBlock, BlockExec> *)

Fixpoint eng_get (e : engine) (i : ipb) : option block_exec :=
  match e with [] => None | (j, x) :: t => if ipb_eqb j i then Some x else eng_get t i end.
Fixpoint eng_put (e : engine) (i : ipb) (x : block_exec) : engine :=
  match e with
  | [] => [(i, x)]
  | (j, y) :: t => if ipb_eqb j i then (j, x) :: t else (j, y) :: eng_put t i x
  end.

Inductive eop :=
| EBegin (id : ipb) (parent : option block_id)
| EExec (id : ipb) (txs : list (list N))
| EEnd (b : block_id)
| EFinalize (b : block_id).
(* ExecutionEvent::BlockExecuted { block_id, result: Ok(ExecutionResult { tx_count, state_commitment }) } *)
Definition eevent := (block_id * N * hash)%type.

(* BTreeMap::remove *)
Definition eng_del (e : engine) (i : ipb) : engine := filter (fun jx => negb (ipb_eqb (fst jx) i)) e.

Section Engine.
  Variable H : list N -> list N.                        (* SHA-256; hash_all = H of the concatenation *)
  Variable genesis : hash.                              (* GENESIS_BLOCK_HASH *)
  (* rekey = true : the current code (fix 2f23043): end_block files a pending block under its full
                    identifier, Known(block_id), before reporting;
     rekey = false: the pinned tree: end_block looks up Known(block_id), else Pending(slot), and leaves the
                    entry where it is *)
  Variable rekey : bool.

  Definition eng_lookup_block (e : engine) (b : block_id) : option block_exec :=
    match eng_get e (Known (fst b) (snd b)) with
    | Some x => Some x
    | None => eng_get e (Pending (fst b))                (* regardless of the hash *)
    end.
  (* begin_block's parent lookup (unchanged by the fix) *)
  Definition eng_seed (e : engine) (parent : option block_id) : hash :=
    match parent with
    | None => genesis
    | Some p => match eng_lookup_block e p with Some x => be_hash x | None => snd p end
    end.
  Definition fold_txs (h : hash) (txs : list (list N)) : hash := fold_left (fun a tx => H (a ++ tx)) txs h.

  Definition eng_end (e : engine) (b : block_id) : engine * list eevent :=
    if rekey then
      let known := Known (fst b) (snd b) in
      match eng_get e known with
      | Some x => (e, [(b, be_count x, be_hash x)])
      | None =>
        match eng_get e (Pending (fst b)) with
        | Some x => (eng_put (eng_del e (Pending (fst b))) known x, [(b, be_count x, be_hash x)])
        | None => (e, [])
        end
      end
    else
      match eng_lookup_block e b with
      | None => (e, [])
      | Some x => (e, [(b, be_count x, be_hash x)])
      end.

  Definition eng_step (e : engine) (o : eop) : engine * list eevent :=
    match o with
    | EBegin id parent => (eng_put e id (mkExec 0 (eng_seed e parent)), [])
    | EExec id txs =>
      match eng_get e id with
      | None => (e, [])
      | Some x => (eng_put e id (mkExec (be_count x + N.of_nat (length txs)) (fold_txs (be_hash x) txs)), [])
      end
    | EEnd b => eng_end e b
    | EFinalize b => (filter (fun ix => fst b <=? ipb_slot (fst ix)) e, [])
    end.
  Fixpoint eng_run (e : engine) (ops : list eop) : list eevent :=
    match ops with
    | [] => []
    | o :: t => let '(e', ev) := eng_step e o in ev ++ eng_run e' t
    end.
  (* the engine after a sequence of calls *)
  Definition eng_state (e : engine) (ops : list eop) : engine := fold_left (fun e o => fst (eng_step e o)) ops e.
End Engine.
