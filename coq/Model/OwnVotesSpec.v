(* Specification vocabulary for the last clause of C05: "a correct node's own votes are never a
   slashable combination" (definitions only; nothing here is run by an oracle).

     own_votes          the votes a Votor trace DECIDES, in the order cast (standstill bundles excluded:
                        Model/NodeRules.v decision_votes)
     slashable_pair     two votes of one validator in one slot that the pool's conflict relation
                        (Model/PoolSpec.v conflicts) calls an offence
     conflict_free      no earlier / later pair of a list is slashable (executable)
     replay_verdicts    the verdict the pool's vote-admission model (check_slashable / should_ignore /
                        ss_add_vote, proved to implement [conflicts] / [equivalent] in C04) gives to each
                        vote of a list replayed in order - the verdict-level version of the oracle's
                        Oracle/VotorRun.v replay_own
     votor_after        the Votor state after an input sequence
     cast_ok            a vote is cast for a slot that is neither pruned nor retired in the state it is
                        cast in - except the repetition of a finalization vote already cast
     node-level         which broadcasts of a composed node (Model/Node.v) are decisions, which are the
                        re-broadcast of a standstill bundle, and the loopback premise: an own-signed vote
                        reaches the node's pool only after the node broadcast it (signatures: C09)

   MODELLED_FUNCTIONS: (specification only) *)
From Coq Require Import List NArith Bool.
From AG Require Import Gen.Params Model.Pool Model.PoolSpec Model.Votor Model.NodeRules Model.Node.
Import ListNotations.
Open Scope N_scope.

(* ---------- the own votes of a Votor trace ---------- *)
Definition own_votes (tr : list (vin * list vout)) : list vote :=
  flat_map (fun io => decision_votes (fst io) (snd io)) tr.

Definition is_offence (k k' : vkind) : bool := match conflicts k k' with Some _ => true | None => false end.
Definition slashable_pair (v w : vote) : bool :=
  (v_slot v =? v_slot w) && (v_signer v =? v_signer w) && is_offence (v_kind v) (v_kind w).

Fixpoint conflict_free_from (older vs : list vote) : bool :=
  match vs with
  | [] => true
  | x :: t => forallb (fun w => negb (slashable_pair w x)) older && conflict_free_from (older ++ [x]) t
  end.
Definition conflict_free (vs : list vote) : bool := conflict_free_from [] vs.

(* ---------- replay through the pool's vote-admission model ---------- *)
Fixpoint replay_verdicts (e : epoch) (ss : list (slot * slot_state)) (vs : list vote) : list verdict :=
  match vs with
  | [] => []
  | v :: t =>
    let st := aget ss_empty (v_slot v) ss in
    match check_slashable st v with
    | Some o => VSlashable o :: replay_verdicts e ss t
    | None => if should_ignore st v then VDuplicate :: replay_verdicts e ss t
              else VOk :: replay_verdicts e (ainsert (v_slot v) (fst (ss_add_vote e st v)) ss) t
    end
  end.

(* the j-th vote is an exact or equivalent repeat (PoolSpec.equivalent) of an earlier vote of the list *)
Definition repeats_earlier (vs : list vote) (j : nat) : Prop :=
  exists w x, nth_error vs j = Some x /\ In w (firstn j vs) /\
              v_slot w = v_slot x /\ v_signer w = v_signer x /\ equivalent (v_kind w) (v_kind x) = true.

(* ---------- where votes are cast ---------- *)
Fixpoint votor_after (own : vidx) (t : votor) (ins : list vin) : votor :=
  match ins with
  | [] => t
  | i :: rest => votor_after own (fst (fst (votor_step own t i))) rest
  end.

(* vote [v], cast in state [t] after the own votes [older] *)
Definition cast_ok (own : vidx) (t : votor) (older : list vote) (v : vote) : Prop :=
  v_signer v = own /\
  v_first_unpruned t <= v_slot v /\
  (v_retired t (v_slot v) = true -> v_kind v = KFinal /\ (v_slot v = 0 \/ In v older)).

(* ---------- the composed node ---------- *)
Definition vkind_eq (a b : vkind) : bool :=
  match a, b with
  | KNotar h, KNotar h' | KNotarFb h, KNotarFb h' => h =? h'
  | KSkip, KSkip | KSkipFb, KSkipFb | KFinal, KFinal => true
  | _, _ => false
  end.
Definition vote_eq (a b : vote) : bool :=
  (v_slot a =? v_slot b) && vkind_eq (v_kind a) (v_kind b) && (v_signer a =? v_signer b).

(* steps of a node run: input and output side by side *)
Fixpoint node_trace (e : epoch) (nd : node) (ins : list nin) : list (nin * nout) :=
  match ins with
  | [] => []
  | i :: rest => let '(nd1, o) := node_step e nd i in (i, o) :: node_trace e nd1 rest
  end.

(* what a node step decides / merely re-broadcasts (the bundle of Pool::recover_from_standstill) *)
Definition nstep_decided (io : nin * nout) : list vote :=
  match fst io with NStandstill => [] | _ => vouts_votes (no_out (snd io)) end.
Definition nstep_rebroadcast (io : nin * nout) : list vote :=
  match fst io with NStandstill => vouts_votes (no_out (snd io)) | _ => [] end.
Definition node_decided (tr : list (nin * nout)) : list vote := flat_map nstep_decided tr.
(* every vote the node hands to All2All::broadcast, decisions and re-broadcasts alike *)
Definition node_broadcast (tr : list (nin * nout)) : list vote :=
  flat_map (fun io => vouts_votes (no_out (snd io))) tr.

(* loopback premise: every own-signed vote handed to the node was decided (and broadcast) by it before *)
Fixpoint loopback_okb (own : vidx) (sent : list vote) (tr : list (nin * nout)) : bool :=
  match tr with
  | [] => true
  | io :: rest =>
    match fst io with
    | NVote v => negb (v_signer v =? own) || existsb (vote_eq v) sent
    | _ => true
    end && loopback_okb own (sent ++ nstep_decided io) rest
  end.

(* every vote re-broadcast by a standstill step was decided in an earlier step *)
Fixpoint rebroadcasts_old (sent : list vote) (tr : list (nin * nout)) : Prop :=
  match tr with
  | [] => True
  | io :: rest =>
    (forall v, In v (nstep_rebroadcast io) -> In v sent) /\ rebroadcasts_old (sent ++ nstep_decided io) rest
  end.

(* the inputs the node's Votor sees during a run (pool events of each pool operation, in order, then
   nothing else; blockstore events and timeouts directly) *)
Definition nin_votor_ins (e : epoch) (p : pool) (i : nin) : list vin :=
  match nin_pool_op i with
  | Some op => map VPool (filter (fun x => negb (pe_is_woken x)) (po_events (snd (pool_step e p op))))
  | None =>
    match i with
    | NFirstShred s => [VFirstShred s]
    | NBlock s h p => [VBlock s h p]
    | NInvalidBlock s => [VInvalidBlock s]
    | NTimeout s => [VTimeout s]
    | NTimeoutCrashed s => [VTimeoutCrashed s]
    | _ => []
    end
  end.
Fixpoint node_votor_ins (e : epoch) (nd : node) (ins : list nin) : list vin :=
  match ins with
  | [] => []
  | i :: rest => nin_votor_ins e (nd_pool nd) i ++ node_votor_ins e (fst (node_step e nd i)) rest
  end.
