(* Specification vocabulary for C13 (definitions only; nothing here is run by the oracle):
   an HONEST BLOCK as the blockstore model sees it, the honest shreds of it, "enough shreds delivered",
   and the run of a list of dissemination shreds through [bs_step] from the empty slot state. *)
From Coq Require Import List NArith Bool.
From AG Require Import Gen.Params Model.Pool Model.Blockstore.
Import ListNotations.
Open Scope N_scope.

(* one entry per slice, in slice order: (slice root id, payload size of every shred of the slice) *)
Definition hblock := list (N * N).
Definition hb_len (hb : hblock) : N := N.of_nat (length hb).
Definition hb_root (hb : hblock) (i : N) : N := fst (nth (N.to_nat i) hb (0, 0)).
Definition hb_size (hb : hblock) (i : N) : N := snd (nth (N.to_nat i) hb (0, 0)).
Definition hb_is_last (hb : hblock) (i : N) : bool := i =? hb_len hb - 1.

(* the leader's shred number j of slice i *)
Definition hshred (hb : hblock) (i j : N) : bshred :=
  mkBS i (hb_is_last hb i) (hb_root hb i) j (j <? DATA_SHREDS) (hb_size hb i).
Definition honest_shred (hb : hblock) (s : bshred) : bool :=
  (b_slice s <? hb_len hb) && (b_index s <? TOTAL_SHREDS) && bshred_eqb s (hshred hb (b_slice s) (b_index s)).

(* what slice i decodes to, the block's slices, hash and parent *)
Definition hb_rslice (ct : content) (hb : hblock) (i : N) : rslice :=
  match content_of ct (hb_root hb i) with
  | DecOk p ok => mkRS (hb_root hb i) p ok
  | DecErr => mkRS (hb_root hb i) None false
  end.
Definition hb_slices (ct : content) (hb : hblock) : list (N * rslice) :=
  map (fun i => (i, hb_rslice ct hb i)) (seqN 0 (length hb)).
Definition hb_hash (hb : hblock) : blockhash := map fst hb.
Definition hb_parent (ct : content) (hb : hblock) : option blockid :=
  match rs_parent (hb_rslice ct hb 0) with
  | Some p0 => walk_slices (hb_slices ct hb) p0 false
  | None => None
  end.

(* HONEST BLOCK (decidable): at least one slice; every slice has an even non-zero shred size and decodes
   (content table) with decodable transactions; the first slice carries a parent; the walk over the slices
   in order (parent handover: at most one switch, not to itself) succeeds with a parent in an earlier slot *)
Definition hb_slice_ok (ct : content) (rs : N * N) : bool :=
  negb (snd rs =? 0) && (snd rs mod 2 =? 0)
  && match content_of ct (fst rs) with DecOk _ true => true | _ => false end.
Definition hb_ok (slot : N) (ct : content) (hb : hblock) : bool :=
  negb (hb_len hb =? 0) && forallb (hb_slice_ok ct) hb
  && match hb_parent ct hb with Some p => fst p <? slot | None => false end.

(* the distinct shred indices of slice i among the delivered shreds *)
Definition idxs (l : list bshred) (i : N) : list N := map b_index (filter (fun s => b_slice s =? i) l).
Definition cnt (l : list bshred) (i : N) : N := N.of_nat (length (nodup N.eq_dec (idxs l i))).
Definition slice_ready (l : list bshred) (i : N) : bool := DATA_SHREDS <=? cnt l i.
(* at least DATA_SHREDS distinct indices of EVERY slice were delivered *)
Definition block_ready (hb : hblock) (l : list bshred) : bool := forallb (slice_ready l) (seqN 0 (length hb)).
(* the shred is refused as a duplicate: its (slice, index) was delivered before, or its slice was already
   reconstructed (all TOTAL_SHREDS positions are filled then) *)
Definition is_dup (l : list bshred) (s : bshred) : bool :=
  slice_ready l (b_slice s) || existsb (N.eqb (b_index s)) (idxs l (b_slice s)).

(* run a list of dissemination shreds through the blockstore of one slot, from the empty state;
   outputs in delivery order: (return value, events) *)
Definition bs_dissem_step (ct : content) (slot : N) (acc : slotdata * list (bs_ret * list bevent)) (s : bshred) :=
  let '(sd', r, ev) := bs_step true ct slot (fst acc) (BDissem s) in (sd', snd acc ++ [(r, ev)]).
Definition bs_dissem_run (ct : content) (slot : N) (l : list bshred) : slotdata * list (bs_ret * list bevent) :=
  fold_left (bs_dissem_step ct slot) l (sd_empty, []).
Definition out_events (out : list (bs_ret * list bevent)) : list bevent := flat_map snd out.
Definition is_first_event (e : bevent) : bool := match e with BFirstShred => true | _ => false end.
Definition is_block_event (e : bevent) : bool := match e with BBlock _ _ => true | _ => false end.
Definition is_invalid_event (e : bevent) : bool := match e with BInvalidBlock => true | _ => false end.

(* the complete expected output of one delivery, as a function of what was delivered before *)
Definition expected_out (ct : content) (hb : hblock) (l : list bshred) (s : bshred) : bs_ret * list bevent :=
  if is_dup l s then (BRErr EDuplicate, [])
  else match l with
       | [] => (BROk None, [BFirstShred])
       | _ =>
         if block_ready hb (l ++ [s]) then
           match hb_parent ct hb with
           | Some p => (BROk (Some (hb_hash hb, p)), [BBlock (hb_hash hb) p])
           | None => (BRPanic, [])
           end
         else (BROk None, [])
       end.

(* the expected outputs of delivering [l] after [pre] *)
Fixpoint expected_outs (ct : content) (hb : hblock) (pre l : list bshred) : list (bs_ret * list bevent) :=
  match l with
  | [] => []
  | s :: t => expected_out ct hb pre s :: expected_outs ct hb (pre ++ [s]) t
  end.

(* the delivered shreds reveal equivocation (decidable; any positions, any order):
   two shreds of one slice with different commitments (slice root or last-slice flag) ... *)
Definition reveals_conflict (l : list bshred) : bool :=
  existsb (fun s1 => existsb (fun s2 => (b_slice s1 =? b_slice s2)
                                        && negb (commit_eqb (commitment_of s1) (commitment_of s2))) l) l.
(* ... or a last-slice marker contradicted by a shred of a later slice / a last-slice marker on another slice *)
Definition reveals_last_conflict (l : list bshred) : bool :=
  existsb (fun s1 => b_last s1 && existsb (fun s2 => (b_slice s1 <? b_slice s2)
                                                     || (b_last s2 && negb (b_slice s1 =? b_slice s2))) l) l.

(* the leader's own fast path: add_own_slice for the slices of the block, in order *)
Definition own_ops (hb : hblock) : list bs_op :=
  map (fun i => BOwnSlice i (hb_is_last hb i) (hb_root hb i) (hb_size hb i)) (seqN 0 (length hb)).
Definition bs_ops_step (ct : content) (slot : N) (acc : slotdata * list (bs_ret * list bevent)) (op : bs_op) :=
  let '(sd', r, ev) := bs_step true ct slot (fst acc) op in (sd', snd acc ++ [(r, ev)]).
Definition bs_ops_run (ct : content) (slot : N) (ops : list bs_op) : slotdata * list (bs_ret * list bevent) :=
  fold_left (bs_ops_step ct slot) ops (sd_empty, []).

(* (h, p) is a well-formed block w.r.t. the decoding table: h lists the roots of slices 0..n-1, every one of
   them decodes and its transactions decode, the first carries a parent, the parent walk (at most one switch,
   not to itself) ends in p, and p lies in an earlier slot *)
Definition valid_block (ct : content) (slot : N) (h : blockhash) (p : blockid) : Prop :=
  exists (sl : list (N * rslice)) (first : rslice) (p0 : blockid),
    h = map (fun x => rs_root (snd x)) sl /\
    map fst sl = seqN 0 (length sl) /\
    (forall i r, In (i, r) sl -> content_of ct (rs_root r) = DecOk (rs_parent r) true) /\
    alookup 0 sl = Some first /\ rs_parent first = Some p0 /\
    walk_slices sl p0 false = Some p /\ fst p < slot.

(* ---------- the tag guard ("fix: do not blame the leader for a shred whose type contradicts its index") ---------- *)
(* the same shred with its (unsigned) data / coding tag flipped *)
Definition flip_tag (s : bshred) : bshred :=
  mkBS (b_slice s) (b_last s) (b_root s) (b_index s) (negb (b_is_data s)) (b_size s).
(* an honest shred of the block, or ANY shred whose tag contradicts its index (e.g. an honest one flipped in
   transit) *)
Definition honest_or_flipped (hb : hblock) (s : bshred) : bool := honest_shred hb s || negb (shred_tag_ok s).
(* the dissemination run with the guard selectable: [true] = current tree (= bs_dissem_run), [false] = pinned *)
Definition bs_dissem_step_gen (tagchk : bool) (ct : content) (slot : N) (acc : slotdata * list (bs_ret * list bevent)) (s : bshred) :=
  let '(sd', r, ev) := bs_step_gen tagchk true ct slot (fst acc) (BDissem s) in (sd', snd acc ++ [(r, ev)]).
Definition bs_dissem_run_gen (tagchk : bool) (ct : content) (slot : N) (l : list bshred) : slotdata * list (bs_ret * list bevent) :=
  fold_left (bs_dissem_step_gen tagchk ct slot) l (sd_empty, []).
(* the outputs of a run over [l], given the outputs [outs] of the run over the tag-consistent shreds of [l]:
   every tag-inconsistent shred is answered InvalidShred without an event, the others as if it had not been there *)
Fixpoint weave_refusals (l : list bshred) (outs : list (bs_ret * list bevent)) : list (bs_ret * list bevent) :=
  match l with
  | [] => []
  | s :: t => if shred_tag_ok s
              then match outs with o :: os => o :: weave_refusals t os | [] => [] end
              else (BRErr EInvalidShred, []) :: weave_refusals t outs
  end.
