(* Executable model of the repair protocol (definitions only):  src/repair.rs
     requester: Repair::{repair_block, handle_response, send_request} and the time-out arm of repair_loop
     responder: RepairRequestHandler::{answer_request, try_build_response}
   Merkle proof checks are abstract booleans computed by the harness with the real (C15-verified)
   DoubleMerkleTree; a shred is the abstract shred of Model/Blockstore.v plus "leader signature valid".
   Peers are not modelled (any response may come from anyone); a request is identified by its type.

   MODELLED_FUNCTIONS: Repair::{repair_block,handle_response,send_request} repair_loop (timeout arm)
     RepairRequestHandler::{answer_request,try_build_response} *)
From Coq Require Import List NArith Bool.
From AG Require Import Gen.Params Model.Pool Model.Blockstore.
Import ListNotations.
Open Scope N_scope.

Inductive rreq := RLast (b : N) | RRoot (b : N) (slice : N) | RShred (b : N) (slice : N) (index : N).
Definition rreq_eqb (a b : rreq) : bool :=
  match a, b with
  | RLast x, RLast y => x =? y
  | RRoot x s, RRoot y t => (x =? y) && (s =? t)
  | RShred x s i, RShred y t j => (x =? y) && (s =? t) && (i =? j)
  | _, _ => false
  end.

Inductive rresp :=
| PNack (r : rreq)
| PLast (r : rreq) (last : N) (root : N) (proof_ok : bool)      (* proof_ok: check_proof_last against the block hash *)
| PRoot (r : rreq) (root : N) (proof_ok : bool)                 (* proof_ok: check_proof against the block hash *)
| PShred (r : rreq) (slot_ok : bool) (s : bshred) (sig_ok : bool).  (* slot_ok: header slot = requested slot *)

Definition resp_req (p : rresp) : rreq :=
  match p with PNack r | PLast r _ _ _ | PRoot r _ _ | PShred r _ _ _ => r end.

Record repair := mkRepair {
  rp_outstanding : list rreq;
  rp_roots : list ((N * N) * N);          (* (block, slice) -> proven slice root *)
  rp_lasts : list (N * N);                 (* block -> proven index of its last slice *)
  rp_store : slotdata;                     (* the blockstore's per-slot data (repaired blocks) *)
  rp_panicked : bool
}.
Definition repair_init : repair := mkRepair [] [] [] sd_empty false.

Inductive rout := OSend (r : rreq) | OBlockToPool (key : N) (h : blockhash) (parent : blockid).

Definition has_req (rp : repair) (r : rreq) : bool := existsb (rreq_eqb r) (rp_outstanding rp).
Definition add_req (l : list rreq) (r : rreq) : list rreq := if existsb (rreq_eqb r) l then l else l ++ [r].
Definition del_req (l : list rreq) (r : rreq) : list rreq := filter (fun x => negb (rreq_eqb r x)) l.
Fixpoint root_lookup (k : N * N) (m : list ((N * N) * N)) : option N :=
  match m with [] => None | (k', v) :: t => if (fst k =? fst k') && (snd k =? snd k') then Some v else root_lookup k t end.
Definition root_insert (k : N * N) (v : N) (m : list ((N * N) * N)) : list ((N * N) * N) :=
  (k, v) :: filter (fun kv => negb ((fst k =? fst (fst kv)) && (snd k =? snd (fst kv)))) m.

Definition send_all (rp : repair) (rs : list rreq) : repair * list rout :=
  (mkRepair (fold_left add_req rs (rp_outstanding rp)) (rp_roots rp) (rp_lasts rp) (rp_store rp) (rp_panicked rp), map OSend rs).

(* [keep_until_accepted]: current tree ("fix: keep a repair request outstanding until a response is accepted");
   the pinned tree removed the request as soon as ANY response for it arrived.
   [expected key]: slice roots the requested block hash commits to (ground truth for the hash comparison). *)
Definition is_last_slice (rp : repair) (b slice : N) : bool :=
  match alookup b (rp_lasts rp) with Some l => l =? slice | None => false end.
Definition handle_response_gen (keep check_last : bool) (ct : content) (slot : N) (expected : N -> blockhash)
           (rp : repair) (p : rresp) : repair * list rout :=
  if rp_panicked rp then (rp, [])
  else
    let r := resp_req p in
    if negb (has_req rp r) then (rp, [])
    else
      let dropped := mkRepair (del_req (rp_outstanding rp) r) (rp_roots rp) (rp_lasts rp) (rp_store rp) (rp_panicked rp) in
      let ignore := if keep then (rp, []) else (dropped, []) in
      match p with
      | PNack _ => send_all dropped [r]
      | PLast _ last root ok =>
        match r with
        | RLast b =>
          if ok then
            let rp1 := mkRepair (rp_outstanding dropped) (root_insert (b, last) root (rp_roots dropped)) (ainsert b last (rp_lasts dropped)) (rp_store dropped) false in
            send_all rp1 (map (fun s => RRoot b s) (seqN 0 (N.to_nat (last + 1))))
          else ignore
        | _ => ignore
        end
      | PRoot _ root ok =>
        match r with
        | RRoot b slice =>
          if ok then
            let rp1 := mkRepair (rp_outstanding dropped) (root_insert (b, slice) root (rp_roots dropped)) (rp_lasts dropped) (rp_store dropped) false in
            send_all rp1 (map (fun i => RShred b slice i) (seqN 0 (N.to_nat TOTAL_SHREDS)))
          else ignore
        | _ => ignore
        end
      | PShred _ slot_ok s sig_ok =>
        match r with
        | RShred b slice index =>
          if negb (slot_ok && (b_slice s =? slice) && (b_index s =? index)) then ignore
          (* current tree ("fix: do not blame the leader for a shred whose type contradicts its index"): the
             blockstore would refuse such a shred, the request stays outstanding *)
          else if negb (shred_tag_ok s) then ignore
          (* current tree ("fix: reject repaired shreds whose last-slice flag contradicts the proven slice count") *)
          else if check_last && negb (Bool.eqb (b_last s) (is_last_slice rp b slice)) then ignore
          else match root_lookup (b, slice) (rp_roots rp) with
               | None => (mkRepair (rp_outstanding dropped) (rp_roots rp) (rp_lasts rp) (rp_store rp) true, [])   (* unreachable!() *)
               | Some root =>
                 if negb (b_root s =? root) then ignore
                 else if negb sig_ok then ignore
                 else
                   let '(sd, ret, _) := bs_step true ct slot (rp_store dropped) (BRepair b (expected b) s) in
                   let rp1 := mkRepair (rp_outstanding dropped) (rp_roots dropped) (rp_lasts dropped) sd (rp_panicked dropped) in
                   match ret with
                   | BROk (Some (h, par)) => (rp1, [OBlockToPool b h par])
                   | BRPanic => (mkRepair (rp_outstanding dropped) (rp_roots dropped) (rp_lasts dropped) sd true, [])
                   | _ => (rp1, [])
                   end
               end
        | _ => ignore
        end
      end.

Definition handle_response (keep : bool) := handle_response_gen keep true.

(* repair_block: ask for the last slice root unless the block is already stored *)
Definition have_block (sd : slotdata) (key : N) : bool :=
  match alookup key (sd_repaired sd) with
  | Some d => match bd_completed d with Some _ => true | None => false end
  | None => false
  end.
Definition repair_block (rp : repair) (key : N) : repair * list rout :=
  if rp_panicked rp then (rp, [])
  else if have_block (rp_store rp) key then (rp, []) else send_all rp [RLast key].

(* the time-out arm: an outstanding request is re-sent, anything else is forgotten *)
Definition timeout (rp : repair) (r : rreq) : repair * list rout :=
  if rp_panicked rp then (rp, [])
  else if has_req rp r then (rp, [OSend r]) else (rp, []).

(* ---- responder ---- *)
Inductive ranswer := ANack | ALast (last : N) (root : N) | ARoot (root : N) | AShred (s : bshred).
(* what the responder holds for block [key]: a completed block data (from dissemination or repair) *)
Definition responder_data (sd : slotdata) (key : N) (key_hash : blockhash) : option bdata :=
  match bd_completed (sd_dissem sd) with
  | Some (h, _) => if listN_eqb h key_hash
                   then Some (sd_dissem sd) else alookup key (sd_repaired sd)
  | None => alookup key (sd_repaired sd)
  end.
Definition slice_root_of (d : bdata) (slice : N) : option N :=
  match alookup slice (bd_shreds d) with
  | Some ((_, s) :: _) => Some (b_root s)
  | _ => None
  end.
Definition answer (sd : slotdata) (key_hash : N -> blockhash) (r : rreq) : ranswer :=
  match r with
  | RLast b =>
    match responder_data sd b (key_hash b) with
    | Some d => match bd_last d with
                | Some l => match slice_root_of d l, bd_completed d with
                            | Some root, Some _ => ALast l root      (* the double-Merkle tree exists only for completed blocks *)
                            | _, _ => ANack end
                | None => ANack end
    | None => ANack
    end
  | RRoot b slice =>
    match responder_data sd b (key_hash b) with
    | Some d => match slice_root_of d slice, bd_completed d with Some root, Some _ => ARoot root | _, _ => ANack end
    | None => ANack
    end
  | RShred b slice index =>
    match responder_data sd b (key_hash b) with
    | Some d => match alookup slice (bd_shreds d) with
                | Some shs => match alookup index shs with Some s => AShred s | None => ANack end
                | None => ANack end
    | None => ANack
    end
  end.

(* ---- specification vocabulary (used by the theorems in Props/C14.v) ---- *)
(* a response the requester's checks reject: unsolicited, wrong variant, failing proof, wrong header
   indices, a data / coding type contradicting the shred index, a slice root other than the proven one, or a
   bad signature / Merkle path *)
Definition rejected (rp : repair) (p : rresp) : bool :=
  let r := resp_req p in
  negb (has_req rp r) ||
  match p, r with
  | PNack _, _ => false
  | PLast _ _ _ ok, RLast _ => negb ok
  | PRoot _ _ ok, RRoot _ _ => negb ok
  | PShred _ slot_ok s sig_ok, RShred b slice index =>
    negb (slot_ok && (b_slice s =? slice) && (b_index s =? index))
    || negb (shred_tag_ok s)
    || negb (Bool.eqb (b_last s) (is_last_slice rp b slice))
    || match root_lookup (b, slice) (rp_roots rp) with
       | Some root => negb (b_root s =? root) || negb sig_ok
       | None => false
       end
  | _, _ => true
  end.

Inductive rop := OStart (key : N) | OResp (p : rresp) | OTimeout (r : rreq).
Definition repair_step (keep : bool) (ct : content) (slot : N) (expected : N -> blockhash) (rp : repair) (o : rop) : repair * list rout :=
  match o with
  | OStart k => repair_block rp k
  | OResp p => handle_response keep ct slot expected rp p
  | OTimeout r => timeout rp r
  end.
Definition repair_run (keep : bool) (ct : content) (slot : N) (expected : N -> blockhash) (ops : list rop) : repair :=
  fold_left (fun rp o => fst (repair_step keep ct slot expected rp o)) ops repair_init.
Definition repair_run_gen (keep check_last : bool) (ct : content) (slot : N) (expected : N -> blockhash) (ops : list rop) : repair :=
  fold_left (fun rp o => fst (match o with
                              | OResp p => handle_response_gen keep check_last ct slot expected rp p
                              | _ => repair_step keep ct slot expected rp o end)) ops repair_init.
