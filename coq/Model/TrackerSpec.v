(* Specification vocabulary for the parent-ready tracker (C07); definitions only.

   - [ptop]: the operations the pool issues to ParentReadyTracker (Model/Pool.v, the pt_ functions):
     notar(-fallback) mark of a block, skip mark of a slot, a finalization event (with its implicitly
     finalized blocks and implicitly skipped slots), pruning to a new root, registration of a waiter.
   - [pt_run]: the tracker run from [pt_init] over an arbitrary operation list; [None] = the
     implementation would panic (assert in add_to_ready / second waiter).
   - [marks] / [marks_of]: the certificate-level view of the same operation list: the set of blocks
     ever marked notar-fallback (genesis included), the set of slots ever marked skipped, the current root.
     ALL delivered marks are accumulated, including those the tracker ignores because they arrive
     below its root.
   - [ready_spec_m]: the decidable parent-ready condition over the accumulated marks. *)
From Coq Require Import List NArith Bool.
From AG Require Import Gen.Params Model.Pool.
Import ListNotations.
Open Scope N_scope.

Inductive ptop :=
| TNotarFb (b : blockid)          (* add_valid_cert: Notar / NotarFallback certificate for b *)
| TSkip (s : slot)                (* add_valid_cert: Skip certificate for s *)
| TFinalize (ev : fin_event)      (* PoolImpl::handle_finalization: tracker part *)
| TPrune (r : slot)               (* PoolImpl::prune -> ParentReadyTracker::prune(r) *)
| TWait (s : slot).               (* wait_for_parent_ready(s) *)

Definition pt_step (t : prtracker) (op : ptop) : ptres :=
  match op with
  | TNotarFb b => pt_mark_notar_fallback t b
  | TSkip s => pt_mark_skipped t s
  | TFinalize ev => pt_handle_finalization t ev
  | TPrune r => Some (pt_prune t r, [], [])
  | TWait s => match pt_wait t s with Some (t', _) => Some (t', [], []) | None => None end
  end.

(* one more operation on a run result; announcements and woken-waiter events are accumulated in order *)
Definition pt_run_step (r : ptres) (op : ptop) : ptres :=
  match r with
  | None => None
  | Some (t, ann, wk) =>
    match pt_step t op with
    | None => None
    | Some (t', a, w) => Some (t', ann ++ a, wk ++ w)
    end
  end.
Definition pt_run_from (t : prtracker) (ops : list ptop) : ptres := fold_left pt_run_step ops (Some (t, [], [])).
Definition pt_run (ops : list ptop) : ptres := pt_run_from pt_init ops.

(* ---------- accumulated marks ---------- *)
Record marks := mkMarks { mk_nf : list blockid; mk_skip : list slot; mk_root : slot }.
Definition marks_init : marks := mkMarks [(0, 0)] [] 0.
Definition fin_blocks (ev : fin_event) : list blockid :=
  (match fe_final ev with Some b => [b] | None => [] end) ++ fe_impl_final ev.
Definition marks_step (m : marks) (op : ptop) : marks :=
  match op with
  | TNotarFb b => mkMarks (mk_nf m ++ [b]) (mk_skip m) (mk_root m)
  | TSkip s => mkMarks (mk_nf m) (mk_skip m ++ [s]) (mk_root m)
  | TFinalize ev => mkMarks (mk_nf m ++ fin_blocks ev) (mk_skip m ++ fe_impl_skipped ev) (mk_root m)
  | TPrune r => mkMarks (mk_nf m) (mk_skip m) r
  | TWait _ => m
  end.
Definition marks_of (ops : list ptop) : marks := fold_left marks_step ops marks_init.

(* the root only ever advances (PoolImpl prunes to FinalityTracker::first_unpruned, which is monotone) *)
Definition roots_step (st : bool * slot) (op : ptop) : bool * slot :=
  match op with
  | TPrune r => (fst st && (snd st <=? r), r)
  | _ => st
  end.
Definition roots_mono (ops : list ptop) : bool := fst (fold_left roots_step ops (true, 0)).

(* ---------- the parent-ready condition over the marks ---------- *)
Definition bmemb (b : blockid) (l : list blockid) : bool := existsb (bid_eqb b) l.
(* slots strictly between a and s *)
Definition between (a s : slot) : list slot := seqN (a + 1) (N.to_nat (s - a - 1)).
Definition ready_spec_m (m : marks) (s : slot) (p : blockid) : bool :=
  is_window_start s && (fst p <? s) && bmemb p (mk_nf m)
  && forallb (fun x => memN x (mk_skip m)) (between (fst p) s).
(* the window is retained / the parent has not been pruned *)
Definition retained (m : marks) (x : slot) : bool := mk_root m <=? x.

(* waiter bookkeeping on the event log *)
Definition woken_for (x : slot) (e : pevent) : bool :=
  match e with EWaiterWoken y _ => y =? x | _ => false end.
Definition woken_count (x : slot) (wk : list pevent) : nat := length (filter (woken_for x) wk).
Definition wait_count (x : slot) (ops : list ptop) : nat :=
  length (filter (fun op => match op with TWait y => y =? x | _ => false end) ops).
