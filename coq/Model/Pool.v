(* Executable model of the consensus pool (definitions only, no proofs):
     src/consensus/pool/slot_state.rs      SlotState (votes, running stakes, certificates, safe-to-notar/skip)
     src/consensus/pool/finality_tracker.rs FinalityTracker
     src/consensus/pool/parent_ready_tracker.rs (+ parent_ready_state.rs) ParentReadyTracker
     src/consensus/pool.rs                  PoolImpl (add_vote, add_cert, add_block, recover_from_standstill, queries)
     src/consensus/epoch_info.rs            quorum predicates (Fraction::is_met, exact integer comparison)

   Block hashes are small naturals (the harness interns 32-byte hashes so that numeric
   order = byte order; 0 is the genesis hash).  Signatures are not part of this model:
   the pool only ever sees ValidatedVote / ValidatedCert (C09 models validation).

   Rust panics reachable from the pool interface (assert!, expect, indexing) are the
   explicit outcome [Panic]; once panicked the model state stays panicked.

   MODELLED_FUNCTIONS: SlotState::{add_cert,add_vote,notify_parent_known,notify_parent_certified,
     count_notar_stake,count_notar_fallback_stake,count_skip_stake,count_finalize_stake,
     check_slashable_offence,should_ignore_vote,check_safe_to_notar,is_notar_fallback,
     is_notar_fallback_or_stronger} SlotVotes::* FinalityTracker::* ParentReadyTracker::*
     ParentReadyState::* PoolImpl::{add_valid_cert,get_certs,get_final_certs,get_own_votes,prune,
     handle_finalization} Pool::{add_cert,add_vote,add_block,recover_from_standstill,finalized_slot,
     parents_ready,wait_for_parent_ready} EpochInfo::{is_weakest_quorum,is_weak_quorum,is_quorum,
     is_strong_quorum} Fraction::is_met *)
From Coq Require Import List NArith Bool.
From AG Require Import Gen.Params.
Import ListNotations.
Open Scope N_scope.

Definition slot := N.
Definition hash := N.
Definition vidx := N.
Definition blockid := (slot * hash)%type.

Inductive vkind := KNotar (h : hash) | KNotarFb (h : hash) | KSkip | KSkipFb | KFinal.
Record vote := mkVote { v_slot : slot; v_kind : vkind; v_signer : vidx }.

Inductive ckind := CNotar (h : hash) | CNotarFb (h : hash) | CSkip | CFastFinal (h : hash) | CFinal.
(* signer lists of the two aggregate halves (ascending validator index), and the declared stake *)
Record cert := mkCert { c_slot : slot; c_kind : ckind; c_s1 : list vidx; c_s2 : list vidx; c_stake : N }.

Record epoch := mkEpoch { stakes : list N; own : vidx }.

Definition sumN (l : list N) : N := fold_right N.add 0 l.
Definition total_stake (e : epoch) : N := sumN (stakes e).
Definition stake_of (e : epoch) (v : vidx) : N := nth (N.to_nat v) (stakes e) 0.
Definition nvals (e : epoch) : N := N.of_nat (length (stakes e)).

(* Fraction::is_met: value * den >= total * num, exact *)
Definition is_met (num den value total : N) : bool := total * num <=? value * den.
Definition is_weakest_quorum (e : epoch) (s : N) := is_met WEAKEST_QUORUM_NUM WEAKEST_QUORUM_DEN s (total_stake e).
Definition is_weak_quorum (e : epoch) (s : N) := is_met WEAK_QUORUM_NUM WEAK_QUORUM_DEN s (total_stake e).
Definition is_quorum (e : epoch) (s : N) := is_met QUORUM_NUM QUORUM_DEN s (total_stake e).
Definition is_strong_quorum (e : epoch) (s : N) := is_met STRONG_QUORUM_NUM STRONG_QUORUM_DEN s (total_stake e).

(* ---------- small association-list helpers ---------- *)
Fixpoint alookup {V} (k : N) (m : list (N * V)) : option V :=
  match m with
  | [] => None
  | (k', v) :: t => if k =? k' then Some v else alookup k t
  end.
Fixpoint ainsert {V} (k : N) (v : V) (m : list (N * V)) : list (N * V) :=
  match m with
  | [] => [(k, v)]
  | (k', v') :: t => if k =? k' then (k, v) :: t else (k', v') :: ainsert k v t
  end.
Definition aget {V} (d : V) (k : N) (m : list (N * V)) : V := match alookup k m with Some v => v | None => d end.
Definition memN (x : N) (l : list N) : bool := existsb (N.eqb x) l.
(* SortedVecSet: ascending, no duplicates *)
Fixpoint sset_insert (x : N) (l : list N) : list N :=
  match l with
  | [] => [x]
  | y :: t => if x <? y then x :: l else if x =? y then l else y :: sset_insert x t
  end.
Definition sset_remove (x : N) (l : list N) : list N := filter (fun y => negb (x =? y)) l.
Definition bid_eqb (a b : blockid) : bool := (fst a =? fst b) && (snd a =? snd b).
Definition bid_ltb (a b : blockid) : bool := (fst a <? fst b) || ((fst a =? fst b) && (snd a <? snd b)).
Fixpoint blookup {V} (k : blockid) (m : list (blockid * V)) : option V :=
  match m with
  | [] => None
  | (k', v) :: t => if bid_eqb k k' then Some v else blookup k t
  end.
Fixpoint binsert {V} (k : blockid) (v : V) (m : list (blockid * V)) : list (blockid * V) :=
  match m with
  | [] => [(k, v)]
  | (k', v') :: t => if bid_eqb k k' then (k, v) :: t else (k', v') :: binsert k v t
  end.
Definition bremove {V} (k : blockid) (m : list (blockid * V)) : list (blockid * V) :=
  filter (fun kv => negb (bid_eqb k (fst kv))) m.
Definition seqN (lo : N) (len : nat) : list N := map (fun i => lo + N.of_nat i) (seq 0 len).

(* ---------- events ---------- *)
Inductive offence := ONotarDifferentHash | OSkipAndNotarize | OSkipAndFinalize | ONotarFallbackAndFinalize.
Inductive verdict := VOk | VDuplicate | VOutOfBounds | VSlashable (o : offence) | VNone.

Inductive pevent :=
| EParentReady (s : slot) (p : blockid)
| ESafeToNotar (b : blockid)
| ESafeToSkip (s : slot)
| ECertCreated (c : cert)
| EStandstill (s : slot) (cs : list cert) (vs : list vote)
| EWaiterWoken (s : slot) (p : blockid).   (* oneshot of wait_for_parent_ready fired *)

(* ================= SlotState ================= *)
(* four independent groups of fields, so that frame properties are immediate *)
Record votes := mkVotes {
  vo_notar : list (vidx * hash);     (* votes.notar[v] = Some(hash) *)
  vo_nf : list (vidx * hash);        (* votes.notar_fallback[v] contains hash *)
  vo_skip : list vidx;
  vo_sf : list vidx;
  vo_fin : list vidx }.
Record vstakes := mkStakes {
  st_notar : list (hash * N);
  st_nf : list (hash * N);
  st_skip : N; st_sf : N; st_fin : N; st_nos : N; st_top : N }.
Record certs := mkCerts {
  ce_notar : option cert; ce_nf : list cert; ce_skip : option cert; ce_ff : option cert; ce_fin : option cert }.
Record s2nstate := mkS2N {
  pa_status : list (hash * bool);    (* parents: Known = false, Certified = true *)
  s2n_pending : list hash;
  s2n_sent : list hash;
  s2s_sent : bool }.
Record slot_state := mkSS { ss_v : votes; ss_t : vstakes; ss_c : certs; ss_n : s2nstate }.

Definition ss_empty : slot_state :=
  mkSS (mkVotes [] [] [] [] []) (mkStakes [] [] 0 0 0 0 0) (mkCerts None [] None None None) (mkS2N [] [] [] false).
Definition with_v (ss : slot_state) (v : votes) := mkSS v (ss_t ss) (ss_c ss) (ss_n ss).
Definition with_t (ss : slot_state) (t : vstakes) := mkSS (ss_v ss) t (ss_c ss) (ss_n ss).
Definition with_c (ss : slot_state) (c : certs) := mkSS (ss_v ss) (ss_t ss) c (ss_n ss).
Definition with_n (ss : slot_state) (n : s2nstate) := mkSS (ss_v ss) (ss_t ss) (ss_c ss) n.

Definition has_nf_vote (ss : slot_state) (v : vidx) (h : hash) : bool :=
  existsb (fun vh => (fst vh =? v) && (snd vh =? h)) (vo_nf (ss_v ss)).
Definition any_nf_vote (ss : slot_state) (v : vidx) : bool := existsb (fun vh => fst vh =? v) (vo_nf (ss_v ss)).

Definition cert_hash (c : cert) : option hash :=
  match c_kind c with CNotar h | CNotarFb h | CFastFinal h => Some h | _ => None end.
Definition is_notar_fallback (ss : slot_state) (h : hash) : bool :=
  existsb (fun c => match cert_hash c with Some h' => h' =? h | None => false end) (ce_nf (ss_c ss)).
Definition is_nf_or_stronger (ss : slot_state) (h : hash) : bool :=
  match ce_notar (ss_c ss) with Some c => (match cert_hash c with Some h' => h' =? h | None => false end) | None => false end
  || match ce_ff (ss_c ss) with Some c => (match cert_hash c with Some h' => h' =? h | None => false end) | None => false end
  || is_notar_fallback ss h.

(* validators (ascending) holding a stored vote of the given class *)
Definition vals (e : epoch) : list vidx := seqN 0 (length (stakes e)).
Definition notar_voters (e : epoch) (ss : slot_state) (h : hash) : list vidx :=
  filter (fun v => match alookup v (vo_notar (ss_v ss)) with Some h' => h' =? h | None => false end) (vals e).
Definition nf_voters (e : epoch) (ss : slot_state) (h : hash) : list vidx :=
  filter (fun v => has_nf_vote ss v h) (vals e).
Definition skip_voters (e : epoch) (ss : slot_state) := filter (fun v => memN v (vo_skip (ss_v ss))) (vals e).
Definition sf_voters (e : epoch) (ss : slot_state) := filter (fun v => memN v (vo_sf (ss_v ss))) (vals e).
Definition fin_voters (e : epoch) (ss : slot_state) := filter (fun v => memN v (vo_fin (ss_v ss))) (vals e).
Definition stake_sum (e : epoch) (l : list vidx) : N := sumN (map (stake_of e) l).

(* Cert constructors: [None] = the Rust constructor panics (no votes) *)
Definition mk_single (e : epoch) (s : slot) (k : ckind) (vs : list vidx) : option cert :=
  match vs with [] => None | _ => Some (mkCert s k vs [] (stake_sum e vs)) end.
Definition mk_mixed (e : epoch) (s : slot) (k : ckind) (v1 v2 : list vidx) : option cert :=
  match v1, v2 with
  | [], [] => None
  | _, _ => Some (mkCert s k v1 v2 (stake_sum e v1 + stake_sum e v2))
  end.

Inductive s2n_status := S2NSafe | S2NMissingBlock | S2NAwaiting.

Definition n_add_pending (n : s2nstate) (h : hash) : s2nstate :=
  mkS2N (pa_status n) (sset_insert h (s2n_pending n)) (s2n_sent n) (s2s_sent n).
Definition n_mark_sent (n : s2nstate) (h : hash) : s2nstate :=
  mkS2N (pa_status n) (sset_remove h (s2n_pending n)) (sset_insert h (s2n_sent n)) (s2s_sent n).

(* check_safe_to_notar (mutates pending / sent only) *)
Definition check_safe_to_notar (e : epoch) (ss : slot_state) (h : hash) : slot_state * s2n_status :=
  let notar_stake := aget 0 h (st_notar (ss_t ss)) in
  let skip_stake := st_skip (ss_t ss) in
  if negb (is_weakest_quorum e notar_stake) then (ss, S2NAwaiting)
  else if negb (is_weak_quorum e notar_stake) && negb (is_quorum e (notar_stake + skip_stake)) then
    (with_n ss (n_add_pending (ss_n ss) h), S2NAwaiting)
  else
    match alookup h (pa_status (ss_n ss)) with
    | None => (ss, S2NMissingBlock)
    | Some false => (ss, S2NAwaiting)
    | Some true =>
      if memN (own e) (vo_skip (ss_v ss)) then (with_n ss (n_mark_sent (ss_n ss) h), S2NSafe)
      else match alookup (own e) (vo_notar (ss_v ss)) with
           | Some h' => if h' =? h then (ss, S2NAwaiting) else (with_n ss (n_mark_sent (ss_n ss) h), S2NSafe)
           | None => (with_n ss (n_add_pending (ss_n ss) h), S2NAwaiting)
           end
    end.

(* outputs of SlotState::add_vote: created certs (None = constructor panicked), votor events, repair requests *)
Record ss_out := mkOut { o_certs : list (option cert); o_events : list pevent; o_repair : list blockid }.
Definition out_empty := mkOut [] [] [].

(* loop over pending safe-to-notar hashes (snapshot), skipping those already sent *)
Fixpoint recheck_pending (e : epoch) (s : slot) (ss : slot_state) (hs : list hash) (ev : list pevent) (rp : list blockid)
  : slot_state * list pevent * list blockid :=
  match hs with
  | [] => (ss, ev, rp)
  | h :: t =>
    if memN h (s2n_sent (ss_n ss)) then recheck_pending e s ss t ev rp
    else
      let '(ss', st) := check_safe_to_notar e ss h in
      match st with
      | S2NSafe => recheck_pending e s ss' t (ev ++ [ESafeToNotar (s, h)]) rp
      | S2NMissingBlock => recheck_pending e s ss' t ev (rp ++ [(s, h)])
      | S2NAwaiting => recheck_pending e s ss' t ev rp
      end
  end.

Definition set_s2s (ss : slot_state) : slot_state :=
  with_n ss (mkS2N (pa_status (ss_n ss)) (s2n_pending (ss_n ss)) (s2n_sent (ss_n ss)) true).

Definition safe_to_skip_now (e : epoch) (ss : slot_state) : bool :=
  negb (s2s_sent (ss_n ss)) && is_weak_quorum e (st_nos (ss_t ss) - st_top (ss_t ss))
  && match alookup (own e) (vo_notar (ss_v ss)) with Some _ => true | None => false end.

(* one safe-to-notar check for h unless already sent *)
Definition s2n_try (e : epoch) (s : slot) (ss : slot_state) (h : hash) : slot_state * list pevent * list blockid :=
  if memN h (s2n_sent (ss_n ss)) then (ss, [], [])
  else let '(ss', st) := check_safe_to_notar e ss h in
       match st with
       | S2NSafe => (ss', [ESafeToNotar (s, h)], [])
       | S2NMissingBlock => (ss', [], [(s, h)])
       | S2NAwaiting => (ss', [], [])
       end.
Definition s2s_try (e : epoch) (s : slot) (ss : slot_state) (ev : list pevent) : slot_state * list pevent :=
  if safe_to_skip_now e ss then (set_s2s ss, ev ++ [ESafeToSkip s]) else (ss, ev).

Definition nf_cert_due (e : epoch) (s : slot) (ss : slot_state) (h : hash) : list (option cert) :=
  if is_quorum e (aget 0 h (st_nf (ss_t ss)) + aget 0 h (st_notar (ss_t ss))) && negb (is_notar_fallback ss h)
  then [mk_mixed e s (CNotarFb h) (notar_voters e ss h) (nf_voters e ss h)] else [].

Definition count_notar_stake (e : epoch) (s : slot) (ss : slot_state) (h : hash) (stake : N) : slot_state * ss_out :=
  let t := ss_t ss in
  let notar_stake := aget 0 h (st_notar t) + stake in
  let ss1 := with_t ss (mkStakes (ainsert h notar_stake (st_notar t)) (st_nf t) (st_skip t) (st_sf t) (st_fin t)
                                 (st_nos t + stake) (N.max notar_stake (st_top t))) in
  let '(ss2, ev1, rp1) := s2n_try e s ss1 h in
  let '(ss3, ev2) := s2s_try e s ss2 ev1 in
  let c1 := nf_cert_due e s ss3 h in
  let c2 := if is_quorum e notar_stake && match ce_notar (ss_c ss3) with None => true | _ => false end
            then [mk_single e s (CNotar h) (notar_voters e ss3 h)] else [] in
  let c3 := if is_strong_quorum e notar_stake && match ce_ff (ss_c ss3) with None => true | _ => false end
            then [mk_single e s (CFastFinal h) (notar_voters e ss3 h)] else [] in
  (ss3, mkOut (c1 ++ c2 ++ c3) ev2 rp1).

Definition count_nf_stake (e : epoch) (s : slot) (ss : slot_state) (h : hash) (stake : N) : slot_state * ss_out :=
  let t := ss_t ss in
  let ss1 := with_t ss (mkStakes (st_notar t) (ainsert h (aget 0 h (st_nf t) + stake) (st_nf t)) (st_skip t) (st_sf t)
                                 (st_fin t) (st_nos t) (st_top t)) in
  (ss1, mkOut (nf_cert_due e s ss1 h) [] []).

Definition count_skip_stake (e : epoch) (s : slot) (ss : slot_state) (stake : N) (fallback : bool) : slot_state * ss_out :=
  let t := ss_t ss in
  let ss1 := with_t ss (mkStakes (st_notar t) (st_nf t)
                                 (if fallback then st_skip t else st_skip t + stake)
                                 (if fallback then st_sf t + stake else st_sf t)
                                 (st_fin t) (st_nos t) (st_top t)) in
  let '(ss2, ev1, rp1) := recheck_pending e s ss1 (s2n_pending (ss_n ss1)) [] [] in
  let total_skip := st_skip (ss_t ss2) + st_sf (ss_t ss2) in
  let c1 := if is_quorum e total_skip && match ce_skip (ss_c ss2) with None => true | _ => false end
            then [mk_mixed e s CSkip (skip_voters e ss2) (sf_voters e ss2)] else [] in
  let '(ss3, ev2) := s2s_try e s ss2 ev1 in
  (ss3, mkOut c1 ev2 rp1).

Definition count_fin_stake (e : epoch) (s : slot) (ss : slot_state) (stake : N) : slot_state * ss_out :=
  let t := ss_t ss in
  let ss1 := with_t ss (mkStakes (st_notar t) (st_nf t) (st_skip t) (st_sf t) (st_fin t + stake) (st_nos t) (st_top t)) in
  let c1 := if is_quorum e (st_fin (ss_t ss1)) && match ce_fin (ss_c ss1) with None => true | _ => false end
            then [mk_single e s CFinal (fin_voters e ss1)] else [] in
  (ss1, mkOut c1 [] []).

Definition store_vote (ss : slot_state) (v : vidx) (k : vkind) : slot_state :=
  let vs := ss_v ss in
  with_v ss
    match k with
    | KNotar h => mkVotes (ainsert v h (vo_notar vs)) (vo_nf vs) (vo_skip vs) (vo_sf vs) (vo_fin vs)
    | KNotarFb h => mkVotes (vo_notar vs) ((v, h) :: vo_nf vs) (vo_skip vs) (vo_sf vs) (vo_fin vs)
    | KSkip => mkVotes (vo_notar vs) (vo_nf vs) (v :: vo_skip vs) (vo_sf vs) (vo_fin vs)
    | KSkipFb => mkVotes (vo_notar vs) (vo_nf vs) (vo_skip vs) (v :: vo_sf vs) (vo_fin vs)
    | KFinal => mkVotes (vo_notar vs) (vo_nf vs) (vo_skip vs) (vo_sf vs) (v :: vo_fin vs)
    end.

Definition add_nos (ss : slot_state) (stake : N) : slot_state :=
  let t := ss_t ss in
  with_t ss (mkStakes (st_notar t) (st_nf t) (st_skip t) (st_sf t) (st_fin t) (st_nos t + stake) (st_top t)).

(* the vote-class specific part of SlotState::add_vote.
   [store_first]: the current tree stores the Notar / NotarFallback vote before counting
   ("fix: store vote before counting stake"); the pinned tree counted first. *)
Definition ss_count_vote (store_first : bool) (e : epoch) (ss : slot_state) (vt : vote) : slot_state * ss_out :=
  let s := v_slot vt in
  let v := v_signer vt in
  let stake := stake_of e v in
  match v_kind vt with
  | KNotar h =>
    if store_first then count_notar_stake e s (store_vote ss v (KNotar h)) h stake
    else let '(ss', o) := count_notar_stake e s ss h stake in (store_vote ss' v (KNotar h), o)
  | KNotarFb h =>
    if store_first then count_nf_stake e s (store_vote ss v (KNotarFb h)) h stake
    else let '(ss', o) := count_nf_stake e s ss h stake in (store_vote ss' v (KNotarFb h), o)
  | KSkip => count_skip_stake e s (add_nos (store_vote ss v KSkip) stake) stake false
  | KSkipFb => count_skip_stake e s (store_vote ss v KSkipFb) stake true
  | KFinal => count_fin_stake e s (store_vote ss v KFinal) stake
  end.

Definition ss_add_vote_gen (store_first : bool) (e : epoch) (ss : slot_state) (vt : vote) : slot_state * ss_out :=
  let '(ss1, out) := ss_count_vote store_first e ss vt in
  if v_signer vt =? own e then
    let '(ss2, ev, rp) := recheck_pending e (v_slot vt) ss1 (s2n_pending (ss_n ss1)) (o_events out) (o_repair out) in
    (ss2, mkOut (o_certs out) ev rp)
  else (ss1, out).
Definition ss_add_vote := ss_add_vote_gen true.

Definition check_slashable (ss : slot_state) (vt : vote) : option offence :=
  let v := v_signer vt in
  let vs := ss_v ss in
  match v_kind vt with
  | KNotar h =>
    if memN v (vo_skip vs) then Some OSkipAndNotarize
    else match alookup v (vo_notar vs) with
         | Some h' => if h =? h' then None else Some ONotarDifferentHash
         | None => None
         end
  | KNotarFb _ => if memN v (vo_fin vs) then Some ONotarFallbackAndFinalize else None
  | KSkip => if memN v (vo_fin vs) then Some OSkipAndFinalize
             else match alookup v (vo_notar vs) with Some _ => Some OSkipAndNotarize | None => None end
  | KSkipFb => if memN v (vo_fin vs) then Some OSkipAndFinalize else None
  | KFinal => if memN v (vo_skip vs) || memN v (vo_sf vs) then Some OSkipAndFinalize
              else if any_nf_vote ss v then Some ONotarFallbackAndFinalize else None
  end.

Definition should_ignore (ss : slot_state) (vt : vote) : bool :=
  let v := v_signer vt in
  let vs := ss_v ss in
  match v_kind vt with
  | KNotar h => match alookup v (vo_notar vs) with Some _ => true | None => has_nf_vote ss v h end
  | KNotarFb h => has_nf_vote ss v h
                  || match alookup v (vo_notar vs) with Some h' => h' =? h | None => false end
  | KSkip => memN v (vo_skip vs) || memN v (vo_sf vs)
  | KSkipFb => memN v (vo_sf vs) || memN v (vo_skip vs)
  | KFinal => memN v (vo_fin vs)
  end.

Definition ss_add_cert (ss : slot_state) (c : cert) : slot_state :=
  let cs := ss_c ss in
  match c_kind c with
  | CNotar _ => with_c ss (mkCerts (Some c) (ce_nf cs) (ce_skip cs) (ce_ff cs) (ce_fin cs))
  | CNotarFb h => if is_notar_fallback ss h then ss
                  else with_c ss (mkCerts (ce_notar cs) (ce_nf cs ++ [c]) (ce_skip cs) (ce_ff cs) (ce_fin cs))
  | CSkip => with_c ss (mkCerts (ce_notar cs) (ce_nf cs) (Some c) (ce_ff cs) (ce_fin cs))
  | CFastFinal _ => with_c ss (mkCerts (ce_notar cs) (ce_nf cs) (ce_skip cs) (Some c) (ce_fin cs))
  | CFinal => with_c ss (mkCerts (ce_notar cs) (ce_nf cs) (ce_skip cs) (ce_ff cs) (Some c))
  end.

Definition set_parents (ss : slot_state) (p : list (hash * bool)) : slot_state :=
  with_n ss (mkS2N p (s2n_pending (ss_n ss)) (s2n_sent (ss_n ss)) (s2s_sent (ss_n ss))).

Definition notify_parent_known (ss : slot_state) (h : hash) : slot_state :=
  match alookup h (pa_status (ss_n ss)) with
  | Some _ => ss
  | None => set_parents ss (ainsert h false (pa_status (ss_n ss)))
  end.

(* notify_parent_certified: None = panic("parent not known"); Some (state, event?, repair?) *)
Definition notify_parent_certified (e : epoch) (s : slot) (ss : slot_state) (h : hash)
  : option (slot_state * list pevent * list blockid) :=
  match alookup h (pa_status (ss_n ss)) with
  | None => None
  | Some _ => Some (s2n_try e s (set_parents ss (ainsert h true (pa_status (ss_n ss)))) h)
  end.

(* ================= FinalityTracker ================= *)
Inductive fstatus := FNotarized (h : hash) | FFinalPendingNotar | FFinalized (h : hash)
                   | FImplFinalized (h : hash) | FImplSkipped.

Record fin_event := mkFE { fe_final : option blockid; fe_impl_final : list blockid; fe_impl_skipped : list slot }.
Definition fe_empty := mkFE None [] [].

Record ftracker := mkFT {
  ft_status : list (slot * fstatus);
  ft_parents : list (blockid * blockid);
  ft_highest : slot;
  ft_first : slot
}.
Definition ft_init : ftracker := mkFT [(0, FNotarized 0)] [] 0 0.

Definition is_decided (st : option fstatus) : bool :=
  match st with Some (FFinalized _) | Some (FImplFinalized _) | Some FImplSkipped => true | _ => false end.

Fixpoint ft_advance (fuel : nat) (status : list (slot * fstatus)) (first : slot) : slot :=
  match fuel with
  | O => first
  | S f => if is_decided (alookup (first + 1) status) then ft_advance f status (first + 1) else first
  end.
Definition ft_prune (t : ftracker) : ftracker :=
  let first := ft_advance (length (ft_status t)) (ft_status t) (ft_first t) in
  mkFT (filter (fun kv => first <=? fst kv) (ft_status t))
       (filter (fun kv => first <=? fst (fst kv)) (ft_parents t))
       (ft_highest t) first.

Definition ft_set_status (t : ftracker) (s : slot) (st : fstatus) : ftracker :=
  mkFT (ainsert s st (ft_status t)) (ft_parents t) (ft_highest t) (ft_first t).

(* result of a tracker operation: None = panic ("consensus safety violation" or assert) *)
Definition ftres := option (ftracker * fin_event).

(* the loop marking slots strictly between parent and source as implicitly skipped.
   returns None = panic; Some (t, ev, true) = early return (already skipped slot met) *)
Fixpoint ft_skip_between (t : ftracker) (ev : fin_event) (slots : list slot) : option (ftracker * fin_event * bool) :=
  match slots with
  | [] => Some (t, ev, false)
  | s :: rest =>
    let old := alookup s (ft_status t) in
    let t' := ft_set_status t s FImplSkipped in
    match old with
    | Some FImplSkipped => Some (t', ev, true)
    | Some FFinalPendingNotar | Some (FFinalized _) | Some (FImplFinalized _) => None
    | Some (FNotarized _) | None =>
      ft_skip_between t' (mkFE (fe_final ev) (fe_impl_final ev) (fe_impl_skipped ev ++ [s])) rest
    end
  end.

Fixpoint ft_handle_impl (fuel : nat) (t : ftracker) (source : slot) (b : blockid) (ev : fin_event) : ftres :=
  match fuel with
  | O => None   (* out of fuel: excluded by the theorems (parent slots strictly decrease) *)
  | S f =>
    if negb (fst b <? source) then None          (* assert!(source_slot > implicitly_finalized.0) *)
    else if fst b <? ft_first t then Some (t, ev)
    else
      match ft_skip_between t ev (seqN (fst b + 1) (N.to_nat (source - fst b - 1))) with
      | None => None
      | Some (t1, ev1, true) => Some (t1, ev1)
      | Some (t1, ev1, false) =>
        let old := alookup (fst b) (ft_status t1) in
        let t2 := ft_set_status t1 (fst b) (FImplFinalized (snd b)) in
        let continue_ (t3 : ftracker) :=
          let ev2 := mkFE (fe_final ev1) (fe_impl_final ev1 ++ [b]) (fe_impl_skipped ev1) in
          match blookup b (ft_parents t3) with
          | Some p => ft_handle_impl f t3 (fst b) p ev2
          | None => Some (t3, ev2)
          end in
        match old with
        | Some (FFinalized h) => if h =? snd b then Some (ft_set_status t2 (fst b) (FFinalized h), ev1) else None
        | Some (FImplFinalized h) => if h =? snd b then Some (ft_set_status t2 (fst b) (FImplFinalized h), ev1) else None
        (* current tree ("fix: allow a notarized block other than the implicitly finalized one in a slot"): the
           pinned tree demanded h = snd b here ('consensus safety violation') although a slot may hold a
           notarization certificate for one block and a notar-fallback certificate for another *)
        | Some (FNotarized _) => continue_ t2
        | Some FFinalPendingNotar => continue_ t2
        | Some FImplSkipped => None
        | None => continue_ t2
        end
      end
  end.

Definition ft_fuel (t : ftracker) : nat := S (S (length (ft_parents t))).

Definition ft_handle_finalized_block (t : ftracker) (b : blockid) (ev : fin_event) : ftres :=
  let ev1 := mkFE (Some b) (fe_impl_final ev) (fe_impl_skipped ev) in
  let t1 := mkFT (ft_status t) (ft_parents t) (N.max (fst b) (ft_highest t)) (ft_first t) in
  match blookup b (ft_parents t1) with
  | Some p => match ft_handle_impl (ft_fuel t1) t1 (fst b) p ev1 with
              | Some (t2, ev2) => Some (ft_prune t2, ev2)
              | None => None
              end
  | None => Some (ft_prune t1, ev1)
  end.

Definition ft_add_parent (t : ftracker) (b p : blockid) : ftres :=
  if negb (fst p <? fst b) then None
  else if fst b <? ft_first t then Some (t, fe_empty)
  else match blookup b (ft_parents t) with
       | Some p' => if bid_eqb p p' then Some (t, fe_empty) else None
       | None =>
         let t1 := mkFT (ft_status t) (binsert b p (ft_parents t)) (ft_highest t) (ft_first t) in
         match alookup (fst b) (ft_status t1) with
         | Some (FFinalized h) | Some (FImplFinalized h) =>
           if h =? snd b then
             match ft_handle_impl (ft_fuel t1) t1 (fst b) p fe_empty with
             | Some (t2, ev) => Some (ft_prune t2, ev)
             | None => None
             end
           else Some (t1, fe_empty)
         | _ => Some (t1, fe_empty)
         end
       end.

Definition ft_mark_fast_finalized (t : ftracker) (b : blockid) : ftres :=
  if fst b <? ft_first t then Some (t, fe_empty)
  else
    let old := alookup (fst b) (ft_status t) in
    let t1 := ft_set_status t (fst b) (FFinalized (snd b)) in
    match old with
    | Some (FFinalized h) | Some (FImplFinalized h) => if h =? snd b then Some (t1, fe_empty) else None
    | Some (FNotarized h) => if h =? snd b then ft_handle_finalized_block t1 b fe_empty else None
    | Some FFinalPendingNotar | None => ft_handle_finalized_block t1 b fe_empty
    | Some FImplSkipped => None
    end.

Definition ft_mark_notarized (t : ftracker) (b : blockid) : ftres :=
  if fst b <? ft_first t then Some (t, fe_empty)
  else
    let old := alookup (fst b) (ft_status t) in
    let t1 := ft_set_status t (fst b) (FNotarized (snd b)) in
    (* current tree ("fix: keep decided finalization status"): a decided status is restored *)
    match old with
    | None => Some (t1, fe_empty)
    | Some (FNotarized h) => if h =? snd b then Some (t1, fe_empty) else None
    | Some (FFinalized h) => if h =? snd b then Some (ft_set_status t1 (fst b) (FFinalized h), fe_empty) else None
    (* current tree (same fix): a notarization certificate for another block than the implicitly finalized one is fine *)
    | Some (FImplFinalized h) => Some (ft_set_status t1 (fst b) (FImplFinalized h), fe_empty)
    | Some FImplSkipped => Some (ft_set_status t1 (fst b) FImplSkipped, fe_empty)
    | Some FFinalPendingNotar =>
      ft_handle_finalized_block (ft_set_status t1 (fst b) (FFinalized (snd b))) b fe_empty
    end.

Definition ft_mark_finalized (t : ftracker) (s : slot) : ftres :=
  if s <? ft_first t then Some (t, fe_empty)
  else
    let old := alookup s (ft_status t) in
    let t1 := ft_set_status t s FFinalPendingNotar in
    match old with
    | None => Some (t1, fe_empty)
    | Some FFinalPendingNotar => Some (t1, fe_empty)
    | Some (FFinalized h) => Some (ft_set_status t1 s (FFinalized h), fe_empty)
    | Some (FImplFinalized h) => Some (ft_set_status t1 s (FImplFinalized h), fe_empty)
    | Some (FNotarized h) => ft_handle_finalized_block (ft_set_status t1 s (FFinalized h)) (s, h) fe_empty
    | Some FImplSkipped => None
    end.

(* ================= ParentReadyTracker ================= *)
Record prstate := mkPR { pr_skip : bool; pr_nfs : list hash; pr_ready : option (list blockid); pr_waiting : bool }.
Definition pr_default := mkPR false [] None false.
Record prtracker := mkPT { pt_states : list (slot * prstate); pt_root : slot }.
Definition pt_init : prtracker := mkPT [(0, mkPR false [0] None false)] 0.
Definition pt_get (t : prtracker) (s : slot) : prstate := aget pr_default s (pt_states t).
Definition pt_set (t : prtracker) (s : slot) (st : prstate) : prtracker := mkPT (ainsert s st (pt_states t)) (pt_root t).
Definition is_window_start (s : slot) : bool := (s mod SLOTS_PER_WINDOW) =? 0.
Definition window_first (s : slot) : slot := (s / SLOTS_PER_WINDOW) * SLOTS_PER_WINDOW.

(* add_to_ready: None = panic (duplicate); returns woken-waiter events *)
Definition pr_add_to_ready (t : prtracker) (s : slot) (id : blockid) : option (prtracker * list pevent) :=
  let st := pt_get t s in
  match pr_ready st with
  | None => Some (pt_set t s (mkPR (pr_skip st) (pr_nfs st) (Some [id]) false),
                  if pr_waiting st then [EWaiterWoken s id] else [])
  | Some ids => if existsb (bid_eqb id) ids then None
                else Some (pt_set t s (mkPR (pr_skip st) (pr_nfs st) (Some (ids ++ [id])) (pr_waiting st)), [])
  end.

Definition ptres := option (prtracker * list (slot * blockid) * list pevent).

(* walk future slots: add [parents] to each window start, stop after the first non-skip-certified slot *)
Fixpoint pt_propagate (fuel : nat) (t : prtracker) (s : slot) (parents : list blockid)
         (acc : list (slot * blockid)) (wk : list pevent) : ptres :=
  match fuel with
  | O => None
  | S f =>
    let step :=
      if is_window_start s then
        fold_left (fun (r : ptres) p =>
                     match r with
                     | None => None
                     | Some (t', acc', wk') =>
                       match pr_add_to_ready t' s p with
                       | None => None
                       | Some (t'', w) => Some (t'', acc' ++ [(s, p)], wk' ++ w)
                       end
                     end) parents (Some (t, acc, wk))
      else Some (t, acc, wk) in
    match step with
    | None => None
    | Some (t1, acc1, wk1) =>
      if pr_skip (pt_get t1 s) then pt_propagate f t1 (s + 1) parents acc1 wk1 else Some (t1, acc1, wk1)
    end
  end.
Definition pt_fuel (t : prtracker) : nat := S (S (length (pt_states t))).

Definition pt_mark_notar_fallback (t : prtracker) (id : blockid) : ptres :=
  let '(s, h) := id in
  if s <? pt_root t then Some (t, [], [])
  else
    let st := pt_get t s in
    if memN h (pr_nfs st) then Some (t, [], [])
    else
      let t1 := pt_set t s (mkPR (pr_skip st) (pr_nfs st ++ [h]) (pr_ready st) (pr_waiting st)) in
      pt_propagate (pt_fuel t1) t1 (s + 1) [id] [] [].

(* going back from marked slot within its window, collecting potential parents *)
Fixpoint pt_collect (t : prtracker) (marked : slot) (slots_desc : list slot) (acc : list blockid) : list blockid :=
  match slots_desc with
  | [] => acc
  | s :: rest =>
    let st := pt_get t s in
    let acc1 := if s =? marked then acc else acc ++ map (fun h => (s, h)) (pr_nfs st) in
    if negb (pr_skip st) then acc1
    else pt_collect t marked rest (acc1 ++ match pr_ready st with Some ids => ids | None => [] end)
  end.

Definition pt_mark_skipped (t : prtracker) (marked : slot) : ptres :=
  if marked <? pt_root t then Some (t, [], [])
  else
    let st := pt_get t marked in
    if pr_skip st then Some (t, [], [])
    else
      let t1 := pt_set t marked (mkPR true (pr_nfs st) (pr_ready st) (pr_waiting st)) in
      let wf := window_first marked in
      let slots := filter (fun s => (s <=? marked) && (pt_root t1 <=? s)) (seqN wf (N.to_nat SLOTS_PER_WINDOW)) in
      let parents := pt_collect t1 marked (rev slots) [] in
      pt_propagate (pt_fuel t1) t1 (marked + 1) parents [] [].

Definition pt_handle_finalization (t : prtracker) (ev : fin_event) : ptres :=
  let step (r : ptres) (f : prtracker -> ptres) : ptres :=
    match r with
    | None => None
    | Some (t', acc, wk) =>
      match f t' with None => None | Some (t'', a, w) => Some (t'', acc ++ a, wk ++ w) end
    end in
  let r0 : ptres := Some (t, [], []) in
  let r1 := match fe_final ev with Some b => step r0 (fun t' => pt_mark_notar_fallback t' b) | None => r0 end in
  let r2 := fold_left (fun r b => step r (fun t' => pt_mark_notar_fallback t' b)) (fe_impl_final ev) r1 in
  let r3 := fold_left (fun r s => step r (fun t' => pt_mark_skipped t' s)) (fe_impl_skipped ev) r2 in
  match r3 with
  | None => None
  | Some (t', acc, wk) =>
    (* max_by_key keeps the LAST maximal element *)
    let best := fold_left (fun (b : option (slot * blockid)) x =>
                             match b with None => Some x
                                        | Some y => if fst y <=? fst x then Some x else Some y end) acc None in
    Some (t', match best with Some x => [x] | None => [] end, wk)
  end.

Definition pt_prune (t : prtracker) (new_root : slot) : prtracker :=
  mkPT (filter (fun kv => new_root <=? fst kv) (pt_states t)) new_root.

Definition pt_parents_ready (t : prtracker) (s : slot) : list blockid :=
  match alookup s (pt_states t) with
  | Some st => match pr_ready st with Some ids => ids | None => [] end
  | None => []
  end.

Fixpoint bid_insert_sorted (x : blockid) (l : list blockid) : list blockid :=
  match l with [] => [x] | y :: t => if bid_ltb y x then y :: bid_insert_sorted x t else x :: l end.
Definition bid_sort (l : list blockid) : list blockid := fold_right bid_insert_sorted [] l.

(* wait_for_parent_ready: Left id / Right (waiter registered); None = panic (second waiter) *)
Definition pt_wait (t : prtracker) (s : slot) : option (prtracker * option blockid) :=
  let st := pt_get t s in
  match pr_ready st with
  | Some ids => let sorted := bid_sort ids in
                Some (pt_set t s (mkPR (pr_skip st) (pr_nfs st) (Some sorted) (pr_waiting st)), Some (hd (0, 0) sorted))
  | None => if pr_waiting st then None
            else Some (pt_set t s (mkPR (pr_skip st) (pr_nfs st) None true), None)
  end.

(* ================= PoolImpl ================= *)
Record pool := mkPool {
  p_slots : list (slot * slot_state);       (* BTreeMap<Slot, SlotState> *)
  p_prt : prtracker;
  p_ft : ftracker;
  p_waiting : list (blockid * blockid);     (* s2n_waiting_parent_cert: (parent, child) pairs, per parent in insertion order *)
  p_panicked : bool
}.
Definition pool_init : pool := mkPool [] pt_init ft_init [] false.

Definition p_ss (p : pool) (s : slot) : slot_state := aget ss_empty s (p_slots p).
Definition p_set_ss (p : pool) (s : slot) (ss : slot_state) : pool :=
  mkPool (ainsert s ss (p_slots p)) (p_prt p) (p_ft p) (p_waiting p) (p_panicked p).
Definition p_touch (p : pool) (s : slot) : pool :=      (* slot_state(slot) creates the entry *)
  match alookup s (p_slots p) with Some _ => p | None => p_set_ss p s ss_empty end.
Definition panicked (p : pool) : pool := mkPool (p_slots p) (p_prt p) (p_ft p) (p_waiting p) true.

Record pout := mkPO { po_events : list pevent; po_repair : list blockid }.
Definition po_empty := mkPO [] [].
Definition po_app (a b : pout) := mkPO (po_events a ++ po_events b) (po_repair a ++ po_repair b).

Definition first_unpruned (p : pool) : slot := ft_first (p_ft p).
Definition finalized_slot (p : pool) : slot := ft_highest (p_ft p).

Definition pool_prune (p : pool) : pool :=
  let f := first_unpruned p in
  mkPool (filter (fun kv => f <=? fst kv) (p_slots p)) (pt_prune (p_prt p) f) (p_ft p) (p_waiting p) (p_panicked p).

Definition pr_events (l : list (slot * blockid)) : list pevent := map (fun sp => EParentReady (fst sp) (snd sp)) l.

(* handle_finalization: parent-ready tracker update, events, prune *)
Definition pool_handle_finalization (p : pool) (ev : fin_event) : option (pool * pout) :=
  match pt_handle_finalization (p_prt p) ev with
  | None => None
  | Some (t, prs, wk) =>
    let p1 := mkPool (p_slots p) t (p_ft p) (p_waiting p) (p_panicked p) in
    Some (pool_prune p1, mkPO (wk ++ pr_events prs) [])
  end.

Definition pool_with_ft (p : pool) (t : ftracker) : pool := mkPool (p_slots p) (p_prt p) t (p_waiting p) (p_panicked p).
Definition pool_with_prt (p : pool) (t : prtracker) : pool := mkPool (p_slots p) t (p_ft p) (p_waiting p) (p_panicked p).

(* notify_waiting_children: every child waiting for parent [b] learns that it is certified.
   (current tree, "fix: notify every waiting child ..."; the pinned tree kept one child per parent
   and did not notify on fast-finalization certificates) *)
(* [skip_pruned]: current tree ("fix: skip waiting children whose slot was pruned when their parent gets
   certified"); the pinned tree re-created the pruned slot's state and hit 'parent not known' (None = panic) *)
Fixpoint notify_children_gen (skip_pruned : bool) (e : epoch) (p : pool) (children : list blockid) (acc : pout) : option (pool * pout) :=
  match children with
  | [] => Some (p, acc)
  | (cs, ch) :: rest =>
    if skip_pruned && (cs <? first_unpruned p) then notify_children_gen skip_pruned e p rest acc
    else
    let p' := p_touch p cs in
    match notify_parent_certified e cs (p_ss p' cs) ch with
    | None => None
    | Some (ss', evs, rps) => notify_children_gen skip_pruned e (p_set_ss p' cs ss') rest (po_app acc (mkPO evs rps))
    end
  end.
Definition notify_children := notify_children_gen true.
Definition notify_waiting_children_gen (skip_pruned : bool) (e : epoch) (p : pool) (b : blockid) : option (pool * pout) :=
  let children := map snd (filter (fun kv => bid_eqb b (fst kv)) (p_waiting p)) in
  let p1 := mkPool (p_slots p) (p_prt p) (p_ft p) (bremove b (p_waiting p)) (p_panicked p) in
  notify_children_gen skip_pruned e p1 children po_empty.
Definition notify_waiting_children := notify_waiting_children_gen true.

(* add_valid_cert *)
Definition add_valid_cert (e : epoch) (p : pool) (c : cert) : option (pool * pout) :=
  let s := c_slot c in
  let p0 := p_set_ss p s (ss_add_cert (p_ss p s) c) in
  let finish (r : option (pool * pout)) :=
    match r with
    | None => None
    | Some (p', o) => Some (p', po_app o (mkPO [ECertCreated c] []))
    end in
  match c_kind c with
  | CNotar h | CNotarFb h =>
    let b := (s, h) in
    let r1 : option (pool * pout) :=
      match c_kind c with
      | CNotar _ =>
        match ft_mark_notarized (p_ft p0) b with
        | None => None
        | Some (t, ev) => pool_handle_finalization (pool_with_ft p0 t) ev
        end
      | _ => Some (p0, po_empty)
      end in
    match r1 with
    | None => None
    | Some (p1, o1) =>
      let r2 : option (pool * pout) := notify_waiting_children e p1 b in
      match r2 with
      | None => None
      | Some (p2, o2) =>
        match pt_mark_notar_fallback (p_prt p2) b with
        | None => None
        | Some (t, prs, wk) =>
          finish (Some (pool_with_prt p2 t, po_app (po_app o1 o2) (mkPO (wk ++ pr_events prs) [b])))
        end
      end
    end
  | CSkip =>
    match pt_mark_skipped (p_prt p0) s with
    | None => None
    | Some (t, prs, wk) => finish (Some (pool_with_prt p0 t, mkPO (wk ++ pr_events prs) []))
    end
  | CFastFinal h =>
    match ft_mark_fast_finalized (p_ft p0) (s, h) with
    | None => None
    | Some (t, ev) =>
      match pool_handle_finalization (pool_with_ft p0 t) ev with
      | None => None
      | Some (p1, o1) =>
        match notify_waiting_children e p1 (s, h) with
        | None => None
        | Some (p2, o2) => finish (Some (p2, po_app o1 o2))
        end
      end
    end
  | CFinal =>
    match ft_mark_finalized (p_ft p0) s with
    | None => None
    | Some (t, ev) => finish (pool_handle_finalization (pool_with_ft p0 t) ev)
    end
  end.

Definition out_of_bounds (p : pool) (s : slot) : bool :=
  (s <? first_unpruned p) || (finalized_slot p + 2 * SLOTS_PER_EPOCH <=? s).

Definition cert_duplicate (ss : slot_state) (c : cert) : bool :=
  match c_kind c with
  | CNotar _ => match ce_notar (ss_c ss) with Some _ => true | None => false end
  | CNotarFb h => is_notar_fallback ss h
  | CSkip => match ce_skip (ss_c ss) with Some _ => true | None => false end
  | CFastFinal _ => match ce_ff (ss_c ss) with Some _ => true | None => false end
  | CFinal => match ce_fin (ss_c ss) with Some _ => true | None => false end
  end.

Inductive pool_op :=
| OpVote (v : vote)
| OpCert (c : cert)
| OpBlock (b p : blockid)
| OpStandstill
| OpWait (s : slot)
| OpNoop.      (* a message refused by validation before it reaches the pool *)

Inductive presult := RVerdict (v : verdict) | RWait (r : option blockid) | RPanic.

Definition pool_add_cert (e : epoch) (p : pool) (c : cert) : pool * presult * pout :=
  let s := c_slot c in
  if out_of_bounds p s then (p, RVerdict VOutOfBounds, po_empty)
  else
    let p0 := p_touch p s in
    if cert_duplicate (p_ss p0 s) c then (p0, RVerdict VDuplicate, po_empty)
    else match add_valid_cert e p0 c with
         | None => (panicked p0, RPanic, po_empty)
         | Some (p1, o) => (p1, RVerdict VOk, o)
         end.

Fixpoint add_certs (e : epoch) (p : pool) (cs : list (option cert)) (acc : pout) : option (pool * pout) :=
  match cs with
  | [] => Some (p, acc)
  | None :: _ => None
  | Some c :: t =>
    match add_valid_cert e p c with
    | None => None
    | Some (p', o) => add_certs e p' t (po_app acc o)
    end
  end.

Definition pool_add_vote_gen (store_first : bool) (e : epoch) (p : pool) (vt : vote) : pool * presult * pout :=
  let s := v_slot vt in
  if out_of_bounds p s then (p, RVerdict VOutOfBounds, po_empty)
  else
    let p0 := p_touch p s in
    let ss := p_ss p0 s in
    match check_slashable ss vt with
    | Some o => (p0, RVerdict (VSlashable o), po_empty)
    | None =>
      if should_ignore ss vt then (p0, RVerdict VDuplicate, po_empty)
      else
        let '(ss', out) := ss_add_vote_gen store_first e ss vt in
        let p1 := p_set_ss p0 s ss' in
        match add_certs e p1 (o_certs out) po_empty with
        | None => (panicked p1, RPanic, po_empty)
        | Some (p2, o) => (p2, RVerdict VOk, po_app o (mkPO (o_events out) (o_repair out)))
        end
    end.
Definition pool_add_vote := pool_add_vote_gen true.

(* current tree ("fix: prune after block registration ..."): blocks of decided slots are ignored,
   and the finalization caused by a parent registration prunes like every other finalization *)
(* [genesis_parent_ok]: current tree ("fix: treat the genesis block as a certified parent for safe-to-notar");
   the pinned tree looked only for a certificate in the parent's slot, and genesis has none *)
Definition pool_add_block_gen (genesis_parent_ok : bool) (e : epoch) (p : pool) (b par : blockid) : pool * presult * pout :=
  if negb (fst par <? fst b) then (panicked p, RPanic, po_empty)
  else if fst b <? first_unpruned p then (p, RVerdict VNone, po_empty)
  else
    match ft_add_parent (p_ft p) b par with
    | None => (panicked p, RPanic, po_empty)
    | Some (t, ev) =>
      match pool_handle_finalization (pool_with_ft p t) ev with
      | None => (panicked p, RPanic, po_empty)
      | Some (p1, o1) =>
        if fst b <? first_unpruned p1 then (p1, RVerdict VNone, o1)
        else
        let p2 := p_set_ss p1 (fst b) (notify_parent_known (p_ss p1 (fst b)) (snd b)) in
        let parent_certified :=
          (genesis_parent_ok && bid_eqb par (0, 0))
          || match alookup (fst par) (p_slots p2) with
             | Some pss => is_nf_or_stronger pss (snd par)
             | None => false
             end in
        if parent_certified then
          match notify_parent_certified e (fst b) (p_ss p2 (fst b)) (snd b) with
          | None => (panicked p2, RPanic, po_empty)
          | Some (ss', evs, rps) =>
            let p3 := p_set_ss p2 (fst b) ss' in
            match evs, rps with
            | [], [] =>
              (mkPool (p_slots p3) (p_prt p3) (p_ft p3) (p_waiting p3 ++ [(par, b)]) (p_panicked p3),
               RVerdict VNone, o1)
            | _, _ => (p3, RVerdict VNone, po_app o1 (mkPO evs rps))
            end
          end
        else
          (mkPool (p_slots p2) (p_prt p2) (p_ft p2) (p_waiting p2 ++ [(par, b)]) (p_panicked p2),
           RVerdict VNone, o1)
      end
    end.

Definition pool_add_block := pool_add_block_gen true.

(* recover_from_standstill *)
Definition certs_of_slot (ss : slot_state) : list cert :=
  (match ce_fin (ss_c ss) with Some c => [c] | None => [] end) ++
  (match ce_ff (ss_c ss) with Some c => [c] | None => [] end) ++
  (match ce_notar (ss_c ss) with Some c => [c] | None => [] end) ++
  ce_nf (ss_c ss) ++
  (match ce_skip (ss_c ss) with Some c => [c] | None => [] end).

Fixpoint slot_insert_sorted {V} (x : slot * V) (l : list (slot * V)) : list (slot * V) :=
  match l with [] => [x] | y :: t => if fst y <? fst x then y :: slot_insert_sorted x t else x :: l end.
Definition slots_sorted {V} (l : list (slot * V)) : list (slot * V) := fold_right slot_insert_sorted [] l.

Definition get_final_certs (p : pool) (s : slot) : list cert :=
  match alookup s (p_slots p) with
  | None => []
  | Some ss =>
    match ce_ff (ss_c ss) with
    | Some c => [c]
    | None => match ce_fin (ss_c ss), ce_notar (ss_c ss) with
              | Some f, Some n => [f; n]
              | _, _ => []
              end
    end
  end.

Definition own_votes_of_slot (e : epoch) (s : slot) (ss : slot_state) : list vote :=
  let o := own e in
  (if memN o (vo_fin (ss_v ss)) then [mkVote s KFinal o] else []) ++
  (match alookup o (vo_notar (ss_v ss)) with Some h => [mkVote s (KNotar h) o] | None => [] end) ++
  (* BTreeMap<BlockHash, _>: ascending hash order *)
  map (fun h => mkVote s (KNotarFb h) o)
      (fold_right sset_insert [] (map snd (filter (fun vh => fst vh =? o) (vo_nf (ss_v ss))))) ++
  (if memN o (vo_skip (ss_v ss)) then [mkVote s KSkip o] else []) ++
  (if memN o (vo_sf (ss_v ss)) then [mkVote s KSkipFb o] else []).

(* [genesis_ok]: current tree ("fix: standstill recovery at genesis") needs no certificate
   for the genesis slot; the pinned tree asserted !certs.is_empty() unconditionally *)
Definition pool_standstill_gen (genesis_ok : bool) (e : epoch) (p : pool) : pool * presult * pout :=
  let s := finalized_slot p in
  let fc := get_final_certs p s in
  match fc with
  | [] => if genesis_ok && (s =? 0) then
            let later := filter (fun kv => s <? fst kv) (slots_sorted (p_slots p)) in
            (p, RVerdict VNone,
             mkPO [EStandstill (s + 1) (flat_map (fun kv => certs_of_slot (snd kv)) later)
                               (flat_map (fun kv => own_votes_of_slot e (fst kv) (snd kv)) later)] [])
          else (panicked p, RPanic, po_empty)
  | _ =>
    let later := filter (fun kv => s <? fst kv) (slots_sorted (p_slots p)) in
    (p, RVerdict VNone,
     mkPO [EStandstill (s + 1) (fc ++ flat_map (fun kv => certs_of_slot (snd kv)) later)
                       (flat_map (fun kv => own_votes_of_slot e (fst kv) (snd kv)) later)] [])
  end.
Definition pool_standstill := pool_standstill_gen true.

Definition pool_wait (p : pool) (s : slot) : pool * presult * pout :=
  match pt_wait (p_prt p) s with
  | None => (panicked p, RPanic, po_empty)
  | Some (t, r) => (pool_with_prt p t, RWait r, po_empty)
  end.

Definition pool_step (e : epoch) (p : pool) (op : pool_op) : pool * presult * pout :=
  if p_panicked p then (p, RPanic, po_empty)
  else
    match op with
    | OpVote v => pool_add_vote e p v
    | OpCert c => pool_add_cert e p c
    | OpBlock b par => pool_add_block e p b par
    | OpStandstill => pool_standstill e p
    | OpWait s => pool_wait p s
    | OpNoop => (p, RVerdict VNone, po_empty)
    end.

(* observable queries after each operation *)
Record pobs := mkObs {
  ob_finalized : slot;
  ob_first_unpruned : slot;
  ob_retained_slots : list slot;                     (* keys of slot_states, ascending *)
  ob_parents_ready : list (slot * list blockid)      (* parents_ready(s) as a sorted list, for the queried slots *)
}.
Definition observe (p : pool) (queried : list slot) : pobs :=
  mkObs (finalized_slot p) (first_unpruned p) (map fst (slots_sorted (p_slots p)))
        (map (fun s => (s, bid_sort (pt_parents_ready (p_prt p) s))) queried).
