(* Node-level executable statement of the voting rules R0-R3, R6 and "fallback votes only on the
   corresponding pool event" over ONE node's own vote sequence and the evidence its Votor was handed
   (definitions only).  Used three ways:
     - Oracle/C01.v evaluates it on the REAL Votor's broadcast log (flag 2);
     - Proofs/SafetyLink.v proves it for every trace of the Votor model (votor_obeys_rules);
     - Proofs/SafetyLink.v proves that, when the handed events are justified by the votes cast so far
       (what Pool guarantees, C06/C07), it implies the abstract rule [rule_at] of Model/Safety.v.

   MODELLED_FUNCTIONS: (specification of) Votor::{try_notar,try_final,try_skip_window,handle_pool_event} *)
From Coq Require Import List NArith Bool.
From AG Require Import Gen.Params Model.Pool Model.Votor Model.Safety.
Import ListNotations.
Open Scope N_scope.

Record evidence := mkEv {
  ev_pr : list (slot * blockid);         (* ParentReady(s, p) events handed to Votor *)
  ev_nc : list blockid;                  (* notarization certificates handed (CertCreated) *)
  ev_s2n : list blockid;                 (* SafeToNotar(b) events handed *)
  ev_s2s : list slot;                    (* SafeToSkip(s) events handed *)
  ev_blocks : list (blockid * blockid)   (* blocks announced by the blockstore: (block, parent) *)
}.
Definition ev_empty : evidence := mkEv [] [] [] [] [].

(* the node's own earlier votes contain one in slot s whose kind satisfies f *)
Definition own_has (older : list vote) (s : slot) (f : vkind -> bool) : bool :=
  existsb (fun v => (v_slot v =? s) && f (v_kind v)) older.
Definition k_initial (k : vkind) : bool := match k with KNotar _ | KSkip => true | _ => false end.
Definition k_bad (k : vkind) : bool := match k with KSkip | KSkipFb | KNotarFb _ => true | _ => false end.
Definition k_final (k : vkind) : bool := match k with KFinal => true | _ => false end.
Definition k_notar (h : hash) (k : vkind) : bool := match k with KNotar h' => h' =? h | _ => false end.
Definition bid_in (b : blockid) (l : list blockid) : bool := existsb (bid_eqb b) l.

(* may vote x be cast after the own votes [older], given the evidence handed so far? *)
Definition vote_okb (older : list vote) (ev : evidence) (x : vote) : bool :=
  let s := v_slot x in
  (* R0; a finalization vote for the genesis slot needs a notarization certificate for the genesis block *)
  match v_kind x with KFinal => true | _ => 0 <? s end &&
  match v_kind x with
  | KNotar h =>
    (* R1 *) negb (own_has older s k_initial) &&
    (* R6: a block (s, h) with parent p was announced, and p is acceptable *)
    existsb (fun bp => bid_eqb (fst bp) (s, h) &&
               let p := snd bp in
               if s =? window_first s
               then existsb (fun sp => (fst sp =? s) && bid_eqb (snd sp) p) (ev_pr ev)
               else (fst p =? s - 1) && (bid_eqb p genesis || own_has older (s - 1) (k_notar (snd p))))
            (ev_blocks ev)
  | KSkip => (* R1 *) negb (own_has older s k_initial)
  | KFinal =>
    (* R2 *) existsb (fun b => (fst b =? s) && (bid_eqb b genesis || own_has older s (k_notar (snd b)))) (ev_nc ev)
    && negb (own_has older s k_bad)
  | KNotarFb h => (* R3 *) negb (own_has older s k_final) && (* R4, node part *) bid_in (s, h) (ev_s2n ev)
  | KSkipFb => (* R3 *) negb (own_has older s k_final) && (* R5, node part *) memN s (ev_s2s ev)
  end.

(* own votes in the order cast, against a fixed body of evidence *)
Fixpoint rules_ok_from (older : list vote) (ev : evidence) (vs : list vote) : bool :=
  match vs with
  | [] => true
  | x :: t => vote_okb older ev x && rules_ok_from (older ++ [x]) ev t
  end.
Definition rules_ok (vs : list vote) (ev : evidence) : bool := rules_ok_from [] ev vs.

(* ---------- traces of a Votor: inputs and broadcasts, step by step ---------- *)
Definition ev_add_input (ev : evidence) (i : vin) : evidence :=
  match i with
  | VPool (EParentReady s p) => mkEv ((s, p) :: ev_pr ev) (ev_nc ev) (ev_s2n ev) (ev_s2s ev) (ev_blocks ev)
  | VPool (ECertCreated c) =>
    match c_kind c with
    | CNotar h => mkEv (ev_pr ev) ((c_slot c, h) :: ev_nc ev) (ev_s2n ev) (ev_s2s ev) (ev_blocks ev)
    | _ => ev
    end
  | VPool (ESafeToNotar b) => mkEv (ev_pr ev) (ev_nc ev) (b :: ev_s2n ev) (ev_s2s ev) (ev_blocks ev)
  | VPool (ESafeToSkip s) => mkEv (ev_pr ev) (ev_nc ev) (ev_s2n ev) (s :: ev_s2s ev) (ev_blocks ev)
  | VBlock s h p => mkEv (ev_pr ev) (ev_nc ev) (ev_s2n ev) (ev_s2s ev) (((s, h), p) :: ev_blocks ev)
  | _ => ev
  end.

Definition vouts_votes (l : list vout) : list vote := flat_map (fun o => match o with VBVote v => [v] | _ => [] end) l.
(* the votes a step DECIDES: a standstill bundle re-broadcasts votes stored in the pool, it decides nothing *)
Definition decision_votes (i : vin) (outs : list vout) : list vote :=
  match i with VPool (EStandstill _ _ _) => [] | _ => vouts_votes outs end.

(* every decided vote obeys the rules w.r.t. the own votes decided before it and the evidence handed
   up to and including the current input; signed by the node itself *)
Fixpoint trace_ok (own : vidx) (older : list vote) (ev : evidence) (steps : list (vin * list vout)) : bool :=
  match steps with
  | [] => true
  | (i, outs) :: rest =>
    let ev' := ev_add_input ev i in
    let new := decision_votes i outs in
    forallb (fun v => v_signer v =? own) new
    && rules_ok_from older ev' new
    && trace_ok own (older ++ new) ev' rest
  end.

(* the trace of the Votor model *)
Fixpoint votor_trace (own : vidx) (t : votor) (ins : list vin) : list (vin * list vout) :=
  match ins with
  | [] => []
  | i :: rest => let '(t', o, _) := votor_step own t i in (i, o) :: votor_trace own t' rest
  end.
