(* The shredder model instantiated with executable bytes (primitive ints 0..255), the executable
   SHA-256 and the Merkle labels read from the implementation.  The Reed-Solomon codec, the
   AES-CTR keystream and the Ed25519 signature stay parameters (external libraries).
   Used to RUN the model (Oracle/C11.v) and to state the theorems on what actually runs. *)
From Coq Require Import Uint63 List NArith ZArith Bool.
From AG Require Import Lib.Sha256 Lib.Hex Gen.Params Model.Merkle Model.MerkleSha Model.Shredder.
Import ListNotations.

Definition ibytes := list int.
Definition int_of_N (n : N) : int := of_Z (Z.of_N n).
Definition i_zero : int := 0%uint63.
Definition i_marker : int := 128%uint63.

Section ShredderSha.
  Variable rs_encode : N -> list ibytes -> list ibytes.
  Variable rs_recover : N -> list (option ibytes) -> list (option ibytes) -> list ibytes.
  Variable keystream : ibytes -> ibytes -> ibytes.
  Variable sign : header -> ibytes -> N.
  Variable tree_fn : list ibytes -> list (list ibytes).
  Variable proof_fn : list (list ibytes) -> N -> list ibytes.

  Definition i_real_tree : list ibytes -> list (list ibytes) := real_tree sha_leaf sha_pair.
  Definition i_real_proof : list (list ibytes) -> N -> list ibytes := real_proof sha_leaf sha_pair.
  Definition i_fast_proof : list (list ibytes) -> N -> list ibytes := fast_proof sha_leaf sha_pair.
  Definition i_rs_shred := @rs_shred int i_zero i_marker rs_encode.
  Definition i_shred_slice : variant -> slice -> ibytes -> sres (list (@shred int ibytes N)) :=
    shred_slice i_zero i_marker PrimInt63.lxor int_of_N rs_encode keystream sha256 sha_leaf sign tree_fn proof_fn.
  Definition i_deshred : variant -> list (option (@shred int ibytes N)) -> dres (@rslice int ibytes) * list (option (@shred int ibytes N)) :=
    deshred i_zero i_marker Uint63.eqb PrimInt63.lxor N_of_int rs_encode rs_recover keystream sha256 sha_leaf bytes_eqb tree_fn proof_fn.
  Definition i_rs_input : variant -> slice -> ibytes -> ibytes := rs_input PrimInt63.lxor int_of_N keystream sha256.
  Definition i_payload_bytes : slice -> ibytes := payload_bytes int_of_N.
End ShredderSha.
