(* A SYSTEM of consensus nodes (C01, DESIGN layer 3); definitions only, no proofs.

   A system = the world of Model/Safety.v (validator stakes, the Byzantine set, the block tree) together
   with ONE node model (Model/Node.v: Pool composed with Votor as src/consensus.rs wires them) per
   validator index, and the GLOBAL HISTORY of all votes cast so far, newest first (the [hist] of
   Model/Safety.v).  Only the nodes of CORRECT validators are ever stepped; a Byzantine validator has no
   node: it simply casts votes.

   One step of the system is chosen by the scheduler / adversary ([label]):
     LByz v      a Byzantine validator signs and sends ANY vote v (any slot, kind, block; conflicting
                 votes included).  Ideal signatures: the signer of a vote is who cast it, so the only
                 requirement is that v's signer is Byzantine.
     LNode u i   the correct validator u's node handles ONE input i (Model/Node.v [nin]):
                   NVote v          any vote that WAS REALLY CAST (is in the history) - by anybody, the
                                    node itself included (own votes loop back through All2All) - may be
                                    delivered to any node, any number of times, in any order, or never;
                   NCert c          a certificate is delivered only if it is BACKED by votes really
                                    cast ([cert_backed]: every listed signer cast the matching vote and
                                    the listed validators, each counted once, reach the threshold:
                                    what ValidatedCert::try_new checks, with ideal signatures - C09).
                                    Certificates created by correct pools are backed, and so is every
                                    certificate a correct node holds (Proofs/SysSlot.v SJ_vote,
                                    Proofs/SystemProofs.v node_held_cert_sound);
                   NPoolBlock, NBlock   a block is announced (to Pool::add_block / to Votor) with its
                                    TRUE parent in the block tree [w_parent], in any order, at any time;
                   NTimeout, NTimeoutCrashed, NFirstShred, NInvalidBlock, NWait, NStandstill
                                    fire at any time.
                 Every vote the node's Votor DECIDES in that step (Model/NodeRules.v [decision_votes]:
                 all broadcast votes except the re-broadcasts of a standstill bundle, which repeat
                 votes stored in the pool) is added to the global history, in the order decided.
   Crashes need no label: a crashed node is one the scheduler never steps again.  Message loss,
   delay, duplication and reordering are the scheduler's freedom to choose [LNode u (NVote v)] or not.

   [sys_exec W ls] runs a label sequence from the initial system; [None] = some label was not enabled.

   MODELLED_FUNCTIONS: (composition of) Alpenglow::{new,handle_all2all_message,standstill_loop}
     Votor::voting_loop All2All::broadcast (as a message soup) ValidatedCert::try_new (ideal) *)
From Coq Require Import List NArith Bool.
From AG Require Import Gen.Params Model.Pool Model.PoolSpec Model.Votor Model.Node Model.Safety Model.NodeRules.
Import ListNotations.
Open Scope N_scope.

(* ---------- nodes ---------- *)
(* validator u runs the node model with the world's stake vector and itself as [own] *)
Definition node_epoch (W : world) (u : vidx) : epoch := mkEpoch (w_stakes W) u.

Record sys := mkSys {
  s_node : vidx -> node;       (* the node of validator u (meaningful for correct validators only) *)
  s_hist : list vote           (* all votes cast so far, newest first *)
}.
Definition sys_init : sys := mkSys (fun _ => node_init) [].
Definition upd_node (f : vidx -> node) (u : vidx) (nd : node) : vidx -> node :=
  fun x => if x =? u then nd else f x.

(* ---------- what may be delivered ---------- *)
(* vote v was really cast *)
Definition was_cast (H : list vote) (v : vote) : bool := cast H (v_slot v) (v_kind v) (v_signer v).

(* certificate c is backed by votes really cast: the signers of the first half cast the certificate's
   primary vote kind, those of the second half the secondary kind (notar-fallback / skip-fallback; for the
   unmixed certificates both halves carry the primary kind), and the listed validators - each counted
   once - hold the threshold stake (80 % for fast-finalization, 60 % otherwise) *)
Definition cert_signers (c : cert) : vidx -> bool := fun v => memN v (c_s1 c) || memN v (c_s2 c).
Definition cert_backed (W : world) (H : list vote) (c : cert) : bool :=
  let s := c_slot c in
  let k1 := fst (cert_vote_kinds (c_kind c)) in
  let k2 := match snd (cert_vote_kinds (c_kind c)) with Some k => k | None => k1 end in
  forallb (cast H s k1) (c_s1 c) && forallb (cast H s k2) (c_s2 c)
  && match c_kind c with
     | CFastFinal _ => is_strong_quorum (wep W) (stk W (cert_signers c))
     | _ => is_quorum (wep W) (stk W (cert_signers c))
     end.

(* the certificate as a stake statement of Model/Safety.v *)
Definition cert_just (W : world) (H : list vote) (c : cert) : bool :=
  match c_kind c with
  | CNotar h => notar_cert W H (c_slot c, h)
  | CNotarFb h => nf_cert W H (c_slot c, h)
  | CSkip => skip_cert W H (c_slot c)
  | CFastFinal h => ff_cert W H (c_slot c, h)
  | CFinal => final_cert W H (c_slot c)
  end.

Definition parent_is (W : world) (b p : blockid) : bool :=
  match w_parent W b with Some p' => bid_eqb p' p | None => false end.

Definition input_okb (W : world) (H : list vote) (i : nin) : bool :=
  match i with
  | NVote v => was_cast H v
  | NCert c => cert_backed W H c
  | NPoolBlock b p => parent_is W b p
  | NBlock s h p => parent_is W (s, h) p
  | _ => true
  end.

(* ---------- the votes a node decides in one step ---------- *)
Definition nin_votor_in (i : nin) : option vin :=
  match i with
  | NFirstShred s => Some (VFirstShred s)
  | NBlock s h p => Some (VBlock s h p)
  | NInvalidBlock s => Some (VInvalidBlock s)
  | NTimeout s => Some (VTimeout s)
  | NTimeoutCrashed s => Some (VTimeoutCrashed s)
  | _ => None
  end.

(* Votor handles the pool events of one pool operation in order (as [votor_feed]); the votes decided *)
Fixpoint feed_decided (own : vidx) (t : votor) (evs : list pevent) : list vote :=
  match evs with
  | [] => []
  | ev :: rest =>
    let '(t1, o1, _) := votor_step own t (VPool ev) in
    decision_votes (VPool ev) o1 ++ feed_decided own t1 rest
  end.

Definition node_decided (e : epoch) (nd : node) (i : nin) : list vote :=
  match nin_pool_op i with
  | Some op =>
    let '(_, _, o) := pool_step e (nd_pool nd) op in
    feed_decided (own e) (nd_votor nd) (filter (fun x => negb (pe_is_woken x)) (po_events o))
  | None =>
    match nin_votor_in i with
    | Some vi => let '(_, outs, _) := votor_step (own e) (nd_votor nd) vi in decision_votes vi outs
    | None => []
    end
  end.

(* ---------- steps ---------- *)
Inductive label :=
| LByz (v : vote)
| LNode (u : vidx) (i : nin).

Definition label_okb (W : world) (S : sys) (l : label) : bool :=
  match l with
  | LByz v => byz W (v_signer v)
  | LNode u i => correct W u && (u <? nvals (wep W)) && input_okb W (s_hist S) i
  end.

Definition sys_apply (W : world) (S : sys) (l : label) : sys :=
  match l with
  | LByz v => mkSys (s_node S) (v :: s_hist S)
  | LNode u i =>
    let e := node_epoch W u in
    let nd := s_node S u in
    mkSys (upd_node (s_node S) u (fst (node_step e nd i)))
          (rev (node_decided e nd i) ++ s_hist S)
  end.

Definition sys_step (W : world) (S : sys) (l : label) : option sys :=
  if label_okb W S l then Some (sys_apply W S l) else None.

Fixpoint sys_exec_from (W : world) (S : sys) (ls : list label) : option sys :=
  match ls with
  | [] => Some S
  | l :: rest => match sys_step W S l with Some S' => sys_exec_from W S' rest | None => None end
  end.
Definition sys_exec (W : world) (ls : list label) : option sys := sys_exec_from W sys_init ls.

(* ---------- what a node reports (its finality tracker and the certificates it holds) ---------- *)
(* the node's tracker holds block b as finalized - directly ... *)
Definition node_direct_finalized (nd : node) (b : blockid) : bool :=
  match alookup (fst b) (ft_status (p_ft (nd_pool nd))) with
  | Some (FFinalized h) => h =? snd b
  | _ => false
  end.
(* ... or directly / through a finalized descendant *)
Definition node_finalized (nd : node) (b : blockid) : bool :=
  match alookup (fst b) (ft_status (p_ft (nd_pool nd))) with
  | Some (FFinalized h) | Some (FImplFinalized h) => h =? snd b
  | _ => false
  end.
(* the tracker holds slot s as implicitly skipped *)
Definition node_impl_skipped (nd : node) (s : slot) : bool :=
  match alookup s (ft_status (p_ft (nd_pool nd))) with Some FImplSkipped => true | _ => false end.
(* the node's pool holds a skip certificate for slot s *)
Definition node_skip_certified (nd : node) (s : slot) : bool :=
  existsb (fun c => match c_kind c with CSkip => true | _ => false end) (certs_of_slot (p_ss (nd_pool nd) s)).
(* the node's pool holds a notarization / notar-fallback / fast-finalization certificate for block b *)
Definition node_certified (nd : node) (b : blockid) : bool := is_nf_or_stronger (p_ss (nd_pool nd) (fst b)) (snd b).

(* ---------- the rule R4 as it was stated before the genesis-parent repair of Pool::add_block ---------- *)
(* (kept to show that the composition would be FALSE for it: Proofs/SystemProofs.v, strict_r4_refuted) *)
Definition strict_r4 (W : world) (o : list vote) (x : vote) : Prop :=
  match v_kind x with
  | KNotarFb h => exists p, w_parent W (v_slot x, h) = Some p /\ nf_cert W o p = true
  | _ => True
  end.

(* ---------- the finality tracker's walk WITH the assertion on a Notarized status (pinned) ---------- *)
(* Copies of ft_handle_impl / ft_handle_finalized_block / ft_mark_fast_finalized of Model/Pool.v as they
   stood in the tree this composition was first proved against: FinalityTracker::handle_implicitly_finalized
   asserted that an old status Notarized(h) names the implicitly finalized block ("consensus safety
   violation", finality_tracker.rs l.345-347 of that tree).  A notarized block need not lie on the finalized
   chain, so the assertion fired in safe runs (Proofs/SystemExamples.v); repaired by "fix: allow a notarized
   block other than the implicitly finalized one in a slot".  Kept as separate definitions as the witness of
   the finding.  Never run by an oracle. *)
Fixpoint ft_handle_impl_asserting (fuel : nat) (t : ftracker) (source : slot) (b : blockid) (ev : fin_event) : ftres :=
  match fuel with
  | O => None
  | S f =>
    if negb (fst b <? source) then None
    else if fst b <? ft_first t then Some (t, ev)
    else
      match ft_skip_between t ev (seqN (fst b + 1) (N.to_nat (source - fst b - 1))) with
      | None => None
      | Some (t1, ev1, true) => Some (t1, ev1)
      | Some (t1, ev1, false) =>
        let old := alookup (fst b) (ft_status t1) in
        let t2 := ft_set_status t1 (fst b) (FImplFinalized (snd b)) in
        let continue_ (t3 : ftracker) :=
          let ev2 := mkFE (fe_final ev1) (fe_impl_final ev1 ++ [b]) (fe_impl_skipped ev1) in
          match blookup b (ft_parents t3) with
          | Some p => ft_handle_impl_asserting f t3 (fst b) p ev2
          | None => Some (t3, ev2)
          end in
        match old with
        | Some (FFinalized h) => if h =? snd b then Some (ft_set_status t2 (fst b) (FFinalized h), ev1) else None
        | Some (FImplFinalized h) => if h =? snd b then Some (ft_set_status t2 (fst b) (FImplFinalized h), ev1) else None
        | Some (FNotarized h) => if h =? snd b then continue_ t2 else None      (* the assertion in question *)
        | Some FFinalPendingNotar => continue_ t2
        | Some FImplSkipped => None
        | None => continue_ t2
        end
      end
  end.
Definition ft_handle_finalized_block_asserting (t : ftracker) (b : blockid) (ev : fin_event) : ftres :=
  let ev1 := mkFE (Some b) (fe_impl_final ev) (fe_impl_skipped ev) in
  let t1 := mkFT (ft_status t) (ft_parents t) (N.max (fst b) (ft_highest t)) (ft_first t) in
  match blookup b (ft_parents t1) with
  | Some p => match ft_handle_impl_asserting (ft_fuel t1) t1 (fst b) p ev1 with
              | Some (t2, ev2) => Some (ft_prune t2, ev2)
              | None => None
              end
  | None => Some (ft_prune t1, ev1)
  end.
Definition ft_mark_fast_finalized_asserting (t : ftracker) (b : blockid) : ftres :=
  if fst b <? ft_first t then Some (t, fe_empty)
  else
    let old := alookup (fst b) (ft_status t) in
    let t1 := ft_set_status t (fst b) (FFinalized (snd b)) in
    match old with
    | Some (FFinalized h) | Some (FImplFinalized h) => if h =? snd b then Some (t1, fe_empty) else None
    | Some (FNotarized h) => if h =? snd b then ft_handle_finalized_block_asserting t1 b fe_empty else None
    | Some FFinalPendingNotar | None => ft_handle_finalized_block_asserting t1 b fe_empty
    | Some FImplSkipped => None
    end.
