(* Executable model of ONE consensus node = Pool composed with Votor, wired as in src/consensus.rs
   (definitions only, no proofs).

     Alpenglow::new            the pool gets the sending side of the pool-event channel, Votor the
                               receiving side; Votor broadcasts through All2All
     handle_all2all_message    a validated vote / certificate is added to the pool
                               (own votes come back through All2All like everybody else's:
                               TrivialAll2All::broadcast sends to every validator including the sender)
     handle_disseminator_shred / BlockProducer::shred_and_disseminate / Repair
                               a reconstructed block is announced to Votor (BlockstoreEvent::Block, preceded
                               by FirstShred) and registered in the pool (Pool::add_block)
     standstill_loop           Pool::recover_from_standstill
     wait_for_first_slot       Pool::wait_for_parent_ready (the block producer's query)
     Votor::voting_loop        dispatches pool events, blockstore events and timeouts to the handlers

   Abstraction of the task wiring: ONE input is handled at a time; all pool events caused by a pool
   operation are handed to Votor, in the order the pool emitted them, before the next input
   (channels are FIFO; tokio::select! interleavings between the three Votor channels are not modelled).
   A panic of the pool (message loop task dies) or of Votor (voting task dies) is sticky per component.

   MODELLED_FUNCTIONS: Alpenglow::{new,handle_all2all_message,standstill_loop}
     Votor::voting_loop (dispatch) and the pool-event channel between PoolImpl and Votor *)
From Coq Require Import List NArith Bool.
From AG Require Import Gen.Params Model.Pool Model.Votor.
Import ListNotations.
Open Scope N_scope.

Record node := mkNode { nd_pool : pool; nd_votor : votor }.
Definition node_init : node := mkNode pool_init votor_init.

Inductive nin :=
| NVote (v : vote)                       (* validated vote from All2All (any signer, also the node itself) *)
| NCert (c : cert)                       (* validated certificate from All2All *)
| NPoolBlock (b p : blockid)             (* Pool::add_block *)
| NWait (s : slot)                       (* Pool::wait_for_parent_ready (block producer) *)
| NStandstill                            (* Pool::recover_from_standstill *)
| NFirstShred (s : slot)                 (* blockstore events to Votor *)
| NBlock (s : slot) (h : hash) (p : blockid)
| NInvalidBlock (s : slot)
| NTimeout (s : slot)                    (* Votor's own timers *)
| NTimeoutCrashed (s : slot).

Record nout := mkNO {
  no_res : presult;                      (* result of the pool operation (RVerdict VNone for Votor-only inputs) *)
  no_events : list pevent;               (* pool events, in emission order (incl. woken block-producer waiters) *)
  no_repair : list blockid;              (* repair requests *)
  no_out : list vout;                    (* Votor: broadcasts and timer schedules, in order *)
  no_vpanic : bool }.                    (* Votor has panicked (now or earlier) *)

Definition pe_is_woken (e : pevent) : bool := match e with EWaiterWoken _ _ => true | _ => false end.

(* Votor handles the pool events of one pool operation in order *)
Fixpoint votor_feed (own : vidx) (t : votor) (evs : list pevent) : votor * list vout :=
  match evs with
  | [] => (t, [])
  | ev :: rest =>
    let '(t1, o1, _) := votor_step own t (VPool ev) in
    let '(t2, o2) := votor_feed own t1 rest in
    (t2, o1 ++ o2)
  end.

Definition node_pool_op (e : epoch) (nd : node) (op : pool_op) : node * nout :=
  let '(p', r, o) := pool_step e (nd_pool nd) op in
  let '(t', outs) := votor_feed (own e) (nd_votor nd) (filter (fun x => negb (pe_is_woken x)) (po_events o)) in
  (mkNode p' t', mkNO r (po_events o) (po_repair o) outs (vt_panicked t')).

Definition node_votor_in (e : epoch) (nd : node) (i : vin) : node * nout :=
  let '(t', outs, _) := votor_step (own e) (nd_votor nd) i in
  (mkNode (nd_pool nd) t', mkNO (RVerdict VNone) [] [] outs (vt_panicked t')).

Definition node_step (e : epoch) (nd : node) (i : nin) : node * nout :=
  match i with
  | NVote v => node_pool_op e nd (OpVote v)
  | NCert c => node_pool_op e nd (OpCert c)
  | NPoolBlock b p => node_pool_op e nd (OpBlock b p)
  | NWait s => node_pool_op e nd (OpWait s)
  | NStandstill => node_pool_op e nd OpStandstill
  | NFirstShred s => node_votor_in e nd (VFirstShred s)
  | NBlock s h p => node_votor_in e nd (VBlock s h p)
  | NInvalidBlock s => node_votor_in e nd (VInvalidBlock s)
  | NTimeout s => node_votor_in e nd (VTimeout s)
  | NTimeoutCrashed s => node_votor_in e nd (VTimeoutCrashed s)
  end.

(* a whole input sequence; outputs of all steps concatenated per step *)
Fixpoint node_run (e : epoch) (nd : node) (ins : list nin) : node * list nout :=
  match ins with
  | [] => (nd, [])
  | i :: rest =>
    let '(nd1, o) := node_step e nd i in
    let '(nd2, os) := node_run e nd1 rest in
    (nd2, o :: os)
  end.

(* the pool operation an input amounts to (Votor-only inputs leave the pool alone) *)
Definition nin_pool_op (i : nin) : option pool_op :=
  match i with
  | NVote v => Some (OpVote v)
  | NCert c => Some (OpCert c)
  | NPoolBlock b p => Some (OpBlock b p)
  | NWait s => Some (OpWait s)
  | NStandstill => Some OpStandstill
  | _ => None
  end.
