(* The timeout schedule of a leader window (src/consensus/votor.rs set_timeouts).

   TIMER_CRASHED_MS / TIMER_SLOT_MS (Gen/Params.v) are not mirrored constants: `agverif params` MEASURES them on
   every run from the real timer task that Votor::set_timeouts spawns (tokio's paused clock, hook verif_next_timeout),
   as milliseconds after set_timeouts.  This file states what the schedule must satisfy for the progress argument of
   C02 - the executable check `schedule_ok` - and what that check means (Proofs/TimerProofs.v).

   D_BLOCK / D_FIRST (DELTA_BLOCK / DELTA_FIRST_SLICE, private in src/consensus.rs, read through the cfg hook
   consensus::verif_timing into Gen/Params.v) are the times a correct leader is given per block / for the first
   slice (that the block producer keeps to them is part of the trusted base of C02: the simulation plays the leader). *)
From Coq Require Import List NArith Bool.
From AG Require Import Gen.Params.
Import ListNotations.
Open Scope N_scope.

Definition D_BLOCK : N := DELTA_BLOCK_MS.
Definition D_FIRST : N := DELTA_FIRST_SLICE_MS.

(* After stabilisation a correct leader learns a ready parent at most DELTA after any correct node announced it
   (certificates are re-broadcast), finishes the block of the i-th slot of its window (i = 0, 1, ..) at most
   (i + 1) * D_BLOCK later, and its last shred travels at most DELTA: *)
Definition timely_block_arrival (i : N) : N := 2 * DELTA_MS + (i + 1) * D_BLOCK.
(* ... and its very first shred: *)
Definition timely_first_shred_arrival : N := 2 * DELTA_MS + D_FIRST.

Fixpoint timely_from (i : N) (l : list N) : bool :=
  match l with
  | [] => true
  | t :: r => (timely_block_arrival i <=? t) && timely_from (i + 1) r
  end.

Fixpoint increasing_from (prev : N) (l : list N) : bool :=
  match l with
  | [] => true
  | t :: r => (prev <? t) && increasing_from t r
  end.

(* one timeout per slot of the window, none before a timely block can have arrived, the crashed-leader timeout not
   before a timely first shred can have arrived and not after the first slot's timeout, slot timeouts in order *)
Definition schedule_ok (crashed : N) (slots : list N) : bool :=
  (N.of_nat (length slots) =? SLOTS_PER_WINDOW)
  && (timely_first_shred_arrival <=? crashed)
  && match slots with [] => false | t0 :: r => (crashed <=? t0) && increasing_from t0 r end
  && timely_from 0 slots.

(* all timers of a window have fired this long after set_timeouts *)
Definition window_timers_done : N := last TIMER_SLOT_MS 0.
