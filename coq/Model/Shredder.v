(* Executable model of the shredders (src/shredder.rs, src/shredder/reed_solomon.rs,
   src/shredder/validated_shreds.rs, src/types/slice.rs).  Definitions only.

   The model is generic in the byte type and in everything that is an external library:
     rs_encode / rs_recover   crate reed-solomon-simd (encoder / decoder)
     keystream                AES-128-CTR with the all-zero IV (crypto::cipher::apply_keystream)
     hash                     crypto::hash (SHA-256), used by the RAONT-RS key masking
     hash_leaf / hash_pair    labelled SHA-256 of the Merkle tree (Model/Merkle.v)
     sign                     the leader's Ed25519 signature over SliceCommitment (header, root)
     tree_fn / proof_fn       build_merkle_tree and MerkleTree::create_proof: the theorems instantiate
                              them with [real_tree] / [real_proof]; the runner uses extensionally equal
                              faster versions (memoised tree, [fast_proof]; equalities proved in
                              Proofs/ShredderProofs.v)
   Their assumed behaviour appears only as explicit premises of theorems (Proofs/ShredderProofs.v).

   Rust panics reachable from the public API (assert!/expect/usize underflow with overflow checks,
   codec [expect]s) are explicit SPanic / DPanic / LPanic outcomes.

   MODELLED_FUNCTIONS: src/shredder/reed_solomon.rs: ReedSolomonCoder::shred ReedSolomonCoder::deshred
     encode_coding_from_data; src/shredder/validated_shreds.rs: ValidatedShreds::try_new shred_count
     any_shred data_shred_payloads coding_shred_payloads; src/shredder.rs: Shredder::deshred
     RegularShredder::{shred,deshred_validated_shreds} CodingOnlyShredder::{..} PetsShredder::{..}
     AontShredder::{..} decrypt_payload data_and_coding_to_output_shreds assemble_output_shreds
     fill_missing_shreds check_merkle_tree build_merkle_tree Shred::slice_root;
     src/shredder/validated_shred.rs: ValidatedShred::try_new (no cached commitment);
     src/types/slice.rs: Slice::payload_bytes SlicePayload::try_from Slice::from_parts
     ReconstructedSlice::from_parts *)
From Coq Require Import List NArith Bool.
From AG Require Import Gen.Params Model.Merkle.
Import ListNotations.
Open Scope N_scope.

(* ---- Rust slice / Vec operations ---- *)
Definition lenN {A} (l : list A) : N := N.of_nat (length l).
Definition takeN {A} (n : N) (l : list A) : list A := firstn (N.to_nat n) l.
Definition dropN {A} (n : N) (l : list A) : list A := skipn (N.to_nat n) l.

(* <[T]>::chunks(n), n > 0 (n = 0 panics in Rust; callers guard it) *)
Fixpoint chunks_aux {A} (fuel n : nat) (l : list A) : list (list A) :=
  match fuel with
  | O => []
  | S f => match l with
           | [] => []
           | _ => firstn n l :: chunks_aux f n (skipn n l)
           end
  end.
Definition chunks {A} (n : N) (l : list A) : list (list A) := chunks_aux (length l) (N.to_nat n) l.

(* usize::div_ceil, usize::next_multiple_of (rhs > 0) *)
Definition div_ceil (a b : N) : N := let d := a / b in let r := a mod b in if 0 <? r then d + 1 else d.
Definition next_multiple_of (a b : N) : N := let r := a mod b in if r =? 0 then a else a + (b - r).

Definition is_none {A} (o : option A) : bool := match o with None => true | Some _ => false end.
Definition present {A} (arr : list (option A)) : list A :=
  flat_map (fun o => match o with Some s => [s] | None => [] end) arr.

Record header := mkHeader { h_slot : N; h_index : N; h_last : bool }.

Inductive variant := Regular | CodingOnly | Aont | Pets.
Definition data_out (v : variant) : N :=
  match v with Regular => REGULAR_DATA_OUT | CodingOnly => CODING_ONLY_DATA_OUT | Aont => AONT_DATA_OUT | Pets => PETS_DATA_OUT end.
Definition coding_out (v : variant) : N :=
  match v with Regular => REGULAR_CODING_OUT | CodingOnly => CODING_ONLY_CODING_OUT | Aont => AONT_CODING_OUT | Pets => PETS_CODING_OUT end.
Definition max_data_size (v : variant) : N :=
  match v with Regular => REGULAR_MAX_DATA_SIZE | CodingOnly => CODING_ONLY_MAX_DATA_SIZE | Aont => AONT_MAX_DATA_SIZE | Pets => PETS_MAX_DATA_SIZE end.

Inductive derr := InvalidLayout | NotEnoughShreds | TooMuchData | BadEncoding | InvalidMerkleTree.
Inductive sres (A : Type) := SOk (a : A) | SErrTooMuchData | SPanic.
Inductive dres (A : Type) := DOk (a : A) | DErr (e : derr) | DPanic.
Inductive lres := LOk | LNone | LPanic.
Arguments SOk {A} a. Arguments SErrTooMuchData {A}. Arguments SPanic {A}.
Arguments DOk {A} a. Arguments DErr {A} e. Arguments DPanic {A}.

Section Shredder.
  Context {B H Sig : Type}.
  Variable zero marker : B.                 (* 0x00, 0x80 *)
  Variable beqb : B -> B -> bool.
  Variable bxor : B -> B -> B.
  Variable b_of_N : N -> B.                 (* u8 from its value *)
  Variable N_of_b : B -> N.
  Variable rs_encode : N -> list (list B) -> list (list B).
  Variable rs_recover : N -> list (option (list B)) -> list (option (list B)) -> list (list B).
  Variable keystream : list B -> list B -> list B.
  Variable hash : list B -> list B.
  Variable hash_leaf : list B -> H.
  Variable hash_pair : H -> H -> H.
  Variable H_eqb : H -> H -> bool.
  Variable sign : header -> H -> Sig.
  Variable tree_fn : list (list B) -> list (list H).
  Variable proof_fn : list (list H) -> N -> list H.

  Record slice := mkSlice { sl_header : header; sl_parent : option (N * list B); sl_data : list B }.
  (* ReconstructedSlice = Slice + slice_root *)
  Record rslice := mkRSlice { rs_slice : slice; rs_root : H }.
  (* ValidatedShred = Shred + cached slice root *)
  Record shred := mkShred { sh_is_data : bool; sh_header : header; sh_index : N; sh_data : list B;
                            sh_sig : Sig; sh_proof : list H; sh_root : H }.
  Record raw := mkRaw { r_data : list (list B); r_coding : list (list B) }.

  Definition empty0 : H := hash_leaf [].
  (* build_merkle_tree: MerkleTree::new over the data shards followed by the coding shards *)
  Definition real_tree (leaves : list (list B)) : list (list H) := levels hash_pair empty0 (map hash_leaf leaves).
  (* MerkleTree::create_proof *)
  Definition real_proof (lv : list (list H)) (i : N) : list H := create_proof hash_pair empty0 lv i.
  (* the same function, evaluated without computing the canonical empty root of a level unless the
     sibling really lies beyond the level (a strict evaluator would otherwise hash for every entry) *)
  Fixpoint fast_proof_from (lv : list (list H)) (h : nat) (i : N) : list H :=
    match lv with
    | [] => []
    | [_] => []
    | l :: rest =>
      (match nth_error l (N.to_nat (sib i)) with Some x => x | None => empty_root hash_pair empty0 h end)
      :: fast_proof_from rest (S h) (N.div2 i)
    end.
  Definition fast_proof (lv : list (list H)) (i : N) : list H := fast_proof_from lv 0 i.

  (* ---- wincode: Slice::payload_bytes / SlicePayload::try_from ---- *)
  Fixpoint le_bytes (k : nat) (n : N) : list B :=
    match k with O => [] | S k' => b_of_N (n mod 256) :: le_bytes k' (n / 256) end.
  Definition le64 (n : N) : list B := le_bytes 8 n.
  Fixpoint le_val (l : list B) : N := match l with [] => 0 | b :: t => N_of_b b + 256 * le_val t end.

  Definition payload_bytes (s : slice) : list B :=
    (match sl_parent s with
     | None => [b_of_N 0]
     | Some (pslot, phash) => b_of_N 1 :: le64 pslot ++ phash
     end) ++ le64 (lenN (sl_data s)) ++ sl_data s.

  Definition decode_data (par : option (N * list B)) (r : list B) : dres (option (N * list B) * list B) :=
    if lenN r <? 8 then DErr BadEncoding else
    let n := le_val (firstn 8 r) in
    let rest := skipn 8 r in
    if n =? lenN rest then DOk (par, rest) else DErr BadEncoding.
  Definition decode_payload (p : list B) : dres (option (N * list B) * list B) :=
    if MAX_DATA_PER_SLICE <? lenN p then DErr TooMuchData else
    match p with
    | [] => DErr BadEncoding
    | t :: r =>
      if N_of_b t =? 0 then decode_data None r
      else if N_of_b t =? 1 then
        (if lenN r <? 40 then DErr BadEncoding
         else decode_data (Some (le_val (firstn 8 r), firstn 32 (skipn 8 r))) (skipn 40 r))
      else DErr BadEncoding
    end.

  (* ---- ReedSolomonCoder::shred ---- *)
  Definition resize (n : N) (l : list B) : list B := takeN n l ++ repeat zero (N.to_nat (n - lenN l)).

  Definition rs_shred (nc : N) (payload : list B) : sres raw :=
    let len := lenN payload in
    if MAX_DATA_PER_SLICE <? len then SErrTooMuchData else
    let two_ds := 2 * DATA_SHREDS in
    let padding := two_ds - len mod two_ds in
    let sb := div_ceil (len + padding) DATA_SHREDS in
    if (sb =? 0) || N.odd sb then SPanic else                  (* encoder.reset(..).expect *)
    let last := next_multiple_of two_ds sb in
    if last <? padding then SPanic else                        (* usize underflow *)
    if len <? last - padding then SPanic else                  (* usize underflow *)
    let boundary := len - (last - padding) in
    let last_shreds := resize last (dropN boundary payload ++ [marker]) in
    let data := chunks sb (takeN boundary payload) ++ chunks sb last_shreds in
    (* add_original_shard(..).expect / encode().expect: exactly DATA_SHREDS shards of shred_bytes *)
    if negb ((lenN data =? DATA_SHREDS) && forallb (fun c => lenN c =? sb) data) then SPanic else
    SOk (mkRaw data (rs_encode nc data)).

  (* ---- ValidatedShreds::try_new ---- *)
  Fixpoint check_types (dout i : N) (arr : list (option shred)) : lres :=
    match arr with
    | [] => LOk
    | None :: t => check_types dout (i + 1) t
    | Some s :: t =>
      if negb (sh_index s =? i) then LPanic                     (* assert_eq!(shred_index, i) *)
      else if ((i <? dout) && negb (sh_is_data s)) || ((dout <=? i) && sh_is_data s) then LNone
      else check_types dout (i + 1) t
    end.
  Definition validate_layout (dout : N) (arr : list (option shred)) : lres :=
    match present arr with
    | [] => LNone
    | any :: _ =>
      let sz := lenN (sh_data any) in
      if (sz =? 0) || N.odd sz then LNone
      else if negb (forallb (fun s => lenN (sh_data s) =? sz) (present arr)) then LNone
      else check_types dout 0 arr
    end.

  (* ---- ReedSolomonCoder::deshred ---- *)
  Fixpoint sizes_ok (acc : N) (shards : list (list B)) : bool :=
    match shards with
    | [] => true
    | s :: t => if MAX_DATA_PER_SLICE_AFTER_PADDING <? acc + lenN s then false else sizes_ok (acc + lenN s) t
    end.
  Fixpoint leading_zeros (l : list B) : N :=
    match l with b :: t => if beqb b zero then 1 + leading_zeros t else 0 | [] => 0 end.
  Definition unpad (p : list B) : option (list B) :=
    let padding_bytes := leading_zeros (rev_append p []) + 1 in       (* iter().rev().take_while(== 0).count() + 1 *)
    if lenN p <? padding_bytes then None else                  (* checked_sub *)
    let marker_idx := lenN p - padding_bytes in
    if beqb (nth (N.to_nat marker_idx) p zero) marker then Some (takeN marker_idx p) else None.
  (* received[i] if present, otherwise restored_original(i) *)
  Fixpoint merge (i : nat) (d_in : list (option (list B))) (restored : list (list B)) : list (list B) :=
    match d_in with
    | [] => []
    | o :: t => (match o with Some d => d | None => nth i restored [] end) :: merge (S i) t restored
    end.
  Definition shard_inputs (dout : N) (arr : list (option shred)) : list (option (list B)) * list (option (list B)) :=
    (map (option_map sh_data) (takeN dout arr) ++ repeat None (N.to_nat (DATA_SHREDS - dout)),
     map (option_map sh_data) (dropN dout arr)).

  Definition rs_deshred (nc dout : N) (arr : list (option shred)) : dres (list B * raw) :=
    let pres := present arr in
    if lenN pres <? DATA_SHREDS then DErr NotEnoughShreds else
    match pres with
    | [] => DPanic                                             (* any_shred().expect *)
    | any :: _ =>
      let sb := lenN (sh_data any) in
      if (sb =? 0) || N.odd sb then DPanic else                (* decoder.reset(..).expect *)
      let '(d_in, c_in) := shard_inputs dout arr in
      let data := merge 0 d_in (rs_recover nc d_in c_in) in
      if negb (sizes_ok 0 data) then DErr TooMuchData else
      match unpad (concat data) with
      | None => DErr BadEncoding                               (* InvalidPadding *)
      | Some payload => DOk (payload, mkRaw data (rs_encode nc data))
      end
    end.

  (* ---- the four shredders ---- *)
  Definition xor_zip (k h : list B) : list B := map (fun p => bxor (fst p) (snd p)) (combine k h).
  Fixpoint xor_into (k h : list B) : list B :=
    match k, h with x :: k', y :: h' => bxor x y :: xor_into k' h' | _, _ => k end.

  Definition decrypt_payload (buffer : list B) (derive_key : list B -> list B -> list B) : dres (list B) :=
    if lenN buffer <? CIPHER_KEY_BYTES then DErr BadEncoding else
    let ct_len := lenN buffer - CIPHER_KEY_BYTES in
    let tail := dropN ct_len buffer in
    let ct := takeN ct_len buffer in
    DOk (keystream (derive_key tail ct) ct).

  Definition deshred_validated (v : variant) (arr : list (option shred)) : dres (list B * raw) :=
    match rs_deshred (coding_out v) (data_out v) arr with
    | DPanic => DPanic
    | DErr e => DErr e
    | DOk (buffer, rw) =>
      match v with
      | Regular => DOk (buffer, rw)
      | CodingOnly => DOk (buffer, mkRaw [] (r_coding rw))
      | Pets =>
        match decrypt_payload buffer (fun key _ => key) with
        | DOk p => DOk (p, mkRaw (removelast (r_data rw)) (r_coding rw))
        | DErr e => DErr e | DPanic => DPanic
        end
      | Aont =>
        match decrypt_payload buffer (fun key ct => xor_into key (hash ct)) with
        | DOk p => DOk (p, rw)
        | DErr e => DErr e | DPanic => DPanic
        end
      end
    end.

  (* fill_missing_shreds: zip of the raw shards (data first) with the array *)
  Fixpoint fill_from (i : N) (raws : list (list B)) (arr : list (option shred)) (num_data : N)
           (hdr : header) (lv : list (list H)) (sg : Sig) (rt : H) : list (option shred) :=
    match raws, arr with
    | d :: raws', o :: arr' =>
      (match o with
       | Some s => Some s
       | None => Some (mkShred (i <? num_data) hdr i d sg (proof_fn lv i) rt)
       end) :: fill_from (i + 1) raws' arr' num_data hdr lv sg rt
    | _, _ => arr
    end.
  Definition fill_missing (arr : list (option shred)) (hdr : header) (rw : raw) (lv : list (list H)) (sg : Sig)
    : list (option shred) :=
    fill_from 0 (r_data rw ++ r_coding rw) arr (lenN (r_data rw)) hdr lv sg (root empty0 lv).

  (* Shredder::deshred: result and the (possibly refilled) array *)
  Definition deshred (v : variant) (arr : list (option shred)) : dres rslice * list (option shred) :=
    if forallb is_none arr then (DErr NotEnoughShreds, arr) else
    match validate_layout (data_out v) arr with
    | LPanic => (DPanic, arr)
    | LNone => (DErr InvalidLayout, arr)
    | LOk =>
      match deshred_validated v arr with
      | DPanic => (DPanic, arr)
      | DErr e => (DErr e, arr)
      | DOk (pbytes, rw) =>
        match present arr with
        | [] => (DPanic, arr)
        | any :: _ =>
          match r_data rw ++ r_coding rw with
          | [] => (DPanic, arr)                                  (* MerkleTree::new: assert!(!nodes.is_empty()) *)
          | _ =>
            let lv := tree_fn (r_data rw ++ r_coding rw) in
            if negb (H_eqb (root empty0 lv) (sh_root any)) then (DErr InvalidMerkleTree, arr) else
            match decode_payload pbytes with
            | DPanic => (DPanic, arr)
            | DErr e => (DErr e, arr)
            | DOk (parent, data) =>
              if negb (lenN (r_data rw) + lenN (r_coding rw) =? TOTAL_SHREDS) then (DPanic, arr) else
              (DOk (mkRSlice (mkSlice (sh_header any) parent data) (sh_root any)),
               fill_missing arr (sh_header any) rw lv (sh_sig any))
            end
          end
        end
      end
    end.

  (* data_and_coding_to_output_shreds + assemble_output_shreds *)
  Definition output_shreds (hdr : header) (rw : raw) : sres (list shred) :=
    match r_data rw ++ r_coding rw with
    | [] => SPanic
    | _ =>
      let lv := tree_fn (r_data rw ++ r_coding rw) in
      let sg := sign hdr (root empty0 lv) in
      if negb (lenN (r_data rw) + lenN (r_coding rw) =? TOTAL_SHREDS) then SPanic else
      SOk (present (fill_missing (repeat None (N.to_nat TOTAL_SHREDS)) hdr rw lv sg))
    end.

  (* Shredder::shred; [key] is the output of the random generator in encrypt_with_random_key *)
  Definition rs_input (v : variant) (s : slice) (key : list B) : list B :=
    match v with
    | Regular | CodingOnly => payload_bytes s
    | Pets => keystream key (payload_bytes s) ++ key
    | Aont => let ct := keystream key (payload_bytes s) in ct ++ xor_zip key (hash ct)
    end.
  Definition shred_raw (v : variant) (s : slice) (key : list B) : sres raw :=
    match rs_shred (coding_out v) (rs_input v s key) with
    | SOk rw =>
      SOk (match v with
           | Regular | Aont => rw
           | CodingOnly => mkRaw [] (r_coding rw)
           | Pets => mkRaw (removelast (r_data rw)) (r_coding rw)
           end)
    | SErrTooMuchData => SErrTooMuchData
    | SPanic => SPanic
    end.
  Definition shred_slice (v : variant) (s : slice) (key : list B) : sres (list shred) :=
    match shred_raw v s key with
    | SOk rw => output_shreds (sl_header s) rw
    | SErrTooMuchData => SErrTooMuchData
    | SPanic => SPanic
    end.

  (* ValidatedShred::try_new without a cached commitment *)
  Definition derived_root (s : shred) : H := fst (derive hash_pair (hash_leaf (sh_data s)) (sh_index s) (sh_proof s)).
  Definition validate (verify : Sig -> header -> H -> bool) (s : shred) : bool :=
    verify (sh_sig s) (sh_header s) (derived_root s).
End Shredder.
