(* The Merkle model instantiated with the executable SHA-256 and the labels read
   from the implementation (Gen/Params.v).  Used only to *run* the model. *)
From Coq Require Import String Uint63 List NArith Bool.
From AG Require Import Lib.Sha256 Lib.Hex Model.Merkle Gen.Params.
Import ListNotations.

Definition leaf_label : list int := hex MERKLE_LEAF_LABEL.
Definition left_label : list int := hex MERKLE_LEFT_LABEL.
Definition right_label : list int := hex MERKLE_RIGHT_LABEL.

Definition sha_leaf (d : list int) : list int := sha256 (leaf_label ++ d).
Definition sha_pair (l r : list int) : list int := sha256 (left_label ++ l ++ right_label ++ r).
Definition sha_empty0 : list int := sha_leaf [].
Definition max_height : nat := N.to_nat MAX_MERKLE_TREE_HEIGHT.

Definition s_levels (leaves : list (list int)) := levels sha_pair sha_empty0 (map sha_leaf leaves).
Definition s_root (leaves : list (list int)) := root sha_empty0 (s_levels leaves).
Definition s_create_proof (leaves : list (list int)) (i : N) := create_proof sha_pair sha_empty0 (s_levels leaves) i.
Definition s_check (leaf : list int) (i : N) (r : list int) (p : list (list int)) : bool :=
  check sha_pair bytes_eqb max_height (sha_leaf leaf) i r p.
Definition s_check_last (leaf : list int) (i : N) (r : list int) (p : list (list int)) : bool :=
  check_last sha_pair sha_empty0 bytes_eqb max_height (sha_leaf leaf) i r p.
Definition s_derive_root (leaf : list int) (i : N) (p : list (list int)) : list int :=
  fst (derive sha_pair (sha_leaf leaf) i p).
Definition s_empty_root (h : nat) : list int := empty_root sha_pair sha_empty0 h.
