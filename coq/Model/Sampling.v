(* Executable model of the committee-sampling strategies (definitions only):
     src/disseminator/rotor/sampling_strategy.rs
   plus the pieces of rand 0.10 the samplers call (modelled library code, validated draw by draw by the
   correspondence check): rand::distr::weighted::WeightedIndex<u64>, UniformInt<u64>::sample (Lemire),
   UniformInt<u32/u64>::sample_single (Canon, biased variant), StandardUniform for f64, Bernoulli.

   Randomness: an RNG is the sequence of 32-bit words it will hand out (`stream`); `next_u32` takes one
   word, `next_u64` two consecutive words, low word first (rand_core::block::BlockRng, the layout of
   StdRng; the harness' scripted RNG follows the same rule).  Every sampling function returns the rest
   of the stream, so "function of the validator set and the random source only" is literally the type
   of the model.  Theorems quantify over ALL streams, which covers every RNG.

   f64 arithmetic is Coq's primitive binary64 (same results as Rust for + - * / and comparisons);
   conversions (u64 -> f64 round-to-nearest-even, f64 -> u64 saturating truncation, round half away
   from zero, powi as compiler-builtins' __powidf2) are defined below through SpecFloat.

   Outcomes: `Panic` wherever the Rust code panics (expect / assert! / checked arithmetic - the crate
   is built with overflow-checks = true / empty range / rejection limit), `Starved` when the supplied
   stream is too short (not an implementation behaviour; excluded in theorems by "= Ok ..").

   Code versions: the tree pinned for this work computed the Fait Accompli seats in f64, shuffled the
   validators of PartitionSampler::new with the thread RNG and had no special case for a TurbineSampler on
   one or two validators.  /repo has since been repaired (904dbce integer seats, b638f0a fixed-seed
   shuffle, 3524a23 small Turbine sets, a1e69e3 FA2 never hands out more than k seats).  `Current` is the code as it is now; `Pinned` keeps the earlier
   behaviour reachable so that the `.._pinned_.._refuted` theorems stay statements about a faithful model of
   that tree.  The check runs `construct_current`.

   Assumption stated once: the `ValidatorInfo` vector handed to a sampler has `id` = position
   (EpochInfo::new asserts it); a validator set is therefore the list of its stakes, all < 2^64.

   MODELLED_FUNCTIONS: IidQuorumSampler::sample_quorum AllSameSampler::sample UniformSampler::sample
     StakeWeightedSampler::new StakeWeightedSampler::sample TurbineSampler::new_with_fanout
     TurbineSampler::sample DecayingAcceptanceSampler::new DecayingAcceptanceSampler::sample_one
     DecayingAcceptanceSampler::sample_quorum PartitionSampler::new PartitionSampler::sample_quorum
     FaitAccompli1Sampler::new_with_partition_fallback FaitAccompli1Sampler::new_with_stake_weighted_fallback
     FaitAccompli1Sampler::sample_quorum FaitAccompli2Sampler::new FaitAccompli2Sampler::minimize_f
     FaitAccompli2Sampler::sample_quorum guaranteed_seats stake_of_seats
     DecayingAcceptanceSampler::{sample, reset, clone} IidQuorumSampler::sample
     (rand) SliceRandom::shuffle IncreasingUniform::next_index calculate_bound_u32 *)
From Coq Require Import List NArith ZArith Bool Floats Uint63.
From AG Require Import Gen.Params Lib.ChaCha.
Import ListNotations.
Open Scope N_scope.

Definition W32 : N := 4294967296.
Definition W64 : N := 18446744073709551616.
Definition U64MAX : N := 18446744073709551615.
Definition U32MAX : N := 4294967295.

(* ------------------------------------------------------------------ *)
(* random source                                                       *)
(* ------------------------------------------------------------------ *)
Definition stream := list N.

Inductive res (A : Type) : Type :=
| Ok (a : A) (rest : stream)
| Panic
| Starved.
Arguments Ok {A} a rest.
Arguments Panic {A}.
Arguments Starved {A}.

Inductive codever := Pinned | Current.

(* StdRng::from_seed(seed): ChaCha12 keystream words; `blocks` bounds how much of it is materialised *)
Definition stdrng (blocks : nat) (seed : list N) : stream := stdrng_words seed blocks.

(* x mod 2^32, x mod 2^64, x / 2^64, x / 2^11 written with bit operations (cheap to evaluate);
   Proofs/SamplingProofs.v shows they are the arithmetic operations *)
Definition lo32 (x : N) : N := N.land x U32MAX.
Definition lo64 (x : N) : N := N.land x U64MAX.
Definition hi64 (x : N) : N := N.shiftr x 64.
Definition word64 (lo hi : N) : N := lo32 lo + N.shiftl (lo32 hi) 32.

Definition next_u32 (s : stream) : res N :=
  match s with
  | w :: r => Ok (lo32 w) r
  | [] => Starved
  end.

Definition next_u64 (s : stream) : res N :=
  match s with
  | lo :: hi :: r => Ok (word64 lo hi) r
  | _ => Starved
  end.

(* UniformInt<u64>::sample (Lemire with rejection): range > 0, thresh = 2^64 mod range *)
Fixpoint lemire64 (range thresh : N) (s : stream) : res N :=
  match s with
  | lo :: hi :: r =>
    let m := word64 lo hi * range in
    if thresh <=? lo64 m then Ok (hi64 m) r else lemire64 range thresh r
  | _ => Starved
  end.
Definition uniform_u64 (range : N) (s : stream) : res N := lemire64 range ((W64 - range) mod range) s.

(* UniformInt<uN>::sample_single_inclusive, biased Canon variant (no "unbiased" feature): 0 < range < W *)
Definition canon (bits : N) (next : stream -> res N) (range : N) (s : stream) : res N :=
  let W := N.shiftl 1 bits in
  match next s with
  | Ok w s1 =>
    let m := w * range in
    let result := N.shiftr m bits in
    let lo := N.land m (N.ones bits) in
    if N.land (W - range) (N.ones bits) <? lo then   (* lo_order > range.wrapping_neg() *)
      match next s1 with
      | Ok w2 s2 => Ok (if W <=? lo + N.shiftr (w2 * range) bits then result + 1 else result) s2
      | Panic => Panic
      | Starved => Starved
      end
    else Ok result s1
  | Panic => Panic
  | Starved => Starved
  end.

(* rng.random_range(0..len) for usize (UniformUsize::sample_single): 32-bit path unless len > u32::MAX *)
Definition random_range_usize (len : N) (s : stream) : res N :=
  if len =? 0 then Panic                      (* "cannot sample empty range" *)
  else if U32MAX <? len then canon 64 next_u64 len s
  else canon 32 next_u32 len s.
(* rng.random_range(0..w) for u64 *)
Definition random_range_u64 (w : N) (s : stream) : res N :=
  if w =? 0 then Panic else canon 64 next_u64 w s.

(* ------------------------------------------------------------------ *)
(* binary64 helpers                                                    *)
(* ------------------------------------------------------------------ *)
(* `x as f64` for an unsigned integer: round to nearest, ties to even *)
Definition f64_of_N (n : N) : float := SF2Prim (binary_normalize 53 1024 (Z.of_N n) 0 false).
(* `x as u64` for an f64: truncation toward zero, saturating, NaN -> 0.  `x.floor() as u64` is the same
   function (negative values saturate to 0 either way). *)
Definition f64_to_u64 (x : float) : N :=
  match Prim2SF x with
  | S754_zero _ => 0
  | S754_nan => 0
  | S754_infinity sg => if sg then 0 else U64MAX
  | S754_finite sg m e =>
    if sg then 0
    else N.min U64MAX (Z.to_N (if (0 <=? e)%Z then Z.pos m * 2 ^ e else Z.pos m / 2 ^ (- e))%Z)
  end.
(* f64::round: nearest integer, halves away from zero *)
Definition f64_round (x : float) : float :=
  match Prim2SF x with
  | S754_finite sg m e =>
    if (0 <=? e)%Z then x
    else
      let d := (2 ^ (- e))%Z in
      let q := (Z.pos m / d)%Z in
      let r := (Z.pos m mod d)%Z in
      let v := f64_of_N (Z.to_N (if (d <=? 2 * r)%Z then q + 1 else q)%Z) in
      if sg then PrimFloat.opp v else v
  | _ => x
  end.
Definition f64_min (a b : float) : float := if PrimFloat.ltb b a then b else a.
(* f64::powi for a non-negative exponent: compiler-builtins __powidf2 (square and multiply) *)
Fixpoint powi_loop (fuel : nat) (a r : float) (b : N) : float :=
  match fuel with
  | O => r
  | S f =>
    let r := if N.odd b then PrimFloat.mul r a else r in
    let b := b / 2 in
    if b =? 0 then r else powi_loop f (PrimFloat.mul a a) r b
  end.
Definition f64_powi (a : float) (b : N) : float := powi_loop 64 a 1%float b.

Definition two_m53 : float := Eval compute in (PrimFloat.div 1%float (f64_of_N 9007199254740992)).
Definition two_p64 : float := Eval compute in (f64_of_N W64).
(* rng.random::<f64>(): 53 high bits of a u64, times 2^-53; value in [0, 1) *)
Definition u01_of_word (w : N) : float := PrimFloat.mul two_m53 (f64_of_N (N.shiftr w 11)).
Definition u01 (s : stream) : res float :=
  match next_u64 s with
  | Ok w r => Ok (u01_of_word w) r
  | Panic => Panic
  | Starved => Starved
  end.
(* rng.random_bool(p) *)
Definition random_bool (p : float) (s : stream) : res bool :=
  if PrimFloat.leb 0%float p && PrimFloat.ltb p 1%float then
    match next_u64 s with
    | Ok w r => Ok (w <? f64_to_u64 (PrimFloat.mul p two_p64)) r
    | Panic => Panic
    | Starved => Starved
    end
  else if PrimFloat.eqb p 1%float then Ok true s
  else Panic.                                  (* "p=.. is outside range [0.0, 1.0]" *)

(* ------------------------------------------------------------------ *)
(* small list helpers                                                  *)
(* ------------------------------------------------------------------ *)
Definition sumN (l : list N) : N := fold_right N.add 0 l.
Definition nthN {A} (l : list A) (i : N) (d : A) : A := nth (N.to_nat i) l d.
Definition lenN {A} (l : list A) : N := N.of_nat (length l).
Fixpoint count_occ_N (l : list N) (x : N) : N :=
  match l with [] => 0 | y :: r => (if y =? x then 1 else 0) + count_occ_N r x end.
Fixpoint set_nthN {A} (l : list A) (i : nat) (f : A -> A) : list A :=
  match l with
  | [] => []
  | x :: r => match i with O => f x :: r | S i' => x :: set_nthN r i' f end
  end.
Fixpoint indexed {A} (i : N) (l : list A) : list (N * A) :=
  match l with [] => [] | x :: r => (i, x) :: indexed (i + 1) r end.

(* ------------------------------------------------------------------ *)
(* rand::distr::weighted::WeightedIndex<u64>                           *)
(* ------------------------------------------------------------------ *)
(* WeightedIndex::new(ws).is_ok(): non-empty, no u64 overflow of the running sum, total > 0 *)
Definition windex_ok (ws : list N) : bool :=
  match ws with
  | [] => false
  | _ => (0 <? sumN ws) && (sumN ws <? W64)
  end.
(* cumulative_weights: the first n-1 prefix sums *)
Fixpoint prefix_sums (acc : N) (ws : list N) : list N :=
  match ws with [] => [] | w :: r => (acc + w) :: prefix_sums (acc + w) r end.
Definition cum_weights (ws : list N) : list N := removelast (prefix_sums 0 ws).
(* slice::partition_point(|w| w <= chosen) on the (sorted) cumulative weights *)
Fixpoint partition_point (chosen : N) (cum : list N) : N :=
  match cum with
  | [] => 0
  | c :: r => if c <=? chosen then 1 + partition_point chosen r else 0
  end.
(* WeightedIndex::sample *)
Definition windex_sample (ws : list N) : stream -> res N :=
  let total := sumN ws in
  let cum := cum_weights ws in
  let thresh := (W64 - total) mod total in      (* computed once per sampler, as in WeightedIndex::new *)
  fun s =>
    match lemire64 total thresh s with
    | Ok chosen r => Ok (partition_point chosen cum) r
    | Panic => Panic
    | Starved => Starved
    end.

(* ------------------------------------------------------------------ *)
(* IidQuorumSampler / AllSame / Uniform / StakeWeighted                *)
(* ------------------------------------------------------------------ *)
Fixpoint iid (k : nat) (sample : stream -> res N) (s : stream) : res (list N) :=
  match k with
  | O => Ok [] s
  | S k' =>
    match sample s with
    | Ok v s1 =>
      match iid k' sample s1 with
      | Ok q s2 => Ok (v :: q) s2
      | Panic => Panic
      | Starved => Starved
      end
    | Panic => Panic
    | Starved => Starved
    end
  end.

Definition allsame_sample (v : N) (s : stream) : res N := Ok v s.
Definition uniform_sample (n : N) (s : stream) : res N := random_range_usize n s.
Definition stake_sample (ws : list N) : stream -> res N := windex_sample ws.

(* ------------------------------------------------------------------ *)
(* TurbineSampler                                                      *)
(* ------------------------------------------------------------------ *)
Section TurbineWeights.
  Variable stakes : list N.
  Variable fanout : N.
  Let n := lenN stakes.
  Let total := sumN stakes.

  (* contribution of one (leader, root) pair to every validator's expected work *)
  Definition tw_pair (leader root : N) (s_leader s_root : N) (ew : list float) : list float :=
    let prob_l := PrimFloat.div (f64_of_N s_leader) (f64_of_N total) in
    let stake_left := total - s_leader in
    let vl1 := n - 2 in
    let prob := PrimFloat.div (PrimFloat.mul prob_l (f64_of_N s_root)) (f64_of_N stake_left) in
    let root_work := f64_min (f64_of_N fanout) (f64_of_N vl1) in
    let stake_left2 := stake_left - s_root in
    let vl2 := vl1 - fanout in                                   (* saturating_sub *)
    let full_slots := vl2 / fanout in
    let partial_work := f64_of_N (vl2 mod fanout) in
    map (fun '(i, (s_i, w)) =>
           if i =? root then PrimFloat.add w (PrimFloat.mul prob root_work)
           else if i =? leader then w
           else
             let select_prob := PrimFloat.div (f64_of_N s_i) (f64_of_N stake_left2) in
             let pw := f64_powi (PrimFloat.sub 1%float select_prob) full_slots in
             let prob_full := PrimFloat.mul prob (PrimFloat.sub 1%float pw) in
             let w := PrimFloat.add w (PrimFloat.mul prob_full (f64_of_N fanout)) in
             let prob_partial := PrimFloat.mul (PrimFloat.mul prob pw) select_prob in
             PrimFloat.add w (PrimFloat.mul prob_partial partial_work))
        (indexed 0 (combine stakes ew)).

  Definition tw_leader (ew : list float) (ls : N * N) : list float :=
    let '(leader, s_leader) := ls in
    fold_left (fun ew '(root, s_root) => if root =? leader then ew else tw_pair leader root s_leader s_root ew)
              (indexed 0 stakes) ew.

  Definition turbine_expected_work : list float :=
    fold_left tw_leader (indexed 0 stakes) (map (fun _ => 0%float) stakes).
End TurbineWeights.

Definition e9 : float := Eval compute in (f64_of_N 1000000000).
(* TurbineSampler::new_with_fanout: None = panic *)
Definition turbine_weights_general (stakes : list N) (fanout : N) : option (list N) :=
  if W64 <=? sumN stakes then None                               (* Stake sum overflow *)
  else if lenN stakes <? 2 then None                             (* usize underflow: len - 1, then - 1 *)
  else if (3 <=? lenN stakes) && (fanout =? 0) then None         (* validators_left / turbine_fanout *)
  else
    let ws := map (fun w => f64_to_u64 (PrimFloat.mul w e9)) (turbine_expected_work stakes fanout) in
    if windex_ok ws then Some ws else None.                      (* StakeWeightedSampler::new expect *)
Definition turbine_weights (cv : codever) (stakes : list N) (fanout : N) : option (list N) :=
  match cv with
  | Pinned => turbine_weights_general stakes fanout
  | Current =>
    (* with at most two validators: the validators' own stakes *)
    if lenN stakes <=? 2 then (if windex_ok stakes then Some stakes else None)
    else turbine_weights_general stakes fanout
  end.

Fixpoint reject_same (tries : nat) (sample : stream -> res N) (root : N) (s : stream) : res N :=
  match tries with
  | O => Panic                                                   (* "rejected all .. samples" *)
  | S t =>
    match sample s with
    | Ok v r => if v =? root then reject_same t sample root r else Ok v r
    | Panic => Panic
    | Starved => Starved
    end
  end.
Definition turbine_sample (fanout : N) (ws : list N) : stream -> res N :=
  let sample := windex_sample ws in
  let p_root := PrimFloat.div (f64_of_N fanout) (f64_of_N (lenN ws)) in
  fun s =>
    match sample s with
    | Ok root s1 =>
      match u01 s1 with
      | Ok u s2 =>
        if PrimFloat.ltb u p_root then Ok root s2
        else reject_same (N.to_nat MAX_TRIES_PER_SAMPLE) sample root s2
      | Panic => Panic
      | Starved => Starved
      end
    | Panic => Panic
    | Starved => Starved
    end.

(* ------------------------------------------------------------------ *)
(* DecayingAcceptanceSampler                                           *)
(* ------------------------------------------------------------------ *)
(* acceptance test of sample_one: rng.random::<f64>() >= count as f64 / max_samples *)
Definition decay_accept (max_samples : float) (count : N) (u : float) : bool :=
  PrimFloat.leb (PrimFloat.div (f64_of_N count) max_samples) u.

Section Decay.
  (* the acceptance test is a parameter so that the cap theorem can be stated for every test that
     rejects at the cap; the sampler of the crate is the instance `decay_accept max_samples` *)
  Variable accept : N -> float -> bool.
  Variable sample : stream -> res N.             (* the stake-weighted draw: windex_sample ws *)

  Fixpoint decay_one (tries : nat) (counts : list N) (s : stream) : res (N * list N) :=
    match tries with
    | O => Panic                                                 (* "rejected all .. samples" *)
    | S t =>
      match sample s with
      | Ok v s1 =>
        match u01 s1 with
        | Ok u s2 =>
          if accept (nthN counts v 0) u then Ok (v, set_nthN counts (N.to_nat v) N.succ) s2
          else decay_one t counts s2
        | Panic => Panic
        | Starved => Starved
        end
      | Panic => Panic
      | Starved => Starved
      end
    end.

  Fixpoint decay_quorum (k : nat) (counts : list N) (s : stream) : res (list N) :=
    match k with
    | O => Ok [] s
    | S k' =>
      match decay_one (N.to_nat MAX_TRIES_PER_SAMPLE) counts s with
      | Ok (v, counts') s1 =>
        match decay_quorum k' counts' s1 with
        | Ok q s2 => Ok (v :: q) s2
        | Panic => Panic
        | Starved => Starved
        end
      | Panic => Panic
      | Starved => Starved
      end
    end.
End Decay.

(* ------------------------------------------------------------------ *)
(* PartitionSampler                                                    *)
(* ------------------------------------------------------------------ *)
(* a bin: (validator, stake taken) entries in insertion order *)
Definition bin := list (N * N).
Record pacc := mkPacc { pa_done : list bin; pa_cur : bin; pa_cur_stake : N; pa_idx : N }.

(* the `while stake > 0` loop for one validator; None = the loop would never terminate *)
Fixpoint part_take (fuel : nat) (num_bins spb id stake : N) (a : pacc) : option pacc :=
  if stake =? 0 then Some a
  else
    match fuel with
    | O => None
    | S f =>
      let take := N.min stake (spb - pa_cur_stake a) in
      let cur := pa_cur a ++ [(id, take)] in
      let cs := pa_cur_stake a + take in
      let stake' := stake - take in
      if (pa_idx a <? num_bins - 1) && ((0 <? stake') || (cs =? spb)) then
        part_take f num_bins spb id stake' (mkPacc (pa_done a ++ [cur]) [] 0 (pa_idx a + 1))
      else
        part_take f num_bins spb id stake' (mkPacc (pa_done a) cur cs (pa_idx a))
    end.

Fixpoint part_fill (num_bins spb : N) (vals : list (N * N)) (a : pacc) : option pacc :=
  match vals with
  | [] => Some a
  | (id, st) :: r =>
    match part_take (S (N.to_nat num_bins)) num_bins spb id st a with
    | Some a' => part_fill num_bins spb r a'
    | None => None
    end
  end.

Inductive cres (A : Type) : Type := COk (a : A) | CPanic | CHang.
Arguments COk {A} a.
Arguments CPanic {A}.
Arguments CHang {A}.

Definition div_ceil (a b : N) : N := (a + b - 1) / b.

(* PartitionSampler::new on the validators in their shuffled order (`vals` = (id, stake) list) *)
Definition partition_new (vals : list (N * N)) (num_bins : N) : cres (list bin) :=
  if num_bins =? 0 then COk []
  else
    let total := sumN (map snd vals) in
    if W64 <=? total then CPanic
    else
      let spb := div_ceil total num_bins in
      match part_fill num_bins spb vals (mkPacc [] [] 0 0) with
      | None => CHang
      | Some a =>
        let bins := pa_done a ++ [pa_cur a] ++ repeat [] (N.to_nat (num_bins - 1 - pa_idx a)) in
        if forallb (fun b : bin => windex_ok (map snd b)) bins then COk bins else CPanic
      end.

Fixpoint partition_sample (bins : list bin) (s : stream) : res (list N) :=
  match bins with
  | [] => Ok [] s
  | b :: r =>
    match windex_sample (map snd b) s with
    | Ok i s1 =>
      match partition_sample r s1 with
      | Ok q s2 => Ok (fst (nthN b i (0, 0)) :: q) s2
      | Panic => Panic
      | Starved => Starved
      end
    | Panic => Panic
    | Starved => Starved
    end
  end.

(* the shuffled validator vector: `order` lists validator ids in the order the thread RNG put them *)
Definition shuffled (stakes : list N) (order : list N) : list (N * N) :=
  map (fun id => (id, nthN stakes id 0)) order.

(* ------------------------------------------------------------------ *)
(* Fait Accompli 1                                                     *)
(* ------------------------------------------------------------------ *)
(* seats pre-allocated to a validator.
   Pinned: (stake as f64 / total as f64 * k as f64).floor() as u64.
   Current: guaranteed_seats = (stake as u128 * k as u128 / total as u128) as u64 - the quotient is at most k
   because a stake is at most the total, so the cast loses nothing; division by zero panics. *)
Definition fa_seats (s total k : N) : N :=
  f64_to_u64 (PrimFloat.mul (PrimFloat.div (f64_of_N s) (f64_of_N total)) (f64_of_N k)).
Definition seats (cv : codever) (s total k : N) : N :=
  match cv with Pinned => fa_seats s total k | Current => s * k / total end.
Definition seats_panic (cv : codever) (total : N) : bool :=
  match cv with Pinned => false | Current => total =? 0 end.
Definition repeatN (x : N) (m : N) : list N := repeat x (N.to_nat m).

(* the pre-allocation loop: (required samples, truncated stakes); None = panic.
   The stake accounted for by m seats is m * total / k: in u64 (overflow panics) in the pinned tree, by
   stake_of_seats in u128 now. *)
Fixpoint fa1_loop (cv : codever) (stakes : list N) (id total k : N) : option (list N * list N) :=
  match stakes with
  | [] => Some ([], [])
  | s :: r =>
    let m := seats cv s total k in
    if seats_panic cv total then None                            (* u128 division by zero *)
    else if (match cv with Pinned => W64 <=? m * total | Current => false end) then None
                                                                 (* samples * total_stake overflow *)
    else if k =? 0 then None                                     (* division by zero *)
    else
      let sub := m * total / k in
      if s <? sub then None                                      (* Stake subtraction underflow *)
      else
        match fa1_loop cv r (id + 1) total k with
        | Some (rq, tr) => Some (repeatN id m ++ rq, (s - sub) :: tr)
        | None => None
        end
  end.

Record fa1_pre := mkFa1Pre { f1_required : list N; f1_weights : list N; f1_kprime : N }.
Definition fa1_prepare (cv : codever) (stakes : list N) (k : N) : option fa1_pre :=
  let total := sumN stakes in
  if W64 <=? total then None
  else
    match fa1_loop cv stakes 0 total k with
    | None => None
    | Some (rq, tr) =>
      if k <? lenN rq then None                                  (* k as usize - required_samples.len() *)
      else
        let all_zero := forallb (fun x => x =? 0) tr in
        Some (mkFa1Pre rq (if all_zero then stakes else tr) (k - lenN rq))
    end.

(* FaitAccompli1Sampler::sample_quorum *)
Definition fa1_sample (required : list N) (k : N) (fallback_size : N) (fallback : stream -> res (list N))
                      (s : stream) : res (list N) :=
  if lenN required <? k then
    if k - lenN required =? fallback_size then
      match fallback s with
      | Ok q r => Ok (required ++ q) r
      | Panic => Panic
      | Starved => Starved
      end
    else Panic                                                   (* assert_eq!(k_prime, quorum_size()) *)
  else Ok required s.

(* ------------------------------------------------------------------ *)
(* Fait Accompli 2                                                     *)
(* ------------------------------------------------------------------ *)
Definition rel_stake (s total : N) : float := PrimFloat.div (f64_of_N s) (f64_of_N total).
Definition fa2_f (s total k : N) : float :=
  PrimFloat.div (f64_round (PrimFloat.mul (rel_stake s total) (f64_of_N k))) (f64_of_N k).
Definition fsum (l : list float) : float := fold_left PrimFloat.add l 0%float.

(* f2_clamp: sample_quorum stops handing out medium seats once k seats are taken (a1e69e3); not in the pinned tree *)
Record fa2_state := mkFa2 { f2_required : list N; f2_medium : list (N * float); f2_weights : list N; f2_k : N; f2_clamp : bool }.
Definition fa2_new (cv : codever) (stakes : list N) (k : N) : option fa2_state :=
  let total := sumN stakes in
  if W64 <=? total then None
  else if seats_panic cv total then None       (* guaranteed_seats divides by the total; an all-zero set
                                                  cannot be sampled from anyway *)
  else
    let required := flat_map (fun '(id, s) => repeatN id (seats cv s total k)) (indexed 0 stakes) in
    let f := map (fun s => fa2_f s total k) stakes in
    if negb (PrimFloat.leb (fsum f) 1%float) then None            (* assert!(f.iter().sum() <= 1.0) *)
    else
      let rows := indexed 0 (combine stakes f) in
      let medium := flat_map (fun '(id, (s, fi)) =>
                       let rel := rel_stake s total in
                       if PrimFloat.ltb rel fi
                       then [(id, PrimFloat.sub 1%float (PrimFloat.mul (PrimFloat.sub fi rel) (f64_of_N k)))]
                       else []) rows in
      let r := fsum (flat_map (fun '(_, (s, fi)) =>
                       let rel := rel_stake s total in
                       if PrimFloat.ltb fi rel then [PrimFloat.sub rel fi] else []) rows) in
      let new_stakes := map (fun '(_, (s, fi)) =>
                       let rel := rel_stake s total in
                       if PrimFloat.ltb fi rel
                       then f64_to_u64 (PrimFloat.mul (PrimFloat.div (PrimFloat.sub rel fi) r) (f64_of_N total))
                       else 0) rows in
      let ws := if PrimFloat.eqb r 0%float then stakes else new_stakes in
      if windex_ok ws then Some (mkFa2 required medium ws k (match cv with Current => true | Pinned => false end)) else None.

(* the medium-node loop; `room` = seats still free (k - result.len(), saturating): with the clamp the loop
   breaks - before drawing - once no seat is left *)
Fixpoint fa2_medium (clamp : bool) (room : N) (medium : list (N * float)) (s : stream) : res (list N) :=
  match medium with
  | [] => Ok [] s
  | (v, p) :: r =>
    if clamp && (room =? 0) then Ok [] s
    else
      match random_bool p s with
      | Ok b s1 =>
        match fa2_medium clamp (if b then room - 1 else room) r s1 with
        | Ok q s2 => Ok (if b then v :: q else q) s2
        | Panic => Panic
        | Starved => Starved
        end
      | Panic => Panic
      | Starved => Starved
      end
  end.
Definition fa2_sample (st : fa2_state) (s : stream) : res (list N) :=
  match fa2_medium (f2_clamp st) (f2_k st - lenN (f2_required st)) (f2_medium st) s with
  | Ok med s1 =>
    let pre := f2_required st ++ med in
    match iid (N.to_nat (f2_k st - lenN pre)) (stake_sample (f2_weights st)) s1 with
    | Ok q s2 => Ok (pre ++ q) s2
    | Panic => Panic
    | Starved => Starved
    end
  | Panic => Panic
  | Starved => Starved
  end.

(* ------------------------------------------------------------------ *)
(* all strategies behind one interface                                 *)
(* ------------------------------------------------------------------ *)
Inductive strategy :=
| StAllSame (v : N) (k : N)           (* AllSameSampler(validators[v]).into_quorum_strategy(k) *)
| StUniform (k : N)                   (* UniformSampler::new(..).into_quorum_strategy(k) *)
| StStake (k : N)                     (* StakeWeightedSampler::new(..).into_quorum_strategy(k); Rotor::new *)
| StTurbine (fanout : N) (k : N)      (* TurbineSampler::new_with_fanout(.., fanout).into_quorum_strategy(k) *)
| StDecay (mnum mden : N) (k : N)     (* DecayingAcceptanceSampler::new(.., mnum as f64 / mden as f64, k) *)
| StPartition (bins : N)              (* PartitionSampler::new(.., bins) *)
| StFA1Part (k : N)                   (* FaitAccompli1Sampler::new_with_partition_fallback; Rotor::new_fa1 *)
| StFA1Stake (k : N)                  (* FaitAccompli1Sampler::new_with_stake_weighted_fallback *)
| StFA2 (k : N).                      (* FaitAccompli2Sampler::new *)

Definition quorum_size (st : strategy) : N :=
  match st with
  | StAllSame _ k | StUniform k | StStake k | StTurbine _ k | StDecay _ _ k | StFA1Part k | StFA1Stake k | StFA2 k => k
  | StPartition b => b
  end.

Inductive sampler :=
| SmAllSame (v : N) (k : N)
| SmUniform (n : N) (k : N)
| SmStake (ws : list N) (k : N)
| SmTurbine (fanout : N) (ws : list N) (k : N)
| SmDecay (ws : list N) (max_samples : float) (k : N)
| SmPartition (bins : list bin)
| SmFA1Part (required : list N) (bins : list bin) (k : N)
| SmFA1Stake (required : list N) (ws : list N) (kprime : N) (k : N)
| SmFA2 (st : fa2_state).

Definition decay_max (mnum mden : N) : float := PrimFloat.div (f64_of_N mnum) (f64_of_N mden).

(* construction; `order` = the order into which PartitionSampler::new's shuffle put the validators (only
   read by the two partition-based strategies): anything in the pinned tree (thread RNG), `fixed_order`
   now (see construct_current below) *)
Definition construct (cv : codever) (st : strategy) (stakes : list N) (order : list N) : cres sampler :=
  match st with
  | StAllSame v k => if v <? lenN stakes then COk (SmAllSame v k) else CPanic   (* validators[v] *)
  | StUniform k => COk (SmUniform (lenN stakes) k)
  | StStake k => if windex_ok stakes then COk (SmStake stakes k) else CPanic
  | StTurbine fanout k =>
    match turbine_weights cv stakes fanout with
    | Some ws => COk (SmTurbine fanout ws k)
    | None => CPanic
    end
  | StDecay mnum mden k => if windex_ok stakes then COk (SmDecay stakes (decay_max mnum mden) k) else CPanic
  | StPartition b =>
    match partition_new (shuffled stakes order) b with
    | COk bins => COk (SmPartition bins)
    | CPanic => CPanic
    | CHang => CHang
    end
  | StFA1Part k =>
    match fa1_prepare cv stakes k with
    | None => CPanic
    | Some p =>
      match partition_new (shuffled (f1_weights p) order) (f1_kprime p) with
      | COk bins => COk (SmFA1Part (f1_required p) bins k)
      | CPanic => CPanic
      | CHang => CHang
      end
    end
  | StFA1Stake k =>
    match fa1_prepare cv stakes k with
    | None => CPanic
    | Some p => if windex_ok (f1_weights p) then COk (SmFA1Stake (f1_required p) (f1_weights p) (f1_kprime p) k)
                else CPanic
    end
  | StFA2 k =>
    match fa2_new cv stakes k with
    | Some s => COk (SmFA2 s)
    | None => CPanic
    end
  end.

Definition sample_quorum (sm : sampler) (s : stream) : res (list N) :=
  match sm with
  | SmAllSame v k => iid (N.to_nat k) (allsame_sample v) s
  | SmUniform n k => iid (N.to_nat k) (uniform_sample n) s
  | SmStake ws k => iid (N.to_nat k) (stake_sample ws) s
  | SmTurbine fanout ws k => iid (N.to_nat k) (turbine_sample fanout ws) s
  | SmDecay ws m k => decay_quorum (decay_accept m) (windex_sample ws) (N.to_nat k) (map (fun _ => 0) ws) s
  | SmPartition bins => partition_sample bins s
  | SmFA1Part required bins k => fa1_sample required k (lenN bins) (partition_sample bins) s
  | SmFA1Stake required ws kprime k => fa1_sample required k kprime (iid (N.to_nat kprime) (stake_sample ws)) s
  | SmFA2 st => fa2_sample st s
  end.

(* ------------------------------------------------------------------ *)
(* one instance used through both traits                                *)
(* ------------------------------------------------------------------ *)
(* AllSame / Uniform / StakeWeighted / Turbine (through IidQuorumSampler) and DecayingAcceptanceSampler
   implement SamplingStrategy (single draws) as well as QuorumSamplingStrategy.  Only the decaying sampler
   has state: `sample_count`, which single draws (sample / sample_info / sample_one) increment, which
   sample_quorum starts from as it finds it, and which sample_quorum resets completely when it is done
   (reset()); Clone copies it.  The state is the explicit `counts` argument; the stateless samplers ignore it. *)
Definition fresh_counts (sm : sampler) : list N :=
  match sm with SmDecay ws _ _ => map (fun _ => 0) ws | _ => [] end.
(* SamplingStrategy::sample *)
Definition sample_single (sm : sampler) (counts : list N) (s : stream) : res (N * list N) :=
  let lift (r : res N) := match r with Ok v s' => Ok (v, counts) s' | Panic => Panic | Starved => Starved end in
  match sm with
  | SmAllSame v _ => lift (allsame_sample v s)
  | SmUniform n _ => lift (uniform_sample n s)
  | SmStake ws _ => lift (stake_sample ws s)
  | SmTurbine fanout ws _ => lift (turbine_sample fanout ws s)
  | SmDecay ws m _ => decay_one (decay_accept m) (windex_sample ws) (N.to_nat MAX_TRIES_PER_SAMPLE) counts s
  | _ => Panic                                  (* the other strategies are not SamplingStrategy *)
  end.
(* QuorumSamplingStrategy::sample_quorum on an instance in state `counts`; returns the state it leaves *)
Definition sample_quorum_from (sm : sampler) (counts : list N) (s : stream) : res (list N * list N) :=
  match sm with
  | SmDecay ws m k =>
    match decay_quorum (decay_accept m) (windex_sample ws) (N.to_nat k) counts s with
    | Ok q r => Ok (q, map (fun _ => 0) ws) r    (* self.reset() *)
    | Panic => Panic
    | Starved => Starved
    end
  | _ => match sample_quorum sm s with Ok q r => Ok (q, counts) r | Panic => Panic | Starved => Starved end
  end.
(* DecayingAcceptanceSampler::reset (a no-op for the stateless samplers) *)
Definition reset_counts (sm : sampler) (counts : list N) : list N :=
  match sm with SmDecay ws _ _ => map (fun _ => 0) ws | _ => counts end.

(* ------------------------------------------------------------------ *)
(* rand's slice shuffle on a fixed-seed StdRng (PartitionSampler::new)  *)
(* ------------------------------------------------------------------ *)
(* calculate_bound_u32(m): the longest product m * (m+1) * .. that fits u32, and its number of factors *)
Fixpoint calc_bound (fuel : nat) (product current m : N) : N * N :=
  match fuel with
  | O => (product, current - m)
  | S f => if product * current <? W32 then calc_bound f (product * current) (current + 1) m
           else (product, current - m)
  end.
Definition calculate_bound_u32 (m : N) : N * N := calc_bound 33 m (m + 1) m.

(* IncreasingUniform: n, chunk, chunk_remaining *)
Record incr := mkIncr { iu_n : N; iu_chunk : N; iu_rem : N }.
(* next_index: a number in [0, n], then n grows by one; several indices are cut from one u32 draw *)
Definition next_index (st : incr) (s : stream) : res (N * incr) :=
  let next_n := iu_n st + 1 in
  let fresh :=
    if 0 <? iu_rem st then Ok (iu_chunk st, iu_rem st - 1) s
    else
      let '(bound, remaining) := calculate_bound_u32 next_n in
      match canon 32 next_u32 bound s with                       (* rng.random_range(..bound) on u32 *)
      | Ok c s1 => Ok (c, remaining - 1) s1
      | Panic => Panic
      | Starved => Starved
      end in
  match fresh with
  | Ok (chunk, ncr) s1 =>
    if ncr =? 0 then Ok (chunk, mkIncr next_n chunk 0) s1
    else Ok (chunk mod next_n, mkIncr next_n (chunk / next_n) ncr) s1
  | Panic => Panic
  | Starved => Starved
  end.

Definition swap_list (l : list N) (i j : nat) : list N :=
  let x := nth i l 0 in
  let y := nth j l 0 in
  set_nthN (set_nthN l i (fun _ => y)) j (fun _ => x).
(* partial_shuffle(rng, len): for i in 0..len { swap(i, next_index()) } *)
Fixpoint shuffle_go (todo i : nat) (l : list N) (st : incr) (s : stream) : res (list N) :=
  match todo with
  | O => Ok l s
  | S t =>
    match next_index st s with
    | Ok (idx, st') s1 => shuffle_go t (S i) (swap_list l i (N.to_nat idx)) st' s1
    | Panic => Panic
    | Starved => Starved
    end
  end.
(* <[T] as SliceRandom>::shuffle for slices shorter than u32::MAX *)
Definition shuffle (l : list N) (s : stream) : res (list N) :=
  if Nat.leb (length l) 1 then Ok l s else shuffle_go (length l) 0 l (mkIncr 0 0 1) s.

(* the order PartitionSampler::new puts n validators in: shuffle of the validator vector (ids 0..n-1 in order)
   with StdRng::from_seed([0; 32]).  At most two words are drawn per element; None only if the materialised
   keystream were too short. *)
Definition fixed_order (n : N) : option (list N) :=
  let ids := map fst (indexed 0 (repeat 0 (N.to_nat n))) in
  match shuffle ids (stdrng (S (S (Nat.div (N.to_nat n) 8))) (repeat 0 32)) with
  | Ok l _ => Some l
  | _ => None
  end.

(* the constructors of the current tree: a function of (strategy, stakes) only *)
Definition construct_current (st : strategy) (stakes : list N) : cres sampler :=
  match st with
  | StPartition _ | StFA1Part _ =>
    match fixed_order (lenN stakes) with
    | Some order => construct Current st stakes order
    | None => CPanic
    end
  | _ => construct Current st stakes []
  end.

(* the scripted stream of the correspondence check: xorshift32 words (state never 0 for a non-zero seed),
   computed on primitive integers and built tail-recursively so that long streams stay cheap *)
Definition xs32_next (x : int) : int :=
  let m := 4294967295%uint63 in
  let x := Uint63.land (Uint63.lxor x (Uint63.lsl x 13%uint63)) m in
  let x := Uint63.lxor x (Uint63.lsr x 17%uint63) in
  Uint63.land (Uint63.lxor x (Uint63.lsl x 5%uint63)) m.
Fixpoint xs32_acc (n : nat) (x : int) (acc : list N) : list N :=
  match n with
  | O => acc
  | S n' => let x' := xs32_next x in xs32_acc n' x' (Z.to_N (Uint63.to_Z x') :: acc)
  end.
Definition xs32_words (n : nat) (seed : N) : list N :=
  rev_append (xs32_acc n (Uint63.of_Z (Z.of_N (seed mod W32))) []) [].
Fixpoint const_acc (n : nat) (w : N) (acc : list N) : list N :=
  match n with O => acc | S n' => const_acc n' w (w :: acc) end.
Definition const_words (n : nat) (w : N) : list N := const_acc n w [].
