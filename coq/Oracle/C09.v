(* C09 case format, model-vs-implementation comparison, and the property oracle on the implementation's verdicts. *)
From Coq Require Import List NArith Bool.
From AG Require Import Gen.Params Model.Pool Model.Validate.
Import ListNotations.
Open Scope N_scope.

Inductive iverdict := V9Panic | IV (v : verdict9).
Coercion IV : verdict9 >-> iverdict.
Inductive c09case :=
| C09V (id : N) (stakes : list N) (v : svote) (impl : iverdict)
| C09C (id : N) (stakes : list N) (c : scert) (impl : iverdict).

Definition verdict9_eqb (a b : verdict9) : bool :=
  match a, b with
  | V9Ok, V9Ok | V9UnknownSigner, V9UnknownSigner | V9InsufficientStake, V9InsufficientStake
  | V9InvalidSignature, V9InvalidSignature => true
  | _, _ => false
  end.

(* what admission must imply (the property itself, on the ideal-signature description of the message) *)
Definition vote_authentic (e : epoch) (v : svote) : bool :=
  (sv_signer v <? nvals e) && (sv_sig_key v =? sv_signer v) && payload_eqb (sv_sig_payload v) (sv_payload v).
Definition half_authentic (n : N) (p : payload) (h : option half) : bool :=
  match h with None => true | Some x => half_verify n p x end.
Definition cert_backed (e : epoch) (c : scert) : bool :=
  let '(p1, p2) := cert_payloads c in
  half_authentic (nvals e) p1 (sc_h1 c) && (if is_mixed c then half_authentic (nvals e) p2 (sc_h2 c) else true)
  && cert_check_threshold e c.

Definition flag9 (b : bool) (f : N) : N := if b then f else 0.
Definition run_c09 (c : c09case) : list (N * N * N) :=
  match c with
  | C09V id stakes v impl =>
    let e := mkEpoch stakes 0 in
    let m := validate_vote e v in
    let fl := match impl with
              | V9Panic => 3                                       (* a panic is both a mismatch and a violation *)
              | IV r => N.lor (flag9 (negb (verdict9_eqb r m)) 1)
                              (flag9 (match r with V9Ok => negb (vote_authentic e v) | _ => vote_authentic e v end) 2)
              end in
    if fl =? 0 then [] else [(id, 0, fl)]
  | C09C id stakes c impl =>
    let e := mkEpoch stakes 0 in
    let m := validate_cert e c in
    let fl := match impl with
              | V9Panic => 3
              | IV r => N.lor (flag9 (negb (verdict9_eqb r m)) 1)
                              (flag9 (match r with V9Ok => negb (cert_backed e c) | _ => cert_backed e c end) 2)
              end in
    if fl =? 0 then [] else [(id, 0, fl)]
  end.
Definition c09_run (cs : list c09case) : list (N * N * N) := flat_map run_c09 cs.
