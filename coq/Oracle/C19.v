(* C19 case format, model-vs-implementation comparison, and the property oracle on the implementation's outputs. *)
From Coq Require Import String Ascii List NArith Bool.
From AG Require Import Gen.Params Model.Wire.
Import ListNotations.
Open Scope N_scope.

Inductive origin :=
| OBuilt (summary : list N)     (* built by the crate's constructors; what the constructor was asked for *)
| OBytes.                       (* mutated / arbitrary byte string *)
Inductive iobs :=
| IPanic
| IErr
| IOk (reenc : string)                 (* serialize (deserialize b) *)
      (second : option string)         (* serialize (deserialize reenc); None = reenc did not decode *)
      (dbg_eq : bool)                  (* the two decoded values are equal (== for certificates, identical {:?} output otherwise) *)
      (trailing_rejected : bool)       (* b ++ [0] and reenc ++ [0xff] are rejected *)
      (prefix_rejected : bool)         (* b without its last byte and the first half of b are rejected *)
      (summary : list N).              (* fields read through the public accessors of the decoded value *)
Inductive c19case :=
| C19 (id : N) (ch : chan) (o : origin) (table : list (string * bool * bool)) (b : string) (impl : iobs)
| C19Len (id : N) (rs_len data_len proof_len enc_len : N)
| C19CertLen (id : N) (kind n present enc_len : N).

(* ---------- model side ---------- *)
Definition lookup (tbl : list (bytes * bool * bool)) (dflt : bool) (sel : bool * bool -> bool) (x : bytes) : bool :=
  match find (fun e => bytes_eqb (fst (fst e)) x) tbl with
  | Some e => sel (snd (fst e), snd e)
  | None => dflt
  end.
Definition blobs_of (tbl : list (bytes * bool * bool)) (dflt : bool) : blobs :=
  mkBlobs (lookup tbl dflt fst) (lookup tbl dflt snd).

Definition half_signers (o : option w_aggsig) : list N := match o with Some a => signers_of a | None => [] end.
Definition vote_summary (v : w_vote) : list N :=
  match v with
  | WNotar v => [0; 0; hv_slot v; hv_signer v]
  | WNotarFallback v => [0; 1; hv_slot v; hv_signer v]
  | WSkip v => [0; 2; sv_slot v; sv_signer v]
  | WSkipFallback v => [0; 3; sv_slot v; sv_signer v]
  | WFinal v => [0; 4; sv_slot v; sv_signer v]
  end.
Definition cert_parts (c : w_cert) : N * N * N * list N * list N :=
  match c with
  | WCNotar c => (0, c1h_slot c, c1h_stake c, signers_of (c1h_agg c), [])
  | WCNotarFallback c => (1, c2h_slot c, c2h_stake c, half_signers (c2h_agg1 c), half_signers (c2h_agg2 c))
  | WCSkip c => (2, c2_slot c, c2_stake c, half_signers (c2_agg1 c), half_signers (c2_agg2 c))
  | WCFastFinal c => (3, c1h_slot c, c1h_stake c, signers_of (c1h_agg c), [])
  | WCFinal c => (4, c1_slot c, c1_stake c, signers_of (c1_agg c), [])
  end.
Definition cert_summary (c : w_cert) : list N :=
  let '(k, slot, stake, s1, s2) := cert_parts c in
  [1; k; slot; stake; N.of_nat (length s1)] ++ s1 ++ s2.
Definition summary_of (ch : chan) : msg_of ch -> list N :=
  match ch with
  | ChConsensus => fun m => match m with WVote v => vote_summary v | WCert c => cert_summary c end
  | ChShred => fun s => [if sh_coding s then 1 else 0; sh_slice s * TOTAL_SHREDS + sh_index s]
  | _ => fun _ => []
  end.

(* a bitmask as AggregateSignature::new builds it: exactly the signers' bits, nothing else *)
Definition agg_clean (a : w_aggsig) : bool :=
  let '(_, ws) := bitmask_of (ag_bits a) (signers_of a) in
  Nat.eqb (length ws) (length (ag_words a)) && forallb (fun p => fst p =? snd p) (combine ws (ag_words a)).
Definition oagg_clean (o : option w_aggsig) : bool := match o with Some a => agg_clean a | None => true end.
Definition built_clean (ch : chan) : msg_of ch -> bool :=
  match ch with
  | ChConsensus => fun m =>
    match m with
    | WVote _ => true
    | WCert (WCNotar c) | WCert (WCFastFinal c) => agg_clean (c1h_agg c)
    | WCert (WCNotarFallback c) => oagg_clean (c2h_agg1 c) && oagg_clean (c2h_agg2 c)
    | WCert (WCSkip c) => oagg_clean (c2_agg1 c) && oagg_clean (c2_agg2 c)
    | WCert (WCFinal c) => agg_clean (c1_agg c)
    end
  | _ => fun _ => true
  end.

Record mres := mkMres { m_reenc : bytes; m_summary : list N; m_bounds : bool; m_clean : bool }.
Definition model_run (V : blobs) (ch : chan) (b : bytes) : option mres :=
  match decode (wire V ch) b with
  | Some m => Some (mkMres (encode (wire V ch) m) (summary_of ch m) (emit_bounds ch m) (built_clean ch m))
  | None => None
  end.

Fixpoint listN_eqb (a b : list N) : bool :=
  match a, b with
  | [], [] => true
  | x :: a', y :: b' => (x =? y) && listN_eqb a' b'
  | _, _ => false
  end.
Definition mres_eqb (x y : option mres) : bool :=
  match x, y with
  | None, None => true
  | Some x, Some y => bytes_eqb (m_reenc x) (m_reenc y) && listN_eqb (m_summary x) (m_summary y)
  | _, _ => false
  end.

Definition flag (b : bool) (f : N) : N := if b then f else 0.
Definition lenN (b : bytes) : N := N.of_nat (length b).

Definition run_c19 (c : c19case) : list (N * N * N) :=
  match c with
  | C19 id ch o table b impl =>
    let bs := hexb b in
    let tbl := map (fun e => (hexb (fst (fst e)), snd (fst e), snd e)) table in
    let m := model_run (blobs_of tbl false) ch bs in
    (* the verdict must not depend on a BLS point whose validity the harness did not report *)
    let determined := match ch with ChConsensus => mres_eqb m (model_run (blobs_of tbl true) ch bs) | _ => true end in
    let mismatch :=
      negb determined ||
      match impl, m with
      | IPanic, _ => true
      | IErr, None => false
      | IOk reenc _ _ _ _ summ, Some r =>
        negb (bytes_eqb (hexb reenc) (m_reenc r)) || negb (listN_eqb summ (m_summary r)) ||
        match o with OBuilt _ => negb (m_bounds r) || negb (m_clean r) | OBytes => false end
      | _, _ => true
      end in
    let violation :=
      match impl with
      | IPanic => true
      | IErr => match o with OBuilt _ => true | OBytes => false end      (* a message a correct node emits must decode *)
      | IOk reenc second dbg_eq trailing prefix summ =>
        let re := hexb reenc in
        negb (match second with Some s2 => bytes_eqb (hexb s2) re | None => false end)   (* stable re-encoding *)
        || negb dbg_eq || negb trailing || negb prefix
        || (match ch, summ with ChShred, [c; idx] => negb ((c <? 2) && (idx <? MAX_SLICES_PER_BLOCK * TOTAL_SHREDS)) | _, _ => false end)
        || match o with
           | OBuilt s => negb (bytes_eqb re bs) || negb (listN_eqb s summ) || negb (lenN bs <=? MTU_BYTES)
           | OBytes => false
           end
      end in
    let fl := N.lor (flag mismatch 1) (flag violation 2) in
    if fl =? 0 then [] else [(id, 0, fl)]
  | C19Len id rs_len data_len proof_len enc_len =>
    let mismatch := negb (data_len =? shard_size rs_len)
                    || negb (enc_len =? 4 + 17 + 8 + (8 + data_len) + 64 + (8 + 32 * proof_len))
                    || negb ((data_len <=? MAX_DATA_PER_SHRED) && (proof_len <=? SLICE_PROOF_MAX)) in
    let violation := negb (enc_len <=? MTU_BYTES) in
    let fl := N.lor (flag mismatch 1) (flag violation 2) in
    if fl =? 0 then [] else [(id, 0, fl)]
  | C19CertLen id kind n present enc_len =>
    let base := 4 + 4 + 8 + (if (kind =? 0) || (kind =? 1) || (kind =? 3) then 32 else 0) + 8 in
    let half := 112 + 8 * words_for n in
    let expected := if (kind =? 1) || (kind =? 2) then base + present * (1 + half) + (2 - present) else base + half in
    let mismatch := negb (enc_len =? expected) || negb (n <=? MAX_SIGNERS) || negb ((1 <=? present) && (present <=? 2)) in
    let violation := negb (enc_len <=? MTU_BYTES) in
    let fl := N.lor (flag mismatch 1) (flag violation 2) in
    if fl =? 0 then [] else [(id, 0, fl)]
  end.
Definition c19_run (cs : list c19case) : list (N * N * N) := flat_map run_c19 cs.
