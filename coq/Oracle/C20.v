(* C20 case format, model-vs-implementation comparison, and the property oracle evaluated on the
   IMPLEMENTATION's outputs:
     state cases  - every return value, length, ordered iteration, lookup and `==` verdict of every fork must
                    be what a plain ordered map (sorted association list, one per fork) answers; the
                    incrementally maintained LtHash digest must equal the digest recomputed from the fork's
                    own iteration (in order and shuffled) and the digest of the sum over the reference contents;
     engine cases - every BlockExecuted event must be what an engine answers that seeds a block from its
                    parent's computed commitment, or from the parent BLOCK hash when the parent was not
                    executed (a pending block of the parent's slot that ended under another hash is not it).
   flags: 1 = model differs from implementation, 2 = implementation violates the property. *)
From Coq Require Import String Uint63 List NArith ZArith Bool.
From AG Require Import Gen.Params Lib.Sha256 Lib.Hex Model.ExecState.
Import ListNotations.
Open Scope N_scope.

(* ---------- bytes ---------- *)
Definition int_of_N (n : N) : int := Uint63.of_Z (Z.of_N n).
Definition ints (l : list N) : list int := map int_of_N l.
Definition hexN (s : string) : list N := bytesN (hex s).
Definition shaN (l : list N) : list N := bytesN (sha256 (ints l)).

Fixpoint lanes_of_block (b : list N) : list N :=
  match b with b0 :: b1 :: t => (b0 + 256 * b1) :: lanes_of_block t | _ => [] end.
Definition le8 (c : N) : list N := [c mod 256; (c / 256) mod 256; 0; 0; 0; 0; 0; 0].
Definition he_sha (k : key) (v : value) : lanes :=
  let seed := shaN (k ++ v) in
  flat_map (fun c => lanes_of_block (shaN (seed ++ le8 (N.of_nat c)))) (seq 0 64).
Definition he_off (k : key) (v : value) : lanes := [].
Definition digest_of (l : lanes) : list N := shaN (lanes_bytes l).

(* ---------- comparisons ---------- *)
Definition opt_eqb (a b : option (list N)) : bool :=
  match a, b with None, None => true | Some x, Some y => bytes_eqb x y | _, _ => false end.
Fixpoint kvs_eqb (a b : list (key * value)) : bool :=
  match a, b with
  | [], [] => true
  | (k1, v1) :: a', (k2, v2) :: b' => bytes_eqb k1 k2 && bytes_eqb v1 v2 && kvs_eqb a' b'
  | _, _ => false
  end.
Fixpoint opts_eqb (a b : list (option (list N))) : bool :=
  match a, b with [], [] => true | x :: a', y :: b' => opt_eqb x y && opts_eqb a' b' | _, _ => false end.
Fixpoint bools_eqb (a b : list bool) : bool :=
  match a, b with [], [] => true | x :: a', y :: b' => Bool.eqb x y && bools_eqb a' b' | _, _ => false end.
Definition flag (b : bool) (f : N) : N := if b then f else 0.
Definition nthN {A} (l : list A) (i : N) (d : A) : A := nth (N.to_nat i) l d.

(* ---------- state cases ---------- *)
(* keys and values are indices into the case's key / value tables; a value the implementation returned
   that is not in the table is rendered as an out-of-range index and resolves to a non-byte sentinel *)
Inductive c20op :=
| OI (f ki vi : N) (ret : option N)
| OR (f ki : N) (ret : option N)
| OF (f : N).
Inductive c20snap :=
  Snap (len : N) (iter : list (N * N)) (gets : list (option N)) (dig : option (string * string * string)).
(* a segment: operations, then a snapshot of EVERY fork and the row-major `==` matrix over all forks *)
Inductive c20seg := Seg (ops : list c20op) (snaps : list c20snap) (eqm : list bool).

Definition vlook (vt : list value) (i : N) : value := nth (N.to_nat i) vt [999].
Definition sop_of (kt : list key) (vt : list value) (o : c20op) : sop :=
  match o with
  | OI f ki vi _ => SInsert (N.to_nat f) (nthN kt ki []) (vlook vt vi)
  | OR f ki _ => SRemove (N.to_nat f) (nthN kt ki [])
  | OF f => SFork (N.to_nat f)
  end.
Definition impl_ret (vt : list value) (o : c20op) : option (list N) :=
  match o with OI _ _ _ r => option_map (vlook vt) r | OR _ _ r => option_map (vlook vt) r | OF _ => None end.
Definition ref_ret (w : list (list (key * value))) (o : sop) : option value :=
  match o with
  | SInsert f k _ => match nth_error w f with Some m => m_find k m | None => None end
  | SRemove f k => match nth_error w f with Some m => m_find k m | None => None end
  | SFork _ => None
  end.

Record srun := mkSRun { sr_model : res (list fork); sr_ref : list (list (key * value)); sr_flags : N }.

Definition run_op (he : key -> value -> lanes) (kt : list key) (vt : list value) (st : srun) (o : c20op) : srun :=
  let so := sop_of kt vt o in
  let ir := impl_ret vt o in
  let f2 := flag (negb (opt_eqb ir (ref_ret (sr_ref st) so))) 2 in
  match sr_model st with
  | Panic => mkSRun Panic (ref_step (sr_ref st) so) (N.lor (sr_flags st) (N.lor f2 1))
  | Ok w =>
    match world_step he w so with
    | Panic => mkSRun Panic (ref_step (sr_ref st) so) (N.lor (sr_flags st) (N.lor f2 1))
    | Ok (w', r) => mkSRun (Ok w') (ref_step (sr_ref st) so)
                           (N.lor (sr_flags st) (N.lor f2 (flag (negb (opt_eqb ir r)) 1)))
    end
  end.

Definition snap_flags (hashing : bool) (he : key -> value -> lanes) (kt : list key) (vt : list value)
           (m : option fork) (r : list (key * value)) (s : c20snap) : N :=
  match s with
  | Snap len iter gets dig =>
    let it := map (fun kv => (nthN kt (fst kv) [], vlook vt (snd kv))) iter in
    let gs := map (option_map (vlook vt)) gets in
    let f2 := negb (kvs_eqb it r) || negb (len =? N.of_nat (length r))
              || negb (opts_eqb gs (map (fun k => m_find k r) kt)) in
    let f2d := match dig with
               | None => false
               | Some (inc, rec, shuf) =>
                 negb (bytes_eqb (hexN inc) (hexN rec)) || negb (bytes_eqb (hexN inc) (hexN shuf))
                 || negb (bytes_eqb (hexN inc) (digest_of (lt_of_contents he r)))
               end in
    let f1 := match m with
              | None => true
              | Some x =>
                negb (kvs_eqb it (to_list (st_root (fk_state x)))) || negb (len =? st_len (fk_state x))
                || negb (match st_iter (fk_state x) with Ok l => kvs_eqb it l | Panic => false end)
                || negb (opts_eqb gs (map (fun k => match st_get (fk_state x) k with Ok g => g | Panic => None end) kt))
                || match dig with
                   | None => false
                   | Some (inc, _, _) => hashing && negb (bytes_eqb (hexN inc) (digest_of (fk_lt x)))
                   end
              end in
    N.lor (flag (f2 || f2d) 2) (flag f1 1)
  end.

Fixpoint snaps_flags (hashing : bool) he kt vt (ms : list fork) (rs : list (list (key * value))) (ss : list c20snap) : N :=
  match rs, ss with
  | [], [] => 0
  | r :: rs', s :: ss' =>
    N.lor (snap_flags hashing he kt vt (hd_error ms) r s) (snaps_flags hashing he kt vt (tl ms) rs' ss')
  | _, _ => 3                      (* the implementation has another number of forks *)
  end.

Definition eq_matrix {A} (eqb : A -> A -> bool) (l : list A) : list bool :=
  flat_map (fun a => map (fun b => eqb a b) l) l.

Definition run_seg (hashing : bool) he kt vt (st : srun) (g : c20seg) : srun :=
  match g with
  | Seg ops snaps eqm =>
    let st1 := fold_left (run_op he kt vt) ops st in
    let ms := match sr_model st1 with Ok w => w | Panic => [] end in
    let fs := snaps_flags hashing he kt vt ms (sr_ref st1) snaps in
    let fe2 := flag (negb (bools_eqb eqm (eq_matrix kvs_eqb (sr_ref st1)))) 2 in
    let fe1 := flag (negb (bools_eqb eqm (eq_matrix state_eqb (map fk_state ms)))) 1 in
    mkSRun (sr_model st1) (sr_ref st1) (N.lor (sr_flags st1) (N.lor fs (N.lor fe2 fe1)))
  end.

(* ---------- engine cases ---------- *)
Inductive cipb := CP (slot : N) | CK (slot : N) (h : string).
Inductive ceop :=
| EB (id : cipb) (parent : option (N * string))
| EX (id : cipb) (txs : list string)
| EN (b : N * string)
| EF (b : N * string).
Definition cevent := (N * string * N * string)%type.       (* slot, block hash, tx_count, commitment *)

Definition ipb_of (i : cipb) : ipb := match i with CP s => Pending s | CK s h => Known s (hexN h) end.
Definition bid_of (b : N * string) : block_id := (fst b, hexN (snd b)).
Definition eop_of (o : ceop) : eop :=
  match o with
  | EB id p => EBegin (ipb_of id) (option_map bid_of p)
  | EX id txs => EExec (ipb_of id) (map hexN txs)
  | EN b => EEnd (bid_of b)
  | EF b => EFinalize (bid_of b)
  end.
Definition ev_of (e : cevent) : eevent :=
  match e with (s, h, c, st) => ((s, hexN h), c, hexN st) end.
Definition eevent_eqb (a b : eevent) : bool :=
  match a, b with
  | ((s1, h1), c1, x1), ((s2, h2), c2, x2) => (s1 =? s2) && bytes_eqb h1 h2 && (c1 =? c2) && bytes_eqb x1 x2
  end.
Fixpoint eevents_eqb (a b : list eevent) : bool :=
  match a, b with [], [] => true | x :: a', y :: b' => eevent_eqb x y && eevents_eqb a' b' | _, _ => false end.

(* the ideal engine of the oracle: entries are blocks; a pending entry that is ended is from then on the block
   (slot, hash) it ended as, and a parent lookup does not accept an entry that is known to be another block *)
Record ientry := mkIE { ie_id : ipb; ie_count : N; ie_hash : hash; ie_ended : option hash }.
Fixpoint i_get (e : list ientry) (i : ipb) : option ientry :=
  match e with [] => None | x :: t => if ipb_eqb (ie_id x) i then Some x else i_get t i end.
Fixpoint i_put (e : list ientry) (x : ientry) : list ientry :=
  match e with
  | [] => [x]
  | y :: t => if ipb_eqb (ie_id y) (ie_id x) then x :: t else y :: i_put t x
  end.
Definition i_del (e : list ientry) (i : ipb) : list ientry := filter (fun x => negb (ipb_eqb (ie_id x) i)) e.
Definition i_parent (e : list ientry) (p : block_id) : option ientry :=
  match i_get e (Known (fst p) (snd p)) with
  | Some x => Some x
  | None =>
    match i_get e (Pending (fst p)) with
    | Some x => match ie_ended x with
                | Some h => if bytes_eqb h (snd p) then Some x else None
                | None => Some x
                end
    | None => None
    end
  end.
Definition i_step (genesis : hash) (e : list ientry) (o : eop) : list ientry * list eevent :=
  match o with
  | EBegin id parent =>
    let seed := match parent with
                | None => genesis
                | Some p => match i_parent e p with Some x => ie_hash x | None => snd p end
                end in
    (i_put e (mkIE id 0 seed None), [])
  | EExec id txs =>
    match i_get e id with
    | None => (e, [])
    | Some x => (i_put e (mkIE id (ie_count x + N.of_nat (length txs))
                               (fold_left (fun a tx => shaN (a ++ tx)) txs (ie_hash x)) (ie_ended x)), [])
    end
  | EEnd b =>
    match i_get e (Known (fst b) (snd b)) with
    | Some x => (e, [(b, ie_count x, ie_hash x)])
    | None =>
      match i_get e (Pending (fst b)) with
      | Some x =>
        (* the block's identity is known from here on: it is filed under it, so that the state of an ended
           block is never reported for, or inherited by children of, another block of the same slot *)
        (i_put (i_del e (Pending (fst b))) (mkIE (Known (fst b) (snd b)) (ie_count x) (ie_hash x) (Some (snd b))),
         [(b, ie_count x, ie_hash x)])
      | None => (e, [])
      end
    end
  | EFinalize b => (filter (fun x => fst b <=? ipb_slot (ie_id x)) e, [])
  end.

Record erun := mkERun { er_model : engine; er_ideal : list ientry; er_flags : N }.
Definition genesisN : hash := hexN GENESIS_BLOCK_HASH.
Definition run_eop (st : erun) (oi : ceop * list cevent) : erun :=
  let o := eop_of (fst oi) in
  let iev := map ev_of (snd oi) in
  let '(m', mev) := eng_step shaN genesisN true (er_model st) o in
  let '(i', oev) := i_step genesisN (er_ideal st) o in
  mkERun m' i' (N.lor (er_flags st) (N.lor (flag (negb (eevents_eqb iev mev)) 1) (flag (negb (eevents_eqb iev oev)) 2))).

(* ---------- cases ---------- *)
Inductive c20case :=
| C20S (id : N) (hashing : bool) (keys vals : list string) (segs : list c20seg) (panicked : bool)
| C20E (id : N) (steps : list (ceop * list cevent)) (panicked : bool).

Definition run_c20 (c : c20case) : list (N * N * N) :=
  match c with
  | C20S id hashing keys vals segs panicked =>
    let kt := map hexN keys in
    let vt := map hexN vals in
    let he := if hashing then he_sha else he_off in
    let st := fold_left (run_seg hashing he kt vt) segs (mkSRun (Ok [fork_new]) [[]] 0) in
    let fl := N.lor (sr_flags st) (flag panicked 3) in
    if fl =? 0 then [] else [(id, 0, fl)]
  | C20E id steps panicked =>
    let st := fold_left run_eop steps (mkERun [] [] 0) in
    let fl := N.lor (er_flags st) (flag panicked 3) in
    if fl =? 0 then [] else [(id, 0, fl)]
  end.
Definition c20_run (cs : list c20case) : list (N * N * N) := flat_map run_c20 cs.
