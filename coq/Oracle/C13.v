(* C13 case format, model-vs-implementation comparison, and the property oracle on the
   implementation's event stream / return values. *)
From Coq Require Import List NArith Bool.
From AG Require Import Gen.Params Model.Pool Model.Blockstore.
Import ListNotations.
Open Scope N_scope.

Record bstep := mkBStep { bs_op' : bs_op; bs_ret' : bs_ret; bs_events : list bevent; bs_obs' : bs_obs }.
Inductive bcase := BCase (id : N) (slot : N) (ct : content) (steps : list bstep).

Fixpoint listN_eqb' (a b : list N) : bool :=
  match a, b with [], [] => true | x :: a', y :: b' => (x =? y) && listN_eqb' a' b' | _, _ => false end.
Definition bevent_eqb (a b : bevent) : bool :=
  match a, b with
  | BFirstShred, BFirstShred | BInvalidBlock, BInvalidBlock => true
  | BBlock h p, BBlock h' p' => listN_eqb' h h' && bid_eqb p p'
  | _, _ => false
  end.
Definition adderr_eqb (a b : add_err) : bool :=
  match a, b with EDuplicate, EDuplicate | EEquivocation, EEquivocation | EInvalidShred, EInvalidShred => true | _, _ => false end.
Definition bsret_eqb (a b : bs_ret) : bool :=
  match a, b with
  | BROk None, BROk None => true
  | BROk (Some (h, p)), BROk (Some (h', p')) => listN_eqb' h h' && bid_eqb p p'
  | BRErr x, BRErr y => adderr_eqb x y
  | BRPanic, BRPanic => true
  | _, _ => false
  end.
Fixpoint bevents_eqb (a b : list bevent) : bool :=
  match a, b with [], [] => true | x :: a', y :: b' => bevent_eqb x y && bevents_eqb a' b' | _, _ => false end.

(* ---------- property oracle (on the implementation's outputs, given the ground-truth content) ---------- *)
(* the shreds delivered so far through dissemination (the real ones, not refused as duplicate / after misbehaviour) *)
Definition dissem_shreds (steps : list bstep) : list bshred :=
  flat_map (fun st => match bs_op' st with BDissem s => [s] | _ => [] end) steps.
Definition own_slices (steps : list bstep) : list (N * bool * N) :=
  flat_map (fun st => match bs_op' st with BOwnSlice i l r _ => [(i, l, r)] | _ => [] end) steps.
Definition all_events_b (steps : list bstep) : list bevent := flat_map bs_events steps.
Definition count_b (f : bevent -> bool) (l : list bevent) : N := N.of_nat (length (filter f l)).
Definition is_first_ev (e : bevent) := match e with BFirstShred => true | _ => false end.
Definition is_block_ev (e : bevent) := match e with BBlock _ _ => true | _ => false end.
Definition is_invalid_ev (e : bevent) := match e with BInvalidBlock => true | _ => false end.

(* the leader's intent as revealed by the delivered shreds: per slice index the set of distinct commitments *)
Definition commitments_at (shs : list bshred) (i : N) : list (bool * N) :=
  fold_right (fun s acc => if (b_slice s =? i) && negb (existsb (commit_eqb (commitment_of s)) acc) then commitment_of s :: acc else acc) [] shs.
Definition slice_indices (shs : list bshred) : list N := fold_right sset_insert [] (map b_slice shs).
Definition count_root (shs : list bshred) (r : N) : N :=
  N.of_nat (length (fold_right sset_insert [] (map b_index (filter (fun s => b_root s =? r) shs)))).
(* does the delivered set reveal misbehaviour / malformed content (independent of arrival order)? *)
Definition reveals_equivocation (shs : list bshred) : bool :=
  existsb (fun i => match commitments_at shs i with _ :: _ :: _ => true | _ => false end) (slice_indices shs)
  || (* contradictory last markers *)
     existsb (fun s => b_last s && existsb (fun s' => (b_slice s <? b_slice s') || ((b_slice s' =? b_slice s) && negb (b_last s'))
                                                       || ((b_slice s' <? b_slice s) && b_last s')) shs) shs.
Definition tag_ok (s : bshred) : bool := Bool.eqb (b_index s <? DATA_SHREDS) (b_is_data s).
(* a shred whose (unsigned) data / coding type contradicts its index is not evidence of anything: it must be
   refused up front with InvalidShred, without any event - in particular without blaming the leader *)
Definition tag_refusal_ok (st : bstep) : bool :=
  match bs_op' st with
  | BDissem s | BRepair _ _ s =>
    tag_ok s || (match bs_ret' st with BRErr EInvalidShred => true | _ => false end
                 && match bs_events st with [] => true | _ => false end)
  | BOwnSlice _ _ _ _ => true
  end.

(* the block an honest, well-formed set of commitments describes: slices 0..last each with >= DATA_SHREDS shreds *)
Definition honest_block (slot : N) (ct : content) (shs : list bshred) : option (blockhash * blockid) :=
  match filter b_last shs with
  | [] => None
  | l :: _ =>
    let last := b_slice l in
    let idxs := seqN 0 (N.to_nat (last + 1)) in
    let roots := map (fun i => match commitments_at shs i with c :: _ => Some (snd c) | [] => None end) idxs in
    if forallb (fun r => match r with Some x => DATA_SHREDS <=? count_root shs x | None => false end) roots then
      let rs := flat_map (fun r => match r with Some x => [x] | None => [] end) roots in
      let decoded := map (fun r => content_of ct r) rs in
      match decoded with
      | DecOk (Some p0) _ :: _ =>
        let sl := combine idxs (map (fun rd => match snd rd with DecOk p ok => mkRS (fst rd) p ok | DecErr => mkRS (fst rd) None false end) (combine rs decoded)) in
        if forallb (fun d => match d with DecOk _ _ => true | DecErr => false end) decoded then
          match walk_slices sl p0 false with
          | Some parent => if fst parent <? slot then Some (rs, parent) else None
          | None => None
          end
        else None
      | _ => None
      end
    else None
  end.

(* what the steps so far must have produced:
   - at most one FirstShred / Block / InvalidBlock each; FirstShred as soon as anything was stored
   - a Block event only for the block the delivered commitments describe (hash = its slice roots, leader's parent)
   - no Block from dissemination after InvalidBlock
   - a shred whose data / coding type contradicts its index is refused with InvalidShred and emits nothing; it
     counts neither as evidence against the leader nor towards reconstruction (all clauses below are about the
     remaining, type-consistent shreds)
   - with honest, consistent, well-formed shreds: never InvalidBlock - a correct leader is NEVER flagged, whatever
     types were flipped in transit - and the Block as soon as every slice has DATA_SHREDS distinct type-consistent
     shreds
   - equivocation / malformed content revealed by stored data => InvalidBlock has been announced when the
     implementation refused the revealing shred *)
Definition c13_step_ok (slot : N) (ct : content) (hist : list bstep) (st : bstep) : bool :=
  let upto := hist ++ [st] in
  let evs := all_events_b upto in
  let shs := filter tag_ok (dissem_shreds upto) in
  let repaired := existsb (fun s => match bs_op' s with BRepair _ _ _ => true | _ => false end) upto in
  let own := match own_slices upto with [] => false | _ => true end in
  tag_refusal_ok st
  && (* the first shred of the slot is announced once for dissemination / the leader's own slices; the repair
     path announces a first shred per (re)started repaired copy, which the correspondence pins down *)
     (count_b is_first_ev (flat_map (fun s => match bs_op' s with BRepair _ _ _ => [] | _ => bs_events s end) upto) <=? 1)
  && (count_b is_invalid_ev evs <=? 1)
  && (repaired || own || (count_b is_block_ev evs <=? 1))
  && (* block events are justified *)
     (repaired || own ||
      forallb (fun e => match e with
                        | BBlock h p => match honest_block slot ct shs with
                                        | Some (h', p') => listN_eqb' h h' && bid_eqb p p'
                                        | None => false end
                        | _ => true end) (bs_events st))
  && (* equivocation revealed by the offered shreds (two commitments for one slice, contradictory last markers)
        has been announced as an invalid block, whatever the arrival order *)
     (repaired || own || negb (reveals_equivocation shs) || existsb is_invalid_ev evs)
  && (* no block from dissemination once the leader was flagged *)
     (repaired || own || negb (existsb is_invalid_ev (all_events_b hist)) || negb (existsb is_block_ev (bs_events st)))
  && (* an honest leader is never flagged, and its block is announced as soon as it is reconstructible *)
     (repaired || own || reveals_equivocation shs
      || match honest_block slot ct shs with
         | Some _ => negb (existsb is_invalid_ev evs) && existsb is_block_ev evs
         | None =>
           (* nothing malformed revealed yet => not flagged; (malformed content is only revealed by decoding) *)
           existsb (fun r => match content_of ct r with DecErr => true | DecOk _ ok => negb ok end) (map b_root shs)
           || existsb (fun s => (b_slice s =? 0) && match content_of ct (b_root s) with DecOk None _ => true | _ => false end) shs
           || existsb (fun s => negb (b_slice s =? 0) && match content_of ct (b_root s) with DecOk (Some _) _ => true | _ => false end) shs
           || existsb (fun s => match content_of ct (b_root s) with DecOk (Some p) _ => negb (fst p <? slot) | _ => false end) shs
           || negb (existsb is_invalid_ev evs)
         end)
  && (* refusals as Equivocation / InvalidShred always come with (an earlier or simultaneous) InvalidBlock *)
     match bs_op' st, bs_ret' st with
     | BDissem _, BRErr EEquivocation => existsb is_invalid_ev evs
     | BDissem s, BRErr EInvalidShred => negb (tag_ok s) || existsb is_invalid_ev evs
     | _, BRPanic => false
     | _, _ => true
     end.

Definition flagb (b : bool) (f : N) : N := if b then f else 0.

Fixpoint run_bsteps (slot : N) (ct : content) (sd : slotdata) (hist : list bstep) (k : N) (steps : list bstep) (id : N) : list (N * N * N) :=
  match steps with
  | [] => []
  | st :: rest =>
    let '(sd', ret, evs) := bs_step true ct slot sd (bs_op' st) in
    let same := bsret_eqb ret (bs_ret' st)
                && match ret with
                   | BRPanic => true
                   | _ => bevents_eqb evs (bs_events st)
                          && match bo_dissem_hash (bs_observe sd'), bo_dissem_hash (bs_obs' st) with
                             | None, None => true | Some a, Some b => listN_eqb' a b | _, _ => false end
                   end in
    let fl := N.lor (flagb (negb same) 1) (flagb (negb (c13_step_ok slot ct hist st)) 2) in
    (if fl =? 0 then [] else [(id, k, fl)]) ++ run_bsteps slot ct sd' (hist ++ [st]) (k + 1) rest id
  end.

Definition run_bcase (c : bcase) : list (N * N * N) :=
  match c with BCase id slot ct steps => run_bsteps slot ct sd_empty [] 0 steps id end.
Definition c13_run (cs : list bcase) : list (N * N * N) := flat_map run_bcase cs.
