(* C17 case format, model-vs-implementation comparison, and the property oracle evaluated on the
   IMPLEMENTATION's committees (imports the model only, never the proofs). *)
From Coq Require Import List NArith Bool.
From AG Require Import Gen.Params Model.Sampling.
Import ListNotations.
Open Scope N_scope.

Inductive iout := IPanic | IQ (q : list N).
(* one draw: the scripted random source is `prefix` followed by xorshift32 words of a seed (or by a constant word); the
   implementation consumed exactly `used` words; `out` is what instance 1 returned, `out2` what an
   independently constructed second instance returned for the same words.  `degenerate` marks random
   sources / configurations for which a rejection loop legitimately cannot succeed (constant words, more
   seats than the decay cap allows): there a "rejected all samples" panic is not a finding. *)
Inductive tail := TSplit (seed : N) | TConst (w : N).
Record c17draw := mkDraw { d_prefix : list N; d_tail : tail; d_used : N; d_degenerate : bool; d_out : iout; d_out2 : iout }.
(* constructor observation: panic, or (for the partition-based strategies) the bins of instance 1:
   validator ids and the stake taken per entry.  c_bins_equal: the independently constructed second instance
   has exactly the same bins (PartitionSampler::new shuffles with a fixed-seed RNG: the bins are a function of
   the validator set, and the model predicts them) *)
Inductive ictor := ICtorPanic | ICtorOk (bins : list (list (N * N))).
Record c17case := mkC17 { c_id : N; c_stakes : list N; c_strat : strategy; c_ctor : ictor; c_ctor2_panicked : bool;
                          c_bins_equal : bool; c_draws : list c17draw }.

Definition list_eqb (a b : list N) : bool :=
  Nat.eqb (length a) (length b) && forallb (fun '(x, y) => x =? y) (combine a b).
Definition pair_list_eqb (a b : list (N * N)) : bool :=
  Nat.eqb (length a) (length b) && forallb (fun '((x1, x2), (y1, y2)) => (x1 =? y1) && (x2 =? y2)) (combine a b).
Definition bins_eqb (a b : list (list (N * N))) : bool :=
  Nat.eqb (length a) (length b) && forallb (fun '(x, y) => pair_list_eqb x y) (combine a b).
Definition iout_eqb (a b : iout) : bool :=
  match a, b with
  | IPanic, IPanic => true
  | IQ x, IQ y => list_eqb x y
  | _, _ => false
  end.

Definition draw_stream (d : c17draw) : stream :=
  let pre := firstn (N.to_nat (d_used d)) (d_prefix d) in
  pre ++ match d_tail d with
         | TSplit seed => xs32_words (N.to_nat (d_used d) - length pre) seed
         | TConst w => const_words (N.to_nat (d_used d) - length pre) w
         end.

(* ---------------- the property, on the implementation's outputs ---------------- *)
Definition is_fa (st : strategy) : bool :=
  match st with StFA1Part _ | StFA1Stake _ | StFA2 _ => true | _ => false end.
(* exact rational floor(f * k) with f = s / total *)
Definition exact_floor (s total k : N) : N := s * k / total.
(* decay cap ceil(max_samples) for max_samples = mnum / mden; None = unbounded *)
Definition decay_cap (st : strategy) : option N :=
  match st with
  | StDecay mnum mden _ => if mden =? 0 then None else Some ((mnum + mden - 1) / mden)
  | _ => None
  end.
Definition committee_ok (st : strategy) (stakes : list N) (q : list N) : bool :=
  let n := lenN stakes in
  let total := sumN stakes in
  (lenN q =? quorum_size st)
  && forallb (fun v => v <? n) q
  && forallb (fun v => 0 <? nthN stakes v 0) q
  && (if is_fa st
      then forallb (fun '(v, s) => exact_floor s total (quorum_size st) <=? count_occ_N q v) (indexed 0 stakes)
      else true)
  && match decay_cap st with
     | Some cap => forallb (fun v => count_occ_N q v <=? cap) q
     | None => true
     end.
Definition positive_set (stakes : list N) : bool :=
  negb (lenN stakes =? 0) && forallb (fun s => 0 <? s) stakes && (sumN stakes <? W64).
(* AllSame needs an existing validator, a Turbine fanout of 0 is no configuration; everything else must be
   constructible for every positive set *)
Definition must_construct (st : strategy) (stakes : list N) : bool :=
  positive_set stakes && match st with StAllSame v _ => v <? lenN stakes | StTurbine f _ => 0 <? f | _ => true end.

Definition flagN (b : bool) (f : N) : N := if b then f else 0.
(* a property violation is reported under (case, sub) with bit 2; a disagreement between model and code is
   reported separately (sub + 500000, bit 1) so that it can never be folded into a known finding *)
Definition emit (cid sub : N) (mismatch violation : bool) : list (N * N * N) :=
  (if violation then [(cid, sub, 2)] else []) ++ (if mismatch then [(cid, sub + 500000, 1)] else []).

Definition run_draw (st : strategy) (stakes : list N) (sm : cres sampler) (i : N) (cid : N) (d : c17draw) : list (N * N * N) :=
  let mismatch :=
    match sm with
    | COk m =>
      match sample_quorum m (draw_stream d), d_out d with
      | Ok q [], IQ q' => negb (list_eqb q q')
      | Panic, IPanic => false
      | _, _ => true
      end
    | _ => true
    end in
  let violation :=
    match d_out d with
    | IPanic => negb (d_degenerate d)
    | IQ q => negb (committee_ok st stakes q) || negb (iout_eqb (d_out d) (d_out2 d))
    end in
  emit cid i mismatch violation.

Fixpoint run_draws (st : strategy) (stakes : list N) (sm : cres sampler) (i : N) (cid : N) (ds : list c17draw) : list (N * N * N) :=
  match ds with
  | [] => []
  | d :: r => run_draw st stakes sm i cid d ++ run_draws st stakes sm (i + 1) cid r
  end.

Definition run_c17 (c : c17case) : list (N * N * N) :=
  let st := c_strat c in
  let stakes := c_stakes c in
  let sm := construct_current st stakes in
  let ctor_mismatch :=
    match sm, c_ctor c with
    | COk m, ICtorOk bins =>
      match m with
      | SmPartition mb | SmFA1Part _ mb _ => negb (bins_eqb mb bins)
      | _ => false
      end
    | CPanic, ICtorPanic => false
    | _, _ => true
    end in
  let ctor_violation :=
    match c_ctor c with
    | ICtorPanic => must_construct st stakes
    | ICtorOk _ => (c_ctor2_panicked c && must_construct st stakes) || negb (c_bins_equal c)
    end in
  emit (c_id c) 0 ctor_mismatch ctor_violation ++ run_draws st stakes sm 1 (c_id c) (c_draws c).


(* ---------------- histories: one instance used through both traits ---------------- *)
(* op kinds: 0 = single draw (SamplingStrategy::sample), 1 = sample_quorum, 2 = reset() (decaying sampler only),
   3 = clone the instance now (from here on the clone gets the same calls with the same random words).
   out = what the instance returned (a single draw as a one-element committee), clone = what the live clone
   returned, fresh = what a freshly constructed instance returns for a sample_quorum on the same words. *)
Record hop := mkHop { o_kind : N; o_prefix : list N; o_tail : tail; o_used : N;
                      o_out : iout; o_clone : option iout; o_fresh : option iout }.
Record c17hist := mkHist { h_id : N; h_stakes : list N; h_strat : strategy; h_ops : list hop }.
Inductive c17any := CPlain (c : c17case) | CHist (h : c17hist).

Definition hop_stream (o : hop) : stream :=
  draw_stream (mkDraw (o_prefix o) (o_tail o) (o_used o) false IPanic IPanic).

(* state threaded through a history: the model's counters (None once the model lost track, i.e. after a panic),
   and `clean` = the code's contract promises zeroed counters here (fresh instance, after a completed
   sample_quorum, after reset()) *)
Fixpoint run_hist (st : strategy) (stakes : list N) (sm : sampler) (hid : N) (i : N)
                  (counts : option (list N)) (clean : bool) (ops : list hop) : list (N * N * N) :=
  match ops with
  | [] => []
  | o :: rest =>
    let s := hop_stream o in
    let stateless := match st with StDecay _ _ _ => false | _ => true end in
    (* model *)
    let '(mism, counts') :=
      match counts with
      | None => (false, None)
      | Some c =>
        if o_kind o =? 0 then
          match sample_single sm c s, o_out o with
          | Ok (v, c') [], IQ [v'] => (negb (v =? v'), Some c')
          | Panic, IPanic => (false, None)
          | _, _ => (true, None)
          end
        else if o_kind o =? 1 then
          match sample_quorum_from sm c s, o_out o with
          | Ok (q, c') [], IQ q' => (negb (list_eqb q q'), Some c')
          | Panic, IPanic => (false, None)
          | _, _ => (true, None)
          end
        else if o_kind o =? 2 then (false, Some (reset_counts sm c))
        else (false, Some c)
      end in
    (* the property on the implementation's outputs *)
    let out_ok :=
      match o_out o with
      | IPanic => (2 <=? o_kind o)                       (* reset / clone produce nothing; a draw must not panic *)
      | IQ q => if o_kind o =? 1 then committee_ok st stakes q
                else forallb (fun v => v <? lenN stakes) q
      end in
    let clone_ok := match o_clone o with Some c => iout_eqb c (o_out o) | None => true end in
    let pure_ok :=
      if (o_kind o =? 1) && (stateless || clean)
      then match o_fresh o with Some f => iout_eqb f (o_out o) | None => true end
      else true in
    let clean' :=
      if o_kind o =? 0 then false
      else if o_kind o =? 1 then (match o_out o with IQ _ => true | IPanic => false end)
      else if o_kind o =? 2 then true
      else clean in
    emit hid i mism (negb (out_ok && clone_ok && pure_ok))
    ++ run_hist st stakes sm hid (i + 1) counts' clean' rest
  end.

Definition run_c17hist (h : c17hist) : list (N * N * N) :=
  match construct_current (h_strat h) (h_stakes h) with
  | COk sm => run_hist (h_strat h) (h_stakes h) sm (h_id h) 1 (Some (fresh_counts sm)) true (h_ops h)
  | _ => [(h_id h, 500000, 1)]                             (* histories are only generated for constructible samplers *)
  end.

Definition run_c17any (c : c17any) : list (N * N * N) :=
  match c with CPlain c => run_c17 c | CHist h => run_c17hist h end.
Definition c17_run (cs : list c17any) : list (N * N * N) := flat_map run_c17any cs.
