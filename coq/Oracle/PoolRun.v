(* Case format for pool traces, model-vs-implementation comparison, and the executable
   property oracles of C03 / C04 / C06 / C07 / C08 / C18 evaluated on the IMPLEMENTATION's trace. *)
From Coq Require Import List NArith Bool.
From AG Require Import Gen.Params Model.Pool Model.PoolSpec.
Import ListNotations.
Open Scope N_scope.

Record pstep := mkStep {
  sp_op : pool_op; sp_res : presult; sp_events : list pevent; sp_repair : list blockid;
  sp_woken : list pevent; sp_obs : pobs }.
Inductive pcase := PCase (id : N) (stakes : list N) (own : N) (steps : list pstep).

(* ---------- decidable equalities ---------- *)
Fixpoint listN_eqb (a b : list N) : bool :=
  match a, b with [], [] => true | x :: a', y :: b' => (x =? y) && listN_eqb a' b' | _, _ => false end.
Definition vkind_eqb (a b : vkind) : bool :=
  match a, b with
  | KNotar h, KNotar h' | KNotarFb h, KNotarFb h' => h =? h'
  | KSkip, KSkip | KSkipFb, KSkipFb | KFinal, KFinal => true
  | _, _ => false
  end.
Definition vote_eqb (a b : vote) : bool :=
  (v_slot a =? v_slot b) && vkind_eqb (v_kind a) (v_kind b) && (v_signer a =? v_signer b).
Definition ckind_eqb (a b : ckind) : bool :=
  match a, b with
  | CNotar h, CNotar h' | CNotarFb h, CNotarFb h' | CFastFinal h, CFastFinal h' => h =? h'
  | CSkip, CSkip | CFinal, CFinal => true
  | _, _ => false
  end.
Definition cert_eqb (a b : cert) : bool :=
  (c_slot a =? c_slot b) && ckind_eqb (c_kind a) (c_kind b) && listN_eqb (c_s1 a) (c_s1 b)
  && listN_eqb (c_s2 a) (c_s2 b) && (c_stake a =? c_stake b).
Fixpoint list_eqb {A} (eqb : A -> A -> bool) (a b : list A) : bool :=
  match a, b with [], [] => true | x :: a', y :: b' => eqb x y && list_eqb eqb a' b' | _, _ => false end.
Definition pevent_eqb (a b : pevent) : bool :=
  match a, b with
  | EParentReady s p, EParentReady s' p' => (s =? s') && bid_eqb p p'
  | ESafeToNotar x, ESafeToNotar y => bid_eqb x y
  | ESafeToSkip s, ESafeToSkip s' => s =? s'
  | ECertCreated c, ECertCreated c' => cert_eqb c c'
  | EStandstill s cs vs, EStandstill s' cs' vs' => (s =? s') && list_eqb cert_eqb cs cs' && list_eqb vote_eqb vs vs'
  | EWaiterWoken s p, EWaiterWoken s' p' => (s =? s') && bid_eqb p p'
  | _, _ => false
  end.
Definition offence_eqb (a b : offence) : bool :=
  match a, b with
  | ONotarDifferentHash, ONotarDifferentHash | OSkipAndNotarize, OSkipAndNotarize
  | OSkipAndFinalize, OSkipAndFinalize | ONotarFallbackAndFinalize, ONotarFallbackAndFinalize => true
  | _, _ => false
  end.
Definition verdict_eqb (a b : verdict) : bool :=
  match a, b with
  | VOk, VOk | VDuplicate, VDuplicate | VOutOfBounds, VOutOfBounds | VNone, VNone => true
  | VSlashable o, VSlashable o' => offence_eqb o o'
  | _, _ => false
  end.
Definition presult_eqb (a b : presult) : bool :=
  match a, b with
  | RVerdict v, RVerdict v' => verdict_eqb v v'
  | RWait None, RWait None => true
  | RWait (Some x), RWait (Some y) => bid_eqb x y
  | RPanic, RPanic => true
  | _, _ => false
  end.
(* multiset equality (event order inside one step is canonicalised away) *)
Fixpoint remove_one {A} (eqb : A -> A -> bool) (x : A) (l : list A) : option (list A) :=
  match l with
  | [] => None
  | y :: t => if eqb x y then Some t else match remove_one eqb x t with Some t' => Some (y :: t') | None => None end
  end.
Fixpoint mset_eqb {A} (eqb : A -> A -> bool) (a b : list A) : bool :=
  match a with
  | [] => match b with [] => true | _ => false end
  | x :: a' => match remove_one eqb x b with Some b' => mset_eqb eqb a' b' | None => false end
  end.
Definition is_woken (e : pevent) : bool := match e with EWaiterWoken _ _ => true | _ => false end.

(* An ABANDONED waiter (the receiver is dropped right after registration, as a block producer that gives up on its
   window does): its wake-up cannot be observed.  The harness marks the OpWait step itself with a woken entry for its
   slot (a real OpWait step never wakes anybody); wake-ups of such slots are left out of the comparison and of the
   waiter clauses - what the pool stores and answers afterwards (parents_ready) is compared as always. *)
Definition is_wait (st : pstep) : bool := match sp_op st with OpWait _ => true | _ => false end.
Definition woken_obs (st : pstep) : list pevent := if is_wait st then [] else sp_woken st.
Definition abandoned_step (st : pstep) : bool := is_wait st && match sp_woken st with [] => false | _ => true end.
Definition abandoned (hist : list pstep) (s : slot) : bool :=
  existsb (fun h => abandoned_step h && match sp_op h with OpWait s' => s =? s' | _ => false end) hist.
Definition obs_eqb (a b : pobs) : bool :=
  (ob_finalized a =? ob_finalized b) && (ob_first_unpruned a =? ob_first_unpruned b)
  && mset_eqb N.eqb (ob_retained_slots a) (ob_retained_slots b)
  && list_eqb (fun x y => (fst x =? fst y) && list_eqb bid_eqb (snd x) (snd y)) (ob_parents_ready a) (ob_parents_ready b).

(* ---------- history helpers (for oracles; [hist] = earlier steps, most recent first) ---------- *)
Definition step_accepted_vote (st : pstep) : list vote :=
  match sp_op st, sp_res st with OpVote v, RVerdict VOk => [v] | _, _ => [] end.
Definition accepted_votes (steps : list pstep) : list vote := flat_map step_accepted_vote steps.
Definition step_certs (st : pstep) : list cert :=
  flat_map (fun e => match e with ECertCreated c => [c] | _ => [] end) (sp_events st).
Definition all_certs (steps : list pstep) : list cert := flat_map step_certs steps.
Definition step_blocks (st : pstep) : list (blockid * blockid) :=
  match sp_op st, sp_res st with OpBlock b p, RVerdict _ => [(b, p)] | _, _ => [] end.
Definition has_vote (vs : list vote) (s : slot) (k : vkind) (v : vidx) : bool :=
  existsb (vote_eqb (mkVote s k v)) vs.
Definition voters_of (e : epoch) (vs : list vote) (s : slot) (k : vkind) : list vidx :=
  filter (fun v => has_vote vs s k v) (vals e).
Definition ctag (k : ckind) : N := match k with CNotar _ => 0 | CNotarFb _ => 1 | CSkip => 2 | CFastFinal _ => 3 | CFinal => 4 end.
Definition same_cert_class (a b : cert) : bool :=
  (c_slot a =? c_slot b) && (ctag (c_kind a) =? ctag (c_kind b))
  && match c_kind a, c_kind b with CNotarFb h, CNotarFb h' => h =? h' | _, _ => true end.
Fixpoint nodupN (l : list N) : bool := match l with [] => true | x :: t => negb (memN x t) && nodupN t end.
(* ---------- C03 oracle ---------- *)
Definition cert_justified (e : epoch) (acc : list vote) (c : cert) : bool :=
  let '(k1, k2) := cert_vote_kinds (c_kind c) in
  listN_eqb (c_s1 c) (voters_of e acc (c_slot c) k1)
  && listN_eqb (c_s2 c) (match k2 with Some k => voters_of e acc (c_slot c) k | None => [] end)
  && (c_stake c =? stake_sum e (c_s1 c) + stake_sum e (c_s2 c)).
(* all certificate classes that the accepted votes of slot s justify *)
Definition due_classes (e : epoch) (acc : list vote) (s : slot) (hashes : list hash) : list (N * option hash) :=
  let st k := stake_sum e (voters_of e acc s k) in
  flat_map (fun h =>
     (if is_quorum e (st (KNotar h)) then [(0, None)] else []) ++
     (if is_quorum e (st (KNotar h) + st (KNotarFb h)) then [(1, Some h)] else []) ++
     (if is_strong_quorum e (st (KNotar h)) then [(3, None)] else [])) hashes
  ++ (if is_quorum e (st KSkip + st KSkipFb) then [(2, None)] else [])
  ++ (if is_quorum e (st KFinal) then [(4, None)] else []).
Definition class_present (cs : list cert) (s : slot) (cl : N * option hash) : bool :=
  existsb (fun c => (c_slot c =? s) && (ctag (c_kind c) =? fst cl)
                    && match snd cl, c_kind c with Some h, CNotarFb h' => h =? h' | Some _, _ => false | None, _ => true end) cs.
Definition hashes_of_votes (vs : list vote) (s : slot) : list hash :=
  fold_right sset_insert [] (flat_map (fun v => if v_slot v =? s then match v_kind v with KNotar h | KNotarFb h => [h] | _ => [] end else []) vs).

Definition c03_step_ok (e : epoch) (hist : list pstep) (st : pstep) : bool :=
  let acc := accepted_votes (st :: hist) in
  let earlier := all_certs hist in
  let now := step_certs st in
  forallb (cert_threshold_ok e) now
  && match sp_op st with
     | OpVote v =>
       forallb (cert_justified e acc) now
       && match sp_res st with
          | RVerdict VOk =>
            forallb (class_present (now ++ earlier) (v_slot v)) (due_classes e acc (v_slot v) (hashes_of_votes acc (v_slot v)))
          | _ => true
          end
     | _ => true
     end
  && forallb (fun c => negb (existsb (same_cert_class c) earlier)) now
  && (fix nd (l : list cert) := match l with [] => true | c :: t => negb (existsb (same_cert_class c) t) && nd t end) now.

(* ---------- C04 oracle ---------- *)
Definition c04_step_ok (hist : list pstep) (st : pstep) : bool :=
  match sp_op st, sp_res st with
  | OpVote v, RVerdict r =>
    let mine := filter (fun w => (v_slot w =? v_slot v) && (v_signer w =? v_signer v)) (accepted_votes hist) in
    let offs := flat_map (fun w => match conflicts (v_kind w) (v_kind v) with Some o => [o] | None => [] end) mine in
    let dup := existsb (fun w => equivalent (v_kind w) (v_kind v)) mine in
    match r with
    | VOutOfBounds => true                         (* bounds are C08's subject *)
    | VSlashable o => existsb (offence_eqb o) offs
    | VDuplicate => match offs with [] => dup | _ => false end
    | VOk => match offs with [] => negb dup | _ => false end
    | VNone => false
    end
  | OpVote _, _ => false
  | _, _ => true
  end.

(* ---------- C06 oracle: safe-to-notar / safe-to-skip ---------- *)
Definition all_blocks (steps : list pstep) : list (blockid * blockid) := flat_map step_blocks steps.
Definition all_events (steps : list pstep) : list pevent := flat_map sp_events steps.
Definition notar_stake_of (e : epoch) (acc : list vote) (s : slot) (h : hash) : N := stake_sum e (voters_of e acc s (KNotar h)).
Definition skip_stake_of (e : epoch) (acc : list vote) (s : slot) : N := stake_sum e (voters_of e acc s KSkip).
Definition own_voted_other (e : epoch) (acc : list vote) (s : slot) (h : hash) : bool :=
  has_vote acc s KSkip (own e)
  || existsb (fun v => (v_slot v =? s) && (v_signer v =? own e)
                       && match v_kind v with KNotar h' => negb (h' =? h) | _ => false end) acc.
Definition parent_certified (certs : list cert) (p : blockid) : bool :=
  existsb (fun c => (c_slot c =? fst p)
                    && match c_kind c with CNotar h | CNotarFb h | CFastFinal h => h =? snd p | _ => false end) certs.
Definition s2n_cond (e : epoch) (acc : list vote) (blocks : list (blockid * blockid)) (certs : list cert) (b : blockid) : bool :=
  let ns := notar_stake_of e acc (fst b) (snd b) in
  own_voted_other e acc (fst b) (snd b)
  && (is_weak_quorum e ns || (is_weakest_quorum e ns && is_quorum e (ns + skip_stake_of e acc (fst b))))
  && existsb (fun bp => bid_eqb (fst bp) b && (bid_eqb (snd bp) (0, 0) || parent_certified certs (snd bp))) blocks.
Definition top_notar_of (e : epoch) (acc : list vote) (s : slot) : N :=
  fold_right N.max 0 (map (notar_stake_of e acc s) (hashes_of_votes acc s)).
Definition nos_of (e : epoch) (acc : list vote) (s : slot) : N :=
  stake_sum e (filter (fun v => has_vote acc s KSkip v
                                || existsb (fun w => (v_slot w =? s) && (v_signer w =? v)
                                                     && match v_kind w with KNotar _ => true | _ => false end) acc) (vals e)).
Definition own_notarized (e : epoch) (acc : list vote) (s : slot) : bool :=
  existsb (fun w => (v_slot w =? s) && (v_signer w =? own e) && match v_kind w with KNotar _ => true | _ => false end) acc.
Definition s2s_cond (e : epoch) (acc : list vote) (s : slot) : bool :=
  own_notarized e acc s && is_weak_quorum e (nos_of e acc s - top_notar_of e acc s).
Definition ev_s2n (evs : list pevent) (b : blockid) : bool :=
  existsb (fun x => match x with ESafeToNotar b' => bid_eqb b b' | _ => false end) evs.
Definition ev_s2s (evs : list pevent) (s : slot) : bool :=
  existsb (fun x => match x with ESafeToSkip s' => s =? s' | _ => false end) evs.
Fixpoint count_ev (f : pevent -> bool) (l : list pevent) : nat :=
  match l with [] => O | x :: t => (if f x then 1 else 0)%nat + count_ev f t end.

(* ---------- specification closure shared by the C07 / C08 oracles ---------- *)
(* what the held certificates and known parent links justify (Spec of C07/C08):
   direct_final(s,b) = fast-final cert for (s,b), or final cert for s and notar cert for (s,b);
   final* = closure of direct_final under known parent links; skipped* = slots strictly between a
   final* block and its known parent *)
Definition has_cert (cs : list cert) (s : slot) (tag : N) (h : option hash) : bool :=
  existsb (fun c => (c_slot c =? s) && (ctag (c_kind c) =? tag)
                    && match h, cert_hash c with Some x, Some y => x =? y | None, _ => true | Some _, None => false end) cs.
Definition direct_finals (cs : list cert) : list blockid :=
  flat_map (fun c => match c_kind c with
                     | CFastFinal h => [(c_slot c, h)]
                     | CNotar h => if has_cert cs (c_slot c) 4 None then [(c_slot c, h)] else []
                     | _ => []
                     end) cs.
Definition bmem (b : blockid) (l : list blockid) : bool := existsb (bid_eqb b) l.
Fixpoint close_finals (fuel : nat) (blocks : list (blockid * blockid)) (fin : list blockid) : list blockid :=
  match fuel with
  | O => fin
  | S f =>
    let more := flat_map (fun bp => if bmem (fst bp) fin && negb (bmem (snd bp) fin) then [snd bp] else []) blocks in
    match more with [] => fin | _ => close_finals f blocks (fin ++ more) end
  end.
Definition finals_star (cs : list cert) (blocks : list (blockid * blockid)) : list blockid :=
  close_finals (S (length blocks)) blocks (direct_finals cs).
Definition skipped_star (fin : list blockid) (blocks : list (blockid * blockid)) (t : slot) : bool :=
  existsb (fun bp => bmem (fst bp) fin && (fst (snd bp) <? t) && (t <? fst (fst bp))) blocks.
Definition spec_nf (cs : list cert) (fin : list blockid) (b : blockid) : bool :=
  bid_eqb b (0, 0) || has_cert cs (fst b) 0 (Some (snd b)) || has_cert cs (fst b) 1 (Some (snd b))
  || has_cert cs (fst b) 3 (Some (snd b)) || bmem b fin.
Definition spec_sk (cs : list cert) (fin : list blockid) (blocks : list (blockid * blockid)) (t : slot) : bool :=
  has_cert cs t 2 None || skipped_star fin blocks t.
Definition ready_spec (cs : list cert) (blocks : list (blockid * blockid)) (s : slot) (b : blockid) : bool :=
  let fin := finals_star cs blocks in
  is_window_start s && (fst b <? s) && spec_nf cs fin b
  && forallb (spec_sk cs fin blocks) (seqN (fst b + 1) (N.to_nat (s - fst b - 1))).
Definition spec_decided (cs : list cert) (blocks : list (blockid * blockid)) (t : slot) : bool :=
  let fin := finals_star cs blocks in
  existsb (fun b => fst b =? t) fin || skipped_star fin blocks t.
Fixpoint decided_prefix (fuel : nat) (cs : list cert) (blocks : list (blockid * blockid)) (f : slot) : slot :=
  match fuel with
  | O => f
  | S k => if spec_decided cs blocks (f + 1) then decided_prefix k cs blocks (f + 1) else f
  end.
(* soundness (every signal justified, at most once) is checked at every step; completeness at the step whose
   operation concerned that slot (the signal must have been raised by the end of that step), for retained
   slots that are not yet decided (a slot that is finalized / implicitly finalized or skipped by what the node
   holds needs no fallback vote any more: block registrations for decided slots are ignored by the pool) *)
Definition c06_step_ok (e : epoch) (hist : list pstep) (st : pstep) : bool :=
  let acc := accepted_votes (st :: hist) in
  let blocks := all_blocks (st :: hist) in
  let certs := all_certs (st :: hist) in
  let before := all_events hist in
  let now := sp_events st in
  let sound :=
    forallb (fun x => match x with
                      | ESafeToNotar b => s2n_cond e acc blocks certs b && negb (ev_s2n before b)
                                          && Nat.eqb (count_ev (fun y => match y with ESafeToNotar b' => bid_eqb b b' | _ => false end) now) 1
                      | ESafeToSkip s => s2s_cond e acc s && negb (ev_s2s before s)
                                         && Nat.eqb (count_ev (fun y => match y with ESafeToSkip s' => s =? s' | _ => false end) now) 1
                      | _ => true
                      end) now in
  let in_bounds s := (ob_first_unpruned (sp_obs st) <=? s) && negb (spec_decided certs blocks s) in
  let complete :=
    forallb (fun bp => let b := fst bp in
                       negb (in_bounds (fst b)) || negb (s2n_cond e acc blocks certs b) || ev_s2n (now ++ before) b
                       (* "a certificate the node holds": certificates of pruned slots are gone, a block registered
                          after its parent's slot was pruned cannot be signalled (it skips a finalized slot anyway) *)
                       || negb (existsb (fun bp' => bid_eqb (fst bp') b
                                                    && (bid_eqb (snd bp') (0, 0)
                                                        || (parent_certified certs (snd bp')
                                                            && (ob_first_unpruned (sp_obs st) <=? fst (snd bp'))))) blocks)) blocks
    && forallb (fun s => negb (in_bounds s) || negb (s2s_cond e acc s) || ev_s2s (now ++ before) s)
               (fold_right sset_insert [] (map v_slot acc)) in
  sound && complete.

(* candidate parents: every block mentioned by a certificate or a registration, and genesis *)
Definition known_blocks (cs : list cert) (blocks : list (blockid * blockid)) : list blockid :=
  (0, 0) :: flat_map (fun c => match cert_hash c with Some h => [(c_slot c, h)] | None => [] end) cs
  ++ flat_map (fun bp => [fst bp; snd bp]) blocks.

(* ---------- C07 oracle: parent-ready ---------- *)
Definition ev_pr (evs : list pevent) (s : slot) (b : blockid) : bool :=
  existsb (fun x => match x with EParentReady s' b' => (s =? s') && bid_eqb b b' | _ => false end) evs.
Definition c07_step_ok (e : epoch) (hist : list pstep) (st : pstep) : bool :=
  let cs := all_certs (st :: hist) in
  let blocks := all_blocks (st :: hist) in
  let before := all_events hist in
  let now := sp_events st in
  let obs := sp_obs st in
  let query s := match alookup s (ob_parents_ready obs) with Some l => l | None => [] end in
  (* soundness + once + announcements agree with the query *)
  forallb (fun x => match x with
                    | EParentReady s b =>
                      ready_spec cs blocks s b && negb (ev_pr before s b)
                      && Nat.eqb (count_ev (fun y => match y with EParentReady s' b' => (s =? s') && bid_eqb b b' | _ => false end) now) 1
                      && ((s <? ob_first_unpruned obs) || bmem b (query s))
                    | _ => true
                    end) now
  && forallb (fun sl => forallb (fun b => ready_spec cs blocks (fst sl) b) (snd sl)) (ob_parents_ready obs)
  (* completeness: for every retained window start s and every candidate parent b that has not been pruned
     (marks for pruned slots are deliberately ignored - their windows are decided), spec => reported *)
  && forallb (fun sl => (fst sl <? ob_first_unpruned obs)
                        || forallb (fun b => (fst b <? ob_first_unpruned obs)
                                             || negb (ready_spec cs blocks (fst sl) b) || bmem b (snd sl)) (known_blocks cs blocks))
             (ob_parents_ready obs)
  (* waiters: an immediate answer is the minimal ready parent; a woken waiter receives a ready parent;
     a registered waiter has been woken as soon as the slot has a ready parent *)
  && match sp_op st, sp_res st with
     | OpWait s, RWait (Some b) => match bid_sort (query s) with m :: _ => bid_eqb m b | [] => false end
     | OpWait s, RWait None => match query s with [] => true | _ => false end
     | _, _ => true
     end
  && forallb (fun x => match x with EWaiterWoken s b => ready_spec cs blocks s b | _ => true end) (woken_obs st)
  && forallb (fun h => match sp_op h, sp_res h with
                       | OpWait s, RWait None =>
                         abandoned_step h
                         || (s <? ob_first_unpruned obs) || match query s with [] => true | _ => false end
                         || existsb (fun x => match x with EWaiterWoken s' _ => s =? s' | _ => false end)
                                    (flat_map woken_obs (st :: hist))
                       | _, _ => true
                       end) hist.

(* ---------- C08 oracle: finality tracking and pruning ---------- *)
Definition max_slot_of (l : list blockid) : slot := fold_right N.max 0 (map fst l).
Definition c08_step_ok (e : epoch) (hist : list pstep) (st : pstep) : bool :=
  let cs := all_certs (st :: hist) in
  let blocks := all_blocks (st :: hist) in
  let obs := sp_obs st in
  let prev_first := match hist with h :: _ => ob_first_unpruned (sp_obs h) | [] => 0 end in
  let prev_fin := match hist with h :: _ => ob_finalized (sp_obs h) | [] => 0 end in
  (* highest finalized slot: never decreases and equals what the held certificates justify *)
  (prev_fin <=? ob_finalized obs)
  && (ob_finalized obs =? max_slot_of (direct_finals cs))
  (* watermark = end of the maximal decided prefix (nothing undecided is dropped, nothing decided is kept back) *)
  && (ob_first_unpruned obs =? decided_prefix (S (length cs + length blocks + N.to_nat (ob_finalized obs))) cs blocks 0)
  (* nothing older than the watermark is retained *)
  && forallb (fun s => ob_first_unpruned obs <=? s) (ob_retained_slots obs)
  (* old slots are refused, undecided ones accepted *)
  && match sp_op st, sp_res st with
     | OpVote v, RVerdict r =>
       Bool.eqb (match r with VOutOfBounds => true | _ => false end)
                ((v_slot v <? prev_first) || (prev_fin + 2 * SLOTS_PER_EPOCH <=? v_slot v))
     | OpCert c, RVerdict r =>
       Bool.eqb (match r with VOutOfBounds => true | _ => false end)
                ((c_slot c <? prev_first) || (prev_fin + 2 * SLOTS_PER_EPOCH <=? c_slot c))
     | _, _ => true
     end.

(* ---------- C18 oracle: standstill recovery bundle ---------- *)
Definition cert_mem (c : cert) (l : list cert) : bool := existsb (cert_eqb c) l.
Definition vote_mem (v : vote) (l : list vote) : bool := existsb (vote_eqb v) l.
Fixpoint feed_certs (e : epoch) (p : pool) (cs : list cert) : pool :=
  match cs with
  | [] => p
  | c :: t => let '(p', _, _) := pool_step e p (OpCert c) in feed_certs e p' t
  end.
Definition c18_step_ok (e : epoch) (hist : list pstep) (st : pstep) : bool :=
  match sp_op st with
  | OpStandstill =>
    match sp_res st, sp_events st with
    | RVerdict _, [EStandstill s cs vs] =>
      let fin := ob_finalized (sp_obs st) in
      let held := all_certs hist in
      let mine := filter (fun v => (v_signer v =? own e) && (fin <? v_slot v)) (accepted_votes hist) in
      (s =? fin + 1)
      (* certificates proving the highest finalized slot *)
      && ((fin =? 0)
          || existsb (fun c => (c_slot c =? fin) && (ctag (c_kind c) =? 3)) cs
          || (existsb (fun c => (c_slot c =? fin) && (ctag (c_kind c) =? 4)) cs
              && existsb (fun c => (c_slot c =? fin) && (ctag (c_kind c) =? 0)) cs))
      (* every certificate held for later slots, nothing the node does not hold, nothing older *)
      && forallb (fun c => negb (fin <? c_slot c) || cert_mem c cs) held
      && forallb (fun c => cert_mem c held && (fin <=? c_slot c)) cs
      (* exactly the own votes for later slots *)
      && forallb (fun v => vote_mem v vs) mine
      && forallb (fun v => vote_mem v mine) vs
      (* sufficiency: a fresh node fed only the bundle reaches the same finalized slot and the same
         ready parents for every later window *)
      && (let p2 := feed_certs e pool_init cs in
          (finalized_slot p2 =? fin)
          && forallb (fun sl => (fst sl <=? fin)
                                || list_eqb bid_eqb (bid_sort (pt_parents_ready (p_prt p2) (fst sl))) (snd sl))
                     (ob_parents_ready (sp_obs st)))
    | _, _ => false            (* includes RPanic: recovery must be safe in every state *)
    end
  | _ => true
  end.

(* ---------- runner ---------- *)
Definition queried (st : pstep) : list slot := map fst (ob_parents_ready (sp_obs st)).

Definition flag (b : bool) (f : N) : N := if b then f else 0.

(* selector: which property's oracle is evaluated on the implementation trace *)
Definition oracle_ok (sel : N) (e : epoch) (hist : list pstep) (st : pstep) : bool :=
  match sp_res st, sel, sp_op st with
  | RPanic, 18, OpStandstill => false           (* recovery must never panic *)
  | RPanic, _, _ => true                        (* other panics are C10's subject; partial outputs are not judged *)
  | _, _, _ =>
  match sel with
  | 3 => c03_step_ok e hist st
  | 4 => c04_step_ok hist st
  | 6 => c06_step_ok e hist st
  | 7 => c07_step_ok e hist st
  | 8 => c08_step_ok e hist st
  | 18 => c18_step_ok e hist st
  | _ => true
  end end.

Fixpoint run_steps (sel : N) (e : epoch) (p : pool) (hist : list pstep) (k : N) (steps : list pstep) (id : N)
  : list (N * N * N) :=
  match steps with
  | [] => []
  | st :: rest =>
    let '(p', res, out) := pool_step e p (sp_op st) in
    let mev := filter (fun x => negb (is_woken x)) (po_events out) in
    let mwk := filter (fun x => match x with EWaiterWoken s _ => negb (abandoned (st :: hist) s) | _ => false end)
                      (po_events out) in
    (* a panicking step is compared by its outcome only: the implementation may have emitted
       part of its outputs before unwinding *)
    let same :=
      presult_eqb res (sp_res st)
      && match res with
         | RPanic => true
         | _ => mset_eqb pevent_eqb mev (sp_events st)
                && mset_eqb bid_eqb (po_repair out) (sp_repair st)
                && mset_eqb pevent_eqb mwk (woken_obs st)
                && obs_eqb (observe p' (queried st)) (sp_obs st)
         end in
    (* the same oracle on the model's own outputs (must never fail, by the theorems) *)
    let fl := N.lor (flag (negb same) 1) (flag (negb (oracle_ok sel e hist st)) 2) in
    (if fl =? 0 then [] else [(id, k, fl)]) ++ run_steps sel e p' (st :: hist) (k + 1) rest id
  end.

Definition run_pcase (sel : N) (c : pcase) : list (N * N * N) :=
  match c with
  | PCase id stakes own steps => run_steps sel (mkEpoch stakes own) pool_init [] 0 steps id
  end.
Definition pool_run (sel : N) (cs : list pcase) : list (N * N * N) := flat_map (run_pcase sel) cs.
