(* C15 case format, model-vs-implementation comparison and hash-free property oracle. *)
From Coq Require Import String Uint63 List NArith Bool.
From AG Require Import Lib.Sha256 Lib.Hex Model.Merkle Model.MerkleSha.
Import ListNotations.

Inductive c15query :=
  Q (kind : N) (leaf : string) (idx : N) (root : option string) (proof : list string)
    (impl_check impl_last : bool).

Inductive c15case :=
  C15 (id : N) (leaves : list string) (impl_root : string)
      (impl_proofs : list (N * list string)) (queries : list c15query).

Fixpoint proofs_eqb (a b : list (list int)) : bool :=
  match a, b with
  | [], [] => true
  | x :: a', y :: b' => bytes_eqb x y && proofs_eqb a' b'
  | _, _ => false
  end.

(* ---- hash-free specification of what verification must answer ---- *)
Definition width_log (n : nat) : N := N.log2_up (N.of_nat n).   (* height of the tree over n leaves *)
(* (indices can be huge: never convert an out-of-range index to nat) *)
Definition padded_leaf (leaves : list (list int)) (i : N) : list int :=
  if N.ltb i (N.of_nat (length leaves)) then nth (N.to_nat i) leaves [] else [].
Definition all_empty_right (leaves : list (list int)) (i : N) : bool :=
  if N.ltb i (N.of_nat (length leaves))
  then forallb (fun l => match l with [] => true | _ => false end) (skipn (S (N.to_nat i)) leaves)
  else true.

(* spec_check: the only (leaf, idx, proof-length, root) combinations that may verify, given that
   the root is the tree's root (no collision): *)
Definition spec_may_verify (leaves : list (list int)) (leaf : list int) (idx : N) (plen : nat)
           (root_is_tree_root : bool) : bool :=
  root_is_tree_root && N.ltb idx (2 ^ width_log (length leaves)) &&
  N.eqb (N.of_nat plen) (width_log (length leaves)) && bytes_eqb leaf (padded_leaf leaves idx).

Definition flag (b : bool) (f : N) : N := if b then f else 0%N.

(* flags: 1 = model and implementation disagree; 2 = implementation violates the property
   (accepts what must be rejected / rejects an honest proof); 4 = model violates it (never, by the theorems) *)
Definition run_query (leaves : list (list int)) (model_root : list int) (honest : list (N * list (list int)))
           (q : c15query) : N :=
  match q with
  | Q kind leaf idx root proof ic il =>
    let leafb := hex leaf in
    let r := match root with Some r => hex r | None => model_root end in
    let root_ok := bytes_eqb r model_root in
    let p := map hex proof in
    let mc := s_check leafb idx r p in
    let ml := s_check_last leafb idx r p in
    let may := spec_may_verify leaves leafb idx (length p) root_ok in
    let is_honest := existsb (fun ip => N.eqb (fst ip) idx && proofs_eqb (snd ip) p) honest
                     && root_ok && bytes_eqb leafb (padded_leaf leaves idx) in
    let right_empty := all_empty_right leaves idx in
    (* kinds 13 / 14 carry a SYNTHETIC root (not the case's tree): the maximal-height last-leaf proof made of the
       canonical empty-subtree roots verifies as it is; lengthened by any further entries it must fail *)
    let viol (c l : bool) :=
        match kind with
        | 13%N => negb (c && l)
        | 14%N => c || l
        | _ => (c && negb may) || (l && negb (c && right_empty)) || (is_honest && negb c)
               || (is_honest && right_empty && negb l)
        end in
    N.lor (flag (negb (Bool.eqb mc ic) || negb (Bool.eqb ml il)) 1)
          (N.lor (flag (viol ic il) 2) (flag (viol mc ml) 4))
  end.

Fixpoint number_from {A} (k : N) (l : list A) : list (N * A) :=
  match l with [] => [] | x :: t => (k, x) :: number_from (N.succ k) t end.

Definition run_case (c : c15case) : list (N * N * N) :=
  match c with
  | C15 id leaves iroot iproofs queries =>
    let lb := map hex leaves in
    let lv := s_levels lb in
    let mroot := root sha_empty0 lv in
    let tree_flag := flag (negb (bytes_eqb mroot (hex iroot))) 1 in
    let honest := map (fun ip => (fst ip, map hex (snd ip))) iproofs in
    let proof_flags := map (fun ip =>
         (id, (1000000 + fst ip)%N,
          flag (negb (proofs_eqb (create_proof sha_pair sha_empty0 lv (fst ip)) (snd ip))) 1)) honest in
    let qflags := map (fun kq => (id, fst kq, run_query lb mroot honest (snd kq))) (number_from 0 queries) in
    filter (fun t => negb (N.eqb (snd t) 0))
           ((id, 999999%N, tree_flag) :: proof_flags ++ qflags)
  end.

Definition c15_run (cs : list c15case) : list (N * N * N) := flat_map run_case cs.
