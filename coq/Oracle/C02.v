(* Case format for multi-node simulation runs (harness/src/sim.rs), the per-node model-vs-implementation
   comparison over Model/Node.v, and two executable oracles evaluated on the IMPLEMENTATION's recorded run:
     c02_run : progress after stabilisation (C02) - plus the agreement checks, which every run must pass
     c01_run : finalization agreement (C01) only (used with runs that contain Byzantine equivocation
               before and after stabilisation)
   A run records, for every correct node, the exact sequence of inputs it received (virtual time, input)
   and what the real PoolImpl + Votor produced (pool verdict, pool events in order, woken block-producer
   waiters, repair requests, Votor broadcasts in order, timer schedules, Pool::finalized_slot afterwards).

   Flags (case, sub, bits):  bit 1 = model differs from implementation  (sub = node * 100000 + step index,
                                       or 990000+ for a malformed run record)
                             bit 2 = the implementation's run violates the property (sub = one of the
                                       fixed ids below, the harness attaches the signature strings). *)
From Coq Require Import List NArith Bool.
From AG Require Import Gen.Params Model.Timers Model.Pool Model.PoolSpec Model.Votor Model.Node Oracle.PoolRun Oracle.VotorRun.
Import ListNotations.
Open Scope N_scope.

Inductive role := RCorrect | RCrashed | RByz.

Record nstep := mkNS {
  ns_t : N;                       (* virtual time, ms *)
  ns_in : nin;
  ns_res : presult;
  ns_ev : list pevent;            (* PoolEvents received by Votor, in order *)
  ns_wk : list pevent;            (* EWaiterWoken: oneshot of wait_for_parent_ready fired *)
  ns_rp : list blockid;
  ns_out : list vout;             (* broadcasts (VBVote / VBCert), in order *)
  ns_tm : list slot;              (* windows for which set_timeouts ran *)
  ns_fin : slot;                  (* Pool::finalized_slot() after the step *)
  ns_vp : bool }.                 (* Votor panicked *)

(* compact forms of the common quiet steps *)
Definition sv (t : N) (v : vote) (fin : slot) := mkNS t (NVote v) (RVerdict VOk) [] [] [] [] [] fin false.
Definition sd (t : N) (v : vote) (fin : slot) := mkNS t (NVote v) (RVerdict VDuplicate) [] [] [] [] [] fin false.
Definition sx (t : N) (v : vote) (fin : slot) := mkNS t (NVote v) (RVerdict VOutOfBounds) [] [] [] [] [] fin false.
Definition cd (t : N) (c : cert) (fin : slot) := mkNS t (NCert c) (RVerdict VDuplicate) [] [] [] [] [] fin false.
Definition cx (t : N) (c : cert) (fin : slot) := mkNS t (NCert c) (RVerdict VOutOfBounds) [] [] [] [] [] fin false.
Definition sq (t : N) (i : nin) (fin : slot) := mkNS t i (RVerdict VNone) [] [] [] [] [] fin false.

Record run := mkRun {
  r_id : N;
  r_stakes : list N;
  r_roles : list role;
  r_gst : N;                      (* stabilisation time: every message sent at t is delivered by max(t, gst) + DELTA *)
  r_horizon : N;                  (* first window for which the simulation no longer plays the leader / timers *)
  r_strict : bool;                (* no message is ever lost: the time bounds of the progress oracle apply *)
  r_blocks : list (blockid * blockid * vidx);   (* every block proposed: id, parent, proposer *)
  r_traces : list (vidx * list nstep) }.        (* one per correct validator *)

(* ---------- timing (Model/Timers.v): D_BLOCK / D_FIRST mirror the private DELTA_BLOCK / DELTA_FIRST_SLICE of
   src/consensus.rs; the timeout schedule itself is MEASURED from the real timer task on every run (Gen/Params.v
   TIMER_CRASHED_MS / TIMER_SLOT_MS) and the simulation arms its timers at the measured offsets ---------- *)
(* all timers of a window have fired this long after set_timeouts *)
Definition D_WINDOW_TIMERS : N := window_timers_done.

(* ---------- per-node correspondence ---------- *)
Definition woken (e : pevent) : bool := match e with EWaiterWoken _ _ => true | _ => false end.

Fixpoint run_nsteps (e : epoch) (nd : node) (k : N) (steps : list nstep) (id base : N) : list (N * N * N) :=
  match steps with
  | [] => []
  | st :: rest =>
    let '(nd', o) := node_step e nd (ns_in st) in
    let same :=
      presult_eqb (no_res o) (ns_res st)
      && list_eqb pevent_eqb (filter (fun x => negb (woken x)) (no_events o)) (ns_ev st)
      && mset_eqb pevent_eqb (filter woken (no_events o)) (ns_wk st)
      && list_eqb bid_eqb (no_repair o) (ns_rp st)
      && list_eqb vout_eqb (filter is_bcast (no_out o)) (ns_out st)
      && listN_eqb (timeouts_of (no_out o)) (ns_tm st)
      && (finalized_slot (nd_pool nd') =? ns_fin st)
      && Bool.eqb (no_vpanic o) (ns_vp st) in
    if same then run_nsteps e nd' (k + 1) rest id base else [(id, base + k, 1)]
  end.

Definition corr_run (r : run) : list (N * N * N) :=
  flat_map (fun vt => run_nsteps (mkEpoch (r_stakes r) (fst vt)) node_init 0 (snd vt) (r_id r) (fst vt * 100000)) (r_traces r).

(* ---------- derived facts of a run ---------- *)
Definition n_of (r : run) : N := N.of_nat (length (r_stakes r)).
Definition leader (r : run) (w : N) : vidx := w mod n_of r.
Definition role_of (r : run) (v : vidx) : role := nth (N.to_nat v) (r_roles r) RCrashed.
Definition is_correct (r : run) (v : vidx) : bool := match role_of r v with RCorrect => true | _ => false end.
Definition correct_ids (r : run) : list vidx := filter (is_correct r) (seqN 0 (length (r_stakes r))).
Definition total (r : run) : N := sumN (r_stakes r).
Definition correct_stake (r : run) : N := sumN (map (fun v => nth (N.to_nat v) (r_stakes r) 0) (correct_ids r)).

Definition tcerts (tr : list nstep) : list (N * cert) :=
  flat_map (fun st => flat_map (fun e => match e with ECertCreated c => [(ns_t st, c)] | _ => [] end) (ns_ev st)) tr.
Definition tsets (tr : list nstep) : list (slot * N) := flat_map (fun st => map (fun s => (s, ns_t st)) (ns_tm st)) tr.
Definition set_time (sets : list (slot * N)) (s : slot) : option N :=
  if s =? 0 then Some 0 (* Votor::new *) else alookup s sets.
Fixpoint fin_time (tr : list nstep) (s : slot) : option N :=
  match tr with [] => None | st :: rest => if s <=? ns_fin st then Some (ns_t st) else fin_time rest s end.
Definition last_fin (tr : list nstep) : slot := fold_left (fun _ st => ns_fin st) tr 0.

Definition omin (a b : option N) : option N :=
  match a, b with Some x, Some y => Some (N.min x y) | Some x, None => Some x | None, y => y end.
(* first time any correct node armed the timers of window w (ParentReady or a final certificate) *)
Definition window_t0 (r : run) (w : N) : option N :=
  fold_left (fun acc vt => omin acc (set_time (tsets (snd vt)) (w * SLOTS_PER_WINDOW))) (r_traces r) None.
Definition after_gst (r : run) (w : N) : option N :=
  match window_t0 r w with Some t => if r_gst r <=? t then Some t else None | None => None end.

Definition wslots (w : N) : list slot := filter (fun s => 1 <=? s) (seqN (w * SLOTS_PER_WINDOW) (N.to_nat SLOTS_PER_WINDOW)).
Definition blocks_in (r : run) (s : slot) : list (blockid * blockid * vidx) :=
  filter (fun x => fst (fst (fst x)) =? s) (r_blocks r).
Definition window_silent (r : run) (w : N) : bool := forallb (fun s => match blocks_in r s with [] => true | _ => false end) (wslots w).

Definition is_ckind (f : ckind -> bool) (s : slot) (tc : N * cert) : bool := (c_slot (snd tc) =? s) && f (c_kind (snd tc)).
Definition k_final (k : ckind) := match k with CFinal => true | _ => false end.
Definition k_skip (k : ckind) := match k with CSkip => true | _ => false end.
Definition k_ff (h : hash) (k : ckind) := match k with CFastFinal h' => h =? h' | _ => false end.
Definition direct_final (cs : list (N * cert)) : list blockid :=
  flat_map (fun tc => let c := snd tc in
              match c_kind c with
              | CFastFinal h => [(c_slot c, h)]
              | CNotar h => if existsb (is_ckind k_final (c_slot c)) cs then [(c_slot c, h)] else []
              | _ => []
              end) cs.

Definition parent_of (r : run) (b : blockid) : option blockid :=
  match filter (fun x => bid_eqb (fst (fst x)) b) (r_blocks r) with x :: _ => Some (snd (fst x)) | [] => None end.
(* a = b, or a is reached from b by parent links *)
Fixpoint is_ancestor (r : run) (fuel : nat) (a b : blockid) : bool :=
  bid_eqb a b ||
  match fuel with
  | O => false
  | S f => if fst a <? fst b then match parent_of r b with Some p => is_ancestor r f a p | None => false end else false
  end.
Definition anc (r : run) (a b : blockid) : bool := is_ancestor r (S (length (r_blocks r))) a b.
Definition finalized_at (r : run) (df : list blockid) (b : blockid) : bool := existsb (anc r b) df.

(* ---------- C01: agreement on the implementation's certificates ---------- *)
Definition SUB_CONFLICT : N := 900011.   (* two correct nodes finalize different blocks for one slot *)
Definition SUB_FORK : N := 900012.       (* two finalized blocks not on one chain *)
Definition SUB_FINSKIP : N := 900013.    (* a slot both directly finalized and skip-certified *)
Definition SUB_SAFETY_PANIC : N := 900014.  (* pool panicked at a correct node (finality tracker: "consensus safety violation") *)

Fixpoint dedup_bids (l : list blockid) : list blockid :=
  match l with [] => [] | x :: t => if existsb (bid_eqb x) t then dedup_bids t else x :: dedup_bids t end.

Definition agreement_flags (r : run) : list (N * N * N) :=
  let per := map (fun vt => let cs := tcerts (snd vt) in (direct_final cs, cs)) (r_traces r) in
  (* blocks some correct node finalized directly (fast-final certificate, or final + notar certificates) *)
  let all_df := dedup_bids (flat_map fst per) in
  let conflict := existsb (fun a => existsb (fun b => (fst a =? fst b) && negb (snd a =? snd b)) all_df) all_df in
  let fork := existsb (fun a => existsb (fun b => (fst a <? fst b) && negb (anc r a b)) all_df) all_df in
  (* a directly finalized slot must not be skip-certified anywhere (an ancestor that is only implicitly
     finalized may legitimately carry both a notar-fallback and a skip certificate) *)
  let skipped := flat_map (fun p => flat_map (fun tc => match c_kind (snd tc) with CSkip => [c_slot (snd tc)] | _ => [] end) (snd p)) per in
  let finskip := existsb (fun d => memN (fst d) skipped) all_df in
  let panic := existsb (fun vt => existsb (fun st => match ns_res st with RPanic => true | _ => false end) (snd vt)) (r_traces r) in
  (if conflict then [(r_id r, SUB_CONFLICT, 2)] else []) ++
  (if fork then [(r_id r, SUB_FORK, 2)] else []) ++
  (if finskip then [(r_id r, SUB_FINSKIP, 2)] else []) ++
  (if panic then [(r_id r, SUB_SAFETY_PANIC, 2)] else []).

(* ---------- C02: progress once the network is timely ---------- *)
Definition SUB_STALL : N := 900001.        (* (i) a correct node's finalized slot stops short of the last good window *)
Definition SUB_NOSKIP : N := 900002.       (* (ii) a silent leader's window is not skip-certified / blocks the next window *)
Definition SUB_NOTFINAL : N := 900003.     (* (iii) a correct leader's block of a post-stabilisation window is not finalized (or too late / skipped) *)
Definition SUB_NOFAST : N := 900004.       (* (iv) >= 80 % correct, block not finalized within one voting round by a fast-finalization certificate *)
Definition SUB_NOPROPOSAL : N := 900005.   (* a correct leader never proposed in its post-stabilisation window *)
Definition SUB_VOTOR_PANIC : N := 900006.  (* Votor panicked at a correct node *)

Definition le_opt (a : option N) (bound : N) : bool := match a with Some t => t <=? bound | None => false end.

Definition windows (r : run) : list N := seqN 0 (N.to_nat (r_horizon r)).

(* (iii) + (iv) for one window with a correct leader that starts after stabilisation *)
Definition good_window_flags (r : run) (w t0 : N) : list (N * N * N) :=
  let strong := total r * STRONG_QUORUM_NUM <=? correct_stake r * STRONG_QUORUM_DEN in
  flat_map (fun s =>
    let i := s - w * SLOTS_PER_WINDOW in
    match filter (fun x => snd x =? leader r w) (blocks_in r s) with
    | [] => [(r_id r, SUB_NOPROPOSAL, 2)]
    | x :: _ =>
      let b := fst (fst x) in
      flat_map (fun vt =>
        let tr := snd vt in
        let cs := tcerts tr in
        let fin_ok := finalized_at r (direct_final cs) b && negb (existsb (is_ckind k_skip s) cs)
                      && (negb (r_strict r) || le_opt (fin_time tr s) (t0 + (i + 1) * D_BLOCK + 5 * DELTA_MS)) in
        let one_round := t0 + (i + 1) * D_BLOCK + 3 * DELTA_MS in
        let fast_ok := negb strong
                       || ((existsb (is_ckind (k_ff (snd b)) s) cs || le_opt (fin_time tr s) one_round)
                           && (negb (r_strict r) || le_opt (fin_time tr s) one_round)) in
        (if fin_ok then [] else [(r_id r, SUB_NOTFINAL, 2)]) ++ (if fast_ok then [] else [(r_id r, SUB_NOFAST, 2)])) (r_traces r)
    end) (wslots w).

(* (ii) for one window with a faulty leader that starts after stabilisation *)
Definition faulty_window_flags (r : run) (w t0 : N) : list (N * N * N) :=
  let silent := window_silent r w in
  let bound := t0 + D_WINDOW_TIMERS + (if silent then 4 else 12) * DELTA_MS in
  flat_map (fun vt =>
    let tr := snd vt in
    let cs := tcerts tr in
    let next_ready := match set_time (tsets tr) ((w + 1) * SLOTS_PER_WINDOW) with
                      | Some t => negb (r_strict r) || (t <=? bound)
                      | None => (* the node may have moved on through a later finalization *) (w + 1) * SLOTS_PER_WINDOW <=? last_fin tr
                      end in
    let skipped := negb silent || forallb (fun s => existsb (is_ckind k_skip s) cs || (s <=? last_fin tr) && negb (r_strict r)) (wslots w) in
    if next_ready && skipped then [] else [(r_id r, SUB_NOSKIP, 2)]) (r_traces r).

Definition progress_flags (r : run) : list (N * N * N) :=
  let per_window :=
    flat_map (fun w =>
      match after_gst r w with
      | None => []
      | Some t0 => if is_correct r (leader r w) then good_window_flags r w t0 else faulty_window_flags r w t0
      end) (windows r) in
  (* (i): at the end of the run every correct node has finalized the last good post-stabilisation window *)
  let good := filter (fun w => match after_gst r w with Some _ => is_correct r (leader r w) | None => false end) (windows r) in
  let target := fold_left (fun acc w => N.max acc (w * SLOTS_PER_WINDOW + SLOTS_PER_WINDOW - 1)) good 0 in
  (* no window at all started after stabilisation although the simulation ran on for 45 virtual seconds
     (four standstill recoveries): the run is stuck in a window that began before stabilisation *)
  let stall := (r_horizon r =? 0) || existsb (fun vt => last_fin (snd vt) <? target) (r_traces r) in
  let vpanic := existsb (fun vt => existsb ns_vp (snd vt)) (r_traces r) in
  per_window ++ (if stall then [(r_id r, SUB_STALL, 2)] else []) ++ (if vpanic then [(r_id r, SUB_VOTOR_PANIC, 2)] else []).

(* ---------- well-formedness of the record itself (harness bugs must not pass silently) ---------- *)
Definition wf_flags (r : run) : list (N * N * N) :=
  let ids_ok := listN_eqb (map fst (r_traces r)) (correct_ids r) in
  let roles_ok := N.of_nat (length (r_roles r)) =? n_of r in
  (* every block a correct node was shown is in the block table *)
  let blocks_ok := forallb (fun vt => forallb (fun st =>
                      match ns_in st with
                      | NBlock s h p => existsb (fun x => bid_eqb (fst (fst x)) (s, h) && bid_eqb (snd (fst x)) p) (r_blocks r)
                      | NPoolBlock b p => existsb (fun x => bid_eqb (fst (fst x)) b && bid_eqb (snd (fst x)) p) (r_blocks r)
                      | _ => true end) (snd vt)) (r_traces r) in
  if ids_ok && roles_ok && blocks_ok then [] else [(r_id r, 990000, 1)].

Fixpoint dedup (l : list (N * N * N)) : list (N * N * N) :=
  match l with
  | [] => []
  | x :: t => if existsb (fun y => (fst (fst x) =? fst (fst y)) && (snd (fst x) =? snd (fst y))) t then dedup t else x :: dedup t
  end.

Definition c02_run_one (r : run) : list (N * N * N) :=
  dedup (wf_flags r ++ corr_run r ++ progress_flags r ++ agreement_flags r).
Definition c01_run_one (r : run) : list (N * N * N) :=
  dedup (wf_flags r ++ corr_run r ++ agreement_flags r).
Definition c02_run (rs : list run) : list (N * N * N) := flat_map c02_run_one rs.
Definition c01_run (rs : list run) : list (N * N * N) := flat_map c01_run_one rs.

(* summary used by the harness statistics self-check: how many windows the progress oracle actually judged *)
Definition judged_windows (r : run) : N * N :=
  fold_left (fun acc w => match after_gst r w with
                          | Some _ => if is_correct r (leader r w) then (fst acc + 1, snd acc) else (fst acc, snd acc + 1)
                          | None => acc end) (windows r) (0, 0).
