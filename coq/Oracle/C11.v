(* C11 case format, model-vs-implementation comparison and the property oracle on the
   implementation's outputs.  Imports Model only.

   Bytes travel as "limbs" (7 bytes per primitive int literal, left aligned) because Coq parses
   those ~8x faster than string literals.

   The external libraries are instantiated from what the harness recorded:
     Reed-Solomon  a table of codewords (data shards computed by the model itself, coding shards
                   recorded from the implementation's shred output); the decoder answers "the data
                   of the codeword all supplied shards agree with" (this IS the MDS premise, applied
                   to the recorded codeword); hostile cases carry the library's answer explicitly
     AES-CTR       the pair (plaintext, ciphertext) under the recorded key, both directions
     Ed25519       signatures are interned to numbers; the leader's signature is recorded *)
From Coq Require Import Uint63 List NArith ZArith Bool.
From AG Require Import Lib.Sha256 Lib.Hex Gen.Params Model.Merkle Model.MerkleSha Model.Shredder Model.ShredderSha.
Import ListNotations.
Open Scope N_scope.

(* ---- limbs ---- *)
Definition limb_bytes (x : int) : list int :=
  [ ((x >> 48) land 255)%uint63; ((x >> 40) land 255)%uint63; ((x >> 32) land 255)%uint63;
    ((x >> 24) land 255)%uint63; ((x >> 16) land 255)%uint63; ((x >> 8) land 255)%uint63; (x land 255)%uint63 ].
Definition unlimb (n : N) (l : list int) : ibytes := firstn (N.to_nat n) (flat_map limb_bytes l).

(* ---- case format ---- *)
Inductive ishred := IS (is_data : bool) (slot idx : N) (last : bool) (sidx : N) (data : ibytes)
                       (sig : N) (proof : list ibytes) (root : ibytes).
Inductive ires :=
| IOk (slot idx : N) (last : bool) (parent : option (N * ibytes)) (data : ibytes) (root : ibytes)
| IErr (e : N)      (* 0 InvalidLayout 1 NotEnoughShreds 2 TooMuchData 3 BadEncoding 4 InvalidMerkleTree *)
| IPanic.
Inductive arrspec := AMask (m : N) | AList (l : list (option N)).
(* The leader's 64 shreds in compact form (the harness uses it only after checking that they share
   header, signature and root, are indexed by position with the data shreds first, have one non-zero
   shard size and 6-element proofs that agree on every tree node they mention - then the expansion below
   is exactly what the implementation produced): all shard bytes in one blob, the 126 sibling nodes
   (levels 0..5) in another.  [extra] are further shreds of the case (table positions 64, 65, ...). *)
Inductive tablespec :=
| TExplicit (l : list ishred)
| TLeader (slot idx : N) (last : bool) (sig : N) (root : ibytes) (nd sb : N) (datas nodes : ibytes) (extra : list ishred).
(* kind 0: a subset of the leader's shreds, deshredded by the shredder that produced them;
   kind >= 1: anything else (other shredder, malicious leader, mixed slices, misplaced shreds) *)
Inductive c11sub :=
  Sub (sid kind v : N) (arr : arrspec)
      (forced : option (list ibytes))                       (* hostile: the decoder's answer (all originals) *)
      (enc : option (N * list ibytes * list ibytes))        (* hostile: one more codeword (nc, data, coding) *)
      (impl : ires) (impl_arr : arrspec) (valid_ok : bool).
Inductive c11case :=
| C11 (id v slot idx : N) (last : bool) (parent : option (N * ibytes)) (data key ct : ibytes)
      (impl_shred : option (option (list N)))               (* Some (Some refs) | Some None = TooMuchData | None = panic *)
      (table : tablespec) (subs : list c11sub)
| C11H (id : N) (ks : list (ibytes * ibytes * ibytes)) (table : list ishred) (subs : list c11sub)
(* payload-length sweep: all generated slices whose Reed-Solomon input has [len] bytes; per entry
   (shredder, has parent, data length, impl: 0 panic / 1 TooMuchData / 2 + shard size, round trip ok) *)
| C11Sizes (id len : N) (entries : list (N * bool * N * N * bool)).

Definition variant_of (v : N) : variant :=
  match v with 0 => Regular | 1 => CodingOnly | 2 => Aont | _ => Pets end.
Definition derr_code (e : derr) : N :=
  match e with InvalidLayout => 0 | NotEnoughShreds => 1 | TooMuchData => 2 | BadEncoding => 3 | InvalidMerkleTree => 4 end.

Definition mshred := @shred int ibytes N.
Definition to_mshred (s : ishred) : mshred :=
  match s with IS d slot idx last sidx data sg proof rt => mkShred d (mkHeader slot idx last) sidx data sg proof rt end.

Fixpoint list_eqb {A} (eqb : A -> A -> bool) (a b : list A) : bool :=
  match a, b with
  | [], [] => true
  | x :: a', y :: b' => eqb x y && list_eqb eqb a' b'
  | _, _ => false
  end.
Definition opt_eqb {A} (eqb : A -> A -> bool) (a b : option A) : bool :=
  match a, b with None, None => true | Some x, Some y => eqb x y | _, _ => false end.
Definition header_eqb (a b : header) : bool :=
  (h_slot a =? h_slot b) && (h_index a =? h_index b) && Bool.eqb (h_last a) (h_last b).
Definition shred_eqb (a b : mshred) : bool :=
  Bool.eqb (sh_is_data a) (sh_is_data b) && header_eqb (sh_header a) (sh_header b) && (sh_index a =? sh_index b)
  && bytes_eqb (sh_data a) (sh_data b) && (sh_sig a =? sh_sig b) && list_eqb bytes_eqb (sh_proof a) (sh_proof b)
  && bytes_eqb (sh_root a) (sh_root b).
Definition parent_eqb (a b : option (N * ibytes)) : bool :=
  opt_eqb (fun x y => (fst x =? fst y) && bytes_eqb (snd x) (snd y)) a b.

Definition positions : list N := map N.of_nat (seq 0 64).
Definition level_offset (h : N) : N := 128 - N.shiftr 128 h.      (* 0, 64, 96, 112, 120, 124 *)
Definition expand_table (t : tablespec) : list ishred :=
  match t with
  | TExplicit l => l
  | TLeader slot idx last sg rt nd sb datas nodes extra =>
    let ds := chunks sb datas in
    let ns := chunks 32 nodes in
    map (fun i => IS (i <? nd) slot idx last i (nth (N.to_nat i) ds []) sg
                     (map (fun h => nth (N.to_nat (level_offset h + N.lxor (N.shiftr i h) 1)) ns []) [0; 1; 2; 3; 4; 5])
                     rt) positions ++ extra
  end.
Definition arr_refs (a : arrspec) : list (option N) :=
  match a with
  | AMask m => map (fun i => if N.testbit m i then Some i else None) positions
  | AList l => l
  end.
Definition resolve (table : list mshred) (dflt : mshred) (a : arrspec) : list (option mshred) :=
  map (option_map (fun r => nth (N.to_nat r) table dflt)) (arr_refs a).
Definition count_some {A} (l : list (option A)) : N := lenN (present l).

(* ---- the external libraries as recorded tables ---- *)
Record codeword := mkCw { cw_nc : N; cw_data : list ibytes; cw_coding : list ibytes }.
Definition agrees (supplied : list (option ibytes)) (full : list ibytes) : bool :=
  (length supplied =? length full)%nat &&
  forallb (fun p => match fst p with None => true | Some x => bytes_eqb x (snd p) end) (combine supplied full).
Definition tbl_recover (forced : option (list ibytes)) (tbl : list codeword) (nc : N)
           (d_in c_in : list (option ibytes)) : list ibytes :=
  match find (fun cw => (cw_nc cw =? nc) && agrees d_in (cw_data cw) && agrees c_in (cw_coding cw)
                        && (DATA_SHREDS <=? count_some d_in + count_some c_in)) tbl with
  | Some cw => cw_data cw
  | None => match forced with Some d => d | None => [] end
  end.
Definition tbl_encode (tbl : list codeword) (nc : N) (d : list ibytes) : list ibytes :=
  match find (fun cw => (cw_nc cw =? nc) && list_eqb bytes_eqb (cw_data cw) d) tbl with
  | Some cw => cw_coding cw
  | None => []
  end.
Definition tbl_keystream (tbl : list (ibytes * ibytes * ibytes)) (key x : ibytes) : ibytes :=
  match find (fun e => bytes_eqb (fst (fst e)) key && bytes_eqb (snd (fst e)) x) tbl with
  | Some e => snd e
  | None => []
  end.
Definition memo_tree (known : list (list ibytes * list (list ibytes))) (leaves : list ibytes) : list (list ibytes) :=
  match find (fun e => list_eqb bytes_eqb (fst e) leaves) known with
  | Some e => snd e
  | None => i_real_tree leaves
  end.

Definition flag (b : bool) (f : N) : N := if b then f else 0.
Definition ires_is_err (r : ires) : bool := match r with IErr _ => true | _ => false end.
Definition refs_eqb (a b : list (option N)) : bool := list_eqb (opt_eqb N.eqb) a b.
Definition all_some_refs (a : list (option N)) : bool := forallb (fun o => match o with Some _ => true | None => false end) a.

(* model result vs implementation result (arrays compared by content) *)
Definition result_matches (table : list mshred) (dflt : mshred)
           (m : dres (@rslice int ibytes) * list (option mshred)) (impl : ires) (impl_arr : arrspec) : bool :=
  let arr_ok := list_eqb (opt_eqb shred_eqb) (snd m) (resolve table dflt impl_arr) in
  match fst m, impl with
  | DOk rsl, IOk slot idx last parent data rt =>
    let s := rs_slice rsl in
    header_eqb (sl_header s) (mkHeader slot idx last) && parent_eqb (sl_parent s) parent
    && bytes_eqb (sl_data s) data && bytes_eqb (rs_root rsl) rt && arr_ok
  | DErr e, IErr c => (derr_code e =? c) && arr_ok
  | DPanic, IPanic => arr_ok
  | _, _ => false
  end.

Definition run_sub (table : list mshred) (dflt : mshred) (tbl : list codeword)
           (ks : list (ibytes * ibytes * ibytes)) (known : list (list ibytes * list (list ibytes)))
           (honest_slice : option (header * option (N * ibytes) * ibytes * ibytes))   (* header, parent, data, leader root *)
           (cid : N) (s : c11sub) : list (N * N * N) :=
  match s with
  | Sub sid kind v arr forced enc impl impl_arr valid_ok =>
    let tbl' := match enc with Some (nc, d, c) => tbl ++ [mkCw nc d c] | None => tbl end in
    let input := resolve table dflt arr in
    let m := i_deshred (tbl_encode tbl') (tbl_recover forced tbl') (tbl_keystream ks) (memo_tree known) i_fast_proof
                       (variant_of v) input in
    let mism := negb (result_matches table dflt m impl impl_arr) in
    let cnt := count_some input in
    let unchanged := refs_eqb (arr_refs impl_arr) (arr_refs arr) in
    let viol :=
      match kind, honest_slice with
      | 0, Some (hdr, parent, data, rt) =>
        if DATA_SHREDS <=? cnt then
          negb (match impl with
                | IOk slot idx last p d r =>
                  header_eqb hdr (mkHeader slot idx last) && parent_eqb parent p && bytes_eqb data d
                  && bytes_eqb rt r && refs_eqb (arr_refs impl_arr) (map Some positions) && valid_ok
                | _ => false
                end)
        else negb (ires_is_err impl && unchanged)
      | _, _ =>
        match impl with
        | IOk _ _ _ _ _ _ => (cnt <? DATA_SHREDS) || negb (all_some_refs (arr_refs impl_arr) && valid_ok)
        | IErr _ => negb unchanged
        | IPanic => negb unchanged
        end
      end in
    let fl := N.lor (flag mism 1) (flag viol 2) in
    if fl =? 0 then [] else [(cid, sid, fl)]
  end.

Definition shreds_of (table : list mshred) (dflt : mshred) (refs : list N) : list mshred :=
  map (fun r => nth (N.to_nat r) table dflt) refs.

(* what the leader's output must look like, judged on the implementation's shreds alone *)
Definition leader_output_ok (v : variant) (hdr : header) (out : list mshred) : bool :=
  match out with
  | [] => false
  | s0 :: _ =>
    let sz := lenN (sh_data s0) in
    (lenN out =? TOTAL_SHREDS) && negb (sz =? 0) && negb (N.odd sz) && (sz <=? MAX_DATA_PER_SHRED)
    && forallb (fun p => let i := fst p in let s := snd p in
                  (sh_index s =? i) && Bool.eqb (sh_is_data s) (i <? data_out v) && header_eqb (sh_header s) hdr
                  && (lenN (sh_data s) =? sz) && (sh_sig s =? sh_sig s0) && bytes_eqb (sh_root s) (sh_root s0))
               (combine positions out)
    (* sampled Merkle proofs verify under the common root (all proofs are compared with the model's) *)
    && forallb (fun i => match nth_error out i with
                         | Some s => s_check (sh_data s) (sh_index s) (sh_root s0) (sh_proof s)
                         | None => false end) [0; 31; 32; 63]%nat
  end.

Definition dflt_shred : mshred := mkShred false (mkHeader 0 0 false) 0 [] 0 [] [].

Definition run_case (c : c11case) : list (N * N * N) :=
  match c with
  | C11 id vn slot idx last parent data key ct impl_shred table subs =>
    let v := variant_of vn in
    let tablem := map to_mshred (expand_table table) in
    let hdr := mkHeader slot idx last in
    let s := mkSlice hdr parent data in
    let pb := i_payload_bytes s in
    let ks := [(key, pb, ct); (key, ct, pb)] in
    let fits := lenN pb <=? max_data_size v in
    match impl_shred with
    | Some (Some refs) =>
      let out := shreds_of tablem dflt_shred refs in
      let coding := map sh_data (skipn (N.to_nat (data_out v)) out) in
      let sg := match out with s0 :: _ => sh_sig s0 | [] => 0 end in
      let rt := match out with s0 :: _ => sh_root s0 | [] => [] end in
      (* the data shards as the model computes them; the coding shards as recorded *)
      let d := match i_rs_shred (fun _ _ => []) (coding_out v) (i_rs_input (tbl_keystream ks) v s key) with
               | SOk rw => r_data rw | _ => [] end in
      let tbl := [mkCw (coding_out v) d coding] in
      let leaves := firstn (N.to_nat (data_out v)) d ++ coding in
      let lv := i_real_tree leaves in
      let known := [(leaves, lv)] in
      let m := i_shred_slice (tbl_encode tbl) (tbl_keystream ks) (fun _ _ => sg) (memo_tree known) i_fast_proof v s key in
      let mism := negb (match m with SOk mo => list_eqb shred_eqb mo out | _ => false end) in
      let viol := negb (fits && leader_output_ok v hdr out) in
      let fl := N.lor (flag mism 1) (flag viol 2) in
      (if fl =? 0 then [] else [(id, 0, fl)])
      ++ flat_map (run_sub tablem dflt_shred tbl ks known (Some (hdr, parent, data, rt)) id) subs
    | Some None =>
      (* the cipher key never leaves the implementation here; only lengths matter for the refusal *)
      let m := i_shred_slice (fun _ _ => []) (fun _ x => x) (fun _ _ => 0) i_real_tree i_fast_proof v s (repeat 0%uint63 (N.to_nat CIPHER_KEY_BYTES)) in
      let mism := negb (match m with SErrTooMuchData => true | _ => false end) in
      let fl := N.lor (flag mism 1) (flag fits 2) in
      if fl =? 0 then [] else [(id, 0, fl)]
    | None => [(id, 0, 3)]
    end
  | C11H id ks table subs =>
    let tablem := map to_mshred table in
    flat_map (run_sub tablem dflt_shred [] ks [] None id) subs
  | C11Sizes id len entries =>
    (* the sizing of ReedSolomonCoder::shred for this length, computed once by the model *)
    let m := match i_rs_shred (fun _ _ => []) DATA_SHREDS (repeat 0%uint63 (N.to_nat len)) with
             | SOk rw => match r_data rw with
                         | c :: _ => if (lenN (r_data rw) =? DATA_SHREDS) && forallb (fun x => lenN x =? lenN c) (r_data rw)
                                     then 2 + lenN c else 0
                         | [] => 0 end
             | SErrTooMuchData => 1
             | SPanic => 0
             end in
    flat_map (fun ke : N * (N * bool * N * N * bool) =>
      let k := fst ke in
      match snd ke : N * bool * N * N * bool with
      | (vn, has_parent, data_len, impl, ok) =>
        let v := variant_of vn in
        let pb_len := 1 + (if has_parent then 40 else 0) + 8 + data_len in
        let len' := pb_len + match v with Regular | CodingOnly => 0 | _ => CIPHER_KEY_BYTES end in
        let fits := pb_len <=? max_data_size v in
        let sb := impl - 2 in
        let viol := if fits
                    then negb ((2 <=? impl) && ok && negb (sb =? 0) && negb (N.odd sb) && (sb <=? MAX_DATA_PER_SHRED)
                               && (len' + 1 <=? DATA_SHREDS * sb) && (DATA_SHREDS * sb <=? len' + 2 * DATA_SHREDS))
                    else negb (impl =? 1) in
        let fl := N.lor (flag (negb ((m =? impl) && (len' =? len))) 1) (flag viol 2) in
        if fl =? 0 then [] else [(id, k, fl)]
      end) (combine (map N.of_nat (seq 0 (length entries))) entries)
  end.

Definition c11_run (cs : list c11case) : list (N * N * N) := flat_map run_case cs.
